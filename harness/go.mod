module verif/harness

go 1.25.0

require (
	github.com/anishathalye/porcupine v1.3.0
	github.com/pdfcpu/pdfcpu v0.0.0
)

replace github.com/pdfcpu/pdfcpu => /repo
