// Package fileprop builds the (operation × path-scenario) cases shared by the file-safety
// monitors C01 (faults), C02 (crash points) and C03 (success publication).
package fileprop

import (
	"fmt"
	"os"
	"path/filepath"
	"strings"

	"verif/harness/internal/fsx"
	"verif/harness/internal/opcat"
)

// Scenario names a relation between input and output paths.
type Scenario string

const (
	InPlace       Scenario = "inplace"       // out == "" → input is replaced
	NewOut        Scenario = "new"           // explicit output that does not exist
	Existing0644  Scenario = "existing-0644" // explicit output that exists
	Existing0600  Scenario = "existing-0600"
	Existing0755  Scenario = "existing-0755"
	OutDirMissing Scenario = "outdir-missing" // output inside a directory that does not exist (must fail cleanly)
	DirEmpty      Scenario = "dir-empty"      // DirOut: empty output directory
	DirExisting   Scenario = "dir-existing"   // DirOut: the outputs already exist (old content)
)

// Scenarios lists the scenarios that apply to op.
func Scenarios(op opcat.Op) []Scenario {
	if op.Kind == opcat.DirOut {
		return []Scenario{DirEmpty, DirExisting}
	}
	var s []Scenario
	if op.InPlace {
		s = append(s, InPlace)
	}
	if op.AppendsToOut {
		return append(s, Existing0644, Existing0600)
	}
	return append(s, NewOut, Existing0644, Existing0600, Existing0755, OutDirMissing)
}

// Case is one prepared sandbox.
type Case struct {
	Op       opcat.Op
	Sc       Scenario
	Root     string // sandbox root (monitor scope)
	Call     *opcat.Call
	Dest     []string // relative paths that the operation replaces/creates as outputs (known after Build)
	Inputs   []string // relative paths of inputs that must never change (excluding a Dest that is also input)
	Pristine fsx.Tree
	// Success is the tree after a fault-free run (names/modes are meaningful; bytes contain fresh IDs/dates).
	Success fsx.Tree
	// ExpectFail: the fault-free run itself must fail (OutDirMissing).
	ExpectFail bool

	// The following are set by internal/cliprop (cases driven through pkg/cli); zero for API cases.
	// Aux: paths tied to the destination (target of a symlinked destination, other name of a
	// hard-linked destination): like the destination they must never be seen damaged.
	Aux []string
	// Unjudged: paths that are not files to protect (the file that plays stdout).
	Unjudged []string
	// TmpDir: relative directory that plays $TMPDIR ("" = none).
	TmpDir string
	// AfterRestore re-establishes what a tree snapshot cannot express (hard links).
	AfterRestore func() error
}

func copyFile(src, dst string, mode os.FileMode) error {
	b, err := os.ReadFile(src)
	if err != nil {
		return err
	}
	if err := os.WriteFile(dst, b, 0o600); err != nil {
		return err
	}
	return os.Chmod(dst, mode)
}

func oldContent(fx, outName string) ([]byte, error) {
	if strings.HasSuffix(outName, ".pdf") {
		return os.ReadFile(filepath.Join(fx, opcat.FxOne))
	}
	return []byte("OLD CONTENT of " + outName + "\n"), nil
}

// Build creates the sandbox for (op, sc) under root (root is created / emptied), runs the
// operation once fault-free to learn the success tree, and restores the pristine state.
func Build(fx, root string, op opcat.Op, sc Scenario) (*Case, error) {
	if err := os.RemoveAll(root); err != nil {
		return nil, err
	}
	if err := os.MkdirAll(root, 0o755); err != nil {
		return nil, err
	}
	c := &Case{Op: op, Sc: sc, Root: root, Call: &opcat.Call{Dir: root}}
	need := append([]string{}, op.Extra...)
	if op.Input != "" {
		need = append(need, op.Input)
		c.Call.In = filepath.Join(root, op.Input)
	}
	for _, n := range need {
		if err := copyFile(filepath.Join(fx, n), filepath.Join(root, n), 0o644); err != nil {
			return nil, err
		}
	}
	mode := os.FileMode(0o644)
	switch sc {
	case Existing0600:
		mode = 0o600
	case Existing0755:
		mode = 0o755
	}
	switch sc {
	case InPlace:
		c.Call.Out = ""
		c.Dest = []string{op.Input}
	case NewOut:
		c.Call.Out = filepath.Join(root, op.OutName)
		c.Dest = []string{op.OutName}
	case Existing0644, Existing0600, Existing0755:
		c.Call.Out = filepath.Join(root, op.OutName)
		b, err := oldContent(fx, op.OutName)
		if err != nil {
			return nil, err
		}
		if err := os.WriteFile(c.Call.Out, b, 0o600); err != nil {
			return nil, err
		}
		if err := os.Chmod(c.Call.Out, mode); err != nil {
			return nil, err
		}
		c.Dest = []string{op.OutName}
	case OutDirMissing:
		c.Call.Out = filepath.Join(root, "missing", op.OutName)
		c.ExpectFail = true
	case DirEmpty, DirExisting:
		c.Call.Out = filepath.Join(root, "outdir")
		if err := os.MkdirAll(c.Call.Out, 0o755); err != nil {
			return nil, err
		}
	}
	for _, n := range need {
		isDest := false
		for _, d := range c.Dest {
			if d == n {
				isDest = true
			}
		}
		if !isDest {
			c.Inputs = append(c.Inputs, n)
		}
	}
	pr, err := fsx.Snapshot(root, true)
	if err != nil {
		return nil, err
	}
	c.Pristine = pr
	// learn the success tree
	rerr, pv := c.Run()
	if pv != nil {
		return nil, fmt.Errorf("fault-free run panicked: %v", pv)
	}
	if c.ExpectFail {
		if rerr == nil {
			return nil, fmt.Errorf("fault-free run into a missing directory succeeded")
		}
	} else if rerr != nil {
		return nil, fmt.Errorf("fault-free run failed: %w", rerr)
	}
	st, err := fsx.Snapshot(root, sc == DirExisting)
	if err != nil {
		return nil, err
	}
	c.Success = st
	if op.Kind == opcat.DirOut {
		for p, e := range st {
			if strings.HasPrefix(p, "outdir/") && e.Mode.IsRegular() {
				c.Dest = append(c.Dest, p)
			}
		}
		if len(c.Dest) == 0 {
			return nil, fmt.Errorf("fault-free run wrote no files into the output directory")
		}
	}
	if sc == DirExisting {
		// pristine = the outputs already exist with old content
		for _, d := range c.Dest {
			e := pr[d]
			e = st[d]
			e.Data = []byte("OLD CONTENT of " + d + "\n")
			e.Size = int64(len(e.Data))
			pr[d] = e
		}
		if err := fsx.Restore(root, pr); err != nil {
			return nil, err
		}
		pr2, err := fsx.Snapshot(root, true)
		if err != nil {
			return nil, err
		}
		c.Pristine = pr2
		// success tree must be learnt again on top of the existing outputs
		if rerr, pv := c.Run(); rerr != nil || pv != nil {
			return nil, fmt.Errorf("fault-free run onto existing outputs failed: %v %v", rerr, pv)
		}
		st2, err := fsx.Snapshot(root, false)
		if err != nil {
			return nil, err
		}
		c.Success = st2
	}
	if err := c.Reset(); err != nil {
		return nil, err
	}
	return c, nil
}

// Reset restores the pristine sandbox.
func (c *Case) Reset() error {
	if err := fsx.Restore(c.Root, c.Pristine); err != nil {
		return err
	}
	if c.AfterRestore != nil {
		return c.AfterRestore()
	}
	return nil
}

// Run executes the operation, recovering a panic.
func (c *Case) Run() (err error, panicVal any) {
	defer func() {
		if r := recover(); r != nil {
			panicVal = r
		}
	}()
	call := *c.Call
	return c.Op.Run(&call), nil
}
