// Package racelog reads the Go race detector's log files (GORACE=log_path=<prefix>, one file
// <prefix>.<pid> per process) and turns every "WARNING: DATA RACE" block into a stable key built
// from the two conflicting stacks' outermost pdfcpu frames.
package racelog

import (
	"os"
	"path/filepath"
	"sort"
	"strings"
)

// Frame is one stack frame of a report.
type Frame struct {
	Func string // e.g. github.com/pdfcpu/pdfcpu/pkg/font.UserFontMetrics()
	File string // file:line
}

// Block is one DATA RACE report.
type Block struct {
	Access [2]string  // "Write at 0x… by goroutine 8:" / "Previous read at …"
	Stack  [2][]Frame // innermost first
	Text   string     // the whole block
}

// Env returns the GORACE setting that makes the detector log to prefix and keep running.
func Env(prefix string) string {
	return "GORACE=halt_on_error=0 exitcode=0 log_path=" + prefix
}

// Read parses every log file <prefix>.* .
func Read(prefix string) ([]Block, error) {
	files, err := filepath.Glob(prefix + ".*")
	if err != nil {
		return nil, err
	}
	sort.Strings(files)
	var out []Block
	for _, f := range files {
		b, err := os.ReadFile(f)
		if err != nil {
			return nil, err
		}
		out = append(out, Parse(string(b))...)
	}
	return out, nil
}

// Parse splits a log into DATA RACE blocks.
func Parse(log string) []Block {
	var out []Block
	for _, chunk := range strings.Split(log, "==================") {
		if !strings.Contains(chunk, "WARNING: DATA RACE") {
			continue
		}
		bl := Block{Text: strings.TrimSpace(chunk)}
		n := 0
		for _, sec := range strings.Split(strings.ReplaceAll(chunk, "\r\n", "\n"), "\n\n") {
			lines := strings.Split(strings.Trim(sec, "\n"), "\n")
			// drop the WARNING line
			for len(lines) > 0 && (strings.TrimSpace(lines[0]) == "" || strings.HasPrefix(lines[0], "WARNING:")) {
				lines = lines[1:]
			}
			if len(lines) == 0 || n >= 2 {
				continue
			}
			h := lines[0]
			if !(strings.Contains(h, " at 0x") && strings.Contains(h, "by ")) {
				continue
			}
			bl.Access[n] = strings.TrimSpace(h)
			var fr []Frame
			for i := 1; i < len(lines); i++ {
				l := lines[i]
				if strings.HasPrefix(l, "      ") {
					if len(fr) > 0 {
						f := strings.TrimSpace(l)
						if j := strings.Index(f, " +0x"); j >= 0 {
							f = f[:j]
						}
						fr[len(fr)-1].File = f
					}
					continue
				}
				if strings.HasPrefix(l, "  ") {
					fr = append(fr, Frame{Func: strings.TrimSpace(l)})
				}
			}
			bl.Stack[n] = fr
			n++
		}
		out = append(out, bl)
	}
	return out
}

const pdfcpuPrefix = "github.com/pdfcpu/pdfcpu/"

// short turns "github.com/pdfcpu/pdfcpu/pkg/font.UserFontNames()" into "pkg/font.UserFontNames" and
// maps compiler-made closures (….func1, ….gowrap2, ….deferwrap1, ….func1.2) to their enclosing function.
func short(fn string) string {
	fn = strings.TrimSuffix(fn, "()")
	fn = strings.TrimPrefix(fn, pdfcpuPrefix)
	for {
		i := strings.LastIndex(fn, ".")
		if i < 0 {
			break
		}
		last := fn[i+1:]
		if strings.HasPrefix(last, "func") || strings.HasPrefix(last, "gowrap") || strings.HasPrefix(last, "deferwrap") || isDigits(last) {
			fn = fn[:i]
			continue
		}
		break
	}
	return fn
}

func isDigits(s string) bool {
	if s == "" {
		return false
	}
	for _, c := range s {
		if c < '0' || c > '9' {
			return false
		}
	}
	return true
}

// Outermost returns the outermost (closest to the goroutine's entry) frame of the stack that
// lies in pdfcpu's pkg/api or pkg/pdfcpu (any pdfcpu package if there is none), shortened;
// "" if the stack has no pdfcpu frame at all.
func Outermost(st []Frame) string {
	pick := func(pred func(string) bool) string {
		for i := len(st) - 1; i >= 0; i-- {
			if pred(st[i].Func) {
				return short(st[i].Func)
			}
		}
		return ""
	}
	if s := pick(func(f string) bool {
		return strings.HasPrefix(f, pdfcpuPrefix+"pkg/api.") || strings.HasPrefix(f, pdfcpuPrefix+"pkg/pdfcpu.") ||
			strings.HasPrefix(f, pdfcpuPrefix+"pkg/pdfcpu/")
	}); s != "" {
		return s
	}
	return pick(func(f string) bool { return strings.HasPrefix(f, pdfcpuPrefix) })
}

// Innermost returns the innermost pdfcpu frame of the stack, shortened ("" if none).
func Innermost(st []Frame) string {
	for _, f := range st {
		if strings.HasPrefix(f.Func, pdfcpuPrefix) {
			return short(f.Func)
		}
	}
	return ""
}

// Key is "<A>|<B>" of the two stacks' outermost pdfcpu entry points, sorted; a stack without a
// pdfcpu frame contributes "-".
func (b Block) Key() string {
	a, c := Outermost(b.Stack[0]), Outermost(b.Stack[1])
	if a == "" {
		a = "-"
	}
	if c == "" {
		c = "-"
	}
	if c < a {
		a, c = c, a
	}
	return a + "|" + c
}

// Site is "<A>|<B>" of the two stacks' innermost pdfcpu frames (where the memory is touched).
func (b Block) Site() string {
	a, c := Innermost(b.Stack[0]), Innermost(b.Stack[1])
	if c < a {
		a, c = c, a
	}
	return a + "|" + c
}

// HasFunc reports whether any frame of the two access stacks contains substr.
func (b Block) HasFunc(substr string) bool {
	for _, st := range b.Stack {
		for _, f := range st {
			if strings.Contains(f.Func, substr) {
				return true
			}
		}
	}
	return false
}
