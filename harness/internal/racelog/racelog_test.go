package racelog

import "testing"

const sample = `==================
WARNING: DATA RACE
Write at 0x00c0001a2000 by goroutine 21:
  runtime.mapassign_faststr()
      /go/src/internal/runtime/maps/runtime_faststr_swiss.go:263 +0x0
  github.com/pdfcpu/pdfcpu/pkg/font.doLoadUserFonts()
      /repo/pkg/font/metrics.go:441 +0x3c4
  github.com/pdfcpu/pdfcpu/pkg/font.ReloadUserFonts()
      /repo/pkg/font/metrics.go:465 +0x8f
  main.(*worker).startFontTraffic.func1()
      /verif/harness/cmd/c40/main.go:400 +0x1a4

Previous read at 0x00c0001a2000 by goroutine 33:
  runtime.mapaccess2_faststr()
      /go/src/internal/runtime/maps/runtime_faststr_swiss.go:162 +0x0
  github.com/pdfcpu/pdfcpu/pkg/font.userFont()
      /repo/pkg/font/metrics.go:669 +0xb0
  github.com/pdfcpu/pdfcpu/pkg/font.UserFont()
      /repo/pkg/font/metrics.go:676 +0x34
  github.com/pdfcpu/pdfcpu/pkg/pdfcpu/model.(*XRefTable).prepareFont.func1()
      /repo/pkg/pdfcpu/model/text.go:249 +0x50
  github.com/pdfcpu/pdfcpu/pkg/api.AddWatermarks()
      /repo/pkg/api/stamp.go:300 +0x2d0
  main.init.stamp.func16()
      /verif/harness/cmd/c40/ops.go:224 +0x1c4

Goroutine 21 (running) created at:
  main.(*worker).startFontTraffic()
      /verif/harness/cmd/c40/main.go:390 +0x1b0
==================
`

func TestParse(t *testing.T) {
	bs := Parse(sample)
	if len(bs) != 1 {
		t.Fatalf("%d blocks", len(bs))
	}
	b := bs[0]
	if got := b.Key(); got != "pkg/api.AddWatermarks|pkg/font.ReloadUserFonts" {
		t.Errorf("key %q", got)
	}
	if got := b.Site(); got != "pkg/font.doLoadUserFonts|pkg/font.userFont" {
		t.Errorf("site %q", got)
	}
	if !b.HasFunc("main.init.stamp") || b.HasFunc("nope") {
		t.Error("HasFunc")
	}
	if got := Outermost(b.Stack[1][:4]); got != "pkg/pdfcpu/model.(*XRefTable).prepareFont" {
		t.Errorf("closure frame %q", got)
	}
}
