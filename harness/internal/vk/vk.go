// Package vk is the verification kit shared by every property worker:
// tier/seed handling, evidence accounting, violation reporting with
// known-finding matching, replay files and exit-code discipline.
//
// Exit codes of a worker: 0 = property held on everything observed (KNOWN-FINDING
// lines allowed), 1 = at least one unlisted violation (a VIOLATION line was
// printed), 2 = the check itself is broken (observed nothing, setup failed).
package vk

import (
	"encoding/json"
	"fmt"
	"hash/fnv"
	"math/rand/v2"
	"os"
	"path/filepath"
	"runtime"
	"sort"
	"strconv"
	"strings"
	"sync"
	"time"
)

const maxSamples = 8

// T carries one run of one property check.
type T struct {
	ID    string
	Level string
	Tier  string // "quick" | "thorough"
	Seed  int64
	Root  string // /verif (or snapshot root)
	// Replay is non-nil when the worker was started with --replay <file>.
	Replay *ReplayFile

	start time.Time

	mu           sync.Mutex
	evals        int64
	distinctSet  map[uint64]struct{}
	distinctBulk int64
	samples      []any
	counters     map[string]int64
	inconclusive map[string]int64
	assumptions  []string
	rule         string
	exhaustive   bool
	extra        map[string]any

	known        map[string]string // key -> text
	vioByKey     map[string]int64
	vioOrder     []string
	vioWhat      map[string]string
	knownHits    map[string]int64
	replayHit    bool
	scratchDir   string
	shardI       int
	shardSamples int
	shardN       int
}

// ReplayFile is what a violation writes to /verif/replay and what --replay reads.
type ReplayFile struct {
	Property string          `json:"property"`
	Key      string          `json:"key"`
	What     string          `json:"what"`
	Tier     string          `json:"tier"`
	Seed     int64           `json:"seed"`
	Case     json.RawMessage `json:"case,omitempty"`
}

// Run is the main of every worker.
func Run(id, level string, f func(t *T)) {
	t := &T{
		ID: id, Level: level, start: time.Now(),
		distinctSet: map[uint64]struct{}{}, counters: map[string]int64{},
		inconclusive: map[string]int64{}, extra: map[string]any{},
		known: map[string]string{}, vioByKey: map[string]int64{}, vioWhat: map[string]string{},
		knownHits: map[string]int64{},
	}
	t.Root = os.Getenv("VERIF_ROOT")
	if t.Root == "" {
		t.Root = "/verif"
	}
	t.Tier = os.Getenv("VERIF_TIER")
	if t.Tier != "thorough" {
		t.Tier = "quick"
	}
	t.Seed = 1
	if s := os.Getenv("VERIF_SEED"); s != "" {
		if v, err := strconv.ParseInt(s, 10, 64); err == nil {
			t.Seed = v
		}
	}
	args := os.Args[1:]
	for i := 0; i < len(args); i++ {
		switch args[i] {
		case "quick", "thorough":
			t.Tier = args[i]
		case "--replay":
			if i+1 >= len(args) {
				t.Broken("--replay needs a file")
			}
			b, err := os.ReadFile(args[i+1])
			if err != nil {
				t.Broken("replay: %v", err)
			}
			var rf ReplayFile
			if err := json.Unmarshal(b, &rf); err != nil {
				t.Broken("replay: %v", err)
			}
			t.Replay = &rf
			t.Tier, t.Seed = rf.Tier, rf.Seed
			i++
		}
	}
	t.loadKnown()
	t.initShard()
	func() {
		defer func() {
			if r := recover(); r != nil {
				if b, ok := r.(brokenErr); ok {
					fmt.Fprintf(os.Stderr, "BROKEN: property=%s %s\n", t.ID, string(b))
					t.cleanup()
					if t.unknownViolations() > 0 {
						// violations were observed and reported before the harness gave up: they stand
						os.Exit(1)
					}
					os.Exit(2)
				}
				buf := make([]byte, 1<<16)
				buf = buf[:runtime.Stack(buf, false)]
				fmt.Fprintf(os.Stderr, "BROKEN: property=%s harness panic: %v\n%s\n", t.ID, r, buf)
				t.cleanup()
				os.Exit(2)
			}
		}()
		f(t)
	}()
	t.cleanup()
	os.Exit(t.finish())
}

type brokenErr string

// Broken aborts the run as a broken check (exit 2): neither pass nor violation.
func (t *T) Broken(format string, a ...any) {
	panic(brokenErr(fmt.Sprintf(format, a...)))
}

// Quick reports whether this is the quick tier.
func (t *T) Quick() bool { return t.Tier == "quick" }

// Pick returns q in the quick tier and th in the thorough tier.
func (t *T) Pick(q, th int) int {
	if t.Quick() {
		return q
	}
	return th
}

// RNG returns a deterministic PRNG for a named stream of this run's seed.
func (t *T) RNG(stream string) *rand.Rand {
	h := fnv.New64a()
	h.Write([]byte(stream))
	return rand.New(rand.NewPCG(uint64(t.Seed), h.Sum64()))
}

// RNGi is RNG for an indexed stream (one per case or per worker goroutine).
func (t *T) RNGi(stream string, i int) *rand.Rand {
	return t.RNG(stream + "#" + strconv.Itoa(i))
}

// Eval counts one evaluated case. distinctKey "" = trivial (counted as an
// evaluation only); otherwise the key identifies the non-trivial case.
func (t *T) Eval(distinctKey string) {
	if t.shardN > 0 {
		t.send(shardMsg{K: "eval", Key: distinctKey})
		return
	}
	t.mu.Lock()
	t.evals++
	if distinctKey != "" {
		h := fnv.New64a()
		h.Write([]byte(distinctKey))
		t.distinctSet[h.Sum64()] = struct{}{}
	}
	t.mu.Unlock()
}

// EvalBulk adds counts from an enumeration whose cases are distinct by
// construction (e.g. all byte strings of length 3): evals evaluated, of which
// nontrivial were non-trivial (counted by the caller's loop, not assumed).
func (t *T) EvalBulk(evals, nontrivial int64) {
	if t.shardN > 0 {
		t.send(shardMsg{K: "bulk", N: evals, M: nontrivial})
		return
	}
	t.mu.Lock()
	t.evals += evals
	t.distinctBulk += nontrivial
	t.mu.Unlock()
}

// Sample records one actual case (first few are kept).
func (t *T) Sample(v any) {
	if t.shardN > 0 {
		t.mu.Lock()
		t.shardSamples++
		n := t.shardSamples
		t.mu.Unlock()
		if n <= 2 {
			b, _ := json.Marshal(v)
			t.send(shardMsg{K: "sample", V: b})
		}
		return
	}
	t.mu.Lock()
	if len(t.samples) < maxSamples {
		t.samples = append(t.samples, v)
	}
	t.mu.Unlock()
}

// Count adds to a named observation counter (written under coverage.observed).
func (t *T) Count(name string, d int64) {
	if t.shardN > 0 {
		t.send(shardMsg{K: "count", Key: name, N: d})
		return
	}
	t.mu.Lock()
	t.counters[name] += d
	t.mu.Unlock()
}

// Counter reads a named counter.
func (t *T) Counter(name string) int64 {
	t.mu.Lock()
	defer t.mu.Unlock()
	return t.counters[name]
}

// Inconclusive records a case whose verdict could not be decided.
func (t *T) Inconclusive(kind string) {
	if t.shardN > 0 {
		t.send(shardMsg{K: "inconclusive", Key: kind})
		return
	}
	t.mu.Lock()
	t.inconclusive[kind]++
	t.mu.Unlock()
	fmt.Fprintf(os.Stderr, "INCONCLUSIVE: property=%s %s\n", t.ID, kind)
}

// Assume records an assumption for the evidence file.
func (t *T) Assume(s string) {
	if t.shardN > 0 {
		t.send(shardMsg{K: "assume", Key: s})
		return
	}
	t.mu.Lock()
	t.assumptions = append(t.assumptions, s)
	t.mu.Unlock()
}

// Rule records how cases are generated and what makes one non-trivial.
func (t *T) Rule(s string) { t.mu.Lock(); t.rule = s; t.mu.Unlock() }

// Exhaustive marks the run as a complete enumeration of a finite space.
func (t *T) Exhaustive(b bool) { t.mu.Lock(); t.exhaustive = b; t.mu.Unlock() }

// Extra stores an extra key under coverage.
func (t *T) Extra(k string, v any) { t.mu.Lock(); t.extra[k] = v; t.mu.Unlock() }

// Violate reports a violation. key is a stable identifier of WHAT fails (no
// spaces, independent of seed / run), what is human text, replayCase is any
// JSON-serialisable description of the failing case.
func (t *T) Violate(key, what string, replayCase any) {
	if t.shardN > 0 {
		var b []byte
		if replayCase != nil {
			b, _ = json.Marshal(replayCase)
		}
		t.send(shardMsg{K: "violate", Key: key, What: what, V: b})
		return
	}
	key = sanitizeKey(key)
	t.mu.Lock()
	defer t.mu.Unlock()
	if t.Replay != nil && key == t.Replay.Key {
		t.replayHit = true
	}
	if txt, ok := t.known[key]; ok {
		t.knownHits[key]++
		if t.knownHits[key] == 1 {
			fmt.Printf("KNOWN-FINDING: property=%s key=%s %s\n", t.ID, key, txt)
		}
		return
	}
	t.vioByKey[key]++
	if t.vioByKey[key] > 1 {
		return
	}
	t.vioOrder = append(t.vioOrder, key)
	t.vioWhat[key] = what
	var raw json.RawMessage
	if replayCase != nil {
		if b, err := json.Marshal(replayCase); err == nil {
			raw = b
		}
	}
	rf := ReplayFile{Property: t.ID, Key: key, What: what, Tier: t.Tier, Seed: t.Seed, Case: raw}
	h := fnv.New32a()
	h.Write([]byte(key))
	dir := filepath.Join(t.Root, "replay")
	_ = os.MkdirAll(dir, 0o755)
	path := filepath.Join(dir, fmt.Sprintf("%s-%08x.json", t.ID, h.Sum32()))
	b, _ := json.MarshalIndent(rf, "", " ")
	_ = os.WriteFile(path, b, 0o644)
	fmt.Printf("VIOLATION property=%s replay=%s\n", t.ID, path)
	fmt.Printf("  key=%s\n  %s\n", key, oneLine(what, 600))
}

// Violations returns the number of distinct unlisted violation keys so far.
// unknownViolations counts reported violations that are not listed known findings.
func (t *T) unknownViolations() int {
	t.mu.Lock()
	defer t.mu.Unlock()
	return len(t.vioOrder)
}

func (t *T) Violations() int { t.mu.Lock(); defer t.mu.Unlock(); return len(t.vioOrder) }

func oneLine(s string, n int) string {
	s = strings.ReplaceAll(s, "\n", " | ")
	if len(s) > n {
		s = s[:n] + "…"
	}
	return s
}

func sanitizeKey(k string) string {
	var b strings.Builder
	for _, r := range k {
		if r <= ' ' || r == 0x7f {
			b.WriteByte('_')
		} else {
			b.WriteRune(r)
		}
	}
	s := b.String()
	if len(s) > 200 {
		h := fnv.New64a()
		h.Write([]byte(s))
		s = s[:180] + fmt.Sprintf("~%016x", h.Sum64())
	}
	return s
}

// known_findings.txt lines:
//
//	finding: property=<id> key=<key> <what fails>
//	fixed: property=<id> <commit> <what failed>      (suppresses nothing)
func (t *T) loadKnown() {
	b, err := os.ReadFile(filepath.Join(t.Root, "known_findings.txt"))
	if err != nil {
		return
	}
	for _, ln := range strings.Split(string(b), "\n") {
		ln = strings.TrimSpace(ln)
		if !strings.HasPrefix(ln, "finding:") {
			continue
		}
		f := strings.Fields(strings.TrimPrefix(ln, "finding:"))
		if len(f) < 2 || f[0] != "property="+t.ID || !strings.HasPrefix(f[1], "key=") {
			continue
		}
		t.known[strings.TrimPrefix(f[1], "key=")] = strings.Join(f[2:], " ")
	}
}

// Scratch returns a per-process scratch directory under <root>/.cache/run (never /tmp),
// removed when the run ends.
func (t *T) Scratch() string {
	t.mu.Lock()
	defer t.mu.Unlock()
	if t.scratchDir == "" {
		base := filepath.Join(t.Root, ".cache", "run")
		_ = os.MkdirAll(base, 0o755)
		d, err := os.MkdirTemp(base, t.ID+"-")
		if err != nil {
			panic(brokenErr("scratch: " + err.Error()))
		}
		t.scratchDir = d
	}
	return t.scratchDir
}

func (t *T) cleanup() {
	if t.scratchDir != "" && os.Getenv("VERIF_KEEP") == "" {
		_ = os.RemoveAll(t.scratchDir)
	}
}

func (t *T) finish() int {
	if t.shardN > 0 {
		t.flushShard()
		return 0
	}
	t.mu.Lock()
	defer t.mu.Unlock()
	distinct := int64(len(t.distinctSet)) + t.distinctBulk
	cov := map[string]any{
		"evaluations":         t.evals,
		"distinct_nontrivial": distinct,
		"rule":                t.rule,
		"samples":             t.samples,
		"observed":            t.counters,
		"inconclusive":        t.inconclusive,
		"exhaustive":          t.exhaustive,
	}
	for k, v := range t.extra {
		cov[k] = v
	}
	kf := []string{}
	for k := range t.knownHits {
		kf = append(kf, k)
	}
	sort.Strings(kf)
	cov["known_findings_hit"] = kf
	if len(t.vioOrder) > 0 {
		cov["violation_keys"] = t.vioOrder
	}
	if t.samples == nil {
		cov["samples"] = []any{}
	}
	ev := map[string]any{
		"property_id": t.ID,
		"tier":        t.Tier,
		"seed":        t.Seed,
		"level":       t.Level,
		"coverage":    cov,
		"assumptions": t.assumptions,
		"wall_s":      time.Since(t.start).Seconds(),
		"violations":  len(t.vioOrder),
	}
	if t.assumptions == nil {
		ev["assumptions"] = []string{}
	}
	if t.Replay == nil {
		// evidence/ only ever describes runs against /repo itself: mutation trials against a
		// scratch worktree (VERIF_REPO) write elsewhere.
		dir := filepath.Join(t.Root, "evidence")
		if d := os.Getenv("VERIF_EVIDENCE_DIR"); d != "" {
			dir = d
		} else if r := os.Getenv("VERIF_REPO"); r != "" && r != "/repo" {
			dir = filepath.Join(t.Root, ".cache", "evidence-alt")
		}
		_ = os.MkdirAll(dir, 0o755)
		b, err := json.MarshalIndent(ev, "", " ")
		if err != nil {
			fmt.Fprintf(os.Stderr, "BROKEN: property=%s evidence: %v\n", t.ID, err)
			return 2
		}
		if err := os.WriteFile(filepath.Join(dir, t.ID+".json"), append(b, '\n'), 0o644); err != nil {
			fmt.Fprintf(os.Stderr, "BROKEN: property=%s evidence: %v\n", t.ID, err)
			return 2
		}
	}
	inc := int64(0)
	for _, v := range t.inconclusive {
		inc += v
	}
	fmt.Printf("SUMMARY property=%s tier=%s seed=%d evaluations=%d distinct_nontrivial=%d violations=%d known_findings=%d inconclusive=%d wall=%.1fs\n",
		t.ID, t.Tier, t.Seed, t.evals, distinct, len(t.vioOrder), len(t.knownHits), inc, time.Since(t.start).Seconds())
	if t.Replay != nil {
		if t.replayHit {
			fmt.Printf("REPLAY: reproduced key=%s\n", t.Replay.Key)
			if _, ok := t.known[t.Replay.Key]; ok {
				return 0
			}
			return 1
		}
		fmt.Printf("REPLAY: key=%s not reproduced\n", t.Replay.Key)
		return 0
	}
	if len(t.vioOrder) > 0 {
		return 1
	}
	if t.evals == 0 || distinct < 2 {
		fmt.Fprintf(os.Stderr, "BROKEN: property=%s observed nothing (evaluations=%d distinct=%d)\n", t.ID, t.evals, distinct)
		return 2
	}
	return 0
}

// Parallel runs f(i) for i in [0,n) on up to GOMAXPROCS goroutines.
func Parallel(n int, f func(i int)) {
	w := runtime.GOMAXPROCS(0)
	if w > n {
		w = n
	}
	if w < 1 {
		w = 1
	}
	var wg sync.WaitGroup
	var mu sync.Mutex
	next := 0
	for g := 0; g < w; g++ {
		wg.Add(1)
		go func() {
			defer wg.Done()
			for {
				mu.Lock()
				i := next
				next++
				mu.Unlock()
				if i >= n {
					return
				}
				f(i)
			}
		}()
	}
	wg.Wait()
}

// RepoDir is the pdfcpu tree under test (/repo unless VERIF_REPO points at a scratch worktree).
func RepoDir() string {
	if d := os.Getenv("VERIF_REPO"); d != "" {
		return d
	}
	return "/repo"
}
