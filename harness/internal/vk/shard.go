package vk

import (
	"bufio"
	"encoding/json"
	"fmt"
	"os"
	"os/exec"
	"strconv"
	"strings"
	"sync"
)

// Sharding: a worker whose monitor is process-global (osmon, child-per-batch fuzzing) re-executes
// itself n times with VERIF_SHARD=i/n. In a shard process every T method (Eval, EvalBulk, Sample,
// Count, Inconclusive, Violate, Assume) is forwarded to the parent as one "@vk {json}" line on
// stdout; the parent applies it to its own T (known-findings matching, evidence, exit code).

type shardMsg struct {
	K    string          `json:"k"`
	Key  string          `json:"key,omitempty"`
	What string          `json:"what,omitempty"`
	N    int64           `json:"n,omitempty"`
	M    int64           `json:"m,omitempty"`
	V    json.RawMessage `json:"v,omitempty"`
}

var shardOut struct {
	sync.Mutex
	w *bufio.Writer
}

// IsShard reports whether this process is a shard child, and which.
func (t *T) IsShard() bool { return t.shardN > 0 }

// Shard returns (index, count) of this shard child.
func (t *T) Shard() (int, int) { return t.shardI, t.shardN }

func (t *T) initShard() {
	s := os.Getenv("VERIF_SHARD")
	if s == "" {
		return
	}
	p := strings.SplitN(s, "/", 2)
	if len(p) != 2 {
		return
	}
	i, e1 := strconv.Atoi(p[0])
	n, e2 := strconv.Atoi(p[1])
	if e1 != nil || e2 != nil || n <= 0 {
		return
	}
	t.shardI, t.shardN = i, n
	shardOut.w = bufio.NewWriterSize(os.Stdout, 1<<16)
}

func (t *T) send(m shardMsg) {
	b, _ := json.Marshal(m)
	shardOut.Lock()
	shardOut.w.WriteString("@vk ")
	shardOut.w.Write(b)
	shardOut.w.WriteByte('\n')
	if m.K == "violate" || m.K == "inconclusive" {
		shardOut.w.Flush()
	}
	shardOut.Unlock()
}

func (t *T) flushShard() {
	if shardOut.w != nil {
		shardOut.Lock()
		shardOut.w.Flush()
		shardOut.Unlock()
	}
}

// ShardResult describes how one shard child ended.
type ShardResult struct {
	Index    int
	ExitCode int
	Err      error
	StderrF  string // file holding the child's stderr
}

// RunShards re-executes this binary n times (all concurrently) as shard children and merges
// what they report into t. extraEnv entries ("K=V") are added to the children's environment.
// A child that dies abnormally is returned in the result list (ExitCode != 0) and recorded as
// Inconclusive("shard-died"); the caller may treat it differently.
func (t *T) RunShards(n int, extraEnv ...string) []ShardResult {
	res := make([]ShardResult, n)
	var wg sync.WaitGroup
	for i := 0; i < n; i++ {
		wg.Add(1)
		go func(i int) {
			defer wg.Done()
			res[i] = t.runShard(i, n, extraEnv)
		}(i)
	}
	wg.Wait()
	for _, r := range res {
		if r.ExitCode == 2 {
			b, _ := os.ReadFile(r.StderrF)
			if len(b) > 2000 {
				b = b[len(b)-2000:]
			}
			t.Broken("shard %d reported BROKEN: %s", r.Index, string(b))
		}
		if r.ExitCode != 0 {
			t.Inconclusive(fmt.Sprintf("shard-died/%d exit=%d (stderr: %s)", r.Index, r.ExitCode, r.StderrF))
		}
	}
	return res
}

func (t *T) runShard(i, n int, extraEnv []string) ShardResult {
	r := ShardResult{Index: i}
	cmd := exec.Command(os.Args[0], t.Tier)
	cmd.Env = append(os.Environ(), fmt.Sprintf("VERIF_SHARD=%d/%d", i, n), "VERIF_TIER="+t.Tier, "VERIF_SEED="+strconv.FormatInt(t.Seed, 10))
	cmd.Env = append(cmd.Env, extraEnv...)
	r.StderrF = fmt.Sprintf("%s/shard-%d.stderr", t.Scratch(), i)
	ef, err := os.Create(r.StderrF)
	if err != nil {
		r.Err, r.ExitCode = err, -1
		return r
	}
	defer ef.Close()
	cmd.Stderr = ef
	out, err := cmd.StdoutPipe()
	if err != nil {
		r.Err, r.ExitCode = err, -1
		return r
	}
	if err := cmd.Start(); err != nil {
		r.Err, r.ExitCode = err, -1
		return r
	}
	sc := bufio.NewScanner(out)
	sc.Buffer(make([]byte, 1<<20), 64<<20)
	for sc.Scan() {
		ln := sc.Text()
		if !strings.HasPrefix(ln, "@vk ") {
			fmt.Fprintf(ef, "stdout: %s\n", ln)
			continue
		}
		var m shardMsg
		if json.Unmarshal([]byte(ln[4:]), &m) != nil {
			continue
		}
		t.apply(m)
	}
	err = cmd.Wait()
	if err != nil {
		r.Err = err
		r.ExitCode = -1
		if ee, ok := err.(*exec.ExitError); ok {
			r.ExitCode = ee.ExitCode()
		}
	}
	return r
}

func (t *T) apply(m shardMsg) {
	switch m.K {
	case "eval":
		t.Eval(m.Key)
	case "bulk":
		t.EvalBulk(m.N, m.M)
	case "count":
		t.Count(m.Key, m.N)
	case "sample":
		var v any
		_ = json.Unmarshal(m.V, &v)
		t.Sample(v)
	case "inconclusive":
		t.Inconclusive(m.Key)
	case "assume":
		t.mu.Lock()
		dup := false
		for _, a := range t.assumptions {
			if a == m.Key {
				dup = true
			}
		}
		t.mu.Unlock()
		if !dup {
			t.Assume(m.Key)
		}
	case "violate":
		var v any
		if len(m.V) > 0 {
			_ = json.Unmarshal(m.V, &v)
		}
		t.Violate(m.Key, m.What, v)
	}
}
