//go:build verifshadow

// Package osmon is the client side of the package-os interposer that
// tools/mkshadow installs in the shadow GOROOT. It only compiles on that
// GOROOT (os.VerifSetHooks). It gives tracing, single- and multi-fault
// injection, delays and a "before every call" callback, scoped to a path
// prefix.
package osmon

import (
	"fmt"
	"os"
	"strings"
	"sync"
	"syscall"
	"time"
)

// Event is one scoped filesystem call as recorded.
type Event struct {
	Seq   int64  `json:"seq"`
	Op    string `json:"op"`
	Path  string `json:"path"`
	Path2 string `json:"path2,omitempty"`
	Flag  int    `json:"flag,omitempty"`
	Perm  uint32 `json:"perm,omitempty"`
	Len   int    `json:"len,omitempty"`
	Off   int64  `json:"off"`
	FID   uint64 `json:"fid,omitempty"` // identity of the *os.File (descriptor ops and result of openfile)
	N     int    `json:"n,omitempty"`
	Err   string `json:"err,omitempty"`
	Done  bool   `json:"done"` // the After half was seen (false: the call panicked / was killed / injected error)
	Inj   string `json:"inj,omitempty"`
	// Depth > 0: the call was made from inside another hooked call (e.g. the lstat inside os.Rename);
	// meaningful for single-goroutine workloads only.
	Depth int `json:"depth,omitempty"`
	// Pos is the file offset at which a write/read starts (-1 if unknown / not seekable).
	Pos int64 `json:"pos,omitempty"`
}

// FaultKind selects what happens at Fault.At.
type FaultKind int

const (
	Errno      FaultKind = iota // the call returns the errno without executing
	ShortWrite                  // a write writes half its buffer then ENOSPC (non-writes: behaves like Errno ENOSPC)
	PanicPlain                  // panic(string)
	PanicValue                  // panic(Value) — e.g. a fault.Panic
	Kill                        // SIGKILL to self
	Delay                       // sleep Micros
)

func (k FaultKind) String() string {
	return [...]string{"errno", "short", "panic", "panicvalue", "kill", "delay"}[k]
}

// Fault is one injection at the At-th scoped call (1-based).
type Fault struct {
	At     int64
	Kind   FaultKind
	Errno  syscall.Errno
	Value  any
	Micros int
	// OnlyOp, if set, makes the fault apply to the first scoped call with Seq >= At whose op matches.
	OnlyOp string
	// OnlyOps: like OnlyOp with a set of ops (runs whose call sequence varies slightly, e.g. through map
	// iteration order, then still get the fault at a call of the intended kind).
	OnlyOps map[string]bool
	fired   bool
}

// Mon is one monitoring session.
type Mon struct {
	Scope  string // absolute path prefix; calls outside are invisible
	Record bool
	Faults []*Fault
	// Before, if set, runs before every scoped call (after sequencing, before
	// fault injection) with the monitor lock held. It must use raw syscalls only.
	Before func(seq int64, ev *Event)
	// DelayEvery, if > 0, sleeps DelayMicros before every DelayEvery-th scoped call (schedule widening).
	DelayEvery  int64
	DelayMicros int

	mu     sync.Mutex
	seq    int64
	open   int
	events []*Event
	fired  []string
}

var fidMu sync.Mutex
var fids = map[*os.File]uint64{}
var fidNext uint64

func fid(f *os.File) uint64 {
	if f == nil {
		return 0
	}
	fidMu.Lock()
	defer fidMu.Unlock()
	if id, ok := fids[f]; ok {
		return id
	}
	fidNext++
	fids[f] = fidNext
	return fidNext
}

func forget(f *os.File) {
	fidMu.Lock()
	delete(fids, f)
	fidMu.Unlock()
}

// Abs makes p absolute using raw syscalls only.
func Abs(p string) string {
	if p == "" || p[0] == '/' {
		return clean(p)
	}
	wd, err := syscall.Getwd()
	if err != nil {
		return p
	}
	return clean(wd + "/" + p)
}

func clean(p string) string {
	if p == "" {
		return p
	}
	parts := strings.Split(p, "/")
	out := parts[:0:0]
	for _, s := range parts {
		switch s {
		case "", ".":
		case "..":
			if len(out) > 0 {
				out = out[:len(out)-1]
			}
		default:
			out = append(out, s)
		}
	}
	return "/" + strings.Join(out, "/")
}

func (m *Mon) inScope(p string) bool {
	if p == "" {
		return false
	}
	a := Abs(p)
	return a == m.Scope || strings.HasPrefix(a, m.Scope+"/")
}

// lexInScope also accepts paths that lexically (before cleaning of "..") start with the scope: an
// escaping path like <scope>/out/../../x must stay visible to the monitor.
func (m *Mon) lexInScope(p string) bool {
	if p == "" {
		return false
	}
	if p[0] != '/' {
		if wd, err := syscall.Getwd(); err == nil {
			p = wd + "/" + p
		}
	}
	return strings.HasPrefix(p, m.Scope+"/") || p == m.Scope
}

type evUser struct{ e *Event }

func (m *Mon) before(ev *os.VerifEvent) error {
	if !(m.inScope(ev.Path) || m.lexInScope(ev.Path) || m.inScope(ev.Path2) || m.lexInScope(ev.Path2)) {
		return nil
	}
	m.mu.Lock()
	m.seq++
	seq := m.seq
	ev.Seq = seq
	e := &Event{Seq: seq, Op: ev.Op, Path: Abs(ev.Path), Flag: ev.Flag, Perm: uint32(ev.Perm), Len: ev.Len, Off: ev.Off}
	if ev.Path2 != "" {
		e.Path2 = Abs(ev.Path2)
	}
	e.Pos = -1
	if ev.File != nil {
		e.FID = fid(ev.File)
		switch ev.Op {
		case "write":
			if p, err := ev.File.Seek(0, 1); err == nil {
				e.Pos = p
			}
		case "writeat":
			e.Pos = ev.Off
		}
	}
	e.Depth = m.open
	m.open++
	ev.User = evUser{e}
	if m.Record {
		m.events = append(m.events, e)
	}
	if m.Before != nil {
		m.Before(seq, e)
	}
	var hit *Fault
	for _, f := range m.Faults {
		if f.fired || seq < f.At {
			continue
		}
		if f.OnlyOp == "" && f.OnlyOps == nil && seq != f.At {
			continue
		}
		if f.OnlyOp != "" && f.OnlyOp != ev.Op {
			continue
		}
		if f.OnlyOps != nil && !f.OnlyOps[ev.Op] {
			continue
		}
		f.fired = true
		hit = f
		break
	}
	delay := 0
	if m.DelayEvery > 0 && seq%m.DelayEvery == 0 {
		delay = m.DelayMicros
	}
	if hit != nil {
		e.Inj = hit.Kind.String()
		m.fired = append(m.fired, fmt.Sprintf("%d:%s:%s", seq, ev.Op, hit.Kind))
	}
	m.mu.Unlock()
	if delay > 0 {
		time.Sleep(time.Duration(delay) * time.Microsecond)
	}
	if hit == nil {
		return nil
	}
	switch hit.Kind {
	case Errno:
		return hit.Errno
	case ShortWrite:
		if ev.Op == "write" || ev.Op == "writeat" {
			if ev.Len >= 2 {
				ev.ShortWrite = ev.Len / 2
				return nil
			}
		}
		return syscall.ENOSPC
	case PanicPlain:
		panic("verif: injected panic at fs call " + fmt.Sprint(seq))
	case PanicValue:
		panic(hit.Value)
	case Kill:
		syscall.Kill(syscall.Getpid(), syscall.SIGKILL)
		select {}
	case Delay:
		time.Sleep(time.Duration(hit.Micros) * time.Microsecond)
	}
	return nil
}

func (m *Mon) after(ev *os.VerifEvent) {
	u, ok := ev.User.(evUser)
	if !ok {
		return
	}
	m.mu.Lock()
	m.open--
	u.e.Done = true
	u.e.N = ev.N
	if ev.Err != nil {
		u.e.Err = ev.Err.Error()
	}
	if ev.Op == "openfile" && ev.File != nil {
		u.e.FID = fid(ev.File)
	}
	m.mu.Unlock()
	if ev.Op == "close" && ev.Err == nil {
		forget(ev.File)
	}
}

var active sync.Mutex

// cur is the monitor installed by Run (nil when none); read by Pause from the workload's goroutine.
var cur *Mon

// Run installs the monitor, runs f, removes the monitor. A panic in f propagates after removal.
// Only one monitor can be active in a process at a time.
func (m *Mon) Run(f func()) {
	active.Lock()
	m.Scope = clean(m.Scope)
	cur = m
	os.VerifSetHooks(&os.VerifHooks{Before: m.before, After: m.after})
	defer func() {
		os.VerifSetHooks(nil)
		cur = nil
		active.Unlock()
	}()
	f()
}

// Pause runs f with the interposer of the running monitor (if any) removed: for the harness's OWN file
// handling inside a monitored workload (opening the file that plays stdin, closing it afterwards), which
// must neither be counted nor be hit by a fault. Call it from the workload's goroutine, outside any
// callback. Only sound for single-goroutine workloads.
func Pause(f func()) {
	m := cur
	if m == nil {
		f()
		return
	}
	os.VerifSetHooks(nil)
	defer os.VerifSetHooks(&os.VerifHooks{Before: m.before, After: m.after})
	f()
}

// Calls returns the number of scoped calls seen.
func (m *Mon) Calls() int64 { m.mu.Lock(); defer m.mu.Unlock(); return m.seq }

// Events returns the recorded events.
func (m *Mon) Events() []*Event { m.mu.Lock(); defer m.mu.Unlock(); return m.events }

// Fired lists the faults that were actually injected ("seq:op:kind").
func (m *Mon) Fired() []string {
	m.mu.Lock()
	defer m.mu.Unlock()
	return append([]string(nil), m.fired...)
}

// Mutating reports whether an event can change the filesystem.
func Mutating(e *Event) bool {
	switch e.Op {
	case "mkdir", "rename", "remove", "removeall", "chmod", "truncate", "link", "symlink", "write", "writeat", "fchmod", "ftruncate":
		return true
	case "openfile":
		return e.Flag&(os.O_CREATE|os.O_TRUNC) != 0
	}
	return false
}

// Unhooked runs f with the interposer removed (for use inside a Before callback, which holds the
// monitor lock: f may then use package os freely). Only sound for single-goroutine workloads.
func (m *Mon) Unhooked(f func()) {
	os.VerifSetHooks(nil)
	defer os.VerifSetHooks(&os.VerifHooks{Before: m.before, After: m.after})
	f()
}
