// Package opwl ("operation workload") drives the operation catalogue (internal/opcat) over a widened
// input pool: besides opcat's own fixtures, corpus PDFs and pdfgen documents are substituted for the
// generic fixtures an operation reads. It is shared by the output-quality properties (C18: structure of
// every output, C21: every output validates).
//
// Everything is deterministic in the vk seed: the pool (which corpus files, which generated documents),
// the plan (operation, substitution, in place or not) and the parameter PRNG of each case.
package opwl

import (
	"bytes"
	"fmt"
	"math/rand/v2"
	"os"
	"path/filepath"
	"runtime/debug"
	"sort"
	"strings"

	"github.com/pdfcpu/pdfcpu/pkg/api"
	"github.com/pdfcpu/pdfcpu/pkg/pdfcpu/model"
	"github.com/pdfcpu/pdfcpu/pkg/pdfcpu/types"
	"verif/harness/internal/opcat"
	"verif/harness/internal/pdfgen"
	"verif/harness/internal/strictsec"
	"verif/harness/internal/vk"
)

// GenOwnerPW is the owner password of encrypted pdfgen inputs (their user password is empty, /P allows everything).
const GenOwnerPW = "gopw"

// Passwords lists every password the catalogue or the pool ever sets (candidates for strictsec.Open).
var Passwords = []string{"", opcat.UserPW, opcat.OwnerPW, "u1", "o1", "u2", "o2", "upwNew", "opwNew", GenOwnerPW}

// ByteCopy reports operations that copy or patch bytes instead of writing a document.
func ByteCopy(op opcat.Op) bool {
	return op.Name == "PatchFile" || op.Name == "pdfcpu.WriteReader" ||
		strings.HasPrefix(op.Name, "pdfcpu.Write/") || strings.HasPrefix(op.Name, "pdfcpu.CopyFile/")
}

// WritesPDF reports whether an operation's outputs are PDF documents written by pdfcpu's writer.
func WritesPDF(op opcat.Op) bool {
	if ByteCopy(op) {
		return false
	}
	if op.Kind == opcat.DirOut {
		return !strings.HasPrefix(op.Name, "Extract") || strings.HasPrefix(op.Name, "ExtractPagesFile")
	}
	return strings.HasSuffix(op.OutName, ".pdf")
}

// PDFOps returns the catalogue entries for which WritesPDF holds, sorted by name.
func PDFOps() []opcat.Op {
	var out []opcat.Op
	for _, o := range opcat.All() {
		if WritesPDF(o) {
			out = append(out, o)
		}
	}
	return out
}

// Incremental reports the operations that append an incremental update when run in place.
func Incremental(op opcat.Op) bool { return strings.HasSuffix(op.Name, "/incr") }

// Input is one document of the pool.
type Input struct {
	Name  string // stable name: path relative to the repo, or gen/<i>
	Path  string
	Kind  string // "corpus" | "pdfgen" | "sparse" (pdfgen document with a numbering extreme, see PoolOptions.Sparse) | "feature" (features.go)
	Pages int
	Tags  map[string]bool // pdfgen: xrefstream objstm hybrid updates inherit annots sig viewer form outlines files enc
	Enc   string          // algorithm of an encrypted pdfgen input ("" = clear)
	// Numbering: kind of numbering extreme of a "sparse" input (pdfgen.NumberingKind), MaxNum its highest object number.
	Numbering string
	MaxNum    int
	// StrictOK: the input also passes api.ValidateFile in strict mode (only computed when PoolOptions.Strict).
	StrictOK bool
}

// Pool is the input pool plus the fixture directory.
type Pool struct {
	Fx     string // directory holding opcat's fixtures (read only after BuildPool)
	Dir    string // directory holding generated inputs
	Inputs []Input
	// statistics
	CorpusCandidates, CorpusRejected, GenRejected, SparseRejected int
	many                                                          []int // indices of inputs with >= 8 pages
	general                                                       int   // Inputs[:general] are what Plans substitutes; Inputs[general:sparseEnd] are the sparse inputs
	sparseEnd                                                     int   // Inputs[sparseEnd:] are the feature inputs (PoolOptions.Features, used by FeaturePlans only)
	FeatureRejected                                               int
}

// PoolOptions sizes the pool.
type PoolOptions struct {
	Corpus   int   // corpus files to draw (<= 0: none); files that do not validate are dropped
	Gen      int   // pdfgen documents to build
	MaxBytes int64 // corpus size bound (default 1 MiB)
	Strict   bool  // also record whether each input passes strict validation (Input.StrictOK)
	// Sparse: pdfgen documents with numbering extremes (pdfgen.ModerateNumberingKinds in rotation: strided
	// numbers, objects >= 65536, generations > 0, free entries at high numbers, /Size >> object count).
	// SparseHuge: documents with an object or a free entry >= 2^24 (pdfcpu refuses them unless
	// Configuration.Limits.MaxObjectCount is raised, and then needs 10-200 CPU seconds and several hundred MB per
	// write of such a document). Both kinds are only used by SparsePlans, never by Plans.
	Sparse, SparseHuge int
	// Features: also build the feature documents of features.go (structures operations rewrite, present in a
	// non-default representation); they are only used by FeaturePlans, never by Plans or SparsePlans.
	Features bool
}

func relaxedConf() *model.Configuration {
	c := opcat.DefaultConf()
	c.ValidationMode = model.ValidationRelaxed
	return c
}

// Validate runs api.ValidateFile in relaxed mode (strict=false) or strict mode, converting panics into errors.
func Validate(path string, strict bool, pws ...string) (err error) {
	defer func() {
		if r := recover(); r != nil {
			err = fmt.Errorf("panic: %v", r)
		}
	}()
	c := relaxedConf()
	if strict {
		c.ValidationMode = model.ValidationStrict
	}
	if len(pws) > 0 {
		c.UserPW = pws[0]
	}
	if len(pws) > 1 {
		c.OwnerPW = pws[1]
	}
	return api.ValidateFile(path, c)
}

func pageCount(path string) (n int) {
	defer func() { recover() }()
	n, err := api.PageCountFile(path)
	if err != nil {
		return 0
	}
	return n
}

type rngReader struct{ r *rand.Rand }

func (r rngReader) Read(p []byte) (int, error) {
	for i := range p {
		p[i] = byte(r.r.IntN(256))
	}
	return len(p), nil
}

// BuildPool prepares the fixtures and the pool under t.Scratch().
func BuildPool(t *vk.T, o PoolOptions) *Pool {
	if o.MaxBytes <= 0 {
		o.MaxBytes = 1 << 20
	}
	p := &Pool{Fx: filepath.Join(t.Scratch(), "fx"), Dir: filepath.Join(t.Scratch(), "pool")}
	os.MkdirAll(p.Fx, 0o755)
	os.MkdirAll(p.Dir, 0o755)
	if err := opcat.Prepare(vk.RepoDir(), p.Fx); err != nil {
		t.Broken("fixtures: %v", err)
	}
	// ---- corpus
	var cands []string
	for _, root := range []string{"pkg/testdata", "pkg/samples"} {
		filepath.Walk(filepath.Join(vk.RepoDir(), root), func(path string, fi os.FileInfo, err error) error {
			if err == nil && fi.Mode().IsRegular() && strings.HasSuffix(strings.ToLower(path), ".pdf") && fi.Size() <= o.MaxBytes && fi.Size() > 0 {
				rel, _ := filepath.Rel(vk.RepoDir(), path)
				cands = append(cands, filepath.ToSlash(rel))
			}
			return nil
		})
	}
	sort.Strings(cands)
	rng := t.RNG("opwl-corpus")
	rng.Shuffle(len(cands), func(i, j int) { cands[i], cands[j] = cands[j], cands[i] })
	if o.Corpus < len(cands) {
		if o.Corpus < 0 {
			o.Corpus = 0
		}
		cands = cands[:o.Corpus]
	}
	p.CorpusCandidates = len(cands)
	corpus := make([]*Input, len(cands))
	vk.Parallel(len(cands), func(i int) {
		path := filepath.Join(vk.RepoDir(), filepath.FromSlash(cands[i]))
		if Validate(path, false) != nil {
			return
		}
		n := pageCount(path)
		if n < 1 {
			return
		}
		corpus[i] = &Input{Name: cands[i], Path: path, Kind: "corpus", Pages: n, Tags: map[string]bool{}}
		if raw, err := os.ReadFile(path); err == nil {
			// evidence only: catalog keys visible in the raw bytes (keys inside object streams are not seen)
			for _, k := range []string{"/Metadata", "/Outlines", "/AcroForm", "/EmbeddedFiles", "/OCProperties", "/ViewerPreferences", "/PageLabels"} {
				if bytes.Contains(raw, []byte(k)) {
					corpus[i].Tags["raw:"+k] = true
				}
			}
		}
		if o.Strict {
			corpus[i].StrictOK = Validate(path, true) == nil
		}
	})
	for _, in := range corpus {
		if in != nil {
			p.Inputs = append(p.Inputs, *in)
		} else {
			p.CorpusRejected++
		}
	}
	// ---- generated documents
	gen := make([]*Input, o.Gen)
	vk.Parallel(o.Gen, func(i int) {
		gen[i] = p.genInput(t, i)
		if gen[i] != nil && o.Strict {
			gen[i].StrictOK = Validate(gen[i].Path, true) == nil
		}
	})
	for _, in := range gen {
		if in != nil {
			p.Inputs = append(p.Inputs, *in)
		} else {
			p.GenRejected++
		}
	}
	for i, in := range p.Inputs {
		if in.Pages >= 8 {
			p.many = append(p.many, i)
		}
	}
	if len(p.Inputs) == 0 {
		t.Broken("empty input pool")
	}
	// ---- documents with numbering extremes (behind the inputs Plans draws from)
	p.general = len(p.Inputs)
	nsp := o.Sparse + o.SparseHuge
	sp := make([]*Input, nsp)
	vk.Parallel(nsp, func(i int) {
		mod, huge := pdfgen.ModerateNumberingKinds(), []pdfgen.NumberingKind{pdfgen.NumHigh24, pdfgen.NumFreeHigh24}
		kind := mod[(i+seedMod(t, len(mod)))%len(mod)]
		if i >= o.Sparse {
			kind = huge[(i-o.Sparse+seedMod(t, len(huge)))%len(huge)]
		}
		in, data := GenSparse(t.RNGi("opwl-sparse", i), i, kind)
		if in == nil {
			return
		}
		in.Path = filepath.Join(p.Dir, fmt.Sprintf("sparse_%d.pdf", i))
		if os.WriteFile(in.Path, data, 0o644) != nil {
			return
		}
		if !kind.Huge() && Validate(in.Path, false) != nil { // validating a huge one costs as much as a case
			os.Remove(in.Path)
			return
		}
		sp[i] = in
	})
	for _, in := range sp {
		if in != nil {
			p.Inputs = append(p.Inputs, *in)
		} else {
			p.SparseRejected++
		}
	}
	p.sparseEnd = len(p.Inputs)
	if o.Features {
		p.buildFeatures(t, o.Strict)
	}
	return p
}

func seedMod(t *vk.T, m int) int { return int(((t.Seed % int64(m)) + int64(m)) % int64(m)) }

// GenSparse builds sparse document i: a pdfgen document (1-8 pages, all writer options in rotation, no
// encryption) renumbered by pdfgen.SparseNumbering(kind). Exported for repro tools.
func GenSparse(rng *rand.Rand, i int, kind pdfgen.NumberingKind) (*Input, []byte) {
	spec := pdfgen.RandomSpec(rng, 8)
	switch i % 4 {
	case 0:
		spec.Write.XRef, spec.Write.ObjStm = pdfgen.XRefStream, true
	case 1:
		spec.Write.XRef, spec.Write.ObjStm = pdfgen.XRefTable, false
	case 2:
		spec.Write.XRef, spec.Write.ObjStm = pdfgen.XRefStream, false
	}
	if i%5 == 3 {
		spec.Updates = 1 + rng.IntN(2)
	}
	if i%3 != 2 {
		spec.Pages = 8 + rng.IntN(4) // the fixed parameters of the catalogue address pages 1..8
	}
	spec.Write.Version = "1.7"
	// kind.Huge(): pdfcpu refuses object numbers and cross-reference stream /Size values above
	// Configuration.Limits.MaxObjectCount (default 10 million); the caller has to raise it for these inputs
	bt, plan, err := pdfgen.BuildSparse(spec, rng, kind)
	if err != nil {
		return nil, nil
	}
	in := &Input{Name: fmt.Sprintf("sparse/%d-%s", i, kind), Kind: "sparse", Tags: map[string]bool{"sparse": true, "num-" + kind.String(): true},
		Pages: len(bt.Truth.Pages), Numbering: kind.String(), MaxNum: plan.MaxNum}
	set := func(k string, b bool) {
		if b {
			in.Tags[k] = true
		}
	}
	set("xrefstream", bt.Spec.Write.XRef == pdfgen.XRefStream)
	set("hybrid", bt.Spec.Write.XRef == pdfgen.XRefHybrid)
	set("objstm", bt.Spec.Write.ObjStm)
	set("updates", spec.Updates > 0)
	set("annots", spec.Annotations)
	set("huge", kind.Huge())
	return in, bt.Bytes
}

// genInput builds pdfgen document i (a pure function of the seed and i); nil if pdfcpu does not validate it.
func (p *Pool) genInput(t *vk.T, i int) *Input {
	in, data := GenDoc(t.RNGi("opwl-gen", i), i)
	if in == nil {
		return nil
	}
	in.Path = filepath.Join(p.Dir, fmt.Sprintf("gen_%d.pdf", i))
	if err := os.WriteFile(in.Path, data, 0o644); err != nil {
		return nil
	}
	if Validate(in.Path, false) != nil {
		os.Remove(in.Path)
		return nil
	}
	return in
}

// GenDoc builds generated document i from its PRNG (vk: t.RNGi("opwl-gen", i)); exported for repro tools.
func GenDoc(rng *rand.Rand, i int) (*Input, []byte) {
	spec := pdfgen.RandomSpec(rng, 12)
	if i%3 == 0 {
		spec.Pages = 8 + rng.IntN(5)
	}
	// guarantee structural variety independent of the draw
	switch i % 6 {
	case 0:
		spec.Write.XRef, spec.Write.ObjStm = pdfgen.XRefStream, true
	case 1:
		spec.Write.XRef, spec.Write.ObjStm = pdfgen.XRefHybrid, true
	case 2:
		spec.Write.XRef, spec.Write.ObjStm = pdfgen.XRefTable, false
		spec.Updates = 1 + rng.IntN(2)
	case 3:
		spec.Inherit, spec.Rotate, spec.CropBox = true, true, true
	case 4:
		spec.Annotations, spec.ViewerPrefs = true, true
	}
	if i%7 == 5 {
		spec.Signatures = 1 + rng.IntN(2)
	}
	in := &Input{Name: fmt.Sprintf("gen/%d", i), Kind: "pdfgen", Tags: map[string]bool{}}
	var data []byte
	if i%5 == 4 {
		// encrypted: empty user password, everything permitted
		alg := strictsec.Alg((i / 5) % 4)
		doc, truth := pdfgen.BuildDoc(spec)
		opts := spec.Write
		enc, err := strictsec.NewEncrypter(alg, "", GenOwnerPW, -4, doc.ID[0], rngReader{rng})
		if err != nil {
			return nil, nil
		}
		opts.Encrypter = enc
		min := truth.MinVersion
		if min == "" || min < alg.MinVersion() {
			min = alg.MinVersion()
		}
		opts.Version = pdfgen.FitVersion(opts, min)
		out, err := pdfgen.Write(doc, opts)
		if err != nil {
			return nil, nil
		}
		data, in.Enc = out.Bytes, alg.String()
		in.Tags["enc"] = true
		in.Pages = len(truth.Pages)
		xmpTags(in, doc, truth)
	} else {
		bt := pdfgen.Build(spec)
		data, in.Pages = bt.Bytes, len(bt.Truth.Pages)
		xmpTags(in, bt.Doc, bt.Truth)
	}
	set := func(k string, b bool) {
		if b {
			in.Tags[k] = true
		}
	}
	set("xrefstream", spec.Write.XRef == pdfgen.XRefStream)
	set("hybrid", spec.Write.XRef == pdfgen.XRefHybrid)
	set("objstm", spec.Write.ObjStm)
	set("updates", spec.Updates > 0)
	set("inherit", spec.Inherit)
	set("annots", spec.Annotations)
	set("sig", spec.Signatures > 0)
	set("viewer", spec.ViewerPrefs)
	set("form", spec.Form)
	set("outlines", spec.Outlines > 0)
	set("files", spec.RandomFiles > 0)
	set("dests", spec.Dests > 0)
	return in, data
}

// xmpTags records whether the document has catalog XMP metadata and whether its stream is filtered.
func xmpTags(in *Input, doc *pdfgen.Doc, truth *pdfgen.Truth) {
	if truth == nil || truth.Objs.Metadata == 0 {
		return
	}
	in.Tags["xmp"] = true
	if st, ok := doc.Get(truth.Objs.Metadata).(*pdfgen.Stream); ok && len(st.Filters) > 0 {
		in.Tags["xmp-filtered"] = true
	}
}

// TagCounts summarises the pool for the evidence file.
func (p *Pool) TagCounts() map[string]int {
	m := map[string]int{}
	for _, in := range p.Inputs {
		m["kind="+in.Kind]++
		for k := range in.Tags {
			m["tag="+k]++
		}
		if in.Pages >= 8 {
			m["pages>=8"]++
		}
	}
	return m
}

// ---------------------------------------------------------------- plans

// Plan is one case: an operation, what replaces which fixture, and how it is called.
type Plan struct {
	Index   int
	Round   int // 0: fixtures + fixed parameters, 1: fixtures + random parameters, >= 2: substituted inputs
	Op      opcat.Op
	Subs    map[string]int    // fixture name -> index into Pool.Inputs
	Derive  map[string]string // fixture name -> "enc" | "wm" | "boxes" (derived from Subs[fixture] with pdfcpu)
	InPlace bool
	Random  bool // draw parameters from the case PRNG
}

// InputName names the primary input of the plan (for keys and samples).
func (pl Plan) InputName(p *Pool) string {
	if i, ok := pl.Subs[pl.Op.Input]; ok && pl.Op.Input != "" {
		s := p.Inputs[i].Name
		if d := pl.Derive[pl.Op.Input]; d != "" {
			s += "+" + d
		}
		return s
	}
	if pl.Op.Input == "" {
		if len(pl.Subs) > 0 {
			var ks []string
			for k, i := range pl.Subs {
				ks = append(ks, k+"="+p.Inputs[i].Name)
			}
			sort.Strings(ks)
			return strings.Join(ks, ",")
		}
		return "(none)"
	}
	return "fixture:" + pl.Op.Input
}

// InputKind is "fixture", "corpus" or "pdfgen" (primary input, else any substituted extra input).
func (pl Plan) InputKind(p *Pool) string {
	if i, ok := pl.Subs[pl.Op.Input]; ok {
		return p.Inputs[i].Kind
	}
	for _, i := range pl.Subs {
		return p.Inputs[i].Kind
	}
	return "fixture"
}

func (p *Pool) pick(rng *rand.Rand, want func(Input) bool, preferMany bool) (int, bool) {
	if preferMany && len(p.many) > 0 && rng.IntN(5) < 3 {
		for try := 0; try < 8; try++ {
			i := p.many[rng.IntN(len(p.many))]
			if want == nil || want(p.Inputs[i]) {
				return i, true
			}
		}
	}
	for try := 0; try < 40; try++ {
		i := rng.IntN(p.general)
		if want == nil || want(p.Inputs[i]) {
			return i, true
		}
	}
	return 0, false
}

// substitute decides what replaces fixture fx (declared by an operation), if anything.
func (p *Pool) substitute(rng *rand.Rand, fx string, pl *Plan) {
	tag := func(k string) func(Input) bool { return func(in Input) bool { return in.Tags[k] } }
	clear := func(in Input) bool { return in.Enc == "" }
	var i int
	var ok bool
	derive := ""
	switch fx {
	case opcat.FxMulti:
		i, ok = p.pick(rng, nil, true)
	case opcat.FxOne, opcat.FxStampPDF:
		i, ok = p.pick(rng, nil, false)
	case opcat.FxAnnot:
		i, ok = p.pick(rng, tag("annots"), false)
	case opcat.FxSigned:
		i, ok = p.pick(rng, tag("sig"), false)
	case opcat.FxViewer:
		i, ok = p.pick(rng, tag("viewer"), false)
	case opcat.FxEnc:
		i, ok = p.pick(rng, clear, true)
		derive = "enc"
	case opcat.FxWM:
		i, ok = p.pick(rng, nil, true)
		derive = "wm"
	case opcat.FxBoxes:
		i, ok = p.pick(rng, nil, true)
		derive = "boxes"
	}
	if !ok {
		return
	}
	pl.Subs[fx] = i
	if derive != "" {
		pl.Derive[fx] = derive
	}
}

// Plans returns n cases over ops: case i runs ops[i % len(ops)]; round 0 uses the fixtures with the fixed
// default parameters and a new output, round 1 random parameters (in place where allowed), later rounds
// substitute pool inputs for the generic fixtures three times out of four.
func (p *Pool) Plans(t *vk.T, ops []opcat.Op, n int) []Plan {
	out := make([]Plan, n)
	for i := range out {
		rng := t.RNGi("opwl-plan", i)
		op := ops[i%len(ops)]
		pl := Plan{Index: i, Round: i / len(ops), Op: op, Subs: map[string]int{}, Derive: map[string]string{}}
		switch {
		case pl.Round == 0:
			pl.InPlace = Incremental(op) // incremental updates only exist in place
		case pl.Round == 1:
			pl.Random = true
			pl.InPlace = op.InPlace
		default:
			pl.Random = rng.IntN(10) != 0
			pl.InPlace = op.InPlace && (rng.IntN(2) == 0 || (Incremental(op) && rng.IntN(5) != 0))
			if rng.IntN(4) != 0 {
				if op.Input != "" {
					p.substitute(rng, op.Input, &pl)
				}
				for _, fx := range op.Extra {
					if rng.IntN(3) != 0 {
						p.substitute(rng, fx, &pl)
					}
				}
			}
		}
		out[i] = pl
	}
	return out
}

// SparsePlans returns cases for the pool's sparse inputs (PoolOptions.Sparse/SparseHuge): each of them is
// substituted for the generic fixture (one.pdf / multi.pdf, as primary input or as merge input) of perInput
// operations (perHuge for the huge ones) of ops: always a whole-document rewrite (OptimizeFile or WriteContextFile), an
// operation appending an incremental update if ops has one, the others drawn from the eligible operations
// with the case PRNG. Plan.Index counts on from first. The caller runs every plan under the writer
// configurations it wants.
func (p *Pool) SparsePlans(t *vk.T, ops []opcat.Op, perInput, perHuge, first int) []Plan {
	generic := func(fx string) bool { return fx == opcat.FxMulti || fx == opcat.FxOne }
	var eligible, rewrite, incr []opcat.Op
	for _, op := range ops {
		ok := generic(op.Input)
		if op.Input == "" {
			for _, fx := range op.Extra {
				ok = ok || generic(fx)
			}
		}
		switch {
		case !ok:
		case strings.HasPrefix(op.Name, "Remove") || op.Name == "AddBookmarksFile":
			// need (or must not find) a particular feature in the input: left to Plans
		case op.Name == "OptimizeFile" || op.Name == "WriteContextFile":
			rewrite = append(rewrite, op)
		case Incremental(op):
			incr = append(incr, op)
		default:
			eligible = append(eligible, op)
		}
	}
	var out []Plan
	for si := p.general; si < p.sparseEnd; si++ {
		in := p.Inputs[si]
		rng := t.RNGi("opwl-sparse-plan", si-p.general)
		k := perInput
		if in.Tags["huge"] {
			k = perHuge
		}
		var chosen []opcat.Op
		if in.Tags["huge"] {
			// the whole-document rewrites only, the plain one first (pdfcpu's optimiser takes a multiple of the
			// time of a plain write for a document >= 2^24)
			for _, name := range []string{"WriteContextFile", "OptimizeFile"} {
				for _, op := range rewrite {
					if op.Name == name && len(chosen) < k {
						chosen = append(chosen, op)
					}
				}
			}
			k = len(chosen)
		} else if len(rewrite) > 0 && k > 0 {
			chosen = append(chosen, rewrite[(si+seedMod(t, len(rewrite)))%len(rewrite)])
		}
		if len(incr) > 0 && k > 1 && !in.Tags["huge"] {
			chosen = append(chosen, incr[rng.IntN(len(incr))])
		}
		for _, j := range rng.Perm(len(eligible)) {
			if len(chosen) >= k {
				break
			}
			chosen = append(chosen, eligible[j])
		}
		for _, op := range chosen {
			pl := Plan{Index: first + len(out), Round: 2, Op: op, Subs: map[string]int{}, Derive: map[string]string{}, Random: rng.IntN(4) != 0}
			pl.InPlace = op.InPlace && (Incremental(op) || rng.IntN(2) == 0)
			if op.Input != "" {
				pl.Subs[op.Input] = si
			} else {
				placed := false
				for _, fx := range op.Extra {
					if generic(fx) && (!placed || rng.IntN(2) == 0) {
						pl.Subs[fx] = si
						placed = true
					}
				}
			}
			out = append(out, pl)
		}
	}
	return out
}

// ---------------------------------------------------------------- running

// Result is what one Run observed.
type Result struct {
	SetupErr   error // the sandbox could not be built (derived fixture failed, ...): the case is void
	Err        error
	Panic      any
	PanicStack string
	In         string   // primary input inside the sandbox ("" if the operation has none)
	InBytes    []byte   // its bytes before the call
	Outputs    []string // PDF files the call produced (in place: the input path), sorted
	Others     int      // non-PDF output files
}

// RunOptions tune Run.
type RunOptions struct {
	Conf func() *model.Configuration // writer / validation configuration of the call (nil: opcat.DefaultConf)
	// Prep is called for every PDF fixture of the sandbox after it was copied / derived and before the
	// operation runs (fixture name, path). An error voids the case.
	Prep func(fixture, path string) error
}

func copyFile(src, dst string) error {
	b, err := os.ReadFile(src)
	if err != nil {
		return err
	}
	return os.WriteFile(dst, b, 0o644)
}

func safely(f func() error) (err error) {
	defer func() {
		if r := recover(); r != nil {
			err = fmt.Errorf("panic: %v", r)
		}
	}()
	return f()
}

// derive rewrites path (a copy of a pool input) into the shape fixture kind needs, using pdfcpu itself.
func derive(kind, path string, in Input) error {
	conf := opcat.DefaultConf()
	switch kind {
	case "enc":
		conf = model.NewAESConfiguration(opcat.UserPW, opcat.OwnerPW, 256)
		conf.Offline = true
		return safely(func() error { return api.EncryptFile(path, "", conf) })
	case "wm":
		return safely(func() error {
			wm, err := api.TextWatermark("VERIF", "scale:.5, rot:30, op:.4", true, false, types.POINTS)
			if err != nil {
				return err
			}
			return api.AddWatermarksFile(path, "", nil, wm, conf)
		})
	case "boxes":
		return safely(func() error {
			pb, err := api.PageBoundaries("crop:10 20, trim:crop, art:30", types.POINTS)
			if err != nil {
				return err
			}
			return api.AddBoxesFile(path, "", nil, pb, conf)
		})
	}
	return fmt.Errorf("unknown derivation %q", kind)
}

// Run builds the sandbox dir for pl (only the declared fixtures are present), runs the operation and
// collects its outputs. params is the case's parameter PRNG (used when pl.Random).
func (p *Pool) Run(dir string, pl Plan, params *rand.Rand, o RunOptions) (res Result) {
	os.RemoveAll(dir)
	if err := os.MkdirAll(dir, 0o755); err != nil {
		res.SetupErr = err
		return
	}
	op := pl.Op
	place := func(fx string) error {
		dst := filepath.Join(dir, fx)
		if i, ok := pl.Subs[fx]; ok {
			in := p.Inputs[i]
			if err := copyFile(in.Path, dst); err != nil {
				return err
			}
			if k := pl.Derive[fx]; k != "" {
				if err := derive(k, dst, in); err != nil {
					return fmt.Errorf("derive %s from %s: %w", k, in.Name, err)
				}
			}
		} else if err := copyFile(filepath.Join(p.Fx, fx), dst); err != nil {
			return err
		}
		if o.Prep != nil && strings.HasSuffix(fx, ".pdf") {
			return o.Prep(fx, dst)
		}
		return nil
	}
	seen := map[string]bool{}
	for _, fx := range append([]string{op.Input}, op.Extra...) {
		if fx == "" || seen[fx] {
			continue
		}
		seen[fx] = true
		if err := place(fx); err != nil {
			res.SetupErr = err
			return
		}
	}
	c := &opcat.Call{Dir: dir, Conf: o.Conf}
	if pl.Random {
		c.Rng = params
	}
	if op.Input != "" {
		c.In = filepath.Join(dir, op.Input)
		res.In = c.In
		res.InBytes, _ = os.ReadFile(c.In)
	}
	outDir := ""
	switch {
	case op.Kind == opcat.DirOut:
		outDir = filepath.Join(dir, "outdir")
		os.MkdirAll(outDir, 0o755)
		c.Out = outDir
	case pl.InPlace && op.InPlace && op.Input != "":
		c.Out = ""
	default:
		c.Out = filepath.Join(dir, "out", op.OutName)
		os.MkdirAll(filepath.Dir(c.Out), 0o755)
		if op.AppendsToOut {
			src := filepath.Join(p.Fx, opcat.FxOne)
			if i, ok := pl.Subs[opcat.FxOne]; ok {
				src = p.Inputs[i].Path
			}
			if err := copyFile(src, c.Out); err != nil {
				res.SetupErr = err
				return
			}
			if o.Prep != nil {
				if err := o.Prep("(append target)", c.Out); err != nil {
					res.SetupErr = err
					return
				}
			}
		}
	}
	func() {
		defer func() {
			if r := recover(); r != nil {
				res.Panic, res.PanicStack = r, string(debug.Stack())
			}
		}()
		res.Err = op.Run(c)
	}()
	if res.Err != nil || res.Panic != nil {
		return
	}
	isPDF := func(path string) bool { return strings.HasSuffix(strings.ToLower(path), ".pdf") }
	switch {
	case outDir != "":
		filepath.Walk(outDir, func(path string, fi os.FileInfo, err error) error {
			if err == nil && fi.Mode().IsRegular() {
				if isPDF(path) {
					res.Outputs = append(res.Outputs, path)
				} else {
					res.Others++
				}
			}
			return nil
		})
		sort.Strings(res.Outputs)
	case c.Out == "":
		res.Outputs = []string{c.In}
	default:
		if _, err := os.Stat(c.Out); err == nil {
			if isPDF(c.Out) {
				res.Outputs = []string{c.Out}
			} else {
				res.Others++
			}
		}
	}
	return
}

// PanicFrame returns the innermost pdfcpu frame of a recovered panic's stack ("pkg.func").
func PanicFrame(stack string) string {
	for _, ln := range strings.Split(stack, "\n") {
		ln = strings.TrimSpace(ln)
		if !strings.HasPrefix(ln, "github.com/pdfcpu/pdfcpu/") {
			continue
		}
		if i := strings.LastIndex(ln, "("); i > 0 {
			ln = ln[:i]
		}
		return strings.TrimPrefix(ln, "github.com/pdfcpu/pdfcpu/")
	}
	return "unknown"
}
