package opwl

// Feature documents and feature plans: for every operation family, inputs in which the structure the
// family REWRITES already exists, in a representation other than the one pdfcpu itself writes —
// catalog XMP metadata under each filter pipeline pdfcpu accepts (with and without pdf:Keywords /
// dc:subject / Info Keywords), outlines, AcroForm, /Names trees with kids, /OCProperties (direct and
// indirect, own groups and configurations), viewer preferences, page labels (flat and as a tree).
// The random substitution of Plans meets such an input for a given operation only by luck; the
// feature plans run every operation of a family on the documents carrying its feature.

import (
	"fmt"
	"math/rand/v2"
	"os"
	"path/filepath"
	"sort"
	"strings"

	"verif/harness/internal/opcat"
	"verif/harness/internal/pdfgen"
	"verif/harness/internal/vk"
)

// XMPPipelines are the pipelines the catalog metadata stream of the feature documents is stored under.
var XMPPipelines = []struct {
	Name string
	FS   []pdfgen.FilterSpec
}{
	{"none", nil},
	{"flate", []pdfgen.FilterSpec{{Kind: pdfgen.Flate}}},
	{"asciihex+flate", []pdfgen.FilterSpec{{Kind: pdfgen.ASCIIHex}, {Kind: pdfgen.Flate}}},
	{"lzw", []pdfgen.FilterSpec{{Kind: pdfgen.LZW}}},
}

type featureDoc struct {
	name string
	tags []string
	set  func(s *pdfgen.DocSpec)
}

func featureDocs() []featureDoc {
	var out []featureDoc
	for _, pl := range XMPPipelines {
		for _, kw := range []bool{true, false} {
			pl, kw := pl, kw
			tags := []string{"xmp", "xmp-filter=" + pl.Name}
			name := "xmp-" + pl.Name
			if kw {
				tags = append(tags, "xmp-keywords", "info-keywords")
				name += "-keywords"
			}
			out = append(out, featureDoc{name, tags, func(s *pdfgen.DocSpec) {
				s.XMP, s.Info = true, true
				s.XMPPipelineSet, s.XMPPipeline = true, pl.FS
				if kw {
					s.XMPKeywords = []string{"alpha", "beta", "two words"}
					s.InfoKeywords = []string{"alpha", "beta", "two words"}
				}
			}})
		}
	}
	out = append(out,
		featureDoc{"outlines-deep", []string{"outlines"}, func(s *pdfgen.DocSpec) { s.Outlines, s.OutlineDepth = 12, 3 }},
		featureDoc{"outlines-flat-dests", []string{"outlines", "dests"}, func(s *pdfgen.DocSpec) { s.Outlines, s.OutlineDepth, s.Dests = 9, 1, 7 }},
		featureDoc{"files-tree-kids", []string{"files", "nametree-kids"}, func(s *pdfgen.DocSpec) { s.RandomFiles, s.NameTreeLeafMax = 6, 1 }},
		featureDoc{"files-dests", []string{"files", "dests"}, func(s *pdfgen.DocSpec) { s.RandomFiles, s.NameTreeLeafMax, s.Dests = 3, 4, 5 }},
		featureDoc{"ocprops-direct", []string{"ocprops"}, func(s *pdfgen.DocSpec) { s.OCProperties = 1 }},
		featureDoc{"ocprops-indirect-configs", []string{"ocprops", "ocprops-indirect"}, func(s *pdfgen.DocSpec) { s.OCProperties = 2 }},
		featureDoc{"viewer-pagelabels-flat", []string{"viewer", "pagelabels"}, func(s *pdfgen.DocSpec) { s.ViewerPrefs, s.PageLabels = true, 1 }},
		featureDoc{"viewer-pagelabels-tree", []string{"viewer", "pagelabels", "pagelabels-kids"}, func(s *pdfgen.DocSpec) { s.ViewerPrefs, s.PageLabels = true, 2 }},
		featureDoc{"form", []string{"form"}, func(s *pdfgen.DocSpec) { s.Form = true }},
		featureDoc{"form-annots", []string{"form", "annots"}, func(s *pdfgen.DocSpec) { s.Form, s.Annotations = true, true }},
	)
	return out
}

// GenFeature builds feature document j (8-11 pages, plain structure otherwise); exported for repro tools.
func GenFeature(rng *rand.Rand, j int) (*Input, []byte) {
	docs := featureDocs()
	if j < 0 || j >= len(docs) {
		return nil, nil
	}
	fd := docs[j]
	s := pdfgen.DocSpec{Seed: rng.Uint64(), Pages: 8 + rng.IntN(4), Filters: pdfgen.FiltersFlate, MaxFanout: 4, MaxDepth: 2, Info: true}
	s.Write = pdfgen.Options{EOL: "\n", BinaryComment: true, Version: "1.7"}
	switch j % 3 {
	case 0:
		s.Write.XRef = pdfgen.XRefTable
	case 1:
		s.Write.XRef, s.Write.ObjStm, s.Write.XRefStreamFlate, s.Write.ObjStmMax = pdfgen.XRefStream, true, true, 20
	case 2:
		s.Write.XRef, s.Write.XRefStreamFlate = pdfgen.XRefStream, true
	}
	fd.set(&s)
	bt := pdfgen.Build(s)
	in := &Input{Name: "feature/" + fd.name, Kind: "feature", Pages: len(bt.Truth.Pages), Tags: map[string]bool{"feature": true}}
	for _, t := range fd.tags {
		in.Tags[t] = true
	}
	return in, bt.Bytes
}

func (p *Pool) buildFeatures(t *vk.T, strict bool) {
	n := len(featureDocs())
	built := make([]*Input, n)
	vk.Parallel(n, func(j int) {
		in, data := GenFeature(t.RNGi("opwl-feature", j), j)
		if in == nil {
			return
		}
		in.Path = filepath.Join(p.Dir, fmt.Sprintf("feature_%d.pdf", j))
		if os.WriteFile(in.Path, data, 0o644) != nil {
			return
		}
		if err := Validate(in.Path, false); err != nil {
			if os.Getenv("VERIF_OPWL_DEBUG") != "" {
				fmt.Fprintf(os.Stderr, "feature document %s rejected: %v\n", in.Name, err)
			}
			os.Remove(in.Path)
			return
		}
		if strict {
			in.StrictOK = Validate(in.Path, true) == nil
		}
		built[j] = in
	})
	for _, in := range built {
		if in != nil {
			p.Inputs = append(p.Inputs, *in)
		} else {
			p.FeatureRejected++
		}
	}
}

// FeatureCounts says, per feature tag, how many inputs of the general pool (what Plans draws from) and how
// many feature documents carry it.
func (p *Pool) FeatureCounts() map[string]int {
	m := map[string]int{}
	for i, in := range p.Inputs {
		where := "general"
		switch {
		case i >= p.sparseEnd:
			where = "feature"
		case i >= p.general:
			continue
		}
		for k := range in.Tags {
			m[where+"/"+k]++
		}
	}
	return m
}

// featureRule: operations matching ops run on the inputs carrying tag; fixture names the fixture the
// input replaces ("" = the operation's primary input, which must be a PDF).
type featureRule struct {
	family string
	tag    string
	match  func(op opcat.Op) bool
	derive string // "wm": the operation needs a watermarked input; it is derived from the feature document
	all    bool   // quick tier: every document of the tag (else one, in rotation)
}

func nameHas(subs ...string) func(opcat.Op) bool {
	return func(op opcat.Op) bool {
		for _, s := range subs {
			if strings.Contains(op.Name, s) {
				return true
			}
		}
		return false
	}
}

func pdfInput(op opcat.Op) bool { return strings.HasSuffix(op.Input, ".pdf") }

func featureRules() []featureRule {
	generic := func(op opcat.Op) bool { return op.Input == opcat.FxMulti || op.Input == opcat.FxOne }
	and := func(fs ...func(opcat.Op) bool) func(opcat.Op) bool {
		return func(op opcat.Op) bool {
			for _, f := range fs {
				if !f(op) {
					return false
				}
			}
			return true
		}
	}
	pageOps := nameHas("RemovePagesFile", "InsertPagesFile", "CollectFile", "TrimFile", "SplitFile", "SplitByPageNrFile", "ExtractPagesFile", "RotateFile", "NUpFile", "BookletFile", "ResizeFile", "ZoomFile")
	return []featureRule{
		{family: "keywords", tag: "xmp", match: and(generic, nameHas("KeywordsFile")), all: true},
		{family: "properties", tag: "xmp", match: and(generic, nameHas("PropertiesFile"))},
		{family: "rewrite+encrypt", tag: "xmp", match: and(generic, func(op opcat.Op) bool {
			return op.Name == "OptimizeFile" || op.Name == "WriteContextFile" || strings.HasPrefix(op.Name, "EncryptFile")
		})},
		{family: "bookmarks", tag: "outlines", match: and(generic, nameHas("BookmarksFile"))},
		{family: "pages/outlines", tag: "outlines", match: and(generic, pageOps)},
		{family: "attachments", tag: "files", match: and(generic, nameHas("AttachmentsFile"))},
		{family: "stamps", tag: "ocprops", match: and(generic, nameHas("Watermarks"))},
		{family: "stamps/update-remove", tag: "ocprops", match: func(op opcat.Op) bool { return op.Input == opcat.FxWM }, derive: "wm"},
		{family: "viewer", tag: "viewer", match: and(pdfInput, nameHas("ViewerPreferences", "PageLayout", "PageMode"))},
		{family: "pages/pagelabels", tag: "pagelabels", match: and(generic, nameHas("RemovePagesFile", "InsertPagesFile", "CollectFile", "TrimFile", "SplitFile"))},
		{family: "form", tag: "form", match: func(op opcat.Op) bool {
			return op.Name == "LockFormFieldsFile" || op.Name == "UnlockFormFieldsFile" || op.Name == "ResetFormFieldsFile"
		}},
	}
}

// FeaturePlan is a Plan with the rule that produced it.
type FeaturePlan struct {
	Plan
	Family string
	Tag    string
}

// FeaturePlans returns the feature cases over ops: every operation of a family on per documents carrying the
// family's feature (the keyword family: on all of them), documents in rotation by seed. Plan.Index counts on
// from first. Requires PoolOptions.Features.
func (p *Pool) FeaturePlans(t *vk.T, ops []opcat.Op, per, first int) []FeaturePlan {
	byTag := map[string][]int{}
	for i := p.sparseEnd; i < len(p.Inputs); i++ {
		for k := range p.Inputs[i].Tags {
			byTag[k] = append(byTag[k], i)
		}
	}
	for _, v := range byTag {
		sort.Ints(v)
	}
	var out []FeaturePlan
	for ri, r := range featureRules() {
		docs := byTag[r.tag]
		if len(docs) == 0 {
			continue
		}
		oi := 0
		for _, op := range ops {
			if !r.match(op) {
				continue
			}
			k := per
			if r.all || k > len(docs) {
				k = len(docs)
			}
			for j := 0; j < k; j++ {
				d := docs[(j+oi+ri+seedMod(t, len(docs)))%len(docs)]
				if r.all {
					d = docs[j]
				}
				rng := t.RNGi("opwl-feature-plan", first+len(out))
				pl := Plan{Index: first + len(out), Round: 2, Op: op, Subs: map[string]int{op.Input: d}, Derive: map[string]string{}, Random: rng.IntN(3) != 0}
				pl.InPlace = op.InPlace && (Incremental(op) || rng.IntN(2) == 0)
				if r.derive != "" {
					pl.Derive[op.Input] = r.derive
				}
				out = append(out, FeaturePlan{Plan: pl, Family: r.family, Tag: r.tag})
			}
			oi++
		}
	}
	return out
}
