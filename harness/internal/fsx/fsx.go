// Package fsx: sandbox trees for the file-safety monitors — snapshot (names, bytes, mode),
// restore from a pristine copy, and diff.
package fsx

import (
	"crypto/sha256"
	"fmt"
	"io/fs"
	"os"
	"path/filepath"
	"sort"
	"strings"
)

// Entry is one path of a tree snapshot.
type Entry struct {
	Mode fs.FileMode // type + permission bits
	Size int64
	Sum  [32]byte // sha256 of regular file content
	Link string   // symlink target
	Data []byte   // content (kept so a tree can be restored)
}

// Tree maps slash-separated relative paths to entries ("." is not included).
type Tree map[string]Entry

// Snapshot reads the whole tree under root (keepData: retain file contents).
func Snapshot(root string, keepData bool) (Tree, error) {
	t := Tree{}
	err := filepath.Walk(root, func(p string, info fs.FileInfo, err error) error {
		if err != nil {
			return err
		}
		rel, _ := filepath.Rel(root, p)
		if rel == "." {
			return nil
		}
		e := Entry{Mode: info.Mode() & (fs.ModeType | fs.ModePerm), Size: info.Size()}
		switch {
		case info.Mode()&fs.ModeSymlink != 0:
			e.Link, _ = os.Readlink(p)
			e.Size = 0
		case info.Mode().IsRegular():
			b, err := os.ReadFile(p)
			if err != nil {
				return err
			}
			e.Sum = sha256.Sum256(b)
			if keepData {
				e.Data = b
			}
		case info.IsDir():
			e.Size = 0
		}
		t[filepath.ToSlash(rel)] = e
		return nil
	})
	return t, err
}

// Restore makes root hold exactly tree t (which must have been taken with keepData).
func Restore(root string, t Tree) error {
	// make everything removable first
	_ = filepath.Walk(root, func(p string, info fs.FileInfo, err error) error {
		if err == nil && info.IsDir() {
			_ = os.Chmod(p, 0o755)
		}
		return nil
	})
	ents, _ := os.ReadDir(root)
	for _, e := range ents {
		if err := os.RemoveAll(filepath.Join(root, e.Name())); err != nil {
			return err
		}
	}
	if err := os.MkdirAll(root, 0o755); err != nil {
		return err
	}
	paths := make([]string, 0, len(t))
	for p := range t {
		paths = append(paths, p)
	}
	sort.Strings(paths)
	var dirs []string
	for _, p := range paths {
		e := t[p]
		full := filepath.Join(root, filepath.FromSlash(p))
		switch {
		case e.Mode.IsDir():
			if err := os.MkdirAll(full, 0o755); err != nil {
				return err
			}
			dirs = append(dirs, p)
		case e.Mode&fs.ModeSymlink != 0:
			if err := os.Symlink(e.Link, full); err != nil {
				return err
			}
		default:
			if err := os.WriteFile(full, e.Data, 0o600); err != nil {
				return err
			}
			if err := os.Chmod(full, e.Mode.Perm()); err != nil {
				return err
			}
		}
	}
	for i := len(dirs) - 1; i >= 0; i-- {
		if err := os.Chmod(filepath.Join(root, filepath.FromSlash(dirs[i])), t[dirs[i]].Mode.Perm()); err != nil {
			return err
		}
	}
	return nil
}

// Change is one difference between two trees.
type Change struct {
	Path string
	Kind string // added | removed | content | mode | type
	Old  Entry
	New  Entry
}

func (c Change) String() string {
	switch c.Kind {
	case "added":
		return fmt.Sprintf("added %s (%v, %d bytes)", c.Path, c.New.Mode, c.New.Size)
	case "removed":
		return fmt.Sprintf("removed %s", c.Path)
	case "content":
		return fmt.Sprintf("content %s (%d -> %d bytes)", c.Path, c.Old.Size, c.New.Size)
	case "mode":
		return fmt.Sprintf("mode %s (%v -> %v)", c.Path, c.Old.Mode, c.New.Mode)
	}
	return fmt.Sprintf("%s %s", c.Kind, c.Path)
}

// Diff lists changes from a to b, sorted by path.
func Diff(a, b Tree) []Change {
	var out []Change
	for p, ea := range a {
		eb, ok := b[p]
		if !ok {
			out = append(out, Change{Path: p, Kind: "removed", Old: ea})
			continue
		}
		if ea.Mode.Type() != eb.Mode.Type() {
			out = append(out, Change{Path: p, Kind: "type", Old: ea, New: eb})
			continue
		}
		if ea.Sum != eb.Sum || ea.Link != eb.Link {
			out = append(out, Change{Path: p, Kind: "content", Old: ea, New: eb})
		}
		if ea.Mode.Perm() != eb.Mode.Perm() && ea.Mode&fs.ModeSymlink == 0 {
			out = append(out, Change{Path: p, Kind: "mode", Old: ea, New: eb})
		}
	}
	for p, eb := range b {
		if _, ok := a[p]; !ok {
			out = append(out, Change{Path: p, Kind: "added", New: eb})
		}
	}
	sort.Slice(out, func(i, j int) bool {
		if out[i].Path != out[j].Path {
			return out[i].Path < out[j].Path
		}
		return out[i].Kind < out[j].Kind
	})
	return out
}

// IsStaging reports whether a base name looks like a pdfcpu staging / temporary / backup entry.
func IsStaging(base string) bool {
	return strings.HasPrefix(base, ".") && (strings.Contains(base, ".tmp-") || strings.Contains(base, ".pdfcpu-"))
}
