//go:build verifshadow

package cliprop

import (
	"fmt"
	"os"
	"path/filepath"
	"strings"

	"github.com/pdfcpu/pdfcpu/pkg/cli"
	"verif/harness/internal/fileprop"
	"verif/harness/internal/fsx"
	"verif/harness/internal/opcat"
	"verif/harness/internal/osmon"
)

// Shape is the I/O shape of an invocation.
type Shape string

const (
	StdinFile   Shape = "stdin-file"   // cmd - out        (stdin -> file; createStreamOutput + finalizer)
	FileStdout  Shape = "file-stdout"  // cmd in -         (no output file is involved)
	StdinStdout Shape = "stdin-stdout" // cmd - - / cmd -  (no output file is involved)
	StdinDir    Shape = "stdin-dir"    // cmd - outDir     (withStdinReadSeeker + pkg/api writers)
	StdinText   Shape = "stdin-text"   // cmd -            (listing; withStdinReadSeeker)
	FileFile    Shape = "file-file"    // cmd in out       (plain file form through pkg/cli)
	InPlace     Shape = "inplace"      // cmd in           (plain file form through pkg/cli)
)

// Dest is the kind of destination an invocation writes to.
type Dest string

const (
	None          Dest = "none"
	New           Dest = "new"
	Existing0600  Dest = "existing-0600"
	Existing0644  Dest = "existing-0644"
	Existing0664  Dest = "existing-0664"
	Symlink       Dest = "symlink"        // out is a symbolic link to store/real<ext> (a regular file)
	Hardlink      Dest = "hardlink"       // out and keep/other<ext> are two names of one file
	SameAsStdin   Dest = "same-as-stdin"  // out is the very file stdin is redirected from
	OutDirMissing Dest = "outdir-missing" // out lies in a directory that does not exist (must fail cleanly)
	DirEmpty      Dest = "dir-empty"
	DirExisting   Dest = "dir-existing"
)

// Group collapses the mode variants (used in violation keys).
func (d Dest) Group() string {
	if strings.HasPrefix(string(d), "existing-") {
		return "existing"
	}
	return string(d)
}

// Replaces reports whether the destination exists before the call (C02's subject).
func (d Dest) Replaces() bool {
	switch d {
	case Existing0600, Existing0644, Existing0664, Symlink, Hardlink, SameAsStdin, DirExisting:
		return true
	}
	return false
}

// Item is one (form, shape, destination kind).
type Item struct {
	Form  Form
	Shape Shape
	Dest  Dest
}

// OpName is the operation name used in case names and violation keys.
func (it Item) OpName() string { return "cli:" + it.Form.Name }

// Scenario is the scenario name used in case names.
func (it Item) Scenario() fileprop.Scenario {
	if it.Dest == None {
		return fileprop.Scenario(it.Shape)
	}
	return fileprop.Scenario(string(it.Shape) + "/" + string(it.Dest))
}

// ScGroup is the scenario name used in violation keys (mode variants collapsed).
func (it Item) ScGroup() string {
	if it.Dest == None {
		return string(it.Shape)
	}
	return string(it.Shape) + "/" + it.Dest.Group()
}

// Class groups the items of one form for sampling: the members of a class exercise the same code of the
// form and differ in the destination kind / the stream side only.
func (it Item) Class() string {
	switch it.Shape {
	case FileStdout, StdinStdout:
		return "stdout"
	case FileFile, InPlace:
		return "plain"
	}
	return string(it.Shape)
}

// All enumerates every (form, shape, destination kind) in a fixed order.
func All() []Item {
	var out []Item
	for _, f := range Forms() {
		add := func(s Shape, ds ...Dest) {
			for _, d := range ds {
				out = append(out, Item{f, s, d})
			}
		}
		streamIn := f.In != ""
		switch f.Res {
		case Text:
			add(StdinText, None)
			continue
		case Dir:
			add(StdinDir, DirEmpty, DirExisting)
			continue
		}
		if streamIn && !f.NoOutFile && !f.StdoutOnly {
			add(StdinFile, New, Existing0600, Existing0644, Existing0664, Symlink, Hardlink, OutDirMissing)
			if !f.StdinNotPDF {
				add(StdinFile, SameAsStdin)
			}
		}
		if !f.NoOutStream {
			if !f.NoOutFile {
				add(FileStdout, None) // for forms without a stream input: all inputs are files
			}
			if streamIn {
				add(StdinStdout, None)
			}
		}
		if f.Rep && !f.StdoutOnly {
			if !f.NoOutFile {
				if !f.MustExist {
					add(FileFile, New)
				}
				add(FileFile, Existing0644, Symlink, Hardlink)
			}
			if !f.NoInPlace {
				add(InPlace, Existing0644)
			}
		}
	}
	return out
}

// Find looks an item up by operation name and scenario.
func Find(opName string, sc fileprop.Scenario) (Item, bool) {
	for _, it := range All() {
		if it.OpName() == opName && it.Scenario() == sc {
			return it, true
		}
	}
	return Item{}, false
}

// Sample picks, per form and class, per(class) items by rotation (deterministic in offset); every
// destination kind of a class is reached by some form because consecutive forms start at consecutive positions.
func Sample(items []Item, offset int, perClass func(class string, formIndex int) int) []Item {
	type gk struct{ form, class string }
	groups := map[gk][]Item{}
	formIdx := map[string]int{}
	var order []gk
	for _, it := range items {
		k := gk{it.Form.Name, it.Class()}
		if _, ok := formIdx[k.form]; !ok {
			formIdx[k.form] = len(formIdx)
		}
		if _, ok := groups[k]; !ok {
			order = append(order, k)
		}
		groups[k] = append(groups[k], it)
	}
	var out []Item
	for gi, k := range order {
		g := groups[k]
		per := perClass(k.class, formIdx[k.form])
		n := per
		if n > len(g) {
			n = len(g)
		}
		for j := 0; j < n; j++ {
			out = append(out, g[(gi*per+offset+j)%len(g)])
		}
	}
	return out
}

const (
	tmpDir     = "tmp"
	stdoutSink = "stdout.bin"
	outDirName = "outdir"
)

func ext(f Form) string {
	if f.Res == JSON {
		return ".json"
	}
	return ".pdf"
}

func cp(src, dst string, mode os.FileMode) error {
	b, err := os.ReadFile(src)
	if err != nil {
		return err
	}
	if err := os.WriteFile(dst, b, 0o600); err != nil {
		return err
	}
	return os.Chmod(dst, mode)
}

// oldContent is what an existing destination holds before the call: a valid PDF for PDF outputs
// (import and merge append read it), text otherwise.
func oldContent(fx string, f Form) ([]byte, error) {
	if f.Res == JSON {
		return []byte("{\"old\": \"OLD CONTENT\"}\n"), nil
	}
	return os.ReadFile(filepath.Join(fx, opcat.FxOne))
}

// runner drives one invocation in-process.
type runner struct {
	form   Form
	args   Args
	stdin  string // path the harness opens as os.Stdin ("" = stdin is not used)
	stdout string // path the harness opens as os.Stdout ("" = stdout is not used)
	tmp    string // $TMPDIR
}

// run executes the command the way cmd/pdfcpu does (cli.XCommand, then cli.Dispatch). The harness's own
// opens and closes of the stdin / stdout files happen with the interposer paused: they are not calls
// of the operation, so they are neither counted nor faulted.
func (r *runner) run() (err error) {
	var in, out *os.File
	var perr error
	osmon.Pause(func() {
		if r.stdin != "" {
			if in, perr = os.Open(r.stdin); perr != nil {
				return
			}
		}
		if r.stdout != "" {
			out, perr = os.OpenFile(r.stdout, os.O_WRONLY|os.O_CREATE|os.O_TRUNC, 0o644)
		}
	})
	if perr != nil {
		panic("cliprop: harness cannot open stdin/stdout: " + perr.Error())
	}
	oldIn, oldOut := os.Stdin, os.Stdout
	oldTmp, hadTmp := os.LookupEnv("TMPDIR")
	if in != nil {
		os.Stdin = in
	}
	if out != nil {
		os.Stdout = out
	}
	os.Setenv("TMPDIR", r.tmp)
	defer func() {
		os.Stdin, os.Stdout = oldIn, oldOut
		if hadTmp {
			os.Setenv("TMPDIR", oldTmp)
		} else {
			os.Unsetenv("TMPDIR")
		}
		osmon.Pause(func() {
			if in != nil {
				in.Close()
			}
			if out != nil {
				out.Close()
			}
		})
	}()
	a := r.args
	cmd, err := r.form.Cmd(&a)
	if err != nil {
		return fmt.Errorf("cliprop: build command %s: %w", r.form.Name, err)
	}
	_, err = cli.Dispatch(cmd)
	return err
}

// Build creates the sandbox for it under root (root is created / emptied), runs the command once
// fault-free to learn the success tree, and restores the pristine state.
func Build(fx, root string, it Item) (*fileprop.Case, error) {
	f := it.Form
	if err := os.RemoveAll(root); err != nil {
		return nil, err
	}
	if err := os.MkdirAll(filepath.Join(root, tmpDir), 0o755); err != nil {
		return nil, err
	}
	p := func(n string) string { return filepath.Join(root, filepath.FromSlash(n)) }
	r := &runner{form: f, tmp: p(tmpDir), args: Args{Dir: root}}
	c := &fileprop.Case{Sc: it.Scenario(), Root: root, Call: &opcat.Call{Dir: root}, TmpDir: tmpDir}
	kind := opcat.SingleOut
	if f.Res == Dir {
		kind = opcat.DirOut
	}
	c.Op = opcat.Op{Name: it.OpName(), Kind: kind, Run: func(*opcat.Call) error { return r.run() }}

	for _, n := range f.Needs {
		if err := cp(filepath.Join(fx, n), p(n), 0o644); err != nil {
			return nil, err
		}
		c.Inputs = append(c.Inputs, n)
	}
	usesStdin := false
	switch it.Shape {
	case StdinFile, StdinStdout, StdinDir, StdinText:
		usesStdin = true
	}
	outName := "out" + ext(f)
	// the input
	switch {
	case f.In == "":
	case usesStdin && it.Dest == SameAsStdin:
		r.stdin, r.args.In = p(outName), "-"
	case usesStdin:
		src := "stdin-src" + filepath.Ext(f.In)
		if err := cp(filepath.Join(fx, f.In), p(src), 0o644); err != nil {
			return nil, err
		}
		c.Inputs = append(c.Inputs, src)
		r.stdin, r.args.In = p(src), "-"
	default:
		if err := cp(filepath.Join(fx, f.In), p(f.In), 0o644); err != nil {
			return nil, err
		}
		r.args.In = p(f.In)
		if it.Shape != InPlace {
			c.Inputs = append(c.Inputs, f.In)
		}
	}
	// the output
	switch it.Shape {
	case FileStdout, StdinStdout:
		if err := os.WriteFile(p(stdoutSink), nil, 0o644); err != nil {
			return nil, err
		}
		r.stdout, r.args.Out = p(stdoutSink), "-"
		c.Unjudged = []string{stdoutSink}
	case StdinText:
	case StdinDir:
		r.args.OutDir = p(outDirName)
		if err := os.MkdirAll(r.args.OutDir, 0o755); err != nil {
			return nil, err
		}
	case InPlace:
		r.args.Out = ""
		c.Dest = []string{f.In}
	case StdinFile, FileFile:
		r.args.Out = p(outName)
		c.Dest = []string{outName}
		old, err := oldContent(fx, f)
		if err != nil {
			return nil, err
		}
		put := func(name string, mode os.FileMode) error {
			if err := os.MkdirAll(filepath.Dir(p(name)), 0o755); err != nil {
				return err
			}
			if err := os.WriteFile(p(name), old, 0o600); err != nil {
				return err
			}
			return os.Chmod(p(name), mode)
		}
		switch it.Dest {
		case New:
		case Existing0600:
			err = put(outName, 0o600)
		case Existing0644:
			err = put(outName, 0o644)
		case Existing0664:
			err = put(outName, 0o664)
		case Symlink:
			target := "store/real" + ext(f)
			if err = put(target, 0o644); err == nil {
				err = os.Symlink(filepath.FromSlash(target), p(outName))
			}
			c.Aux = []string{target}
		case Hardlink:
			other := "keep/other" + ext(f)
			if err = put(other, 0o644); err == nil {
				err = os.Link(p(other), p(outName))
			}
			c.Aux = []string{other}
			c.AfterRestore = func() error {
				if err := os.Remove(p(other)); err != nil {
					return err
				}
				return os.Link(p(outName), p(other))
			}
		case SameAsStdin:
			err = cp(filepath.Join(fx, f.In), p(outName), 0o644)
		case OutDirMissing:
			r.args.Out = p("missing/" + outName)
			c.Dest = nil
			c.ExpectFail = true
		default:
			err = fmt.Errorf("destination kind %s does not apply to shape %s", it.Dest, it.Shape)
		}
		if err != nil {
			return nil, err
		}
	}
	pr, err := fsx.Snapshot(root, true)
	if err != nil {
		return nil, err
	}
	c.Pristine = pr
	rerr, pv := c.Run()
	if pv != nil {
		return nil, fmt.Errorf("fault-free run panicked: %v", pv)
	}
	if c.ExpectFail {
		if rerr == nil {
			return nil, fmt.Errorf("fault-free run into a missing directory succeeded")
		}
	} else if rerr != nil {
		return nil, fmt.Errorf("fault-free run failed: %w", rerr)
	}
	st, err := fsx.Snapshot(root, it.Dest == DirExisting)
	if err != nil {
		return nil, err
	}
	c.Success = st
	if it.Shape == FileStdout || it.Shape == StdinStdout {
		if st[stdoutSink].Size == 0 {
			return nil, fmt.Errorf("fault-free run wrote nothing to stdout")
		}
	}
	if f.Res == Dir {
		for q, e := range st {
			if strings.HasPrefix(q, outDirName+"/") && e.Mode.IsRegular() {
				c.Dest = append(c.Dest, q)
			}
		}
		if len(c.Dest) == 0 {
			return nil, fmt.Errorf("fault-free run wrote no files into the output directory")
		}
	}
	if it.Dest == DirExisting {
		for _, d := range c.Dest {
			e := st[d]
			e.Data = []byte("OLD CONTENT of " + d + "\n")
			e.Size = int64(len(e.Data))
			pr[d] = e
		}
		if err := fsx.Restore(root, pr); err != nil {
			return nil, err
		}
		pr2, err := fsx.Snapshot(root, true)
		if err != nil {
			return nil, err
		}
		c.Pristine = pr2
		if rerr, pv := c.Run(); rerr != nil || pv != nil {
			return nil, fmt.Errorf("fault-free run onto existing outputs failed: %v %v", rerr, pv)
		}
		st2, err := fsx.Snapshot(root, false)
		if err != nil {
			return nil, err
		}
		c.Success = st2
	}
	if err := c.Reset(); err != nil {
		return nil, err
	}
	return c, nil
}
