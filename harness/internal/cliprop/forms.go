//go:build verifshadow

// Package cliprop is the catalogue of pkg/cli command forms for the file-safety monitors (C01 faults,
// C02 crash points). A form is one command as cmd/pdfcpu builds it (cli.XCommand(...) then
// cli.Dispatch); it is driven IN-PROCESS with os.Stdin / os.Stdout pointed at files inside the
// sandbox and $TMPDIR at a sandbox directory, so that the package-os interposer (internal/osmon)
// sees every filesystem call of the CLI stream helpers (pkg/cli/io.go: readSeekerFromStdin,
// withStdinReadSeeker, streamInOutForOperation, createStreamOutput, streamInOutFinalizer.finalize).
package cliprop

import (
	"path/filepath"

	"github.com/pdfcpu/pdfcpu/pkg/api"
	"github.com/pdfcpu/pdfcpu/pkg/cli"
	"github.com/pdfcpu/pdfcpu/pkg/pdfcpu"
	"github.com/pdfcpu/pdfcpu/pkg/pdfcpu/model"
	"github.com/pdfcpu/pdfcpu/pkg/pdfcpu/types"
	"verif/harness/internal/opcat"
)

// Res says what a form produces.
type Res int

const (
	PDF  Res = iota // one PDF (file or stdout)
	JSON            // one JSON document (file or stdout)
	Dir             // files in a directory; only the input may be a stream
	Text            // a listing (returned lines); only the input may be a stream
)

// Args are the path arguments of one invocation.
type Args struct {
	Dir    string // sandbox root; fixtures are found there by name
	In     string // "-" or the path of the input ("" if the form has none)
	Out    string // "-", a path, or "" (in place; stdout when In is "-")
	OutDir string // output directory of Dir forms
}

// Fx is the path of fixture n inside the sandbox.
func (a *Args) Fx(n string) string { return filepath.Join(a.Dir, n) }

// Form is one command form.
type Form struct {
	Name  string
	Res   Res
	In    string   // fixture that is the stream-capable input ("" = none: merge/create, import from files, create/new)
	Needs []string // other fixtures the command reads by name
	// NoOutStream: the output cannot be "-".
	NoOutStream bool
	// NoOutFile: cmd/pdfcpu offers no outFile argument (attachments add/remove, portfolio add): a file input
	// is rewritten in place, a stdin input goes to stdout. No "cmd - out.pdf" form exists.
	NoOutFile bool
	// NoInPlace: the file form needs an explicit output (nup, grid, booklet, merge, import, create/new, JSON outputs).
	NoInPlace bool
	// Appends: an existing output file is also read (import appends pages, merge append).
	Appends bool
	// MustExist: the output file must exist before the call (merge append).
	MustExist bool
	// StdinNotPDF: stdin carries an image; "destination = the stdin source" makes no sense.
	StdinNotPDF bool
	// StdoutOnly: the result can only go to stdout (extract -m page ... -).
	StdoutOnly bool
	// Rep: member of the representative subset that is also driven in the plain file forms
	// (cmd in out, cmd in) through pkg/cli. pkg/cli hands those to pkg/api's *File functions unchanged.
	Rep bool
	Cmd func(a *Args) (*cli.Command, error)
}

const unit = types.POINTS

func conf() *model.Configuration { return opcat.DefaultConf() }

func pwConf(upw, opw string) *model.Configuration {
	c := conf()
	c.UserPW, c.OwnerPW = upw, opw
	return c
}

const (
	one    = opcat.FxOne
	multi  = opcat.FxMulti
	wm     = opcat.FxWM
	enc    = opcat.FxEnc
	annot  = opcat.FxAnnot
	images = opcat.FxImages
	fonts  = opcat.FxFonts
	viewer = opcat.FxViewer
	boxes  = opcat.FxBoxes
	fform  = opcat.FxForm
	core   = opcat.FxCoreForm
	blank  = opcat.FxFormBlank
	signed = opcat.FxSigned
)

type inOut func(in, out string) (*cli.Command, error)

// Forms lists every command form that pkg/cli routes through its stream helpers (read off
// pkg/cli/*_exec.go and cmd/pdfcpu/*.go; argument shapes as in harness/cmd/c41/forms.go), plus
// merge/append (file form only).
func Forms() []Form {
	var fs []Form
	// pdf: cmd in out with optional out.
	pdf := func(name, in string, needs []string, f func(a *Args) (*cli.Command, error)) *Form {
		fs = append(fs, Form{Name: name, Res: PDF, In: in, Needs: needs, Cmd: f})
		return &fs[len(fs)-1]
	}
	io := func(name, in string, f inOut) *Form {
		return pdf(name, in, nil, func(a *Args) (*cli.Command, error) { return f(a.In, a.Out) })
	}
	dir := func(name, in string, f func(a *Args) (*cli.Command, error)) *Form {
		fs = append(fs, Form{Name: name, Res: Dir, In: in, NoOutStream: true, NoInPlace: true, Cmd: f})
		return &fs[len(fs)-1]
	}
	txt := func(name, in string, f func(in string) *cli.Command) *Form {
		fs = append(fs, Form{Name: name, Res: Text, In: in, NoOutStream: true, NoInPlace: true,
			Cmd: func(a *Args) (*cli.Command, error) { return f(a.In), nil }})
		return &fs[len(fs)-1]
	}

	// ---- document
	io("optimize", multi, func(in, out string) (*cli.Command, error) { return cli.OptimizeCommand(in, out, conf()), nil }).Rep = true
	io("trim", multi, func(in, out string) (*cli.Command, error) {
		return cli.TrimCommand(in, out, []string{"1"}, conf()), nil
	})
	io("collect", multi, func(in, out string) (*cli.Command, error) {
		return cli.CollectCommand(in, out, []string{"1", "1"}, conf()), nil
	})
	pdf("create/update", one, []string{opcat.FxCreateJSON}, func(a *Args) (*cli.Command, error) {
		return cli.CreateCommand(a.In, a.Fx(opcat.FxCreateJSON), a.Out, conf()), nil
	}).Rep = true
	f := pdf("create/new", "", []string{opcat.FxCreateJSON}, func(a *Args) (*cli.Command, error) {
		return cli.CreateCommand("", a.Fx(opcat.FxCreateJSON), a.Out, conf()), nil
	})
	f.NoInPlace = true
	f = pdf("merge/create", "", []string{one, multi}, func(a *Args) (*cli.Command, error) {
		return cli.MergeCreateCommand([]string{a.Fx(one), a.Fx(multi)}, a.Out, false, conf()), nil
	})
	f.NoInPlace, f.Rep = true, true
	f = pdf("merge/create/stdin-source", multi, []string{one}, func(a *Args) (*cli.Command, error) {
		return cli.MergeCreateCommand([]string{a.Fx(one), a.In}, a.Out, false, conf()), nil
	})
	f.NoInPlace = true
	f = pdf("merge/zip", "", []string{multi, wm}, func(a *Args) (*cli.Command, error) {
		return cli.MergeCreateZipCommand([]string{a.Fx(multi), a.Fx(wm)}, a.Out, conf()), nil
	})
	f.NoInPlace, f.Rep = true, true
	f = pdf("merge/append", "", []string{one, multi}, func(a *Args) (*cli.Command, error) {
		return cli.MergeAppendCommand([]string{a.Fx(one), a.Fx(multi)}, a.Out, false, conf()), nil
	})
	f.NoInPlace, f.NoOutStream, f.Appends, f.MustExist, f.Rep = true, true, true, true, true
	dir("split", multi, func(a *Args) (*cli.Command, error) { return cli.SplitCommand(a.In, a.OutDir, 3, conf()), nil })
	dir("split/page", multi, func(a *Args) (*cli.Command, error) {
		return cli.SplitByPageNrCommand(a.In, a.OutDir, []int{3, 6}, conf()), nil
	})
	txt("validate", multi, func(in string) *cli.Command { return cli.ValidateCommand([]string{in}, conf()) })
	txt("info", multi, func(in string) *cli.Command { return cli.InfoCommand([]string{in}, nil, false, false, conf()) })

	// ---- pages
	io("pages/insert", multi, func(in, out string) (*cli.Command, error) {
		return cli.InsertPagesCommand(in, out, []string{"1"}, conf(), "", nil), nil
	})
	io("pages/remove", multi, func(in, out string) (*cli.Command, error) {
		return cli.RemovePagesCommand(in, out, []string{"2"}, conf()), nil
	})
	io("rotate", multi, func(in, out string) (*cli.Command, error) { return cli.RotateCommand(in, out, 90, nil, conf()), nil }).Rep = true
	f = io("nup", multi, func(in, out string) (*cli.Command, error) {
		c := conf()
		nup := model.DefaultNUpConfig()
		nup.InpUnit = c.Unit
		if err := api.ParseNUpValue(4, nup); err != nil {
			return nil, err
		}
		return cli.NUpCommand([]string{in}, out, nil, nup, c), nil
	})
	f.NoInPlace, f.Rep = true, true
	io("grid", multi, func(in, out string) (*cli.Command, error) {
		c := conf()
		nup := model.DefaultNUpConfig()
		nup.InpUnit = c.Unit
		nup.PageGrid = true
		if err := api.ParseGridDefinition(1, 2, nup); err != nil {
			return nil, err
		}
		return cli.GridCommand([]string{in}, out, nil, nup, c), nil
	}).NoInPlace = true
	io("booklet", multi, func(in, out string) (*cli.Command, error) {
		c := conf()
		nup := api.DefaultBookletConfig()
		nup.InpUnit = c.Unit
		if err := api.ParseNUpValue(4, nup); err != nil {
			return nil, err
		}
		return cli.BookletCommand([]string{in}, out, nil, nup, c), nil
	}).NoInPlace = true
	io("resize", multi, func(in, out string) (*cli.Command, error) {
		rc, err := pdfcpu.ParseResizeConfig("sc:.5", unit)
		if err != nil {
			return nil, err
		}
		return cli.ResizeCommand(in, out, nil, rc, conf()), nil
	})
	io("zoom", multi, func(in, out string) (*cli.Command, error) {
		zc, err := pdfcpu.ParseZoomConfig("factor: .5", unit)
		if err != nil {
			return nil, err
		}
		return cli.ZoomCommand(in, out, nil, zc, conf()), nil
	})
	io("crop", multi, func(in, out string) (*cli.Command, error) {
		box, err := api.Box("10", unit)
		if err != nil {
			return nil, err
		}
		return cli.CropCommand(in, out, nil, box, conf()), nil
	})
	io("boxes/add", multi, func(in, out string) (*cli.Command, error) {
		pb, err := api.PageBoundaries("trim:5", unit)
		if err != nil {
			return nil, err
		}
		return cli.AddBoxesCommand(in, out, nil, pb, conf()), nil
	})
	io("boxes/remove", boxes, func(in, out string) (*cli.Command, error) {
		pb, err := api.PageBoundariesFromBoxList("crop,trim")
		if err != nil {
			return nil, err
		}
		return cli.RemoveBoxesCommand(in, out, nil, pb, conf()), nil
	})
	txt("boxes/list", boxes, func(in string) *cli.Command { return cli.ListBoxesCommand(in, nil, nil, conf()) })
	dir("poster", one, func(a *Args) (*cli.Command, error) {
		cut, err := pdfcpu.ParseCutConfigForPoster("f:A6", unit)
		if err != nil {
			return nil, err
		}
		return cli.PosterCommand(a.In, a.OutDir, "", nil, cut, conf()), nil
	})
	dir("ndown", one, func(a *Args) (*cli.Command, error) {
		cut, err := pdfcpu.ParseCutConfigForN(2, "", unit)
		if err != nil {
			return nil, err
		}
		return cli.NDownCommand(a.In, a.OutDir, "", nil, 2, cut, conf()), nil
	})
	dir("cut", one, func(a *Args) (*cli.Command, error) {
		cut, err := pdfcpu.ParseCutConfig("hor:.5", unit)
		if err != nil {
			return nil, err
		}
		return cli.CutCommand(a.In, a.OutDir, "", nil, cut, conf()), nil
	})

	// ---- content
	textWM := func(name, in, text, desc string, onTop, update bool) *Form {
		return io(name, in, func(in, out string) (*cli.Command, error) {
			w, err := pdfcpu.ParseTextWatermarkDetails(text, desc, onTop, unit)
			if err != nil {
				return nil, err
			}
			w.Update = update
			return cli.AddWatermarksCommand(in, out, nil, w, conf()), nil
		})
	}
	textWM("watermark/add", multi, "Draft", "pos:c, rot:0", false, false).Rep = true
	textWM("watermark/update", wm, "New", "pos:tl", false, true)
	io("watermark/remove", wm, func(in, out string) (*cli.Command, error) {
		return cli.RemoveWatermarksCommand(in, out, nil, conf()), nil
	})
	textWM("stamp/add", multi, "Confidential", "pos:br, scale:.3", true, false)
	pdf("stamp/add/image", multi, []string{opcat.FxImg}, func(a *Args) (*cli.Command, error) {
		w, err := pdfcpu.ParseImageWatermarkDetails(a.Fx(opcat.FxImg), "pos:tr, scale:.2", true, unit)
		if err != nil {
			return nil, err
		}
		return cli.AddWatermarksCommand(a.In, a.Out, nil, w, conf()), nil
	})
	textWM("stamp/update", wm, "New", "pos:tl", true, true)
	io("stamp/remove", wm, func(in, out string) (*cli.Command, error) {
		return cli.RemoveWatermarksCommand(in, out, nil, conf()), nil
	})
	io("annotations/remove", annot, func(in, out string) (*cli.Command, error) {
		return cli.RemoveAnnotationsCommand(in, out, nil, nil, nil, conf()), nil
	})
	txt("annotations/list", annot, func(in string) *cli.Command { return cli.ListAnnotationsCommand(in, nil, conf()) })
	f = io("bookmarks/export", multi, func(in, out string) (*cli.Command, error) {
		return cli.ExportBookmarksCommand(in, out, conf()), nil
	})
	f.Res, f.NoInPlace, f.Rep = JSON, true, true
	pdf("bookmarks/import", multi, []string{opcat.FxBMJSON}, func(a *Args) (*cli.Command, error) {
		return cli.ImportBookmarksCommand(a.In, a.Fx(opcat.FxBMJSON), a.Out, true, conf()), nil
	})
	io("bookmarks/remove", multi, func(in, out string) (*cli.Command, error) {
		return cli.RemoveBookmarksCommand(in, out, conf()), nil
	})
	txt("bookmarks/list", multi, func(in string) *cli.Command { return cli.ListBookmarksCommand(in, conf()) })
	io("pagelayout/set", multi, func(in, out string) (*cli.Command, error) {
		return cli.SetPageLayoutCommand(in, out, "TwoColumnLeft", conf()), nil
	})
	io("pagelayout/reset", viewer, func(in, out string) (*cli.Command, error) {
		return cli.ResetPageLayoutCommand(in, out, conf()), nil
	})
	txt("pagelayout/list", viewer, func(in string) *cli.Command { return cli.ListPageLayoutCommand(in, conf()) })
	io("pagemode/set", multi, func(in, out string) (*cli.Command, error) {
		return cli.SetPageModeCommand(in, out, "UseOutlines", conf()), nil
	})
	io("pagemode/reset", viewer, func(in, out string) (*cli.Command, error) {
		return cli.ResetPageModeCommand(in, out, conf()), nil
	})
	txt("pagemode/list", viewer, func(in string) *cli.Command { return cli.ListPageModeCommand(in, conf()) })
	pdf("viewerpref/set", multi, []string{opcat.FxVPJSON}, func(a *Args) (*cli.Command, error) {
		return cli.SetViewerPreferencesCommand(a.In, a.Fx(opcat.FxVPJSON), a.Out, "", conf()), nil
	})
	io("viewerpref/reset", viewer, func(in, out string) (*cli.Command, error) {
		return cli.ResetViewerPreferencesCommand(in, out, conf()), nil
	})
	txt("viewerpref/list", viewer, func(in string) *cli.Command {
		return cli.ListViewerPreferencesCommand(in, false, false, conf())
	})

	// ---- resources
	f = pdf("import", "", []string{opcat.FxImg, opcat.FxImg2}, func(a *Args) (*cli.Command, error) {
		return cli.ImportImagesCommand([]string{a.Fx(opcat.FxImg), a.Fx(opcat.FxImg2)}, a.Out, api.DefaultImportConfig(), conf()), nil
	})
	f.NoInPlace, f.Appends, f.Rep = true, true, true
	f = pdf("import/stdin-image", opcat.FxImg, []string{opcat.FxImg2}, func(a *Args) (*cli.Command, error) {
		return cli.ImportImagesCommand([]string{a.In, a.Fx(opcat.FxImg2)}, a.Out, api.DefaultImportConfig(), conf()), nil
	})
	f.NoInPlace, f.Appends, f.StdinNotPDF = true, true, true
	f = pdf("images/update/page-id", images, []string{opcat.FxReplImg}, func(a *Args) (*cli.Command, error) {
		return cli.UpdateImagesCommand(a.In, a.Fx(opcat.FxReplImg), a.Out, 1, "Im1", conf()), nil
	})
	f.NoInPlace = true
	f = pdf("images/update/objnr", images, []string{opcat.FxReplImg}, func(a *Args) (*cli.Command, error) {
		return cli.UpdateImagesCommand(a.In, a.Fx(opcat.FxReplImg), a.Out, 7, "", conf()), nil
	})
	f.NoInPlace = true
	txt("images/list", images, func(in string) *cli.Command { return cli.ListImagesCommand([]string{in}, nil, conf()) })
	dir("images/extract", images, func(a *Args) (*cli.Command, error) {
		return cli.ExtractImagesCommand(a.In, a.OutDir, nil, conf()), nil
	})
	f = pdf("attachments/add", multi, []string{opcat.FxImg}, func(a *Args) (*cli.Command, error) {
		return cli.AddAttachmentsCommand(a.In, a.Out, []string{a.Fx(opcat.FxImg)}, conf()), nil
	})
	f.NoOutFile, f.Rep = true, true
	io("attachments/remove", multi, func(in, out string) (*cli.Command, error) {
		return cli.RemoveAttachmentsCommand(in, out, []string{opcat.FxAtt}, conf()), nil
	}).NoOutFile = true
	txt("attachments/list", multi, func(in string) *cli.Command { return cli.ListAttachmentsCommand(in, conf()) })
	dir("attachments/extract", multi, func(a *Args) (*cli.Command, error) {
		return cli.ExtractAttachmentsCommand(a.In, a.OutDir, nil, conf()), nil
	})
	pdf("portfolio/add", multi, []string{opcat.FxImg}, func(a *Args) (*cli.Command, error) {
		return cli.AddAttachmentsPortfolioCommand(a.In, a.Out, []string{a.Fx(opcat.FxImg)}, conf()), nil
	}).NoOutFile = true
	io("keywords/add", multi, func(in, out string) (*cli.Command, error) {
		return cli.AddKeywordsCommand(in, out, []string{"gamma"}, conf()), nil
	}).NoInPlace = true
	io("keywords/remove", multi, func(in, out string) (*cli.Command, error) {
		return cli.RemoveKeywordsCommand(in, out, []string{"alpha"}, conf()), nil
	}).NoInPlace = true
	txt("keywords/list", multi, func(in string) *cli.Command { return cli.ListKeywordsCommand(in, conf()) })
	io("properties/add", multi, func(in, out string) (*cli.Command, error) {
		return cli.AddPropertiesCommand(in, out, map[string]string{"Dept": "QA"}, conf()), nil
	})
	io("properties/remove", multi, func(in, out string) (*cli.Command, error) {
		return cli.RemovePropertiesCommand(in, out, []string{"Project"}, conf()), nil
	})
	txt("properties/list", multi, func(in string) *cli.Command { return cli.ListPropertiesCommand(in, conf()) })

	// ---- extract
	f = pdf("extract/page/stdout", multi, nil, func(a *Args) (*cli.Command, error) {
		return cli.ExtractPagesCommand(a.In, "-", []string{"2"}, conf()), nil
	})
	f.StdoutOnly, f.NoInPlace = true, true
	dir("extract/page", multi, func(a *Args) (*cli.Command, error) {
		return cli.ExtractPagesCommand(a.In, a.OutDir, []string{"2-3"}, conf()), nil
	})
	dir("extract/image", images, func(a *Args) (*cli.Command, error) {
		return cli.ExtractImagesCommand(a.In, a.OutDir, nil, conf()), nil
	})
	dir("extract/font", fonts, func(a *Args) (*cli.Command, error) {
		return cli.ExtractFontsCommand(a.In, a.OutDir, nil, conf()), nil
	})
	dir("extract/content", multi, func(a *Args) (*cli.Command, error) {
		return cli.ExtractContentCommand(a.In, a.OutDir, []string{"1"}, conf()), nil
	})
	dir("extract/meta", signed, func(a *Args) (*cli.Command, error) {
		return cli.ExtractMetadataCommand(a.In, a.OutDir, conf()), nil
	})

	// ---- form
	pdf("form/fill", blank, []string{opcat.FxFormJSON}, func(a *Args) (*cli.Command, error) {
		return cli.FillFormCommand(a.In, a.Fx(opcat.FxFormJSON), a.Out, conf()), nil
	}).Rep = true
	io("form/lock", core, func(in, out string) (*cli.Command, error) { return cli.LockFormCommand(in, out, nil, conf()), nil })
	io("form/unlock", fform, func(in, out string) (*cli.Command, error) { return cli.UnlockFormCommand(in, out, nil, conf()), nil })
	io("form/reset", core, func(in, out string) (*cli.Command, error) { return cli.ResetFormCommand(in, out, nil, conf()), nil })
	io("form/remove", fform, func(in, out string) (*cli.Command, error) {
		return cli.RemoveFormFieldsCommand(in, out, []string{"dob1", "firstName1"}, conf()), nil
	})
	txt("form/list", fform, func(in string) *cli.Command { return cli.ListFormFieldsCommand([]string{in}, conf()) })
	f = io("form/export", fform, func(in, out string) (*cli.Command, error) {
		return cli.ExportFormCommand(in, out, conf()), nil
	})
	f.Res, f.NoInPlace, f.NoOutStream = JSON, true, true
	f = pdf("form/multifill/merge/stdout", blank, []string{opcat.FxMultiJSON}, func(a *Args) (*cli.Command, error) {
		return cli.MultiFillFormCommand(a.In, a.Fx(opcat.FxMultiJSON), "", "-", true, conf()), nil
	})
	f.StdoutOnly, f.NoInPlace = true, true
	fs = append(fs, Form{Name: "form/multifill/merge", Res: Dir, In: blank, Needs: []string{opcat.FxMultiJSON}, NoOutStream: true, NoInPlace: true,
		Cmd: func(a *Args) (*cli.Command, error) {
			return cli.MultiFillFormCommand(a.In, a.Fx(opcat.FxMultiJSON), a.OutDir, "", true, conf()), nil
		}})
	fs = append(fs, Form{Name: "form/multifill", Res: Dir, In: blank, Needs: []string{opcat.FxMultiJSON}, NoOutStream: true, NoInPlace: true,
		Cmd: func(a *Args) (*cli.Command, error) {
			return cli.MultiFillFormCommand(a.In, a.Fx(opcat.FxMultiJSON), a.OutDir, "", false, conf()), nil
		}})

	// ---- security
	io("encrypt", multi, func(in, out string) (*cli.Command, error) {
		c := pwConf(opcat.UserPW, opcat.OwnerPW)
		c.EncryptUsingAES, c.EncryptKeyLength = true, 256
		return cli.EncryptCommand(in, out, c), nil
	}).Rep = true
	io("decrypt", enc, func(in, out string) (*cli.Command, error) {
		return cli.DecryptCommand(in, out, pwConf(opcat.UserPW, opcat.OwnerPW)), nil
	})
	io("changeupw", enc, func(in, out string) (*cli.Command, error) {
		o, n := opcat.UserPW, "u2"
		return cli.ChangeUserPWCommand(in, out, &o, &n, pwConf("", opcat.OwnerPW)), nil
	})
	io("changeopw", enc, func(in, out string) (*cli.Command, error) {
		o, n := opcat.OwnerPW, "o2"
		return cli.ChangeOwnerPWCommand(in, out, &o, &n, pwConf(opcat.UserPW, "")), nil
	})
	io("permissions/set", enc, func(in, out string) (*cli.Command, error) {
		c := pwConf(opcat.UserPW, opcat.OwnerPW)
		c.Permissions = model.PermissionsAll
		return cli.SetPermissionsCommand(in, out, c), nil
	})
	txt("permissions/list", multi, func(in string) *cli.Command { return cli.ListPermissionsCommand([]string{in}, conf()) })
	io("signatures/remove", signed, func(in, out string) (*cli.Command, error) {
		return cli.RemoveSignaturesCommand(in, out, conf()), nil
	})
	return fs
}

// NotDriven: stream-capable leaves that are not in Forms(), with the reason.
var NotDriven = map[string]string{
	"signatures validate -":                  "spools stdin (readSeekerFromStdin) and writes no file; needs a trust store in the config dir, which the file-safety workers disable (driven in C27/C28)",
	"portfolio remove/extract/list":          "same handlers as attachments remove/extract/list (driven there)",
	"validate/info/list with several inputs": "one stdin input among files: the same withStdinReadSeeker path as the single-input forms",
}
