// Package fontcase builds the batch-installation cases (fonts, collections, certificates, cheat
// sheets) shared by C06 (all-or-nothing under faults) and C07 (durability of a successful install).
package fontcase

import (
	"crypto/ecdsa"
	"crypto/elliptic"
	"crypto/rand"
	"crypto/x509"
	"crypto/x509/pkix"
	"encoding/pem"
	"fmt"
	"math/big"
	"os"
	"path/filepath"
	"time"

	"github.com/pdfcpu/pdfcpu/pkg/api"
	"github.com/pdfcpu/pdfcpu/pkg/font"
	"github.com/pdfcpu/pdfcpu/pkg/pdfcpu/model"
	"verif/harness/internal/fontkit"
)

// Shape describes one batch.
type Shape struct {
	Name   string
	Kind   string   // installfonts | ttc | frombytes | certs | cheatsheets
	Inputs []string // logical inputs: "R" Roboto, "A" "B" "C" renamed variants, "T" a 2-member collection (D,E), "X" corrupt font, "A2" second font with A's PostScript name; certs: "c1" "c2" "c3" "cx"(corrupt)
	Pre    []string // logical inputs installed beforehand (tweaked variants, so that replaced targets differ in bytes)
	// Invalid: the batch must fail by itself (corrupt / duplicate input).
	Invalid bool
}

// Shapes returns the catalogue (quick: a subset).
func Shapes(quick bool) []Shape {
	all := []Shape{
		{Name: "fonts-1-none", Kind: "installfonts", Inputs: []string{"R"}},
		{Name: "fonts-1-replaced", Kind: "installfonts", Inputs: []string{"R"}, Pre: []string{"R"}},
		{Name: "fonts-2-none", Kind: "installfonts", Inputs: []string{"R", "A"}},
		{Name: "fonts-2-some", Kind: "installfonts", Inputs: []string{"R", "A"}, Pre: []string{"A"}},
		{Name: "fonts-3-all", Kind: "installfonts", Inputs: []string{"R", "A", "B"}, Pre: []string{"R", "A", "B"}},
		{Name: "fonts-3-some-other", Kind: "installfonts", Inputs: []string{"R", "A", "B"}, Pre: []string{"B", "C"}},
		{Name: "fonts-ttc-in-batch", Kind: "installfonts", Inputs: []string{"R", "T"}, Pre: []string{"D"}},
		{Name: "fonts-corrupt-1st", Kind: "installfonts", Inputs: []string{"X", "R", "A"}, Pre: []string{"A"}, Invalid: true},
		{Name: "fonts-corrupt-2nd", Kind: "installfonts", Inputs: []string{"R", "X", "A"}, Pre: []string{"R"}, Invalid: true},
		{Name: "fonts-corrupt-3rd", Kind: "installfonts", Inputs: []string{"R", "A", "X"}, Pre: []string{"R", "A"}, Invalid: true},
		{Name: "fonts-duplicate-psname", Kind: "installfonts", Inputs: []string{"A", "A2"}, Pre: []string{"A"}, Invalid: true},
		{Name: "ttc-none", Kind: "ttc", Inputs: []string{"T"}},
		{Name: "ttc-some", Kind: "ttc", Inputs: []string{"T"}, Pre: []string{"E"}},
		{Name: "ttc-all", Kind: "ttc", Inputs: []string{"T"}, Pre: []string{"D", "E", "R"}},
		{Name: "frombytes-none", Kind: "frombytes", Inputs: []string{"R"}},
		{Name: "frombytes-replaced", Kind: "frombytes", Inputs: []string{"R"}, Pre: []string{"R", "A"}},
		{Name: "certs-1-none", Kind: "certs", Inputs: []string{"c1"}},
		{Name: "certs-2-some", Kind: "certs", Inputs: []string{"c1", "c2"}, Pre: []string{"c2"}},
		{Name: "certs-3-all", Kind: "certs", Inputs: []string{"c1", "c2", "c3"}, Pre: []string{"c1", "c2", "c3"}},
		{Name: "certs-corrupt-2nd", Kind: "certs", Inputs: []string{"c1", "cx", "c3"}, Pre: []string{"c1"}, Invalid: true},
		{Name: "cheatsheets-2-none", Kind: "cheatsheets", Inputs: []string{"R", "A"}},
		{Name: "cheatsheets-2-existing", Kind: "cheatsheets", Inputs: []string{"R", "A"}, Pre: []string{"sheets"}},
	}
	if !quick {
		return all
	}
	var q []Shape
	for _, s := range all {
		switch s.Name {
		case "fonts-1-replaced", "fonts-2-some", "fonts-3-all", "fonts-ttc-in-batch", "fonts-corrupt-2nd", "fonts-duplicate-psname",
			"ttc-some", "frombytes-replaced", "certs-2-some", "certs-3-all", "certs-corrupt-2nd", "cheatsheets-2-existing":
			q = append(q, s)
		}
	}
	return q
}

// Material holds the generated inputs (built once per process).
type Material struct {
	Fonts map[string][]byte // logical name -> font file bytes
	Old   map[string][]byte // tweaked variants for pre-installation
	PS    map[string]string // logical name -> PostScript name
	Certs map[string][]byte // PEM
}

// PostScript names (same length as "Roboto-Regular").
var psNames = map[string]string{"R": "Roboto-Regular", "A": "Veriaa-Regular", "B": "Veribb-Regular", "C": "Vericc-Regular", "D": "Veridd-Regular", "E": "Veriee-Regular", "A2": "Veriaa-Regular"}

// NewMaterial derives all inputs from Roboto-Regular.ttf of the repo.
func NewMaterial(repo string) (*Material, error) {
	base, err := os.ReadFile(filepath.Join(repo, "pkg", "testdata", "fonts", "Roboto-Regular.ttf"))
	if err != nil {
		return nil, err
	}
	m := &Material{Fonts: map[string][]byte{}, Old: map[string][]byte{}, PS: psNames, Certs: map[string][]byte{}}
	for k, ps := range psNames {
		b := base
		if ps != "Roboto-Regular" {
			if b, _, err = fontkit.Rename(base, "Roboto-Regular", ps); err != nil {
				return nil, err
			}
		}
		if k == "A2" {
			if b, err = fontkit.Tweak(b); err != nil { // same PostScript name, different bytes
				return nil, err
			}
		}
		m.Fonts[k] = b
		old, err := fontkit.Tweak(b)
		if err != nil {
			return nil, err
		}
		m.Old[k] = old
	}
	ttc, err := fontkit.TTC(m.Fonts["D"], m.Fonts["E"])
	if err != nil {
		return nil, err
	}
	m.Fonts["T"] = ttc
	x := append([]byte(nil), base[:4096]...)
	for i := 12; i < len(x); i += 7 {
		x[i] ^= 0xa5
	}
	m.Fonts["X"] = x
	for i, n := range []string{"c1", "c2", "c3"} {
		key, err := ecdsa.GenerateKey(elliptic.P256(), rand.Reader)
		if err != nil {
			return nil, err
		}
		tpl := &x509.Certificate{SerialNumber: big.NewInt(int64(1000 + i)), Subject: pkix.Name{CommonName: "verif CA " + n, Organization: []string{"verif"}},
			NotBefore: time.Now().Add(-time.Hour), NotAfter: time.Now().Add(24 * time.Hour), IsCA: true, BasicConstraintsValid: true,
			KeyUsage: x509.KeyUsageCertSign | x509.KeyUsageCRLSign}
		der, err := x509.CreateCertificate(rand.Reader, tpl, tpl, &key.PublicKey, key)
		if err != nil {
			return nil, err
		}
		m.Certs[n] = pem.EncodeToMemory(&pem.Block{Type: "CERTIFICATE", Bytes: der})
	}
	m.Certs["cx"] = []byte("-----BEGIN CERTIFICATE-----\nnot base64 at all!!\n-----END CERTIFICATE-----\n")
	return m, nil
}

// Case is one prepared sandbox: Root/in (inputs), Root/fonts (font.UserFontDir), Root/certs
// (model.TrustedCertDir), Root/sheets (cwd for cheat sheets).
type Case struct {
	Shape    Shape
	Root     string
	FontDir  string
	CertDir  string
	SheetDir string
	files    []string
	mat      *Material
	// Expected lists the target files (relative to the target directory) a successful run publishes.
	Expected  []string
	TargetDir string
}

func ext(logical string) string {
	if logical == "T" {
		return ".ttc"
	}
	return ".ttf"
}

// Setup builds the sandbox (removing anything there), pre-installs Shape.Pre (unmonitored) and
// points pdfcpu's global directories into it.
func Setup(root string, sh Shape, mat *Material) (*Case, error) {
	if err := os.RemoveAll(root); err != nil {
		return nil, err
	}
	c := &Case{Shape: sh, Root: root, FontDir: filepath.Join(root, "fonts"), CertDir: filepath.Join(root, "certs"), SheetDir: filepath.Join(root, "sheets"), mat: mat}
	for _, d := range []string{filepath.Join(root, "in"), c.FontDir, c.CertDir, c.SheetDir} {
		if err := os.MkdirAll(d, 0o755); err != nil {
			return nil, err
		}
	}
	font.UserFontDir = c.FontDir
	model.TrustedCertDir = c.CertDir
	switch sh.Kind {
	case "installfonts", "ttc", "frombytes", "cheatsheets":
		c.TargetDir = c.FontDir
		var pre []string
		for _, p := range sh.Pre {
			if p == "sheets" {
				continue
			}
			fn := filepath.Join(root, "in", "pre-"+p+".ttf")
			if err := os.WriteFile(fn, mat.Old[p], 0o644); err != nil {
				return nil, err
			}
			pre = append(pre, fn)
		}
		if sh.Kind == "cheatsheets" {
			// fonts must be installed for cheat sheets; they are not the transaction's targets
			for _, p := range sh.Inputs {
				fn := filepath.Join(root, "in", "pre-"+p+".ttf")
				if err := os.WriteFile(fn, mat.Fonts[p], 0o644); err != nil {
					return nil, err
				}
				pre = append(pre, fn)
			}
		}
		if len(pre) > 0 {
			if err := api.InstallFonts(pre); err != nil {
				return nil, fmt.Errorf("pre-install: %w", err)
			}
			for _, fn := range pre {
				os.Remove(fn)
			}
		}
		for i, in := range sh.Inputs {
			fn := filepath.Join(root, "in", fmt.Sprintf("in%d-%s%s", i+1, in, ext(in)))
			if err := os.WriteFile(fn, mat.Fonts[in], 0o644); err != nil {
				return nil, err
			}
			c.files = append(c.files, fn)
			switch in {
			case "T":
				c.Expected = append(c.Expected, mat.PS["D"]+".gob", mat.PS["E"]+".gob")
			case "X":
			default:
				c.Expected = append(c.Expected, mat.PS[in]+".gob")
			}
		}
		if sh.Kind == "cheatsheets" {
			c.TargetDir = c.SheetDir
			c.Expected = nil
			// discover the sheet names with one unmonitored run, then empty the directory again
			if err, pv := c.Run(); err != nil || pv != nil {
				return nil, fmt.Errorf("cheat sheet discovery run: %v %v", err, pv)
			}
			ents, _ := os.ReadDir(c.SheetDir)
			for _, e := range ents {
				c.Expected = append(c.Expected, e.Name())
				os.Remove(filepath.Join(c.SheetDir, e.Name()))
			}
			if len(c.Expected) == 0 {
				return nil, fmt.Errorf("cheat sheet discovery run wrote nothing")
			}
			for _, p := range sh.Pre {
				if p == "sheets" {
					for _, e := range c.Expected {
						if err := os.WriteFile(filepath.Join(c.SheetDir, e), []byte("%PDF-1.4\nOLD SHEET\n"), 0o640); err != nil {
							return nil, err
						}
					}
				}
			}
		}
	case "certs":
		c.TargetDir = c.CertDir
		for _, p := range sh.Pre {
			if err := os.WriteFile(filepath.Join(c.CertDir, p+".p7c"), []byte("OLD "+p+"\n"), 0o640); err != nil {
				return nil, err
			}
		}
		for _, in := range sh.Inputs {
			fn := filepath.Join(root, "in", in+".pem")
			if err := os.WriteFile(fn, mat.Certs[in], 0o644); err != nil {
				return nil, err
			}
			c.files = append(c.files, fn)
			if in != "cx" {
				c.Expected = append(c.Expected, in+".p7c")
			}
		}
	}
	return c, nil
}

// Files returns the input files of the sandbox, one per Shape.Inputs entry (same order).
func (c *Case) Files() []string { return append([]string(nil), c.files...) }

// Material returns the generated inputs the sandbox was built from.
func (c *Case) Material() *Material { return c.mat }

// Run performs the installation, recovering a panic.
func (c *Case) Run() (err error, panicVal any) {
	defer func() {
		if r := recover(); r != nil {
			panicVal = r
		}
	}()
	switch c.Shape.Kind {
	case "installfonts":
		return api.InstallFonts(c.files), nil
	case "ttc":
		_, err := font.InstallTrueTypeCollection(c.FontDir, c.files[0])
		return err, nil
	case "frombytes":
		return font.InstallFontFromBytes(c.FontDir, c.mat.PS[c.Shape.Inputs[0]], c.mat.Fonts[c.Shape.Inputs[0]]), nil
	case "certs":
		_, err := api.ImportCertificates(c.files)
		return err, nil
	case "cheatsheets":
		wd, _ := os.Getwd()
		if e := os.Chdir(c.SheetDir); e != nil {
			return e, nil
		}
		defer os.Chdir(wd)
		var names []string
		for _, in := range c.Shape.Inputs {
			names = append(names, c.mat.PS[in])
		}
		return api.CreateCheatSheetsUserFonts(names), nil
	}
	return fmt.Errorf("unknown kind %s", c.Shape.Kind), nil
}

// Attach adopts a sandbox that Setup built earlier at another path and whose tree has been copied
// to root (Setup is expensive: it parses and installs fonts). It re-points pdfcpu's global directories.
func Attach(root string, sh Shape, mat *Material, expected []string) *Case {
	c := &Case{Shape: sh, Root: root, FontDir: filepath.Join(root, "fonts"), CertDir: filepath.Join(root, "certs"), SheetDir: filepath.Join(root, "sheets"), mat: mat, Expected: expected}
	font.UserFontDir = c.FontDir
	model.TrustedCertDir = c.CertDir
	switch sh.Kind {
	case "certs":
		c.TargetDir = c.CertDir
		for _, in := range sh.Inputs {
			c.files = append(c.files, filepath.Join(root, "in", in+".pem"))
		}
	case "cheatsheets":
		c.TargetDir = c.SheetDir
	default:
		c.TargetDir = c.FontDir
	}
	if sh.Kind != "certs" {
		for i, in := range sh.Inputs {
			c.files = append(c.files, filepath.Join(root, "in", fmt.Sprintf("in%d-%s%s", i+1, in, ext(in))))
		}
	}
	return c
}
