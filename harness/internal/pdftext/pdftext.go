// Package pdftext is an independent decoder/classifier for PDF text strings
// (ISO 32000-1 7.9.2.2): UTF-16BE with byte order mark, UTF-8 with BOM (PDF 2.0),
// PDFDocEncoding otherwise (Annex D.2). It imports nothing from pdfcpu; workers use it
// together with pdfstrict so that text comparisons do not pass through the code under test.
package pdftext

import (
	"fmt"
	"strings"
	"unicode/utf16"
	"unicode/utf8"
)

var pdfDocLow = map[byte]rune{
	0x18: 0x02D8, 0x19: 0x02C7, 0x1A: 0x02C6, 0x1B: 0x02D9, 0x1C: 0x02DD, 0x1D: 0x02DB, 0x1E: 0x02DA, 0x1F: 0x02DC,
}

var pdfDocHigh = [...]rune{
	0x2022, 0x2020, 0x2021, 0x2026, 0x2014, 0x2013, 0x0192, 0x2044, 0x2039, 0x203A, 0x2212, 0x2030, 0x201E, 0x201C, 0x201D, 0x2018,
	0x2019, 0x201A, 0x2122, 0xFB01, 0xFB02, 0x0141, 0x0152, 0x0160, 0x0178, 0x017D, 0x0131, 0x0142, 0x0153, 0x0161, 0x017E, 0xFFFD,
	0x20AC,
}

// Decode decodes the bytes of a PDF text string to UTF-8. Unpaired surrogates and
// undefined PDFDocEncoding bytes decode to U+FFFD and ok is false.
func Decode(b []byte) (s string, ok bool) {
	ok = true
	switch {
	case len(b) >= 2 && b[0] == 0xFE && b[1] == 0xFF:
		b = b[2:]
		if len(b)%2 == 1 {
			ok = false
			b = b[:len(b)-1]
		}
		u := make([]uint16, 0, len(b)/2)
		for i := 0; i+1 < len(b); i += 2 {
			u = append(u, uint16(b[i])<<8|uint16(b[i+1]))
		}
		var sb strings.Builder
		for i := 0; i < len(u); i++ {
			c := u[i]
			switch {
			case c >= 0xD800 && c < 0xDC00:
				if i+1 < len(u) && u[i+1] >= 0xDC00 && u[i+1] < 0xE000 {
					sb.WriteRune(utf16.DecodeRune(rune(c), rune(u[i+1])))
					i++
				} else {
					ok = false
					sb.WriteRune(0xFFFD)
				}
			case c >= 0xDC00 && c < 0xE000:
				ok = false
				sb.WriteRune(0xFFFD)
			default:
				sb.WriteRune(rune(c))
			}
		}
		return sb.String(), ok
	case len(b) >= 3 && b[0] == 0xEF && b[1] == 0xBB && b[2] == 0xBF:
		b = b[3:]
		return strings.ToValidUTF8(string(b), "�"), utf8.Valid(b)
	}
	var sb strings.Builder
	for _, c := range b {
		switch {
		case c >= 0x18 && c <= 0x1F:
			sb.WriteRune(pdfDocLow[c])
		case c >= 0x80 && c <= 0xA0:
			r := pdfDocHigh[c-0x80]
			if c == 0x9F {
				ok = false
			}
			sb.WriteRune(r)
		case c == 0xAD:
			ok = false
			sb.WriteRune(0xFFFD)
		default:
			sb.WriteRune(rune(c)) // ASCII and Latin-1 coincide with Unicode
		}
	}
	return sb.String(), ok
}

// RuneClass names the class of one rune for violation keys: different classes point at
// different defects (escaping, surrogate handling, ...), equal classes at the same one.
func RuneClass(r rune) string {
	switch {
	case r == '\\':
		return "backslash"
	case r == '(' || r == ')':
		return "paren"
	case r == '\r':
		return "cr"
	case r == '\n':
		return "lf"
	case r == '\t':
		return "tab"
	case r == ' ':
		return "space"
	case r == '#':
		return "hash"
	case r == ',' || r == ';':
		return "separator"
	case strings.ContainsRune("<>[]{}/%", r):
		return "delimiter"
	case r < 0x20 || r == 0x7f:
		return "control"
	case r < 0x80:
		return "ascii"
	case r < 0x100:
		return "latin1"
	case r == 0xD7FF || r == 0xE000 || r == 0xFFFD || r == 0xFFFE || r == 0xFFFF || r == 0xFEFF:
		return fmt.Sprintf("U+%04X", r)
	case r >= 0xE000 && r <= 0xF8FF:
		return "private-use"
	case r >= 0x10000:
		return "astral"
	}
	return "bmp"
}

// DiffClass classifies how got differs from want: the class of the first rune of want that
// got does not reproduce ("extra-<class>" when got continues after all of want matched).
func DiffClass(want, got string) string {
	w, g := []rune(want), []rune(got)
	i := 0
	for i < len(w) && i < len(g) && w[i] == g[i] {
		i++
	}
	switch {
	case i < len(w):
		return RuneClass(w[i])
	case i < len(g):
		return "extra-" + RuneClass(g[i])
	}
	return "equal"
}

// Q renders s for messages: printable ASCII kept, everything else as \u{XXXX}.
func Q(s string) string {
	var sb strings.Builder
	n := 0
	for _, r := range s {
		if n > 120 {
			sb.WriteString("…")
			break
		}
		n++
		if r >= 0x20 && r < 0x7f && r != '\\' {
			sb.WriteRune(r)
		} else {
			fmt.Fprintf(&sb, "\\u{%X}", r)
		}
	}
	return sb.String()
}
