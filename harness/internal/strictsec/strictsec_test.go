package strictsec

import (
	"math/rand/v2"
	"testing"

	"verif/harness/internal/pdfgen"
	"verif/harness/internal/pdfstrict"
)

type rngReader struct{ r *rand.Rand }

func (r rngReader) Read(p []byte) (int, error) {
	for i := range p {
		p[i] = byte(r.r.IntN(256))
	}
	return len(p), nil
}

// Generator side and reader side meet: a pdfgen document encrypted through NewEncrypter must open through Open
// (user and owner password), object streams included, with every page content decodable and no defect.
func TestRoundTrip(t *testing.T) {
	for alg := RC4_40; alg <= AES_256; alg++ {
		for k := 0; k < 6; k++ {
			rng := rand.New(rand.NewPCG(uint64(alg)+1, uint64(k)))
			spec := pdfgen.RandomSpec(rng, 4)
			spec.Write.XRef, spec.Write.ObjStm = pdfgen.XRefStream, true
			if k%2 == 1 {
				spec.Write.XRef, spec.Write.ObjStm = pdfgen.XRefTable, false
			}
			spec.Write.Overrides, spec.Write.HolesAsGaps = nil, false
			doc, truth := pdfgen.BuildDoc(spec)
			enc, err := NewEncrypter(alg, "user", "owner", -4, doc.ID[0], rngReader{rng})
			if err != nil {
				t.Fatal(err)
			}
			opts := spec.Write
			opts.Encrypter = enc
			min := truth.MinVersion
			if min < alg.MinVersion() {
				min = alg.MinVersion()
			}
			opts.Version = pdfgen.FitVersion(opts, min)
			out, err := pdfgen.Write(doc, opts)
			if err != nil {
				t.Fatal(err)
			}
			for _, pws := range [][]string{{"nope", "user"}, {"owner"}} {
				d, info, err := Open(out.Bytes, pws, pdfstrict.Options{})
				if err != nil || !info.Encrypted || !info.Decrypted || info.Alg != alg.String() {
					t.Fatalf("%v doc %d pw %v: err=%v info=%+v", alg, k, pws, err, info)
				}
				d.CheckObjStmExtents()
				if len(d.Defects) != 0 {
					t.Errorf("%v doc %d: defects %v", alg, k, d.Defects)
				}
				pages, perr := d.Pages()
				if perr != nil || len(pages) != len(truth.Pages) {
					t.Fatalf("%v doc %d: pages %d/%d %v", alg, k, len(pages), len(truth.Pages), perr)
				}
				for i, p := range pages {
					if p.ContentErr != nil || string(p.Content) != string(truth.Pages[i].Content()) {
						t.Errorf("%v doc %d page %d: content differs after decryption (%v)", alg, k, i+1, p.ContentErr)
					}
				}
			}
			if _, info, _ := Open(out.Bytes, []string{"wrong"}, pdfstrict.Options{}); info.Decrypted {
				t.Errorf("%v doc %d: a wrong password authenticated", alg, k)
			}
		}
	}
}
