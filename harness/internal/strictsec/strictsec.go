// Package strictsec joins the independent reader (internal/pdfstrict) and the independent generator
// (internal/pdfgen) with the reference security handler (internal/ref/iso32000sec):
//
//   - Open reads a possibly encrypted file with pdfstrict, authenticates one of the candidate passwords
//     against the /Encrypt dictionary with the ISO algorithms and re-opens the file with a Decrypter, so
//     that object streams of encrypted files can be checked;
//   - NewEncrypter returns a pdfgen.Encrypter for the standard security handler (RC4-40, RC4-128, AES-128,
//     AES-256), so that generated inputs can be encrypted without touching the code under test.
//
// Nothing from pdfcpu is imported.
package strictsec

import (
	"errors"
	"fmt"
	"io"

	"verif/harness/internal/pdfgen"
	"verif/harness/internal/pdfstrict"
	"verif/harness/internal/ref/iso32000sec"
)

// Info describes the encryption of an opened document.
type Info struct {
	Encrypted bool
	Decrypted bool   // a candidate password authenticated and a Decrypter was installed
	Alg       string // "RC4-40", "RC4-128", "AES-128", "AES-256", ... ("" if not encrypted / not understood)
	R, V      int
	Password  string // the candidate that authenticated
	AsOwner   bool
	Why       string // why Decrypted is false although Encrypted
}

type decrypter struct {
	h               *iso32000sec.Handler
	strIdentity     bool
	stmIdentity     bool
	encryptMetadata bool
}

func (d *decrypter) DecryptString(objNr, gen int, b []byte) ([]byte, error) {
	if d.strIdentity {
		return b, nil
	}
	return d.h.DecryptString(objNr, gen, b)
}

func (d *decrypter) DecryptStream(objNr, gen int, dict pdfstrict.Dict, b []byte) ([]byte, error) {
	if d.stmIdentity {
		return b, nil
	}
	if t, _ := dict.Name("Type"); t == "XRef" || (t == "Metadata" && !d.encryptMetadata) {
		return b, nil
	}
	return d.h.DecryptStreamBytes(objNr, gen, b)
}

func str(o pdfstrict.Object) []byte {
	if s, ok := o.(pdfstrict.String); ok {
		return []byte(s)
	}
	return nil
}

// handlerFor derives the decrypter from the /Encrypt dictionary of d (opened without a Decrypter).
func handlerFor(d *pdfstrict.Doc, passwords []string) (*decrypter, Info, error) {
	info := Info{Encrypted: true}
	t := d.Trailer()
	var enc pdfstrict.Dict
	switch v := t["Encrypt"].(type) {
	case pdfstrict.Dict:
		enc = v
	case pdfstrict.Ref:
		o, err := d.Get(v)
		if err != nil {
			return nil, info, fmt.Errorf("encryption dictionary unreadable: %v", err)
		}
		dd, ok := o.(pdfstrict.Dict)
		if !ok {
			return nil, info, errors.New("encryption dictionary is not a dictionary")
		}
		enc = dd
	default:
		return nil, info, errors.New("no usable /Encrypt entry")
	}
	if f, _ := enc.Name("Filter"); f != "Standard" {
		return nil, info, fmt.Errorf("security handler %q", f)
	}
	v, _ := enc.Int("V")
	r, _ := enc.Int("R")
	info.R, info.V = int(r), int(v)
	p := iso32000sec.Params{R: int(r), V: int(v), KeyBits: 40, EncryptMetadata: true}
	if n, ok := enc.Int("Length"); ok {
		p.KeyBits = int(n)
	}
	if pv, ok := enc.Int("P"); ok {
		p.P = int32(uint32(pv))
	} else if f, ok := pdfstrict.Number(enc["P"]); ok { // out-of-range integers become Real in pdfstrict
		p.P = int32(uint32(int64(f)))
	}
	if b, ok := enc["EncryptMetadata"].(pdfstrict.Bool); ok {
		p.EncryptMetadata = bool(b)
	}
	if ida, ok := t["ID"].(pdfstrict.Array); ok && len(ida) > 0 {
		p.ID0 = str(ida[0])
	}
	dec := &decrypter{encryptMetadata: p.EncryptMetadata}
	stmAES, strAES := false, false
	if v >= 4 {
		cf, _ := enc["CF"].(pdfstrict.Dict)
		method := func(key string) (aes, identity bool, err error) {
			n, ok := enc.Name(key)
			if !ok || n == "Identity" {
				return false, true, nil
			}
			f, ok := cf[string(n)].(pdfstrict.Dict)
			if !ok {
				return false, false, fmt.Errorf("crypt filter %q missing", n)
			}
			m, _ := f.Name("CFM")
			switch m {
			case "V2":
				return false, false, nil
			case "AESV2", "AESV3":
				return true, false, nil
			case "None", "":
				return false, true, nil
			}
			return false, false, fmt.Errorf("crypt filter method %q", m)
		}
		var err error
		if stmAES, dec.stmIdentity, err = method("StmF"); err != nil {
			return nil, info, err
		}
		if strAES, dec.strIdentity, err = method("StrF"); err != nil {
			return nil, info, err
		}
		if v == 4 && p.KeyBits == 40 {
			if _, has := enc["Length"]; !has {
				p.KeyBits = 128
			}
		}
	}
	if r >= 5 {
		p.KeyBits = 256
	}
	if r == 2 {
		p.KeyBits = 40
	}
	p.AES = stmAES || strAES
	switch {
	case p.AES:
		info.Alg = fmt.Sprintf("AES-%d", p.KeyBits)
	default:
		info.Alg = fmt.Sprintf("RC4-%d", p.KeyBits)
	}
	e := iso32000sec.Entries{O: str(enc["O"]), U: str(enc["U"]), OE: str(enc["OE"]), UE: str(enc["UE"]), Perms: str(enc["Perms"])}
	for _, pw := range passwords {
		if key, ok := iso32000sec.AuthUser(p, e, []byte(pw)); ok {
			info.Password = pw
			dec.h = &iso32000sec.Handler{R: p.R, FileKey: key, StrAES: strAES, StmAES: stmAES}
			return dec, info, nil
		}
	}
	for _, pw := range passwords {
		if key, ok := iso32000sec.AuthOwner(p, e, []byte(pw)); ok {
			info.Password, info.AsOwner = pw, true
			dec.h = &iso32000sec.Handler{R: p.R, FileKey: key, StrAES: strAES, StmAES: stmAES}
			return dec, info, nil
		}
	}
	return nil, info, errors.New("no candidate password authenticates")
}

// Open opens data with pdfstrict. If the document is encrypted, the candidate passwords are tried (as
// user password first, then as owner password) and, when one authenticates, the document is re-opened
// with the matching Decrypter. The returned error is pdfstrict.Open's (no cross-reference readable).
func Open(data []byte, passwords []string, opts pdfstrict.Options) (*pdfstrict.Doc, Info, error) {
	opts.Decrypter = nil
	d, err := pdfstrict.Open(data, opts)
	if err != nil || d == nil || !d.Encrypted {
		return d, Info{}, err
	}
	dec, info, herr := handlerFor(d, passwords)
	if herr != nil {
		info.Why = herr.Error()
		return d, info, nil
	}
	opts.Decrypter = dec
	d2, err := pdfstrict.Open(data, opts)
	info.Decrypted = true
	return d2, info, err
}

// ---------------------------------------------------------------- generator side

// Alg selects an algorithm of the standard security handler.
type Alg int

const (
	RC4_40 Alg = iota
	RC4_128
	AES_128
	AES_256
)

func (a Alg) String() string { return [...]string{"RC4-40", "RC4-128", "AES-128", "AES-256"}[a] }

// MinVersion is the lowest header version the algorithm belongs to.
func (a Alg) MinVersion() string { return [...]string{"1.3", "1.4", "1.6", "1.7"}[a] }

type encrypter struct {
	h    *iso32000sec.Handler
	dict pdfgen.Dict
}

func (e *encrypter) EncryptString(objNr, gen int, b []byte) []byte {
	return e.h.EncryptString(objNr, gen, b)
}

func (e *encrypter) EncryptStream(objNr, gen int, dict pdfgen.Dict, b []byte) []byte {
	return e.h.EncryptStreamBytes(objNr, gen, b)
}

func (e *encrypter) EncryptDict() pdfgen.Dict { return e.dict }

// NewEncrypter returns a pdfgen.Encrypter for alg with the given passwords, permission word p (e.g. -4
// = everything allowed) and first /ID element id0. rnd supplies salts, the R 6 file key and AES IVs; it
// must be deterministic for reproducible documents.
func NewEncrypter(alg Alg, userPW, ownerPW string, p int32, id0 []byte, rnd io.Reader) (pdfgen.Encrypter, error) {
	var par iso32000sec.Params
	switch alg {
	case RC4_40:
		par = iso32000sec.Params{R: 2, V: 1, KeyBits: 40}
	case RC4_128:
		par = iso32000sec.Params{R: 3, V: 2, KeyBits: 128}
	case AES_128:
		par = iso32000sec.Params{R: 4, V: 4, KeyBits: 128, AES: true}
	case AES_256:
		par = iso32000sec.Params{R: 6, V: 5, KeyBits: 256, AES: true}
	default:
		return nil, fmt.Errorf("strictsec: unknown algorithm %d", alg)
	}
	par.P, par.ID0, par.EncryptMetadata = p, id0, true
	ent, key, err := iso32000sec.Compute(par, []byte(userPW), []byte(ownerPW), rnd)
	if err != nil {
		return nil, err
	}
	d := pdfgen.D("Filter", pdfgen.Name("Standard"), "V", pdfgen.Int(int64(par.V)), "R", pdfgen.Int(int64(par.R)),
		"O", pdfgen.String(ent.O), "U", pdfgen.String(ent.U), "P", pdfgen.Int(int64(p)))
	switch alg {
	case RC4_128:
		d = d.With("Length", pdfgen.Int(128))
	case AES_128:
		cf := pdfgen.D("StdCF", pdfgen.D("Type", pdfgen.Name("CryptFilter"), "CFM", pdfgen.Name("AESV2"), "AuthEvent", pdfgen.Name("DocOpen"), "Length", pdfgen.Int(16)))
		d = d.With("Length", pdfgen.Int(128)).With("CF", cf).With("StmF", pdfgen.Name("StdCF")).With("StrF", pdfgen.Name("StdCF"))
	case AES_256:
		cf := pdfgen.D("StdCF", pdfgen.D("Type", pdfgen.Name("CryptFilter"), "CFM", pdfgen.Name("AESV3"), "AuthEvent", pdfgen.Name("DocOpen"), "Length", pdfgen.Int(32)))
		d = d.With("Length", pdfgen.Int(256)).With("CF", cf).With("StmF", pdfgen.Name("StdCF")).With("StrF", pdfgen.Name("StdCF")).
			With("OE", pdfgen.String(ent.OE)).With("UE", pdfgen.String(ent.UE)).With("Perms", pdfgen.String(ent.Perms))
	}
	return &encrypter{h: iso32000sec.NewHandler(par, key, rnd), dict: d}, nil
}
