package sigkit

import (
	"bytes"
	"encoding/hex"
	"fmt"
	"time"

	"verif/harness/internal/pdfgen"
	"verif/harness/internal/pdfstrict"
)

// SetContents overwrites the hex digits of /Contents with val (zero padded). ok=false if val does not fit.
func SetContents(file []byte, s *SigInfo, val []byte) bool {
	room := int(s.CEnd-s.CStart-2) / 2
	if len(val) > room {
		return false
	}
	for i := s.CStart + 1; i < s.CEnd-1; i++ {
		file[i] = '0'
	}
	hex.Encode(file[s.CStart+1:], val)
	return true
}

// GetContents decodes the current /Contents digits (all of them, padding included).
func GetContents(file []byte, s *SigInfo) []byte {
	out := make([]byte, (s.CEnd-s.CStart-2)/2)
	_, _ = hex.Decode(out, file[s.CStart+1:s.CStart+1+int64(2*len(out))])
	return out
}

// SetByteRange overwrites the /ByteRange text in place (same width). ok=false if it does not fit.
func SetByteRange(file []byte, s *SigInfo, br [4]int64) bool {
	t, err := FormatByteRange(br, int(s.BREnd-s.BRStart))
	if err != nil {
		return false
	}
	copy(file[s.BRStart:s.BREnd], t)
	return true
}

// RangeBytes concatenates the two ranges of br (nil if they do not lie inside the file).
func RangeBytes(file []byte, br [4]int64) []byte {
	n := int64(len(file))
	for i := 0; i < 4; i++ {
		if br[i] < 0 {
			return nil
		}
	}
	if br[0]+br[1] > n || br[2]+br[3] > n {
		return nil
	}
	return append(append([]byte(nil), file[br[0]:br[0]+br[1]]...), file[br[2]:br[2]+br[3]]...)
}

// Resign writes br into the file and then a fresh, cryptographically correct signature value
// over exactly those ranges: the signer (who owns the key) claims a coverage of his choosing.
// Where a range reaches into the /Contents digits themselves the value is computed to a fix
// point (possible only for the constant parts: '<', '>', and the 00 padding); ok=false if not.
func Resign(file []byte, s *SigInfo, br [4]int64, pki *PKI, o DocOptions, now time.Time) bool {
	if !SetByteRange(file, s, br) {
		return false
	}
	for iter := 0; iter < 3; iter++ {
		data := RangeBytes(file, br)
		if data == nil {
			return false
		}
		val, _, err := SignatureValue(s.SubFilter, data, pki, o, now)
		if err != nil || !SetContents(file, s, val) {
			return false
		}
		if bytes.Equal(RangeBytes(file, br), data) {
			return true
		}
		if pki.Alg == "ecdsa" { // randomized signatures never reach a fix point over their own digits
			return false
		}
	}
	return false
}

// AppendIncrement appends a hand-written, valid incremental update to file: kind "object"
// adds one new unreferenced object, kind "info" replaces the document information dictionary.
// The cross-reference form follows the newest section of the file (table or stream).
func AppendIncrement(file []byte, kind string) ([]byte, error) {
	d, err := pdfstrict.Open(file, pdfstrict.Options{})
	if err != nil {
		return nil, err
	}
	secs := d.Sections()
	if len(secs) == 0 {
		return nil, fmt.Errorf("no xref section")
	}
	tr := d.Trailer()
	root, ok := tr["Root"].(pdfstrict.Ref)
	if !ok {
		return nil, fmt.Errorf("no /Root")
	}
	size, ok := tr.Int("Size")
	if !ok {
		return nil, fmt.Errorf("no /Size")
	}
	for _, n := range d.Objects() {
		if int64(n) >= size {
			size = int64(n) + 1
		}
	}
	var b bytes.Buffer
	b.Write(file)
	if n := len(file); n > 0 && file[n-1] != '\n' && file[n-1] != '\r' {
		b.WriteByte('\n')
	}
	newNum := int(size)
	off := b.Len()
	switch kind {
	case "object":
		fmt.Fprintf(&b, "%d 0 obj\n<< /VerifAppended true /Note (added by an incremental update) >>\nendobj\n", newNum)
	case "info":
		fmt.Fprintf(&b, "%d 0 obj\n<< /Producer (verif increment) /Title (changed after signing) >>\nendobj\n", newNum)
	default:
		return nil, fmt.Errorf("unknown increment kind %q", kind)
	}
	extra := ""
	if kind == "info" {
		extra = fmt.Sprintf(" /Info %d 0 R", newNum)
	} else if inf, ok := tr["Info"].(pdfstrict.Ref); ok {
		extra = fmt.Sprintf(" /Info %d %d R", inf.Num, inf.Gen)
	}
	if id, ok := tr["ID"].(pdfstrict.Array); ok && len(id) == 2 {
		a, _ := id[0].(pdfstrict.String)
		c, _ := id[1].(pdfstrict.String)
		extra += fmt.Sprintf(" /ID [<%x> <%x>]", []byte(a), []byte(c))
	}
	if !secs[0].IsStream {
		xoff := b.Len()
		fmt.Fprintf(&b, "xref\n%d 1\n%010d 00000 n \n", newNum, off)
		fmt.Fprintf(&b, "trailer\n<< /Size %d /Root %d %d R /Prev %d%s >>\nstartxref\n%d\n%%%%EOF\n", newNum+1, root.Num, root.Gen, d.StartXRef, extra, xoff)
		return b.Bytes(), nil
	}
	xnum := newNum + 1
	xoff := b.Len()
	var rows bytes.Buffer
	row := func(t byte, f2 uint32, f3 uint16) {
		rows.Write([]byte{t, byte(f2 >> 24), byte(f2 >> 16), byte(f2 >> 8), byte(f2), byte(f3 >> 8), byte(f3)})
	}
	row(1, uint32(off), 0)
	row(1, uint32(xoff), 0)
	fmt.Fprintf(&b, "%d 0 obj\n<< /Type /XRef /Size %d /Index [%d 2] /W [1 4 2] /Root %d %d R /Prev %d%s /Length %d >>\nstream\n", xnum, xnum+1, newNum, root.Num, root.Gen, d.StartXRef, extra, rows.Len())
	b.Write(rows.Bytes())
	fmt.Fprintf(&b, "\nendstream\nendobj\nstartxref\n%d\n%%%%EOF\n", xoff)
	return b.Bytes(), nil
}

// BuildDecoy builds the "second hole" document: revision 1 holds an object that is nothing
// but a hex string as long as the /Contents placeholder (the decoy); revision 2 adds the
// signature field and dictionary. The signature is computed over revision 1 with the decoy
// as the excluded gap, and the same digits are written into the decoy and into /Contents:
// the excluded gap matches the /Contents digits, yet it is not the /Contents string, and the
// ranges end before the signature dictionary (which is therefore not covered at all).
// The returned SigInfo describes the real /Contents; BR is what was written.
func BuildDecoy(pki *PKI, sf string, xrefStream bool, now time.Time) (*Signed, error) {
	const placeholder = 2600
	doc := pdfgen.NewDoc()
	pagesRef, catRef, pageRef := doc.Alloc(), doc.Alloc(), doc.Alloc()
	cs := doc.Add(&pdfgen.Stream{Dict: pdfgen.Dict{}, Data: []byte("BT /F1 12 Tf 40 700 Td (decoy) Tj ET\n")})
	font := doc.Add(pdfgen.D("Type", pdfgen.Name("Font"), "Subtype", pdfgen.Name("Type1"), "BaseFont", pdfgen.Name("Helvetica")))
	decoy := doc.Alloc()
	doc.PutNoCompress(decoy, pdfgen.HexString(make([]byte, placeholder)))
	page := pdfgen.D("Type", pdfgen.Name("Page"), "Parent", pagesRef, "MediaBox", pdfgen.Rect(0, 0, 500, 800),
		"Resources", pdfgen.D("Font", pdfgen.D("F1", font)), "Contents", cs)
	doc.Put(pageRef, page)
	doc.Put(pagesRef, pdfgen.D("Type", pdfgen.Name("Pages"), "Kids", pdfgen.Array{pageRef}, "Count", pdfgen.Int(1)))
	doc.Put(catRef, pdfgen.D("Type", pdfgen.Name("Catalog"), "Pages", pagesRef, "VerifDecoy", decoy))
	doc.SetRoot(catRef)
	doc.AppendUpdate(nil)
	sref, fref := doc.Alloc(), doc.Alloc()
	doc.PutNoCompress(sref, sigDictObj(sf, placeholder, pki, 0, "Signer"))
	doc.PutNoCompress(fref, pdfgen.D("Type", pdfgen.Name("Annot"), "Subtype", pdfgen.Name("Widget"), "FT", pdfgen.Name("Sig"),
		"T", pdfgen.String("Signature1"), "V", sref, "Rect", pdfgen.Rect(0, 0, 0, 0), "P", pageRef, "F", pdfgen.Int(132)))
	p2 := page.Clone()
	p2.Set("Annots", pdfgen.Array{fref})
	doc.Put(pageRef, p2)
	doc.Put(catRef, pdfgen.D("Type", pdfgen.Name("Catalog"), "Pages", pagesRef, "VerifDecoy", decoy,
		"AcroForm", pdfgen.D("Fields", pdfgen.Array{fref}, "SigFlags", pdfgen.Int(3))))
	opts := pdfgen.Options{Version: "1.7", BinaryComment: true}
	if xrefStream {
		opts.XRef = pdfgen.XRefStream
	}
	out, err := pdfgen.Write(doc, opts)
	if err != nil {
		return nil, err
	}
	file := out.Bytes
	s := SigInfo{SubFilter: sf, FieldObj: fref.Num, SigObj: sref.Num, Rev: 1}
	ol, ok := out.Layout.Find(sref.Num)
	if !ok {
		return nil, fmt.Errorf("sigkit: decoy: signature object not in layout")
	}
	s.ObjOffset, s.ObjEnd, s.RevEnd = ol.Offset, ol.End, out.Layout.Revs[1].End
	if err := locate(file, &s); err != nil {
		return nil, err
	}
	dl, ok := out.Layout.Find(decoy.Num)
	if !ok {
		return nil, fmt.Errorf("sigkit: decoy object not in layout")
	}
	i := bytes.IndexByte(file[dl.Offset:dl.End], '<')
	j := bytes.IndexByte(file[dl.Offset:dl.End], '>')
	if i < 0 || j < i {
		return nil, fmt.Errorf("sigkit: decoy hex string not found")
	}
	dStart, dEnd := dl.Offset+int64(i), dl.Offset+int64(j)+1
	rev1End := out.Layout.Revs[0].End
	s.BR = [4]int64{0, dStart, dEnd, rev1End - dEnd}
	if !SetByteRange(file, &s, s.BR) {
		return nil, fmt.Errorf("sigkit: decoy: byte range does not fit")
	}
	// the ByteRange text lives in revision 2, outside the signed ranges: no circularity
	val, parts, err := SignatureValue(sf, RangeBytes(file, s.BR), pki, DocOptions{}, now)
	if err != nil {
		return nil, err
	}
	if !SetContents(file, &s, val) {
		return nil, fmt.Errorf("sigkit: decoy: value does not fit")
	}
	copy(file[dStart+1:dEnd-1], file[s.CStart+1:s.CEnd-1])
	s.DERLen, s.Parts = len(val), parts
	return &Signed{Bytes: file, Sigs: []SigInfo{s}, Desc: "decoy " + sf}, nil
}
