package sigkit

// LabelCMS assigns every byte of a harness-built ContentInfo/SignedData DER a class name
// (what the byte belongs to), by walking the TLV tree. Classes:
//
//	sig        SignerInfo.signature content
//	attrs      SignerInfo.signedAttrs (header and content), msgdigest = the digest bytes inside
//	econtent   encapsulated content (adbe.pkcs7.sha1 digest, TSTInfo); imprint = TSTInfo hash
//	cert-key   signer certificate: subjectPublicKeyInfo
//	cert-tbs   signer certificate: rest of tbsCertificate
//	cert-sig   signer certificate: signatureAlgorithm + signatureValue (the CA's signature)
//	sid        SignerInfo.sid (issuer + serial)
//	algs       digestAlgorithms, SignerInfo.digestAlgorithm / signatureAlgorithm
//	version    SignedData.version, SignerInfo.version
//	oid        contentType OIDs (ContentInfo, encapContentInfo)
//	hdr        tag/length octets of the containers
//
// For adbe.x509.rsa_sha1 (/Contents = one OCTET STRING) use LabelOctetString.
func LabelCMS(der []byte, parts CMSParts) []string { return labelCMS(der, parts, true) }

// LabelForeignCMS labels a SignedData the harness did not build (samples): the certificate bag
// is not attributed to the signer ("cert-bag"), anything not understood is "hdr".
func LabelForeignCMS(der []byte) []string { return labelCMS(der, CMSParts{}, false) }

type derElem struct {
	tag           byte
	off, hdr, len int
}

func derChildren(der []byte, off, end int) ([]derElem, bool) {
	var out []derElem
	for off < end {
		h, l, ok := derHeader(der, off, end)
		if !ok {
			return out, false
		}
		out = append(out, derElem{der[off], off, h, l})
		off += h + l
	}
	return out, true
}

func labelCMS(der []byte, parts CMSParts, own bool) []string {
	lab := make([]string, len(der))
	for i := range lab {
		lab[i] = "hdr"
	}
	fill := func(e derElem, name string, withHeader bool) {
		st := e.off + e.hdr
		if withHeader {
			st = e.off
		}
		for i := st; i < e.off+e.hdr+e.len; i++ {
			lab[i] = name
		}
	}
	top, ok := derChildren(der, 0, len(der))
	if !ok || len(top) == 0 || top[0].tag != 0x30 {
		return lab
	}
	ci, ok := derChildren(der, top[0].off+top[0].hdr, top[0].off+top[0].hdr+top[0].len)
	if !ok || len(ci) != 2 || ci[0].tag != 0x06 || ci[1].tag != 0xA0 {
		return lab
	}
	fill(ci[0], "oid", false)
	sdw, ok := derChildren(der, ci[1].off+ci[1].hdr, ci[1].off+ci[1].hdr+ci[1].len)
	if !ok || len(sdw) != 1 || sdw[0].tag != 0x30 {
		return lab
	}
	sd, ok := derChildren(der, sdw[0].off+sdw[0].hdr, sdw[0].off+sdw[0].hdr+sdw[0].len)
	if !ok {
		return lab
	}
	seenSet := 0
	for i, e := range sd {
		switch {
		case e.tag == 0x02 && i == 0:
			fill(e, "version", false)
		case e.tag == 0x31 && seenSet == 0 && i < len(sd)-1:
			seenSet++
			fill(e, "algs", true)
		case e.tag == 0x30: // encapContentInfo
			ec, ok := derChildren(der, e.off+e.hdr, e.off+e.hdr+e.len)
			if ok {
				for j, x := range ec {
					if j == 0 && x.tag == 0x06 {
						fill(x, "oid", false)
					} else if x.tag == 0xA0 {
						fill(x, "econtent", true)
					}
				}
			}
		case e.tag == 0xA0: // certificates
			cs, ok := derChildren(der, e.off+e.hdr, e.off+e.hdr+e.len)
			if ok {
				for _, c := range cs {
					if own && len(cs) == 1 && c.tag == 0x30 {
						fill(c, "cert", false)
						labelCert(der, c.off+c.hdr, c.off+c.hdr+c.len, lab)
					} else {
						fill(c, "cert-bag", true)
					}
				}
			}
		case e.tag == 0xA1:
			fill(e, "crls", true)
		case e.tag == 0x31 && i == len(sd)-1: // signerInfos
			sis, ok := derChildren(der, e.off+e.hdr, e.off+e.hdr+e.len)
			if !ok || len(sis) != 1 || sis[0].tag != 0x30 {
				continue // several signers: leave unlabelled
			}
			si, ok := derChildren(der, sis[0].off+sis[0].hdr, sis[0].off+sis[0].hdr+sis[0].len)
			if !ok {
				continue
			}
			seq := 0
			for j, x := range si {
				switch {
				case x.tag == 0x02 && j == 0:
					fill(x, "version", false)
				case x.tag == 0x30:
					seq++
					if seq == 1 {
						fill(x, "sid", true)
					} else {
						fill(x, "algs", true)
					}
				case x.tag == 0xA0:
					fill(x, "attrs", true)
				case x.tag == 0x04:
					fill(x, "sig", false)
				case x.tag == 0xA1:
					fill(x, "unsigned-attrs", true)
				}
			}
		}
	}
	mark := func(span [2]int, name string) {
		if span[1] > span[0] {
			for i := span[0]; i < span[1] && i < len(lab); i++ {
				lab[i] = name
			}
		}
	}
	mark(parts.MsgDigest, "msgdigest")
	mark(parts.Imprint, "imprint")
	return lab
}

func labelCert(der []byte, off, end int, lab []string) {
	// children of Certificate
	idx := 0
	for off < end {
		h, l, ok := derHeader(der, off, end)
		if !ok {
			return
		}
		name := "cert-sig"
		if idx == 0 {
			name = "cert-tbs"
		}
		for i := off; i < off+h+l; i++ {
			lab[i] = name
		}
		if idx == 0 {
			// tbs: [0]version, serial, sigalg, issuer, validity, subject, spki, ...
			o2, e2, j := off+h, off+h+l, 0
			for o2 < e2 {
				h2, l2, ok := derHeader(der, o2, e2)
				if !ok {
					break
				}
				if j == 6 {
					for i := o2; i < o2+h2+l2; i++ {
						lab[i] = "cert-key"
					}
				}
				o2 += h2 + l2
				j++
			}
		}
		off += h + l
		idx++
	}
}

func derHeader(der []byte, off, end int) (hdr, length int, ok bool) {
	if off+2 > end {
		return 0, 0, false
	}
	b := der[off+1]
	if b < 0x80 {
		hdr, length = 2, int(b)
	} else {
		n := int(b & 0x7f)
		if n == 0 || n > 4 || off+2+n > end {
			return 0, 0, false
		}
		for i := 0; i < n; i++ {
			length = length<<8 | int(der[off+2+i])
		}
		hdr = 2 + n
	}
	if off+hdr+length > end {
		return 0, 0, false
	}
	return hdr, length, true
}

// LabelOctetString labels an adbe.x509.rsa_sha1 /Contents value.
func LabelOctetString(der []byte) []string {
	lab := make([]string, len(der))
	h, _, ok := derHeader(der, 0, len(der))
	for i := range lab {
		if ok && i >= h {
			lab[i] = "sig"
		} else {
			lab[i] = "hdr"
		}
	}
	return lab
}
