package sigkit

import (
	"bytes"
	"crypto"
	"crypto/rsa"
	"crypto/sha1"
	"encoding/hex"
	"fmt"
	"math/big"
	"math/rand/v2"
	"strings"
	"time"

	"verif/harness/internal/pdfgen"
)

// SubFilters the harness signs.
const (
	SFDetached = "adbe.pkcs7.detached"
	SFCAdES    = "ETSI.CAdES.detached"
	SFSHA1     = "adbe.pkcs7.sha1"
	SFX509     = "adbe.x509.rsa_sha1"
	SFDTS      = "ETSI.RFC3161" // document time-stamp (sig dict /Type /DocTimeStamp)
)

// AllSubFilters lists them.
var AllSubFilters = []string{SFDetached, SFCAdES, SFSHA1, SFX509}

// SigInfo is the harness' ground truth about one signature it produced.
type SigInfo struct {
	SubFilter string
	FieldObj  int   // object number of the signature field (= pdfcpu's Signature.ObjNr)
	SigObj    int   // object number of the signature dictionary
	ObjOffset int64 // offset of "SigObj 0 obj"
	ObjEnd    int64
	Rev       int      // revision (0 = first) holding the signature
	RevEnd    int64    // end of that revision = end of the signed range
	BR        [4]int64 // the /ByteRange written
	BRStart   int64    // offset of '[' of /ByteRange
	BREnd     int64    // offset behind ']'
	CStart    int64    // offset of '<' of /Contents
	CEnd      int64    // offset behind '>'
	DERLen    int      // bytes of signature value (the rest of the hex string is 00 padding)
	Parts     CMSParts // offsets inside the signature value (CMS subfilters)
	CertStart int64    // adbe.x509.rsa_sha1: offset of '<' of /Cert (inside the signed range)
	CertEnd   int64
}

// Covered reports whether file offset off is inside the signed byte ranges.
func (s *SigInfo) Covered(off int64) bool {
	return (off >= s.BR[0] && off < s.BR[0]+s.BR[1]) || (off >= s.BR[2] && off < s.BR[2]+s.BR[3])
}

// Signed is a harness-signed document.
type Signed struct {
	Bytes []byte
	Sigs  []SigInfo
	Desc  string
}

// DocOptions select the shape of a document to sign.
type DocOptions struct {
	SubFilters    []string // one per signature; the i-th signature lives in revision i
	Pages         int      // default 1
	XRefStream    bool
	EOL           string
	Placeholder   int  // bytes reserved for /Contents (default 2600)
	DocMDP        int  // >0: first signature is a certification with this P
	DSS           bool // add a /DSS with the CA certificate and the CRL (as a last unsigned revision unless DSSSigned)
	Hash          crypto.Hash
	NoSignedAttrs bool   // adbe.pkcs7.sha1 only
	Marker        string // goes into page content
	ExtraFields   bool   // an ordinary text field next to the signature fields
}

const brPlaceholder = "[0 0 0 0                                 ]"

func sigDictObj(sf string, placeholder int, pki *PKI, docMDP int, name string) pdfgen.Dict {
	d := pdfgen.D("Type", pdfgen.Name("Sig"), "Filter", pdfgen.Name("Adobe.PPKLite"), "SubFilter", pdfgen.Name(sf),
		"ByteRange", pdfgen.Raw(brPlaceholder), "Contents", pdfgen.HexString(make([]byte, placeholder)),
		"Name", pdfgen.String(name), "Reason", pdfgen.String("verif"))
	if sf == SFX509 {
		d.Set("Cert", pdfgen.HexString(pki.LeafCert.Raw))
	}
	if sf == SFDTS {
		d = pdfgen.D("Type", pdfgen.Name("DocTimeStamp"), "Filter", pdfgen.Name("Adobe.PPKLite"), "SubFilter", pdfgen.Name(sf),
			"ByteRange", pdfgen.Raw(brPlaceholder), "Contents", pdfgen.HexString(make([]byte, placeholder)))
	}
	if docMDP > 0 {
		d.Set("Reference", pdfgen.Array{pdfgen.D("Type", pdfgen.Name("SigRef"), "TransformMethod", pdfgen.Name("DocMDP"),
			"TransformParams", pdfgen.D("Type", pdfgen.Name("TransformParams"), "P", pdfgen.Int(docMDP), "V", pdfgen.Name("1.2")))})
	}
	return d
}

// BuildSigned creates a document with len(o.SubFilters) signatures (the i-th added by
// revision i) and signs them in order with pki.
func BuildSigned(pki *PKI, o DocOptions, now time.Time) (*Signed, error) {
	if o.Pages <= 0 {
		o.Pages = 1
	}
	if o.Placeholder == 0 {
		o.Placeholder = 2600
	}
	if o.Marker == "" {
		o.Marker = "VERIF signed"
	}
	doc := pdfgen.NewDoc()
	pagesRef := doc.Alloc()
	catRef := doc.Alloc()
	font := doc.Add(pdfgen.D("Type", pdfgen.Name("Font"), "Subtype", pdfgen.Name("Type1"), "BaseFont", pdfgen.Name("Helvetica"),
		"Encoding", pdfgen.Name("WinAnsiEncoding")))
	type pg struct {
		ref    pdfgen.Ref
		dict   pdfgen.Dict
		annots pdfgen.Array
	}
	var pgs []*pg
	var kids pdfgen.Array
	for i := 0; i < o.Pages; i++ {
		content := fmt.Sprintf("BT /F1 12 Tf 40 %d Td (%s page %d) Tj ET\n", 700-i, o.Marker, i+1)
		cs := doc.Add(&pdfgen.Stream{Dict: pdfgen.Dict{}, Data: []byte(content)})
		p := &pg{ref: doc.Alloc()}
		p.dict = pdfgen.D("Type", pdfgen.Name("Page"), "Parent", pagesRef, "MediaBox", pdfgen.Rect(0, 0, float64(500+i), 800),
			"Resources", pdfgen.D("Font", pdfgen.D("F1", font)), "Contents", cs)
		pgs = append(pgs, p)
		kids = append(kids, p.ref)
	}
	doc.Put(pagesRef, pdfgen.D("Type", pdfgen.Name("Pages"), "Kids", kids, "Count", pdfgen.Int(o.Pages)))

	var fields pdfgen.Array
	if o.ExtraFields {
		tf := doc.Alloc()
		doc.Put(tf, pdfgen.D("Type", pdfgen.Name("Annot"), "Subtype", pdfgen.Name("Widget"), "FT", pdfgen.Name("Tx"),
			"T", pdfgen.String("note"), "V", pdfgen.String("hello"), "DA", pdfgen.String("/F1 10 Tf 0 g"),
			"Rect", pdfgen.Rect(40, 600, 200, 620), "P", pgs[0].ref, "F", pdfgen.Int(4)))
		fields = append(fields, tf)
		pgs[0].annots = append(pgs[0].annots, tf)
	}

	sigs := make([]SigInfo, len(o.SubFilters))
	addSig := func(i int, sf string) {
		mdp := 0
		if i == 0 {
			mdp = o.DocMDP
		}
		ph := o.Placeholder
		if sf == SFX509 {
			// pdfcpu (and the profile) take /Contents as exactly one DER OCTET STRING: no padding
			if k, ok := pki.LeafKey.(*rsa.PrivateKey); ok {
				ph = len(derOctets(make([]byte, k.Size())))
			}
		}
		sd := sigDictObj(sf, ph, pki, mdp, fmt.Sprintf("Signer %d", i+1))
		sref := doc.Alloc()
		doc.PutNoCompress(sref, sd)
		page := pgs[i%len(pgs)]
		fref := doc.Alloc()
		doc.PutNoCompress(fref, pdfgen.D("Type", pdfgen.Name("Annot"), "Subtype", pdfgen.Name("Widget"), "FT", pdfgen.Name("Sig"),
			"T", pdfgen.String(fmt.Sprintf("Signature%d", i+1)), "V", sref, "Rect", pdfgen.Rect(0, 0, 0, 0),
			"P", page.ref, "F", pdfgen.Int(132)))
		fields = append(fields, fref)
		page.annots = append(page.annots, fref)
		sigs[i] = SigInfo{SubFilter: sf, FieldObj: fref.Num, SigObj: sref.Num, Rev: i}
	}
	writeCommon := func() {
		for _, p := range pgs {
			d := p.dict.Clone()
			if len(p.annots) > 0 {
				d.Set("Annots", append(pdfgen.Array(nil), p.annots...))
			}
			doc.Put(p.ref, d)
		}
		cat := pdfgen.D("Type", pdfgen.Name("Catalog"), "Pages", pagesRef,
			"AcroForm", pdfgen.D("Fields", append(pdfgen.Array(nil), fields...), "SigFlags", pdfgen.Int(3),
				"DA", pdfgen.String("/F1 10 Tf 0 g"), "DR", pdfgen.D("Font", pdfgen.D("F1", font))))
		if o.DocMDP > 0 && len(sigs) > 0 {
			cat.Set("Perms", pdfgen.D("DocMDP", pdfgen.Ref{Num: sigs[0].SigObj}))
		}
		doc.Put(catRef, cat)
	}
	for i, sf := range o.SubFilters {
		if i > 0 {
			doc.AppendUpdate(nil)
		}
		addSig(i, sf)
		writeCommon()
		if i == 0 {
			doc.SetRoot(catRef)
		}
	}
	if len(o.SubFilters) == 0 {
		writeCommon()
		doc.SetRoot(catRef)
	}
	if o.DSS {
		doc.AppendUpdate(nil)
		certS := doc.Add(&pdfgen.Stream{Dict: pdfgen.Dict{}, Data: pki.CACert.Raw})
		crlS := doc.Add(&pdfgen.Stream{Dict: pdfgen.Dict{}, Data: pki.CRL})
		writeCommon()
		cd, _ := doc.GetDict(catRef.Num)
		cd.Set("DSS", pdfgen.D("Type", pdfgen.Name("DSS"), "Certs", pdfgen.Array{certS}, "CRLs", pdfgen.Array{crlS}))
		doc.Put(catRef, cd)
	}
	opts := pdfgen.Options{Version: "1.7", EOL: o.EOL, BinaryComment: true}
	if o.XRefStream {
		opts.XRef = pdfgen.XRefStream
	}
	out, err := pdfgen.Write(doc, opts)
	if err != nil {
		return nil, err
	}
	file := out.Bytes
	for i := range sigs {
		s := &sigs[i]
		var ol pdfgen.ObjLayout
		found := false
		for _, x := range out.Layout.Objects {
			if x.Num == s.SigObj && x.Rev == s.Rev {
				ol, found = x, true
			}
		}
		if !found {
			return nil, fmt.Errorf("sigkit: signature object %d not in layout", s.SigObj)
		}
		s.ObjOffset, s.ObjEnd = ol.Offset, ol.End
		s.RevEnd = out.Layout.Revs[s.Rev].End
		if err := locate(file, s); err != nil {
			return nil, err
		}
		if err := SignInPlace(file, s, pki, o, now); err != nil {
			return nil, err
		}
	}
	return &Signed{Bytes: file, Sigs: sigs,
		Desc: fmt.Sprintf("%s pages=%d xrefstm=%v eol=%q ph=%d mdp=%d dss=%v alg=%s", strings.Join(o.SubFilters, "+"), o.Pages, o.XRefStream, o.EOL, o.Placeholder, o.DocMDP, o.DSS, pki.Alg)}, nil
}

// locate finds /ByteRange [...] and /Contents <...> (and /Cert <...>) inside the object text.
func locate(file []byte, s *SigInfo) error {
	obj := file[s.ObjOffset:s.ObjEnd]
	find := func(key string, open, close byte) (int64, int64, bool) {
		i := bytes.Index(obj, []byte(key))
		if i < 0 {
			return 0, 0, false
		}
		j := bytes.IndexByte(obj[i:], open)
		if j < 0 {
			return 0, 0, false
		}
		k := bytes.IndexByte(obj[i+j:], close)
		if k < 0 {
			return 0, 0, false
		}
		return s.ObjOffset + int64(i+j), s.ObjOffset + int64(i+j+k+1), true
	}
	var ok bool
	if s.BRStart, s.BREnd, ok = find("/ByteRange", '[', ']'); !ok {
		return fmt.Errorf("sigkit: no /ByteRange in object %d", s.SigObj)
	}
	if s.CStart, s.CEnd, ok = find("/Contents", '<', '>'); !ok {
		return fmt.Errorf("sigkit: no /Contents in object %d", s.SigObj)
	}
	if s.SubFilter == SFX509 {
		if s.CertStart, s.CertEnd, ok = find("/Cert", '<', '>'); !ok {
			return fmt.Errorf("sigkit: no /Cert in object %d", s.SigObj)
		}
	}
	return nil
}

// FormatByteRange renders a /ByteRange array of exactly width bytes (padded inside the brackets).
func FormatByteRange(br [4]int64, width int) ([]byte, error) {
	t := fmt.Sprintf("[%d %d %d %d", br[0], br[1], br[2], br[3])
	if len(t)+1 > width {
		return nil, fmt.Errorf("sigkit: byte range %v does not fit %d bytes", br, width)
	}
	return []byte(t + strings.Repeat(" ", width-len(t)-1) + "]"), nil
}

// SignInPlace fills /ByteRange and /Contents of s inside file (revision end s.RevEnd).
func SignInPlace(file []byte, s *SigInfo, pki *PKI, o DocOptions, now time.Time) error {
	s.BR = [4]int64{0, s.CStart, s.CEnd, s.RevEnd - s.CEnd}
	br, err := FormatByteRange(s.BR, int(s.BREnd-s.BRStart))
	if err != nil {
		return err
	}
	copy(file[s.BRStart:s.BREnd], br)
	data := append(append([]byte(nil), file[:s.CStart]...), file[s.CEnd:s.RevEnd]...)
	val, parts, err := SignatureValue(s.SubFilter, data, pki, o, now)
	if err != nil {
		return err
	}
	room := int(s.CEnd-s.CStart-2) / 2
	if len(val) > room {
		return fmt.Errorf("sigkit: signature value of %d bytes does not fit placeholder of %d", len(val), room)
	}
	s.DERLen, s.Parts = len(val), parts
	hex.Encode(file[s.CStart+1:], val)
	return nil
}

// SignatureValue computes the /Contents value for the given sub filter over data.
func SignatureValue(sf string, data []byte, pki *PKI, o DocOptions, now time.Time) ([]byte, CMSParts, error) {
	st := now.UTC().Truncate(time.Second)
	switch sf {
	case SFDetached:
		return SignCMS(data, pki.LeafKey, pki.LeafCert, CMSOptions{Hash: o.Hash, SigningTime: &st})
	case SFCAdES:
		return SignCMS(data, pki.LeafKey, pki.LeafCert, CMSOptions{Hash: o.Hash, ESSv2: true})
	case SFSHA1:
		d := sha1.Sum(data)
		return SignCMS(data, pki.LeafKey, pki.LeafCert, CMSOptions{Hash: o.Hash, Encapsulated: d[:], NoSignedAttrs: o.NoSignedAttrs, SigningTime: &st})
	case SFDTS:
		h := o.Hash
		if h == 0 {
			h = crypto.SHA256
		}
		imprint := hashOf(h, data)
		tst := derSeq(derInt(big.NewInt(1)), derOID(1, 3, 6, 1, 4, 1, 99999, 1), // version, policy
			derSeq(derSeq(hashOID(h), derNull), derOctets(imprint)), // messageImprint
			derInt(big.NewInt(77)), TLV(0x18, []byte(st.Format("20060102150405Z")))) // serial, genTime
		v, parts, err := SignCMS(nil, pki.LeafKey, pki.TSACert, CMSOptions{Hash: h, Encapsulated: tst, ESSv2: true, ContentType: oidTSTInfo})
		if err == nil {
			if i := bytes.Index(v, imprint); i >= 0 {
				parts.Imprint = [2]int{i, i + len(imprint)}
			}
		}
		return v, parts, err
	case SFX509:
		k, ok := pki.LeafKey.(*rsa.PrivateKey)
		if !ok {
			return nil, CMSParts{}, fmt.Errorf("sigkit: %s needs an RSA key", sf)
		}
		d := sha1.Sum(data)
		sig, err := rsa.SignPKCS1v15(nil, k, crypto.SHA1, d[:])
		if err != nil {
			return nil, CMSParts{}, err
		}
		v := derOctets(sig)
		return v, CMSParts{Signature: [2]int{len(v) - len(sig), len(v)}}, nil
	}
	return nil, CMSParts{}, fmt.Errorf("sigkit: unknown sub filter %q", sf)
}

// RandomDocOptions draws a small document shape.
func RandomDocOptions(rng *rand.Rand, subFilters ...string) DocOptions {
	o := DocOptions{SubFilters: subFilters, Pages: 1 + rng.IntN(2), XRefStream: rng.IntN(3) == 0,
		EOL: []string{"\n", "\r\n", "\n"}[rng.IntN(3)], Placeholder: 2400 + 16*rng.IntN(16),
		Marker: fmt.Sprintf("VERIF-%08x", rng.Uint32()), ExtraFields: rng.IntN(2) == 0}
	return o
}
