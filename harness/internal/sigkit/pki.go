package sigkit

import (
	"crypto"
	"crypto/ecdsa"
	"crypto/rand"
	"crypto/rsa"
	"crypto/x509"
	"crypto/x509/pkix"
	"encoding/pem"
	"fmt"
	"math/big"
	"time"
)

// PKI is a throw-away two-level hierarchy: a self-signed CA, one end-entity
// signing certificate issued by it and a CRL issued by the CA. Keys are fixed
// (keys.go); only the validity dates depend on the wall clock, which is not part
// of any oracle (pdfcpu compares certificate validity with time.Now()).
type PKI struct {
	Alg      string // "rsa" | "ecdsa"
	CAKey    crypto.Signer
	CACert   *x509.Certificate
	LeafKey  crypto.Signer
	LeafCert *x509.Certificate
	TSACert  *x509.Certificate // time-stamping certificate (key = LeafKey), EKU timeStamping only, critical
	CRL      []byte            // DER, lists no revoked certificate
	// CRLRevoked is a CRL by the same CA that revokes the leaf (for negative controls).
	CRLRevoked []byte
}

// createCert is x509.CreateCertificate; with an ECDSA issuer it retries until the issuer's
// signature has the common DER length, so that certificate sizes do not vary from run to run.
func createCert(tmpl, parent *x509.Certificate, pub any, priv crypto.Signer) ([]byte, error) {
	for try := 0; ; try++ {
		der, err := x509.CreateCertificate(rand.Reader, tmpl, parent, pub, priv)
		if err != nil {
			return nil, err
		}
		k, ok := priv.(*ecdsa.PrivateKey)
		if !ok || try > 200 {
			return der, nil
		}
		c, err := x509.ParseCertificate(der)
		if err != nil {
			return nil, err
		}
		if len(c.Signature) == ecdsaFixedLen(k) {
			return der, nil
		}
	}
}

func createCRL(tmpl *x509.RevocationList, issuer *x509.Certificate, priv crypto.Signer) ([]byte, error) {
	for try := 0; ; try++ {
		der, err := x509.CreateRevocationList(rand.Reader, tmpl, issuer, priv)
		if err != nil {
			return nil, err
		}
		k, ok := priv.(*ecdsa.PrivateKey)
		if !ok || try > 200 {
			return der, nil
		}
		c, err := x509.ParseRevocationList(der)
		if err != nil {
			return nil, err
		}
		if len(c.Signature) == ecdsaFixedLen(k) {
			return der, nil
		}
	}
}

func parseKey(p string) crypto.Signer {
	b, _ := pem.Decode([]byte(p))
	if b == nil {
		panic("sigkit: bad embedded key PEM")
	}
	k, err := x509.ParsePKCS8PrivateKey(b.Bytes)
	if err != nil {
		panic("sigkit: bad embedded key: " + err.Error())
	}
	switch k := k.(type) {
	case *rsa.PrivateKey:
		return k
	case *ecdsa.PrivateKey:
		return k
	}
	panic("sigkit: unexpected key type")
}

// PKIOptions tune the hierarchy.
type PKIOptions struct {
	Alg    string // "rsa" (default) or "ecdsa"
	CRLURL string // leaf cRLDistributionPoints entry ("" = none)
	Name   string // distinguishes hierarchies (part of the subject names); default "A"
	Serial int64  // leaf serial (default 4242)
}

// NewPKI creates the hierarchy valid from now-1h to now+24h.
func NewPKI(o PKIOptions, now time.Time) (*PKI, error) {
	if o.Alg == "" {
		o.Alg = "rsa"
	}
	if o.Name == "" {
		o.Name = "A"
	}
	if o.Serial == 0 {
		o.Serial = 4242
	}
	p := &PKI{Alg: o.Alg}
	switch o.Alg {
	case "rsa":
		p.CAKey, p.LeafKey = parseKey(rsa1PEM), parseKey(rsa2PEM)
	case "ecdsa":
		p.CAKey, p.LeafKey = parseKey(ec1PEM), parseKey(ec2PEM)
	default:
		return nil, fmt.Errorf("sigkit: unknown alg %q", o.Alg)
	}
	nb, na := now.Add(-time.Hour).UTC().Truncate(time.Second), now.Add(24*time.Hour).UTC().Truncate(time.Second)
	caT := &x509.Certificate{
		SerialNumber:          big.NewInt(1),
		Subject:               pkix.Name{CommonName: "VERIF harness CA " + o.Name, Organization: []string{"verif"}},
		NotBefore:             nb,
		NotAfter:              na,
		IsCA:                  true,
		BasicConstraintsValid: true,
		KeyUsage:              x509.KeyUsageCertSign | x509.KeyUsageCRLSign,
		SubjectKeyId:          []byte{0xCA, 1, 2, 3, 4, 5, 6, 7},
	}
	caDER, err := createCert(caT, caT, p.CAKey.Public(), p.CAKey)
	if err != nil {
		return nil, err
	}
	if p.CACert, err = x509.ParseCertificate(caDER); err != nil {
		return nil, err
	}
	leafT := &x509.Certificate{
		SerialNumber:          big.NewInt(o.Serial),
		Subject:               pkix.Name{CommonName: "VERIF harness signer " + o.Name, Organization: []string{"verif"}},
		NotBefore:             nb,
		NotAfter:              na,
		BasicConstraintsValid: true,
		KeyUsage:              x509.KeyUsageDigitalSignature | x509.KeyUsageContentCommitment,
		SubjectKeyId:          []byte{0x1E, 0xAF, 2, 3, 4, 5, 6, 7},
	}
	if o.CRLURL != "" {
		leafT.CRLDistributionPoints = []string{o.CRLURL}
	}
	leafDER, err := createCert(leafT, p.CACert, p.LeafKey.Public(), p.CAKey)
	if err != nil {
		return nil, err
	}
	if p.LeafCert, err = x509.ParseCertificate(leafDER); err != nil {
		return nil, err
	}
	tsaT := &x509.Certificate{
		SerialNumber:          big.NewInt(o.Serial + 1),
		Subject:               pkix.Name{CommonName: "VERIF harness TSA " + o.Name, Organization: []string{"verif"}},
		NotBefore:             nb,
		NotAfter:              na,
		BasicConstraintsValid: true,
		KeyUsage:              x509.KeyUsageDigitalSignature,
		SubjectKeyId:          []byte{0x75, 0xA0, 2, 3, 4, 5, 6, 7},
		// extKeyUsage = { id-kp-timeStamping }, critical (RFC 3161 §2.3)
		ExtraExtensions: []pkix.Extension{{Id: []int{2, 5, 29, 37}, Critical: true,
			Value: derSeq(derOID(1, 3, 6, 1, 5, 5, 7, 3, 8))}},
	}
	if o.CRLURL != "" {
		tsaT.CRLDistributionPoints = []string{o.CRLURL}
	}
	tsaDER, err := createCert(tsaT, p.CACert, p.LeafKey.Public(), p.CAKey)
	if err != nil {
		return nil, err
	}
	if p.TSACert, err = x509.ParseCertificate(tsaDER); err != nil {
		return nil, err
	}
	crlT := &x509.RevocationList{Number: big.NewInt(7), ThisUpdate: nb, NextUpdate: na}
	if p.CRL, err = createCRL(crlT, p.CACert, p.CAKey); err != nil {
		return nil, err
	}
	crlR := &x509.RevocationList{Number: big.NewInt(8), ThisUpdate: nb, NextUpdate: na,
		RevokedCertificateEntries: []x509.RevocationListEntry{{SerialNumber: big.NewInt(o.Serial), RevocationTime: nb}}}
	if p.CRLRevoked, err = createCRL(crlR, p.CACert, p.CAKey); err != nil {
		return nil, err
	}
	return p, nil
}

// CAPEM returns the CA certificate as a PEM block.
func (p *PKI) CAPEM() []byte {
	return pem.EncodeToMemory(&pem.Block{Type: "CERTIFICATE", Bytes: p.CACert.Raw})
}
