package sigkit

import (
	"fmt"
	"strconv"

	"verif/harness/internal/pdfstrict"
)

// SigLoc is what the harness reads, from the file bytes alone (pdfstrict + an own scanner,
// nothing from pdfcpu), about one signature dictionary: the oracle side of C28.
type SigLoc struct {
	FieldObj  int // 0 for a usage-rights signature reached through /Perms
	SigObj    int
	Type      string // /Type of the signature dictionary
	SubFilter string
	HasBR     bool
	BR        [4]int64 // /ByteRange as written in the newest definition of the dictionary
	BRStart   int64    // '[' ... behind ']'
	BREnd     int64
	CStart    int64 // '<' of /Contents ... behind '>'
	CEnd      int64
	Sig       []byte // decoded /Contents
}

// FullCoverage reports whether the byte ranges start at 0, end at the end of the file and
// leave out exactly the <...> of /Contents.
func (l SigLoc) FullCoverage(fileSize int64) bool {
	return l.HasBR && l.BR[0] == 0 && l.BR[1] == l.CStart && l.BR[2] == l.CEnd && l.BR[2]+l.BR[3] == fileSize && l.CEnd > l.CStart
}

// LocateSigDict reads the newest definition of object num as a signature dictionary.
func LocateSigDict(d *pdfstrict.Doc, num int) (SigLoc, error) {
	l := SigLoc{SigObj: num}
	e, ok := d.Entry(num)
	if !ok || e.Type != pdfstrict.InUse {
		return l, fmt.Errorf("object %d is not a top-level in-use object", num)
	}
	o, err := d.Get(pdfstrict.Ref{Num: num, Gen: e.Gen})
	if err != nil {
		return l, err
	}
	dict, ok := o.(pdfstrict.Dict)
	if !ok {
		return l, fmt.Errorf("object %d is not a dictionary", num)
	}
	if n, ok := dict.Name("Type"); ok {
		l.Type = string(n)
	}
	if n, ok := dict.Name("SubFilter"); ok {
		l.SubFilter = string(n)
	}
	if s, ok := dict["Contents"].(pdfstrict.String); ok {
		l.Sig = []byte(s)
	}
	if a, ok := dict["ByteRange"].(pdfstrict.Array); ok && len(a) == 4 {
		l.HasBR = true
		for i, v := range a {
			n, ok := v.(pdfstrict.Int)
			if !ok {
				l.HasBR = false
				break
			}
			l.BR[i] = int64(n)
		}
	}
	data := d.Data()
	sc := scanner{b: data, p: int(e.Offset)}
	// "num gen obj"
	sc.ws()
	sc.regular()
	sc.ws()
	sc.regular()
	sc.ws()
	if sc.regular() != "obj" {
		return l, fmt.Errorf("object %d: no obj keyword at offset %d", num, e.Offset)
	}
	sc.ws()
	if !sc.has("<<") {
		return l, fmt.Errorf("object %d: not a dictionary at its offset", num)
	}
	sc.p += 2
	depth := 1
	for depth > 0 && sc.p < len(sc.b) {
		sc.ws()
		if sc.p >= len(sc.b) {
			break
		}
		switch c := sc.b[sc.p]; {
		case sc.has("<<"):
			sc.p += 2
			depth++
		case sc.has(">>"):
			sc.p += 2
			depth--
		case c == '<':
			sc.hex()
		case c == '(':
			sc.literal()
		case c == '[' || c == ']':
			sc.p++
		case c == '/':
			sc.p++
			name := sc.regular()
			if depth != 1 {
				break
			}
			sc.ws()
			switch name {
			case "Contents":
				if sc.p < len(sc.b) && sc.b[sc.p] == '<' && !sc.has("<<") {
					l.CStart = int64(sc.p)
					sc.hex()
					l.CEnd = int64(sc.p)
				}
			case "ByteRange":
				if sc.p < len(sc.b) && sc.b[sc.p] == '[' {
					l.BRStart = int64(sc.p)
					for sc.p < len(sc.b) && sc.b[sc.p] != ']' {
						sc.p++
					}
					sc.p++
					l.BREnd = int64(sc.p)
				}
			}
		default:
			if sc.regular() == "" {
				sc.p++
			}
		}
	}
	if l.CEnd == 0 {
		return l, fmt.Errorf("object %d: no /Contents hex string found", num)
	}
	return l, nil
}

// LocateSignatures lists the signature dictionaries reachable from the AcroForm field tree
// (fields with /FT /Sig and a /V reference) and from /Perms.
func LocateSignatures(file []byte) ([]SigLoc, *pdfstrict.Doc, error) {
	d, err := pdfstrict.Open(file, pdfstrict.Options{})
	if err != nil {
		return nil, d, err
	}
	root, ok := d.ResolveDict(d.Trailer()["Root"])
	if !ok {
		return nil, d, fmt.Errorf("no catalog")
	}
	var out []SigLoc
	seenSig := map[int]bool{}
	add := func(fieldObj int, v pdfstrict.Object) {
		r, ok := v.(pdfstrict.Ref)
		if !ok || seenSig[r.Num] {
			return
		}
		l, err := LocateSigDict(d, r.Num)
		if err != nil {
			return
		}
		seenSig[r.Num] = true
		l.FieldObj = fieldObj
		out = append(out, l)
	}
	if af, ok := d.ResolveDict(root["AcroForm"]); ok {
		seen := map[int]bool{}
		var walk func(o pdfstrict.Object, ft string, depth int)
		walk = func(o pdfstrict.Object, ft string, depth int) {
			r, isRef := o.(pdfstrict.Ref)
			if isRef {
				if seen[r.Num] || depth > 50 {
					return
				}
				seen[r.Num] = true
			}
			fd, ok := d.ResolveDict(o)
			if !ok {
				return
			}
			if n, ok := fd.Name("FT"); ok {
				ft = string(n)
			}
			if ft == "Sig" && isRef {
				if v, ok := fd["V"]; ok {
					add(r.Num, v)
				}
			}
			if kids, ok := d.Resolve(fd["Kids"]).(pdfstrict.Array); ok {
				for _, k := range kids {
					walk(k, ft, depth+1)
				}
			}
		}
		if fields, ok := d.Resolve(af["Fields"]).(pdfstrict.Array); ok {
			for _, f := range fields {
				walk(f, "", 0)
			}
		}
	}
	if perms, ok := d.ResolveDict(root["Perms"]); ok {
		for _, k := range []string{"UR3", "UR", "DocMDP"} {
			if v, ok := perms[k]; ok {
				add(0, v)
			}
		}
	}
	return out, d, nil
}

type scanner struct {
	b []byte
	p int
}

func isWS(c byte) bool { return c == 0 || c == 9 || c == 10 || c == 12 || c == 13 || c == 32 }
func isDelim(c byte) bool {
	switch c {
	case '(', ')', '<', '>', '[', ']', '{', '}', '/', '%':
		return true
	}
	return false
}

func (s *scanner) ws() {
	for s.p < len(s.b) {
		c := s.b[s.p]
		if isWS(c) {
			s.p++
		} else if c == '%' {
			for s.p < len(s.b) && s.b[s.p] != '\n' && s.b[s.p] != '\r' {
				s.p++
			}
		} else {
			return
		}
	}
}

func (s *scanner) has(t string) bool {
	return s.p+len(t) <= len(s.b) && string(s.b[s.p:s.p+len(t)]) == t
}

func (s *scanner) regular() string {
	st := s.p
	for s.p < len(s.b) && !isWS(s.b[s.p]) && !isDelim(s.b[s.p]) {
		s.p++
	}
	return string(s.b[st:s.p])
}

func (s *scanner) hex() {
	for s.p < len(s.b) && s.b[s.p] != '>' {
		s.p++
	}
	if s.p < len(s.b) {
		s.p++
	}
}

func (s *scanner) literal() {
	depth := 0
	for s.p < len(s.b) {
		switch s.b[s.p] {
		case '\\':
			s.p++
		case '(':
			depth++
		case ')':
			depth--
			if depth == 0 {
				s.p++
				return
			}
		}
		s.p++
	}
}

// ParseByteRangeText parses "[a b c d]" as written in the file.
func ParseByteRangeText(b []byte) (br [4]int64, ok bool) {
	sc := scanner{b: b}
	if len(b) == 0 || b[0] != '[' {
		return br, false
	}
	sc.p = 1
	for i := 0; i < 4; i++ {
		sc.ws()
		v, err := strconv.ParseInt(sc.regular(), 10, 64)
		if err != nil {
			return br, false
		}
		br[i] = v
	}
	sc.ws()
	return br, sc.p < len(b) && b[sc.p] == ']'
}
