package sigkit

import (
	"bytes"
	"crypto"
	"crypto/ecdsa"
	"crypto/rand"
	"crypto/rsa"
	_ "crypto/sha1"
	_ "crypto/sha256"
	_ "crypto/sha512"
	"crypto/x509"
	"fmt"
	"math/big"
	"sort"
	"time"
)

// Minimal DER encoder (std only, nothing from pdfcpu): enough for a CMS SignedData
// with one signer (RFC 5652) and an ESS signing-certificate-v2 attribute (RFC 5035).

func derLen(n int) []byte {
	if n < 0x80 {
		return []byte{byte(n)}
	}
	var b []byte
	for v := n; v > 0; v >>= 8 {
		b = append([]byte{byte(v)}, b...)
	}
	return append([]byte{0x80 | byte(len(b))}, b...)
}

// TLV builds one DER element.
func TLV(tag byte, parts ...[]byte) []byte {
	n := 0
	for _, p := range parts {
		n += len(p)
	}
	out := append([]byte{tag}, derLen(n)...)
	for _, p := range parts {
		out = append(out, p...)
	}
	return out
}

func derSeq(parts ...[]byte) []byte { return TLV(0x30, parts...) }

// derSetOf sorts the encoded elements (DER SET OF).
func derSetOf(tag byte, elems ...[]byte) []byte {
	s := append([][]byte(nil), elems...)
	sort.Slice(s, func(i, j int) bool { return bytes.Compare(s[i], s[j]) < 0 })
	return TLV(tag, s...)
}

func derOID(arcs ...int) []byte {
	b := []byte{byte(arcs[0]*40 + arcs[1])}
	for _, a := range arcs[2:] {
		var t []byte
		t = append(t, byte(a&0x7f))
		for a >>= 7; a > 0; a >>= 7 {
			t = append([]byte{byte(a&0x7f) | 0x80}, t...)
		}
		b = append(b, t...)
	}
	return TLV(0x06, b)
}

func derInt(v *big.Int) []byte {
	b := v.Bytes()
	if len(b) == 0 {
		b = []byte{0}
	}
	if b[0]&0x80 != 0 {
		b = append([]byte{0}, b...)
	}
	return TLV(0x02, b)
}

func derOctets(b []byte) []byte { return TLV(0x04, b) }

var derNull = []byte{0x05, 0x00}

var (
	oidData         = derOID(1, 2, 840, 113549, 1, 7, 1)
	oidSignedData   = derOID(1, 2, 840, 113549, 1, 7, 2)
	oidContentType  = derOID(1, 2, 840, 113549, 1, 9, 3)
	oidMsgDigest    = derOID(1, 2, 840, 113549, 1, 9, 4)
	oidSigningTime  = derOID(1, 2, 840, 113549, 1, 9, 5)
	oidSigningCert2 = derOID(1, 2, 840, 113549, 1, 9, 16, 2, 47)
	oidTSTInfo      = derOID(1, 2, 840, 113549, 1, 9, 16, 1, 4)
	oidRSA          = derOID(1, 2, 840, 113549, 1, 1, 1)
	oidSHA1         = derOID(1, 3, 14, 3, 2, 26)
	oidSHA256       = derOID(2, 16, 840, 1, 101, 3, 4, 2, 1)
	oidSHA384       = derOID(2, 16, 840, 1, 101, 3, 4, 2, 2)
	oidSHA512       = derOID(2, 16, 840, 1, 101, 3, 4, 2, 3)
	oidECDSASHA1    = derOID(1, 2, 840, 10045, 4, 1)
	oidECDSASHA256  = derOID(1, 2, 840, 10045, 4, 3, 2)
	oidECDSASHA384  = derOID(1, 2, 840, 10045, 4, 3, 3)
	oidECDSASHA512  = derOID(1, 2, 840, 10045, 4, 3, 4)
)

func hashOID(h crypto.Hash) []byte {
	switch h {
	case crypto.SHA1:
		return oidSHA1
	case crypto.SHA256:
		return oidSHA256
	case crypto.SHA384:
		return oidSHA384
	case crypto.SHA512:
		return oidSHA512
	}
	panic("sigkit: unsupported hash")
}

func ecdsaOID(h crypto.Hash) []byte {
	switch h {
	case crypto.SHA1:
		return oidECDSASHA1
	case crypto.SHA256:
		return oidECDSASHA256
	case crypto.SHA384:
		return oidECDSASHA384
	case crypto.SHA512:
		return oidECDSASHA512
	}
	panic("sigkit: unsupported hash")
}

// CMSOptions describe one SignedData.
type CMSOptions struct {
	Hash crypto.Hash // digest algorithm (default SHA-256)
	// Encapsulated: when non-nil these bytes are the eContent (adbe.pkcs7.sha1: SHA-1 of
	// the byte ranges) and the signature binds them; when nil the SignedData is detached.
	Encapsulated  []byte
	NoSignedAttrs bool       // sign the content directly (only sensible with Encapsulated)
	ESSv2         bool       // add signing-certificate-v2 (CAdES baseline B)
	SigningTime   *time.Time // add signing-time
	ContentType   []byte     // eContentType OID TLV (default id-data)
	ExtraCerts    []*x509.Certificate
}

// CMSParts tells where inside the DER the interesting parts are (for tampering classes).
type CMSParts struct {
	Cert        [2]int // signer certificate (offset, end) in the DER
	SignedAttrs [2]int // signedAttrs [0] element
	MsgDigest   [2]int // the digest bytes inside the message-digest attribute
	Signature   [2]int // signature value bytes
	Imprint     [2]int // ETSI.RFC3161: the document hash inside TSTInfo.messageImprint
}

// ecdsaFixedLen is the most frequent DER length of a signature with k (both integers of full
// size, one of them with a leading zero octet).
func ecdsaFixedLen(k *ecdsa.PrivateKey) int {
	n := (k.Curve.Params().BitSize + 7) / 8
	return 2 + (2 + n) + (2 + n) + 1
}

func hashOf(h crypto.Hash, b []byte) []byte {
	x := h.New()
	x.Write(b)
	return x.Sum(nil)
}

// SignCMS builds a ContentInfo/SignedData over content (the bytes the signature protects:
// the concatenated byte ranges for detached signatures).
func SignCMS(content []byte, key crypto.Signer, cert *x509.Certificate, o CMSOptions) ([]byte, CMSParts, error) {
	var parts CMSParts
	if o.Hash == 0 {
		o.Hash = crypto.SHA256
	}
	ct := o.ContentType
	if ct == nil {
		ct = oidData
	}
	signedContent := content
	if o.Encapsulated != nil {
		signedContent = o.Encapsulated
	}
	digest := hashOf(o.Hash, signedContent)

	var toSign, signedAttrs []byte
	if !o.NoSignedAttrs {
		attr := func(oid []byte, vals ...[]byte) []byte { return derSeq(oid, TLV(0x31, vals...)) }
		attrs := [][]byte{
			attr(oidContentType, ct),
			attr(oidMsgDigest, derOctets(digest)),
		}
		if o.SigningTime != nil {
			attrs = append(attrs, attr(oidSigningTime, TLV(0x17, []byte(o.SigningTime.UTC().Format("060102150405Z")))))
		}
		if o.ESSv2 {
			// ESSCertIDv2 with default hash (SHA-256) and issuerSerial
			issuerSerial := derSeq(derSeq(TLV(0xA4, cert.RawIssuer)), derInt(cert.SerialNumber))
			certID := derSeq(derOctets(hashOf(crypto.SHA256, cert.Raw)), issuerSerial)
			attrs = append(attrs, attr(oidSigningCert2, derSeq(derSeq(certID))))
		}
		setOf := derSetOf(0x31, attrs...)
		toSign = setOf
		signedAttrs = append([]byte{0xA0}, setOf[1:]...) // [0] IMPLICIT
	} else {
		toSign = signedContent
	}

	var sigAlg []byte
	var sig []byte
	var err error
	h := hashOf(o.Hash, toSign)
	switch k := key.(type) {
	case *rsa.PrivateKey:
		sigAlg = derSeq(oidRSA, derNull)
		sig, err = rsa.SignPKCS1v15(nil, k, o.Hash, h)
	case *ecdsa.PrivateKey:
		sigAlg = derSeq(ecdsaOID(o.Hash))
		// An ECDSA signature's DER length varies (70..72 bytes on P-256); the harness wants file
		// layouts that depend on nothing but the seed, so it re-signs until the common length comes up.
		for try := 0; try < 200; try++ {
			sig, err = ecdsa.SignASN1(rand.Reader, k, h)
			if err != nil || len(sig) == ecdsaFixedLen(k) {
				break
			}
		}
	default:
		err = fmt.Errorf("sigkit: unsupported key %T", key)
	}
	if err != nil {
		return nil, parts, err
	}

	digestAlg := derSeq(hashOID(o.Hash), derNull)
	sid := derSeq(cert.RawIssuer, derInt(cert.SerialNumber))
	sigOct := derOctets(sig)
	si := derSeq(derInt(big.NewInt(1)), sid, digestAlg, signedAttrs, sigAlg, sigOct)

	encap := derSeq(ct)
	if o.Encapsulated != nil {
		encap = derSeq(ct, TLV(0xA0, derOctets(o.Encapsulated)))
	}
	certs := [][]byte{cert.Raw}
	for _, c := range o.ExtraCerts {
		certs = append(certs, c.Raw)
	}
	certSet := TLV(0xA0, certs...)
	sd := derSeq(derInt(big.NewInt(1)), TLV(0x31, digestAlg), encap, certSet, TLV(0x31, si))
	out := derSeq(oidSignedData, TLV(0xA0, sd))

	find := func(sub []byte) [2]int {
		if len(sub) == 0 {
			return [2]int{}
		}
		i := bytes.Index(out, sub)
		if i < 0 {
			return [2]int{}
		}
		return [2]int{i, i + len(sub)}
	}
	parts.Cert = find(cert.Raw)
	parts.SignedAttrs = find(signedAttrs)
	if !o.NoSignedAttrs {
		// the digest inside signedAttrs (the same bytes may also occur elsewhere: search inside the attrs)
		if i := bytes.Index(out[parts.SignedAttrs[0]:parts.SignedAttrs[1]], digest); i >= 0 {
			parts.MsgDigest = [2]int{parts.SignedAttrs[0] + i, parts.SignedAttrs[0] + i + len(digest)}
		}
	}
	if i := bytes.LastIndex(out, sig); i >= 0 {
		parts.Signature = [2]int{i, i + len(sig)}
	}
	return out, parts, nil
}
