package sigkit

import (
	"bytes"
	"encoding/hex"
	"fmt"
	"sort"
	"strconv"
	"strings"
	"time"

	"verif/harness/internal/pdfstrict"
)

// Redefinition modes.
const (
	RedefSameObj       = "sigdict-same-obj" // the signature dictionary's object number is redefined
	RedefFieldNewObj   = "field-v-new-obj"  // a new object holds the dictionary; the field is redefined with /V -> new object
	RedefFieldVerbatim = "field-verbatim"   // only the field is redefined, entry by entry unchanged
)

// /ByteRange treatments of a redefined signature dictionary.
const (
	BRVerbatim    = "verbatim"       // the bytes of the old array, copied
	BRNewContents = "new-contents"   // [0 cs' ce' size-ce'] around the /Contents of the NEW definition (full coverage)
	BROldGapToEOF = "old-gap-to-eof" // [0 b c size-c]: the old gap, second range stretched to the end of the file
)

// RedefSpec selects one "later incremental update that redefines signature objects".
type RedefSpec struct {
	Mode      string
	Type      string // "keep", "absent", or the name to write as /Type
	SubFilter string // "" = keep, else the name to write as /SubFilter
	BR        string
	Cert      []byte // if set and the dictionary has no /Cert: added (adbe.x509.rsa_sha1 needs one)
}

// Key renders the spec without the per-document parts (a stable key component).
func (r RedefSpec) Key() string {
	sf := r.SubFilter
	if sf == "" {
		sf = "keep"
	}
	return fmt.Sprintf("%s/type=%s/subfilter=%s/br=%s", r.Mode, r.Type, sf, r.BR)
}

// Redefined is the result of AppendRedefinition.
type Redefined struct {
	Bytes []byte
	// Sig describes the NEWEST signature dictionary of the field inside Bytes (for
	// RedefFieldVerbatim: the old one, untouched): object number, /ByteRange and /Contents
	// positions, the /ByteRange written, SubFilter as written.
	Sig SigInfo
	// Old /Contents position (the previous definition), for signers that fill both.
	OldCStart, OldCEnd int64
}

const redefBRWidth = 44

// AppendRedefinition appends one valid incremental update to file that redefines the signature
// objects of the signature held by field object fieldObj / dictionary object sigObj (both read
// in their newest definition through pdfstrict): a copy of the signature dictionary — same
// entries, /Contents digit for digit — with /Type, /SubFilter and /ByteRange per spec, written
// either under the same object number or as a new object the (redefined) field's /V points to.
// cStart/cEnd are the offsets of the old /Contents hex string (from LocateSigDict or SigInfo).
func AppendRedefinition(file []byte, fieldObj, sigObj int, brStart, brEnd, cStart, cEnd int64, spec RedefSpec) (*Redefined, error) {
	d, err := pdfstrict.Open(file, pdfstrict.Options{})
	if err != nil {
		return nil, err
	}
	if cStart < 0 || cEnd > int64(len(file)) || cEnd <= cStart || file[cStart] != '<' || file[cEnd-1] != '>' {
		return nil, fmt.Errorf("bad /Contents position [%d,%d)", cStart, cEnd)
	}
	get := func(num int) (pdfstrict.Dict, int, error) {
		e, ok := d.Entry(num)
		if !ok || e.Type == pdfstrict.Free {
			return nil, 0, fmt.Errorf("object %d not in use", num)
		}
		gen := 0
		if e.Type == pdfstrict.InUse {
			gen = e.Gen
		}
		o, err := d.Get(pdfstrict.Ref{Num: num, Gen: gen})
		if err != nil {
			return nil, 0, err
		}
		dd, ok := o.(pdfstrict.Dict)
		if !ok {
			return nil, 0, fmt.Errorf("object %d is not a dictionary", num)
		}
		return dd, gen, nil
	}
	fd, fgen, err := get(fieldObj)
	if err != nil {
		return nil, err
	}
	sd, sgen, err := get(sigObj)
	if err != nil {
		return nil, err
	}
	size := int64(0)
	if n, ok := d.Trailer().Int("Size"); ok {
		size = n
	}
	for _, n := range d.Objects() {
		if int64(n) >= size {
			size = int64(n) + 1
		}
	}

	res := &Redefined{OldCStart: cStart, OldCEnd: cEnd}
	res.Sig = SigInfo{FieldObj: fieldObj, SigObj: sigObj, BRStart: brStart, BREnd: brEnd, CStart: cStart, CEnd: cEnd}
	if n, ok := sd.Name("SubFilter"); ok {
		res.Sig.SubFilter = string(n)
	}
	oldBR, oldBROK := ParseByteRangeText(file[brStart:brEnd])
	res.Sig.BR = oldBR

	var objs []updObj
	var relBR, relC [2]int // positions inside the dictionary body
	sigIdx := -1
	if spec.Mode != RedefFieldVerbatim {
		var b bytes.Buffer
		b.WriteString("<<")
		switch spec.Type {
		case "keep":
			if v, ok := sd["Type"]; ok {
				b.WriteString(" /Type " + pdfText(v))
			}
		case "absent":
		default:
			b.WriteString(" /Type " + pdfText(pdfstrict.Name(spec.Type)))
		}
		sf := sd["SubFilter"]
		if spec.SubFilter != "" {
			sf = pdfstrict.Name(spec.SubFilter)
			res.Sig.SubFilter = spec.SubFilter
		}
		if sf != nil {
			b.WriteString(" /SubFilter " + pdfText(sf))
		}
		b.WriteString(" /ByteRange ")
		relBR[0] = b.Len()
		switch spec.BR {
		case BRVerbatim:
			b.Write(file[brStart:brEnd])
		case BRNewContents, BROldGapToEOF:
			if !oldBROK {
				return nil, fmt.Errorf("old /ByteRange unreadable")
			}
			b.WriteString("[" + strings.Repeat(" ", redefBRWidth-2) + "]")
		default:
			return nil, fmt.Errorf("unknown byte range treatment %q", spec.BR)
		}
		relBR[1] = b.Len()
		b.WriteString(" /Contents ")
		relC[0] = b.Len()
		b.Write(file[cStart:cEnd])
		relC[1] = b.Len()
		for _, k := range sd.Keys() {
			switch k {
			case "Type", "SubFilter", "ByteRange", "Contents":
				continue
			}
			b.WriteString(" " + pdfText(pdfstrict.Name(k)) + " " + pdfText(sd[k]))
		}
		if _, has := sd["Cert"]; !has && spec.Cert != nil {
			b.WriteString(" /Cert <" + hex.EncodeToString(spec.Cert) + ">")
		}
		b.WriteString(" >>")
		num, gen := sigObj, sgen
		if spec.Mode == RedefFieldNewObj {
			num, gen = int(size), 0
			size++
		}
		res.Sig.SigObj = num
		sigIdx = len(objs)
		objs = append(objs, updObj{Num: num, Gen: gen, Body: b.Bytes()})
	}
	if spec.Mode == RedefFieldNewObj || spec.Mode == RedefFieldVerbatim {
		nf := pdfstrict.Dict{}
		for k, v := range fd {
			nf[k] = v
		}
		if spec.Mode == RedefFieldNewObj {
			nf["V"] = pdfstrict.Ref{Num: res.Sig.SigObj}
		}
		objs = append(objs, updObj{Num: fieldObj, Gen: fgen, Body: []byte(pdfText(nf))})
	}
	out, offs, err := appendUpdate(file, d, objs, int(size))
	if err != nil {
		return nil, err
	}
	res.Bytes = out
	if sigIdx >= 0 {
		o := offs[sigIdx]
		res.Sig.ObjOffset = o
		res.Sig.BRStart, res.Sig.BREnd = o+int64(relBR[0]), o+int64(relBR[1])
		res.Sig.CStart, res.Sig.CEnd = o+int64(relC[0]), o+int64(relC[1])
		n := int64(len(out))
		switch spec.BR {
		case BRNewContents:
			res.Sig.BR = [4]int64{0, res.Sig.CStart, res.Sig.CEnd, n - res.Sig.CEnd}
		case BROldGapToEOF:
			res.Sig.BR = [4]int64{oldBR[0], oldBR[1], oldBR[2], n - oldBR[2]}
		}
		if spec.BR != BRVerbatim && !SetByteRange(out, &res.Sig, res.Sig.BR) {
			return nil, fmt.Errorf("byte range does not fit")
		}
	}
	return res, nil
}

// ResignRedefined makes the redefined dictionary cryptographically consistent with what it
// claims, the way a signer owning the key could have produced the file: a fresh signature value
// of the dictionary's (new) sub filter over exactly the claimed ranges. For BRVerbatim the same
// digits are written into the old /Contents (the gap the claimed ranges leave out) and into
// the new one; for BRNewContents into the new /Contents only.
func ResignRedefined(r *Redefined, br string, pki *PKI, o DocOptions, now time.Time) bool {
	switch br {
	case BRNewContents:
		s := r.Sig
		return Resign(r.Bytes, &s, r.Sig.BR, pki, o, now)
	case BRVerbatim:
		if r.OldCEnd-r.OldCStart != r.Sig.CEnd-r.Sig.CStart {
			return false
		}
		data := RangeBytes(r.Bytes, r.Sig.BR)
		if data == nil {
			return false
		}
		val, _, err := SignatureValue(r.Sig.SubFilter, data, pki, o, now)
		if err != nil {
			return false
		}
		s := r.Sig
		if !SetContents(r.Bytes, &s, val) {
			return false
		}
		copy(r.Bytes[r.OldCStart:r.OldCEnd], r.Bytes[s.CStart:s.CEnd])
		// the gap the claimed ranges leave out, where it is not the old /Contents (decoy documents)
		if g0, g1 := r.Sig.BR[1], r.Sig.BR[2]; g0 != r.OldCStart && g0 >= 0 && g1-g0 == s.CEnd-s.CStart && g1 <= int64(len(r.Bytes)) {
			copy(r.Bytes[g0:g1], r.Bytes[s.CStart:s.CEnd])
		}
		// the old gap is excluded and the new dictionary lies behind the ranges: still consistent?
		return bytes.Equal(RangeBytes(r.Bytes, r.Sig.BR), data)
	}
	return false
}

type updObj struct {
	Num, Gen int
	Body     []byte
}

// appendUpdate writes objs as one incremental update in the cross-reference form of the newest
// section; offs[i] is the offset of objs[i].Body in the result.
func appendUpdate(file []byte, d *pdfstrict.Doc, objs []updObj, size int) ([]byte, []int64, error) {
	secs := d.Sections()
	if len(secs) == 0 {
		return nil, nil, fmt.Errorf("no xref section")
	}
	tr := d.Trailer()
	root, ok := tr["Root"].(pdfstrict.Ref)
	if !ok {
		return nil, nil, fmt.Errorf("no /Root")
	}
	var b bytes.Buffer
	b.Write(file)
	if n := len(file); n > 0 && file[n-1] != '\n' && file[n-1] != '\r' {
		b.WriteByte('\n')
	}
	type ent struct {
		num, gen int
		off      int64
	}
	var ents []ent
	offs := make([]int64, len(objs))
	for i, o := range objs {
		ents = append(ents, ent{o.Num, o.Gen, int64(b.Len())})
		fmt.Fprintf(&b, "%d %d obj\n", o.Num, o.Gen)
		offs[i] = int64(b.Len())
		b.Write(o.Body)
		b.WriteString("\nendobj\n")
		if o.Num >= size {
			size = o.Num + 1
		}
	}
	extra := ""
	if inf, ok := tr["Info"].(pdfstrict.Ref); ok {
		extra = fmt.Sprintf(" /Info %d %d R", inf.Num, inf.Gen)
	}
	if id, ok := tr["ID"].(pdfstrict.Array); ok && len(id) == 2 {
		a, _ := id[0].(pdfstrict.String)
		c, _ := id[1].(pdfstrict.String)
		extra += fmt.Sprintf(" /ID [<%x> <%x>]", []byte(a), []byte(c))
	}
	if !secs[0].IsStream {
		sort.Slice(ents, func(i, j int) bool { return ents[i].num < ents[j].num })
		xoff := b.Len()
		b.WriteString("xref\n")
		for _, e := range ents {
			fmt.Fprintf(&b, "%d 1\n%010d %05d n \n", e.num, e.off, e.gen)
		}
		fmt.Fprintf(&b, "trailer\n<< /Size %d /Root %d %d R /Prev %d%s >>\nstartxref\n%d\n%%%%EOF\n", size, root.Num, root.Gen, d.StartXRef, extra, xoff)
		return b.Bytes(), offs, nil
	}
	xnum := size
	xoff := int64(b.Len())
	ents = append(ents, ent{xnum, 0, xoff})
	sort.Slice(ents, func(i, j int) bool { return ents[i].num < ents[j].num })
	var rows bytes.Buffer
	index := ""
	for _, e := range ents {
		rows.Write([]byte{1, byte(e.off >> 24), byte(e.off >> 16), byte(e.off >> 8), byte(e.off), byte(e.gen >> 8), byte(e.gen)})
		index += fmt.Sprintf(" %d 1", e.num)
	}
	fmt.Fprintf(&b, "%d 0 obj\n<< /Type /XRef /Size %d /Index [%s ] /W [1 4 2] /Root %d %d R /Prev %d%s /Length %d >>\nstream\n", xnum, xnum+1, index, root.Num, root.Gen, d.StartXRef, extra, rows.Len())
	b.Write(rows.Bytes())
	fmt.Fprintf(&b, "\nendstream\nendobj\nstartxref\n%d\n%%%%EOF\n", xoff)
	return b.Bytes(), offs, nil
}

// pdfText serializes a (direct) pdfstrict object.
func pdfText(o pdfstrict.Object) string {
	switch v := o.(type) {
	case nil, pdfstrict.Null:
		return "null"
	case pdfstrict.Bool:
		if v {
			return "true"
		}
		return "false"
	case pdfstrict.Int:
		return strconv.FormatInt(int64(v), 10)
	case pdfstrict.Real:
		s := strconv.FormatFloat(float64(v), 'f', 6, 64)
		if strings.Contains(s, ".") {
			s = strings.TrimRight(strings.TrimRight(s, "0"), ".")
		}
		if s == "" || s == "-" || s == "-0" {
			s = "0"
		}
		return s
	case pdfstrict.Name:
		var sb strings.Builder
		sb.WriteByte('/')
		for i := 0; i < len(v); i++ {
			c := v[i]
			if c > 32 && c < 127 && c != '#' && !isDelim(c) {
				sb.WriteByte(c)
			} else {
				fmt.Fprintf(&sb, "#%02x", c)
			}
		}
		return sb.String()
	case pdfstrict.String:
		printable := true
		for _, c := range v {
			if c < 32 || c > 126 {
				printable = false
				break
			}
		}
		if !printable {
			return "<" + hex.EncodeToString(v) + ">"
		}
		var sb strings.Builder
		sb.WriteByte('(')
		for _, c := range v {
			if c == '(' || c == ')' || c == '\\' {
				sb.WriteByte('\\')
			}
			sb.WriteByte(c)
		}
		sb.WriteByte(')')
		return sb.String()
	case pdfstrict.Ref:
		return fmt.Sprintf("%d %d R", v.Num, v.Gen)
	case pdfstrict.Array:
		parts := make([]string, len(v))
		for i, x := range v {
			parts[i] = pdfText(x)
		}
		return "[" + strings.Join(parts, " ") + "]"
	case pdfstrict.Dict:
		var sb strings.Builder
		sb.WriteString("<<")
		for _, k := range v.Keys() {
			sb.WriteString(" " + pdfText(pdfstrict.Name(k)) + " " + pdfText(v[k]))
		}
		sb.WriteString(" >>")
		return sb.String()
	case *pdfstrict.Stream:
		return "null"
	}
	return "null"
}
