// Package sigkit is the harness' own PDF signer and signature locator (C27, C28, C29).
// It imports nothing from pdfcpu: crypto/x509 for the certificates, an own minimal DER
// encoder for CMS SignedData and RFC 3161 tokens, pdfgen for the documents, pdfstrict for
// reading files back. pdfcpu is the system under test and never the judge of what is built here.
//
//	pki.go      NewPKI: self-signed CA + signing certificate + time-stamping certificate + CRLs
//	            (fixed throw-away keys from keys.go, RSA-2048 or ECDSA P-256; validity now-1h..now+24h)
//	cms.go      SignCMS: ContentInfo/SignedData with one signer (detached or encapsulated content,
//	            signed attributes, signing-time, ESS signing-certificate-v2); CMSParts = where the
//	            signer certificate, signed attributes, message digest and signature sit in the DER
//	derlabel.go LabelCMS / LabelForeignCMS / LabelOctetString: class of every byte of a signature value
//	pdfsig.go   BuildSigned: a small document with one signature per revision (adbe.pkcs7.detached,
//	            ETSI.CAdES.detached, adbe.pkcs7.sha1, adbe.x509.rsa_sha1, ETSI.RFC3161 document
//	            time-stamp), optional DocMDP certification, optional unsigned /DSS revision; SigInfo is
//	            the ground truth (object numbers, /ByteRange and /Contents positions, value length)
//	tamper.go   SetContents / SetByteRange / Resign (a cryptographically correct signature over ranges
//	            of the signer's choosing) / AppendIncrement (hand-written incremental update) /
//	            BuildDecoy (the excluded gap encloses a decoy hex string, not /Contents)
//	locate.go   LocateSignatures / LocateSigDict: /ByteRange values and the file positions of
//	            /ByteRange [...] and /Contents <...> of any file, via pdfstrict and an own scanner;
//	            SigLoc.FullCoverage is C28's oracle
//
// ECDSA signatures are re-drawn until they have the common DER length, so file layouts depend on
// the options only; the bytes themselves depend on the wall clock through certificate validity
// and signing time (pdfcpu validates certificates against time.Now()).
package sigkit
