// Package pdfcmp decides whether two files written by the same operation in two runs hold "the same
// complete output" although every pdfcpu run draws a fresh /ID and fresh dates.
package pdfcmp

import (
	"bytes"
	"encoding/json"
	"sort"
	"fmt"
	"os"
	"regexp"
	"strings"

	"github.com/pdfcpu/pdfcpu/pkg/api"
	"github.com/pdfcpu/pdfcpu/pkg/pdfcpu/model"
)

var (
	reISO  = regexp.MustCompile(`\d{4}-\d\d-\d\d[T ]\d\d:\d\d:\d\d`)
	reID   = regexp.MustCompile(`/ID\s*\[\s*<[0-9a-fA-F]*>\s*<[0-9a-fA-F]*>\s*\]`)
	reDate = regexp.MustCompile(`D:\d{14}([+\-]\d\d'\d\d'|Z)`)
)

// Normalize masks file identifiers and PDF dates (lengths are preserved).
func Normalize(b []byte) []byte {
	b = reID.ReplaceAllFunc(b, func(m []byte) []byte { return bytes.Repeat([]byte{'#'}, len(m)) })
	b = reDate.ReplaceAllFunc(b, func(m []byte) []byte { return bytes.Repeat([]byte{'#'}, len(m)) })
	b = reISO.ReplaceAllFunc(b, func(m []byte) []byte { return bytes.Repeat([]byte{'#'}, len(m)) })
	return b
}

// Passwords tried when validating (fixtures and catalogue operations use these).
var Passwords = [][2]string{{"", ""}, {"upw", "opw"}, {"u1", "o1"}, {"u2", "o2"}, {"upw", "o2"}, {"u2", "opw"}}

// Validate runs pdfcpu's relaxed validation, trying the catalogue's passwords.
func Validate(path string) (pages int, err error) {
	var last error
	for _, pw := range Passwords {
		conf := model.NewDefaultConfiguration()
		conf.Offline = true
		conf.UserPW, conf.OwnerPW = pw[0], pw[1]
		if e := api.ValidateFile(path, conf); e != nil {
			last = e
			if strings.Contains(e.Error(), "password") {
				continue
			}
			return 0, e
		}
		f, e := os.Open(path)
		if e != nil {
			return 0, e
		}
		n, e := api.PageCount(f, conf)
		f.Close()
		return n, e
	}
	return 0, last
}

// SameOutput reports whether got is a complete output equivalent to ref (same operation, other run).
// PDFs: both validate, same page count, and either byte-equal after Normalize or (when compressed
// object streams / encryption make bytes run-dependent) sizes within slack bytes.
// Other files: byte-equal after Normalize.
func SameOutput(ref, got string, slack int64) (bool, string) {
	return SameOutputMasking(ref, got, slack, "", "")
}

// SameOutputMasking is SameOutput for outputs that may mention the directory they were produced in
// (exported JSON names its source file): refRoot in the reference and gotRoot in the output are masked.
func SameOutputMasking(ref, got string, slack int64, refRoot, gotRoot string) (bool, string) {
	rb, err := os.ReadFile(ref)
	if err != nil {
		return false, "reference unreadable: " + err.Error()
	}
	gb, err := os.ReadFile(got)
	if err != nil {
		return false, "output unreadable: " + err.Error()
	}
	if refRoot != "" && !bytes.HasPrefix(rb, []byte("%PDF-")) {
		rb = bytes.ReplaceAll(rb, []byte(refRoot), []byte("<ROOT>"))
		gb = bytes.ReplaceAll(gb, []byte(gotRoot), []byte("<ROOT>"))
	}
	if !bytes.HasPrefix(rb, []byte("%PDF-")) {
		if bytes.Equal(Normalize(rb), Normalize(gb)) {
			return true, ""
		}
		if ca, ok := canonJSON(Normalize(rb)); ok {
			if cb, ok := canonJSON(Normalize(gb)); ok && ca == cb {
				return true, "" // same JSON value up to the (map-ordered) order of array elements
			}
		}
		return false, fmt.Sprintf("non-PDF output differs from the reference run (%d vs %d bytes)", len(gb), len(rb))
	}
	if !bytes.HasPrefix(gb, []byte("%PDF-")) {
		return false, "output has no PDF header"
	}
	if !bytes.Contains(gb[max(0, len(gb)-1024):], []byte("%%EOF")) {
		return false, "output has no %%EOF in its last 1024 bytes"
	}
	gp, err := Validate(got)
	if err != nil {
		return false, "output does not validate: " + err.Error()
	}
	rp, err := Validate(ref)
	if err != nil {
		return false, "reference does not validate: " + err.Error()
	}
	if gp != rp {
		return false, fmt.Sprintf("page count %d, reference run %d", gp, rp)
	}
	if bytes.Equal(Normalize(rb), Normalize(gb)) {
		return true, ""
	}
	d := int64(len(rb)) - int64(len(gb))
	if d < 0 {
		d = -d
	}
	// the writer's object order (and with it the size of compressed object streams) depends on Go map
	// iteration order: two complete outputs of the same operation differ by up to ~0.5 % in size
	if rel := int64(len(rb)) / 100; rel > slack {
		slack = rel
	}
	if d > slack {
		return false, fmt.Sprintf("size %d, reference run %d", len(gb), len(rb))
	}
	return true, ""
}

// canonJSON renders a JSON document with object keys sorted and array elements sorted by their own
// canonical text (pdfcpu emits some arrays in Go map order).
func canonJSON(b []byte) (string, bool) {
	var v any
	if json.Unmarshal(b, &v) != nil {
		return "", false
	}
	return canonValue(v), true
}

func canonValue(v any) string {
	switch x := v.(type) {
	case map[string]any:
		keys := make([]string, 0, len(x))
		for k := range x {
			keys = append(keys, k)
		}
		sort.Strings(keys)
		var sb strings.Builder
		sb.WriteByte('{')
		for _, k := range keys {
			fmt.Fprintf(&sb, "%q:%s,", k, canonValue(x[k]))
		}
		sb.WriteByte('}')
		return sb.String()
	case []any:
		el := make([]string, len(x))
		for i, e := range x {
			el[i] = canonValue(e)
		}
		sort.Strings(el)
		return "[" + strings.Join(el, ",") + "]"
	default:
		b, _ := json.Marshal(x)
		return string(b)
	}
}
