// Package clirun drives the REAL pdfcpu command line binary as a black box (C04, C41):
// it builds cmd/pdfcpu from the tree under test, runs hermetic children with a watchdog,
// discovers the leaf commands from the binary's own help output, takes whole-tree snapshots
// (names, bytes, modes, mtimes) and reads the filesystem-call log that a binary built on the
// shadow GOROOT writes when VERIF_OSMON is set (tools/mkshadow/os_envmon.go.txt).
package clirun

import (
	"bufio"
	"bytes"
	"context"
	"crypto/sha256"
	"encoding/json"
	"errors"
	"fmt"
	"io/fs"
	"os"
	"os/exec"
	"path/filepath"
	"sort"
	"strings"
	"sync"
	"syscall"
	"time"
)

// ---------------------------------------------------------------- build

func goTool(goroot string) string {
	if goroot != "" {
		return filepath.Join(goroot, "bin", "go")
	}
	if g := os.Getenv("GO125"); g != "" {
		return g
	}
	if r := os.Getenv("GO125ROOT"); r != "" {
		return filepath.Join(r, "bin", "go")
	}
	return "/root/go/pkg/mod/golang.org/toolchain@v0.0.1-go1.25.0.linux-amd64/bin/go"
}

// Build compiles <repo>/cmd/pdfcpu into out. goroot "" = the stock toolchain; otherwise the
// shadow GOROOT (the binary then honours VERIF_OSMON). The build runs inside the repo directory
// with the environment exported by /verif/env.sh (offline, -mod=mod).
func Build(repo, out, goroot string) error {
	cmd := exec.Command(goTool(goroot), "build", "-buildvcs=false", "-o", out, "./cmd/pdfcpu")
	cmd.Dir = repo
	env := []string{}
	for _, kv := range os.Environ() {
		if strings.HasPrefix(kv, "GOROOT=") || strings.HasPrefix(kv, "GOFLAGS=") || strings.HasPrefix(kv, "VERIF_OSMON=") {
			continue
		}
		env = append(env, kv)
	}
	env = append(env, "GOFLAGS=-mod=mod", "GOTOOLCHAIN=local", "GOPROXY=off", "GOSUMDB=off", "GOWORK=off", "CGO_ENABLED=0")
	if goroot != "" {
		env = append(env, "GOROOT="+goroot)
	}
	cmd.Env = env
	b, err := cmd.CombinedOutput()
	if err != nil {
		return fmt.Errorf("build cmd/pdfcpu (goroot %q): %v\n%s", goroot, err, b)
	}
	return nil
}

// ---------------------------------------------------------------- children

// Spec is one child run.
type Spec struct {
	Bin     string
	Args    []string
	Dir     string   // working directory
	Home    string   // HOME and (unless XDG is set) XDG_CONFIG_HOME
	XDG     string   // XDG_CONFIG_HOME ("" = Home)
	Tmp     string   // TMPDIR
	Stdin   []byte   // nil = closed stdin (/dev/null)
	Env     []string // extra variables
	Timeout time.Duration
}

// Result of a child run.
type Result struct {
	Exit     int // -1 = killed by signal / not started
	Stdout   []byte
	Stderr   []byte
	TimedOut bool
	Signal   string
	Err      string // start error
}

// Run executes the child hermetically: the environment holds nothing but PATH, HOME,
// XDG_CONFIG_HOME, TMPDIR, LANG and spec.Env.
func Run(s Spec) Result {
	to := s.Timeout
	if to == 0 {
		to = 90 * time.Second
	}
	ctx, cancel := context.WithTimeout(context.Background(), to)
	defer cancel()
	cmd := exec.CommandContext(ctx, s.Bin, s.Args...)
	cmd.Dir = s.Dir
	xdg := s.XDG
	if xdg == "" {
		xdg = s.Home
	}
	cmd.Env = append([]string{"PATH=/usr/bin:/bin", "HOME=" + s.Home, "XDG_CONFIG_HOME=" + xdg, "TMPDIR=" + s.Tmp, "LANG=C"}, s.Env...)
	var so, se bytes.Buffer
	cmd.Stdout, cmd.Stderr = &so, &se
	if s.Stdin != nil {
		cmd.Stdin = bytes.NewReader(s.Stdin)
	}
	cmd.WaitDelay = 5 * time.Second
	err := cmd.Run()
	r := Result{Stdout: so.Bytes(), Stderr: se.Bytes()}
	if ctx.Err() == context.DeadlineExceeded {
		r.TimedOut = true
		r.Exit = -1
		return r
	}
	if err == nil {
		return r
	}
	var ee *exec.ExitError
	if errors.As(err, &ee) {
		r.Exit = ee.ExitCode()
		if ws, ok := ee.Sys().(syscall.WaitStatus); ok && ws.Signaled() {
			r.Signal = ws.Signal().String()
		}
		return r
	}
	r.Exit = -1
	r.Err = err.Error()
	return r
}

// ---------------------------------------------------------------- leaves

// Leaf is one runnable command of the CLI.
type Leaf struct {
	Path  string // "pages remove"
	Usage string // "pdfcpu pages remove inFile [ outFile ] [flags]"
	Help  string // full help text
}

// HasOutArg reports whether the usage line names an output file or directory.
func (l Leaf) HasOutArg() bool {
	u := l.Usage
	return strings.Contains(u, "outFile") || strings.Contains(u, "outDir")
}

// HasInArg reports whether the usage line names an input file.
func (l Leaf) HasInArg() bool { return strings.Contains(l.Usage, "inFile") }

// Leaves walks `pdfcpu help ...` recursively (hermetic, --conf is not needed for help); the
// sub-trees are explored concurrently.
func Leaves(bin, scratch string) ([]Leaf, error) {
	var (
		mu       sync.Mutex
		out      []Leaf
		firstErr error
		wg       sync.WaitGroup
		sem      = make(chan struct{}, 16)
	)
	fail := func(err error) {
		mu.Lock()
		if firstErr == nil {
			firstErr = err
		}
		mu.Unlock()
	}
	var walk func(path []string, depth int)
	walk = func(path []string, depth int) {
		defer wg.Done()
		if depth > 4 {
			fail(fmt.Errorf("help nesting too deep at %v", path))
			return
		}
		sem <- struct{}{}
		r := Run(Spec{Bin: bin, Args: append([]string{"help"}, path...), Dir: scratch, Home: scratch, Tmp: scratch, Timeout: 60 * time.Second})
		<-sem
		if r.Exit != 0 {
			fail(fmt.Errorf("help %v: exit %d: %s", path, r.Exit, r.Stderr))
			return
		}
		txt := string(r.Stdout)
		subs := subCommands(txt)
		if len(subs) == 0 {
			if len(path) > 0 {
				mu.Lock()
				out = append(out, Leaf{Path: strings.Join(path, " "), Usage: usageLine(txt), Help: txt})
				mu.Unlock()
			}
			return
		}
		for _, s := range subs {
			if s == "help" {
				continue
			}
			wg.Add(1)
			go walk(append(append([]string{}, path...), s), depth+1)
		}
	}
	wg.Add(1)
	walk(nil, 0)
	wg.Wait()
	if firstErr != nil {
		return nil, firstErr
	}
	sort.Slice(out, func(i, j int) bool { return out[i].Path < out[j].Path })
	return out, nil
}

func subCommands(help string) []string {
	var subs []string
	in := false
	sc := bufio.NewScanner(strings.NewReader(help))
	for sc.Scan() {
		ln := sc.Text()
		switch {
		case strings.HasPrefix(ln, "Available Commands:"):
			in = true
		case in && strings.TrimSpace(ln) == "":
			in = false
		case in:
			f := strings.Fields(ln)
			if len(f) > 0 {
				subs = append(subs, f[0])
			}
		}
	}
	return subs
}

func usageLine(help string) string {
	lines := strings.Split(help, "\n")
	for i, ln := range lines {
		if strings.HasPrefix(ln, "Usage:") && i+1 < len(lines) {
			return strings.TrimSpace(lines[i+1])
		}
	}
	return ""
}

// ---------------------------------------------------------------- tree snapshots

// Ent is one path of a snapshot.
type Ent struct {
	Mode  fs.FileMode
	Size  int64
	Sum   [32]byte
	Link  string
	MTime int64 // ns
}

// Tree maps slash-separated relative paths to entries; "." is the root directory itself.
type Tree map[string]Ent

// Snap reads the whole tree under root with lstat (symlinks are not followed).
func Snap(root string) (Tree, error) {
	t := Tree{}
	err := filepath.Walk(root, func(p string, info fs.FileInfo, err error) error {
		if err != nil {
			return err
		}
		rel, _ := filepath.Rel(root, p)
		e := Ent{Mode: info.Mode() & (fs.ModeType | fs.ModePerm), MTime: info.ModTime().UnixNano()}
		switch {
		case info.Mode()&fs.ModeSymlink != 0:
			e.Link, _ = os.Readlink(p)
		case info.Mode().IsRegular():
			b, err := os.ReadFile(p)
			if err != nil {
				return err
			}
			e.Size = int64(len(b))
			e.Sum = sha256.Sum256(b)
		}
		t[filepath.ToSlash(rel)] = e
		return nil
	})
	return t, err
}

// Change is one difference between two snapshots.
type Change struct {
	Path string
	Kind string // added | removed | type | content | mode | mtime
}

func (c Change) String() string { return c.Kind + ":" + c.Path }

// Diff lists the changes from a to b sorted by path. An mtime-only change is reported as "mtime".
func Diff(a, b Tree) []Change {
	var out []Change
	for p, ea := range a {
		eb, ok := b[p]
		switch {
		case !ok:
			out = append(out, Change{p, "removed"})
		case ea.Mode.Type() != eb.Mode.Type():
			out = append(out, Change{p, "type"})
		case ea.Sum != eb.Sum || ea.Link != eb.Link || ea.Size != eb.Size:
			out = append(out, Change{p, "content"})
		case ea.Mode.Perm() != eb.Mode.Perm():
			out = append(out, Change{p, "mode"})
		case ea.MTime != eb.MTime:
			out = append(out, Change{p, "mtime"})
		}
	}
	for p := range b {
		if _, ok := a[p]; !ok {
			out = append(out, Change{p, "added"})
		}
	}
	sort.Slice(out, func(i, j int) bool {
		if out[i].Path != out[j].Path {
			return out[i].Path < out[j].Path
		}
		return out[i].Kind < out[j].Kind
	})
	return out
}

// ChangeList renders up to n changes.
func ChangeList(cs []Change, n int) string {
	var s []string
	for i, c := range cs {
		if i == n {
			s = append(s, fmt.Sprintf("… %d more", len(cs)-n))
			break
		}
		s = append(s, c.String())
	}
	return strings.Join(s, ", ")
}

// ---------------------------------------------------------------- fs-call log

// FsEvent is one call line of the VERIF_OSMON log.
type FsEvent struct {
	Seq   int64  `json:"seq"`
	Op    string `json:"op"`
	Path  string `json:"path"`
	Path2 string `json:"path2"`
	Flag  int    `json:"flag"`
	Len   int    `json:"len"`
	Ret   bool   `json:"ret"`
}

// OsmonEnv is the VERIF_OSMON value that traces every package-os call under scope into log.
func OsmonEnv(scope, log string) string {
	return "VERIF_OSMON=scope=" + scope + ";log=" + log
}

// ReadFsLog returns the calls (not the return lines) of a log; a missing file is an empty log.
func ReadFsLog(path string) ([]FsEvent, error) {
	b, err := os.ReadFile(path)
	if err != nil {
		if os.IsNotExist(err) {
			return nil, nil
		}
		return nil, err
	}
	var evs []FsEvent
	for _, ln := range bytes.Split(b, []byte("\n")) {
		if len(bytes.TrimSpace(ln)) == 0 {
			continue
		}
		var e FsEvent
		if err := json.Unmarshal(ln, &e); err != nil {
			return evs, fmt.Errorf("fs log line %q: %v", ln, err)
		}
		if !e.Ret {
			evs = append(evs, e)
		}
	}
	return evs, nil
}

// Mutating reports whether a logged call can change the filesystem.
func Mutating(e FsEvent) bool {
	switch e.Op {
	case "mkdir", "rename", "remove", "removeall", "chmod", "truncate", "link", "symlink", "write", "writeat", "fchmod", "ftruncate":
		return true
	case "openfile":
		return e.Flag&(os.O_WRONLY|os.O_RDWR|os.O_CREATE|os.O_TRUNC|os.O_APPEND) != 0
	}
	return false
}

// ---------------------------------------------------------------- small helpers

// CopyFile copies src to dst with the given mode.
func CopyFile(src, dst string, mode fs.FileMode) error {
	b, err := os.ReadFile(src)
	if err != nil {
		return err
	}
	if err := os.WriteFile(dst, b, 0o600); err != nil {
		return err
	}
	return os.Chmod(dst, mode)
}

// Clip shortens s for messages.
func Clip(b []byte, n int) string {
	s := strings.TrimSpace(string(b))
	if len(s) > n {
		s = s[:n] + "…"
	}
	return s
}
