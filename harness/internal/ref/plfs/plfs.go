// Package plfs is an explicit power-loss model of a POSIX filesystem, replayed over a recorded
// trace of filesystem calls (offline checker for C07).
//
// Model (stated in the evidence as an assumption):
//   - File data is durable exactly up to the inode's last fsync: after a power loss an inode holds
//     the content it had at its last fsync (length 0 if never synced). No torn sectors.
//   - Directory operations (create/link, unlink, rename = unlink+link, mkdir) are queued per
//     directory in issue order; fsync of a directory makes its queue durable. At a power loss, for
//     every directory independently, any PREFIX of its queue may have reached the disk.
//   - A rename between two directories puts one operation in each queue.
//
// The checker enumerates, after every trace event, every combination of per-directory prefixes
// and evaluates the durable view of the watched directory.
package plfs

import (
	"fmt"
	"os"
	"path/filepath"
	"sort"
	"strings"
)

// Ev is the subset of an osmon event the model needs.
type Ev struct {
	Seq   int64
	Op    string
	Path  string
	Path2 string
	Flag  int
	FID   uint64
	N     int   // bytes written
	Pos   int64 // write offset (-1 unknown → treated as append)
	OK    bool  // the call completed without error
}

type inode struct {
	id       int
	dir      bool
	len      int64 // current length
	ver      int   // bumped on every write/truncate
	syncLen  int64
	syncVer  int
	everSync bool
	initial  bool // existed before the trace (durable and complete by assumption)
	// publication: the version/length the inode had when it was first linked under a watched name
}

type dirop struct {
	add  bool
	name string
	ino  *inode
	seq  int64
}

type dirState struct {
	durable map[string]*inode
	pending []dirop
}

// Model replays a trace.
type Model struct {
	inodes  []*inode
	dirs    map[string]*dirState // by absolute directory path
	current map[string]*inode    // live namespace: abs path -> inode
	fids    map[uint64]*inode
	fidPath map[uint64]string
}

// TreeEntry is one path of an initial tree (see Scan).
type TreeEntry struct {
	Path string
	Dir  bool
	Size int64
}

// Scan records the tree under root (in walk order) so that several models can start from the same initial
// state after the filesystem itself has moved on.
func Scan(root string) []TreeEntry {
	var out []TreeEntry
	filepath.Walk(root, func(p string, info os.FileInfo, err error) error {
		if err != nil {
			return nil
		}
		out = append(out, TreeEntry{Path: p, Dir: info.IsDir(), Size: info.Size()})
		return nil
	})
	return out
}

// New creates a model whose initial (durable) state is the tree under roots.
func New(roots ...string) *Model {
	m := &Model{dirs: map[string]*dirState{}, current: map[string]*inode{}, fids: map[uint64]*inode{}, fidPath: map[uint64]string{}}
	for _, r := range roots {
		m.addTree(r, Scan(r))
	}
	return m
}

// NewFrom creates a model whose initial (durable) state is a tree recorded by Scan(root).
func NewFrom(root string, tree []TreeEntry) *Model {
	m := &Model{dirs: map[string]*dirState{}, current: map[string]*inode{}, fids: map[uint64]*inode{}, fidPath: map[uint64]string{}}
	m.addTree(root, tree)
	return m
}

func (m *Model) addTree(r string, tree []TreeEntry) {
	for _, e := range tree {
		in := m.newInode(e.Dir)
		in.initial = true
		in.len, in.syncLen, in.everSync = e.Size, e.Size, true
		m.current[e.Path] = in
		if e.Dir {
			m.dir(e.Path)
		}
		if e.Path != r {
			m.dir(filepath.Dir(e.Path)).durable[filepath.Base(e.Path)] = in
		}
	}
}

func (m *Model) newInode(dir bool) *inode {
	in := &inode{id: len(m.inodes) + 1, dir: dir}
	m.inodes = append(m.inodes, in)
	return in
}

func (m *Model) dir(p string) *dirState {
	d, ok := m.dirs[p]
	if !ok {
		d = &dirState{durable: map[string]*inode{}}
		m.dirs[p] = d
	}
	return d
}

func (m *Model) link(p string, in *inode, seq int64) {
	m.current[p] = in
	d := m.dir(filepath.Dir(p))
	d.pending = append(d.pending, dirop{add: true, name: filepath.Base(p), ino: in, seq: seq})
}

func (m *Model) unlink(p string, seq int64) {
	delete(m.current, p)
	d := m.dir(filepath.Dir(p))
	d.pending = append(d.pending, dirop{add: false, name: filepath.Base(p), seq: seq})
}

// Apply advances the model by one event.
func (m *Model) Apply(e Ev) {
	if !e.OK {
		return
	}
	switch e.Op {
	case "openfile":
		in, exists := m.current[e.Path]
		if !exists {
			if e.Flag&os.O_CREATE == 0 {
				return
			}
			in = m.newInode(false)
			m.link(e.Path, in, e.Seq)
		} else if e.Flag&os.O_TRUNC != 0 && !in.dir {
			in.len = 0
			in.ver++
		}
		if e.FID != 0 {
			m.fids[e.FID] = in
			m.fidPath[e.FID] = e.Path
		}
	case "mkdir":
		if _, exists := m.current[e.Path]; !exists {
			in := m.newInode(true)
			m.link(e.Path, in, e.Seq)
			m.dir(e.Path)
		}
	case "write", "writeat":
		if in := m.fids[e.FID]; in != nil && e.N > 0 {
			end := in.len + int64(e.N)
			if e.Pos >= 0 {
				end = e.Pos + int64(e.N)
			}
			if end > in.len {
				in.len = end
			}
			in.ver++
		}
	case "ftruncate":
		if in := m.fids[e.FID]; in != nil {
			in.ver++
		}
	case "sync":
		in := m.fids[e.FID]
		if in == nil {
			return
		}
		if in.dir {
			d := m.dir(m.fidPath[e.FID])
			for _, op := range d.pending {
				if op.add {
					d.durable[op.name] = op.ino
				} else {
					delete(d.durable, op.name)
				}
			}
			d.pending = nil
		} else {
			in.syncLen, in.syncVer, in.everSync = in.len, in.ver, true
		}
	case "close":
		delete(m.fids, e.FID)
	case "rename":
		in := m.current[e.Path]
		if in == nil {
			return
		}
		if in.dir {
			// move the subtree in the live namespace
			for p, x := range m.current {
				if strings.HasPrefix(p, e.Path+"/") {
					delete(m.current, p)
					m.current[e.Path2+p[len(e.Path):]] = x
				}
			}
			if d, ok := m.dirs[e.Path]; ok {
				delete(m.dirs, e.Path)
				m.dirs[e.Path2] = d
			}
		}
		m.unlink(e.Path, e.Seq)
		m.link(e.Path2, in, e.Seq)
	case "remove":
		if _, ok := m.current[e.Path]; ok {
			m.unlink(e.Path, e.Seq)
		}
	case "removeall":
		var ps []string
		for p := range m.current {
			if p == e.Path || strings.HasPrefix(p, e.Path+"/") {
				ps = append(ps, p)
			}
		}
		sort.Slice(ps, func(i, j int) bool { return len(ps[i]) > len(ps[j]) })
		for _, p := range ps {
			m.unlink(p, e.Seq)
		}
	}
}

// Finding is one way a power loss can expose a bad state.
type Finding struct {
	Class    string // truncated-representation | not-durable-after-success
	Name     string
	AfterSeq int64
	Detail   string
}

// complete reports whether the inode's durable content is the complete content it has now.
func complete(in *inode) bool {
	return in.initial && in.ver == 0 || (in.everSync && in.syncVer == in.ver && in.syncLen == in.len)
}

// CheckCrash evaluates every power-loss outcome at this point of the trace for the watched
// directory: every name matching watch must resolve to an inode whose durable content is complete.
func (m *Model) CheckCrash(watchDir string, watch func(name string) bool, afterSeq int64) (findings []Finding, states int) {
	d := m.dir(watchDir)
	// only the watched directory's own queue decides which names exist in it
	for k := 0; k <= len(d.pending); k++ {
		states++
		view := map[string]*inode{}
		for n, in := range d.durable {
			view[n] = in
		}
		for _, op := range d.pending[:k] {
			if op.add {
				view[op.name] = op.ino
			} else {
				delete(view, op.name)
			}
		}
		for n, in := range view {
			if !watch(n) || in.dir {
				continue
			}
			if !complete(in) {
				findings = append(findings, Finding{Class: "truncated-representation", Name: n, AfterSeq: afterSeq,
					Detail: fmt.Sprintf("power loss after fs call %d with %d of %d pending directory operations on disk: %s resolves to a file whose durable content is %d bytes (version %d) but whose written content is %d bytes (version %d, synced=%v)", afterSeq, k, len(d.pending), n, in.syncLen, in.syncVer, in.len, in.ver, in.everSync)})
			}
		}
	}
	return
}

// CheckDurable is evaluated when the operation has returned success: every expected name must be
// present with complete content in EVERY power-loss outcome (i.e. even if no pending directory
// operation reached the disk).
func (m *Model) CheckDurable(watchDir string, expected []string, afterSeq int64) (findings []Finding) {
	d := m.dir(watchDir)
	for k := 0; k <= len(d.pending); k++ {
		view := map[string]*inode{}
		for n, in := range d.durable {
			view[n] = in
		}
		for _, op := range d.pending[:k] {
			if op.add {
				view[op.name] = op.ino
			} else {
				delete(view, op.name)
			}
		}
		for _, n := range expected {
			in, ok := view[n]
			live := m.current[filepath.Join(watchDir, n)]
			switch {
			case !ok:
				findings = append(findings, Finding{Class: "not-durable-after-success", Name: n, AfterSeq: afterSeq,
					Detail: fmt.Sprintf("after success, a power loss with %d of %d pending directory operations on disk loses the directory entry %s (directory not fsynced after publication)", k, len(d.pending), n)})
			case in != live:
				findings = append(findings, Finding{Class: "not-durable-after-success", Name: n, AfterSeq: afterSeq,
					Detail: fmt.Sprintf("after success, a power loss with %d of %d pending directory operations on disk leaves %s pointing at a previous file", k, len(d.pending), n)})
			case !complete(in):
				findings = append(findings, Finding{Class: "not-durable-after-success", Name: n, AfterSeq: afterSeq,
					Detail: fmt.Sprintf("after success, %s is published but its data is not durable (synced %d of %d bytes)", n, in.syncLen, in.len)})
			}
		}
	}
	return
}

// PendingOps returns the number of queued operations of a directory (for evidence).
func (m *Model) PendingOps(dir string) int { return len(m.dir(dir).pending) }
