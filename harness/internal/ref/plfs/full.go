package plfs

// Full is a second, tree-shaped implementation of the power-loss model (the thorough tier of C07).
// Model keeps one queue per directory PATH and looks at the watched directory's own queue only; Full
// keeps one queue per directory INODE, resolves the watched directory from the sandbox root through the
// durable view of every directory on the way, and can enumerate the complete product of per-directory
// outcomes. It also carries model variants (Variant) that are harsher than the stated model.

import (
	"fmt"
	"os"
	"path/filepath"
	"sort"
	"strings"
)

// Variant selects the power-loss model.
type Variant struct {
	Name string
	// Unordered: any SUBSET of a directory's not-yet-fsynced operations may have reached the disk (the chosen
	// ones in issue order) instead of any prefix: no ordering of metadata updates inside a directory.
	Unordered bool
	// SplitReplace: a rename (or link) over an existing name is an unlink followed by a link, so the name
	// may be absent in between.
	SplitReplace bool
	// BothDirs: the two halves of a rename between two directories (unlink in the source directory, link in the
	// destination directory) only become durable once BOTH directories were fsynced after the rename; until then
	// each half may or may not have reached the disk, independently.
	BothDirs bool
}

// Base is the stated model: ordered per-directory queues, atomic replace, a directory fsync settles that directory.
var Base = Variant{Name: "base"}

// Harsh is the harshest combination: unordered directory updates, non-atomic replace, cross-directory renames
// settled only by fsyncs of both directories.
var Harsh = Variant{Name: "harsh", Unordered: true, SplitReplace: true, BothDirs: true}

type fnode struct {
	id                int
	dir               bool
	len, syncLen      int64
	ver, syncVer      int
	everSync, initial bool
	live, durable     map[string]*fnode
	pending           []*fop
}

type fop struct {
	add    bool
	name   string
	ino    *fnode
	seq    int64
	peer   *fop // other half of a rename between two directories
	synced bool // the operation's own directory was fsynced after it was issued
}

// Note says what one applied event did (for trace surgery: which inode a sync flushed, which rename published what).
type Note struct {
	Kind    string // open | create | mkdir | write | sync-file | sync-dir | close | rename | remove | removeall | link | other | ignored
	Ino     int    // inode concerned (0: none)
	DstDir  int    // rename/link/create: inode of the directory that received the name
	DstName string
	Cross   bool // rename between two directories
}

// Full replays a trace.
type Full struct {
	V     Variant
	root  string
	rootN *fnode
	nodes []*fnode
	fids  map[uint64]*fnode
}

// NewFull creates a model whose initial, durable state is the tree under root.
func NewFull(root string, v Variant) *Full { return NewFullFrom(root, Scan(root), v) }

// NewFullFrom creates a model whose initial, durable state is a tree recorded by Scan(root).
func NewFullFrom(root string, tree []TreeEntry, v Variant) *Full {
	m := &Full{V: v, root: filepath.Clean(root), fids: map[uint64]*fnode{}}
	m.rootN = m.newNode(true)
	m.rootN.initial = true
	for _, e := range tree {
		if filepath.Clean(e.Path) == m.root {
			continue
		}
		par, name, _ := m.lookup(e.Path)
		if par == nil {
			continue
		}
		n := m.newNode(e.Dir)
		n.initial = true
		if !e.Dir {
			n.len, n.syncLen, n.everSync = e.Size, e.Size, true
		}
		par.live[name] = n
		par.durable[name] = n
	}
	return m
}

func (m *Full) newNode(dir bool) *fnode {
	n := &fnode{id: len(m.nodes) + 1, dir: dir}
	if dir {
		n.live, n.durable = map[string]*fnode{}, map[string]*fnode{}
	}
	m.nodes = append(m.nodes, n)
	return n
}

func (m *Full) comps(p string) ([]string, bool) {
	p = filepath.Clean(p)
	if p == m.root {
		return nil, true
	}
	if !strings.HasPrefix(p, m.root+"/") {
		return nil, false
	}
	return strings.Split(p[len(m.root)+1:], "/"), true
}

// lookup resolves p in the live namespace: its parent directory, its base name, and the node (nil if absent).
func (m *Full) lookup(p string) (parent *fnode, name string, n *fnode) {
	cs, ok := m.comps(p)
	if !ok {
		return nil, "", nil
	}
	if len(cs) == 0 {
		return nil, "", m.rootN
	}
	d := m.rootN
	for _, c := range cs[:len(cs)-1] {
		nx := d.live[c]
		if nx == nil || !nx.dir {
			return nil, "", nil
		}
		d = nx
	}
	name = cs[len(cs)-1]
	return d, name, d.live[name]
}

func (m *Full) addLink(d *fnode, name string, n *fnode, seq int64) *fop {
	if m.V.SplitReplace {
		if old := d.live[name]; old != nil && old != n {
			d.pending = append(d.pending, &fop{add: false, name: name, seq: seq})
		}
	}
	d.live[name] = n
	op := &fop{add: true, name: name, ino: n, seq: seq}
	d.pending = append(d.pending, op)
	return op
}

func (m *Full) addUnlink(d *fnode, name string, seq int64) *fop {
	delete(d.live, name)
	op := &fop{add: false, name: name, seq: seq}
	d.pending = append(d.pending, op)
	return op
}

func (m *Full) removeTree(d *fnode, name string, seq int64) {
	n := d.live[name]
	if n == nil {
		return
	}
	if n.dir {
		var names []string
		for c := range n.live {
			names = append(names, c)
		}
		sort.Strings(names)
		for _, c := range names {
			m.removeTree(n, c, seq)
		}
	}
	m.addUnlink(d, name, seq)
}

func applyOp(view map[string]*fnode, op *fop) {
	if op.add {
		view[op.name] = op.ino
	} else {
		delete(view, op.name)
	}
}

func (m *Full) syncDir(d *fnode) {
	for _, op := range d.pending {
		op.synced = true
	}
	if !m.V.BothDirs {
		for _, op := range d.pending {
			applyOp(d.durable, op)
		}
		d.pending = nil
		return
	}
	// an operation settles once its own directory and (for a half of a cross-directory rename) the other
	// half's directory were fsynced; a settled operation supersedes earlier unsettled ones on the same name
	for _, x := range m.nodes {
		if !x.dir || len(x.pending) == 0 {
			continue
		}
		var keep []*fop
		for _, op := range x.pending {
			if op.synced && (op.peer == nil || op.peer.synced) {
				applyOp(x.durable, op)
				k2 := keep[:0]
				for _, e := range keep {
					if e.name != op.name {
						k2 = append(k2, e)
					}
				}
				keep = k2
				continue
			}
			keep = append(keep, op)
		}
		x.pending = keep
	}
}

// Apply advances the model by one event and says what it did.
func (m *Full) Apply(e Ev) Note {
	if !e.OK {
		return Note{Kind: "ignored"}
	}
	switch e.Op {
	case "openfile":
		par, name, n := m.lookup(e.Path)
		kind := "open"
		note := Note{}
		if n == nil {
			if e.Flag&os.O_CREATE == 0 || par == nil {
				return Note{Kind: "ignored"}
			}
			n = m.newNode(false)
			m.addLink(par, name, n, e.Seq)
			kind = "create"
			note.DstDir, note.DstName = par.id, name
		} else if e.Flag&os.O_TRUNC != 0 && !n.dir {
			n.len = 0
			n.ver++
		}
		if e.FID != 0 {
			m.fids[e.FID] = n
		}
		note.Kind, note.Ino = kind, n.id
		return note
	case "mkdir":
		par, name, n := m.lookup(e.Path)
		if n != nil || par == nil {
			return Note{Kind: "ignored"}
		}
		n = m.newNode(true)
		m.addLink(par, name, n, e.Seq)
		return Note{Kind: "mkdir", Ino: n.id, DstDir: par.id, DstName: name}
	case "write", "writeat":
		n := m.fids[e.FID]
		if n == nil || e.N <= 0 {
			return Note{Kind: "ignored"}
		}
		end := n.len + int64(e.N)
		if e.Pos >= 0 {
			end = e.Pos + int64(e.N)
		}
		if end > n.len {
			n.len = end
		}
		n.ver++
		return Note{Kind: "write", Ino: n.id}
	case "ftruncate":
		if n := m.fids[e.FID]; n != nil {
			n.ver++
			return Note{Kind: "write", Ino: n.id}
		}
	case "truncate":
		if _, _, n := m.lookup(e.Path); n != nil && !n.dir {
			n.ver++
			return Note{Kind: "write", Ino: n.id}
		}
	case "sync":
		n := m.fids[e.FID]
		if n == nil {
			return Note{Kind: "ignored"}
		}
		if n.dir {
			m.syncDir(n)
			return Note{Kind: "sync-dir", Ino: n.id}
		}
		n.syncLen, n.syncVer, n.everSync = n.len, n.ver, true
		return Note{Kind: "sync-file", Ino: n.id}
	case "close":
		if n := m.fids[e.FID]; n != nil {
			delete(m.fids, e.FID)
			return Note{Kind: "close", Ino: n.id}
		}
	case "rename":
		sp, sn, n := m.lookup(e.Path)
		dp, dn, _ := m.lookup(e.Path2)
		if n == nil || sp == nil || dp == nil {
			return Note{Kind: "ignored"}
		}
		u := m.addUnlink(sp, sn, e.Seq)
		l := m.addLink(dp, dn, n, e.Seq)
		if sp != dp {
			u.peer, l.peer = l, u
		}
		return Note{Kind: "rename", Ino: n.id, DstDir: dp.id, DstName: dn, Cross: sp != dp}
	case "link":
		_, _, n := m.lookup(e.Path)
		dp, dn, _ := m.lookup(e.Path2)
		if n == nil || dp == nil {
			return Note{Kind: "ignored"}
		}
		m.addLink(dp, dn, n, e.Seq)
		return Note{Kind: "link", Ino: n.id, DstDir: dp.id, DstName: dn}
	case "remove":
		par, name, n := m.lookup(e.Path)
		if n == nil || par == nil {
			return Note{Kind: "ignored"}
		}
		m.addUnlink(par, name, e.Seq)
		return Note{Kind: "remove", Ino: n.id}
	case "removeall":
		par, name, n := m.lookup(e.Path)
		if n == nil || par == nil {
			return Note{Kind: "ignored"}
		}
		m.removeTree(par, name, e.Seq)
		return Note{Kind: "removeall", Ino: n.id}
	}
	return Note{Kind: "other"}
}

// DirID returns the inode number of the live directory at path (0 if it is none).
func (m *Full) DirID(path string) int {
	if _, _, n := m.lookup(path); n != nil && n.dir {
		return n.id
	}
	return 0
}

func fcomplete(n *fnode) bool {
	return n.initial && n.ver == 0 || (n.everSync && n.syncVer == n.ver && n.syncLen == n.len)
}

// MaxSubsetOps bounds the subset enumeration of one directory under an Unordered variant (2^n outcomes);
// a longer queue is enumerated over its last MaxSubsetOps operations with everything before them taken as
// on disk or not on disk as a block (reported by Stats.SubsetCapHits).
const MaxSubsetOps = 14

// Stats are the exploration counts of one crash point.
type Stats struct {
	States        int64 // power-loss outcomes evaluated (combinations over the directories on the way to the watched one)
	ProductStates int64 // size of the complete product over ALL directories with queued operations (saturating)
	WatchAbsent   int64 // outcomes in which the watched directory itself does not exist
	Views         int   // distinct views of the watched directory
	SubsetCapHits int64
}

// views enumerates the durable views of directory d the variant allows.
func (m *Full) views(d *fnode, st *Stats, f func(view map[string]*fnode)) {
	mk := func() map[string]*fnode {
		v := make(map[string]*fnode, len(d.durable)+len(d.pending))
		for k, x := range d.durable {
			v[k] = x
		}
		return v
	}
	if !m.V.Unordered {
		for k := 0; k <= len(d.pending); k++ {
			v := mk()
			for _, op := range d.pending[:k] {
				applyOp(v, op)
			}
			f(v)
		}
		return
	}
	ops := d.pending
	if len(ops) <= MaxSubsetOps {
		for mask := 0; mask < 1<<len(ops); mask++ {
			v := mk()
			for i, op := range ops {
				if mask&(1<<i) != 0 {
					applyOp(v, op)
				}
			}
			f(v)
		}
		return
	}
	st.SubsetCapHits++
	head, tail := ops[:len(ops)-MaxSubsetOps], ops[len(ops)-MaxSubsetOps:]
	for blk := 0; blk < 2; blk++ {
		for mask := 0; mask < 1<<len(tail); mask++ {
			v := mk()
			if blk == 1 {
				for _, op := range head {
					applyOp(v, op)
				}
			}
			for i, op := range tail {
				if mask&(1<<i) != 0 {
					applyOp(v, op)
				}
			}
			f(v)
		}
	}
}

func viewKey(v map[string]*fnode) string {
	ks := make([]string, 0, len(v))
	for n, x := range v {
		ks = append(ks, fmt.Sprintf("%s=%d", n, x.id))
	}
	sort.Strings(ks)
	return strings.Join(ks, ",")
}

// Outcomes enumerates every power-loss outcome at this point of the trace as seen from watchDir: the path is
// resolved from the root through every allowed durable view of each directory on the way; visit gets the
// durable view of the watched directory (nil, false: the directory itself is not durable in this outcome).
func (m *Full) Outcomes(watchDir string, visit func(view map[string]*fnode, present bool)) Stats {
	st := Stats{ProductStates: 1}
	for _, x := range m.nodes {
		if x.dir && len(x.pending) > 0 {
			f := int64(len(x.pending) + 1)
			if m.V.Unordered {
				if len(x.pending) < 40 {
					f = 1 << len(x.pending)
				} else {
					f = 1 << 40
				}
			}
			if st.ProductStates < 1<<40 {
				st.ProductStates *= f
			}
		}
	}
	cs, ok := m.comps(watchDir)
	if !ok {
		return st
	}
	seen := map[string]bool{}
	var walk func(d *fnode, cs []string)
	walk = func(d *fnode, cs []string) {
		m.views(d, &st, func(v map[string]*fnode) {
			if len(cs) == 0 {
				st.States++
				seen[viewKey(v)] = true
				visit(v, true)
				return
			}
			nx := v[cs[0]]
			if nx == nil || !nx.dir {
				st.States++
				st.WatchAbsent++
				visit(nil, false)
				return
			}
			walk(nx, cs[1:])
		})
	}
	walk(m.rootN, cs)
	st.Views = len(seen)
	return st
}

// ProductViews enumerates the COMPLETE product of per-directory outcomes (every directory with queued
// operations, whether or not it lies on the way to watchDir) and returns the set of distinct views of watchDir
// it produces, or ok=false if the product exceeds limit combinations. Only for ordered variants. It exists to
// confirm by brute force that Outcomes (which walks the directories on the way only) loses nothing.
func (m *Full) ProductViews(watchDir string, limit int64) (views map[string]bool, combos int64, ok bool) {
	if m.V.Unordered {
		return nil, 0, false
	}
	var dirs []*fnode
	combos = 1
	for _, x := range m.nodes {
		if x.dir && len(x.pending) > 0 {
			dirs = append(dirs, x)
			combos *= int64(len(x.pending) + 1)
			if combos > limit {
				return nil, combos, false
			}
		}
	}
	cs, okc := m.comps(watchDir)
	if !okc {
		return nil, 0, false
	}
	views = map[string]bool{}
	choice := map[*fnode]int{}
	viewOf := func(d *fnode) map[string]*fnode {
		v := make(map[string]*fnode, len(d.durable))
		for k, x := range d.durable {
			v[k] = x
		}
		if k, has := choice[d]; has {
			for _, op := range d.pending[:k] {
				applyOp(v, op)
			}
		}
		return v
	}
	var rec func(i int)
	rec = func(i int) {
		if i == len(dirs) {
			d := m.rootN
			for _, c := range cs {
				nx := viewOf(d)[c]
				if nx == nil || !nx.dir {
					views["(absent)"] = true
					return
				}
				d = nx
			}
			views[viewKey(viewOf(d))] = true
			return
		}
		for k := 0; k <= len(dirs[i].pending); k++ {
			choice[dirs[i]] = k
			rec(i + 1)
		}
	}
	rec(0)
	return views, combos, true
}

// CheckCrash evaluates every power-loss outcome at this point of the trace: every name of the watched directory
// matching watch must resolve to a file whose durable content is complete.
func (m *Full) CheckCrash(watchDir string, watch func(name string) bool, afterSeq int64) ([]Finding, Stats) {
	var fs []Finding
	dup := map[string]bool{}
	viewsSeen := map[string]bool{}
	st := m.Outcomes(watchDir, func(v map[string]*fnode, present bool) {
		if !present {
			return
		}
		viewsSeen[viewKey(v)] = true
		for n, x := range v {
			if !watch(n) || x.dir || fcomplete(x) || dup[n] {
				continue
			}
			dup[n] = true
			fs = append(fs, Finding{Class: "truncated-representation", Name: n, AfterSeq: afterSeq,
				Detail: fmt.Sprintf("[%s model] power loss after fs call %d: %s can resolve to a file whose durable content is %d bytes (version %d) but whose written content is %d bytes (version %d, synced=%v)", m.V.Name, afterSeq, n, x.syncLen, x.syncVer, x.len, x.ver, x.everSync)})
		}
	})
	sort.Slice(fs, func(i, j int) bool { return fs[i].Name < fs[j].Name })
	return fs, st
}

// WatchViews returns the distinct views of watchDir over all outcomes ("(absent)" if the directory can be lost).
func (m *Full) WatchViews(watchDir string) map[string]bool {
	out := map[string]bool{}
	m.Outcomes(watchDir, func(v map[string]*fnode, present bool) {
		if !present {
			out["(absent)"] = true
			return
		}
		out[viewKey(v)] = true
	})
	return out
}

// CheckDurable is evaluated when the operation has returned success: every expected name must be present, be
// the file that is live under that name, and be complete in EVERY power-loss outcome.
func (m *Full) CheckDurable(watchDir string, expected []string, afterSeq int64) []Finding {
	var fs []Finding
	dup := map[string]bool{}
	add := func(n, kind, why string) {
		if !dup[n+"/"+kind] {
			dup[n+"/"+kind] = true
			fs = append(fs, Finding{Class: "not-durable-after-success", Name: n, AfterSeq: afterSeq, Detail: "[" + m.V.Name + " model] " + why})
		}
	}
	_, _, wd := m.lookup(watchDir)
	m.Outcomes(watchDir, func(v map[string]*fnode, present bool) {
		for _, n := range expected {
			var live *fnode
			if wd != nil && wd.dir {
				live = wd.live[n]
			}
			switch x := v[n]; {
			case !present:
				add(n, "dir", "after success a power loss can lose the watched directory itself")
			case x == nil:
				add(n, "entry", fmt.Sprintf("after success a power loss can lose the directory entry %s (directory not fsynced after publication)", n))
			case x != live:
				add(n, "stale", fmt.Sprintf("after success a power loss can leave %s pointing at a previous file", n))
			case !fcomplete(x):
				add(n, "data", fmt.Sprintf("after success %s is published but its data is not durable (synced %d of %d bytes)", n, x.syncLen, x.len))
			}
		}
	})
	sort.Slice(fs, func(i, j int) bool { return fs[i].Name+fs[i].Detail < fs[j].Name+fs[j].Detail })
	return fs
}

// Pending returns the number of queued operations over all directories.
func (m *Full) Pending() (n int) {
	for _, x := range m.nodes {
		if x.dir {
			n += len(x.pending)
		}
	}
	return
}
