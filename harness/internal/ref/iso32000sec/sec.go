// Package iso32000sec is a reference implementation of the PDF standard security
// handler, written from the specifications only:
//
//   - ISO 32000-1:2008 §7.6.2 (Algorithm 1), §7.6.3.3/7.6.3.4 (Algorithms 2-7) for
//     revisions 2, 3 and 4 (RC4 40-128 bit, AESV2),
//   - ISO 32000-2:2020 §7.6.3.2 (Algorithm 1.A), §7.6.4.3 (Algorithms 2.A, 2.B),
//     §7.6.4.4 (Algorithms 8-13) for revision 6,
//   - Adobe Supplement to ISO 32000, ExtensionLevel 3, §3.5.2 (Algorithms 3.2a,
//     3.8-3.13) for revision 5: identical to revision 6 with plain SHA-256 in
//     place of Algorithm 2.B,
//   - RFC 4013 (SASLprep) / RFC 3454 (stringprep) for revision 5/6 passwords,
//   - ISO 32000-1 Annex D.2 (PDFDocEncoding) for revision 2-4 passwords.
//
// It imports nothing from the system under test.
package iso32000sec

import (
	"bytes"
	"crypto/aes"
	"crypto/cipher"
	"crypto/md5"
	"crypto/rc4"
	"crypto/sha256"
	"crypto/sha512"
	"errors"
	"fmt"
	"io"
)

// Padding is the 32-byte password padding string of ISO 32000-1 Algorithm 2 step (a).
var Padding = [32]byte{
	0x28, 0xBF, 0x4E, 0x5E, 0x4E, 0x75, 0x8A, 0x41, 0x64, 0x00, 0x4E, 0x56, 0xFF, 0xFA, 0x01, 0x08,
	0x2E, 0x2E, 0x00, 0xB6, 0xD0, 0x68, 0x3E, 0x80, 0x2F, 0x0C, 0xA9, 0xFE, 0x64, 0x53, 0x69, 0x7A,
}

// Params are the inputs of the key algorithms that are not passwords.
type Params struct {
	R, V            int    // /R and /V of the encryption dictionary
	KeyBits         int    // /Length (40..128 for R 2-4; 256 for R 5/6); R 2 always uses 40
	P               int32  // /P
	ID0             []byte // first element of the trailer /ID (R 2-4)
	EncryptMetadata bool   // /EncryptMetadata (default true)
	AES             bool   // crypt filter method is AESV2 / AESV3 (false: RC4 "V2")
}

// Entries are the password-dependent entries of the encryption dictionary.
type Entries struct{ O, U, OE, UE, Perms []byte }

// keyLen is the file key length n in bytes.
func (p Params) keyLen() (int, error) {
	switch p.R {
	case 2:
		return 5, nil
	case 3, 4:
		if p.KeyBits < 40 || p.KeyBits > 128 || p.KeyBits%8 != 0 {
			return 0, fmt.Errorf("iso32000sec: key length %d bits not in 40..128 step 8", p.KeyBits)
		}
		return p.KeyBits / 8, nil
	case 5, 6:
		return 32, nil
	}
	return 0, fmt.Errorf("iso32000sec: unsupported revision %d", p.R)
}

// PadPassword is Algorithm 2 step (a): truncate to 32 bytes or pad with the
// leading bytes of the padding string.
func PadPassword(pw []byte) []byte {
	out := make([]byte, 32)
	n := copy(out, pw)
	copy(out[n:], Padding[:])
	return out
}

func md5sum(parts ...[]byte) []byte {
	h := md5.New()
	for _, p := range parts {
		h.Write(p)
	}
	return h.Sum(nil)
}

func rc4x(key, data []byte) []byte {
	c, err := rc4.NewCipher(key)
	if err != nil {
		panic(err) // key lengths are 5..16 here
	}
	out := make([]byte, len(data))
	c.XORKeyStream(out, data)
	return out
}

func xorKey(key []byte, i int) []byte {
	k := make([]byte, len(key))
	for j := range key {
		k[j] = key[j] ^ byte(i)
	}
	return k
}

// FileKeyR234 is Algorithm 2 (ISO 32000-1): the file encryption key from the
// user password for revisions 2-4. o is the /O entry.
func FileKeyR234(p Params, o, userPW []byte) ([]byte, error) {
	n, err := p.keyLen()
	if err != nil {
		return nil, err
	}
	if p.R > 4 {
		return nil, errors.New("iso32000sec: Algorithm 2 applies to R 2-4")
	}
	if len(o) < 32 {
		return nil, errors.New("iso32000sec: O shorter than 32 bytes")
	}
	up := uint32(p.P)
	parts := [][]byte{
		PadPassword(userPW), // (a),(b)
		o[:32],              // (c)
		{byte(up), byte(up >> 8), byte(up >> 16), byte(up >> 24)}, // (d) low-order byte first
		p.ID0, // (e)
	}
	if p.R >= 4 && !p.EncryptMetadata { // (f)
		parts = append(parts, []byte{0xFF, 0xFF, 0xFF, 0xFF})
	}
	k := md5sum(parts...) // (g)
	if p.R >= 3 {         // (h)
		for i := 0; i < 50; i++ {
			k = md5sum(k[:n])
		}
	}
	return k[:n], nil // (i)
}

// ownerRC4Key is Algorithm 3 steps (a)-(d).
func ownerRC4Key(p Params, ownerPW, userPW []byte) ([]byte, error) {
	n, err := p.keyLen()
	if err != nil {
		return nil, err
	}
	pw := ownerPW
	if len(pw) == 0 { // "If there is no owner password, use the user password instead."
		pw = userPW
	}
	k := md5sum(PadPassword(pw))
	if p.R >= 3 {
		for i := 0; i < 50; i++ {
			k = md5sum(k)
		}
	}
	return k[:n], nil
}

// ComputeO is Algorithm 3: the /O entry for revisions 2-4.
func ComputeO(p Params, userPW, ownerPW []byte) ([]byte, error) {
	key, err := ownerRC4Key(p, ownerPW, userPW)
	if err != nil {
		return nil, err
	}
	o := rc4x(key, PadPassword(userPW)) // (e),(f)
	if p.R >= 3 {                       // (g)
		for i := 1; i <= 19; i++ {
			o = rc4x(xorKey(key, i), o)
		}
	}
	return o, nil
}

// ComputeU is Algorithm 4 (R 2) / Algorithm 5 (R 3, 4): the /U entry from the file
// key. For R >= 3 the trailing 16 bytes are arbitrary padding; zeros are used.
func ComputeU(p Params, fileKey []byte) []byte {
	if p.R == 2 {
		return rc4x(fileKey, Padding[:])
	}
	u := md5sum(Padding[:], p.ID0) // (b),(c)
	u = rc4x(fileKey, u)           // (d)
	for i := 1; i <= 19; i++ {     // (e)
		u = rc4x(xorKey(fileKey, i), u)
	}
	return append(u, make([]byte, 16)...) // (f)
}

// truncate127 is Algorithm 2.A step (b).
func truncate127(pw []byte) []byte {
	if len(pw) > 127 {
		return pw[:127]
	}
	return pw
}

// Hash2B is ISO 32000-2 Algorithm 2.B. input is password || salt [|| U(48)], udata is
// the 48-byte U string when hashing for the owner password and nil otherwise.
//
// The termination rule of steps (e)/(f) is read as every interoperable
// implementation reads it: after round i (counted from 0) stop iff i >= 63 and the
// last byte of E is <= i+1-32.
func Hash2B(pw, input, udata []byte) []byte {
	k0 := sha256.Sum256(input)
	k := k0[:]
	for round := 0; ; round++ {
		// (a)
		seq := make([]byte, 0, len(pw)+len(k)+len(udata))
		seq = append(seq, pw...)
		seq = append(seq, k...)
		seq = append(seq, udata...)
		k1 := bytes.Repeat(seq, 64)
		// (b) AES-128 CBC, no padding, key K[0:16], IV K[16:32]
		blk, _ := aes.NewCipher(k[:16])
		e := make([]byte, len(k1))
		cipher.NewCBCEncrypter(blk, k[16:32]).CryptBlocks(e, k1)
		// (c) first 16 bytes as big-endian integer mod 3; 256 = 1 (mod 3) so the byte sum suffices
		s := 0
		for _, b := range e[:16] {
			s += int(b)
		}
		// (d)
		switch s % 3 {
		case 0:
			h := sha256.Sum256(e)
			k = h[:]
		case 1:
			h := sha512.Sum384(e)
			k = h[:]
		case 2:
			h := sha512.Sum512(e)
			k = h[:]
		}
		// (e),(f)
		if round >= 63 && int(e[len(e)-1]) <= round+1-32 {
			break
		}
	}
	return k[:32]
}

// hash56 is the password hash of revision 5 (SHA-256) or 6 (Algorithm 2.B).
func hash56(r int, pw, salt, udata []byte) []byte {
	in := make([]byte, 0, len(pw)+len(salt)+len(udata))
	in = append(in, pw...)
	in = append(in, salt...)
	in = append(in, udata...)
	if r == 5 {
		h := sha256.Sum256(in)
		return h[:]
	}
	return Hash2B(pw, in, udata)
}

func aes256cbcNoPad(key, in []byte, encrypt bool) []byte {
	blk, err := aes.NewCipher(key)
	if err != nil {
		panic(err)
	}
	out := make([]byte, len(in))
	iv := make([]byte, 16)
	if encrypt {
		cipher.NewCBCEncrypter(blk, iv).CryptBlocks(out, in)
	} else {
		cipher.NewCBCDecrypter(blk, iv).CryptBlocks(out, in)
	}
	return out
}

// PermsPlain is the 16-byte block of Algorithm 10 before encryption; bytes 12-15 come from tail.
func PermsPlain(p Params, tail [4]byte) []byte {
	up := uint32(p.P)
	b := []byte{byte(up), byte(up >> 8), byte(up >> 16), byte(up >> 24), 0xFF, 0xFF, 0xFF, 0xFF, 'F', 'a', 'd', 'b', tail[0], tail[1], tail[2], tail[3]}
	if p.EncryptMetadata {
		b[8] = 'T'
	}
	return b
}

// Compute produces the encryption dictionary entries and the file key.
// R 2-4: deterministic (Algorithms 3, 2, 4/5); rnd is unused and may be nil.
// R 5/6: Algorithms 8, 9, 10 with salts, file key and Perms tail drawn from rnd.
// Passwords are the already prepared bytes (PDFDocEncoding for R 2-4, SASLprep'ed
// UTF-8 for R 5/6); truncation to 32 / 127 bytes happens here.
func Compute(p Params, userPW, ownerPW []byte, rnd io.Reader) (Entries, []byte, error) {
	if _, err := p.keyLen(); err != nil {
		return Entries{}, nil, err
	}
	if p.R <= 4 {
		o, err := ComputeO(p, userPW, ownerPW)
		if err != nil {
			return Entries{}, nil, err
		}
		key, err := FileKeyR234(p, o, userPW)
		if err != nil {
			return Entries{}, nil, err
		}
		return Entries{O: o, U: ComputeU(p, key)}, key, nil
	}
	if rnd == nil {
		return Entries{}, nil, errors.New("iso32000sec: R 5/6 need a random source")
	}
	buf := make([]byte, 16+16+32+4)
	if _, err := io.ReadFull(rnd, buf); err != nil {
		return Entries{}, nil, err
	}
	usalt, osalt, fileKey := buf[0:16], buf[16:32], buf[32:64]
	var tail [4]byte
	copy(tail[:], buf[64:68])
	e := ComputeR56With(p, userPW, ownerPW, usalt, osalt, fileKey, tail)
	return e, append([]byte(nil), fileKey...), nil
}

// ComputeR56With is Algorithms 8, 9 and 10 with all random inputs supplied:
// usalt/osalt are validation salt (8) || key salt (8).
func ComputeR56With(p Params, userPW, ownerPW, usalt, osalt, fileKey []byte, permsTail [4]byte) Entries {
	upw, opw := truncate127(userPW), truncate127(ownerPW)
	var e Entries
	// Algorithm 8
	e.U = append(hash56(p.R, upw, usalt[:8], nil), usalt[:16]...)
	e.UE = aes256cbcNoPad(hash56(p.R, upw, usalt[8:16], nil), fileKey, true)
	// Algorithm 9
	e.O = append(hash56(p.R, opw, osalt[:8], e.U[:48]), osalt[:16]...)
	e.OE = aes256cbcNoPad(hash56(p.R, opw, osalt[8:16], e.U[:48]), fileKey, true)
	// Algorithm 10
	blk, _ := aes.NewCipher(fileKey)
	e.Perms = make([]byte, 16)
	blk.Encrypt(e.Perms, PermsPlain(p, permsTail))
	return e
}

// AuthUser is Algorithm 6 (R 2-4) / Algorithm 11 + 2.A(e) (R 5/6): it reports whether
// pw is the user password and returns the file key if so.
func AuthUser(p Params, e Entries, pw []byte) ([]byte, bool) {
	if p.R <= 4 {
		key, err := FileKeyR234(p, e.O, pw)
		if err != nil || len(e.U) < 32 {
			return nil, false
		}
		u := ComputeU(p, key)
		if p.R == 2 {
			if !bytes.Equal(u, e.U[:32]) {
				return nil, false
			}
		} else if !bytes.Equal(u[:16], e.U[:16]) {
			return nil, false
		}
		return key, true
	}
	if len(e.U) < 48 || len(e.UE) != 32 {
		return nil, false
	}
	pw = truncate127(pw)
	if !bytes.Equal(hash56(p.R, pw, e.U[32:40], nil), e.U[:32]) {
		return nil, false
	}
	return aes256cbcNoPad(hash56(p.R, pw, e.U[40:48], nil), e.UE, false), true
}

// RecoverUserPW is Algorithm 7 steps (a),(b): the padded user password recovered
// from /O with the owner password (R 2-4).
func RecoverUserPW(p Params, e Entries, ownerPW []byte) ([]byte, error) {
	if p.R > 4 {
		return nil, errors.New("iso32000sec: Algorithm 7 applies to R 2-4")
	}
	if len(e.O) < 32 {
		return nil, errors.New("iso32000sec: O shorter than 32 bytes")
	}
	key, err := ownerRC4Key(p, ownerPW, nil)
	if err != nil {
		return nil, err
	}
	if p.R == 2 {
		return rc4x(key, e.O[:32]), nil
	}
	x := append([]byte(nil), e.O[:32]...)
	for i := 19; i >= 0; i-- {
		x = rc4x(xorKey(key, i), x)
	}
	return x, nil
}

// AuthOwner is Algorithm 7 (R 2-4) / Algorithm 12 + 2.A(d) (R 5/6).
func AuthOwner(p Params, e Entries, pw []byte) ([]byte, bool) {
	if p.R <= 4 {
		upw, err := RecoverUserPW(p, e, pw)
		if err != nil {
			return nil, false
		}
		return AuthUser(p, e, upw)
	}
	if len(e.O) < 48 || len(e.U) < 48 || len(e.OE) != 32 {
		return nil, false
	}
	pw = truncate127(pw)
	if !bytes.Equal(hash56(p.R, pw, e.O[32:40], e.U[:48]), e.O[:32]) {
		return nil, false
	}
	return aes256cbcNoPad(hash56(p.R, pw, e.O[40:48], e.U[:48]), e.OE, false), true
}

// DecryptPerms returns the 16 plaintext bytes of /Perms (Algorithm 13 step (a)).
func DecryptPerms(e Entries, fileKey []byte) ([]byte, error) {
	if len(e.Perms) != 16 || len(fileKey) != 32 {
		return nil, errors.New("iso32000sec: Perms must be 16 bytes and the file key 32")
	}
	blk, _ := aes.NewCipher(fileKey)
	out := make([]byte, 16)
	blk.Decrypt(out, e.Perms)
	return out, nil
}

// CheckPerms is Algorithm 13: bytes 9-11 are "adb", bytes 0-3 equal P, and
// (Algorithm 2.A step (f)) byte 8 matches EncryptMetadata.
func CheckPerms(p Params, e Entries, fileKey []byte) bool {
	b, err := DecryptPerms(e, fileKey)
	if err != nil {
		return false
	}
	want := PermsPlain(p, [4]byte{})
	return bytes.Equal(b[9:12], []byte("adb")) && bytes.Equal(b[:4], want[:4]) && b[8] == want[8]
}

// ObjectKey is Algorithm 1 steps (a)-(d) (R 2-4) or Algorithm 1.A (R 5/6: the file
// key itself).
func ObjectKey(fileKey []byte, objNr, gen int, useAES bool, r int) []byte {
	if r >= 5 {
		return fileKey
	}
	parts := [][]byte{fileKey, {byte(objNr), byte(objNr >> 8), byte(objNr >> 16), byte(gen), byte(gen >> 8)}}
	if useAES {
		parts = append(parts, []byte("sAlT"))
	}
	k := md5sum(parts...)
	n := len(fileKey) + 5
	if n > 16 {
		n = 16
	}
	return k[:n]
}

// EncryptBytes encrypts data with an object key: RC4, or AES-CBC with a 16-byte IV
// from rnd stored in front and PKCS#7 padding (ISO 32000-1 §7.6.2).
func EncryptBytes(objKey, data []byte, useAES bool, rnd io.Reader) ([]byte, error) {
	if !useAES {
		c, err := rc4.NewCipher(objKey)
		if err != nil {
			return nil, err
		}
		out := make([]byte, len(data))
		c.XORKeyStream(out, data)
		return out, nil
	}
	blk, err := aes.NewCipher(objKey)
	if err != nil {
		return nil, err
	}
	padLen := 16 - len(data)%16
	plain := make([]byte, 0, len(data)+padLen)
	plain = append(plain, data...)
	plain = append(plain, bytes.Repeat([]byte{byte(padLen)}, padLen)...)
	out := make([]byte, 16+len(plain))
	if rnd == nil {
		return nil, errors.New("iso32000sec: AES needs a random source for the IV")
	}
	if _, err := io.ReadFull(rnd, out[:16]); err != nil {
		return nil, err
	}
	cipher.NewCBCEncrypter(blk, out[:16]).CryptBlocks(out[16:], plain)
	return out, nil
}

// ErrPadding reports AES ciphertext whose PKCS#7 padding is malformed.
var ErrPadding = errors.New("iso32000sec: bad AES padding")

// DecryptBytes is the inverse of EncryptBytes. AES ciphertext must be IV + at least
// one block, block aligned, with well-formed padding.
func DecryptBytes(objKey, data []byte, useAES bool) ([]byte, error) {
	if !useAES {
		return EncryptBytes(objKey, data, false, nil)
	}
	if len(data) < 32 || len(data)%16 != 0 {
		return nil, fmt.Errorf("iso32000sec: AES ciphertext length %d", len(data))
	}
	blk, err := aes.NewCipher(objKey)
	if err != nil {
		return nil, err
	}
	out := make([]byte, len(data)-16)
	cipher.NewCBCDecrypter(blk, data[:16]).CryptBlocks(out, data[16:])
	n := int(out[len(out)-1])
	if n < 1 || n > 16 {
		return nil, ErrPadding
	}
	for _, b := range out[len(out)-n:] {
		if int(b) != n {
			return nil, ErrPadding
		}
	}
	return out[:len(out)-n], nil
}

// Handler applies a file key to strings and streams of a document. It has the
// method sets that internal/pdfstrict (Decrypt*) and internal/pdfgen (Encrypt*)
// expect of a security handler.
type Handler struct {
	R       int
	FileKey []byte
	StrAES  bool      // /StrF method is AESV2/AESV3
	StmAES  bool      // /StmF method is AESV2/AESV3
	Rand    io.Reader // IV source for encryption
	// SkipStream, if set, is asked for every stream dict; true leaves the stream
	// as is (e.g. /Type /Metadata when EncryptMetadata is false, or /Type /XRef).
	SkipStream func(dict any) bool
}

// NewHandler returns a Handler using one method for strings and streams.
func NewHandler(p Params, fileKey []byte, rnd io.Reader) *Handler {
	return &Handler{R: p.R, FileKey: fileKey, StrAES: p.AES, StmAES: p.AES, Rand: rnd}
}

func (h *Handler) DecryptString(objNr, gen int, b []byte) ([]byte, error) {
	return DecryptBytes(ObjectKey(h.FileKey, objNr, gen, h.StrAES, h.R), b, h.StrAES)
}

// DecryptStreamBytes decrypts stream data (before any filter is removed).
func (h *Handler) DecryptStreamBytes(objNr, gen int, b []byte) ([]byte, error) {
	return DecryptBytes(ObjectKey(h.FileKey, objNr, gen, h.StmAES, h.R), b, h.StmAES)
}

func (h *Handler) DecryptStream(objNr, gen int, dict any, b []byte) ([]byte, error) {
	if h.SkipStream != nil && h.SkipStream(dict) {
		return b, nil
	}
	return h.DecryptStreamBytes(objNr, gen, b)
}

func (h *Handler) EncryptString(objNr, gen int, b []byte) []byte {
	out, err := EncryptBytes(ObjectKey(h.FileKey, objNr, gen, h.StrAES, h.R), b, h.StrAES, h.Rand)
	if err != nil {
		panic(err)
	}
	return out
}

// EncryptStreamBytes encrypts stream data (after all filters were applied).
func (h *Handler) EncryptStreamBytes(objNr, gen int, b []byte) []byte {
	out, err := EncryptBytes(ObjectKey(h.FileKey, objNr, gen, h.StmAES, h.R), b, h.StmAES, h.Rand)
	if err != nil {
		panic(err)
	}
	return out
}

func (h *Handler) EncryptStream(objNr, gen int, dict any, b []byte) []byte {
	if h.SkipStream != nil && h.SkipStream(dict) {
		return b
	}
	return h.EncryptStreamBytes(objNr, gen, b)
}
