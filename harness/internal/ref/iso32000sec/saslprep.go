package iso32000sec

import (
	"errors"
	"fmt"
	"unicode/utf8"

	"golang.org/x/text/unicode/bidi"
	"golang.org/x/text/unicode/norm"
)

// RFC 3454 tables (code point ranges, inclusive), transcribed from the RFC.

type rng struct{ lo, hi rune }

func in(t []rng, r rune) bool {
	for _, x := range t {
		if r >= x.lo && r <= x.hi {
			return true
		}
	}
	return false
}

var (
	// B.1 Commonly mapped to nothing
	tableB1 = []rng{{0x00AD, 0x00AD}, {0x034F, 0x034F}, {0x1806, 0x1806}, {0x180B, 0x180D}, {0x200B, 0x200D}, {0x2060, 0x2060}, {0xFE00, 0xFE0F}, {0xFEFF, 0xFEFF}}
	// C.1.2 Non-ASCII space characters
	tableC12 = []rng{{0x00A0, 0x00A0}, {0x1680, 0x1680}, {0x2000, 0x200B}, {0x202F, 0x202F}, {0x205F, 0x205F}, {0x3000, 0x3000}}
	// C.2.1 ASCII control characters
	tableC21 = []rng{{0x0000, 0x001F}, {0x007F, 0x007F}}
	// C.2.2 Non-ASCII control characters
	tableC22 = []rng{{0x0080, 0x009F}, {0x06DD, 0x06DD}, {0x070F, 0x070F}, {0x180E, 0x180E}, {0x200C, 0x200D}, {0x2028, 0x2029}, {0x2060, 0x2063}, {0x206A, 0x206F}, {0xFEFF, 0xFEFF}, {0xFFF9, 0xFFFC}, {0x1D173, 0x1D17A}}
	// C.3 Private use
	tableC3 = []rng{{0xE000, 0xF8FF}, {0xF0000, 0xFFFFD}, {0x100000, 0x10FFFD}}
	// C.4 Non-character code points
	tableC4 = []rng{{0xFDD0, 0xFDEF}, {0xFFFE, 0xFFFF}, {0x1FFFE, 0x1FFFF}, {0x2FFFE, 0x2FFFF}, {0x3FFFE, 0x3FFFF}, {0x4FFFE, 0x4FFFF}, {0x5FFFE, 0x5FFFF}, {0x6FFFE, 0x6FFFF}, {0x7FFFE, 0x7FFFF}, {0x8FFFE, 0x8FFFF}, {0x9FFFE, 0x9FFFF}, {0xAFFFE, 0xAFFFF}, {0xBFFFE, 0xBFFFF}, {0xCFFFE, 0xCFFFF}, {0xDFFFE, 0xDFFFF}, {0xEFFFE, 0xEFFFF}, {0xFFFFE, 0xFFFFF}, {0x10FFFE, 0x10FFFF}}
	// C.5 Surrogate codes
	tableC5 = []rng{{0xD800, 0xDFFF}}
	// C.6 Inappropriate for plain text
	tableC6 = []rng{{0xFFF9, 0xFFFD}}
	// C.7 Inappropriate for canonical representation
	tableC7 = []rng{{0x2FF0, 0x2FFB}}
	// C.8 Change display properties or are deprecated
	tableC8 = []rng{{0x0340, 0x0341}, {0x200E, 0x200F}, {0x202A, 0x202E}, {0x206A, 0x206F}}
	// C.9 Tagging characters
	tableC9 = []rng{{0xE0001, 0xE0001}, {0xE0020, 0xE007F}}
)

// ProhibitedTable names the RFC 3454 table that prohibits r in SASLprep output
// (RFC 4013 §2.3), or "" if r is not prohibited.
func ProhibitedTable(r rune) string {
	for _, t := range []struct {
		name string
		tab  []rng
	}{
		{"C.1.2", tableC12}, {"C.2.1", tableC21}, {"C.2.2", tableC22}, {"C.3", tableC3}, {"C.4", tableC4},
		{"C.5", tableC5}, {"C.6", tableC6}, {"C.7", tableC7}, {"C.8", tableC8}, {"C.9", tableC9},
	} {
		if in(t.tab, r) {
			return t.name
		}
	}
	return ""
}

// MapsToNothing reports membership in RFC 3454 table B.1.
func MapsToNothing(r rune) bool { return in(tableB1, r) }

// NonASCIISpace reports membership in RFC 3454 table C.1.2.
func NonASCIISpace(r rune) bool { return in(tableC12, r) }

// ErrProhibited and ErrBidi classify SASLprep failures.
var (
	ErrProhibited = errors.New("saslprep: prohibited code point")
	ErrBidi       = errors.New("saslprep: bidi rule violated")
	ErrInvalidUTF = errors.New("saslprep: invalid UTF-8")
)

// SASLprep applies RFC 4013 to s: map (C.1.2 -> U+0020, B.1 -> nothing), normalise
// (NFKC), reject prohibited output (C.1.2, C.2.1-C.9), check bidi (RFC 3454 §6).
//
// Not covered (callers must not rely on them): the "unassigned in Unicode 3.2"
// table A.1 (ignored, as for stringprep queries), and differences between Unicode
// 3.2 NFKC / bidi classes and those of the x/text version in use. U+200B is in both
// B.1 and C.1.2; B.1 is applied (it disappears).
func SASLprep(s string) (string, error) {
	if !utf8.ValidString(s) {
		return "", ErrInvalidUTF
	}
	// 2.1 Mapping
	mapped := make([]rune, 0, len(s))
	for _, r := range s {
		switch {
		case MapsToNothing(r):
		case NonASCIISpace(r):
			mapped = append(mapped, ' ')
		default:
			mapped = append(mapped, r)
		}
	}
	// 2.2 Normalization
	out := norm.NFKC.String(string(mapped))
	// 2.3 Prohibited output, 2.4 bidi
	var hasRandAL, hasL bool
	var first, last bidi.Class
	n := 0
	for _, r := range out {
		if t := ProhibitedTable(r); t != "" {
			return "", fmt.Errorf("%w: U+%04X (table %s)", ErrProhibited, r, t)
		}
		p, _ := bidi.LookupRune(r)
		c := p.Class()
		if c == bidi.R || c == bidi.AL {
			hasRandAL = true
		}
		if c == bidi.L {
			hasL = true
		}
		if n == 0 {
			first = c
		}
		last = c
		n++
	}
	if hasRandAL {
		if hasL {
			return "", fmt.Errorf("%w: RandALCat and LCat mixed", ErrBidi)
		}
		isRandAL := func(c bidi.Class) bool { return c == bidi.R || c == bidi.AL }
		if !isRandAL(first) || !isRandAL(last) {
			return "", fmt.Errorf("%w: RandALCat string must start and end with RandALCat", ErrBidi)
		}
	}
	return out, nil
}

// PrepareR56 is the password preparation of ISO 32000-2 Algorithm 2.A steps (a),(b):
// SASLprep, UTF-8, truncation to 127 bytes.
func PrepareR56(password string) ([]byte, error) {
	s, err := SASLprep(password)
	if err != nil {
		return nil, err
	}
	return truncate127([]byte(s)), nil
}

// pdfDocHigh maps PDFDocEncoding bytes 0x18-0x1F and 0x80-0xA0 to Unicode (ISO 32000-1 Annex D.2).
var pdfDocHigh = map[byte]rune{
	0x18: 0x02D8, 0x19: 0x02C7, 0x1A: 0x02C6, 0x1B: 0x02D9, 0x1C: 0x02DD, 0x1D: 0x02DB, 0x1E: 0x02DA, 0x1F: 0x02DC,
	0x80: 0x2022, 0x81: 0x2020, 0x82: 0x2021, 0x83: 0x2026, 0x84: 0x2014, 0x85: 0x2013, 0x86: 0x0192, 0x87: 0x2044,
	0x88: 0x2039, 0x89: 0x203A, 0x8A: 0x2212, 0x8B: 0x2030, 0x8C: 0x201E, 0x8D: 0x201C, 0x8E: 0x201D, 0x8F: 0x2018,
	0x90: 0x2019, 0x91: 0x201A, 0x92: 0x2122, 0x93: 0xFB01, 0x94: 0xFB02, 0x95: 0x0141, 0x96: 0x0152, 0x97: 0x0160,
	0x98: 0x0178, 0x99: 0x017D, 0x9A: 0x0131, 0x9B: 0x0142, 0x9C: 0x0153, 0x9D: 0x0161, 0x9E: 0x017E, 0xA0: 0x20AC,
}

var pdfDocFromRune = func() map[rune]byte {
	m := map[rune]byte{}
	for b, r := range pdfDocHigh {
		m[r] = b
	}
	for r := rune(0x20); r <= 0x7E; r++ {
		m[r] = byte(r)
	}
	for _, r := range []rune{0x09, 0x0A, 0x0D} {
		m[r] = byte(r)
	}
	for r := rune(0xA1); r <= 0xFF; r++ {
		if r != 0xAD {
			m[r] = byte(r)
		}
	}
	return m
}()

// PDFDocEncode converts s to PDFDocEncoding (the form of R 2-4 passwords); ok is
// false if s contains a character outside PDFDocEncoding.
func PDFDocEncode(s string) ([]byte, bool) {
	out := make([]byte, 0, len(s))
	for _, r := range s {
		b, ok := pdfDocFromRune[r]
		if !ok {
			return nil, false
		}
		out = append(out, b)
	}
	return out, true
}
