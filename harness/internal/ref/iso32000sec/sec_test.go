package iso32000sec

import (
	"bytes"
	"encoding/hex"
	"encoding/json"
	"errors"
	"math/rand/v2"
	"os"
	"testing"
)

type detRand struct{ r *rand.Rand }

func (d detRand) Read(p []byte) (int, error) {
	for i := range p {
		p[i] = byte(d.r.Uint32())
	}
	return len(p), nil
}

func newRand(seed uint64) detRand { return detRand{rand.New(rand.NewPCG(seed, 99))} }

func unhex(t *testing.T, s string) []byte {
	b, err := hex.DecodeString(s)
	if err != nil {
		t.Fatal(err)
	}
	return b
}

// Known answers produced by testdata/gen_kat.py: a second implementation in Python
// (hashlib, hand-written RC4, openssl CLI for AES) written separately from this package.
func TestKnownAnswersSecondImplementation(t *testing.T) {
	raw, err := os.ReadFile("testdata/kat.json")
	if err != nil {
		t.Fatal(err)
	}
	var vs []map[string]any
	if err := json.Unmarshal(raw, &vs); err != nil {
		t.Fatal(err)
	}
	n := 0
	for i, v := range vs {
		s := func(k string) string { x, _ := v[k].(string); return x }
		if ok, has := v["objkey"]; has {
			got := ObjectKey(unhex(t, s("key")), int(v["obj"].(float64)), int(v["gen"].(float64)), v["aes"].(bool), 4)
			if hex.EncodeToString(got) != ok.(string) {
				t.Errorf("vector %d: object key %x want %s", i, got, ok)
			}
			n++
			continue
		}
		p := Params{R: int(v["R"].(float64)), P: int32(v["P"].(float64)), EncryptMetadata: v["emd"].(bool)}
		upw, opw := unhex(t, s("upw")), unhex(t, s("opw"))
		if p.R <= 4 {
			p.KeyBits = int(v["bits"].(float64))
			p.ID0 = unhex(t, s("id0"))
			e, key, err := Compute(p, upw, opw, nil)
			if err != nil {
				t.Fatal(err)
			}
			if hex.EncodeToString(e.O) != s("O") || hex.EncodeToString(key) != s("key") {
				t.Errorf("vector %d (R%d): O/key mismatch", i, p.R)
			}
			wantU := unhex(t, s("U"))
			if p.R == 2 && !bytes.Equal(e.U, wantU) || !bytes.Equal(e.U[:16], wantU[:16]) {
				t.Errorf("vector %d (R%d): U mismatch", i, p.R)
			}
		} else {
			p.KeyBits = 256
			e := ComputeR56With(p, upw, opw, seq(0x10, 16), seq(0x30, 16), seq(0, 32), [4]byte{'W', 'X', 'Y', 'Z'})
			for name, got := range map[string][]byte{"U": e.U, "UE": e.UE, "O": e.O, "OE": e.OE, "Perms": e.Perms} {
				if hex.EncodeToString(got) != s(name) {
					t.Errorf("vector %d (R%d): %s = %x want %s", i, p.R, name, got, s(name))
				}
			}
			if k, ok := AuthUser(p, e, upw); !ok || !bytes.Equal(k, seq(0, 32)) {
				t.Errorf("vector %d: AuthUser", i)
			}
			if k, ok := AuthOwner(p, e, opw); !ok || !bytes.Equal(k, seq(0, 32)) {
				t.Errorf("vector %d: AuthOwner", i)
			}
		}
		n++
	}
	if n < 12 {
		t.Fatalf("only %d vectors", n)
	}
}

func seq(from, n int) []byte {
	b := make([]byte, n)
	for i := range b {
		b[i] = byte(from + i)
	}
	return b
}

func TestInternalConsistency(t *testing.T) {
	rng := rand.New(rand.NewPCG(7, 7))
	rb := func(n int) []byte {
		b := make([]byte, n)
		for i := range b {
			b[i] = byte(rng.Uint32())
		}
		return b
	}
	for iter := 0; iter < 400; iter++ {
		r := 2 + rng.IntN(5)
		p := Params{R: r, P: int32(rng.Uint32()), ID0: rb(16), EncryptMetadata: rng.IntN(2) == 0, AES: r >= 4 && rng.IntN(2) == 0}
		switch r {
		case 2:
			p.KeyBits = 40
		case 3, 4:
			p.KeyBits = 40 + 8*rng.IntN(12)
		default:
			p.KeyBits, p.AES = 256, true
		}
		upw, opw := rb(rng.IntN(40)), rb(1+rng.IntN(40))
		if bytes.Equal(PadPassword(upw), PadPassword(opw)) {
			continue
		}
		e, key, err := Compute(p, upw, opw, newRand(uint64(iter)))
		if err != nil {
			t.Fatal(err)
		}
		if k, ok := AuthUser(p, e, upw); !ok || !bytes.Equal(k, key) {
			t.Fatalf("R%d: user pw does not authenticate", r)
		}
		if k, ok := AuthOwner(p, e, opw); !ok || !bytes.Equal(k, key) {
			t.Fatalf("R%d: owner pw does not authenticate", r)
		}
		wrong := append(append([]byte(nil), upw...), 'x')
		if len(wrong) > 32 && r <= 4 {
			wrong[0] ^= 1
		}
		if _, ok := AuthUser(p, e, wrong); ok {
			t.Fatalf("R%d: wrong user pw authenticates", r)
		}
		if _, ok := AuthOwner(p, e, wrong); ok {
			t.Fatalf("R%d: wrong owner pw authenticates", r)
		}
		if _, ok := AuthUser(p, e, opw); ok {
			t.Fatalf("R%d: owner pw authenticates as user", r)
		}
		if r <= 4 {
			got, _ := RecoverUserPW(p, e, opw)
			if !bytes.Equal(got, PadPassword(upw)) {
				t.Fatalf("R%d: owner pw does not recover the padded user pw", r)
			}
			// bytes beyond 32 are insignificant
			if len(upw) >= 32 {
				long := append(append([]byte(nil), upw...), "tail"...)
				if _, ok := AuthUser(p, e, long); !ok {
					t.Fatalf("R%d: password differing after byte 32 rejected", r)
				}
			}
		} else {
			if !CheckPerms(p, e, key) {
				t.Fatalf("R%d: Perms do not validate", r)
			}
			q := p
			q.P ^= 4
			if CheckPerms(q, e, key) {
				t.Fatalf("R%d: Perms validate for a different P", r)
			}
			q = p
			q.EncryptMetadata = !p.EncryptMetadata
			if CheckPerms(q, e, key) {
				t.Fatalf("R%d: Perms validate for a different EncryptMetadata", r)
			}
		}
		// object encryption round trip
		for _, useAES := range []bool{false, true} {
			if r >= 5 && !useAES {
				continue
			}
			if useAES && (r < 4 || r == 4 && p.KeyBits != 128) { // AESV2 is defined for 128-bit keys only
				continue
			}
			h := &Handler{R: r, FileKey: key, StrAES: useAES, StmAES: useAES, Rand: newRand(uint64(iter))}
			data := rb(rng.IntN(70))
			obj, gen := rng.IntN(1<<23), rng.IntN(65536)
			if got, err := h.DecryptString(obj, gen, h.EncryptString(obj, gen, data)); err != nil || !bytes.Equal(got, data) {
				t.Fatalf("R%d aes=%v: string round trip: %v", r, useAES, err)
			}
			if got, err := h.DecryptStream(obj, gen, nil, h.EncryptStream(obj, gen, nil, data)); err != nil || !bytes.Equal(got, data) {
				t.Fatalf("R%d aes=%v: stream round trip: %v", r, useAES, err)
			}
			if useAES {
				ct := h.EncryptString(obj, gen, data)
				if len(ct) != 16+(len(data)/16+1)*16 {
					t.Fatalf("AES ciphertext length %d for %d bytes", len(ct), len(data))
				}
				if _, err := DecryptBytes(ObjectKey(key, obj, gen, true, r), ct[:len(ct)-1], true); err == nil {
					t.Fatal("unaligned AES ciphertext accepted")
				}
			}
		}
	}
}

func TestR56Truncation127(t *testing.T) {
	for _, r := range []int{5, 6} {
		p := Params{R: r, KeyBits: 256, P: -4, EncryptMetadata: true, AES: true}
		base := bytes.Repeat([]byte("a"), 127)
		e, _, _ := Compute(p, append(append([]byte(nil), base...), "XYZ"...), []byte("o"), newRand(1))
		if _, ok := AuthUser(p, e, append(append([]byte(nil), base...), "other"...)); !ok {
			t.Fatalf("R%d: passwords equal in the first 127 bytes must authenticate", r)
		}
		if _, ok := AuthUser(p, e, base[:126]); ok {
			t.Fatalf("R%d: 126-byte prefix authenticates", r)
		}
	}
}

// RFC 4013 §3 examples (published vectors).
func TestSASLprepRFC4013Examples(t *testing.T) {
	for _, c := range []struct{ in, out string }{
		{"I­X", "IX"}, {"user", "user"}, {"USER", "USER"}, {"ª", "a"}, {"Ⅸ", "IX"},
	} {
		got, err := SASLprep(c.in)
		if err != nil || got != c.out {
			t.Errorf("SASLprep(%q) = %q, %v; want %q", c.in, got, err, c.out)
		}
	}
	if _, err := SASLprep("\u0007"); !errors.Is(err, ErrProhibited) {
		t.Errorf("U+0007: %v", err)
	}
	if _, err := SASLprep("ا1"); !errors.Is(err, ErrBidi) {
		t.Errorf("U+0627 U+0031: %v", err)
	}
}

func TestSASLprepTables(t *testing.T) {
	// mapping
	for _, r := range []rune{0x00A0, 0x1680, 0x2000, 0x2001, 0x200A, 0x202F, 0x205F, 0x3000} {
		if got, err := SASLprep("a" + string(r) + "b"); err != nil || got != "a b" {
			t.Errorf("U+%04X: %q %v", r, got, err)
		}
	}
	for _, r := range []rune{0x00AD, 0x034F, 0x1806, 0x180B, 0x180C, 0x180D, 0x200C, 0x200D, 0x2060, 0xFE00, 0xFE0F, 0xFEFF} {
		if got, err := SASLprep("a" + string(r) + "b"); err != nil || got != "ab" {
			t.Errorf("B.1 U+%04X: %q %v", r, got, err)
		}
	}
	// prohibited
	for _, r := range []rune{0x00, 0x1F, 0x7F, 0x80, 0x9F, 0x06DD, 0x070F, 0x180E, 0x2028, 0x2029, 0x2061, 0x206A, 0xFFF9, 0xFFFC, 0x1D173,
		0xE000, 0xF8FF, 0xF0000, 0x10FFFD, 0xFDD0, 0xFDEF, 0xFFFE, 0xFFFF, 0x1FFFE, 0x10FFFF, 0xFFFD, 0x2FF0, 0x2FFB,
		0x200E, 0x200F, 0x202A, 0x202E, 0xE0001, 0xE0020, 0xE007F} {
		if _, err := SASLprep("a" + string(r) + "b"); !errors.Is(err, ErrProhibited) {
			t.Errorf("prohibited U+%04X: %v", r, err)
		}
	}
	// C.8 U+0340/U+0341 never survive NFKC (canonical singletons to U+0300/U+0301): the check is on the output
	if got, err := SASLprep("a\u0340"); err != nil || got != "\u00e0" {
		t.Errorf("U+0340: %q %v", got, err)
	}
	// not prohibited, unchanged
	for _, s := range []string{"", " ", "a b", "pässwörd", "é", "€uro", "£", "日本語", "אב", "اب", "א1ב"} {
		if got, err := SASLprep(s); err != nil || got != s {
			t.Errorf("%q: %q %v", s, got, err)
		}
	}
	// NFKC
	for in, out := range map[string]string{"é": "é", "ﬁ": "fi", "Ａ": "A", "①": "1", "Å": "Å"} {
		if got, err := SASLprep(in); err != nil || got != out {
			t.Errorf("%q: %q %v want %q", in, got, err, out)
		}
	}
	// bidi
	for _, s := range []string{"אa", "aא", "אב1", "1א"} {
		if _, err := SASLprep(s); !errors.Is(err, ErrBidi) {
			t.Errorf("bidi %q: %v", s, err)
		}
	}
	if _, err := SASLprep("a\xffb"); !errors.Is(err, ErrInvalidUTF) {
		t.Error("invalid UTF-8 accepted")
	}
}

func TestPDFDocEncode(t *testing.T) {
	b, ok := PDFDocEncode("Aé€•ﬁ~")
	if !ok || !bytes.Equal(b, []byte{'A', 0xE9, 0xA0, 0x80, 0x93, '~'}) {
		t.Errorf("%x %v", b, ok)
	}
	for _, s := range []string{"­", "日", "\u007f", "Ā"} {
		if _, ok := PDFDocEncode(s); ok {
			t.Errorf("%q encodable", s)
		}
	}
}

func TestPadding(t *testing.T) {
	if got := PadPassword(nil); !bytes.Equal(got, Padding[:]) {
		t.Error("empty password must pad to the padding string")
	}
	if got := PadPassword([]byte("ab")); !bytes.Equal(got[:2], []byte("ab")) || !bytes.Equal(got[2:], Padding[:30]) {
		t.Error("padding must start at the beginning of the padding string")
	}
	long := bytes.Repeat([]byte{'z'}, 40)
	if got := PadPassword(long); !bytes.Equal(got, long[:32]) {
		t.Error("truncate to 32")
	}
}
