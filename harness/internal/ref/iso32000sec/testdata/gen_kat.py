#!/usr/bin/env python3
# Second, independently written implementation (Python hashlib + hand-written RC4 + openssl CLI
# for AES) of the ISO 32000 key algorithms; prints the known-answer vectors used in kat_test.go.
import hashlib, subprocess, struct, json

PAD = bytes.fromhex("28BF4E5E4E758A4164004E56FFFA01082E2E00B6D0683E802F0CA9FE6453697A")

def rc4(key, data):
    S = list(range(256)); j = 0
    for i in range(256):
        j = (j + S[i] + key[i % len(key)]) & 255
        S[i], S[j] = S[j], S[i]
    i = j = 0; out = bytearray()
    for b in data:
        i = (i + 1) & 255; j = (j + S[i]) & 255
        S[i], S[j] = S[j], S[i]
        out.append(b ^ S[(S[i] + S[j]) & 255])
    return bytes(out)

def aes(mode, key, iv, data, dec=False):
    cmd = ["openssl", "enc", "-" + mode, "-K", key.hex(), "-nopad"]
    if iv is not None: cmd += ["-iv", iv.hex()]
    if dec: cmd.append("-d")
    return subprocess.run(cmd, input=data, capture_output=True, check=True).stdout

def padpw(pw): return (pw + PAD)[:32]

def alg3_O(R, n, upw, opw):
    k = hashlib.md5(padpw(opw if opw else upw)).digest()
    if R >= 3:
        for _ in range(50): k = hashlib.md5(k).digest()
    k = k[:n]
    o = rc4(k, padpw(upw))
    if R >= 3:
        for i in range(1, 20): o = rc4(bytes(b ^ i for b in k), o)
    return o

def alg2_key(R, n, upw, O, P, ID0, emd):
    m = hashlib.md5(padpw(upw) + O + struct.pack("<I", P & 0xFFFFFFFF) + ID0)
    if R >= 4 and not emd: m.update(b"\xff\xff\xff\xff")
    k = m.digest()
    if R >= 3:
        for _ in range(50): k = hashlib.md5(k[:n]).digest()
    return k[:n]

def alg45_U(R, key, ID0):
    if R == 2: return rc4(key, PAD)
    u = rc4(key, hashlib.md5(PAD + ID0).digest())
    for i in range(1, 20): u = rc4(bytes(b ^ i for b in key), u)
    return u + bytes(16)

def alg2B(pw, inp, udata):
    K = hashlib.sha256(inp).digest()
    i = 0
    while True:
        K1 = (pw + K + udata) * 64
        E = aes("aes-128-cbc", K[:16], K[16:32], K1)
        m = int.from_bytes(E[:16], "big") % 3
        K = [hashlib.sha256, hashlib.sha384, hashlib.sha512][m](E).digest()
        i += 1
        if i >= 64 and E[-1] <= i - 32: break
    return K[:32]

def h56(R, pw, salt, udata):
    return hashlib.sha256(pw + salt + udata).digest() if R == 5 else alg2B(pw, pw + salt + udata, udata)

def r56(R, upw, opw, usalt, osalt, fkey, P, emd, tail):
    U = h56(R, upw, usalt[:8], b"") + usalt
    UE = aes("aes-256-cbc", h56(R, upw, usalt[8:], b""), bytes(16), fkey)
    O = h56(R, opw, osalt[:8], U) + osalt
    OE = aes("aes-256-cbc", h56(R, opw, osalt[8:], U), bytes(16), fkey)
    perms = struct.pack("<I", P & 0xFFFFFFFF) + b"\xff" * 4 + (b"T" if emd else b"F") + b"adb" + tail
    return dict(U=U.hex(), UE=UE.hex(), O=O.hex(), OE=OE.hex(), Perms=aes("aes-256-ecb", fkey, None, perms).hex())

out = []
ID0 = bytes.fromhex("00112233445566778899aabbccddeeff")
for (R, bits, upw, opw, P, emd) in [
    (2, 40, b"user", b"owner", -64, True),
    (2, 40, b"", b"o", -4, True),
    (3, 128, b"user", b"owner", -3904, True),
    (3, 56, b"u" * 40, b"", -1, True),
    (4, 128, b"\xe9t\xe9", b"ma\xeetre", -1340, True),
    (4, 128, b"user", b"owner", -1340, False),
]:
    n = 5 if R == 2 else bits // 8
    O = alg3_O(R, n, upw, opw)
    key = alg2_key(R, n, upw, O, P, ID0, emd)
    U = alg45_U(R, key, ID0)
    out.append(dict(R=R, bits=bits, upw=upw.hex(), opw=opw.hex(), P=P, emd=emd, id0=ID0.hex(), O=O.hex(), U=U.hex(), key=key.hex()))
fkey = bytes(range(32))
for (R, upw, opw, P, emd) in [
    (5, b"user", b"owner", -3904, True),
    (6, b"user", b"owner", -3904, True),
    (6, b"", "pässwörd".encode(), -1, False),
    (6, b"x" * 127, b"y" * 127, -4, True),
]:
    d = r56(R, upw, opw, bytes(range(0x10, 0x20)), bytes(range(0x30, 0x40)), fkey, P, emd, b"WXYZ")
    d.update(R=R, upw=upw.hex(), opw=opw.hex(), P=P, emd=emd, key=fkey.hex())
    out.append(d)
# Algorithm 1 object keys
for (key, obj, gen, a) in [(bytes(range(5)), 1, 0, False), (bytes(range(16)), 0x123456, 0x789A, False), (bytes(range(16)), 7, 1, True), (bytes(range(9)), 8388608, 65535, True)]:
    m = hashlib.md5(key + struct.pack("<I", obj)[:3] + struct.pack("<H", gen) + (b"sAlT" if a else b"")).digest()
    out.append(dict(objkey=m[:min(len(key) + 5, 16)].hex(), key=key.hex(), obj=obj, gen=gen, aes=a))
print(json.dumps(out, indent=1))
