// Package ipclass is an independent classification of IP addresses into the special-purpose
// classes that property C30 names, written from the RFC texts and deliberately NOT from
// net.IP.IsPrivate / IsLoopback / ... (those are what pdfcpu's guard uses; an oracle that
// called them would agree with the guard by construction).
//
// Sources:
//
//	loopback     127.0.0.0/8 (RFC 1122 §3.2.1.3, RFC 6890 table 4); ::1/128 (RFC 4291 §2.5.3)
//	private      10.0.0.0/8, 172.16.0.0/12, 192.168.0.0/16 (RFC 1918 §3); fc00::/7 (RFC 4193 §3.1)
//	link-local   169.254.0.0/16 (RFC 3927 §2.1); fe80::/10 (RFC 4291 §2.5.6)
//	multicast    224.0.0.0/4 (RFC 5771 / RFC 1112 §4); ff00::/8 (RFC 4291 §2.7)
//	unspecified  0.0.0.0 (RFC 1122 §3.2.1.3 {0,0}); :: (RFC 4291 §2.5.2)
//	IPv4-mapped  ::ffff:a.b.c.d (RFC 4291 §2.5.5.2) — classified by the embedded IPv4 address
//
// Classes that exist in RFC 6890 / 5735 but which the property text does not name are reported
// separately (Forbidden() is false for them), so that a worker can count them without demanding
// more than the property promises: 100.64.0.0/10 (RFC 6598), 0.0.0.0/8 other than 0.0.0.0,
// 255.255.255.255, 240.0.0.0/4, IPv4-compatible ::a.b.c.d (RFC 4291 §2.5.5.1, deprecated),
// NAT64 64:ff9b::/96 (RFC 6052), 6to4 2002::/16 (RFC 3056).
package ipclass

import (
	"net/netip"
	"strings"
)

// Class of an address.
type Class string

const (
	Public      Class = "public"
	Loopback    Class = "loopback"
	Private     Class = "private"
	LinkLocal   Class = "linklocal"
	Multicast   Class = "multicast"
	Unspecified Class = "unspecified"
	// not named by the property:
	CGNAT       Class = "cgnat"
	ThisNetwork Class = "thisnet"
	Broadcast   Class = "broadcast"
	Reserved    Class = "reserved240"
	V4Compat    Class = "v4compat"
	NAT64       Class = "nat64"
	SixToFour   Class = "6to4"
	Invalid     Class = "invalid"
)

// Forbidden reports whether the property text forbids connecting to an address of class c
// (for a host that is not allow-listed).
func Forbidden(c Class) bool {
	switch c {
	case Loopback, Private, LinkLocal, Multicast, Unspecified:
		return true
	}
	return false
}

// Info is the result of Classify.
type Info struct {
	Class  Class
	Mapped bool // the address was an IPv4-mapped IPv6 address; Class is that of the embedded IPv4
}

// Classify4 classifies the IPv4 address a.b.c.d.
func Classify4(a, b, c, d byte) Class {
	switch {
	case a == 0 && b == 0 && c == 0 && d == 0:
		return Unspecified
	case a == 0:
		return ThisNetwork
	case a == 127:
		return Loopback
	case a == 10:
		return Private
	case a == 172 && b&0xf0 == 16: // 172.16.0.0 – 172.31.255.255
		return Private
	case a == 192 && b == 168:
		return Private
	case a == 169 && b == 254:
		return LinkLocal
	case a&0xf0 == 0xe0: // 224 – 239
		return Multicast
	case a == 255 && b == 255 && c == 255 && d == 255:
		return Broadcast
	case a&0xf0 == 0xf0: // 240 – 255
		return Reserved
	case a == 100 && b&0xc0 == 64: // 100.64.0.0 – 100.127.255.255
		return CGNAT
	}
	return Public
}

// Classify16 classifies an IPv6 address given as 16 bytes.
func Classify16(p [16]byte) Info {
	zero := func(from, to int) bool {
		for i := from; i < to; i++ {
			if p[i] != 0 {
				return false
			}
		}
		return true
	}
	// ::ffff:a.b.c.d
	if zero(0, 10) && p[10] == 0xff && p[11] == 0xff {
		return Info{Class: Classify4(p[12], p[13], p[14], p[15]), Mapped: true}
	}
	switch {
	case zero(0, 16):
		return Info{Class: Unspecified}
	case zero(0, 15) && p[15] == 1:
		return Info{Class: Loopback}
	case p[0] == 0xff:
		return Info{Class: Multicast}
	case p[0] == 0xfe && p[1]&0xc0 == 0x80:
		return Info{Class: LinkLocal}
	case p[0]&0xfe == 0xfc:
		return Info{Class: Private}
	case zero(0, 12):
		return Info{Class: V4Compat}
	case p[0] == 0x00 && p[1] == 0x64 && p[2] == 0xff && p[3] == 0x9b && zero(4, 12):
		return Info{Class: NAT64}
	case p[0] == 0x20 && p[1] == 0x02:
		return Info{Class: SixToFour}
	}
	return Info{Class: Public}
}

// ClassifyString classifies a textual IP address (optionally "[...]"-bracketed, optionally with a
// zone). Text that is not an IP address in the strict RFC 3986 / RFC 4291 textual forms gives Invalid.
// netip.ParseAddr is used for TEXT parsing only; the classification is the byte logic above.
func ClassifyString(s string) Info {
	s = strings.TrimSuffix(strings.TrimPrefix(s, "["), "]")
	if i := strings.IndexByte(s, '%'); i >= 0 {
		s = s[:i]
	}
	a, err := netip.ParseAddr(s)
	if err != nil {
		return Info{Class: Invalid}
	}
	return ClassifyAddr(a)
}

// ClassifyAddr classifies a parsed address.
func ClassifyAddr(a netip.Addr) Info {
	if !a.IsValid() {
		return Info{Class: Invalid}
	}
	if a.Is4() {
		b := a.As4()
		return Info{Class: Classify4(b[0], b[1], b[2], b[3])}
	}
	return Classify16(a.As16())
}
