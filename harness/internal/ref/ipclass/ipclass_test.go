package ipclass

import "testing"

func TestBoundaries(t *testing.T) {
	for _, c := range []struct {
		s    string
		want Class
		mapd bool
	}{
		{"0.0.0.0", Unspecified, false}, {"0.0.0.1", ThisNetwork, false},
		{"9.255.255.255", Public, false}, {"10.0.0.0", Private, false}, {"10.255.255.255", Private, false}, {"11.0.0.0", Public, false},
		{"126.255.255.255", Public, false}, {"127.0.0.0", Loopback, false}, {"127.255.255.255", Loopback, false}, {"128.0.0.0", Public, false},
		{"172.15.255.255", Public, false}, {"172.16.0.0", Private, false}, {"172.31.255.255", Private, false}, {"172.32.0.0", Public, false},
		{"192.167.255.255", Public, false}, {"192.168.0.0", Private, false}, {"192.168.255.255", Private, false}, {"192.169.0.0", Public, false},
		{"169.253.255.255", Public, false}, {"169.254.0.0", LinkLocal, false}, {"169.254.169.254", LinkLocal, false}, {"169.255.0.0", Public, false},
		{"223.255.255.255", Public, false}, {"224.0.0.0", Multicast, false}, {"239.255.255.255", Multicast, false}, {"240.0.0.0", Reserved, false},
		{"255.255.255.255", Broadcast, false},
		{"100.63.255.255", Public, false}, {"100.64.0.0", CGNAT, false}, {"100.127.255.255", CGNAT, false}, {"100.128.0.0", Public, false},
		{"::", Unspecified, false}, {"::1", Loopback, false}, {"::2", V4Compat, false},
		{"fbff::1", Public, false}, {"fc00::", Private, false}, {"fdff:ffff::1", Private, false}, {"fe00::1", Public, false},
		{"fe7f::1", Public, false}, {"fe80::1", LinkLocal, false}, {"febf::1", LinkLocal, false}, {"fec0::1", Public, false},
		{"feff::1", Public, false}, {"ff00::", Multicast, false}, {"ff02::1", Multicast, false},
		{"::ffff:127.0.0.1", Loopback, true}, {"::ffff:7f00:1", Loopback, true}, {"::ffff:10.1.2.3", Private, true},
		{"::ffff:8.8.8.8", Public, true}, {"::ffff:0.0.0.0", Unspecified, true}, {"::ffff:169.254.1.1", LinkLocal, true},
		{"::127.0.0.1", V4Compat, false}, {"64:ff9b::7f00:1", NAT64, false}, {"2002:7f00:1::1", SixToFour, false},
		{"[fe80::1%eth0]", LinkLocal, false}, {"2606:2800:220:1::1", Public, false},
		{"2130706433", Invalid, false}, {"0x7f.1", Invalid, false}, {"127.1", Invalid, false}, {"0177.0.0.1", Invalid, false},
	} {
		got := ClassifyString(c.s)
		if got.Class != c.want || got.Mapped != c.mapd {
			t.Errorf("%s: got %+v want %s mapped=%v", c.s, got, c.want, c.mapd)
		}
	}
}
