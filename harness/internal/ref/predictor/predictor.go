// Package predictor is an independent reference implementation of the two
// prediction schemes PDF allows in front of Flate/LZW compression:
//
//   - PNG row filtering, written from RFC 2083 §6 (filter types 0 None, 1 Sub,
//     2 Up, 3 Average, 4 Paeth; one filter-type byte in front of every row;
//     bpp = bytes per complete pixel, rounded up to 1);
//   - TIFF predictor 2 (horizontal differencing), written from TIFF 6.0
//     section 14: every sample is replaced by its difference to the sample of
//     the same component in the pixel to its left, arithmetic modulo 2^bpc,
//     rows are independent; 16-bit samples are big-endian (PDF byte order),
//     samples narrower than a byte are packed most significant bit first and
//     every row starts on a byte boundary.
//
// It shares no code with pdfcpu (and imports nothing from it). Both directions
// are provided: Encode* (raw samples -> predicted bytes, what a PDF writer
// does before compressing) and Decode* (what a PDF reader does after
// decompressing).
package predictor

import (
	"errors"
	"fmt"
)

// PNG row filter types (RFC 2083 §6.1).
const (
	None    = 0
	Sub     = 1
	Up      = 2
	Average = 3
	Paeth   = 4
)

// Params are the /DecodeParms entries that steer prediction.
type Params struct {
	Predictor int // 1 none, 2 TIFF, 10..15 PNG
	Colors    int // components per pixel, >= 1
	BPC       int // bits per component: 1, 2, 4, 8, 16
	Columns   int // pixels per row, >= 1
}

// ErrParams reports a parameter combination the specifications do not define.
var ErrParams = errors.New("predictor: undefined parameters")

// Check reports whether p is defined by PDF 32000-1 Table 8.
func (p Params) Check() error {
	switch {
	case p.Predictor != 1 && p.Predictor != 2 && (p.Predictor < 10 || p.Predictor > 15):
		return fmt.Errorf("%w: Predictor %d", ErrParams, p.Predictor)
	case p.Colors < 1:
		return fmt.Errorf("%w: Colors %d", ErrParams, p.Colors)
	case p.BPC != 1 && p.BPC != 2 && p.BPC != 4 && p.BPC != 8 && p.BPC != 16:
		return fmt.Errorf("%w: BitsPerComponent %d", ErrParams, p.BPC)
	case p.Columns < 1:
		return fmt.Errorf("%w: Columns %d", ErrParams, p.Columns)
	}
	return nil
}

// IsPNG reports whether the predictor value selects PNG prediction (>= 10).
func (p Params) IsPNG() bool { return p.Predictor >= 10 && p.Predictor <= 15 }

// RowBytes is the number of sample bytes in one row: ceil(columns*colors*bpc/8).
func (p Params) RowBytes() int { return (p.Columns*p.Colors*p.BPC + 7) / 8 }

// BPP is the PNG "bytes per complete pixel, rounding up to 1": ceil(colors*bpc/8).
func (p Params) BPP() int { return (p.Colors*p.BPC + 7) / 8 }

// EncodedRowBytes is the length of one row in the predicted stream (PNG adds the filter byte).
func (p Params) EncodedRowBytes() int {
	if p.IsPNG() {
		return p.RowBytes() + 1
	}
	return p.RowBytes()
}

// PadMask is the mask of the bits of the LAST byte of a row that carry samples
// (0xff when the row ends on a byte boundary). The remaining low bits are
// padding whose value TIFF leaves undefined.
func (p Params) PadMask() byte {
	used := (p.Columns * p.Colors * p.BPC) % 8
	if used == 0 {
		return 0xff
	}
	return byte(0xff << (8 - used))
}

// paethPredictor is the function of RFC 2083 §6.6, transcribed literally.
func paethPredictor(a, b, c int) int {
	// a = left, b = above, c = upper left
	p := a + b - c // initial estimate
	pa := p - a    // distances to a, b, c
	if pa < 0 {
		pa = -pa
	}
	pb := p - b
	if pb < 0 {
		pb = -pb
	}
	pc := p - c
	if pc < 0 {
		pc = -pc
	}
	// return nearest of a,b,c, breaking ties in order a,b,c.
	if pa <= pb && pa <= pc {
		return a
	}
	if pb <= pc {
		return b
	}
	return c
}

// predict returns the PNG prediction for byte x of a row; raw is the already
// reconstructed/raw current row, prior the raw previous row (nil = all zero).
func predict(ft byte, raw, prior []byte, x, bpp int) (int, error) {
	a, b, c := 0, 0, 0
	if x >= bpp {
		a = int(raw[x-bpp])
	}
	if prior != nil {
		b = int(prior[x])
		if x >= bpp {
			c = int(prior[x-bpp])
		}
	}
	switch ft {
	case None:
		return 0, nil
	case Sub:
		return a, nil
	case Up:
		return b, nil
	case Average:
		return (a + b) / 2, nil // floor, computed without overflow (§6.5)
	case Paeth:
		return paethPredictor(a, b, c), nil
	}
	return 0, fmt.Errorf("predictor: PNG filter type %d is not defined", ft)
}

// EncodePNG filters raw (a whole number of rows of p.RowBytes() bytes) with the
// given filter type per row and returns rows of 1+RowBytes bytes.
func EncodePNG(p Params, raw []byte, filters []byte) ([]byte, error) {
	if err := p.Check(); err != nil {
		return nil, err
	}
	rb, bpp := p.RowBytes(), p.BPP()
	if len(raw)%rb != 0 {
		return nil, fmt.Errorf("predictor: %d bytes are not a whole number of %d-byte rows", len(raw), rb)
	}
	rows := len(raw) / rb
	if len(filters) != rows {
		return nil, fmt.Errorf("predictor: %d filter bytes for %d rows", len(filters), rows)
	}
	out := make([]byte, 0, rows*(rb+1))
	var prior []byte
	for r := 0; r < rows; r++ {
		cur := raw[r*rb : (r+1)*rb]
		out = append(out, filters[r])
		for x := 0; x < rb; x++ {
			pr, err := predict(filters[r], cur, prior, x, bpp)
			if err != nil {
				return nil, err
			}
			out = append(out, byte(int(cur[x])-pr))
		}
		prior = cur
	}
	return out, nil
}

// DecodePNG reverses EncodePNG. enc must be a whole number of rows of
// 1+RowBytes bytes; every filter byte must be 0..4.
func DecodePNG(p Params, enc []byte) ([]byte, error) {
	if err := p.Check(); err != nil {
		return nil, err
	}
	rb, bpp := p.RowBytes(), p.BPP()
	if len(enc)%(rb+1) != 0 {
		return nil, fmt.Errorf("predictor: %d bytes are not a whole number of %d-byte PNG rows", len(enc), rb+1)
	}
	rows := len(enc) / (rb + 1)
	out := make([]byte, rows*rb)
	var prior []byte
	for r := 0; r < rows; r++ {
		ft := enc[r*(rb+1)]
		src := enc[r*(rb+1)+1 : (r+1)*(rb+1)]
		cur := out[r*rb : (r+1)*rb]
		for x := 0; x < rb; x++ {
			pr, err := predict(ft, cur, prior, x, bpp)
			if err != nil {
				return nil, fmt.Errorf("row %d: %w", r, err)
			}
			cur[x] = byte(int(src[x]) + pr)
		}
		prior = cur
	}
	return out, nil
}

// getSample / putSample access sample i (counted over all components) of a row.
func getSample(row []byte, i, bpc int) int {
	switch bpc {
	case 8:
		return int(row[i])
	case 16:
		return int(row[2*i])<<8 | int(row[2*i+1])
	}
	bit := i * bpc
	shift := 8 - bpc - bit%8
	return int(row[bit/8]>>uint(shift)) & (1<<uint(bpc) - 1)
}

func putSample(row []byte, i, bpc, v int) {
	switch bpc {
	case 8:
		row[i] = byte(v)
		return
	case 16:
		row[2*i], row[2*i+1] = byte(v>>8), byte(v)
		return
	}
	bit := i * bpc
	shift := uint(8 - bpc - bit%8)
	mask := byte(1<<uint(bpc)-1) << shift
	row[bit/8] = row[bit/8]&^mask | byte(v)<<shift&mask
}

func tiff(p Params, in []byte, decode bool) ([]byte, error) {
	if err := p.Check(); err != nil {
		return nil, err
	}
	rb := p.RowBytes()
	if len(in)%rb != 0 {
		return nil, fmt.Errorf("predictor: %d bytes are not a whole number of %d-byte rows", len(in), rb)
	}
	out := make([]byte, len(in))
	copy(out, in) // padding bits are carried over unchanged
	mod := 1 << uint(p.BPC)
	for r := 0; r < len(in)/rb; r++ {
		src := in[r*rb : (r+1)*rb]
		dst := out[r*rb : (r+1)*rb]
		for col := 1; col < p.Columns; col++ {
			for k := 0; k < p.Colors; k++ {
				i := col*p.Colors + k
				left := i - p.Colors
				var v int
				if decode {
					// dst[left] is already reconstructed
					v = (getSample(src, i, p.BPC) + getSample(dst, left, p.BPC)) % mod
				} else {
					v = (getSample(src, i, p.BPC) - getSample(src, left, p.BPC) + mod) % mod
				}
				putSample(dst, i, p.BPC, v)
			}
		}
	}
	return out, nil
}

// EncodeTIFF applies horizontal differencing (TIFF predictor 2) to raw rows.
func EncodeTIFF(p Params, raw []byte) ([]byte, error) { return tiff(p, raw, false) }

// DecodeTIFF undoes horizontal differencing.
func DecodeTIFF(p Params, enc []byte) ([]byte, error) { return tiff(p, enc, true) }

// Encode produces the predicted stream for p.Predictor: identity for 1, TIFF
// for 2, PNG for 10..15. For PNG, filters gives the filter type per row; nil
// selects the type the predictor value names (10 None .. 14 Paeth, 15 -> Paeth).
func Encode(p Params, raw []byte, filters []byte) ([]byte, error) {
	if err := p.Check(); err != nil {
		return nil, err
	}
	switch {
	case p.Predictor == 1:
		return append([]byte(nil), raw...), nil
	case p.Predictor == 2:
		return EncodeTIFF(p, raw)
	}
	if filters == nil {
		ft := byte(p.Predictor - 10)
		if ft > Paeth {
			ft = Paeth
		}
		rb := p.RowBytes()
		if len(raw)%rb != 0 {
			return nil, fmt.Errorf("predictor: %d bytes are not a whole number of %d-byte rows", len(raw), rb)
		}
		filters = make([]byte, len(raw)/rb)
		for i := range filters {
			filters[i] = ft
		}
	}
	return EncodePNG(p, raw, filters)
}

// Decode undoes Encode. Per PDF 32000-1 7.4.4.4 a Predictor value >= 10 only
// states that PNG prediction is in use; the filter byte of each row decides.
func Decode(p Params, enc []byte) ([]byte, error) {
	if err := p.Check(); err != nil {
		return nil, err
	}
	switch {
	case p.Predictor == 1:
		return append([]byte(nil), enc...), nil
	case p.Predictor == 2:
		return DecodeTIFF(p, enc)
	}
	return DecodePNG(p, enc)
}
