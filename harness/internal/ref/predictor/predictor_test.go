package predictor

import (
	"bytes"
	"encoding/hex"
	"math/rand/v2"
	"testing"
)

func hx(s string) []byte {
	b, err := hex.DecodeString(s)
	if err != nil {
		panic(err)
	}
	return b
}

// All vectors below were computed by hand from RFC 2083 §6 / TIFF 6.0 §14.
func TestPaethPredictorTies(t *testing.T) {
	for _, v := range []struct{ a, b, c, want int }{
		{0, 10, 0, 10},   // p=10 pa=10 pb=0 pc=10 -> b
		{15, 20, 10, 20}, // p=25 pa=10 pb=5 pc=15 -> b
		{20, 40, 30, 30}, // p=30 pa=10 pb=10 pc=0 -> c
		{8, 14, 10, 14},  // p=12 pa=4 pb=2 pc=2 -> tie b/c -> b
		{14, 8, 10, 14},  // p=12 pa=2 pb=4 pc=2 -> tie a/c -> a
		{7, 7, 3, 7},     // p=11 pa=4 pb=4 pc=8 -> tie a/b -> a
		{0, 0, 0, 0},
		{255, 0, 255, 0}, // p=0 pa=255 pb=0 pc=255 -> b
		{0, 255, 255, 0}, // p=0 pa=0 -> a
	} {
		if got := paethPredictor(v.a, v.b, v.c); got != v.want {
			t.Errorf("paeth(%d,%d,%d)=%d want %d", v.a, v.b, v.c, got, v.want)
		}
	}
}

func TestPNGVectors(t *testing.T) {
	g8 := Params{Predictor: 15, Colors: 1, BPC: 8, Columns: 4}
	for _, v := range []struct {
		name    string
		p       Params
		raw     string
		filters []byte
		enc     string
	}{
		{"none", g8, "0a141e28", []byte{None}, "00" + "0a141e28"},
		{"sub bpp1", g8, "0a141e28", []byte{Sub}, "01" + "0a0a0a0a"},
		{"sub bpp3", Params{15, 3, 8, 2}, "010203" + "0b1621", []byte{Sub}, "01" + "010203" + "0a141e"},
		{"sub bpp2 16bit", Params{15, 1, 16, 2}, "00ff" + "0101", []byte{Sub}, "01" + "00ff" + "0102"},
		{"up first row = raw", g8, "0a141e28", []byte{Up}, "02" + "0a141e28"},
		{"up", g8, "0a141e28" + "0b131e32", []byte{None, Up}, "00" + "0a141e28" + "02" + "01ff000a"},
		// avg: x0 (0+10)/2=5 -> 95; x1 (100+20)/2=60 -> 140; x2 (200+30)/2=115 -> 50-115=-65=191; x3 (50+40)/2=45 -> 210
		{"average", g8, "0a141e28" + "64c832ff", []byte{None, Average}, "00" + "0a141e28" + "03" + "5f8cbfd2"},
		// the sum must not wrap: (255+255)/2 = 255
		{"average no overflow", Params{15, 1, 8, 2}, "ffff" + "ffff", []byte{None, Average}, "00ffff" + "03" + "8000"},
		{"average first row", Params{15, 1, 8, 3}, "0a0f09", []byte{Average}, "03" + "0a0a02"},
		// paeth: x0 pred b=10 -> 5; x1 pred b=20 -> 5; x2 pred b=30 -> -10=246; x3 a=20 b=40 c=30 -> c -> 170
		{"paeth", g8, "0a141e28" + "0f1914c8", []byte{None, Paeth}, "00" + "0a141e28" + "04" + "0505f6aa"},
		{"paeth first row = sub", g8, "0a141e28", []byte{Paeth}, "04" + "0a0a0a0a"},
		// sub-byte samples: bpp rounds up to 1, filters work on whole bytes
		{"sub 4bpc", Params{15, 1, 4, 4}, "13f2", []byte{Sub}, "01" + "13df"},
		{"three rows mixed", Params{12, 1, 8, 2}, "0102" + "0304" + "0506", []byte{Up, Sub, Up}, "020102" + "010301" + "020202"},
	} {
		enc, err := EncodePNG(v.p, hx(v.raw), v.filters)
		if err != nil {
			t.Fatalf("%s: %v", v.name, err)
		}
		if !bytes.Equal(enc, hx(v.enc)) {
			t.Errorf("%s: EncodePNG = %x want %s", v.name, enc, v.enc)
		}
		dec, err := DecodePNG(v.p, hx(v.enc))
		if err != nil {
			t.Fatalf("%s: %v", v.name, err)
		}
		if !bytes.Equal(dec, hx(v.raw)) {
			t.Errorf("%s: DecodePNG = %x want %s", v.name, dec, v.raw)
		}
	}
}

func TestPNGErrors(t *testing.T) {
	p := Params{12, 1, 8, 2}
	if _, err := DecodePNG(p, hx("050102")); err == nil {
		t.Error("filter byte 5 accepted")
	}
	if _, err := DecodePNG(p, hx("000102"+"ff0102")); err == nil {
		t.Error("filter byte 255 accepted")
	}
	if _, err := DecodePNG(p, hx("0001")); err == nil {
		t.Error("partial row accepted")
	}
	if _, err := EncodePNG(p, hx("0102"), []byte{7}); err == nil {
		t.Error("encode with filter 7 accepted")
	}
	if err := (Params{3, 1, 8, 1}).Check(); err == nil {
		t.Error("predictor 3 accepted")
	}
	if err := (Params{2, 1, 3, 1}).Check(); err == nil {
		t.Error("bpc 3 accepted")
	}
}

func TestTIFFVectors(t *testing.T) {
	for _, v := range []struct {
		name string
		p    Params
		raw  string
		enc  string
	}{
		{"8bit gray", Params{2, 1, 8, 4}, "0a141e19", "0a0a0afb"},
		{"8bit rgb", Params{2, 3, 8, 2}, "010203" + "0b1621", "010203" + "0a141e"},
		{"8bit rows independent", Params{2, 1, 8, 2}, "0105" + "0a0a", "0104" + "0a00"},
		// DESIGN.md observation f: differences 00ff 0001 0001 -> samples 00ff 0100 0101
		{"16bit carry", Params{2, 1, 16, 3}, "00ff" + "0100" + "0101", "00ff" + "0001" + "0001"},
		{"16bit 2 colors", Params{2, 2, 16, 2}, "00010002" + "01000001", "00010002" + "00ffffff"},
		// samples 1 3 15 2 -> 1 2 12 3
		{"4bit", Params{2, 1, 4, 4}, "13f2", "12c3"},
		// pixels (3,10)(5,1) -> (3,10)(2,7)
		{"4bit 2 colors", Params{2, 2, 4, 2}, "3a51", "3a27"},
		// samples 3 0 1 2 -> 3 1 1 1
		{"2bit", Params{2, 1, 2, 4}, "c6", "d5"},
		// bits 1 0 0 1 1 1 0 1 -> 1 1 0 1 0 0 1 1
		{"1bit", Params{2, 1, 1, 8}, "9d", "d3"},
		// pixels 101 110 010 (+ padding 0101010) -> 101 011 100, padding kept
		{"1bit 3 colors 9 bits", Params{2, 3, 1, 3}, "b92a", "ae2a"},
		{"single column untouched", Params{2, 4, 16, 1}, "0102030405060708", "0102030405060708"},
	} {
		enc, err := EncodeTIFF(v.p, hx(v.raw))
		if err != nil {
			t.Fatalf("%s: %v", v.name, err)
		}
		if !bytes.Equal(enc, hx(v.enc)) {
			t.Errorf("%s: EncodeTIFF = %x want %s", v.name, enc, v.enc)
		}
		dec, err := DecodeTIFF(v.p, hx(v.enc))
		if err != nil {
			t.Fatalf("%s: %v", v.name, err)
		}
		if !bytes.Equal(dec, hx(v.raw)) {
			t.Errorf("%s: DecodeTIFF = %x want %s", v.name, dec, v.raw)
		}
	}
}

func TestGeometry(t *testing.T) {
	for _, v := range []struct {
		p            Params
		rb, bpp, enc int
		mask         byte
	}{
		{Params{12, 1, 8, 4}, 4, 1, 5, 0xff},
		{Params{2, 3, 1, 3}, 2, 1, 2, 0x80},
		{Params{15, 3, 16, 5}, 30, 6, 31, 0xff},
		{Params{10, 3, 4, 3}, 5, 2, 6, 0xf0},
		{Params{2, 1, 2, 7}, 2, 1, 2, 0xfc},
		{Params{1, 4, 1, 1}, 1, 1, 1, 0xf0},
	} {
		if v.p.RowBytes() != v.rb || v.p.BPP() != v.bpp || v.p.EncodedRowBytes() != v.enc || v.p.PadMask() != v.mask {
			t.Errorf("%+v: got rb=%d bpp=%d enc=%d mask=%02x", v.p, v.p.RowBytes(), v.p.BPP(), v.p.EncodedRowBytes(), v.p.PadMask())
		}
	}
}

// Round trip over the whole parameter grid (self-consistency, not a substitute for the vectors).
func TestRoundTripGrid(t *testing.T) {
	rng := rand.New(rand.NewPCG(1, 2))
	for _, pred := range []int{1, 2, 10, 11, 12, 13, 14, 15} {
		for colors := 1; colors <= 4; colors++ {
			for _, bpc := range []int{1, 2, 4, 8, 16} {
				for cols := 1; cols <= 8; cols++ {
					p := Params{pred, colors, bpc, cols}
					rows := 1 + rng.IntN(4)
					raw := make([]byte, rows*p.RowBytes())
					for i := range raw {
						raw[i] = byte(rng.Uint32())
					}
					var fl []byte
					if p.IsPNG() {
						fl = make([]byte, rows)
						for i := range fl {
							fl[i] = byte(rng.IntN(5))
						}
					}
					enc, err := Encode(p, raw, fl)
					if err != nil {
						t.Fatal(err)
					}
					if len(enc) != rows*p.EncodedRowBytes() {
						t.Fatalf("%+v: encoded length %d", p, len(enc))
					}
					dec, err := Decode(p, enc)
					if err != nil {
						t.Fatal(err)
					}
					if !bytes.Equal(dec, raw) {
						t.Fatalf("%+v: round trip %x -> %x -> %x", p, raw, enc, dec)
					}
				}
			}
		}
	}
}
