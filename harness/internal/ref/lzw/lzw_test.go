package lzw

import (
	"bytes"
	stdlzw "compress/lzw"
	"encoding/hex"
	"io"
	"math/rand/v2"
	"testing"
)

// PDF 32000-1 7.4.4.2, EXAMPLE 1: 45 45 45 45 45 65 45 45 45 66 ->
// codes 256 45 258 258 65 259 66 257 -> 80 0B 60 50 22 0C 0C 85 01.
func TestSpecExample(t *testing.T) {
	in, _ := hex.DecodeString("2d2d2d2d2d412d2d2d42")
	want, _ := hex.DecodeString("800b6050220c0c8501")
	for _, ec := range []int{0, 1} {
		got := Encode(in, ec)
		if !bytes.Equal(got, want) {
			t.Errorf("ec=%d Encode = %x want %x", ec, got, want)
		}
		dec, eod, err := Decode(want, ec)
		if err != nil || !eod || !bytes.Equal(dec, in) {
			t.Errorf("ec=%d Decode = %x eod=%v err=%v", ec, dec, eod, err)
		}
	}
}

func TestEmptyAndSingle(t *testing.T) {
	// clear (100000000) + EOD (100000001) = 10000000 01000000 01(000000)
	if got := Encode(nil, 1); !bytes.Equal(got, []byte{0x80, 0x40, 0x40}) {
		t.Errorf("empty = %x", got)
	}
	// clear, 0x41 (001000001), EOD -> 10000000 00010000 01100000 001(00000)
	if got := Encode([]byte{0x41}, 1); !bytes.Equal(got, []byte{0x80, 0x10, 0x60, 0x20}) {
		t.Errorf("single = %x", got)
	}
}

func inputs() [][]byte {
	rng := rand.New(rand.NewPCG(7, 7))
	var ins [][]byte
	for _, n := range []int{0, 1, 2, 3, 250, 251, 252, 253, 254, 255, 256, 257, 258, 600, 700, 1800, 3900, 4000, 4100, 9000, 70000} {
		b := make([]byte, n)
		for i := range b {
			b[i] = byte(rng.Uint32())
		}
		ins = append(ins, b)
		ins = append(ins, bytes.Repeat([]byte{0xAA}, n))
		c := make([]byte, n)
		for i := range c {
			c[i] = byte(i % 3)
		}
		ins = append(ins, c)
	}
	return ins
}

func TestRoundTrip(t *testing.T) {
	for _, in := range inputs() {
		for _, o := range []Options{{EarlyChange: 0}, {EarlyChange: 1}, {EarlyChange: 1, ClearEvery: 100}, {EarlyChange: 0, NoEOD: true}} {
			enc := EncodeOpts(in, o)
			dec, eod, err := Decode(enc, o.EarlyChange)
			if err != nil || !bytes.Equal(dec, in) || eod == o.NoEOD {
				t.Fatalf("len=%d opts=%+v: err=%v eod=%v equal=%v", len(in), o, err, eod, bytes.Equal(dec, in))
			}
		}
	}
}

// compress/lzw (MSB, 8 bit literals) grows the code width like EarlyChange 0.
func TestAgainstStdlibEarlyChange0(t *testing.T) {
	for _, in := range inputs() {
		enc := Encode(in, 0)
		r := stdlzw.NewReader(bytes.NewReader(enc), stdlzw.MSB, 8)
		got, err := io.ReadAll(r)
		if err != nil || !bytes.Equal(got, in) {
			t.Fatalf("stdlib reading ref encoding len=%d: err=%v equal=%v", len(in), err, bytes.Equal(got, in))
		}
		var b bytes.Buffer
		w := stdlzw.NewWriter(&b, stdlzw.MSB, 8)
		w.Write(in)
		w.Close()
		dec, eod, err := Decode(b.Bytes(), 0)
		if err != nil || !eod || !bytes.Equal(dec, in) {
			t.Fatalf("ref reading stdlib encoding len=%d: err=%v eod=%v equal=%v", len(in), err, eod, bytes.Equal(dec, in))
		}
	}
}

func TestCorrupt(t *testing.T) {
	// clear then code 300 (not yet defined)
	var w bitWriter
	w.write(256, 9)
	w.write(65, 9)
	w.write(300, 9)
	w.flush()
	if _, _, err := Decode(w.out, 1); err == nil {
		t.Error("undefined code accepted")
	}
}
