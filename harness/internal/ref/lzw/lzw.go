// Package lzw is an independent reference codec for the PDF LZWDecode filter,
// written from PDF 32000-1 7.4.4.2 and TIFF 6.0 section 13 (no pdfcpu code):
// codes are packed most significant bit first, start at 9 bits and grow to 12;
// 256 = clear-table, 257 = EOD, the first table entry is 258. With
// EarlyChange 1 (PDF default, TIFF behaviour: "after adding table entry 511,
// switch to 10-bit codes") the code width grows one code early; with
// EarlyChange 0 the increase is postponed as long as possible, i.e. until
// entry 512 - which no longer fits 9 bits - has been added. The encoder starts
// with a clear-table code and sends another one when the table is full (entry
// 4094 added for EarlyChange 1 as TIFF prescribes, entry 4095 for EarlyChange 0).
package lzw

import (
	"errors"
	"fmt"
)

const (
	clearCode = 256
	eodCode   = 257
	firstCode = 258
	maxWidth  = 12
)

// Options vary what a conforming encoder may do.
type Options struct {
	EarlyChange int  // 0 or 1
	NoEOD       bool // leave out the final EOD code (tolerated by most readers, not used by default)
	// ClearEvery > 0 sends an extra clear-table code after that many data codes (legal at any time).
	ClearEvery int
}

type bitWriter struct {
	out   []byte
	acc   uint32
	nbits uint
}

func (w *bitWriter) write(code, width int) {
	w.acc = w.acc<<uint(width) | uint32(code)
	w.nbits += uint(width)
	for w.nbits >= 8 {
		w.out = append(w.out, byte(w.acc>>(w.nbits-8)))
		w.nbits -= 8
	}
	w.acc &= 1<<w.nbits - 1
}

func (w *bitWriter) flush() {
	if w.nbits > 0 {
		w.out = append(w.out, byte(w.acc<<(8-w.nbits)))
		w.nbits = 0
	}
}

// Encode compresses data with the given EarlyChange value (0 or 1).
func Encode(data []byte, earlyChange int) []byte {
	return EncodeOpts(data, Options{EarlyChange: earlyChange})
}

// EncodeOpts is Encode with encoder variations.
func EncodeOpts(data []byte, o Options) []byte {
	ec := 0
	if o.EarlyChange != 0 {
		ec = 1
	}
	full := 4096 - ec // value of next at which the table is full
	var w bitWriter
	width, next := 9, firstCode
	// dictionary as a trie in first-child/next-sibling form; 0 = none (no entry has code 0 as a child)
	var firstChild, nextSib [4096]int16
	var char [4096]byte
	reset := func() {
		w.write(clearCode, width)
		width, next = 9, firstCode
		firstChild, nextSib = [4096]int16{}, [4096]int16{}
	}
	// after every data code the encoder's table grows by one entry
	grow := func() {
		next++
		if width < maxWidth && next-1+ec == 1<<uint(width) { // next-1 = entry just added
			width++
		}
	}
	reset()
	if len(data) > 0 {
		cur := int(data[0])
		sent := 0
		for _, b := range data[1:] {
			c := int(firstChild[cur])
			for c != 0 && char[c] != b {
				c = int(nextSib[c])
			}
			if c != 0 {
				cur = c
				continue
			}
			w.write(cur, width)
			sent++
			char[next], nextSib[next], firstChild[cur] = b, firstChild[cur], int16(next)
			grow()
			if next >= full || (o.ClearEvery > 0 && sent%o.ClearEvery == 0) {
				reset()
			}
			cur = int(b)
		}
		w.write(cur, width)
		grow() // the reader adds an entry for this code too before it reads EOD
	}
	if !o.NoEOD {
		w.write(eodCode, width)
	}
	w.flush()
	return w.out
}

// ErrCorrupt is returned for code sequences no encoder can produce.
var ErrCorrupt = errors.New("lzw: corrupt code stream")

// Decode expands an LZW code stream. sawEOD tells whether the stream was
// terminated by the EOD code (data simply running out is tolerated).
func Decode(enc []byte, earlyChange int) (out []byte, sawEOD bool, err error) {
	ec := 0
	if earlyChange != 0 {
		ec = 1
	}
	type entry struct {
		prefix int
		last   byte
		first  byte
		length int
	}
	var table [4096]entry
	for i := 0; i < 256; i++ {
		table[i] = entry{prefix: -1, last: byte(i), first: byte(i), length: 1}
	}
	width, next, prev := 9, firstCode, -1
	var acc uint32
	var nbits uint
	pos := 0
	expand := func(code int) {
		n := table[code].length
		start := len(out)
		out = append(out, make([]byte, n)...)
		for i := n - 1; i >= 0; i-- {
			out[start+i] = table[code].last
			code = table[code].prefix
		}
	}
	for {
		for nbits < uint(width) {
			if pos >= len(enc) {
				return out, false, nil
			}
			acc = acc<<8 | uint32(enc[pos])
			pos++
			nbits += 8
		}
		code := int(acc>>(nbits-uint(width))) & (1<<uint(width) - 1)
		nbits -= uint(width)
		acc &= 1<<nbits - 1
		switch {
		case code == clearCode:
			width, next, prev = 9, firstCode, -1
			continue
		case code == eodCode:
			return out, true, nil
		case prev < 0:
			if code > 255 {
				return out, false, fmt.Errorf("%w: first code after clear is %d", ErrCorrupt, code)
			}
			out = append(out, byte(code))
		case code < next:
			expand(code)
			if next < 4096 {
				table[next] = entry{prefix: prev, last: table[code].first, first: table[prev].first, length: table[prev].length + 1}
				next++
			}
		case code == next && next < 4096:
			table[next] = entry{prefix: prev, last: table[prev].first, first: table[prev].first, length: table[prev].length + 1}
			next++
			expand(code)
		default:
			return out, false, fmt.Errorf("%w: code %d with %d table entries", ErrCorrupt, code, next)
		}
		prev = code
		// the writer is one entry ahead of the reader
		for width < maxWidth && next+ec >= 1<<uint(width) {
			width++
		}
	}
}
