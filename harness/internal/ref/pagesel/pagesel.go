// Package pagesel is an independent reference model of pdfcpu's documented page
// selection language ("pdfcpu selectedpages" usage text and property C31):
//
//	expression := term { "," term }
//	term       := "even" | "odd" | [ "!" | "n" ] range
//	range      := # | -# | #- | #-# | l | l-# | l-#- | -l | -l-# | #-l | #-l-#
//	#          := one or more ASCII digits
//
// It is written from the documentation, not from pdfcpu's code: a hand-written
// recogniser (no regular expressions) and an evaluator in which every range term
// denotes an interval of integers that is intersected with 1..pageCount.
package pagesel

import (
	"sort"
	"strconv"
	"strings"
)

// Shape names a term form as spelled in the property text.
type Shape string

// All term shapes of the documented grammar.
const (
	Num       Shape = "#"
	UpTo      Shape = "-#"
	From      Shape = "#-"
	Range     Shape = "#-#"
	Last      Shape = "l"
	LastMinus Shape = "l-#"
	LastTail  Shape = "l-#-"
	UpToLast  Shape = "-l"
	UpToLastM Shape = "-l-#"
	FromLast  Shape = "#-l"
	FromLastM Shape = "#-l-#"
	Even      Shape = "even"
	Odd       Shape = "odd"
)

// RangeShapes lists the shapes that may carry a negation prefix.
var RangeShapes = []Shape{Num, UpTo, From, Range, Last, LastMinus, LastTail, UpToLast, UpToLastM, FromLast, FromLastM}

// Numbers returns how many numbers a shape carries.
func (s Shape) Numbers() int {
	switch s {
	case Range, FromLastM:
		return 2
	case Last, UpToLast, Even, Odd:
		return 0
	}
	return 1
}

// Term is one parsed term.
type Term struct {
	Shape Shape
	Neg   byte // 0, '!' or 'n'
	A, B  int  // the numbers in order of appearance
	Big   bool // a number does not fit into int: evaluation is unspecified
}

// String renders the term in the concrete syntax.
func (t Term) String() string {
	var b strings.Builder
	if t.Neg != 0 {
		b.WriteByte(t.Neg)
	}
	a, c := strconv.Itoa(t.A), strconv.Itoa(t.B)
	switch t.Shape {
	case Num:
		b.WriteString(a)
	case UpTo:
		b.WriteString("-" + a)
	case From:
		b.WriteString(a + "-")
	case Range:
		b.WriteString(a + "-" + c)
	case Last:
		b.WriteString("l")
	case LastMinus:
		b.WriteString("l-" + a)
	case LastTail:
		b.WriteString("l-" + a + "-")
	case UpToLast:
		b.WriteString("-l")
	case UpToLastM:
		b.WriteString("-l-" + a)
	case FromLast:
		b.WriteString(a + "-l")
	case FromLastM:
		b.WriteString(a + "-l-" + c)
	case Even:
		b.WriteString("even")
	case Odd:
		b.WriteString("odd")
	}
	return b.String()
}

// ShapeKey is the shape with a '!' marker for negated terms (for keys and counters).
func (t Term) ShapeKey() string {
	if t.Neg != 0 {
		return "!" + string(t.Shape)
	}
	return string(t.Shape)
}

// Format renders an expression.
func Format(tt []Term) string {
	ss := make([]string, len(tt))
	for i, t := range tt {
		ss[i] = t.String()
	}
	return strings.Join(ss, ",")
}

// Verdict of the recogniser.
type Verdict int

const (
	Invalid Verdict = iota
	Valid
	// Unspecified: the documentation does not say (empty expression = "no selection",
	// white space around terms, negated even/odd).
	Unspecified
)

func (v Verdict) String() string { return [...]string{"invalid", "valid", "unspecified"}[v] }

// token kinds of the term scanner
const (
	tkNum = 'N'
	tkL   = 'l'
	tkD   = '-'
)

// scan splits a range term into tokens; ok=false on any other character.
func scan(s string) (kinds string, nums []string, ok bool) {
	for i := 0; i < len(s); {
		c := s[i]
		switch {
		case c >= '0' && c <= '9':
			j := i
			for j < len(s) && s[j] >= '0' && s[j] <= '9' {
				j++
			}
			kinds += string(rune(tkNum))
			nums = append(nums, s[i:j])
			i = j
		case c == 'l':
			kinds += string(rune(tkL))
			i++
		case c == '-':
			kinds += string(rune(tkD))
			i++
		default:
			return "", nil, false
		}
	}
	return kinds, nums, true
}

var shapeOfKinds = map[string]Shape{
	"N":     Num,
	"-N":    UpTo,
	"N-":    From,
	"N-N":   Range,
	"l":     Last,
	"l-N":   LastMinus,
	"l-N-":  LastTail,
	"-l":    UpToLast,
	"-l-N":  UpToLastM,
	"N-l":   FromLast,
	"N-l-N": FromLastM,
}

func hasSpace(s string) bool {
	return strings.ContainsAny(s, " \t\r\n\v\f")
}

// ParseTerm recognises one term.
func ParseTerm(s string) (Term, Verdict) {
	if s == "even" {
		return Term{Shape: Even}, Valid
	}
	if s == "odd" {
		return Term{Shape: Odd}, Valid
	}
	var t Term
	if s != "" && (s[0] == '!' || s[0] == 'n') {
		t.Neg = s[0]
		s = s[1:]
		if s == "even" || s == "odd" {
			return t, Unspecified
		}
	}
	kinds, nums, ok := scan(s)
	if !ok {
		return t, Invalid
	}
	sh, ok := shapeOfKinds[kinds]
	if !ok {
		return t, Invalid
	}
	t.Shape = sh
	for i, n := range nums {
		v, err := strconv.Atoi(n)
		if err != nil {
			t.Big = true
		}
		if i == 0 {
			t.A = v
		} else {
			t.B = v
		}
	}
	return t, Valid
}

// Parse recognises an expression.
func Parse(s string) ([]Term, Verdict) {
	if s == "" {
		return nil, Unspecified
	}
	if hasSpace(s) {
		// Is it valid once white space is dropped? Then the documentation does not decide; else invalid.
		stripped := strings.Map(func(r rune) rune {
			if strings.ContainsRune(" \t\r\n\v\f", r) {
				return -1
			}
			return r
		}, s)
		if _, v := Parse(stripped); v != Invalid {
			return nil, Unspecified
		}
		return nil, Invalid
	}
	parts := strings.Split(s, ",")
	tt := make([]Term, 0, len(parts))
	verdict := Valid
	for _, p := range parts {
		t, v := ParseTerm(p)
		if v == Invalid {
			return nil, Invalid
		}
		if v == Unspecified {
			verdict = Unspecified
		}
		tt = append(tt, t)
	}
	return tt, verdict
}

// Reading fixes the points the documentation leaves open. The zero value is the
// plain reading: every range term is an integer interval intersected with 1..pageCount.
type Reading struct {
	// LastTailIsCount: "l-3-" means "the last 3 pages" (usage text gloss) instead of
	// "page last-3 up to the last page" (the compositional reading of l-# followed by '-').
	LastTailIsCount bool
	// LastTailUnderflowEmpty: "l-#-" whose start page last-# does not exist (< 1) selects
	// nothing instead of being clipped to the first page.
	LastTailUnderflowEmpty bool
	// ZeroStartEmpty: a term whose explicit start page is 0 (a page that does not exist)
	// selects nothing instead of being clipped to the first page.
	ZeroStartEmpty bool
}

// Readings enumerates all readings, the plain one first.
func Readings() []Reading {
	var rr []Reading
	for i := 0; i < 8; i++ {
		rr = append(rr, Reading{LastTailIsCount: i&1 != 0, LastTailUnderflowEmpty: i&2 != 0, ZeroStartEmpty: i&4 != 0})
	}
	return rr
}

// Interval returns the pages lo..hi (inclusive, within 1..n) a range term denotes; ok=false if none.
func (t Term) Interval(n int, r Reading) (lo, hi int, ok bool) {
	switch t.Shape {
	case Num:
		lo, hi = t.A, t.A
	case UpTo:
		lo, hi = 1, t.A
	case From:
		lo, hi = t.A, n
	case Range:
		lo, hi = t.A, t.B
	case Last:
		lo, hi = n, n
	case LastMinus:
		lo, hi = n-t.A, n-t.A
	case LastTail:
		lo, hi = n-t.A, n
		if r.LastTailIsCount {
			lo++
		}
		if lo < 1 && r.LastTailUnderflowEmpty {
			return 0, 0, false
		}
	case UpToLast:
		lo, hi = 1, n
	case UpToLastM:
		lo, hi = 1, n-t.A
	case FromLast:
		lo, hi = t.A, n
	case FromLastM:
		lo, hi = t.A, n-t.B
	default:
		return 0, 0, false
	}
	switch t.Shape {
	case Num, From, Range, FromLast, FromLastM:
		if t.A == 0 && r.ZeroStartEmpty {
			return 0, 0, false
		}
	}
	if lo < 1 {
		lo = 1
	}
	if hi > n {
		hi = n
	}
	if lo > hi {
		return 0, 0, false
	}
	return lo, hi, true
}

// Selection evaluates a page selection: terms left to right; a range term selects or,
// when negated, deselects its pages; even/odd add their pages no earlier term decided.
// The result is ascending and within 1..n.
func Selection(n int, tt []Term, r Reading) []int {
	if n < 0 {
		n = 0
	}
	decided := make([]bool, n+1)
	selected := make([]bool, n+1)
	for _, t := range tt {
		switch t.Shape {
		case Even, Odd:
			first := 2
			if t.Shape == Odd {
				first = 1
			}
			for p := first; p <= n; p += 2 {
				if !decided[p] {
					decided[p], selected[p] = true, true
				}
			}
		default:
			lo, hi, ok := t.Interval(n, r)
			if !ok {
				continue
			}
			for p := lo; p <= hi; p++ {
				decided[p], selected[p] = true, t.Neg == 0
			}
		}
	}
	var out []int
	for p := 1; p <= n; p++ {
		if selected[p] {
			out = append(out, p)
		}
	}
	return out
}

// Remaining is the complement of Selection within 1..n (pages left after removal).
func Remaining(n int, tt []Term, r Reading) []int {
	sel := Selection(n, tt, r)
	in := map[int]bool{}
	for _, p := range sel {
		in[p] = true
	}
	var out []int
	for p := 1; p <= n; p++ {
		if !in[p] {
			out = append(out, p)
		}
	}
	return out
}

// Collection evaluates a page collection: pages in term order, with repetitions,
// within 1..n; a negated term removes the earlier occurrences of its pages; even/odd
// list their pages in ascending order.
func Collection(n int, tt []Term, r Reading) []int {
	out := []int{}
	for _, t := range tt {
		switch t.Shape {
		case Even, Odd:
			first := 2
			if t.Shape == Odd {
				first = 1
			}
			for p := first; p <= n; p += 2 {
				out = append(out, p)
			}
		default:
			lo, hi, ok := t.Interval(n, r)
			if !ok {
				continue
			}
			if t.Neg == 0 {
				for p := lo; p <= hi; p++ {
					out = append(out, p)
				}
				continue
			}
			kept := out[:0:0]
			for _, p := range out {
				if p < lo || p > hi {
					kept = append(kept, p)
				}
			}
			out = kept
		}
	}
	return out
}

// HasBig reports whether any term carries a number outside int.
func HasBig(tt []Term) bool {
	for _, t := range tt {
		if t.Big {
			return true
		}
	}
	return false
}

// SortedKeysTrue returns the ascending keys of m whose value is true.
func SortedKeysTrue(m map[int]bool) []int {
	var out []int
	for k, v := range m {
		if v {
			out = append(out, k)
		}
	}
	sort.Ints(out)
	return out
}

// SelectionMask is Selection for n <= 62 with pages as bits (bit p = page p); it is the
// allocation-free form used by exhaustive enumerations. Same rules as Selection.
func SelectionMask(n int, tt []Term, r Reading) uint64 {
	if n < 0 {
		n = 0
	}
	if n > 62 {
		panic("pagesel: SelectionMask needs n <= 62")
	}
	all := (uint64(1)<<uint(n+1) - 1) &^ 1 // bits 1..n
	const evenBits = 0x5555555555555555    // bits 0,2,4,.. (bit 0 is masked by all)
	var decided, selected uint64
	for _, t := range tt {
		switch t.Shape {
		case Even:
			add := evenBits & all &^ decided
			decided |= add
			selected |= add
		case Odd:
			add := (evenBits << 1) & all &^ decided
			decided |= add
			selected |= add
		default:
			lo, hi, ok := t.Interval(n, r)
			if !ok {
				continue
			}
			m := (uint64(1)<<uint(hi+1) - 1) &^ (uint64(1)<<uint(lo) - 1)
			decided |= m
			if t.Neg == 0 {
				selected |= m
			} else {
				selected &^= m
			}
		}
	}
	return selected
}

// AllMask is the set 1..n as bits.
func AllMask(n int) uint64 {
	if n <= 0 {
		return 0
	}
	return (uint64(1)<<uint(n+1) - 1) &^ 1
}

// MaskOf turns an ascending page list into bits (pages must be within 0..63).
func MaskOf(pp []int) uint64 {
	var m uint64
	for _, p := range pp {
		m |= 1 << uint(p)
	}
	return m
}
