package pdfstrict

// This file checks the READER against real pdfcpu output; it is the only file
// of the package that imports pdfcpu (test only).

import (
	"bytes"
	"fmt"
	"math/rand"
	"os"
	"path/filepath"
	"sort"
	"strings"
	"testing"

	"github.com/pdfcpu/pdfcpu/pkg/api"
	"github.com/pdfcpu/pdfcpu/pkg/filter"
	"github.com/pdfcpu/pdfcpu/pkg/pdfcpu/model"
	"github.com/pdfcpu/pdfcpu/pkg/pdfcpu/types"
)

// files chosen for variety: pdfcpu-written and foreign, small and large,
// linearized/incremental originals, xref streams, hybrid, forms, images.
var pdfcpuOutFiles = []string{
	"pkg/testdata/Acroforms2.pdf", "pkg/testdata/CenterOfWhy.pdf", "pkg/testdata/Hybrid-PDF.pdf",
	"pkg/testdata/OptimizeTest.pdf", "pkg/testdata/T4.pdf", "pkg/testdata/T6.pdf",
	"pkg/testdata/VectorApple.pdf", "pkg/testdata/Walden.pdf", "pkg/testdata/WaldenFull.pdf",
	"pkg/testdata/Wonderwall.pdf", "pkg/testdata/adobe_errata.pdf", "pkg/testdata/annotTest.pdf",
	"pkg/testdata/bookletTest.pdf", "pkg/testdata/empty.pdf", "pkg/testdata/go.pdf",
	"pkg/testdata/grid_example.pdf", "pkg/testdata/mountain.pdf", "pkg/testdata/read.go.pdf",
	"pkg/testdata/test.pdf", "pkg/testdata/testImage.pdf", "pkg/testdata/testRot.pdf",
	"pkg/testdata/testWithText.pdf", "pkg/testdata/text_annotations.pdf", "pkg/testdata/zineTest.pdf",
	"pkg/samples/basic/UserFont_CJKV.pdf", "pkg/samples/basic/Test.pdf",
}

// knownPdfcpuFinding lists defects in pdfcpu OUTPUT that were confirmed by hand
// (hexdump of the cross-reference section) to be real deviations from
// ISO 32000-1, not reader errors. They are reported, not hidden: the checks in
// the library stay as they are. Anything not listed here fails the test.
//
//  1. pdfcpu gives objects it does not write (the input's XRef stream and
//     object streams, objects dropped by optimisation) NO cross-reference entry
//     at all, neither in-use nor free. With a classic table this produces
//     several subsections in a file that was never incrementally updated
//     (§7.5.4: "shall contain only one subsection, whose object numbering
//     begins at 0"). Example: mountain.pdf, WriteXRefStream=false: "xref\n0 4\n
//     ...5 4\n..." (objects 4 and 9 have no entry).
//  2. When the highest-numbered objects are among those (typically the input's
//     XRef stream / object streams) /Size keeps the input's value, so
//     /Size > highest object number + 1 (§7.5.5 Table 15: "shall be 1 greater
//     than the highest object number"). Seen with WriteXRefStream=false and with
//     WriteXRefStream=true + WriteObjectStream=false. Example: mountain.pdf
//     (input objects 1..9, 9 = XRef stream, 8 = ObjStm):
//     classic: "xref 0 4 ... 5 4 ... trailer <<.../Size 10>>", highest entry 8;
//     xref stream: "8 0 obj <</Index[0 4 5 4].../Size 10/Type/XRef/W[1 3 2]>>".
func knownPdfcpuFinding(d *Doc, df Defect, wc writerConf) (string, bool) {
	s0 := d.Sections()[0]
	switch {
	case df.Kind == KindXRefOriginalSubsect && !wc.xrefStream:
		return "objects not written get no xref entry -> several subsections in an original table", true
	case df.Kind == KindTrailerSize && !(wc.xrefStream && wc.objStream) && s0.Size > int64(s0.MaxNum)+1:
		return "stale /Size: larger than highest object number + 1 when the highest-numbered input objects are not written", true
	}
	return "", false
}

type writerConf struct {
	xrefStream, objStream bool
	eol                   string
	eolName               string
}

func optimizeWith(t *testing.T, in, out string, wc writerConf) error {
	t.Helper()
	conf := model.NewDefaultConfiguration()
	conf.Offline = true
	conf.WriteXRefStream = wc.xrefStream
	conf.WriteObjectStream = wc.objStream
	conf.Eol = wc.eol
	var err error
	func() {
		defer func() {
			if r := recover(); r != nil {
				err = fmt.Errorf("pdfcpu panic: %v", r)
			}
		}()
		err = api.OptimizeFile(in, out, conf)
	}()
	return err
}

// TestPdfcpuOutput asserts that pdfstrict finds zero defects in what pdfcpu
// writes (EolLF and EolCRLF, xref stream / object stream on and off) and
// agrees with pdfcpu on the page count.
func TestPdfcpuOutput(t *testing.T) {
	api.DisableConfigDir()
	dir := t.TempDir()
	confs := []writerConf{}
	for _, e := range []struct{ eol, name string }{{types.EolLF, "LF"}, {types.EolCRLF, "CRLF"}} {
		confs = append(confs,
			writerConf{true, true, e.eol, e.name}, writerConf{true, false, e.eol, e.name},
			writerConf{false, false, e.eol, e.name}, writerConf{false, true, e.eol, e.name})
	}
	outputs := 0
	kinds := map[string][]string{}
	findings := map[string]int{}
	for _, rel := range pdfcpuOutFiles {
		in := filepath.Join(repoDir(), rel)
		if _, err := os.Stat(in); err != nil {
			t.Logf("skip %s: %v", rel, err)
			continue
		}
		for ci, wc := range confs {
			tag := fmt.Sprintf("%s xrefstm=%v objstm=%v eol=%s", filepath.Base(rel), wc.xrefStream, wc.objStream, wc.eolName)
			out := filepath.Join(dir, fmt.Sprintf("%d_%s", ci, filepath.Base(rel)))
			if err := optimizeWith(t, in, out, wc); err != nil {
				t.Logf("%s: OptimizeFile failed (not a reader matter): %v", tag, err)
				continue
			}
			data, err := os.ReadFile(out)
			if err != nil {
				t.Fatal(err)
			}
			outputs++
			d, err := Open(data, Options{})
			if err != nil {
				t.Errorf("%s: Open: %v", tag, err)
				continue
			}
			pages, perr := d.Pages()
			if perr != nil {
				t.Errorf("%s: Pages: %v", tag, perr)
			}
			for _, p := range pages {
				if p.ContentErr != nil {
					t.Errorf("%s: page %v content: %v", tag, p.Ref, p.ContentErr)
				}
			}
			shown := 0
			for _, df := range d.Defects {
				kinds[df.Kind] = append(kinds[df.Kind], tag)
				if reason, known := knownPdfcpuFinding(d, df, wc); known {
					findings[df.Kind+": "+reason]++
					if findings[df.Kind+": "+reason] <= 2 {
						t.Logf("PDFCPU FINDING (%s) %s: %v", reason, tag, df)
					}
					continue
				}
				if shown++; shown <= 5 {
					ctx := ""
					if df.Offset >= 0 && df.Offset < int64(len(data)) {
						lo, hi := df.Offset-24, df.Offset+40
						if lo < 0 {
							lo = 0
						}
						if hi > int64(len(data)) {
							hi = int64(len(data))
						}
						ctx = fmt.Sprintf(" bytes[%d:%d]=%q", lo, hi, data[lo:hi])
					}
					t.Errorf("%s: DEFECT %v%s", tag, df, ctx)
				}
			}
			want, err := api.PageCountFile(out)
			if err != nil {
				t.Errorf("%s: PageCountFile: %v", tag, err)
			} else if want != len(pages) {
				t.Errorf("%s: pdfstrict sees %d pages, pdfcpu %d", tag, len(pages), want)
			}
			// structure matches the configuration
			s0 := d.Sections()[0]
			if len(d.Sections()) != 1 {
				t.Errorf("%s: %d sections in a fresh write", tag, len(d.Sections()))
			}
			// (WriteObjectStream without WriteXRefStream writes no object streams
			// when the configuration is set programmatically)
			if s0.IsStream != wc.xrefStream {
				t.Errorf("%s: xref stream = %v", tag, s0.IsStream)
			}
			compressed := 0
			for _, n := range d.Objects() {
				if e, _ := d.Entry(n); e.Type == Compressed {
					compressed++
				}
				if _, err := d.Get(Ref{n, 0}); err != nil {
					if e, _ := d.Entry(n); e.Gen == 0 {
						t.Errorf("%s: Get(%d): %v", tag, n, err)
					}
				}
			}
			if (compressed > 0) != (wc.objStream && wc.xrefStream) {
				t.Errorf("%s: %d compressed objects", tag, compressed)
			}
			// canonical form and deep hashes are computable and stable
			c1 := d.CanonicalHash(d.Trailer()["Root"], CanonOpts{})
			d2, _ := Open(data, Options{})
			if c2 := d2.CanonicalHash(d2.Trailer()["Root"], CanonOpts{}); c1 != c2 {
				t.Errorf("%s: canonical hash not deterministic", tag)
			}
		}
	}
	if outputs < 100 {
		t.Errorf("only %d pdfcpu outputs were checked", outputs)
	}
	t.Logf("%d pdfcpu outputs checked", outputs)
	for k, n := range findings {
		t.Logf("PDFCPU FINDING in %d outputs: %s", n, k)
	}
	var ks []string
	for k := range kinds {
		ks = append(ks, k)
	}
	sort.Strings(ks)
	for _, k := range ks {
		t.Logf("kind %-20s in %d outputs, e.g. %s", k, len(kinds[k]), kinds[k][0])
	}
}

// TestPdfcpuOutputCanonicalAcrossConfigs: the four writer configurations of
// one input must give the same canonical document (minus encoding details).
func TestPdfcpuOutputCanonicalAcrossConfigs(t *testing.T) {
	api.DisableConfigDir()
	dir := t.TempDir()
	drop := CanonOpts{DropKeys: map[string]bool{"ID": true, "ModDate": true, "CreationDate": true, "Producer": true}, DropNullEntries: true}
	for _, rel := range []string{"pkg/testdata/Acroforms2.pdf", "pkg/testdata/Walden.pdf", "pkg/testdata/testImage.pdf", "pkg/testdata/annotTest.pdf"} {
		in := filepath.Join(repoDir(), rel)
		var ref string
		var refPages []Page
		for ci, wc := range []writerConf{{true, true, types.EolLF, "LF"}, {false, false, types.EolLF, "LF"}, {true, false, types.EolCRLF, "CRLF"}} {
			out := filepath.Join(dir, fmt.Sprintf("c%d_%s", ci, filepath.Base(rel)))
			if err := optimizeWith(t, in, out, wc); err != nil {
				t.Fatalf("%s: %v", rel, err)
			}
			data, _ := os.ReadFile(out)
			d := mustOpen(t, data)
			pages, _ := d.Pages()
			// the catalog is compared; the trailer differs (XRef stream keys)
			c := d.Canonical(d.Trailer()["Root"], drop)
			if ci == 0 {
				ref, refPages = c, pages
				continue
			}
			if c != ref {
				t.Errorf("%s: canonical form of config %d differs from config 0 (%d vs %d bytes)", rel, ci, len(c), len(ref))
			}
			if len(pages) != len(refPages) {
				t.Fatalf("%s: page count differs", rel)
			}
			for i := range pages {
				if !bytes.Equal(pages[i].Content, refPages[i].Content) || pages[i].MediaBox != refPages[i].MediaBox || pages[i].Rotate != refPages[i].Rotate {
					t.Errorf("%s: page %d differs between configs", rel, i+1)
				}
				if d.DeepHashOpts(pages[i].Resources, drop) == "" {
					t.Error("empty deep hash")
				}
			}
		}
	}
}

// TestPdfcpuEolCR documents what pdfcpu writes with Eol = CR: ISO 32000-1
// §7.3.8.1 forbids a lone CR after the stream keyword. This is an observation
// about pdfcpu (reported, not asserted as a reader failure): the test only
// requires that pdfstrict flags nothing else.
func TestPdfcpuEolCR(t *testing.T) {
	api.DisableConfigDir()
	dir := t.TempDir()
	in := filepath.Join(repoDir(), "pkg/testdata/Walden.pdf")
	for _, wc := range []writerConf{{true, true, types.EolCR, "CR"}, {false, false, types.EolCR, "CR"}} {
		out := filepath.Join(dir, fmt.Sprintf("cr_%v.pdf", wc.xrefStream))
		if err := optimizeWith(t, in, out, wc); err != nil {
			t.Fatalf("OptimizeFile: %v", err)
		}
		data, _ := os.ReadFile(out)
		d, err := Open(data, Options{})
		if err != nil {
			t.Logf("EolCR xrefstm=%v: hard error %v", wc.xrefStream, err)
			continue
		}
		d.Pages()
		var ks []string
		for k, n := range d.DefectKinds() {
			ks = append(ks, fmt.Sprintf("%s=%d", k, n))
		}
		sort.Strings(ks)
		t.Logf("EolCR xrefstm=%v objstm=%v: %s", wc.xrefStream, wc.objStream, strings.Join(ks, " "))
		for k := range d.DefectKinds() {
			if k != KindStreamEOL && !(k == KindXRefOriginalSubsect && !wc.xrefStream) {
				t.Errorf("EolCR xrefstm=%v: unexpected kind %s", wc.xrefStream, k)
			}
		}
	}
}

// TestFiltersAgainstPdfcpuEncoders cross-checks this package's decoders with
// pdfcpu's encoders (LZW with EarlyChange 1 has no std encoder).
func TestFiltersAgainstPdfcpuEncoders(t *testing.T) {
	rng := rand.New(rand.NewSource(5))
	for _, name := range []string{filter.LZW, filter.Flate, filter.ASCII85, filter.ASCIIHex, filter.RunLength} {
		for _, n := range []int{0, 1, 5, 300, 5000, 120000} {
			b := make([]byte, n)
			for i := range b {
				b[i] = byte(rng.Intn(1 + rng.Intn(255)))
			}
			f, err := filter.NewFilter(name, nil)
			if err != nil {
				t.Fatal(err)
			}
			enc, err := f.Encode(bytes.NewReader(b))
			if err != nil {
				t.Logf("%s n=%d: pdfcpu encoder: %v", name, n, err)
				continue
			}
			var ebuf bytes.Buffer
			ebuf.ReadFrom(enc)
			got, opaque, err := Decode(ebuf.Bytes(), Dict{"Filter": Name(name)}, nil, 0)
			if err != nil || opaque || !bytes.Equal(got, b) {
				t.Errorf("%s n=%d: err=%v opaque=%v equal=%v", name, n, err, opaque, bytes.Equal(got, b))
			}
		}
	}
}
