package pdfstrict

import (
	"errors"
	"fmt"
	"math"
	"strconv"
)

// MaxDepth bounds the nesting depth of arrays and dictionaries.
const MaxDepth = 200

var errEOF = errors.New("unexpected end of data")

// warnFunc receives soft syntax problems that do not stop parsing.
type warnFunc func(kind, msg string, off int)

// parser is a cursor over PDF syntax (ISO 32000-1 §7.2, §7.3).
type parser struct {
	data []byte
	pos  int
	warn warnFunc
}

func isWS(c byte) bool {
	switch c {
	case 0, 9, 10, 12, 13, 32:
		return true
	}
	return false
}

func isDelim(c byte) bool {
	switch c {
	case '(', ')', '<', '>', '[', ']', '{', '}', '/', '%':
		return true
	}
	return false
}

func isRegular(c byte) bool { return !isWS(c) && !isDelim(c) }

func isDigit(c byte) bool { return c >= '0' && c <= '9' }

func hexVal(c byte) int {
	switch {
	case c >= '0' && c <= '9':
		return int(c - '0')
	case c >= 'a' && c <= 'f':
		return int(c-'a') + 10
	case c >= 'A' && c <= 'F':
		return int(c-'A') + 10
	}
	return -1
}

func (p *parser) eof() bool { return p.pos >= len(p.data) }

func (p *parser) warnf(kind string, off int, format string, a ...interface{}) {
	if p.warn != nil {
		p.warn(kind, fmt.Sprintf(format, a...), off)
	}
}

// skipWS skips white space and comments.
func (p *parser) skipWS() {
	for p.pos < len(p.data) {
		c := p.data[p.pos]
		if isWS(c) {
			p.pos++
			continue
		}
		if c == '%' {
			for p.pos < len(p.data) && p.data[p.pos] != '\n' && p.data[p.pos] != '\r' {
				p.pos++
			}
			continue
		}
		return
	}
}

// skipPlainWS skips white space only (no comments); returns number skipped.
func (p *parser) skipPlainWS() int {
	n := 0
	for p.pos < len(p.data) && isWS(p.data[p.pos]) {
		p.pos++
		n++
	}
	return n
}

// hasKeyword reports whether the regular-character token at pos equals kw
// (kw followed by a non-regular character or end of data).
func (p *parser) hasKeyword(kw string) bool {
	end := p.pos + len(kw)
	if end > len(p.data) || string(p.data[p.pos:end]) != kw {
		return false
	}
	return end == len(p.data) || !isRegular(p.data[end])
}

// token reads a run of regular characters.
func (p *parser) token() string {
	start := p.pos
	for p.pos < len(p.data) && isRegular(p.data[p.pos]) {
		p.pos++
	}
	return string(p.data[start:p.pos])
}

// readEOL consumes one end-of-line marker (CRLF, LF or CR); returns which.
func (p *parser) readEOL() string {
	if p.pos < len(p.data) {
		switch p.data[p.pos] {
		case '\r':
			if p.pos+1 < len(p.data) && p.data[p.pos+1] == '\n' {
				p.pos += 2
				return "\r\n"
			}
			p.pos++
			return "\r"
		case '\n':
			p.pos++
			return "\n"
		}
	}
	return ""
}

// uintToken reads a run of decimal digits; ok=false if none or overflow.
func (p *parser) uintToken() (int64, bool) {
	start := p.pos
	for p.pos < len(p.data) && isDigit(p.data[p.pos]) {
		p.pos++
	}
	if p.pos == start || p.pos-start > 19 {
		return 0, false
	}
	v, err := strconv.ParseInt(string(p.data[start:p.pos]), 10, 64)
	if err != nil {
		return 0, false
	}
	return v, true
}

// parseObject parses one direct object (or an indirect reference).
func (p *parser) parseObject(depth int) (Object, error) {
	if depth > MaxDepth {
		return nil, fmt.Errorf("nesting deeper than %d at offset %d", MaxDepth, p.pos)
	}
	p.skipWS()
	if p.eof() {
		return nil, errEOF
	}
	c := p.data[p.pos]
	switch {
	case c == '/':
		return p.parseName()
	case c == '(':
		return p.parseLiteralString()
	case c == '<':
		if p.pos+1 < len(p.data) && p.data[p.pos+1] == '<' {
			return p.parseDict(depth)
		}
		return p.parseHexString()
	case c == '[':
		return p.parseArray(depth)
	case isDigit(c) || c == '+' || c == '-' || c == '.':
		return p.parseNumberOrRef()
	case isDelim(c):
		return nil, fmt.Errorf("unexpected delimiter %q at offset %d", c, p.pos)
	}
	start := p.pos
	switch tok := p.token(); tok {
	case "true":
		return Bool(true), nil
	case "false":
		return Bool(false), nil
	case "null":
		return Null{}, nil
	default:
		p.pos = start
		if len(tok) > 24 {
			tok = tok[:24] + "..."
		}
		return nil, fmt.Errorf("unexpected token %q at offset %d", tok, start)
	}
}

// parseNumber validates and converts a numeric token.
func parseNumber(tok string) (Object, error) {
	s := tok
	if s == "" {
		return nil, errors.New("empty number")
	}
	if s[0] == '+' || s[0] == '-' {
		s = s[1:]
	}
	digits, dots := 0, 0
	for i := 0; i < len(s); i++ {
		switch {
		case isDigit(s[i]):
			digits++
		case s[i] == '.':
			dots++
		default:
			return nil, fmt.Errorf("malformed number %q", tok)
		}
	}
	if digits == 0 || dots > 1 {
		return nil, fmt.Errorf("malformed number %q", tok)
	}
	if dots == 0 {
		v, err := strconv.ParseInt(tok, 10, 64)
		if err == nil {
			return Int(v), nil
		}
		// out of range integers become reals (ISO 32000-1 §7.3.3)
	}
	f, err := strconv.ParseFloat(tok, 64)
	if err != nil && !(errors.Is(err, strconv.ErrRange) && !math.IsNaN(f)) {
		return nil, fmt.Errorf("malformed number %q", tok)
	}
	if math.IsInf(f, 0) {
		f = math.Copysign(math.MaxFloat64, f)
	}
	return Real(f), nil
}

func (p *parser) parseNumberOrRef() (Object, error) {
	start := p.pos
	tok := p.token()
	if len(tok) > 400 {
		return nil, fmt.Errorf("numeric token too long at offset %d", start)
	}
	o, err := parseNumber(tok)
	if err != nil {
		p.pos = start
		return nil, fmt.Errorf("%v at offset %d", err, start)
	}
	n, ok := o.(Int)
	if !ok || n < 0 || !isDigit(tok[0]) || int64(n) > math.MaxInt32 {
		return o, nil
	}
	// look ahead for "gen R"
	save := p.pos
	p.skipWS()
	if !p.eof() && isDigit(p.data[p.pos]) {
		g, ok := p.uintToken()
		if ok && g <= 65535 && !p.eof() && isWS(p.data[p.pos]) {
			p.skipWS()
			if p.hasKeyword("R") {
				p.pos++
				return Ref{Num: int(n), Gen: int(g)}, nil
			}
		}
	}
	p.pos = save
	return o, nil
}

func (p *parser) parseName() (Object, error) {
	start := p.pos
	p.pos++ // '/'
	var out []byte
	for p.pos < len(p.data) && isRegular(p.data[p.pos]) {
		c := p.data[p.pos]
		if c == '#' {
			if p.pos+2 < len(p.data) {
				h, l := hexVal(p.data[p.pos+1]), hexVal(p.data[p.pos+2])
				if h >= 0 && l >= 0 {
					out = append(out, byte(h<<4|l))
					p.pos += 3
					continue
				}
			}
			p.warnf(KindNameEscape, p.pos, "'#' in name at offset %d is not followed by two hex digits", start)
		}
		out = append(out, c)
		p.pos++
	}
	return Name(out), nil
}

func (p *parser) parseLiteralString() (Object, error) {
	start := p.pos
	p.pos++ // '('
	depth := 1
	out := []byte{}
	for {
		if p.eof() {
			return nil, fmt.Errorf("unterminated literal string starting at offset %d", start)
		}
		c := p.data[p.pos]
		p.pos++
		switch c {
		case '(':
			depth++
			out = append(out, c)
		case ')':
			depth--
			if depth == 0 {
				return String(out), nil
			}
			out = append(out, c)
		case '\r':
			// a bare EOL is always read as a single LF
			if !p.eof() && p.data[p.pos] == '\n' {
				p.pos++
			}
			out = append(out, '\n')
		case '\\':
			if p.eof() {
				return nil, fmt.Errorf("unterminated literal string starting at offset %d", start)
			}
			e := p.data[p.pos]
			p.pos++
			switch e {
			case 'n':
				out = append(out, '\n')
			case 'r':
				out = append(out, '\r')
			case 't':
				out = append(out, '\t')
			case 'b':
				out = append(out, '\b')
			case 'f':
				out = append(out, '\f')
			case '(', ')', '\\':
				out = append(out, e)
			case '\r':
				if !p.eof() && p.data[p.pos] == '\n' {
					p.pos++
				}
			case '\n':
				// line continuation
			default:
				if e >= '0' && e <= '7' {
					v := int(e - '0')
					for i := 0; i < 2 && !p.eof() && p.data[p.pos] >= '0' && p.data[p.pos] <= '7'; i++ {
						v = v<<3 | int(p.data[p.pos]-'0')
						p.pos++
					}
					out = append(out, byte(v)) // high-order overflow ignored
				} else {
					// unknown escape: the backslash is ignored
					out = append(out, e)
				}
			}
		default:
			out = append(out, c)
		}
	}
}

func (p *parser) parseHexString() (Object, error) {
	start := p.pos
	p.pos++ // '<'
	out := []byte{}
	hi := -1
	for {
		if p.eof() {
			return nil, fmt.Errorf("unterminated hex string starting at offset %d", start)
		}
		c := p.data[p.pos]
		p.pos++
		if c == '>' {
			if hi >= 0 {
				out = append(out, byte(hi<<4))
			}
			return String(out), nil
		}
		if isWS(c) {
			continue
		}
		v := hexVal(c)
		if v < 0 {
			return nil, fmt.Errorf("invalid character %q in hex string at offset %d", c, p.pos-1)
		}
		if hi < 0 {
			hi = v
		} else {
			out = append(out, byte(hi<<4|v))
			hi = -1
		}
	}
}

func (p *parser) parseArray(depth int) (Object, error) {
	start := p.pos
	p.pos++ // '['
	arr := Array{}
	for {
		p.skipWS()
		if p.eof() {
			return nil, fmt.Errorf("unterminated array starting at offset %d", start)
		}
		if p.data[p.pos] == ']' {
			p.pos++
			return arr, nil
		}
		o, err := p.parseObject(depth + 1)
		if err != nil {
			return nil, err
		}
		arr = append(arr, o)
	}
}

func (p *parser) parseDict(depth int) (Dict, error) {
	start := p.pos
	p.pos += 2 // '<<'
	d := Dict{}
	for {
		p.skipWS()
		if p.eof() {
			return nil, fmt.Errorf("unterminated dictionary starting at offset %d", start)
		}
		if p.data[p.pos] == '>' {
			if p.pos+1 < len(p.data) && p.data[p.pos+1] == '>' {
				p.pos += 2
				return d, nil
			}
			return nil, fmt.Errorf("stray '>' in dictionary at offset %d", p.pos)
		}
		if p.data[p.pos] != '/' {
			return nil, fmt.Errorf("dictionary key is not a name at offset %d", p.pos)
		}
		koff := p.pos
		k, _ := p.parseName()
		v, err := p.parseObject(depth + 1)
		if err != nil {
			return nil, err
		}
		key := string(k.(Name))
		if _, dup := d[key]; dup {
			p.warnf(KindDictDupKey, koff, "duplicate dictionary key /%s", key)
		}
		d[key] = v
	}
}

// ParseObject parses a single direct object from b (for tests and callers that
// need to read fragments). It returns the object and the number of bytes used.
func ParseObject(b []byte) (Object, int, error) {
	p := &parser{data: b}
	o, err := p.parseObject(0)
	return o, p.pos, err
}
