package pdfstrict

import (
	"bytes"
	"compress/zlib"
	"fmt"
	"strings"
	"testing"
)

// ---------------------------------------------------------------- helpers

// patch replaces the single occurrence of old in data.
func patch(t *testing.T, data []byte, old, new string) []byte {
	t.Helper()
	if n := bytes.Count(data, []byte(old)); n != 1 {
		t.Fatalf("patch: %q occurs %d times", old, n)
	}
	return bytes.Replace(data, []byte(old), []byte(new), 1)
}

func mustOpen(t *testing.T, data []byte) *Doc {
	t.Helper()
	d, err := Open(data, Options{})
	if err != nil {
		t.Fatalf("Open: %v", err)
	}
	return d
}

func wantClean(t *testing.T, d *Doc) {
	t.Helper()
	if _, err := d.Pages(); err != nil {
		t.Errorf("Pages: %v", err)
	}
	for _, x := range d.Defects {
		t.Errorf("unexpected defect: %v", x)
	}
}

// wantKind asserts that kind was reported and (unless others are listed as
// allowed) nothing else.
func wantKind(t *testing.T, d *Doc, kind string, alsoAllowed ...string) {
	t.Helper()
	d.Pages()
	if !d.HasDefect(kind) {
		t.Errorf("defect %q not reported; got %v", kind, d.Defects)
	}
	ok := map[string]bool{kind: true}
	for _, k := range alsoAllowed {
		ok[k] = true
	}
	for _, x := range d.Defects {
		if !ok[x.Kind] {
			t.Errorf("while expecting %q: unexpected defect %v", kind, x)
		}
	}
}

type fx struct {
	buf  bytes.Buffer
	offs map[int]int
}

func newFx() *fx {
	f := &fx{offs: map[int]int{}}
	f.buf.WriteString("%PDF-1.7\n%\xe2\xe3\xcf\xd3\n")
	return f
}

func (f *fx) obj(num int, body string) {
	f.offs[num] = f.buf.Len()
	fmt.Fprintf(&f.buf, "%d 0 obj\n%s\nendobj\n", num, body)
}

func (f *fx) streamObj(num int, dict string, data []byte, eolAfterStream, eolBeforeEnd string) {
	f.offs[num] = f.buf.Len()
	fmt.Fprintf(&f.buf, "%d 0 obj\n%s\nstream%s", num, dict, eolAfterStream)
	f.buf.Write(data)
	fmt.Fprintf(&f.buf, "%sendstream\nendobj\n", eolBeforeEnd)
}

func inUse(off int) string { return fmt.Sprintf("%010d 00000 n \n", off) }
func free(next, gen int) string {
	return fmt.Sprintf("%010d %05d f \n", next, gen)
}

// ---------------------------------------------------------------- classic fixture

const (
	body1 = "<</Type/Catalog/Pages 2 0 R/Lang(x)/Land(y)>>"
	body2 = "<</Type/Pages/Kids[3 0 R]/Count 1/MediaBox[0 0 200 100]/Rotate 90>>"
	body3 = "<</Type/Page/Parent 2 0 R/Contents[4 0 R 7 0 R]/Resources<</ProcSet[/PDF]>>>>"
)

type classicFx struct {
	data    []byte
	offs    map[int]int
	xrefOff int
}

// classic builds: 1 catalog, 2 pages, 3 page, 4 stream (indirect /Length 5 0 R),
// 5 integer, 6 free (gen 1), 7 stream (CRLF after "stream", direct /Length).
func classic(trailerExtra string) classicFx {
	f := newFx()
	f.obj(1, body1)
	f.obj(2, body2)
	f.obj(3, body3)
	f.streamObj(4, "<</Length 5 0 R>>", []byte("BT ET"), "\n", "\n")
	f.obj(5, "5")
	f.streamObj(7, "<</Length 3     >>", []byte("q Q"), "\r\n", "\r\n")
	x := f.buf.Len()
	f.buf.WriteString("xref\n0 8\n")
	f.buf.WriteString(free(6, 65535))
	for n := 1; n <= 5; n++ {
		f.buf.WriteString(inUse(f.offs[n]))
	}
	f.buf.WriteString(free(0, 1))
	f.buf.WriteString(inUse(f.offs[7]))
	fmt.Fprintf(&f.buf, "trailer\n<</Size 8/Root 1 0 R%s>>\nstartxref\n%d\n%%%%EOF\n", trailerExtra, x)
	return classicFx{data: f.buf.Bytes(), offs: f.offs, xrefOff: x}
}

func TestClassicValid(t *testing.T) {
	c := classic("")
	d := mustOpen(t, c.data)
	wantClean(t, d)
	if d.Version != "1.7" || d.StartXRef != int64(c.xrefOff) {
		t.Errorf("version %q startxref %d", d.Version, d.StartXRef)
	}
	if got := fmt.Sprint(d.Objects()); got != "[1 2 3 4 5 7]" {
		t.Errorf("Objects = %s", got)
	}
	pages, err := d.Pages()
	if err != nil || len(pages) != 1 {
		t.Fatalf("pages %v %v", pages, err)
	}
	p := pages[0]
	if p.Ref != (Ref{3, 0}) || p.Rotate != 90 || p.MediaBox != [4]float64{0, 0, 200, 100} || p.CropBox != p.MediaBox || !p.HasMediaBox || p.HasCropBox {
		t.Errorf("page attributes wrong: %+v", p)
	}
	if string(p.Content) != "BT ET\nq Q" || p.ContentErr != nil {
		t.Errorf("content %q err %v", p.Content, p.ContentErr)
	}
	if _, ok := p.Resources["ProcSet"]; !ok {
		t.Errorf("resources %v", p.Resources)
	}
	o, err := d.Get(Ref{6, 1})
	if err != nil || !IsNull(o) {
		t.Errorf("free object: %v %v", o, err)
	}
	if o, _ := d.Get(Ref{1, 3}); !IsNull(o) {
		t.Errorf("wrong generation must give null, got %v", o)
	}
	if s, ok := d.Resolve(Ref{7, 0}).(*Stream); !ok || string(s.Raw) != "q Q" || !s.LengthOK {
		t.Errorf("stream 7: %+v", s)
	}
	if len(d.Sections()) != 1 || d.Sections()[0].Subsections[0] != (Subsection{0, 8}) {
		t.Errorf("sections %+v", d.Sections())
	}
}

// every EOL convention for the whole file, and all three legal entry EOLs
func TestClassicEOLVariants(t *testing.T) {
	c := classic("")
	for _, eol := range []string{"\r\n", "\r"} {
		// rebuild by hand: offsets change with CRLF, so build from parts
		f := &fx{offs: map[int]int{}}
		w := func(s string) { f.buf.WriteString(strings.ReplaceAll(s, "\n", eol)) }
		w("%PDF-1.7\n")
		for _, o := range []struct {
			n int
			b string
		}{{1, body1}, {2, body2}, {3, "<</Type/Page/Parent 2 0 R>>"}} {
			f.offs[o.n] = f.buf.Len()
			w(fmt.Sprintf("%d 0 obj\n%s\nendobj\n", o.n, o.b))
		}
		x := f.buf.Len()
		w("xref\n0 4\n")
		ent := func(s string) {
			if eol == "\r\n" {
				f.buf.WriteString(s[:18] + "\r\n")
			} else {
				f.buf.WriteString(s[:18] + " \r")
			}
		}
		ent(free(0, 65535))
		ent(inUse(f.offs[1]))
		ent(inUse(f.offs[2]))
		ent(inUse(f.offs[3]))
		w(fmt.Sprintf("trailer\n<</Size 4/Root 1 0 R>>\nstartxref\n%d\n%%%%EOF\n", x))
		d := mustOpen(t, f.buf.Bytes())
		wantClean(t, d)
	}
	_ = c
}

func TestClassicDefects(t *testing.T) {
	c := classic("")
	entry := func(n int) string { return strings.TrimSuffix(inUse(c.offs[n]), " \n") }
	shifted := func(n, delta int) string { return strings.TrimSuffix(inUse(c.offs[n]+delta), " \n") }
	sx := fmt.Sprintf("startxref\n%d\n", c.xrefOff)

	cases := []struct {
		name    string
		kind    string
		mutate  func() []byte
		allowed []string
		hard    bool
	}{
		{"header version", KindHeader, func() []byte { return patch(t, c.data, "%PDF-1.7", "%PDF-3.7") }, nil, false},
		{"header no eol", KindHeader, func() []byte { return patch(t, c.data, "%PDF-1.7\n", "%PDF-1.7 ") }, nil, false},
		{"startxref off by one", KindStartXRefTarget, func() []byte {
			return patch(t, c.data, sx, fmt.Sprintf("startxref\n%d\n", c.xrefOff+1))
		}, nil, true},
		{"startxref one before", KindStartXRefTarget, func() []byte {
			return patch(t, c.data, sx, fmt.Sprintf("startxref\n%d\n", c.xrefOff-1))
		}, nil, true},
		{"startxref same line", KindStartXRefSyntax, func() []byte { return patch(t, c.data, "startxref\n", "startxref ") }, nil, false},
		{"eof marker", KindEOFMarker, func() []byte { return patch(t, c.data, "%%EOF", "%%EOG") }, nil, false},
		{"eof trailing", KindEOFTrailing, func() []byte { return append(append([]byte{}, c.data...), "junk"...) }, nil, false},
		{"xref keyword eol", KindXRefKeywordEOL, func() []byte { return patch(t, c.data, "xref\n0 8", "xref 0 8") }, nil, false},
		{"subsection head two spaces", KindXRefSubsectionHead, func() []byte { return patch(t, c.data, "xref\n0 8\n", "xref\n0  8\n") }, nil, false},
		{"subsection head trailing space", KindXRefSubsectionHead, func() []byte { return patch(t, c.data, "xref\n0 8\n", "xref\n0 8 \n") }, nil, false},
		{"subsection count too small", KindXRefSubsectionCount, func() []byte { return patch(t, c.data, "xref\n0 8\n", "xref\n0 7\n") },
			[]string{KindTrailerSize, KindSectionSize}, false},
		{"subsection count too large", KindXRefSubsectionCount, func() []byte { return patch(t, c.data, "xref\n0 8\n", "xref\n0 9\n") }, nil, false},
		{"entry 19 bytes", KindXRefEntryFormat, func() []byte { return patch(t, c.data, entry(2)+" \n", entry(2)+"\n") }, nil, false},
		{"entry LF CR", KindXRefEntryFormat, func() []byte { return patch(t, c.data, entry(2)+" \n", entry(2)+"\n\r") }, nil, false},
		{"entry short offset", KindXRefEntryFormat, func() []byte { return patch(t, c.data, entry(2)+" \n", entry(2)[1:]+"  \n") }, nil, false},
		{"duplicate entry", KindXRefDuplicate, func() []byte {
			return patch(t, c.data, "trailer\n", "7 1\n"+inUse(c.offs[7])+"trailer\n")
		}, []string{KindXRefOriginalSubsect}, false},
		{"original table in two subsections", KindXRefOriginalSubsect, func() []byte {
			b := patch(t, c.data, "xref\n0 8\n", "xref\n0 7\n")
			return patch(t, b, inUse(c.offs[7])+"trailer\n", "7 1\n"+inUse(c.offs[7])+"trailer\n")
		}, nil, false},
		{"original table not starting at 0", KindXRefOriginalSubsect, func() []byte {
			b := patch(t, c.data, "xref\n0 8\n"+free(6, 65535), "xref\n1 7\n")
			return b
		}, []string{KindFreeHead, KindFreeNotOnChain}, false},
		{"size too large", KindTrailerSize, func() []byte { return patch(t, c.data, "/Size 8", "/Size 9") }, nil, false},
		{"size too small", KindSectionSize, func() []byte { return patch(t, c.data, "/Size 8", "/Size 7") }, []string{KindTrailerSize}, false},
		{"size missing", KindTrailerSize, func() []byte { return patch(t, c.data, "/Size 8", "/Sizf 8") }, nil, false},
		{"no root", KindTrailerRoot, func() []byte { return patch(t, c.data, "/Root 1 0 R", "/Rool 1 0 R") }, nil, false},
		{"object 0 in use", KindFreeHead, func() []byte { return patch(t, c.data, free(6, 65535), "0000000006 65535 n \n") },
			[]string{KindObjOffset, KindFreeNotOnChain}, false},
		{"object 0 gen 0", KindFreeHeadGen, func() []byte { return patch(t, c.data, free(6, 65535), free(6, 0)) }, nil, false},
		{"free link to in-use", KindFreeChainBroken, func() []byte { return patch(t, c.data, free(6, 65535), free(5, 65535)) },
			[]string{KindFreeNotOnChain}, false},
		{"free link beyond table", KindFreeChainBroken, func() []byte { return patch(t, c.data, free(0, 1), free(99, 1)) }, nil, false},
		{"free loop", KindFreeLoop, func() []byte { return patch(t, c.data, free(0, 1), free(6, 1)) }, nil, false},
		{"free not on chain", KindFreeNotOnChain, func() []byte { return patch(t, c.data, free(6, 65535), free(0, 65535)) }, nil, false},
		{"offset +1", KindObjOffset, func() []byte { return patch(t, c.data, entry(7), shifted(7, 1)) }, nil, false},
		{"offset -1", KindObjOffset, func() []byte { return patch(t, c.data, entry(7), shifted(7, -1)) }, nil, false},
		{"offset beyond file", KindObjOffset, func() []byte { return patch(t, c.data, entry(7), "0000999999 00000 n") }, nil, false},
		{"wrong number", KindObjID, func() []byte { return patch(t, c.data, "\n7 0 obj", "\n9 0 obj") }, nil, false},
		{"wrong generation", KindObjID, func() []byte { return patch(t, c.data, entry(7), strings.Replace(entry(7), "00000 n", "00002 n", 1)) }, nil, false},
		{"body broken", KindObjParse, func() []byte { return patch(t, c.data, "/Land(y)>>", "/Land(y)>]") }, nil, false},
		{"no endobj", KindObjEndObj, func() []byte { return patch(t, c.data, "5\nendobj", "5\nendobk") }, nil, false},
		{"stream CR only", KindStreamEOL, func() []byte { return patch(t, c.data, "stream\nBT ET", "stream\rBT ET") }, nil, false},
		{"stream no eol", KindStreamEOL, func() []byte {
			return patch(t, c.data, "<</Length 3     >>\nstream\r\nq Q\r\n", "<</Length 5     >>\nstream  q Q\r\n")
		}, nil, false},
		{"length direct too long", KindStreamLength, func() []byte { return patch(t, c.data, "/Length 3", "/Length 6") }, nil, false},
		{"length direct too short", KindStreamLength, func() []byte { return patch(t, c.data, "/Length 3", "/Length 2") }, nil, false},
		{"length indirect wrong", KindStreamLength, func() []byte { return patch(t, c.data, "5\nendobj", "9\nendobj") }, nil, false},
		{"length indirect to free object", KindStreamLength, func() []byte { return patch(t, c.data, "/Length 5 0 R", "/Length 6 1 R") }, nil, false},
		{"length missing", KindStreamLength, func() []byte { return patch(t, c.data, "/Length 3", "/Lengtj 3") }, nil, false},
		{"length exceeds file", KindStreamLength, func() []byte { return patch(t, c.data, "/Length 3    ", "/Length 99999") }, nil, false},
		{"prev loop", KindPrevLoop, func() []byte { return classic(fmt.Sprintf("/Prev %d", classic("/Prev 1000").xrefOff)).data }, nil, false},
		{"prev nowhere", KindPrevTarget, func() []byte { return classic("/Prev 12").data }, nil, false},
		{"prev indirect", KindPrevTarget, func() []byte { return classic("/Prev 5 0 R").data }, nil, false},
		{"xrefstm nowhere", KindHybridTarget, func() []byte { return classic("/XRefStm 12").data }, nil, false},
		{"xrefstm to plain object", KindHybridTarget, func() []byte { cc := classic("/XRefStm 0015"); return cc.data }, nil, false},
		{"name escape", KindNameEscape, func() []byte { return patch(t, c.data, "/Lang(x)", "/L#ng(x)") }, nil, false},
		{"duplicate key", KindDictDupKey, func() []byte { return patch(t, c.data, "/Land(y)", "/Lang(y)") }, nil, false},
		{"pages count", KindPagesCount, func() []byte { return patch(t, c.data, "/Count 1", "/Count 2") }, nil, false},
		{"pages cycle", KindPagesTree, func() []byte { return patch(t, c.data, "/Kids[3 0 R]", "/Kids[2 0 R]") }, []string{KindPagesCount}, false},
	}
	seen := map[string]bool{}
	for _, tc := range cases {
		t.Run(tc.name, func(t *testing.T) {
			data := tc.mutate()
			d, err := Open(data, Options{})
			if tc.kind == KindStartXRefTarget {
				if err == nil {
					t.Errorf("expected a hard error")
				}
			} else if err != nil {
				t.Fatalf("Open: %v", err)
			}
			wantKind(t, d, tc.kind, tc.allowed...)
			seen[tc.kind] = true
		})
	}
	// Length one larger than the data is NOT detectable when the extra byte is
	// the EOL before endstream (the EOL is optional): must stay clean.
	t.Run("length swallowing the eol", func(t *testing.T) {
		wantClean(t, mustOpen(t, patch(t, c.data, "/Length 3", "/Length 5")))
	})
	t.Run("limit", func(t *testing.T) {
		d, err := Open(c.data, Options{MaxObjects: 3})
		if err == nil || !d.HasDefect(KindLimit) {
			t.Errorf("err=%v defects=%v", err, d.Defects)
		}
	})
	t.Run("hard errors", func(t *testing.T) {
		for _, b := range [][]byte{nil, []byte("hello"), []byte("%PDF-1.7\n"), []byte("%PDF-1.7\nstartxref\n"), []byte("%PDF-1.7\nstartxref\n5\n%%EOF")} {
			if _, err := Open(b, Options{}); err == nil {
				t.Errorf("no hard error for %q", b)
			}
		}
	})
	for _, k := range []string{KindHeader, KindStartXRefSyntax, KindStartXRefTarget, KindEOFMarker, KindEOFTrailing,
		KindXRefKeywordEOL, KindXRefSubsectionHead, KindXRefSubsectionCount, KindXRefEntryFormat, KindXRefDuplicate, KindXRefOriginalSubsect,
		KindPrevTarget, KindPrevLoop, KindHybridTarget, KindTrailerSize, KindSectionSize, KindTrailerRoot,
		KindFreeHead, KindFreeHeadGen, KindFreeChainBroken, KindFreeLoop, KindFreeNotOnChain,
		KindObjOffset, KindObjID, KindObjParse, KindObjEndObj, KindStreamEOL, KindStreamLength,
		KindNameEscape, KindDictDupKey, KindPagesCount, KindPagesTree} {
		if !seen[k] {
			t.Errorf("kind %q has no classic fixture that fires it", k)
		}
	}
}

// ---------------------------------------------------------------- incremental update

func incremental() ([]byte, classicFx) {
	c := classic("")
	var b bytes.Buffer
	b.Write(c.data)
	off3 := b.Len()
	b.WriteString("3 0 obj\n<</Type/Page/Parent 2 0 R/Rotate 180/Annots 8 0 R>>\nendobj\n")
	off8 := b.Len()
	b.WriteString("8 0 obj\n[]\nendobj\n")
	x := b.Len()
	fmt.Fprintf(&b, "xref\n3 1\n%s8 1\n%strailer\n<</Size 9/Root 1 0 R/Prev %d>>\nstartxref\n%d\n%%%%EOF\n", inUse(off3), inUse(off8), c.xrefOff, x)
	return b.Bytes(), c
}

func TestIncremental(t *testing.T) {
	data, c := incremental()
	d := mustOpen(t, data)
	wantClean(t, d)
	secs := d.Sections()
	if len(secs) != 2 || secs[0].Prev != int64(c.xrefOff) || secs[1].Offset != int64(c.xrefOff) {
		t.Fatalf("sections: %+v", secs)
	}
	if secs[1].Entries[3].Offset != int64(c.offs[3]) || secs[0].Entries[3].Offset == int64(c.offs[3]) {
		t.Errorf("per-section entries wrong")
	}
	if len(secs[0].Entries) != 2 || secs[0].Size != 9 || secs[1].Size != 8 {
		t.Errorf("update section: %+v", secs[0])
	}
	pages, _ := d.Pages()
	if len(pages) != 1 || pages[0].Rotate != 180 {
		t.Errorf("update not visible: %+v", pages)
	}
	// the superseded object in the ORIGINAL section is still checked
	bad := patch(t, data, "\n3 0 obj\n<</Type/Page/Parent 2 0 R/Contents", "\n9 0 obj\n<</Type/Page/Parent 2 0 R/Contents")
	d = mustOpen(t, bad)
	wantKind(t, d, KindObjID)
	if d.Defects[0].Section != 1 {
		t.Errorf("defect should be attributed to section 1: %v", d.Defects[0])
	}
	// update /Size smaller than its own entries
	d = mustOpen(t, patch(t, data, "/Size 9", "/Size 8"))
	wantKind(t, d, KindSectionSize, KindTrailerSize)
}

// ---------------------------------------------------------------- xref stream + object stream fixture

type xsMut struct {
	compress   bool
	rows       func(r [][3]int) [][3]int
	n, first   *int
	pairs      func(p string) string
	objStmType string
	objStmDict string // extra dict entries for the object stream
	w, index   string
	size       int
	body3      string
	encrypt    bool
}

func pngUp(data []byte, cols int) []byte {
	var out []byte
	prev := make([]byte, cols)
	for i := 0; i+cols <= len(data); i += cols {
		out = append(out, 2)
		for j := 0; j < cols; j++ {
			out = append(out, data[i+j]-prev[j])
		}
		prev = data[i : i+cols]
	}
	return out
}

func deflate(b []byte) []byte {
	var z bytes.Buffer
	w := zlib.NewWriter(&z)
	w.Write(b)
	w.Close()
	return z.Bytes()
}

// xsBuild: 1,2,3 live in object stream 5; 4 is a plain stream; 6 free; 7 XRef stream.
func xsBuild(m xsMut) []byte {
	f := newFx()
	f.streamObj(4, "<</Length 5>>", []byte("BT ET"), "\n", "\n")
	b3 := "<</Type/Page/Parent 2 0 R/Contents 4 0 R>>"
	if m.body3 != "" {
		b3 = m.body3
	}
	bodies := []string{body1, body2, b3}
	var objs, pairs strings.Builder
	for i, b := range bodies {
		fmt.Fprintf(&pairs, "%d %d ", i+1, objs.Len())
		objs.WriteString(b + "\n")
	}
	ps := pairs.String()
	first := len(ps)
	if m.pairs != nil {
		ps = m.pairs(ps)
	}
	n := 3
	if m.n != nil {
		n = *m.n
	}
	if m.first != nil {
		first = *m.first
	}
	typ := "ObjStm"
	if m.objStmType != "" {
		typ = m.objStmType
	}
	payload := ps + objs.String()
	f.streamObj(5, fmt.Sprintf("<</Type/%s/N %d/First %d%s/Length %d>>", typ, n, first, m.objStmDict, len(payload)), []byte(payload), "\n", "\n")
	off7 := f.buf.Len()
	rows := [][3]int{{0, 6, 65535}, {2, 5, 0}, {2, 5, 1}, {2, 5, 2}, {1, f.offs[4], 0}, {1, f.offs[5], 0}, {0, 0, 1}, {1, off7, 0}}
	if m.rows != nil {
		rows = m.rows(rows)
	}
	var xd []byte
	for _, r := range rows {
		xd = append(xd, byte(r[0]), byte(r[1]>>8), byte(r[1]), byte(r[2]>>8), byte(r[2]))
	}
	w, index, size := "[1 2 2]", "[0 8]", 8
	if m.w != "" {
		w = m.w
	}
	if m.index != "" {
		index = m.index
	}
	if m.size != 0 {
		size = m.size
	}
	extra := ""
	if m.compress {
		xd = deflate(pngUp(xd, 5))
		extra = "/Filter/FlateDecode/DecodeParms<</Predictor 12/Columns 5>>"
	}
	if m.encrypt {
		extra += "/Encrypt<</Filter/Standard>>"
	}
	f.streamObj(7, fmt.Sprintf("<</Type/XRef/Size %d/W%s/Index%s/Root 1 0 R%s/Length %d>>", size, w, index, extra, len(xd)), xd, "\r\n", "\r\n")
	fmt.Fprintf(&f.buf, "startxref\n%d\n%%%%EOF\n", off7)
	return f.buf.Bytes()
}

func TestXRefStreamValid(t *testing.T) {
	for _, compress := range []bool{false, true} {
		d := mustOpen(t, xsBuild(xsMut{compress: compress}))
		wantClean(t, d)
		if got := fmt.Sprint(d.Objects()); got != "[1 2 3 4 5 7]" {
			t.Errorf("Objects = %s", got)
		}
		e, _ := d.Entry(2)
		if e.Type != Compressed || e.ObjStm != 5 || e.Index != 1 {
			t.Errorf("entry 2: %+v", e)
		}
		pages, err := d.Pages()
		if err != nil || len(pages) != 1 || string(pages[0].Content) != "BT ET" || pages[0].Rotate != 90 {
			t.Errorf("pages: %+v %v", pages, err)
		}
		s := d.Sections()[0]
		if !s.IsStream || s.StreamRef != (Ref{7, 0}) || d.Trailer()["Root"] != (Ref{1, 0}) {
			t.Errorf("section %+v", s)
		}
	}
}

func TestXRefStreamDefects(t *testing.T) {
	ip := func(i int) *int { return &i }
	setRow := func(i int, v [3]int) func([][3]int) [][3]int {
		return func(r [][3]int) [][3]int { r[i] = v; return r }
	}
	cases := []struct {
		name    string
		kind    string
		m       xsMut
		allowed []string
		hard    bool
	}{
		{"container free", KindObjStmMissing, xsMut{rows: setRow(1, [3]int{2, 6, 0})}, nil, false},
		{"container absent", KindObjStmMissing, xsMut{rows: setRow(1, [3]int{2, 99, 0})}, nil, false},
		{"container itself compressed", KindObjStmMissing, xsMut{rows: setRow(1, [3]int{2, 2, 0})}, nil, false},
		{"container is plain stream", KindObjStmType, xsMut{rows: setRow(1, [3]int{2, 4, 0})}, nil, false},
		{"container wrong type", KindObjStmType, xsMut{objStmType: "ObjStn"}, nil, false},
		{"N too large", KindObjStmHeader, xsMut{n: ip(4)}, nil, false},
		{"N too small", KindObjStmHeader, xsMut{n: ip(2)}, nil, false},
		{"First too small", KindObjStmHeader, xsMut{first: ip(8)}, nil, false},
		{"First beyond data", KindObjStmHeader, xsMut{first: ip(5000)}, nil, false},
		{"pair table garbage", KindObjStmHeader, xsMut{pairs: func(p string) string { return "x" + p[1:] }}, nil, false},
		{"container undecodable", KindObjStmDecode, xsMut{objStmDict: "/Filter/FlateDecode"}, nil, false},
		{"index >= N", KindObjStmIndex, xsMut{rows: setRow(3, [3]int{2, 5, 3})}, []string{KindPagesTree, KindPagesCount}, false},
		{"index names other object", KindObjStmObjNr, xsMut{rows: setRow(3, [3]int{2, 5, 1})}, []string{KindPagesTree, KindPagesCount}, false},
		{"pair number shifted", KindObjStmObjNr, xsMut{pairs: func(p string) string { return strings.Replace(p, "2 ", "9 ", 1) }}, nil, false},
		{"compressed object broken", KindObjStmParse, xsMut{body3: "<</Type/Page/Parent 2 0 R"}, []string{KindPagesTree, KindPagesCount}, false},
		{"W short", KindXRefStmDict, xsMut{w: "[1 2]"}, nil, true},
		{"W indirect", KindXRefStmDict, xsMut{w: " 4 0 R"}, nil, true},
		{"Index odd", KindXRefStmDict, xsMut{index: "[0 8 9]"}, nil, true},
		{"rows missing", KindXRefStmLength, xsMut{index: "[0 9]", size: 9}, []string{KindTrailerSize}, false},
		{"rows extra", KindXRefStmLength, xsMut{index: "[0 7]", size: 7}, nil, false},
		{"entry type 3", KindXRefStmEntryType, xsMut{rows: setRow(6, [3]int{3, 0, 0})}, []string{KindFreeChainBroken}, false},
		{"size", KindTrailerSize, xsMut{size: 9}, nil, false},
		{"free head gen", KindFreeHeadGen, xsMut{rows: setRow(0, [3]int{0, 6, 0})}, nil, false},
		{"free chain", KindFreeChainBroken, xsMut{rows: setRow(0, [3]int{0, 4, 65535})}, []string{KindFreeNotOnChain}, false},
		{"free not on chain", KindFreeNotOnChain, xsMut{rows: setRow(0, [3]int{0, 0, 65535})}, nil, false},
		{"offset", KindObjOffset, xsMut{rows: func(r [][3]int) [][3]int { r[4][1]++; return r }}, nil, false},
	}
	for _, tc := range cases {
		for _, compress := range []bool{false, true} {
			t.Run(fmt.Sprintf("%s/flate=%v", tc.name, compress), func(t *testing.T) {
				m := tc.m
				m.compress = compress
				d, err := Open(xsBuild(m), Options{})
				if tc.hard {
					if err == nil {
						t.Errorf("expected hard error")
					}
					wantKind(t, d, tc.kind, KindStartXRefTarget)
					return
				}
				if err != nil {
					t.Fatalf("Open: %v", err)
				}
				wantKind(t, d, tc.kind, tc.allowed...)
			})
		}
	}
}

// startxref pointing at a regular object is not accepted
func TestStartXRefToPlainObject(t *testing.T) {
	data := xsBuild(xsMut{})
	d0 := mustOpen(t, data)
	e4, _ := d0.Entry(4)
	bad := patch(t, data, fmt.Sprintf("startxref\n%d\n", d0.StartXRef), fmt.Sprintf("startxref\n%d\n", e4.Offset))
	d, err := Open(bad, Options{})
	if err == nil || !d.HasDefect(KindStartXRefTarget) {
		t.Errorf("err=%v defects=%v", err, d.Defects)
	}
}

// ---------------------------------------------------------------- hybrid

func hybrid(hideAsFree bool) []byte {
	f := newFx()
	f.obj(1, "<</Type/Catalog/Pages 2 0 R/Extra 8 0 R>>")
	f.obj(2, "<</Type/Pages/Kids[3 0 R]/Count 1/MediaBox[0 0 10 10]>>")
	f.obj(3, "<</Type/Page/Parent 2 0 R/Contents 4 0 R>>")
	f.streamObj(4, "<</Length 5>>", []byte("BT ET"), "\n", "\n")
	payload := "8 0 9 17 <</Hidden 9 0 R>>(hidden)"
	f.streamObj(5, fmt.Sprintf("<</Type/ObjStm/N 2/First 9/Length %d>>", len(payload)), []byte(payload), "\n", "\n")
	off7 := f.buf.Len()
	xd := []byte{2, 0, 5, 0, 0, 2, 0, 5, 0, 1}
	f.streamObj(7, fmt.Sprintf("<</Type/XRef/Size 10/W[1 2 2]/Index[8 2]/Length %d>>", len(xd)), xd, "\n", "\n")
	x := f.buf.Len()
	if hideAsFree {
		f.buf.WriteString("xref\n0 10\n" + free(6, 65535))
	} else {
		f.buf.WriteString("xref\n0 8\n" + free(6, 65535))
	}
	for n := 1; n <= 5; n++ {
		f.buf.WriteString(inUse(f.offs[n]))
	}
	if hideAsFree {
		f.buf.WriteString(free(8, 1) + inUse(off7) + free(9, 0) + free(0, 0))
	} else {
		f.buf.WriteString(free(0, 1) + inUse(off7))
	}
	fmt.Fprintf(&f.buf, "trailer\n<</Size 10/Root 1 0 R/XRefStm %d>>\nstartxref\n%d\n%%%%EOF\n", off7, x)
	return f.buf.Bytes()
}

func TestHybrid(t *testing.T) {
	for _, hide := range []bool{false, true} {
		d := mustOpen(t, hybrid(hide))
		wantClean(t, d)
		if d.Sections()[0].Hybrid == nil {
			t.Fatal("hybrid section not read")
		}
		dict, ok := d.Resolve(Ref{8, 0}).(Dict)
		if !ok {
			t.Fatalf("object 8: %v", d.Resolve(Ref{8, 0}))
		}
		if s, ok := d.Resolve(dict["Hidden"]).(String); !ok || string(s) != "hidden" {
			t.Errorf("object 9: %v", d.Resolve(dict["Hidden"]))
		}
		if got := fmt.Sprint(d.Objects()); got != "[1 2 3 4 5 7 8 9]" {
			t.Errorf("Objects = %s", got)
		}
	}
}

// ---------------------------------------------------------------- decryption hook

type xorDec struct{ strings, streams []int }

func xor(b []byte) []byte {
	o := make([]byte, len(b))
	for i := range b {
		o[i] = b[i] ^ 0x15
	}
	return o
}
func (x *xorDec) DecryptString(n, g int, b []byte) ([]byte, error) {
	x.strings = append(x.strings, n)
	return xor(b), nil
}
func (x *xorDec) DecryptStream(n, g int, d Dict, b []byte) ([]byte, error) {
	x.streams = append(x.streams, n)
	return xor(b), nil
}

func TestDecrypterHookClassic(t *testing.T) {
	f := newFx()
	f.obj(1, fmt.Sprintf("<</Type/Catalog/Pages 2 0 R/Lang<%x>/Sig<</ByteRange[0 1 2 3]/Contents<aabb>/Name<%x>>>>>", xor([]byte("en")), xor([]byte("me"))))
	f.obj(2, "<</Type/Pages/Kids[3 0 R]/Count 1/MediaBox[0 0 10 10]>>")
	f.obj(3, "<</Type/Page/Parent 2 0 R/Contents 4 0 R>>")
	f.streamObj(4, "<</Length 5>>", xor([]byte("BT ET")), "\n", "\n")
	f.obj(5, "<</Filter/Standard/O(owner)/U(user)>>")
	x := f.buf.Len()
	f.buf.WriteString("xref\n0 6\n" + free(0, 65535))
	for n := 1; n <= 5; n++ {
		f.buf.WriteString(inUse(f.offs[n]))
	}
	fmt.Fprintf(&f.buf, "trailer\n<</Size 6/Root 1 0 R/Encrypt 5 0 R/ID[(a)(b)]>>\nstartxref\n%d\n%%%%EOF\n", x)
	dec := &xorDec{}
	d, err := Open(f.buf.Bytes(), Options{Decrypter: dec})
	if err != nil {
		t.Fatal(err)
	}
	wantClean(t, d)
	if !d.Encrypted {
		t.Error("Encrypted not set")
	}
	cat := d.Resolve(Ref{1, 0}).(Dict)
	if string(cat["Lang"].(String)) != "en" {
		t.Errorf("Lang = %q", cat["Lang"])
	}
	sig := cat["Sig"].(Dict)
	if !bytes.Equal(sig["Contents"].(String), []byte{0xaa, 0xbb}) || string(sig["Name"].(String)) != "me" {
		t.Errorf("signature dict: %v", sig)
	}
	enc := d.Resolve(Ref{5, 0}).(Dict)
	if string(enc["O"].(String)) != "owner" {
		t.Errorf("/Encrypt dictionary was decrypted: %v", enc)
	}
	if id := d.Trailer()["ID"].(Array); string(id[0].(String)) != "a" {
		t.Errorf("trailer was decrypted")
	}
	pages, _ := d.Pages()
	if len(pages) != 1 || string(pages[0].Content) != "BT ET" {
		t.Errorf("content %q", pages[0].Content)
	}
	st := d.Resolve(Ref{4, 0}).(*Stream)
	if string(st.Plain) != "BT ET" || string(st.Raw) == "BT ET" {
		t.Errorf("Raw/Plain: %q %q", st.Raw, st.Plain)
	}
}

func TestDecrypterHookObjStm(t *testing.T) {
	// strings inside an object stream are not decrypted separately, the
	// object stream as a whole is; the XRef stream is not.
	plain := xsBuild(xsMut{encrypt: true})
	d0 := mustOpen(t, plain)
	if !d0.Encrypted || d0.Skipped == 0 || len(d0.Defects) != 0 {
		t.Errorf("without decrypter: encrypted=%v skipped=%d defects=%v", d0.Encrypted, d0.Skipped, d0.Defects)
	}
	if _, err := d0.Get(Ref{1, 0}); err == nil {
		t.Error("compressed object readable without decrypter")
	}
	// encrypt the payload of streams 4 and 5 in place
	data := append([]byte{}, plain...)
	for _, n := range []int{4, 5} {
		e, _ := d0.Entry(n)
		po := d0.parseIndirectAt(e.Offset, 0)
		st := po.obj.(*Stream)
		copy(data[st.Offset:], xor(st.Raw))
	}
	dec := &xorDec{}
	d, err := Open(data, Options{Decrypter: dec})
	if err != nil {
		t.Fatal(err)
	}
	wantClean(t, d)
	cat := d.Resolve(Ref{1, 0}).(Dict)
	if string(cat["Lang"].(String)) != "x" {
		t.Errorf("Lang = %q", cat["Lang"])
	}
	pages, _ := d.Pages()
	if len(pages) != 1 || string(pages[0].Content) != "BT ET" {
		t.Errorf("pages %+v", pages)
	}
	if len(dec.strings) != 0 {
		t.Errorf("strings decrypted individually for objects %v", dec.strings)
	}
	if _, err := d.Get(Ref{7, 0}); err != nil {
		t.Error(err)
	}
	for _, n := range dec.streams {
		if n == 7 {
			t.Errorf("XRef stream was passed to the Decrypter")
		}
	}
}
