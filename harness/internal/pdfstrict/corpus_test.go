package pdfstrict

import (
	"fmt"
	"math/rand"
	"os"
	"path/filepath"
	"sort"
	"strings"
	"testing"
	"time"
)

func repoDir() string {
	if d := os.Getenv("VERIF_REPO"); d != "" {
		return d
	}
	return "/repo"
}

func corpusFiles(t testing.TB) []string {
	var out []string
	for _, dir := range []string{"pkg/testdata", "pkg/samples/basic"} {
		m, _ := filepath.Glob(filepath.Join(repoDir(), dir, "*.pdf"))
		for _, f := range m {
			if fi, err := os.Stat(f); err == nil && fi.Size() > 0 {
				out = append(out, f)
			}
		}
	}
	sort.Strings(out)
	if len(out) == 0 {
		t.Skip("no corpus files found")
	}
	return out
}

// TestCorpus reads every corpus file. Corpus files are often sloppy, so the
// test only fails on panics; it prints a table of defect kinds.
func TestCorpus(t *testing.T) {
	kinds := map[string]int{}
	filesWith := map[string]int{}
	var clean, hard, encrypted, pagesOK int
	for _, f := range corpusFiles(t) {
		data, err := os.ReadFile(f)
		if err != nil {
			t.Fatal(err)
		}
		name := filepath.Base(f)
		func() {
			defer func() {
				if r := recover(); r != nil {
					t.Errorf("%s: PANIC %v", name, r)
				}
			}()
			d, err := Open(data, Options{})
			if err != nil {
				hard++
				t.Logf("%-40s hard error: %v", name, err)
				return
			}
			if d.Encrypted {
				encrypted++
			}
			pages, perr := d.Pages()
			if perr == nil {
				pagesOK++
			}
			if !d.Encrypted {
				_ = d.Canonical(d.Trailer(), CanonOpts{DropKeys: map[string]bool{"ID": true}})
				for _, p := range pages {
					_ = d.DeepHash(p.Resources)
				}
			}
			if len(d.Defects) == 0 {
				clean++
			}
			var ks []string
			for k, n := range d.DefectKinds() {
				kinds[k] += n
				filesWith[k]++
				ks = append(ks, fmt.Sprintf("%s=%d", k, n))
			}
			sort.Strings(ks)
			t.Logf("%-40s v%s sections=%d objects=%d pages=%d enc=%v %s", name, d.Version, len(d.Sections()), len(d.Objects()), len(pages), d.Encrypted, strings.Join(ks, " "))
		}()
	}
	var ks []string
	for k := range kinds {
		ks = append(ks, k)
	}
	sort.Strings(ks)
	t.Logf("---- defect kinds over the corpus (clean files: %d, hard errors: %d, encrypted: %d, pages ok: %d)", clean, hard, encrypted, pagesOK)
	for _, k := range ks {
		t.Logf("%-24s %6d defects in %3d files", k, kinds[k], filesWith[k])
	}
}

// TestCorpusMutations feeds byte-mutated real files to the reader: it must
// neither panic nor hang.
func TestCorpusMutations(t *testing.T) {
	rng := rand.New(rand.NewSource(6))
	start := time.Now()
	n := 0
	for _, f := range corpusFiles(t) {
		fi, _ := os.Stat(f)
		if fi.Size() > 300<<10 {
			continue
		}
		orig, _ := os.ReadFile(f)
		for i := 0; i < 60; i++ {
			b := append([]byte{}, orig...)
			switch i % 3 {
			case 0:
				for k := 0; k < 1+rng.Intn(8); k++ {
					b[rng.Intn(len(b))] = byte(rng.Intn(256))
				}
			case 1:
				b = b[:rng.Intn(len(b))]
				b = append(b, orig[len(orig)-min(len(orig), 200):]...) // keep a startxref
			case 2:
				// corrupt digits only: offsets, lengths, counts
				for k := 0; k < 20; k++ {
					p := rng.Intn(len(b))
					if isDigit(b[p]) {
						b[p] = byte('0' + rng.Intn(10))
					}
				}
			}
			n++
			func() {
				defer func() {
					if r := recover(); r != nil {
						t.Fatalf("%s mutation %d: PANIC %v", filepath.Base(f), i, r)
					}
				}()
				d, _ := Open(b, Options{MaxDecoded: 8 << 20})
				if d == nil || len(d.Sections()) == 0 {
					return
				}
				pages, _ := d.Pages()
				for _, p := range pages {
					d.DeepHash(p.Resources)
				}
				d.Canonical(d.Trailer(), CanonOpts{})
			}()
		}
	}
	t.Logf("%d mutated corpus inputs in %v", n, time.Since(start))
	if time.Since(start) > 3*time.Minute {
		t.Errorf("too slow: %v", time.Since(start))
	}
}
