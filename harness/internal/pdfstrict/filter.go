package pdfstrict

import (
	"bytes"
	"compress/zlib"
	"errors"
	"fmt"
	"io"
)

// DefaultMaxDecoded bounds the size of any decoded stream.
const DefaultMaxDecoded = 512 << 20

// ErrTooLarge is returned when decoded data exceeds the configured bound.
var ErrTooLarge = errors.New("pdfstrict: decoded data exceeds limit")

// PredictorParams are the /DecodeParms entries used by Flate and LZW.
type PredictorParams struct {
	Predictor        int // default 1
	Colors           int // default 1
	BitsPerComponent int // default 8
	Columns          int // default 1
}

// FlateDecode inflates zlib data (RFC 1950). limit <= 0 means DefaultMaxDecoded.
func FlateDecode(b []byte, limit int) ([]byte, error) {
	if limit <= 0 {
		limit = DefaultMaxDecoded
	}
	zr, err := zlib.NewReader(bytes.NewReader(b))
	if err != nil {
		return nil, fmt.Errorf("FlateDecode: %w", err)
	}
	defer zr.Close()
	var buf bytes.Buffer
	n, err := io.Copy(&buf, io.LimitReader(zr, int64(limit)+1))
	if err != nil {
		return nil, fmt.Errorf("FlateDecode: %w", err)
	}
	if n > int64(limit) {
		return nil, ErrTooLarge
	}
	return buf.Bytes(), nil
}

// LZWDecode decodes PDF's LZW variant: MSB-first codes of 9..12 bits,
// clear-table = 256, EOD = 257. earlyChange is /EarlyChange (1 by default in PDF).
func LZWDecode(b []byte, earlyChange int, limit int) ([]byte, error) {
	if limit <= 0 {
		limit = DefaultMaxDecoded
	}
	if earlyChange != 0 {
		earlyChange = 1
	}
	const (
		clear = 256
		eod   = 257
		first = 258
		max   = 4096
	)
	var prefix [max]int16
	var suffix [max]byte
	var tmp [max + 1]byte
	out := make([]byte, 0, len(b)*2)

	width := uint(9)
	next := first
	prev := -1
	var acc uint32
	var nbits uint
	i := 0
	for {
		for nbits < width {
			if i >= len(b) {
				// input exhausted without EOD: accepted as end of data
				return out, nil
			}
			acc = acc<<8 | uint32(b[i])
			i++
			nbits += 8
		}
		code := int(acc>>(nbits-width)) & (1<<width - 1)
		nbits -= width

		if code == clear {
			width, next, prev = 9, first, -1
			continue
		}
		if code == eod {
			return out, nil
		}
		if prev < 0 {
			if code > 255 {
				return nil, fmt.Errorf("LZWDecode: code %d directly after clear-table", code)
			}
			out = append(out, byte(code))
			prev = code
			continue
		}
		// expand code (or the KwKwK case) backwards into tmp
		n := len(tmp)
		c := code
		switch {
		case code < next && (code < 256 || code >= first):
		case code == next && next < max:
			// prev expansion followed by its own first byte; filled below
			n--
			c = prev
		default:
			return nil, fmt.Errorf("LZWDecode: invalid code %d (next free %d)", code, next)
		}
		for c >= first {
			n--
			tmp[n] = suffix[c]
			c = int(prefix[c])
		}
		n--
		tmp[n] = byte(c)
		head := tmp[n]
		if code == next {
			tmp[len(tmp)-1] = head
		}
		if len(out)+len(tmp)-n > limit {
			return nil, ErrTooLarge
		}
		out = append(out, tmp[n:]...)
		if next < max {
			prefix[next] = int16(prev)
			suffix[next] = head
			next++
		}
		if next+earlyChange >= 1<<width && width < 12 {
			width++
		}
		prev = code
	}
}

// ASCIIHexDecode decodes hex digits up to the EOD marker '>'.
func ASCIIHexDecode(b []byte) ([]byte, error) {
	out := make([]byte, 0, len(b)/2+1)
	hi := -1
	for i, c := range b {
		if c == '>' {
			break
		}
		if isWS(c) {
			continue
		}
		v := hexVal(c)
		if v < 0 {
			return nil, fmt.Errorf("ASCIIHexDecode: invalid character %q at %d", c, i)
		}
		if hi < 0 {
			hi = v
		} else {
			out = append(out, byte(hi<<4|v))
			hi = -1
		}
	}
	if hi >= 0 {
		out = append(out, byte(hi<<4))
	}
	return out, nil
}

// ASCII85Decode decodes base-85 data up to the EOD marker "~>".
func ASCII85Decode(b []byte) ([]byte, error) {
	out := make([]byte, 0, len(b)*4/5+4)
	var grp [5]byte
	n := 0
	flush := func(final bool) error {
		if n == 0 {
			return nil
		}
		if n == 1 {
			return errors.New("ASCII85Decode: final group of a single character")
		}
		k := n
		for j := n; j < 5; j++ {
			grp[j] = 84 // 'u'
		}
		var v uint64
		for j := 0; j < 5; j++ {
			v = v*85 + uint64(grp[j])
		}
		if v > 0xFFFFFFFF {
			return errors.New("ASCII85Decode: group value exceeds 2^32-1")
		}
		w := [4]byte{byte(v >> 24), byte(v >> 16), byte(v >> 8), byte(v)}
		out = append(out, w[:k-1]...)
		n = 0
		return nil
	}
	for i := 0; i < len(b); i++ {
		c := b[i]
		switch {
		case isWS(c):
		case c == '~':
			// EOD "~>" (white space between the two is tolerated by no one; be exact)
			if i+1 < len(b) && b[i+1] == '>' {
				return out, flush(true)
			}
			return nil, fmt.Errorf("ASCII85Decode: '~' not followed by '>' at %d", i)
		case c == 'z':
			if n != 0 {
				return nil, fmt.Errorf("ASCII85Decode: 'z' inside a group at %d", i)
			}
			out = append(out, 0, 0, 0, 0)
		case c >= '!' && c <= 'u':
			grp[n] = c - '!'
			n++
			if n == 5 {
				if err := flush(false); err != nil {
					return nil, err
				}
			}
		default:
			return nil, fmt.Errorf("ASCII85Decode: invalid character %q at %d", c, i)
		}
	}
	// no EOD marker: end of data is accepted as EOD
	return out, flush(true)
}

// RunLengthDecode decodes PackBits-like run length data; 128 is EOD.
func RunLengthDecode(b []byte, limit int) ([]byte, error) {
	if limit <= 0 {
		limit = DefaultMaxDecoded
	}
	out := make([]byte, 0, len(b))
	i := 0
	for i < len(b) {
		l := int(b[i])
		i++
		switch {
		case l == 128:
			return out, nil
		case l < 128:
			if i+l+1 > len(b) {
				return nil, errors.New("RunLengthDecode: literal run exceeds data")
			}
			out = append(out, b[i:i+l+1]...)
			i += l + 1
		default:
			if i >= len(b) {
				return nil, errors.New("RunLengthDecode: repeat run without byte")
			}
			c := b[i]
			i++
			for k := 0; k < 257-l; k++ {
				out = append(out, c)
			}
		}
		if len(out) > limit {
			return nil, ErrTooLarge
		}
	}
	return out, nil
}

// Unpredict reverses a PNG (10..15) or TIFF (2) predictor.
func Unpredict(b []byte, pp PredictorParams) ([]byte, error) {
	if pp.Predictor == 0 {
		pp.Predictor = 1
	}
	if pp.Colors == 0 {
		pp.Colors = 1
	}
	if pp.BitsPerComponent == 0 {
		pp.BitsPerComponent = 8
	}
	if pp.Columns == 0 {
		pp.Columns = 1
	}
	if pp.Predictor == 1 {
		return b, nil
	}
	switch pp.BitsPerComponent {
	case 1, 2, 4, 8, 16:
	default:
		return nil, fmt.Errorf("predictor: BitsPerComponent %d", pp.BitsPerComponent)
	}
	if pp.Colors < 1 || pp.Colors > 1<<16 || pp.Columns < 1 || pp.Columns > 1<<28 {
		return nil, fmt.Errorf("predictor: Colors %d Columns %d out of range", pp.Colors, pp.Columns)
	}
	bitsPerRow := int64(pp.Colors) * int64(pp.BitsPerComponent) * int64(pp.Columns)
	if bitsPerRow > 1<<34 {
		return nil, errors.New("predictor: row too long")
	}
	rowLen := int((bitsPerRow + 7) / 8)
	bpp := (pp.Colors*pp.BitsPerComponent + 7) / 8
	switch {
	case pp.Predictor == 2:
		return untiff(b, pp, rowLen)
	case pp.Predictor >= 10 && pp.Predictor <= 15:
		return unpng(b, rowLen, bpp)
	}
	return nil, fmt.Errorf("predictor: unknown Predictor %d", pp.Predictor)
}

func unpng(b []byte, rowLen, bpp int) ([]byte, error) {
	if len(b) == 0 {
		return nil, nil
	}
	if len(b)%(rowLen+1) != 0 {
		return nil, fmt.Errorf("predictor: %d bytes is not a multiple of the row size %d+1", len(b), rowLen)
	}
	rows := len(b) / (rowLen + 1)
	out := make([]byte, rows*rowLen)
	zero := make([]byte, rowLen)
	prior := zero
	for r := 0; r < rows; r++ {
		ft := b[r*(rowLen+1)]
		src := b[r*(rowLen+1)+1 : (r+1)*(rowLen+1)]
		cur := out[r*rowLen : (r+1)*rowLen]
		switch ft {
		case 0:
			copy(cur, src)
		case 1:
			for i := range src {
				var a byte
				if i >= bpp {
					a = cur[i-bpp]
				}
				cur[i] = src[i] + a
			}
		case 2:
			for i := range src {
				cur[i] = src[i] + prior[i]
			}
		case 3:
			for i := range src {
				var a int
				if i >= bpp {
					a = int(cur[i-bpp])
				}
				cur[i] = src[i] + byte((a+int(prior[i]))/2)
			}
		case 4:
			for i := range src {
				var a, c int
				if i >= bpp {
					a = int(cur[i-bpp])
					c = int(prior[i-bpp])
				}
				cur[i] = src[i] + paeth(a, int(prior[i]), c)
			}
		default:
			return nil, fmt.Errorf("predictor: PNG filter type %d in row %d", ft, r)
		}
		prior = cur
	}
	return out, nil
}

func paeth(a, b, c int) byte {
	p := a + b - c
	pa, pb, pc := abs(p-a), abs(p-b), abs(p-c)
	switch {
	case pa <= pb && pa <= pc:
		return byte(a)
	case pb <= pc:
		return byte(b)
	}
	return byte(c)
}

func abs(x int) int {
	if x < 0 {
		return -x
	}
	return x
}

func untiff(b []byte, pp PredictorParams, rowLen int) ([]byte, error) {
	if len(b)%rowLen != 0 {
		return nil, fmt.Errorf("predictor: %d bytes is not a multiple of the row size %d", len(b), rowLen)
	}
	out := make([]byte, len(b))
	copy(out, b)
	colors, bpc := pp.Colors, pp.BitsPerComponent
	for r := 0; r+rowLen <= len(out); r += rowLen {
		row := out[r : r+rowLen]
		switch bpc {
		case 8:
			for i := colors; i < len(row); i++ {
				row[i] += row[i-colors]
			}
		case 16:
			for i := 2 * colors; i+1 < len(row); i += 2 {
				v := uint16(row[i])<<8 | uint16(row[i+1])
				w := uint16(row[i-2*colors])<<8 | uint16(row[i-2*colors+1])
				v += w
				row[i], row[i+1] = byte(v>>8), byte(v)
			}
		default: // 1, 2, 4
			n := pp.Columns * colors // samples per row
			mask := byte(1<<uint(bpc) - 1)
			get := func(k int) byte {
				bit := k * bpc
				return row[bit/8] >> uint(8-bpc-bit%8) & mask
			}
			set := func(k int, v byte) {
				bit := k * bpc
				sh := uint(8 - bpc - bit%8)
				row[bit/8] = row[bit/8]&^(mask<<sh) | (v&mask)<<sh
			}
			for k := colors; k < n; k++ {
				set(k, get(k)+get(k-colors))
			}
		}
	}
	return out, nil
}

// filterSpec is one stage of a stream's filter pipeline.
type filterSpec struct {
	name  string
	parms Dict
}

// filterPipeline reads /Filter and /DecodeParms (name or array forms).
func filterPipeline(d Dict, res func(Object) Object) ([]filterSpec, error) {
	f := res(d["Filter"])
	if IsNull(f) {
		return nil, nil
	}
	var names []string
	switch v := f.(type) {
	case Name:
		names = []string{string(v)}
	case Array:
		for _, e := range v {
			n, ok := res(e).(Name)
			if !ok {
				return nil, errors.New("/Filter array element is not a name")
			}
			names = append(names, string(n))
		}
	default:
		return nil, errors.New("/Filter is neither a name nor an array")
	}
	specs := make([]filterSpec, len(names))
	for i, n := range names {
		specs[i].name = n
	}
	dp := res(d["DecodeParms"])
	if IsNull(dp) {
		dp = res(d["DP"])
	}
	switch v := dp.(type) {
	case nil, Null:
	case Dict:
		if len(specs) == 1 {
			specs[0].parms = v
		} else if len(specs) > 1 {
			return nil, errors.New("/DecodeParms is a dictionary but /Filter has several entries")
		}
	case Array:
		if len(v) != len(specs) {
			return nil, fmt.Errorf("/DecodeParms has %d entries for %d filters", len(v), len(specs))
		}
		for i, e := range v {
			switch pd := res(e).(type) {
			case nil, Null:
			case Dict:
				specs[i].parms = pd
			default:
				return nil, errors.New("/DecodeParms element is not a dictionary")
			}
		}
	default:
		return nil, errors.New("/DecodeParms is neither a dictionary nor an array")
	}
	return specs, nil
}

func parmInt(d Dict, key string, def int, res func(Object) Object) (int, error) {
	if d == nil {
		return def, nil
	}
	o := res(d[key])
	if IsNull(o) {
		return def, nil
	}
	n, ok := o.(Int)
	if !ok || n < -1<<30 || n > 1<<30 {
		return 0, fmt.Errorf("/DecodeParms /%s is not a usable integer", key)
	}
	return int(n), nil
}

func predictorParams(d Dict, res func(Object) Object) (pp PredictorParams, err error) {
	if pp.Predictor, err = parmInt(d, "Predictor", 1, res); err != nil {
		return
	}
	if pp.Colors, err = parmInt(d, "Colors", 1, res); err != nil {
		return
	}
	if pp.BitsPerComponent, err = parmInt(d, "BitsPerComponent", 8, res); err != nil {
		return
	}
	pp.Columns, err = parmInt(d, "Columns", 1, res)
	return
}

// Decode runs data through the filter pipeline described by dict. res resolves
// indirect references (may be nil when the dict has only direct values).
// When a filter is met that this package does not implement (DCTDecode,
// JPXDecode, CCITTFaxDecode, JBIG2Decode, Crypt, unknown names) decoding stops
// and the bytes decoded so far are returned with opaque = true.
func Decode(data []byte, dict Dict, res func(Object) Object, limit int) (out []byte, opaque bool, err error) {
	if res == nil {
		res = func(o Object) Object { return o }
	}
	specs, err := filterPipeline(dict, res)
	if err != nil {
		return nil, false, err
	}
	out, stop, err := decodeSpecs(data, specs, res, limit)
	return out, stop >= 0, err
}

// decodeSpecs applies specs in order; stop is the index of the first filter
// that is not implemented here (-1 if all were applied).
func decodeSpecs(data []byte, specs []filterSpec, res func(Object) Object, limit int) (out []byte, stop int, err error) {
	out = data
	for i, fs := range specs {
		switch fs.name {
		case "FlateDecode", "LZWDecode":
			pp, err := predictorParams(fs.parms, res)
			if err != nil {
				return nil, -1, err
			}
			if fs.name == "FlateDecode" {
				out, err = FlateDecode(out, limit)
			} else {
				ec, e := parmInt(fs.parms, "EarlyChange", 1, res)
				if e != nil {
					return nil, -1, e
				}
				out, err = LZWDecode(out, ec, limit)
			}
			if err != nil {
				return nil, -1, err
			}
			if out, err = Unpredict(out, pp); err != nil {
				return nil, -1, err
			}
		case "ASCII85Decode":
			if out, err = ASCII85Decode(out); err != nil {
				return nil, -1, err
			}
		case "ASCIIHexDecode":
			if out, err = ASCIIHexDecode(out); err != nil {
				return nil, -1, err
			}
		case "RunLengthDecode":
			if out, err = RunLengthDecode(out, limit); err != nil {
				return nil, -1, err
			}
		default:
			return out, i, nil
		}
	}
	return out, -1, nil
}
