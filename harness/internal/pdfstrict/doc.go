package pdfstrict

import (
	"bytes"
	"errors"
	"fmt"
	"math"
	"sort"
)

// Decrypter is implemented elsewhere (standard security handler). pdfstrict
// calls it for strings and streams of objects that are not stored inside
// object streams. It is not called for the /Encrypt dictionary, for XRef
// streams, for the trailer, or for /Contents of a dictionary that has a
// /ByteRange key (signature value). Whether a given stream is exempt for other
// reasons (Identity crypt filter, unencrypted metadata) is left to the hook,
// which receives the stream dictionary.
type Decrypter interface {
	DecryptString(objNr, gen int, b []byte) ([]byte, error)
	DecryptStream(objNr, gen int, dict Dict, b []byte) ([]byte, error)
}

// Options configure Open.
type Options struct {
	Decrypter  Decrypter
	MaxObjects int // bound on cross-reference entries (default 4M)
	MaxDecoded int // bound on the decoded size of one stream (default DefaultMaxDecoded)
}

// Defect is one structural deviation from ISO 32000-1.
type Defect struct {
	Kind    string
	Msg     string
	ObjNr   int   // object concerned, -1 if none
	Offset  int64 // file offset concerned, -1 if none
	Section int   // index into Sections() (0 = newest) the defect was found through, -1 if none
}

func (d Defect) String() string {
	return fmt.Sprintf("%s: obj %d @%d sec %d: %s", d.Kind, d.ObjNr, d.Offset, d.Section, d.Msg)
}

// EntryType is the type of a cross-reference entry.
type EntryType int

const (
	Free       EntryType = 0
	InUse      EntryType = 1
	Compressed EntryType = 2
)

// Entry is one cross-reference entry.
type Entry struct {
	Num     int
	Type    EntryType
	Offset  int64 // InUse: byte offset
	Gen     int   // Free, InUse: generation number
	Next    int   // Free: next free object number
	ObjStm  int   // Compressed: object number of the object stream
	Index   int   // Compressed: index within the object stream
	Section int   // section that defines it (index into Sections())
	Hybrid  bool  // defined by the /XRefStm of a hybrid section
}

// Subsection is "first count" of a classic table, or one /Index pair.
type Subsection struct{ First, Count int }

// Section is one cross-reference section (one incremental update).
type Section struct {
	Index       int   // 0 = newest (the one startxref points to)
	Offset      int64 // offset of "xref" or of the XRef stream object
	IsStream    bool
	StreamRef   Ref // object number of the XRef stream (IsStream)
	Trailer     Dict
	Subsections []Subsection
	Entries     map[int]Entry
	Hybrid      *Section // XRef stream named by /XRefStm (classic table only)
	Size        int64    // own /Size, -1 if missing
	MaxNum      int      // highest object number with an entry here (incl. Hybrid), -1 if none
	Prev        int64    // /Prev, -1 if none
}

// lookup applies the hybrid rule: a non-free table entry wins, otherwise the
// /XRefStm entry, otherwise the (free) table entry.
func (s *Section) lookup(num int) (Entry, bool) {
	e, ok := s.Entries[num]
	if ok && e.Type != Free {
		return e, true
	}
	if s.Hybrid != nil {
		if he, hok := s.Hybrid.Entries[num]; hok {
			return he, true
		}
	}
	return e, ok
}

type parsedObj struct {
	headerOK bool
	num, gen int
	obj      Object // undecrypted
	err      error
}

type objStm struct {
	err   error // container unusable
	n     int
	first int
	pairs [][2]int // object number, offset relative to first
	data  []byte
	objs  map[int]*parsedObj // by index
}

type defectKey struct {
	kind string
	nr   int
	off  int64
}

// Doc is an opened document.
type Doc struct {
	data []byte
	opts Options

	// Version is the header version ("1.7"), empty if the header is invalid.
	Version string
	// StartXRef is the value after the last startxref keyword.
	StartXRef int64
	// Defects lists every structural defect found.
	Defects []Defect
	// Encrypted reports a /Encrypt entry in the newest trailer.
	Encrypted bool
	// Skipped counts compressed-entry checks that could not be made because
	// the document is encrypted and no Decrypter was supplied.
	Skipped int

	sections   []*Section
	xref       map[int]Entry
	freeView   map[int]Entry // like xref, but classic tables win over their /XRefStm (hybrid files hide objects as free)
	encryptNum int

	objCache map[int64]*parsedObj
	stmCache map[int64]*objStm
	getCache map[int]Object
	seen     map[defectKey]bool
	lenDepth int
	digests  map[*Stream]streamDigestInfo

	pagesDone  bool
	pageVisits int
	pages      []Page
	pagesErr   error
}

const maxDefects = 20000

func (d *Doc) defect(kind string, objNr int, off int64, sec int, format string, a ...interface{}) {
	k := defectKey{kind, objNr, off}
	if d.seen[k] {
		return
	}
	if len(d.Defects) >= maxDefects {
		if len(d.Defects) == maxDefects {
			d.Defects = append(d.Defects, Defect{Kind: KindLimit, Msg: "too many defects; further ones dropped", ObjNr: -1, Offset: -1, Section: -1})
		}
		return
	}
	d.seen[k] = true
	d.Defects = append(d.Defects, Defect{Kind: kind, Msg: fmt.Sprintf(format, a...), ObjNr: objNr, Offset: off, Section: sec})
}

// DefectKinds returns kind -> count.
func (d *Doc) DefectKinds() map[string]int {
	m := map[string]int{}
	for _, x := range d.Defects {
		m[x.Kind]++
	}
	return m
}

// HasDefect reports whether a defect of the given kind was recorded.
func (d *Doc) HasDefect(kind string) bool {
	for _, x := range d.Defects {
		if x.Kind == kind {
			return true
		}
	}
	return false
}

// Open reads data. It returns an error only when no cross-reference
// information can be read at all (no header, no startxref, nothing usable at
// the startxref offset); the partially filled Doc is returned alongside the
// error so that its Defects can be inspected. Everything else is in Defects.
func Open(data []byte, opts Options) (*Doc, error) {
	if opts.MaxObjects <= 0 {
		opts.MaxObjects = 4 << 20
	}
	if opts.MaxDecoded <= 0 {
		opts.MaxDecoded = DefaultMaxDecoded
	}
	d := &Doc{
		data: data, opts: opts,
		StartXRef: -1, encryptNum: -1,
		objCache: map[int64]*parsedObj{},
		stmCache: map[int64]*objStm{},
		getCache: map[int]Object{},
		seen:     map[defectKey]bool{},
	}
	if err := d.readHeader(); err != nil {
		return d, err
	}
	if err := d.readStartXRef(); err != nil {
		return d, err
	}
	if err := d.readSections(); err != nil {
		return d, err
	}
	d.buildXRef()
	d.checkSizes()
	d.checkFreeList()
	d.checkEntries()
	return d, nil
}

// ---------------------------------------------------------------- header, startxref

func (d *Doc) readHeader() error {
	b := d.data
	ok := false
	if len(b) >= 8 && string(b[:5]) == "%PDF-" {
		v := string(b[5:8])
		if (v[0] == '1' && v[1] == '.' && isDigit(v[2])) || v == "2.0" {
			if len(b) > 8 && (b[8] == '\r' || b[8] == '\n') {
				ok = true
				d.Version = v
			}
		}
	}
	if ok {
		return nil
	}
	lim := len(b)
	if lim > 1024 {
		lim = 1024
	}
	i := bytes.Index(b[:lim], []byte("%PDF-"))
	if i < 0 {
		return errors.New("pdfstrict: no %PDF- header")
	}
	d.defect(KindHeader, -1, int64(i), -1, "header is not exactly %%PDF-1.n or %%PDF-2.0 followed by EOL at offset 0 (found %q at %d)", clip(b[i:], 12), i)
	return nil
}

func clip(b []byte, n int) []byte {
	if len(b) > n {
		return b[:n]
	}
	return b
}

func (d *Doc) readStartXRef() error {
	i := bytes.LastIndex(d.data, []byte("startxref"))
	if i < 0 {
		return errors.New("pdfstrict: no startxref")
	}
	p := &parser{data: d.data, pos: i + 9}
	clean := p.readEOL() != ""
	if p.skipPlainWS() > 0 {
		clean = false
	}
	v, ok := p.uintToken()
	if !ok {
		d.defect(KindStartXRefSyntax, -1, int64(i), -1, "startxref is not followed by an integer")
		return errors.New("pdfstrict: startxref without offset")
	}
	d.StartXRef = v
	if p.readEOL() == "" {
		clean = false
	}
	if p.skipPlainWS() > 0 {
		clean = false
	}
	if !clean {
		d.defect(KindStartXRefSyntax, -1, int64(i), -1, "startxref, its value and %%%%EOF are not each on their own line")
	}
	if !bytes.HasPrefix(d.data[p.pos:], []byte("%%EOF")) {
		d.defect(KindEOFMarker, -1, int64(p.pos), -1, "no %%%%EOF after the startxref value")
		return nil
	}
	p.pos += 5
	p.readEOL()
	if p.pos != len(d.data) {
		d.defect(KindEOFTrailing, -1, int64(p.pos), -1, "%d bytes after the final %%%%EOF line", len(d.data)-p.pos)
	}
	return nil
}

// ---------------------------------------------------------------- sections

const maxSections = 4096

func (d *Doc) readSections() error {
	off := d.StartXRef
	visited := map[int64]bool{}
	for i := 0; ; i++ {
		if visited[off] {
			d.defect(KindPrevLoop, -1, off, i-1, "/Prev chain returns to the section at %d", off)
			break
		}
		if i >= maxSections {
			d.defect(KindLimit, -1, off, i-1, "more than %d cross-reference sections", maxSections)
			break
		}
		visited[off] = true
		sec, err := d.readSection(off, i, false)
		if err != nil {
			if i == 0 {
				d.defect(KindStartXRefTarget, -1, off, -1, "startxref value %d: %v", off, err)
				return fmt.Errorf("pdfstrict: no cross-reference section at startxref offset %d: %v", off, err)
			}
			d.defect(KindPrevTarget, -1, off, i-1, "/Prev %d: %v", off, err)
			break
		}
		d.sections = append(d.sections, sec)
		if !sec.IsStream {
			if x, has := sec.Trailer["XRefStm"]; has {
				xo, ok := x.(Int)
				if !ok || xo < 0 {
					d.defect(KindHybridTarget, -1, sec.Offset, i, "/XRefStm is not a non-negative direct integer")
				} else if h, err := d.readSection(int64(xo), i, true); err != nil {
					d.defect(KindHybridTarget, -1, int64(xo), i, "/XRefStm %d: %v", xo, err)
				} else {
					sec.Hybrid = h
					if h.MaxNum > sec.MaxNum {
						sec.MaxNum = h.MaxNum
					}
				}
			}
		}
		pv, has := sec.Trailer["Prev"]
		if !has {
			break
		}
		po, ok := pv.(Int)
		if !ok || po < 0 {
			d.defect(KindPrevTarget, -1, sec.Offset, i, "/Prev is not a non-negative direct integer")
			break
		}
		sec.Prev = int64(po)
		off = int64(po)
	}
	return nil
}

// readSection reads the section at exactly off: the keyword "xref" or the
// header of an XRef stream object.
func (d *Doc) readSection(off int64, idx int, hybrid bool) (*Section, error) {
	if off < 0 || off >= int64(len(d.data)) {
		return nil, fmt.Errorf("offset %d outside the file", off)
	}
	p := &parser{data: d.data, pos: int(off)}
	var sec *Section
	var err error
	if !hybrid && p.hasKeyword("xref") {
		sec, err = d.readTable(off, idx)
	} else {
		sec, err = d.readXRefStream(off, idx, hybrid)
	}
	if err != nil {
		return nil, err
	}
	sec.Size = -1
	if n, ok := sec.Trailer["Size"].(Int); ok && n >= 0 {
		sec.Size = int64(n)
	}
	return sec, nil
}

func (d *Doc) entryBudget(sec *Section, idx int) bool {
	if len(sec.Entries) >= d.opts.MaxObjects {
		d.defect(KindLimit, -1, sec.Offset, idx, "more than %d cross-reference entries", d.opts.MaxObjects)
		return false
	}
	return true
}

func (d *Doc) addEntry(sec *Section, e Entry, off int64) {
	if _, dup := sec.Entries[e.Num]; dup {
		d.defect(KindXRefDuplicate, e.Num, off, sec.Index, "object %d has two entries in one cross-reference section", e.Num)
		return
	}
	sec.Entries[e.Num] = e
	if e.Num > sec.MaxNum {
		sec.MaxNum = e.Num
	}
}

// strictEntry parses the exact 20-byte form of a table entry.
func strictEntry(b []byte) (f1 int64, f2 int, typ byte, ok bool) {
	if len(b) < 20 {
		return
	}
	for i := 0; i < 10; i++ {
		if !isDigit(b[i]) {
			return
		}
		f1 = f1*10 + int64(b[i]-'0')
	}
	if b[10] != ' ' {
		return
	}
	for i := 11; i < 16; i++ {
		if !isDigit(b[i]) {
			return
		}
		f2 = f2*10 + int(b[i]-'0')
	}
	if b[16] != ' ' || (b[17] != 'n' && b[17] != 'f') {
		return
	}
	eol := string(b[18:20])
	if eol != " \n" && eol != " \r" && eol != "\r\n" {
		return
	}
	return f1, f2, b[17], true
}

// looseEntry parses "int ws int ws n|f" with arbitrary white space.
func looseEntry(p *parser) (f1 int64, f2 int, typ byte, ok bool) {
	save := p.pos
	fail := func() (int64, int, byte, bool) { p.pos = save; return 0, 0, 0, false }
	p.skipPlainWS()
	a, ok1 := p.uintToken()
	if !ok1 || p.skipPlainWS() == 0 {
		return fail()
	}
	b, ok2 := p.uintToken()
	if !ok2 || b > math.MaxInt32 || p.skipPlainWS() == 0 {
		return fail()
	}
	if p.eof() || (p.data[p.pos] != 'n' && p.data[p.pos] != 'f') {
		return fail()
	}
	if p.pos+1 < len(p.data) && isRegular(p.data[p.pos+1]) {
		return fail()
	}
	typ = p.data[p.pos]
	p.pos++
	return a, int(b), typ, true
}

func (d *Doc) readTable(off int64, idx int) (*Section, error) {
	sec := &Section{Index: idx, Offset: off, Entries: map[int]Entry{}, MaxNum: -1, Prev: -1}
	p := &parser{data: d.data, pos: int(off) + 4}
	if p.readEOL() == "" {
		d.defect(KindXRefKeywordEOL, -1, off, idx, "xref keyword is not directly followed by an end-of-line")
	}
	for {
		p.skipPlainWS()
		if p.hasKeyword("trailer") {
			break
		}
		hdr := p.pos
		first, ok := p.uintToken()
		if !ok || first > math.MaxInt32 {
			return nil, fmt.Errorf("malformed subsection header at offset %d", hdr)
		}
		clean := true
		if !p.eof() && p.data[p.pos] == ' ' {
			p.pos++
		} else {
			clean = false
		}
		if p.skipPlainWS() > 0 {
			clean = false
		}
		count, ok := p.uintToken()
		if !ok || count > math.MaxInt32 {
			return nil, fmt.Errorf("malformed subsection header at offset %d", hdr)
		}
		for !p.eof() && (p.data[p.pos] == ' ' || p.data[p.pos] == '\t') {
			p.pos++
			clean = false
		}
		if p.readEOL() == "" {
			return nil, fmt.Errorf("subsection header at offset %d is not terminated by an end-of-line", hdr)
		}
		if !clean {
			d.defect(KindXRefSubsectionHead, -1, int64(hdr), idx, "subsection header is not \"first SP count EOL\"")
		}
		sec.Subsections = append(sec.Subsections, Subsection{First: int(first), Count: int(count)})
		got := 0
		for ; got < int(count); got++ {
			if !d.entryBudget(sec, idx) {
				return sec, errors.New("too many cross-reference entries")
			}
			eoff := p.pos
			var f1 int64
			var f2 int
			var typ byte
			var ok bool
			if p.pos+20 <= len(p.data) {
				f1, f2, typ, ok = strictEntry(p.data[p.pos : p.pos+20])
			}
			if ok {
				p.pos += 20
			} else {
				f1, f2, typ, ok = looseEntry(p)
				if !ok {
					break
				}
				d.defect(KindXRefEntryFormat, int(first)+got, int64(eoff), idx, "entry is not in the 20-byte form \"nnnnnnnnnn ggggg n|f EOL\": %q", clip(p.data[eoff:], 20))
			}
			num := int(first) + got
			if int64(first)+int64(got) > math.MaxInt32 {
				return nil, fmt.Errorf("object number overflow in subsection at offset %d", hdr)
			}
			e := Entry{Num: num, Section: idx, Gen: f2}
			if typ == 'n' {
				e.Type, e.Offset = InUse, f1
			} else {
				e.Type = Free
				if f1 > math.MaxInt32 {
					f1 = math.MaxInt32
				}
				e.Next = int(f1)
			}
			d.addEntry(sec, e, int64(eoff))
		}
		if got < int(count) {
			d.defect(KindXRefSubsectionCount, -1, int64(hdr), idx, "subsection %d %d has only %d entries", first, count, got)
			continue
		}
		// entries beyond the declared count?
		extra := 0
		for {
			save := p.pos
			if _, _, _, ok := looseEntry(p); !ok {
				p.pos = save
				break
			}
			extra++
		}
		if extra > 0 {
			d.defect(KindXRefSubsectionCount, -1, int64(hdr), idx, "subsection %d %d is followed by %d more entries", first, count, extra)
		}
	}
	p.pos += len("trailer")
	p.skipWS()
	if p.pos+1 >= len(p.data) || p.data[p.pos] != '<' || p.data[p.pos+1] != '<' {
		return nil, fmt.Errorf("no trailer dictionary at offset %d", p.pos)
	}
	p.warn = func(kind, msg string, o int) { d.defect(kind, -1, int64(o), idx, "trailer: %s", msg) }
	t, err := p.parseDict(0)
	if err != nil {
		return nil, fmt.Errorf("trailer dictionary: %v", err)
	}
	sec.Trailer = t
	return sec, nil
}

func beUint(b []byte) uint64 {
	var v uint64
	for _, c := range b {
		v = v<<8 | uint64(c)
	}
	return v
}

func (d *Doc) readXRefStream(off int64, idx int, hybrid bool) (*Section, error) {
	po := d.parseIndirectAt(off, idx)
	if !po.headerOK {
		return nil, errors.New("neither the xref keyword nor an \"n g obj\" header")
	}
	if po.err != nil {
		return nil, fmt.Errorf("object %d does not parse: %v", po.num, po.err)
	}
	st, ok := po.obj.(*Stream)
	if !ok {
		return nil, fmt.Errorf("object %d is not a stream", po.num)
	}
	if t, _ := st.Dict.Name("Type"); t != "XRef" {
		return nil, fmt.Errorf("object %d is not /Type /XRef", po.num)
	}
	if !st.LengthOK {
		return nil, fmt.Errorf("XRef stream %d has an inconsistent /Length", po.num)
	}
	sec := &Section{Index: idx, Offset: off, IsStream: true, StreamRef: Ref{po.num, po.gen},
		Trailer: st.Dict, Entries: map[int]Entry{}, MaxNum: -1, Prev: -1}
	bad := func(format string, a ...interface{}) (*Section, error) {
		msg := fmt.Sprintf(format, a...)
		d.defect(KindXRefStmDict, po.num, off, idx, "%s", msg)
		return nil, errors.New(msg)
	}
	size, ok := st.Dict.Int("Size")
	if !ok || size < 0 || size > math.MaxInt32 {
		return bad("XRef stream /Size missing or not a direct integer")
	}
	wa, ok := st.Dict["W"].(Array)
	if !ok || len(wa) != 3 {
		return bad("XRef stream /W is not a direct array of three integers")
	}
	var w [3]int
	for i, x := range wa {
		n, ok := x.(Int)
		if !ok || n < 0 || n > 8 {
			return bad("XRef stream /W element %d is not an integer in 0..8", i)
		}
		w[i] = int(n)
	}
	width := w[0] + w[1] + w[2]
	if width == 0 {
		return bad("XRef stream /W is all zero")
	}
	var index []Subsection
	if ix, has := st.Dict["Index"]; has {
		ia, ok := ix.(Array)
		if !ok || len(ia)%2 != 0 {
			return bad("XRef stream /Index is not a direct array of pairs")
		}
		for i := 0; i < len(ia); i += 2 {
			a, ok1 := ia[i].(Int)
			b, ok2 := ia[i+1].(Int)
			if !ok1 || !ok2 || a < 0 || b < 0 || a > math.MaxInt32 || b > math.MaxInt32 || int64(a)+int64(b) > math.MaxInt32 {
				return bad("XRef stream /Index pair %d is not two non-negative integers", i/2)
			}
			index = append(index, Subsection{int(a), int(b)})
		}
	} else {
		index = []Subsection{{0, int(size)}}
	}
	sec.Subsections = index
	data, opaque, err := Decode(st.Raw, st.Dict, nil, d.opts.MaxDecoded)
	if err != nil || opaque {
		if err == nil {
			err = errors.New("unsupported filter")
		}
		return bad("XRef stream data cannot be decoded: %v", err)
	}
	total := int64(0)
	for _, s := range index {
		total += int64(s.Count)
	}
	if total*int64(width) != int64(len(data)) {
		d.defect(KindXRefStmLength, po.num, off, idx, "XRef stream has %d decoded bytes, /Index and /W require %d", len(data), total*int64(width))
	}
	pos := 0
loop:
	for _, s := range index {
		for k := 0; k < s.Count; k++ {
			if pos+width > len(data) {
				break loop
			}
			if !d.entryBudget(sec, idx) {
				break loop
			}
			row := data[pos : pos+width]
			pos += width
			typ := uint64(1)
			if w[0] > 0 {
				typ = beUint(row[:w[0]])
			}
			f2 := beUint(row[w[0] : w[0]+w[1]])
			f3 := beUint(row[w[0]+w[1]:])
			e := Entry{Num: s.First + k, Section: idx, Hybrid: hybrid}
			clampInt := func(v uint64) int {
				if v > math.MaxInt32 {
					return math.MaxInt32
				}
				return int(v)
			}
			switch typ {
			case 0:
				e.Type, e.Next, e.Gen = Free, clampInt(f2), clampInt(f3)
			case 1:
				e.Type, e.Gen = InUse, clampInt(f3)
				if f2 > math.MaxInt64/2 {
					f2 = math.MaxInt64 / 2
				}
				e.Offset = int64(f2)
			case 2:
				e.Type, e.ObjStm, e.Index = Compressed, clampInt(f2), clampInt(f3)
			default:
				d.defect(KindXRefStmEntryType, e.Num, off, idx, "entry for object %d has type %d", e.Num, typ)
				continue
			}
			d.addEntry(sec, e, off)
		}
	}
	return sec, nil
}

// ---------------------------------------------------------------- merged table

func (d *Doc) buildXRef() {
	d.xref = map[int]Entry{}
	hybrid := false
	for _, s := range d.sections {
		if s.Hybrid != nil {
			hybrid = true
		}
	}
	d.freeView = d.xref
	if hybrid {
		d.freeView = map[int]Entry{}
	}
	for _, s := range d.sections {
		nums := map[int]bool{}
		for n := range s.Entries {
			nums[n] = true
		}
		if s.Hybrid != nil {
			for n := range s.Hybrid.Entries {
				nums[n] = true
			}
		}
		for n := range nums {
			if _, have := d.xref[n]; !have {
				if e, ok := s.lookup(n); ok {
					d.xref[n] = e
				}
			}
			if !hybrid {
				continue
			}
			if _, have := d.freeView[n]; !have {
				if e, ok := s.Entries[n]; ok {
					d.freeView[n] = e
				} else if s.Hybrid != nil {
					if e, ok := s.Hybrid.Entries[n]; ok {
						d.freeView[n] = e
					}
				}
			}
		}
	}
	t := d.Trailer()
	if enc, has := t["Encrypt"]; has && !IsNull(enc) {
		d.Encrypted = true
		if r, ok := enc.(Ref); ok {
			d.encryptNum = r.Num
		}
	}
	if _, ok := t["Root"].(Ref); !ok {
		d.defect(KindTrailerRoot, -1, d.sections[0].Offset, 0, "trailer has no indirect /Root")
	}
}

// lookupFrom finds the entry for num as seen from section idx (that section
// and everything older).
func (d *Doc) lookupFrom(idx, num int) (Entry, bool) {
	for i := idx; i < len(d.sections); i++ {
		if i < 0 {
			continue
		}
		if e, ok := d.sections[i].lookup(num); ok {
			return e, true
		}
	}
	return Entry{}, false
}

func (d *Doc) checkSizes() {
	max := -1
	for n := range d.xref {
		if n > max {
			max = n
		}
	}
	s0 := d.sections[0]
	switch {
	case s0.Size < 0:
		d.defect(KindTrailerSize, -1, s0.Offset, 0, "trailer /Size missing or not a direct non-negative integer")
	case s0.Size != int64(max)+1:
		d.defect(KindTrailerSize, -1, s0.Offset, 0, "trailer /Size is %d, highest object number in the cross-reference is %d", s0.Size, max)
	}
	if last := d.sections[len(d.sections)-1]; !last.IsStream && last.Prev < 0 && last.Hybrid == nil {
		if _, hasPrev := last.Trailer["Prev"]; !hasPrev && (len(last.Subsections) != 1 || last.Subsections[0].First != 0) {
			show := last.Subsections
			if len(show) > 6 {
				show = show[:6]
			}
			d.defect(KindXRefOriginalSubsect, -1, last.Offset, len(d.sections)-1, "original cross-reference table has %d subsections (first ones: %v); it shall be one subsection starting at 0", len(last.Subsections), show)
		}
	}
	for i, s := range d.sections {
		oldest := i == len(d.sections)-1 && s.Prev < 0
		switch {
		case s.Size < 0:
			if i > 0 {
				d.defect(KindSectionSize, -1, s.Offset, i, "section /Size missing or not a direct non-negative integer")
			}
		case int64(s.MaxNum)+1 > s.Size:
			d.defect(KindSectionSize, -1, s.Offset, i, "section /Size is %d but it has an entry for object %d", s.Size, s.MaxNum)
		case oldest && int64(s.MaxNum)+1 != s.Size && i > 0:
			d.defect(KindSectionSize, -1, s.Offset, i, "original section /Size is %d, its highest object number is %d", s.Size, s.MaxNum)
		}
	}
}

func (d *Doc) checkFreeList() {
	s0 := d.sections[0]
	e0, ok := d.freeView[0]
	if !ok || e0.Type != Free {
		d.defect(KindFreeHead, 0, s0.Offset, 0, "object 0 is not a free entry")
	} else if e0.Gen != 65535 {
		d.defect(KindFreeHeadGen, 0, s0.Offset, 0, "object 0 has generation %d, not 65535", e0.Gen)
	}
	visited := map[int]bool{}
	if ok && e0.Type == Free {
		visited[0] = true
		cur, from := e0.Next, 0
		for cur != 0 {
			e, ok := d.freeView[cur]
			if !ok || e.Type != Free {
				d.defect(KindFreeChainBroken, from, s0.Offset, 0, "free entry %d links to object %d which is not a free entry", from, cur)
				break
			}
			if visited[cur] {
				d.defect(KindFreeLoop, from, s0.Offset, 0, "free entry %d links back to %d; the chain never returns to 0", from, cur)
				break
			}
			visited[cur] = true
			from, cur = cur, e.Next
		}
	}
	var off []int
	for n, e := range d.freeView {
		if e.Type == Free && !visited[n] {
			off = append(off, n)
		}
	}
	if len(off) > 0 {
		sort.Ints(off)
		show := off
		if len(show) > 10 {
			show = show[:10]
		}
		d.defect(KindFreeNotOnChain, off[0], s0.Offset, 0, "%d free entries are not on the chain from object 0: %v", len(off), show)
	}
}

// ---------------------------------------------------------------- entries

func (d *Doc) checkEntries() {
	type k1 struct {
		num, gen int
		off      int64
	}
	type k2 struct{ num, stm, idx int }
	done1 := map[k1]bool{}
	done2 := map[k2]bool{}
	check := func(s *Section, view int) {
		nums := make([]int, 0, len(s.Entries))
		for n := range s.Entries {
			nums = append(nums, n)
		}
		sort.Ints(nums)
		for _, n := range nums {
			e := s.Entries[n]
			switch e.Type {
			case InUse:
				k := k1{e.Num, e.Gen, e.Offset}
				if !done1[k] {
					done1[k] = true
					d.checkInUse(e, view)
				}
			case Compressed:
				k := k2{e.Num, e.ObjStm, e.Index}
				if !done2[k] {
					done2[k] = true
					d.checkCompressed(e, view)
				}
			}
		}
	}
	for i, s := range d.sections {
		check(s, i)
		if s.Hybrid != nil {
			check(s.Hybrid, i)
		}
	}
}

func (d *Doc) checkInUse(e Entry, sec int) {
	if e.Offset <= 0 || e.Offset >= int64(len(d.data)) {
		d.defect(KindObjOffset, e.Num, e.Offset, sec, "offset %d of object %d is outside the file", e.Offset, e.Num)
		return
	}
	po := d.parseIndirectAt(e.Offset, sec)
	if !po.headerOK {
		d.defect(KindObjOffset, e.Num, e.Offset, sec, "no \"%d %d obj\" at offset %d, found %q", e.Num, e.Gen, e.Offset, clip(d.data[e.Offset:], 16))
		return
	}
	if po.num != e.Num || po.gen != e.Gen {
		d.defect(KindObjID, e.Num, e.Offset, sec, "entry %d %d points to \"%d %d obj\"", e.Num, e.Gen, po.num, po.gen)
	}
}

func (d *Doc) checkCompressed(e Entry, sec int) {
	os := d.loadObjStm(e.ObjStm, sec, e.Num)
	if os == nil {
		return // defect recorded, or undecryptable
	}
	if e.Index >= os.n || e.Index >= len(os.pairs) {
		d.defect(KindObjStmIndex, e.Num, -1, sec, "object %d: index %d in object stream %d with /N %d", e.Num, e.Index, e.ObjStm, os.n)
		return
	}
	if os.pairs[e.Index][0] != e.Num {
		d.defect(KindObjStmObjNr, e.Num, -1, sec, "object %d: index %d of object stream %d holds object %d", e.Num, e.Index, e.ObjStm, os.pairs[e.Index][0])
		return
	}
	po := d.objStmObject(os, e.Index, e.Num)
	if po.err != nil {
		d.defect(KindObjStmParse, e.Num, -1, sec, "object %d (object stream %d index %d): %v", e.Num, e.ObjStm, e.Index, po.err)
	}
}

var errEncrypted = errors.New("pdfstrict: document is encrypted and no Decrypter was given")

// loadObjStm returns the usable object stream stmNum as seen from section sec,
// or nil. forNum is the compressed object on whose behalf defects are recorded.
func (d *Doc) loadObjStm(stmNum, sec, forNum int) *objStm {
	ce, ok := d.lookupFrom(sec, stmNum)
	if !ok || ce.Type != InUse {
		d.defect(KindObjStmMissing, forNum, -1, sec, "object %d: object stream %d has no in-use entry", forNum, stmNum)
		return nil
	}
	if os, ok := d.stmCache[ce.Offset]; ok {
		if os.err != nil {
			return nil
		}
		return os
	}
	os := &objStm{objs: map[int]*parsedObj{}}
	d.stmCache[ce.Offset] = os
	fail := func(kind, format string, a ...interface{}) *objStm {
		os.err = fmt.Errorf(format, a...)
		d.defect(kind, stmNum, ce.Offset, sec, "object stream %d: %s", stmNum, os.err)
		return nil
	}
	if ce.Offset <= 0 || ce.Offset >= int64(len(d.data)) {
		return fail(KindObjStmMissing, "offset %d outside the file", ce.Offset)
	}
	po := d.parseIndirectAt(ce.Offset, sec)
	if !po.headerOK || po.err != nil || po.num != stmNum {
		return fail(KindObjStmMissing, "no parsable object %d at offset %d", stmNum, ce.Offset)
	}
	st, ok := po.obj.(*Stream)
	if !ok {
		return fail(KindObjStmMissing, "object is not a stream")
	}
	if t, _ := st.Dict.Name("Type"); t != "ObjStm" {
		return fail(KindObjStmType, "not /Type /ObjStm")
	}
	if !st.LengthOK {
		return fail(KindObjStmDecode, "inconsistent /Length")
	}
	res := func(o Object) Object { return d.resolveRaw(o) }
	nO, ok1 := res(st.Dict["N"]).(Int)
	fO, ok2 := res(st.Dict["First"]).(Int)
	if !ok1 || !ok2 || nO < 0 || fO < 0 || nO > math.MaxInt32 || fO > math.MaxInt32 {
		return fail(KindObjStmHeader, "/N or /First missing or not a non-negative integer")
	}
	raw := st.Raw
	if d.Encrypted {
		if d.opts.Decrypter == nil {
			os.err = errEncrypted
			d.Skipped++
			return nil
		}
		var err error
		if raw, err = d.opts.Decrypter.DecryptStream(po.num, po.gen, st.Dict, raw); err != nil {
			return fail(KindObjStmDecode, "decrypt: %v", err)
		}
	}
	data, opaque, err := Decode(raw, st.Dict, res, d.opts.MaxDecoded)
	if err != nil || opaque {
		if err == nil {
			err = errors.New("unsupported filter")
		}
		return fail(KindObjStmDecode, "%v", err)
	}
	os.n, os.first, os.data = int(nO), int(fO), data
	if os.first > len(data) {
		return fail(KindObjStmHeader, "/First %d exceeds the %d decoded bytes", os.first, len(data))
	}
	if int64(os.n)*2 > int64(os.first)+1 {
		return fail(KindObjStmHeader, "/N %d pairs cannot fit into /First %d bytes", os.n, os.first)
	}
	p := &parser{data: data[:os.first]}
	for i := 0; i < os.n; i++ {
		p.skipPlainWS()
		a, ok1 := p.uintToken()
		ws := p.skipPlainWS()
		b, ok2 := p.uintToken()
		if !ok1 || !ok2 || ws == 0 || a > math.MaxInt32 || b > math.MaxInt32 {
			return fail(KindObjStmHeader, "pair %d of %d cannot be read within /First %d bytes", i, os.n, os.first)
		}
		if !p.eof() && !isWS(p.data[p.pos]) {
			return fail(KindObjStmHeader, "pair %d is not delimited by white space", i)
		}
		if int64(os.first)+b > int64(len(data)) {
			return fail(KindObjStmHeader, "pair %d: offset %d lies beyond the decoded data", i, b)
		}
		os.pairs = append(os.pairs, [2]int{int(a), int(b)})
	}
	p.skipPlainWS()
	if !p.eof() {
		return fail(KindObjStmHeader, "bytes %d..%d before /First are not part of the %d pairs", p.pos, os.first, os.n)
	}
	return os
}

func (d *Doc) objStmObject(os *objStm, index, num int) *parsedObj {
	if po, ok := os.objs[index]; ok {
		return po
	}
	po := &parsedObj{headerOK: true, num: num}
	os.objs[index] = po
	p := &parser{data: os.data, pos: os.first + os.pairs[index][1]}
	p.warn = func(kind, msg string, o int) { d.defect(kind, num, -1, -1, "in object stream: %s", msg) }
	o, err := p.parseObject(0)
	if err == nil {
		if _, isRef := o.(Ref); isRef {
			// legal but pointless; keep it
		}
		p.skipWS()
		if p.hasKeyword("stream") {
			err = errors.New("a stream cannot be stored in an object stream")
		}
	}
	po.obj, po.err = o, err
	return po
}

// parseIndirectAt parses the indirect object whose header must start at
// exactly off. Results (and the defects found inside) are cached per offset.
func (d *Doc) parseIndirectAt(off int64, sec int) *parsedObj {
	if po, ok := d.objCache[off]; ok {
		return po
	}
	po := &parsedObj{}
	d.objCache[off] = po
	if off < 0 || off >= int64(len(d.data)) {
		po.err = errors.New("offset outside the file")
		return po
	}
	p := &parser{data: d.data, pos: int(off)}
	num, ok := p.uintToken()
	if !ok || num > math.MaxInt32 || p.skipPlainWS() == 0 {
		po.err = errors.New("no object header")
		return po
	}
	gen, ok := p.uintToken()
	if !ok || gen > 65535 || p.skipPlainWS() == 0 || !p.hasKeyword("obj") {
		po.err = errors.New("no object header")
		return po
	}
	p.pos += 3
	po.headerOK, po.num, po.gen = true, int(num), int(gen)
	p.warn = func(kind, msg string, o int) { d.defect(kind, po.num, int64(o), sec, "%s", msg) }

	o, err := p.parseObject(0)
	if err != nil {
		po.err = err
		d.defect(KindObjParse, po.num, off, sec, "object %d: %v", po.num, err)
		return po
	}
	p.skipWS()
	if p.hasKeyword("stream") {
		dict, ok := o.(Dict)
		if !ok {
			po.err = errors.New("stream keyword after an object that is not a dictionary")
			d.defect(KindObjParse, po.num, off, sec, "object %d: %v", po.num, po.err)
			return po
		}
		p.pos += 6
		switch {
		case p.pos+1 < len(p.data) && p.data[p.pos] == '\r' && p.data[p.pos+1] == '\n':
			p.pos += 2
		case p.pos < len(p.data) && p.data[p.pos] == '\n':
			p.pos++
		case p.pos < len(p.data) && p.data[p.pos] == '\r':
			d.defect(KindStreamEOL, po.num, int64(p.pos), sec, "object %d: stream keyword followed by CR alone", po.num)
			p.pos++
		default:
			d.defect(KindStreamEOL, po.num, int64(p.pos), sec, "object %d: stream keyword not followed by an end-of-line", po.num)
		}
		st := &Stream{Dict: dict, ObjNr: po.num, Gen: po.gen, Offset: int64(p.pos)}
		po.obj = st
		start := p.pos
		lo := dict["Length"]
		if r, isRef := lo.(Ref); isRef {
			lo = d.lengthByRef(r)
		}
		l, isInt := lo.(Int)
		switch {
		case !isInt || l < 0:
			d.defect(KindStreamLength, po.num, int64(start), sec, "object %d: /Length missing or not a non-negative integer", po.num)
			return po
		case int64(l) > int64(len(p.data)-start):
			d.defect(KindStreamLength, po.num, int64(start), sec, "object %d: /Length %d exceeds the file", po.num, l)
			return po
		}
		end := start + int(l)
		st.Raw = p.data[start:end:end]
		st.Plain = st.Raw
		p.pos = end
		p.readEOL()
		if !p.hasKeyword("endstream") {
			d.defect(KindStreamLength, po.num, int64(end), sec, "object %d: /Length %d: no [EOL] endstream at offset %d, found %q", po.num, l, end, clip(p.data[end:], 16))
			return po
		}
		st.LengthOK = true
		p.pos += len("endstream")
		p.skipWS()
	} else {
		po.obj = o
	}
	if !p.hasKeyword("endobj") {
		d.defect(KindObjEndObj, po.num, int64(p.pos), sec, "object %d: no endobj at offset %d, found %q", po.num, p.pos, clip(p.data[p.pos:], 16))
	}
	return po
}

// lengthByRef resolves an indirect /Length through the cross-reference table.
func (d *Doc) lengthByRef(r Ref) Object {
	if d.xref == nil || d.lenDepth > 4 {
		return nil
	}
	d.lenDepth++
	defer func() { d.lenDepth-- }()
	o, err := d.getRaw(r)
	if err != nil {
		return nil
	}
	return o
}

// getRaw returns the undecrypted object for r; Null for free/missing objects.
func (d *Doc) getRaw(r Ref) (Object, error) {
	e, ok := d.xref[r.Num]
	if !ok || e.Type == Free {
		return Null{}, nil
	}
	switch e.Type {
	case InUse:
		if e.Gen != r.Gen {
			return Null{}, nil
		}
		po := d.parseIndirectAt(e.Offset, e.Section)
		if !po.headerOK {
			return nil, fmt.Errorf("pdfstrict: object %d: no object header at offset %d", r.Num, e.Offset)
		}
		if po.num != e.Num || po.gen != e.Gen {
			return nil, fmt.Errorf("pdfstrict: object %d: offset %d holds object %d %d", r.Num, e.Offset, po.num, po.gen)
		}
		if po.err != nil {
			return nil, fmt.Errorf("pdfstrict: object %d: %v", r.Num, po.err)
		}
		return po.obj, nil
	case Compressed:
		if r.Gen != 0 {
			return Null{}, nil
		}
		os := d.loadObjStm(e.ObjStm, e.Section, e.Num)
		if os == nil {
			if oc, ok := d.objStmCached(e); ok && oc.err == errEncrypted {
				return nil, errEncrypted
			}
			return nil, fmt.Errorf("pdfstrict: object %d: object stream %d unusable", r.Num, e.ObjStm)
		}
		if e.Index >= len(os.pairs) || os.pairs[e.Index][0] != e.Num {
			return nil, fmt.Errorf("pdfstrict: object %d: not at index %d of object stream %d", r.Num, e.Index, e.ObjStm)
		}
		po := d.objStmObject(os, e.Index, e.Num)
		if po.err != nil {
			return nil, fmt.Errorf("pdfstrict: object %d: %v", r.Num, po.err)
		}
		return po.obj, nil
	}
	return Null{}, nil
}

func (d *Doc) objStmCached(e Entry) (*objStm, bool) {
	ce, ok := d.lookupFrom(e.Section, e.ObjStm)
	if !ok {
		return nil, false
	}
	os, ok := d.stmCache[ce.Offset]
	return os, ok
}

// resolveRaw follows references without decryption (numbers, names).
func (d *Doc) resolveRaw(o Object) Object {
	for i := 0; i < 32; i++ {
		r, ok := o.(Ref)
		if !ok {
			return o
		}
		if d.xref == nil {
			return Null{}
		}
		n, err := d.getRaw(r)
		if err != nil {
			return Null{}
		}
		o = n
	}
	return Null{}
}

// ---------------------------------------------------------------- public access

// Data returns the bytes the document was opened from.
func (d *Doc) Data() []byte { return d.data }

// Sections returns the cross-reference sections, newest first.
func (d *Doc) Sections() []*Section { return d.sections }

// Trailer returns the trailer dictionary of the newest section (for an XRef
// stream: its stream dictionary).
func (d *Doc) Trailer() Dict {
	if len(d.sections) == 0 {
		return Dict{}
	}
	return d.sections[0].Trailer
}

// Entry returns the merged cross-reference entry for an object number.
func (d *Doc) Entry(num int) (Entry, bool) {
	e, ok := d.xref[num]
	return e, ok
}

// Objects returns all in-use (uncompressed and compressed) object numbers, sorted.
func (d *Doc) Objects() []int {
	var out []int
	for n, e := range d.xref {
		if e.Type != Free {
			out = append(out, n)
		}
	}
	sort.Ints(out)
	return out
}

// Get returns the (decrypted) object r refers to. A reference to a free or
// undefined object yields Null. An error means the object exists according to
// the cross-reference but cannot be read.
func (d *Doc) Get(r Ref) (Object, error) {
	e, ok := d.xref[r.Num]
	if !ok || e.Type == Free || (e.Type == InUse && e.Gen != r.Gen) || (e.Type == Compressed && r.Gen != 0) {
		return Null{}, nil
	}
	if o, ok := d.getCache[r.Num]; ok {
		return o, nil
	}
	o, err := d.getRaw(r)
	if err != nil {
		return nil, err
	}
	if d.Encrypted && d.opts.Decrypter != nil && e.Type == InUse && r.Num != d.encryptNum {
		if o, err = d.decryptObject(o, r.Num, e.Gen, 0); err != nil {
			return nil, fmt.Errorf("pdfstrict: object %d: decrypt: %v", r.Num, err)
		}
	}
	d.getCache[r.Num] = o
	return o, nil
}

func (d *Doc) decryptObject(o Object, num, gen, depth int) (Object, error) {
	if depth > MaxDepth+2 {
		return nil, errors.New("nesting too deep")
	}
	dec := d.opts.Decrypter
	switch v := o.(type) {
	case String:
		b, err := dec.DecryptString(num, gen, append([]byte(nil), v...))
		return String(b), err
	case Array:
		out := make(Array, len(v))
		for i, x := range v {
			y, err := d.decryptObject(x, num, gen, depth+1)
			if err != nil {
				return nil, err
			}
			out[i] = y
		}
		return out, nil
	case Dict:
		out := make(Dict, len(v))
		_, sig := v["ByteRange"]
		for k, x := range v {
			if sig && k == "Contents" {
				out[k] = x
				continue
			}
			y, err := d.decryptObject(x, num, gen, depth+1)
			if err != nil {
				return nil, err
			}
			out[k] = y
		}
		return out, nil
	case *Stream:
		if t, _ := v.Dict.Name("Type"); t == "XRef" {
			return v, nil
		}
		nd, err := d.decryptObject(v.Dict, num, gen, depth+1)
		if err != nil {
			return nil, err
		}
		ns := *v
		ns.Dict = nd.(Dict)
		if v.Raw != nil {
			b, err := dec.DecryptStream(num, gen, v.Dict, append([]byte(nil), v.Raw...))
			if err != nil {
				return nil, err
			}
			ns.Plain = b
		}
		return &ns, nil
	}
	return o, nil
}

// Resolve follows indirect references (at most 32 hops). Unreadable objects
// and reference loops resolve to Null.
func (d *Doc) Resolve(o Object) Object {
	for i := 0; i < 32; i++ {
		r, ok := o.(Ref)
		if !ok {
			if o == nil {
				return Null{}
			}
			return o
		}
		n, err := d.Get(r)
		if err != nil {
			return Null{}
		}
		o = n
	}
	return Null{}
}

// ResolveDict resolves o and returns it as a dictionary (a stream's dictionary
// for streams).
func (d *Doc) ResolveDict(o Object) (Dict, bool) {
	switch v := d.Resolve(o).(type) {
	case Dict:
		return v, true
	case *Stream:
		return v.Dict, true
	}
	return nil, false
}

// DecodeStream returns the decoded stream data. For filters this package does
// not implement the bytes decoded so far are returned; use DecodeStreamOpaque
// to learn about that.
func (d *Doc) DecodeStream(s *Stream) ([]byte, error) {
	b, _, err := d.DecodeStreamOpaque(s)
	return b, err
}

// DecodeStreamOpaque is DecodeStream plus the flag that an undecodable filter
// (DCT, JPX, CCITT, JBIG2, Crypt, unknown) stopped the pipeline.
func (d *Doc) DecodeStreamOpaque(s *Stream) (data []byte, opaque bool, err error) {
	if s == nil {
		return nil, false, errors.New("pdfstrict: nil stream")
	}
	if s.Raw == nil && !s.LengthOK {
		return nil, false, fmt.Errorf("pdfstrict: stream %d has no usable /Length", s.ObjNr)
	}
	return Decode(s.Plain, s.Dict, d.Resolve, d.opts.MaxDecoded)
}
