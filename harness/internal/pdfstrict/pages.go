package pdfstrict

import (
	"errors"
	"fmt"
)

// Page is one leaf of the page tree with inherited attributes applied.
type Page struct {
	Ref         Ref
	Dict        Dict
	MediaBox    [4]float64
	CropBox     [4]float64 // defaults to MediaBox
	HasMediaBox bool
	HasCropBox  bool // false: CropBox was defaulted from MediaBox
	Rotate      int
	Resources   Dict // nil if neither the page nor an ancestor has /Resources
	// Content is the concatenation of the decoded content streams, joined by "\n".
	Content []byte
	// ContentErr is set when a content stream could not be read or decoded.
	ContentErr error
}

type inherited struct {
	resources Object
	mediaBox  Object
	cropBox   Object
	rotate    Object
}

const maxPages = 1 << 18

// Pages walks /Root /Pages in document order. /Count mismatches and tree
// malformations are appended to Defects (once; the result is cached).
func (d *Doc) Pages() ([]Page, error) {
	if d.pagesDone {
		return d.pages, d.pagesErr
	}
	d.pagesDone = true
	root, ok := d.ResolveDict(d.Trailer()["Root"])
	if !ok {
		d.pagesErr = errors.New("pdfstrict: /Root is not a dictionary")
		return nil, d.pagesErr
	}
	pr := root["Pages"]
	if _, ok := d.ResolveDict(pr); !ok {
		d.pagesErr = errors.New("pdfstrict: /Root /Pages is not a dictionary")
		return nil, d.pagesErr
	}
	onPath := map[Ref]bool{}
	_, err := d.walkPages(pr, inherited{}, onPath, 0)
	if err != nil {
		d.pagesErr = err
	}
	return d.pages, d.pagesErr
}

func (d *Doc) walkPages(node Object, inh inherited, onPath map[Ref]bool, depth int) (int, error) {
	ref, isRef := node.(Ref)
	nr := -1
	if isRef {
		nr = ref.Num
		if onPath[ref] {
			d.defect(KindPagesTree, nr, -1, -1, "page tree node %v is its own ancestor", ref)
			return 0, nil
		}
		onPath[ref] = true
		defer delete(onPath, ref)
	}
	if depth > MaxDepth {
		d.defect(KindPagesTree, nr, -1, -1, "page tree deeper than %d", MaxDepth)
		return 0, nil
	}
	if d.pageVisits++; d.pageVisits > 4*maxPages {
		return 0, fmt.Errorf("pdfstrict: more than %d page tree node visits", 4*maxPages)
	}
	dict, ok := d.Resolve(node).(Dict)
	if !ok {
		d.defect(KindPagesTree, nr, -1, -1, "page tree node is not a dictionary")
		return 0, nil
	}
	for _, k := range []struct {
		key string
		dst *Object
	}{{"Resources", &inh.resources}, {"MediaBox", &inh.mediaBox}, {"CropBox", &inh.cropBox}, {"Rotate", &inh.rotate}} {
		if v, has := dict[k.key]; has && !IsNull(d.Resolve(v)) {
			*k.dst = v
		}
	}
	typ, _ := d.Resolve(dict["Type"]).(Name)
	_, hasKids := dict["Kids"]
	if typ == "Pages" || (typ != "Page" && hasKids) {
		kids, ok := d.Resolve(dict["Kids"]).(Array)
		if !ok {
			d.defect(KindPagesTree, nr, -1, -1, "page tree node has no /Kids array")
			return 0, nil
		}
		leaves := 0
		for _, kid := range kids {
			n, err := d.walkPages(kid, inh, onPath, depth+1)
			if err != nil {
				return leaves, err
			}
			leaves += n
		}
		cnt, ok := d.Resolve(dict["Count"]).(Int)
		if !ok {
			d.defect(KindPagesCount, nr, -1, -1, "page tree node has no integer /Count (%d leaves)", leaves)
		} else if int(cnt) != leaves {
			d.defect(KindPagesCount, nr, -1, -1, "page tree node /Count is %d, it has %d leaves", cnt, leaves)
		}
		return leaves, nil
	}
	if len(d.pages) >= maxPages {
		return 0, fmt.Errorf("pdfstrict: more than %d pages", maxPages)
	}
	pg := Page{Ref: ref, Dict: dict}
	if b, ok := d.rect(inh.mediaBox); ok {
		pg.MediaBox, pg.HasMediaBox = b, true
	}
	pg.CropBox = pg.MediaBox
	if b, ok := d.rect(inh.cropBox); ok {
		pg.CropBox, pg.HasCropBox = b, true
	}
	if f, ok := Number(d.Resolve(inh.rotate)); ok {
		pg.Rotate = int(f)
	}
	if r, ok := d.ResolveDict(inh.resources); ok {
		pg.Resources = r
	}
	pg.Content, pg.ContentErr = d.pageContent(dict["Contents"])
	d.pages = append(d.pages, pg)
	return 1, nil
}

func (d *Doc) rect(o Object) (r [4]float64, ok bool) {
	a, isArr := d.Resolve(o).(Array)
	if !isArr || len(a) != 4 {
		return r, false
	}
	for i, x := range a {
		f, isNum := Number(d.Resolve(x))
		if !isNum {
			return r, false
		}
		r[i] = f
	}
	return r, true
}

func (d *Doc) pageContent(o Object) ([]byte, error) {
	if o == nil {
		return nil, nil
	}
	var parts []Object
	switch v := d.Resolve(o).(type) {
	case Null:
		return nil, nil
	case *Stream:
		parts = []Object{v}
	case Array:
		parts = v
	default:
		return nil, errors.New("pdfstrict: /Contents is neither a stream nor an array")
	}
	var out []byte
	for i, p := range parts {
		st, ok := d.Resolve(p).(*Stream)
		if !ok {
			return out, fmt.Errorf("pdfstrict: /Contents element %d is not a stream", i)
		}
		b, err := d.DecodeStream(st)
		if err != nil {
			return out, fmt.Errorf("pdfstrict: content stream %d: %v", st.ObjNr, err)
		}
		if i > 0 {
			out = append(out, '\n')
		}
		out = append(out, b...)
	}
	return out, nil
}
