// Package pdfstrict is an independent, non-repairing PDF reader used as an
// oracle by the verification harness. It imports nothing from pdfcpu. It never
// searches for objects, never repairs and never guesses: everything that is
// off-spec (ISO 32000-1 §7.2, §7.3, §7.5) is recorded as a structural Defect.
package pdfstrict

import (
	"fmt"
	"sort"
)

// Object is one of: Null, Bool, Int, Real, Name, String, Array, Dict, Ref, *Stream.
type Object interface{}

// Null is the PDF null object.
type Null struct{}

// Bool is a PDF boolean.
type Bool bool

// Int is a PDF integer.
type Int int64

// Real is a PDF real number.
type Real float64

// Name is a PDF name without the leading slash, #xx sequences decoded.
type Name string

// String is a PDF string (literal or hexadecimal), fully decoded.
type String []byte

// Array is a PDF array.
type Array []Object

// Dict is a PDF dictionary. Keys are decoded names without the leading slash.
type Dict map[string]Object

// Ref is an indirect reference "Num Gen R".
type Ref struct{ Num, Gen int }

// Stream is a PDF stream object.
type Stream struct {
	Dict Dict
	// Raw are the bytes exactly as stored in the file between the EOL after
	// "stream" and "endstream" (Length bytes). nil if /Length is unusable.
	Raw []byte
	// Plain are the bytes after decryption (identical to Raw when the document
	// is not encrypted, there is no Decrypter, or the stream is exempt).
	Plain []byte
	// ObjNr and Gen identify the indirect object that holds this stream.
	ObjNr, Gen int
	// Offset is the file offset of the first data byte.
	Offset int64
	// LengthOK reports that /Length was consistent with the endstream keyword.
	LengthOK bool
}

func (r Ref) String() string { return fmt.Sprintf("%d %d R", r.Num, r.Gen) }

// Keys returns the keys of d in sorted order.
func (d Dict) Keys() []string {
	ks := make([]string, 0, len(d))
	for k := range d {
		ks = append(ks, k)
	}
	sort.Strings(ks)
	return ks
}

// Name returns d[key] if it is a direct Name.
func (d Dict) Name(key string) (Name, bool) {
	n, ok := d[key].(Name)
	return n, ok
}

// Int returns d[key] if it is a direct Int.
func (d Dict) Int(key string) (int64, bool) {
	n, ok := d[key].(Int)
	return int64(n), ok
}

// Number converts a direct Int or Real into a float64.
func Number(o Object) (float64, bool) {
	switch v := o.(type) {
	case Int:
		return float64(v), true
	case Real:
		return float64(v), true
	}
	return 0, false
}

// IsNull reports whether o is nil or Null.
func IsNull(o Object) bool {
	if o == nil {
		return true
	}
	_, ok := o.(Null)
	return ok
}
