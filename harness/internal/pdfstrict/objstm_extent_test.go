package pdfstrict

import (
	"bytes"
	"fmt"
	"testing"
)

// objStmFile builds a minimal file: catalog 1, pages 2, object stream 4 holding objects 5 (<</A 1>>) and
// 6 ([1 2 3]) with the given pair table, uncompressed XRef stream 7.
func objStmFile(pairs string) []byte {
	var b bytes.Buffer
	off := map[int]int{}
	b.WriteString("%PDF-1.7\n")
	obj := func(n int, body string) {
		off[n] = b.Len()
		fmt.Fprintf(&b, "%d 0 obj\n%s\nendobj\n", n, body)
	}
	obj(1, "<</Type/Catalog/Pages 2 0 R>>")
	obj(2, "<</Type/Pages/Kids[]/Count 0>>")
	data := pairs + "<</A 1>> [1 2 3]"
	obj(4, fmt.Sprintf("<</Type/ObjStm/N 2/First %d/Length %d>>\nstream\n%s\nendstream", len(pairs), len(data), data))
	off[7] = b.Len()
	var x bytes.Buffer
	row := func(t, f2, f3 int) { x.Write([]byte{byte(t), byte(f2 >> 8), byte(f2), byte(f3 >> 8), byte(f3)}) }
	row(0, 3, 65535)  // 0 free -> 3
	row(1, off[1], 0) // 1
	row(1, off[2], 0) // 2
	row(0, 0, 1)      // 3 free -> 0
	row(1, off[4], 0) // 4 object stream
	row(2, 4, 0)      // 5 = stream 4 index 0
	row(2, 4, 1)      // 6 = stream 4 index 1
	row(1, off[7], 0) // 7 xref stream
	fmt.Fprintf(&b, "7 0 obj\n<</Type/XRef/Size 8/W[1 2 2]/Root 1 0 R/Length %d>>\nstream\n", x.Len())
	b.Write(x.Bytes())
	fmt.Fprintf(&b, "\nendstream\nendobj\nstartxref\n%d\n%%%%EOF\n", off[7])
	return b.Bytes()
}

func TestObjStmExtents(t *testing.T) {
	for _, c := range []struct {
		name, pairs string
		want        []string
	}{
		{"exact", "5 0 6 9 ", nil},
		{"gap", "5 0 6 8 ", nil}, // object 6 found one byte early (white space): still inside its slot
		{"overlap", "5 0 6 4 ", []string{KindObjStmOverlap}},
		{"order", "5 9 6 0 ", []string{KindObjStmOrder}},
		{"equal", "5 0 6 0 ", []string{KindObjStmOrder}},
	} {
		d, err := Open(objStmFile(c.pairs), Options{})
		if err != nil {
			t.Fatalf("%s: %v", c.name, err)
		}
		before := len(d.Defects)
		streams, _ := d.CheckObjStmExtents()
		if streams != 1 {
			t.Errorf("%s: %d object streams inspected, want 1 (defects %v)", c.name, streams, d.Defects)
		}
		var got []string
		for _, df := range d.Defects[before:] {
			got = append(got, df.Kind)
		}
		if fmt.Sprint(got) != fmt.Sprint(c.want) {
			t.Errorf("%s: extent defects %v, want %v (all: %v)", c.name, got, c.want, d.Defects)
		}
		if c.want == nil && len(d.Defects) != 0 {
			t.Errorf("%s: unexpected defects %v", c.name, d.Defects)
		}
	}
}
