package pdfstrict

import (
	"crypto/sha256"
	"encoding/hex"
	"fmt"
	"math"
	"strconv"
	"strings"
)

// CanonOpts control Canonical and DeepHashOpts.
type CanonOpts struct {
	// DropKeys names dictionary keys that are ignored in every dictionary
	// (e.g. ID, ModDate, Producer).
	DropKeys map[string]bool
	// DropNullEntries ignores dictionary entries whose value is null or a
	// reference to a free or undefined object.
	DropNullEntries bool
}

// keys never shown for streams: they describe the encoding, not the content.
var streamEncodingKeys = map[string]bool{"Length": true, "Filter": true, "DecodeParms": true, "DL": true}

func formatReal(f float64) string {
	if f == math.Trunc(f) && math.Abs(f) < 1e15 {
		return strconv.FormatInt(int64(f), 10)
	}
	s := strconv.FormatFloat(f, 'f', 12, 64)
	s = strings.TrimRight(s, "0")
	s = strings.TrimSuffix(s, ".")
	if s == "-0" || s == "" {
		s = "0"
	}
	return s
}

func formatName(n Name) string {
	var sb strings.Builder
	sb.WriteByte('/')
	for i := 0; i < len(n); i++ {
		c := n[i]
		if c > 32 && c < 127 && c != '#' && !isDelim(c) {
			sb.WriteByte(c)
		} else {
			fmt.Fprintf(&sb, "#%02x", c)
		}
	}
	return sb.String()
}

func scalarText(o Object) (string, bool) {
	switch v := o.(type) {
	case nil, Null:
		return "null", true
	case Bool:
		if v {
			return "true", true
		}
		return "false", true
	case Int:
		return strconv.FormatInt(int64(v), 10), true
	case Real:
		return formatReal(float64(v)), true
	case Name:
		return formatName(v), true
	case String:
		return "<" + hex.EncodeToString(v) + ">", true
	}
	return "", false
}

// streamDigest describes the content of a stream: sha256 of the decoded data,
// plus the undecoded tail of the filter pipeline when it is opaque.
func (d *Doc) streamDigest(s *Stream, sub func(Object) string) string {
	di, ok := d.digests[s]
	if !ok {
		var data []byte
		di.stop = -1
		di.specs, di.err = filterPipeline(s.Dict, d.Resolve)
		if di.err == nil {
			data, di.stop, di.err = decodeSpecs(s.Plain, di.specs, d.Resolve, d.opts.MaxDecoded)
		}
		if di.err != nil {
			data = s.Plain
		}
		sum := sha256.Sum256(data)
		di.sum = hex.EncodeToString(sum[:])
		if d.digests == nil {
			d.digests = map[*Stream]streamDigestInfo{}
		}
		d.digests[s] = di
	}
	if di.err != nil {
		return "undecodable:" + di.sum
	}
	out := "sha256:" + di.sum
	if di.stop >= 0 {
		out += " opaque:["
		for _, fs := range di.specs[di.stop:] {
			out += formatName(Name(fs.name))
			if fs.parms != nil {
				out += sub(fs.parms)
			}
		}
		out += "]"
	}
	return out
}

type streamDigestInfo struct {
	sum   string
	stop  int
	specs []filterSpec
	err   error
}

type canon struct {
	d     *Doc
	opts  CanonOpts
	ids   map[int]int
	queue []Ref
}

func (c *canon) isNull(o Object) bool {
	if IsNull(o) {
		return true
	}
	if r, ok := o.(Ref); ok {
		t, err := c.d.Get(r)
		return err == nil && IsNull(t)
	}
	return false
}

func (c *canon) writeDict(sb *strings.Builder, d Dict, isStream bool, depth int) {
	sb.WriteString("<<")
	for _, k := range d.Keys() {
		if c.opts.DropKeys[k] || (isStream && streamEncodingKeys[k]) {
			continue
		}
		if c.opts.DropNullEntries && c.isNull(d[k]) {
			continue
		}
		sb.WriteString(formatName(Name(k)))
		sb.WriteByte(' ')
		c.write(sb, d[k], depth+1)
		sb.WriteByte(' ')
	}
	sb.WriteString(">>")
}

func (c *canon) write(sb *strings.Builder, o Object, depth int) {
	if depth > MaxDepth+8 {
		sb.WriteString("!depth")
		return
	}
	if s, ok := scalarText(o); ok {
		sb.WriteString(s)
		return
	}
	switch v := o.(type) {
	case Ref:
		if c.isNull(v) {
			sb.WriteString("null")
			return
		}
		id, ok := c.ids[v.Num]
		if !ok {
			c.queue = append(c.queue, v)
			id = len(c.queue)
			c.ids[v.Num] = id
		}
		fmt.Fprintf(sb, "R%d", id)
	case Array:
		sb.WriteByte('[')
		for i, x := range v {
			if i > 0 {
				sb.WriteByte(' ')
			}
			c.write(sb, x, depth+1)
		}
		sb.WriteByte(']')
	case Dict:
		c.writeDict(sb, v, false, depth)
	case *Stream:
		sb.WriteString("stream")
		c.writeDict(sb, v.Dict, true, depth)
		sb.WriteString(c.d.streamDigest(v, func(o Object) string {
			var t strings.Builder
			c.write(&t, o, depth+1)
			return t.String()
		}))
	default:
		fmt.Fprintf(sb, "!unknown(%T)", o)
	}
}

// Canonical is a deterministic serialisation of the object graph reachable
// from root: one line for root, then one line per indirect object in
// first-visit (breadth-first, keys sorted) order. References are replaced by
// the visit number (R1, R2, ...), dictionary keys are sorted, reals are shown
// with at most 12 fractional digits (integral reals as integers), strings as
// hex, streams as their dictionary without /Length /Filter /DecodeParms /DL
// plus the sha256 of the decoded data. References to free or undefined objects
// are shown as null. Unreadable objects are shown as "!unreadable".
func (d *Doc) Canonical(root Object, opts CanonOpts) string {
	c := &canon{d: d, opts: opts, ids: map[int]int{}}
	var sb strings.Builder
	sb.WriteString("root: ")
	c.write(&sb, root, 0)
	sb.WriteByte('\n')
	for i := 0; i < len(c.queue); i++ {
		fmt.Fprintf(&sb, "%d: ", i+1)
		o, err := d.Get(c.queue[i])
		if err != nil {
			sb.WriteString("!unreadable")
		} else {
			c.write(&sb, o, 0)
		}
		sb.WriteByte('\n')
	}
	return sb.String()
}

// CanonicalHash is the sha256 (hex) of Canonical.
func (d *Doc) CanonicalHash(root Object, opts CanonOpts) string {
	sum := sha256.Sum256([]byte(d.Canonical(root, opts)))
	return hex.EncodeToString(sum[:])
}

// ---------------------------------------------------------------- deep hash

type deepHasher struct {
	d      *Doc
	opts   CanonOpts
	level  map[int]int    // object number -> depth on the current path
	memo   map[int]string // closed subgraphs only
	budget int
}

const noBack = math.MaxInt32

// text serialises o; containers below the top are replaced by their hash, so
// direct and indirect objects of equal content are indistinguishable. It
// returns the lowest path level a back reference inside o points to.
func (h *deepHasher) text(o Object, depth int) (string, int) {
	if h.budget--; h.budget < 0 {
		return "!budget", noBack
	}
	if depth > 100000 {
		return "!depth", noBack
	}
	if r, ok := o.(Ref); ok {
		t, err := h.d.Get(r)
		if err != nil {
			return "!unreadable", noBack
		}
		if IsNull(t) {
			return "null", noBack
		}
		if s, ok := scalarText(t); ok {
			return s, noBack
		}
		if _, again := t.(Ref); again {
			return h.text(h.d.Resolve(t), depth+1)
		}
		if l, on := h.level[r.Num]; on {
			return "^" + strconv.Itoa(len(h.level)-l), l
		}
		if m, ok := h.memo[r.Num]; ok {
			return m, noBack
		}
		my := len(h.level)
		h.level[r.Num] = my
		s, back := h.container(t, depth+1)
		delete(h.level, r.Num)
		if back >= my {
			h.memo[r.Num] = s
			back = noBack
		}
		return s, back
	}
	if s, ok := scalarText(o); ok {
		return s, noBack
	}
	return h.container(o, depth)
}

// container returns "&" + sha256 of the serialised array, dict or stream.
func (h *deepHasher) container(o Object, depth int) (string, int) {
	var sb strings.Builder
	back := noBack
	sub := func(x Object) string {
		s, b := h.text(x, depth+1)
		if b < back {
			back = b
		}
		return s
	}
	writeDict := func(d Dict, isStream bool) {
		sb.WriteString("<<")
		for _, k := range d.Keys() {
			if h.opts.DropKeys[k] || (isStream && streamEncodingKeys[k]) {
				continue
			}
			s := sub(d[k])
			if h.opts.DropNullEntries && s == "null" {
				continue
			}
			sb.WriteString(formatName(Name(k)))
			sb.WriteByte(' ')
			sb.WriteString(s)
			sb.WriteByte(' ')
		}
		sb.WriteString(">>")
	}
	switch v := o.(type) {
	case Array:
		sb.WriteByte('[')
		for i, x := range v {
			if i > 0 {
				sb.WriteByte(' ')
			}
			sb.WriteString(sub(x))
		}
		sb.WriteByte(']')
	case Dict:
		writeDict(v, false)
	case *Stream:
		sb.WriteString("stream")
		writeDict(v.Dict, true)
		sb.WriteString(h.d.streamDigest(v, sub))
	default:
		fmt.Fprintf(&sb, "!unknown(%T)", o)
	}
	sum := sha256.Sum256([]byte(sb.String()))
	return "&" + hex.EncodeToString(sum[:]), back
}

// DeepHash is the content identity of obj: a Merkle-style sha256 over
// everything reachable from it. Object numbers, and whether a value is direct
// or indirect, do not influence the hash; references back to an object on the
// current path are encoded by their distance. Streams contribute their
// dictionary (without /Length /Filter /DecodeParms /DL) and decoded data.
func (d *Doc) DeepHash(obj Object) string { return d.DeepHashOpts(obj, CanonOpts{}) }

// DeepHashOpts is DeepHash with dropped keys / null entries.
func (d *Doc) DeepHashOpts(obj Object, opts CanonOpts) string {
	h := &deepHasher{d: d, opts: opts, level: map[int]int{}, memo: map[int]string{}, budget: 4 << 20}
	s, _ := h.text(obj, 0)
	sum := sha256.Sum256([]byte(s))
	return hex.EncodeToString(sum[:])
}
