package pdfstrict

import "sort"

// Additional object-stream checks (C18): the pair table of an object stream must list the byte
// offsets in increasing order (ISO 32000-1 §7.5.7: "The offsets shall be in increasing order") and
// every compressed object must lie inside its own slot, i.e. parsing the object found at pair i must
// not run into the bytes that pair i+1 claims. Open() only parses the objects that a cross-reference
// entry names and never looks at where they end, so a pair table whose offsets are shifted by a few
// bytes can go unnoticed when the shifted position still happens to parse.
const (
	KindObjStmOrder   = "objstm-order"   // pair table offsets are not strictly increasing
	KindObjStmOverlap = "objstm-overlap" // a compressed object extends beyond the offset of the next pair
)

// ExtraKinds lists the kinds reported by the Check* methods (not by Open).
var ExtraKinds = []string{KindObjStmOrder, KindObjStmOverlap}

// CheckObjStmExtents inspects every object stream that Open could load (i.e. that some compressed
// entry refers to and that decoded) and records objstm-order / objstm-overlap defects. It returns
// the number of object streams and of compressed objects inspected.
func (d *Doc) CheckObjStmExtents() (streams, objects int) {
	offs := make([]int64, 0, len(d.stmCache))
	for off := range d.stmCache {
		offs = append(offs, off)
	}
	sort.Slice(offs, func(i, j int) bool { return offs[i] < offs[j] })
	for _, off := range offs {
		os := d.stmCache[off]
		if os == nil || os.err != nil || len(os.pairs) == 0 {
			continue
		}
		streams++
		stmNr := -1
		if po, ok := d.objCache[off]; ok && po.headerOK {
			stmNr = po.num
		}
		ordered := true
		for i := 1; i < len(os.pairs); i++ {
			if os.pairs[i][1] <= os.pairs[i-1][1] {
				ordered = false
				d.defect(KindObjStmOrder, stmNr, off, -1, "object stream %d: offset %d of pair %d (object %d) is not greater than offset %d of pair %d",
					stmNr, os.pairs[i][1], i, os.pairs[i][0], os.pairs[i-1][1], i-1)
				break
			}
		}
		if !ordered {
			continue
		}
		for i := range os.pairs {
			start := os.first + os.pairs[i][1]
			limit := len(os.data)
			if i+1 < len(os.pairs) {
				limit = os.first + os.pairs[i+1][1]
			}
			if start > len(os.data) {
				continue // reported by Open as objstm-header
			}
			p := &parser{data: os.data, pos: start}
			if _, err := p.parseObject(0); err != nil {
				continue // reported as objstm-parse when an entry names it
			}
			objects++
			if p.pos > limit {
				d.defect(KindObjStmOverlap, os.pairs[i][0], off, -1, "object stream %d: object %d at pair %d starts at %d and ends at %d, beyond the offset %d of the next pair",
					stmNr, os.pairs[i][0], i, start-os.first, p.pos-os.first, limit-os.first)
			}
		}
	}
	return streams, objects
}
