package pdfstrict

// Defect kinds. The names are stable; workers match on them.
const (
	// file frame
	KindHeader          = "header"           // no valid %PDF-1.n / %PDF-2.0 header at offset 0
	KindStartXRefSyntax = "startxref-syntax" // "startxref" is not followed by EOL, an integer, EOL
	KindStartXRefTarget = "startxref-target" // the last startxref value is not the offset of "xref" / an XRef stream object
	KindEOFMarker       = "eof-marker"       // no %%EOF after the last startxref value
	KindEOFTrailing     = "eof-trailing"     // bytes other than one EOL after the final %%EOF

	// cross-reference sections
	KindXRefKeywordEOL      = "xref-keyword-eol"      // "xref" keyword not directly followed by an EOL
	KindXRefSubsectionHead  = "xref-subsection-head"  // subsection header is not "first SP count EOL"
	KindXRefSubsectionCount = "xref-subsection-count" // number of entries differs from the subsection's count
	KindXRefEntryFormat     = "xref-entry-format"     // entry is not the exact 20-byte form
	KindXRefDuplicate       = "xref-duplicate"        // object number defined twice within one section
	KindXRefOriginalSubsect = "xref-original-subsect" // classic table of a never-updated file is not one subsection starting at 0 (§7.5.4)
	KindXRefStmDict         = "xrefstm-dict"          // /W, /Index, /Size of an XRef stream malformed
	KindXRefStmLength       = "xrefstm-length"        // decoded XRef stream length != entries * entry width
	KindXRefStmEntryType    = "xrefstm-entry-type"    // entry type other than 0, 1, 2
	KindPrevTarget          = "prev-target"           // /Prev (or its value) does not lead to a cross-reference section
	KindPrevLoop            = "prev-loop"             // /Prev chain revisits a section
	KindHybridTarget        = "hybrid-target"         // /XRefStm does not lead to an XRef stream
	KindTrailerSize         = "trailer-size"          // newest trailer /Size != highest object number + 1
	KindSectionSize         = "section-size"          // a section's own /Size is missing or smaller than its entries require
	KindTrailerRoot         = "trailer-root"          // newest trailer has no indirect /Root

	// free list
	KindFreeHead        = "free-head"         // object 0 has no entry or is not a free entry
	KindFreeHeadGen     = "free-head-gen"     // object 0 is free but its generation is not 65535
	KindFreeChainBroken = "free-chain-broken" // a next-free link names an object that is not a free entry
	KindFreeLoop        = "free-loop"         // the free chain loops without passing through object 0
	KindFreeNotOnChain  = "free-not-on-chain" // free entries exist that the chain from 0 never visits

	// in-use objects
	KindObjOffset = "obj-offset" // no "n g obj" at exactly the offset of an in-use entry
	KindObjID     = "obj-id"     // the object at the offset has another number or generation
	KindObjParse  = "obj-parse"  // the object body does not parse
	KindObjEndObj = "obj-endobj" // the object is not closed by "endobj"

	// streams
	KindStreamEOL    = "stream-eol"    // "stream" keyword not followed by CRLF or LF
	KindStreamLength = "stream-length" // /Length missing, unusable, or not leading to [EOL] "endstream"

	// object streams / compressed entries
	KindObjStmMissing = "objstm-missing" // a compressed entry names a container that is not an in-use stream object
	KindObjStmType    = "objstm-type"    // container is not /Type /ObjStm
	KindObjStmHeader  = "objstm-header"  // /N, /First and the pair table disagree
	KindObjStmDecode  = "objstm-decode"  // container data cannot be decoded
	KindObjStmIndex   = "objstm-index"   // index of a compressed entry >= /N
	KindObjStmObjNr   = "objstm-objnr"   // pair at index names another object number
	KindObjStmParse   = "objstm-parse"   // the compressed object does not parse

	// syntax (soft)
	KindNameEscape = "name-escape"  // '#' in a name not followed by two hex digits
	KindDictDupKey = "dict-dup-key" // a dictionary defines a key twice

	// document level (recorded by Pages)
	KindPagesCount = "pages-count" // a page tree node's /Count differs from its number of leaves
	KindPagesTree  = "pages-tree"  // page tree malformed (cycle, node not a dictionary, missing /Kids)

	// resource bounds
	KindLimit = "limit" // an internal bound was hit; checking is incomplete
)

// AllKinds lists every defect kind this package can report.
var AllKinds = []string{
	KindHeader, KindStartXRefSyntax, KindStartXRefTarget, KindEOFMarker, KindEOFTrailing,
	KindXRefKeywordEOL, KindXRefSubsectionHead, KindXRefSubsectionCount, KindXRefEntryFormat,
	KindXRefDuplicate, KindXRefOriginalSubsect, KindXRefStmDict, KindXRefStmLength, KindXRefStmEntryType,
	KindPrevTarget, KindPrevLoop, KindHybridTarget, KindTrailerSize, KindSectionSize, KindTrailerRoot,
	KindFreeHead, KindFreeHeadGen, KindFreeChainBroken, KindFreeLoop, KindFreeNotOnChain,
	KindObjOffset, KindObjID, KindObjParse, KindObjEndObj,
	KindStreamEOL, KindStreamLength,
	KindObjStmMissing, KindObjStmType, KindObjStmHeader, KindObjStmDecode, KindObjStmIndex,
	KindObjStmObjNr, KindObjStmParse,
	KindNameEscape, KindDictDupKey,
	KindPagesCount, KindPagesTree,
	KindLimit,
}
