package pdfstrict

import (
	"bytes"
	"compress/lzw"
	"encoding/ascii85"
	"fmt"
	"math/rand"
	"reflect"
	"strings"
	"testing"
	"time"
)

// ---------------------------------------------------------------- parser

func TestParseObjects(t *testing.T) {
	cases := []struct {
		in   string
		want Object
	}{
		{"null", Null{}},
		{"true", Bool(true)},
		{"false ", Bool(false)},
		{"123", Int(123)},
		{"+3", Int(3)},
		{"-17", Int(-17)},
		{"0", Int(0)},
		{"-.5", Real(-0.5)},
		{"4.", Real(4)},
		{".25", Real(0.25)},
		{"+0.002", Real(0.002)},
		{"34.5", Real(34.5)},
		{"99999999999999999999", Real(1e20)},
		{"/Name1", Name("Name1")},
		{"/A#20B", Name("A B")},
		{"/A#42", Name("AB")},
		{"/", Name("")},
		{"/a.b-c_d*e", Name("a.b-c_d*e")},
		{"/Lime#20Green", Name("Lime Green")},
		{"/paired#28#29parentheses", Name("paired()parentheses")},
		{"(hello)", String("hello")},
		{"()", String("")},
		{"(a(b(c))d)", String("a(b(c))d")},
		{`(\n\r\t\b\f\(\)\\)`, String("\n\r\t\b\f()\\")},
		{`(\101\60\7x\0053)`, String("A0\ax\x053")},
		{`(\400)`, String("\x00")}, // high-order overflow ignored
		{`(\q)`, String("q")},
		{"(a\\\nb)", String("ab")},
		{"(a\\\r\nb)", String("ab")},
		{"(a\\\rb)", String("ab")},
		{"(a\r\nb\rc\nd)", String("a\nb\nc\nd")},
		{"<48656C6c6F>", String("Hello")},
		{"<48 65\n6C>", String("Hel")},
		{"<901FA>", String("\x90\x1f\xa0")},
		{"<>", String("")},
		{"[1 2.5 /N (s) <41> true null]", Array{Int(1), Real(2.5), Name("N"), String("s"), String("A"), Bool(true), Null{}}},
		{"[]", Array{}},
		{"[[1][2 [3]]]", Array{Array{Int(1)}, Array{Int(2), Array{Int(3)}}}},
		{"12 0 R", Ref{12, 0}},
		{"[1 0 R 2 3 R]", Array{Ref{1, 0}, Ref{2, 3}}},
		{"[1 0 2 R]", Array{Int(1), Ref{0, 2}}},
		{"[1 2 3]", Array{Int(1), Int(2), Int(3)}},
		{"[1 0 Rx]", nil},
		{"[-1 0 R]", nil},
		{"<</A 1/B[2]/C<</D(x)>>>>", Dict{"A": Int(1), "B": Array{Int(2)}, "C": Dict{"D": String("x")}}},
		{"<< /A 1 0 R /B null >>", Dict{"A": Ref{1, 0}, "B": Null{}}},
		{"<<>>", Dict{}},
		{"% comment\n 5", Int(5)},
		{"[1 % c\r2\x00\x0c\t3]", Array{Int(1), Int(2), Int(3)}},
		{"<</A%x\n1>>", Dict{"A": Int(1)}},
		{"/A/B", Name("A")},
		{"1.2.3", nil},
		{"--5", nil},
		{"+", nil},
		{".", nil},
		{"1e5", nil},
		{"(abc", nil},
		{"<4G>", nil},
		{"<41", nil},
		{"[1 2", nil},
		{"<</A>>", nil},
		{"<</A 1", nil},
		{"<<1 2>>", nil},
		{"nul", nil},
		{"truex", nil},
		{"]", nil},
		{">>", nil},
		{"", nil},
		{"   ", nil},
	}
	for _, tc := range cases {
		got, _, err := ParseObject([]byte(tc.in))
		if tc.want == nil {
			if err == nil {
				t.Errorf("%q: expected an error, got %#v", tc.in, got)
			}
			continue
		}
		if err != nil {
			t.Errorf("%q: %v", tc.in, err)
			continue
		}
		if !reflect.DeepEqual(got, tc.want) {
			t.Errorf("%q: got %#v want %#v", tc.in, got, tc.want)
		}
	}
}

func TestParseDepthBound(t *testing.T) {
	deep := strings.Repeat("[", 100000)
	start := time.Now()
	if _, _, err := ParseObject([]byte(deep)); err == nil {
		t.Error("no error for 100000 nested arrays")
	}
	deepD := strings.Repeat("<</A", 100000)
	if _, _, err := ParseObject([]byte(deepD)); err == nil {
		t.Error("no error for 100000 nested dicts")
	}
	ok := strings.Repeat("[", MaxDepth) + strings.Repeat("]", MaxDepth)
	if _, _, err := ParseObject([]byte(ok)); err != nil {
		t.Errorf("depth %d rejected: %v", MaxDepth, err)
	}
	if time.Since(start) > 5*time.Second {
		t.Error("too slow")
	}
}

// ---------------------------------------------------------------- filters

func TestFlate(t *testing.T) {
	rng := rand.New(rand.NewSource(1))
	for _, n := range []int{0, 1, 100, 70000} {
		b := make([]byte, n)
		for i := range b {
			b[i] = byte(rng.Intn(7))
		}
		got, err := FlateDecode(deflate(b), 0)
		if err != nil || !bytes.Equal(got, b) {
			t.Errorf("n=%d: err=%v equal=%v", n, err, bytes.Equal(got, b))
		}
	}
	if _, err := FlateDecode(deflate(make([]byte, 5000)), 100); err != ErrTooLarge {
		t.Errorf("limit not enforced: %v", err)
	}
	if _, err := FlateDecode([]byte("not zlib"), 0); err == nil {
		t.Error("garbage accepted")
	}
	z := deflate([]byte("hello world hello world"))
	if _, err := FlateDecode(z[:len(z)-6], 0); err == nil {
		t.Error("truncated stream accepted")
	}
}

// lzwEncode is a straightforward reference encoder for PDF's LZW.
func lzwEncode(data []byte, early int) []byte {
	var out []byte
	var acc uint32
	var nb uint
	width := uint(9)
	emit := func(code int) {
		acc = acc<<width | uint32(code)
		nb += width
		for nb >= 8 {
			out = append(out, byte(acc>>(nb-8)))
			nb -= 8
		}
	}
	table := map[string]int{}
	next := 258
	emit(256)
	cur := ""
	for _, c := range data {
		s := cur + string([]byte{c})
		if _, ok := table[s]; ok || len(s) == 1 {
			cur = s
			continue
		}
		code := func(s string) int {
			if len(s) == 1 {
				return int(s[0])
			}
			return table[s]
		}
		emit(code(cur))
		table[s] = next
		next++
		if next+early > 1<<width && width < 12 {
			width++
		}
		if next == 4095 {
			emit(256)
			table = map[string]int{}
			next = 258
			width = 9
		}
		cur = string([]byte{c})
	}
	if cur != "" {
		if len(cur) == 1 {
			emit(int(cur[0]))
		} else {
			emit(table[cur])
		}
		// the decoder adds one more entry after this code
		next++
		if next+early > 1<<width && width < 12 {
			width++
		}
	}
	emit(257)
	if nb > 0 {
		out = append(out, byte(acc<<(8-nb)))
	}
	return out
}

func TestLZW(t *testing.T) {
	// ISO 32000-1 §7.4.4.2 example
	in := []byte{0x80, 0x0B, 0x60, 0x50, 0x22, 0x0C, 0x0C, 0x85, 0x01}
	got, err := LZWDecode(in, 1, 0)
	want := []byte{45, 45, 45, 45, 45, 65, 45, 45, 45, 66}
	if err != nil || !bytes.Equal(got, want) {
		t.Errorf("spec example: %v %v", got, err)
	}
	// hand vector: clear, 'a', 'b', 258 (="ab"), 260 (KwKwK: "aba"), EOD
	// codes 9 bit: 256 97 98 258 260 257
	bits := ""
	for _, c := range []int{256, 97, 98, 258, 260, 257} {
		bits += fmt.Sprintf("%09b", c)
	}
	for len(bits)%8 != 0 {
		bits += "0"
	}
	var hv []byte
	for i := 0; i < len(bits); i += 8 {
		var b byte
		fmt.Sscanf(bits[i:i+8], "%b", &b)
		hv = append(hv, b)
	}
	got, err = LZWDecode(hv, 1, 0)
	if err != nil || string(got) != "abababa" {
		t.Errorf("KwKwK vector: %q %v", got, err)
	}
	// round trips across every code width change and a full table, both
	// EarlyChange values, against the reference encoder
	rng := rand.New(rand.NewSource(2))
	for _, early := range []int{0, 1} {
		for _, n := range []int{0, 1, 2, 300, 1000, 5000, 40000, 200000} {
			for _, alpha := range []int{2, 16, 256} {
				b := make([]byte, n)
				for i := range b {
					b[i] = byte(rng.Intn(alpha))
				}
				got, err := LZWDecode(lzwEncode(b, early), early, 0)
				if err != nil || !bytes.Equal(got, b) {
					t.Fatalf("early=%d n=%d alpha=%d: err=%v equal=%v (len %d)", early, n, alpha, err, bytes.Equal(got, b), len(got))
				}
			}
		}
	}
	// independent cross-check: the std encoder (MSB, 8 bit literals) is the
	// EarlyChange 0 variant
	for _, n := range []int{10, 3000, 100000} {
		b := make([]byte, n)
		for i := range b {
			b[i] = byte(rng.Intn(40))
		}
		var z bytes.Buffer
		w := lzw.NewWriter(&z, lzw.MSB, 8)
		w.Write(b)
		w.Close()
		got, err := LZWDecode(z.Bytes(), 0, 0)
		if err != nil || !bytes.Equal(got, b) {
			t.Errorf("std lzw n=%d: err=%v equal=%v", n, err, bytes.Equal(got, b))
		}
	}
	if _, err := LZWDecode([]byte{0xff, 0xff, 0xff}, 1, 0); err == nil {
		t.Error("invalid code accepted")
	}
}

func TestASCII85(t *testing.T) {
	vec := []struct{ in, want string }{
		{"9jqo^~>", "Man "},
		{"z~>", "\x00\x00\x00\x00"},
		{"9jqo^zF*2M7/c~>", "Man \x00\x00\x00\x00sure."},
		{"9j qo\n^~>", "Man "},
		{"/c~>", "."},
		{"~>", ""},
		{"87cURD]i,\"Ebo80~>", "Hello World!"},
		{"87cURD]i,\"Ebo80", "Hello World!"}, // EOD missing: end of data
	}
	for _, v := range vec {
		got, err := ASCII85Decode([]byte(v.in))
		if err != nil || string(got) != v.want {
			t.Errorf("%q: %q %v", v.in, got, err)
		}
	}
	for _, bad := range []string{"9~>", "9jzqo~>", "9jqv^~>", "s8W-\"~>", "ab~x"} {
		if got, err := ASCII85Decode([]byte(bad)); err == nil {
			t.Errorf("%q accepted: %q", bad, got)
		}
	}
	rng := rand.New(rand.NewSource(3))
	for n := 0; n < 70; n++ {
		b := make([]byte, n)
		rng.Read(b)
		if n > 8 {
			copy(b[4:8], []byte{0, 0, 0, 0})
		}
		enc := make([]byte, ascii85.MaxEncodedLen(n))
		enc = enc[:ascii85.Encode(enc, b)]
		got, err := ASCII85Decode(append(enc, '~', '>'))
		if err != nil || !bytes.Equal(got, b) {
			t.Errorf("round trip n=%d: %v", n, err)
		}
	}
}

func TestASCIIHex(t *testing.T) {
	vec := []struct{ in, want string }{
		{"48656c6C6f>", "Hello"}, {"48 65\n6c>", "Hel"}, {"7>", "p"}, {"417>", "Ap"}, {">", ""}, {"4142", "AB"}, {"41>4243", "A"},
	}
	for _, v := range vec {
		got, err := ASCIIHexDecode([]byte(v.in))
		if err != nil || string(got) != v.want {
			t.Errorf("%q: %q %v", v.in, got, err)
		}
	}
	if _, err := ASCIIHexDecode([]byte("4x>")); err == nil {
		t.Error("invalid digit accepted")
	}
}

func TestRunLength(t *testing.T) {
	got, err := RunLengthDecode([]byte{2, 'a', 'b', 'c', 254, 'x', 0, 'y', 129, 'z', 128, 'q'}, 0)
	if err != nil || string(got) != "abcxxxy"+strings.Repeat("z", 128) {
		t.Errorf("%q %v", got, err)
	}
	if got, err := RunLengthDecode([]byte{0, 'a'}, 0); err != nil || string(got) != "a" {
		t.Errorf("no EOD: %q %v", got, err)
	}
	for _, bad := range [][]byte{{5, 'a'}, {200}} {
		if _, err := RunLengthDecode(bad, 0); err == nil {
			t.Errorf("%v accepted", bad)
		}
	}
	if _, err := RunLengthDecode(bytes.Repeat([]byte{129, 'a'}, 100), 1000); err != ErrTooLarge {
		t.Errorf("limit: %v", err)
	}
}

func TestPredictors(t *testing.T) {
	cases := []struct {
		name string
		pp   PredictorParams
		in   []byte
		want []byte
	}{
		{"png none", PredictorParams{Predictor: 10, Columns: 3}, []byte{0, 1, 2, 3, 0, 4, 5, 6}, []byte{1, 2, 3, 4, 5, 6}},
		{"png sub", PredictorParams{Predictor: 11, Columns: 3}, []byte{1, 1, 1, 1}, []byte{1, 2, 3}},
		{"png sub bpp3", PredictorParams{Predictor: 11, Columns: 2, Colors: 3}, []byte{1, 10, 20, 30, 1, 1, 1}, []byte{10, 20, 30, 11, 21, 31}},
		{"png sub 16bit", PredictorParams{Predictor: 11, Columns: 2, BitsPerComponent: 16}, []byte{1, 1, 2, 1, 1}, []byte{1, 2, 2, 3}},
		{"png sub 4bit bpp1", PredictorParams{Predictor: 11, Columns: 4, BitsPerComponent: 4}, []byte{1, 0x12, 0x01}, []byte{0x12, 0x13}},
		{"png up", PredictorParams{Predictor: 12, Columns: 3}, []byte{2, 1, 2, 3, 2, 1, 1, 1}, []byte{1, 2, 3, 2, 3, 4}},
		{"png up wrap", PredictorParams{Predictor: 12, Columns: 1}, []byte{2, 200, 2, 100}, []byte{200, 44}},
		{"png average", PredictorParams{Predictor: 13, Columns: 3}, []byte{0, 10, 20, 30, 3, 5, 5, 5}, []byte{10, 20, 30, 10, 20, 30}},
		{"png average first row", PredictorParams{Predictor: 13, Columns: 3}, []byte{3, 10, 5, 5}, []byte{10, 10, 10}},
		{"png paeth b", PredictorParams{Predictor: 14, Columns: 3}, []byte{0, 10, 20, 30, 4, 1, 1, 1}, []byte{10, 20, 30, 11, 21, 31}},
		{"png paeth c", PredictorParams{Predictor: 14, Columns: 2}, []byte{0, 55, 60, 4, 251, 1}, []byte{55, 60, 50, 56}},
		{"png paeth first row = sub", PredictorParams{Predictor: 14, Columns: 3}, []byte{4, 1, 1, 1}, []byte{1, 2, 3}},
		{"png optimum mixed rows", PredictorParams{Predictor: 15, Columns: 2}, []byte{1, 1, 1, 2, 1, 1, 0, 9, 9}, []byte{1, 2, 2, 3, 9, 9}},
		{"tiff 8bit 3 colors", PredictorParams{Predictor: 2, Columns: 2, Colors: 3}, []byte{10, 20, 30, 1, 2, 3}, []byte{10, 20, 30, 11, 22, 33}},
		{"tiff 8bit rows independent", PredictorParams{Predictor: 2, Columns: 2}, []byte{1, 1, 5, 250}, []byte{1, 2, 5, 255}},
		{"tiff 8bit wrap", PredictorParams{Predictor: 2, Columns: 2}, []byte{200, 100}, []byte{200, 44}},
		{"tiff 16bit carry", PredictorParams{Predictor: 2, Columns: 3, BitsPerComponent: 16}, []byte{0x00, 0xFF, 0x00, 0x01, 0xFF, 0xFF}, []byte{0x00, 0xFF, 0x01, 0x00, 0x00, 0xFF}},
		{"tiff 16bit 2 colors", PredictorParams{Predictor: 2, Columns: 2, Colors: 2, BitsPerComponent: 16}, []byte{0, 1, 0, 2, 0, 0xFF, 1, 0}, []byte{0, 1, 0, 2, 1, 0, 1, 2}},
		{"tiff 4bit", PredictorParams{Predictor: 2, Columns: 4, BitsPerComponent: 4}, []byte{0x12, 0x3F}, []byte{0x13, 0x65}},
		{"tiff 2bit", PredictorParams{Predictor: 2, Columns: 4, BitsPerComponent: 2}, []byte{0x5E}, []byte{0x67}},
		{"tiff 1bit", PredictorParams{Predictor: 2, Columns: 8, BitsPerComponent: 1}, []byte{0xD0}, []byte{0x9F}},
		{"tiff 4bit 2 colors padded row", PredictorParams{Predictor: 2, Columns: 3, Colors: 1, BitsPerComponent: 4}, []byte{0x11, 0x10, 0x22, 0x20}, []byte{0x12, 0x30, 0x24, 0x60}},
		{"none", PredictorParams{Predictor: 1, Columns: 7}, []byte{1, 2, 3}, []byte{1, 2, 3}},
	}
	for _, tc := range cases {
		got, err := Unpredict(tc.in, tc.pp)
		if err != nil || !bytes.Equal(got, tc.want) {
			t.Errorf("%s: got %v err %v, want %v", tc.name, got, err, tc.want)
		}
	}
	bad := []struct {
		pp PredictorParams
		in []byte
	}{
		{PredictorParams{Predictor: 12, Columns: 3}, []byte{2, 1, 2}},    // partial row
		{PredictorParams{Predictor: 12, Columns: 3}, []byte{9, 1, 2, 3}}, // filter type 9
		{PredictorParams{Predictor: 2, Columns: 3}, []byte{1, 2}},        // partial row
		{PredictorParams{Predictor: 3, Columns: 3}, []byte{1, 2, 3}},     // unknown predictor
		{PredictorParams{Predictor: 12, Columns: 1, BitsPerComponent: 3}, []byte{0, 1}},
		{PredictorParams{Predictor: 12, Columns: 1 << 28, Colors: 1 << 16, BitsPerComponent: 16}, []byte{0, 1}},
		{PredictorParams{Predictor: 12, Columns: -1}, []byte{0, 1}},
	}
	for _, tc := range bad {
		if got, err := Unpredict(tc.in, tc.pp); err == nil {
			t.Errorf("%+v %v accepted: %v", tc.pp, tc.in, got)
		}
	}
}

func TestDecodePipeline(t *testing.T) {
	plain := []byte("the quick brown fox jumps over the lazy dog")
	// [/ASCIIHexDecode /FlateDecode] with DecodeParms array [null <<Predictor 12 Columns 43>>]
	z := deflate(pngUp(plain, len(plain)))
	hexed := []byte(fmt.Sprintf("%x>", z))
	obj, _, err := ParseObject([]byte(fmt.Sprintf("<</Filter[/ASCIIHexDecode/FlateDecode]/DecodeParms[null<</Predictor 12/Columns %d>>]>>", len(plain))))
	if err != nil {
		t.Fatal(err)
	}
	got, opaque, err := Decode(hexed, obj.(Dict), nil, 0)
	if err != nil || opaque || !bytes.Equal(got, plain) {
		t.Errorf("pipeline: %q %v %v", got, opaque, err)
	}
	// single name + single dict; LZW with EarlyChange 0
	obj, _, _ = ParseObject([]byte("<</Filter/LZWDecode/DecodeParms<</EarlyChange 0>>>>"))
	got, _, err = Decode(lzwEncode(plain, 0), obj.(Dict), nil, 0)
	if err != nil || !bytes.Equal(got, plain) {
		t.Errorf("lzw ec0: %q %v", got, err)
	}
	obj, _, _ = ParseObject([]byte("<</Filter/LZWDecode>>"))
	got, _, err = Decode(lzwEncode(plain, 1), obj.(Dict), nil, 0)
	if err != nil || !bytes.Equal(got, plain) {
		t.Errorf("lzw default: %q %v", got, err)
	}
	// opaque: decoding stops at DCT, earlier stages applied
	obj, _, _ = ParseObject([]byte("<</Filter[/ASCII85Decode/DCTDecode]>>"))
	got, opaque, err = Decode([]byte("9jqo^~>"), obj.(Dict), nil, 0)
	if err != nil || !opaque || string(got) != "Man " {
		t.Errorf("opaque: %q %v %v", got, opaque, err)
	}
	for _, f := range []string{"DCTDecode", "JPXDecode", "CCITTFaxDecode", "JBIG2Decode", "Crypt", "Whatever"} {
		obj, _, _ = ParseObject([]byte("<</Filter/" + f + ">>"))
		got, opaque, err = Decode([]byte("raw"), obj.(Dict), nil, 0)
		if err != nil || !opaque || string(got) != "raw" {
			t.Errorf("%s: %q %v %v", f, got, opaque, err)
		}
	}
	for _, bad := range []string{"<</Filter 3>>", "<</Filter[/FlateDecode 3]>>", "<</Filter[/A/B]/DecodeParms<<>>>>", "<</Filter/FlateDecode/DecodeParms[<<>><<>>]>>", "<</Filter/FlateDecode/DecodeParms 7>>"} {
		obj, _, _ = ParseObject([]byte(bad))
		if _, _, err := Decode(deflate(plain), obj.(Dict), nil, 0); err == nil {
			t.Errorf("%s accepted", bad)
		}
	}
	// no filter
	got, opaque, err = Decode(plain, Dict{}, nil, 0)
	if err != nil || opaque || !bytes.Equal(got, plain) {
		t.Error("identity")
	}
}

// ---------------------------------------------------------------- canonical form

func TestFormatReal(t *testing.T) {
	for in, want := range map[float64]string{0: "0", 1: "1", -1: "-1", 0.5: "0.5", -0.25: "-0.25", 1.0 / 3: "0.333333333333", 2.0000000000001: "2", 1e-13: "0", -1e-13: "0", 1234.5678: "1234.5678", 1e20: "100000000000000000000"} {
		if got := formatReal(in); got != want {
			t.Errorf("formatReal(%v) = %q want %q", in, got, want)
		}
	}
}

func canonDoc(t *testing.T, bodies map[int]string, root int) *Doc {
	t.Helper()
	f := newFx()
	max := 0
	for n := range bodies {
		if n > max {
			max = n
		}
	}
	// write in descending order so that file order differs from numbering
	for n := max; n >= 1; n-- {
		if b, ok := bodies[n]; ok {
			if strings.HasPrefix(b, "STREAM:") {
				parts := strings.SplitN(b[7:], "|", 2)
				f.streamObj(n, parts[0], []byte(parts[1]), "\n", "\n")
			} else {
				f.obj(n, b)
			}
		}
	}
	x := f.buf.Len()
	fmt.Fprintf(&f.buf, "xref\n0 %d\n", max+1)
	// free list over the gaps
	var frees []int
	for n := 1; n <= max; n++ {
		if _, ok := bodies[n]; !ok {
			frees = append(frees, n)
		}
	}
	nextFree := func(i int) int {
		if i < len(frees) {
			return frees[i]
		}
		return 0
	}
	f.buf.WriteString(free(nextFree(0), 65535))
	fi := 0
	for n := 1; n <= max; n++ {
		if _, ok := bodies[n]; ok {
			f.buf.WriteString(inUse(f.offs[n]))
		} else {
			fi++
			f.buf.WriteString(free(nextFree(fi), 0))
		}
	}
	fmt.Fprintf(&f.buf, "trailer\n<</Size %d/Root %d 0 R>>\nstartxref\n%d\n%%%%EOF\n", max+1, root, x)
	d := mustOpen(t, f.buf.Bytes())
	for _, df := range d.Defects {
		t.Fatalf("canon fixture defect: %v", df)
	}
	return d
}

func TestCanonical(t *testing.T) {
	z := string(deflate([]byte("stream data")))
	a := canonDoc(t, map[int]string{
		1: "<</Type/Catalog/Pages 2 0 R/Z 1.50/A(x)/M 5 0 R/Gone 9 0 R/N null>>",
		2: "<</Kids[3 0 R]/Parent 1 0 R/Count 1>>",
		3: "<</Parent 2 0 R/C 4 0 R/V 3>>",
		4: "STREAM:<</Length 11/K/V>>|stream data",
		5: "<</ModDate(D:2020)>>",
	}, 1)
	// same graph: renumbered, reordered keys, hex string, real forms, stream re-encoded
	b := canonDoc(t, map[int]string{
		7:  "<</A<78>/Z 1.5/Pages 3 0 R/Type/Catalog/M 2 0 R>>",
		3:  "<</Count 1/Parent 7 0 R/Kids[6 0 R]>>",
		6:  "<</V 3.0/C 11 0 R/Parent 3 0 R>>",
		11: fmt.Sprintf("STREAM:<</K/V/Filter/FlateDecode/Length %d/DL 11>>|%s", len(z), z),
		2:  "<</ModDate(D:2024)>>",
	}, 7)
	opts := CanonOpts{DropKeys: map[string]bool{"ModDate": true}, DropNullEntries: true}
	ca, cb := a.Canonical(a.Trailer()["Root"], opts), b.Canonical(b.Trailer()["Root"], opts)
	if ca != cb {
		t.Errorf("canonical forms differ:\n%s\n----\n%s", ca, cb)
	}
	if !strings.Contains(ca, "sha256:") || strings.Contains(ca, "Length") || strings.Contains(ca, "ModDate") {
		t.Errorf("unexpected canonical text:\n%s", ca)
	}
	if a.CanonicalHash(a.Trailer()["Root"], opts) != b.CanonicalHash(b.Trailer()["Root"], opts) {
		t.Error("hash differs")
	}
	// without the options the differences show
	if a.Canonical(Ref{1, 0}, CanonOpts{}) == b.Canonical(Ref{7, 0}, CanonOpts{}) {
		t.Error("ModDate / null entries not visible without options")
	}
	if !strings.Contains(a.Canonical(Ref{1, 0}, CanonOpts{}), "/Gone null") {
		t.Errorf("dangling reference should print as null:\n%s", a.Canonical(Ref{1, 0}, CanonOpts{}))
	}
	// any content change shows
	for name, mod := range map[string]map[int]string{
		"stream data": {4: "STREAM:<</Length 11/K/V>>|stream dat4"},
		"stream dict": {4: "STREAM:<</Length 11/K/W>>|stream data"},
		"int":         {3: "<</Parent 2 0 R/C 4 0 R/V 4>>"},
		"real":        {1: "<</Type/Catalog/Pages 2 0 R/Z 1.5000001/A(x)/M 5 0 R>>"},
		"string":      {1: "<</Type/Catalog/Pages 2 0 R/Z 1.5/A(y)/M 5 0 R>>"},
		"structure":   {3: "<</Parent 1 0 R/C 4 0 R/V 3>>"},
		"array order": {2: "<</Kids[3 0 R 3 0 R]/Parent 1 0 R/Count 1>>"},
	} {
		bodies := map[int]string{
			1: "<</Type/Catalog/Pages 2 0 R/Z 1.50/A(x)/M 5 0 R>>",
			2: "<</Kids[3 0 R]/Parent 1 0 R/Count 1>>",
			3: "<</Parent 2 0 R/C 4 0 R/V 3>>",
			4: "STREAM:<</Length 11/K/V>>|stream data",
			5: "<</ModDate(D:2020)>>",
		}
		for k, v := range mod {
			bodies[k] = v
		}
		c := canonDoc(t, bodies, 1)
		if c.Canonical(Ref{1, 0}, opts) == ca {
			t.Errorf("change %q not visible in canonical form", name)
		}
		if c.DeepHashOpts(Ref{1, 0}, opts) == a.DeepHashOpts(Ref{1, 0}, opts) {
			t.Errorf("change %q not visible in deep hash", name)
		}
	}
	// deep hash: numbering, direct/indirect and encoding do not matter
	if a.DeepHashOpts(Ref{1, 0}, opts) != b.DeepHashOpts(Ref{7, 0}, opts) {
		t.Error("deep hash differs for isomorphic graphs")
	}
	c := canonDoc(t, map[int]string{
		1: "<</F 2 0 R/G 3 0 R/H<</W[1 2 3]/S 4 0 R>>>>",
		2: "<</W[1 2 3]/S 4 0 R>>",
		3: "<</W 5 0 R/S 6 0 R>>",
		4: "STREAM:<</Length 3>>|abc",
		5: "[1 2.0 3]",
		6: fmt.Sprintf("STREAM:<</Length %d/Filter/ASCIIHexDecode>>|%s", 7, "616263>"),
	}, 1)
	root := c.Resolve(Ref{1, 0}).(Dict)
	h2, h3, hd := c.DeepHash(root["F"]), c.DeepHash(root["G"]), c.DeepHash(root["H"])
	if h2 != h3 || h2 != hd {
		t.Errorf("deep hashes of equal resources differ: %s %s %s", h2, h3, hd)
	}
	if c.DeepHash(Ref{4, 0}) == c.DeepHash(Ref{5, 0}) {
		t.Error("different objects, same deep hash")
	}
	// cyclic graphs terminate
	if h := a.DeepHash(Ref{3, 0}); len(h) != 64 {
		t.Errorf("hash %q", h)
	}
}

// ---------------------------------------------------------------- robustness

func TestHostileMutations(t *testing.T) {
	seeds := [][]byte{classic("").data, xsBuild(xsMut{}), xsBuild(xsMut{compress: true}), hybrid(true)}
	inc, _ := incremental()
	seeds = append(seeds, inc)
	rng := rand.New(rand.NewSource(4))
	start := time.Now()
	run := func(b []byte) {
		defer func() {
			if r := recover(); r != nil {
				t.Fatalf("PANIC %v on %q", r, b)
			}
		}()
		d, _ := Open(b, Options{MaxDecoded: 1 << 20})
		if d == nil {
			return
		}
		d.Pages()
		for _, n := range d.Objects() {
			o, _ := d.Get(Ref{n, 0})
			if s, ok := o.(*Stream); ok {
				d.DecodeStream(s)
			}
		}
		d.Canonical(d.Trailer(), CanonOpts{})
		d.DeepHash(d.Trailer()["Root"])
	}
	interesting := []string{"0", "9", "99999999999", "-1", "/Prev 0", "/Kids", "R", "obj", "endobj", "stream", "[", "<<", ">>", "(", "/Length 5 0 R", "4 0 R", "/W[8 8 8]", "/N 99999999", "/First 0", "/Index[0 99999999]", "/Size 2147483647", "/Columns 268435456", "/Predictor 15"}
	for i := 0; i < 30000; i++ {
		b := append([]byte{}, seeds[i%len(seeds)]...)
		switch rng.Intn(4) {
		case 0:
			for k := 0; k <= rng.Intn(4); k++ {
				b[rng.Intn(len(b))] = byte(rng.Intn(256))
			}
		case 1:
			b = b[:rng.Intn(len(b))]
		case 2:
			s := interesting[rng.Intn(len(interesting))]
			p := rng.Intn(len(b))
			b = append(b[:p:p], append([]byte(s), b[p+rng.Intn(len(b)-p):]...)...)
		case 3:
			p, q := rng.Intn(len(b)), rng.Intn(len(b))
			if p > q {
				p, q = q, p
			}
			b = append(append(b[:q:q], b[p:q]...), b[q:]...)
		}
		run(b)
	}
	if el := time.Since(start); el > 60*time.Second {
		t.Errorf("30000 hostile inputs took %v", el)
	}
}

func TestHostileShapes(t *testing.T) {
	// /Prev chain through many sections, self-referencing /Length, page tree bombs
	t.Run("length refers to itself", func(t *testing.T) {
		c := classic("")
		d := mustOpen(t, patch(t, c.data, "/Length 5 0 R", "/Length 4 0 R"))
		wantKind(t, d, KindStreamLength)
	})
	t.Run("reference loop", func(t *testing.T) {
		d := canonDoc(t, map[int]string{1: "<</A 2 0 R>>", 2: "3 0 R", 3: "2 0 R"}, 1)
		if !IsNull(d.Resolve(Ref{2, 0})) {
			t.Error("reference loop did not resolve to null")
		}
		d.Canonical(Ref{1, 0}, CanonOpts{})
		d.DeepHash(Ref{1, 0})
	})
	t.Run("page tree dag bomb", func(t *testing.T) {
		bodies := map[int]string{1: "<</Type/Catalog/Pages 2 0 R>>"}
		for i := 2; i < 60; i++ {
			bodies[i] = fmt.Sprintf("<</Type/Pages/Count 1/Kids[%d 0 R %d 0 R %d 0 R %d 0 R]>>", i+1, i+1, i+1, i+1)
		}
		bodies[60] = "<</Type/Page>>"
		d := canonDoc(t, bodies, 1)
		start := time.Now()
		_, err := d.Pages()
		if err == nil {
			t.Error("page bomb not bounded")
		}
		if time.Since(start) > 20*time.Second {
			t.Errorf("page bomb took %v", time.Since(start))
		}
	})
	t.Run("flate bomb", func(t *testing.T) {
		z := string(deflate(make([]byte, 50<<20)))
		d := canonDoc(t, map[int]string{1: "<</S 2 0 R>>", 2: fmt.Sprintf("STREAM:<</Length %d/Filter/FlateDecode>>|%s", len(z), z)}, 1)
		d.opts.MaxDecoded = 1 << 20
		if _, err := d.DecodeStream(d.Resolve(Ref{2, 0}).(*Stream)); err != ErrTooLarge {
			t.Errorf("err = %v", err)
		}
	})
}
