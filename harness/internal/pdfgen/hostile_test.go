package pdfgen

import (
	"bytes"
	"fmt"
	"io"
	"math/rand/v2"
	"os"
	"regexp"
	"sort"
	"strings"
	"testing"
	"time"

	"github.com/pdfcpu/pdfcpu/pkg/api"
	"github.com/pdfcpu/pdfcpu/pkg/pdfcpu/model"
)

func baseDoc(x XRefKind, objstm bool, updates int) (*Built, *Doc, Options) {
	spec := DocSpec{Seed: 42, Pages: 3, Info: true, Outlines: 3, Filters: FiltersFlate, Updates: updates, Unreferenced: true,
		Write: Options{XRef: x, ObjStm: objstm}}
	bt := Build(spec)
	return bt, bt.Doc, bt.Spec.Write
}

func mustContain(t *testing.T, b []byte, want string) {
	t.Helper()
	if !bytes.Contains(b, []byte(want)) {
		t.Errorf("output lacks %q", want)
	}
}

func TestOverridesProduceIntendedBytes(t *testing.T) {
	bt, doc, opts := baseDoc(XRefTable, false, 1)
	lay := bt.Layout
	last := len(lay.Revs) - 1
	write := func(ov *Overrides, o Options) *Output {
		o.Overrides = ov
		return MustWrite(doc, o)
	}

	// startxref / %%EOF / prefix / suffix / header / truncation
	out := write(&Overrides{StartXRef: map[int]int64{last: 123456789}}, opts)
	if !bytes.HasSuffix(out.Bytes, []byte("startxref\n123456789\n%%EOF\n")) {
		t.Errorf("startxref override: %q", out.Bytes[len(out.Bytes)-40:])
	}
	if bytes.Count(out.Bytes, []byte("startxref\n123456789\n")) != 1 {
		t.Error("startxref override leaked into another revision")
	}
	out = write(&Overrides{DropEOF: map[int]bool{-1: true}, DropStartXRef: map[int]bool{0: true}}, opts)
	if bytes.Contains(out.Bytes, []byte("%%EOF")) || bytes.Count(out.Bytes, []byte("startxref")) != last {
		t.Error("DropEOF/DropStartXRef not applied")
	}
	out = write(&Overrides{Prefix: []byte("JUNK"), Suffix: []byte("TAIL"), Header: []byte("%PDF-9.9\n")}, opts)
	if !bytes.HasPrefix(out.Bytes, []byte("JUNK%PDF-9.9\n")) || !bytes.HasSuffix(out.Bytes, []byte("TAIL")) || out.Layout.HeaderOffset != 4 {
		t.Error("prefix/suffix/header not applied")
	}
	if o, _ := out.Layout.Find(bt.Truth.Objs.Catalog); !bytes.HasPrefix(out.Bytes[o.Offset:], []byte(fmt.Sprintf("%d 0 obj", o.Num))) {
		t.Error("layout offsets must include the prefix")
	}
	if got := write(&Overrides{TruncateAt: Force(100)}, opts).Bytes; len(got) != 100 || !bytes.Equal(got, bt.Bytes[:100]) {
		t.Error("TruncateAt 100")
	}
	if got := write(&Overrides{TruncateAt: Force(-7)}, opts).Bytes; !bytes.Equal(got, bt.Bytes[:len(bt.Bytes)-7]) {
		t.Error("TruncateAt -7")
	}

	// classic xref entries, /Size, /Prev
	cat := bt.Truth.Objs.Catalog
	out = write(&Overrides{
		XRefEntries: map[XRefKey]XRefEntryOverride{
			{-1, cat}:                      {F2: Force(7), F3: Force(3)},
			{0, bt.Truth.Objs.PagesRoot}:   {Type: Force(0)},
			{0, bt.Truth.Objs.PageObjs[0]}: {Drop: true},
		},
		TrailerSize: map[int]int64{0: 99999},
		TrailerPrev: map[int]PrevOverride{last: {Mode: PrevSelf}},
	}, opts)
	mustContain(t, out.Bytes, "0000000007 00003 n \n")
	mustContain(t, out.Bytes, "/Size 99999")
	mustContain(t, out.Bytes, fmt.Sprintf("/Prev %d", out.Layout.Revs[last].XRefOffset))
	f := readStrict(out.Bytes) // follows /Prev: must notice the cycle
	if len(f.errs) == 0 || !strings.Contains(strings.Join(f.errs, ";"), "cycle") {
		t.Errorf("Prev self-cycle not in the bytes: %v", f.errs)
	}
	if e := f.entries[bt.Truth.Objs.PagesRoot]; e.typ != 0 {
		t.Errorf("type override: %+v", e)
	}
	if _, have := f.entries[bt.Truth.Objs.PageObjs[0]]; have {
		t.Error("dropped entry still there")
	}
	out = write(&Overrides{TrailerPrev: map[int]PrevOverride{last: {Mode: PrevDrop}}, TrailerSet: map[int]Dict{-1: D("Root", Int(5))}, TrailerDel: map[int][]Name{-1: {"ID"}}}, opts)
	trailers := bytes.Join(regexp.MustCompile(`(?s)trailer.*?startxref`).FindAll(out.Bytes, -1), nil)
	if bytes.Contains(trailers, []byte("/Prev")) || bytes.Contains(trailers, []byte("/ID")) || bytes.Count(trailers, []byte("/Root 5/")) != 2 {
		t.Errorf("PrevDrop / TrailerSet / TrailerDel: %s", trailers)
	}

	// stream /Length
	stream := bt.Truth.Pages[0].ContentObj[0]
	lo, _ := lay.Find(stream)
	for mode, want := range map[LengthMode]string{
		LengthValue:       "/Length 777>>",
		LengthSelfRef:     fmt.Sprintf("/Length %d 0 R>>", stream),
		LengthDanglingRef: "/Length 777 0 R>>",
	} {
		out = write(&Overrides{Length: map[int]LengthOverride{stream: {mode, 777}}}, opts)
		o, _ := out.Layout.Find(stream)
		head := out.Bytes[o.Offset:o.StreamStart]
		if !bytes.Contains(head, []byte(want)) || o.StreamLen != lo.StreamLen {
			t.Errorf("length mode %v: %q", mode, head)
		}
	}
	out = write(&Overrides{Length: map[int]LengthOverride{stream: {Mode: LengthMissing}}}, opts)
	o, _ := out.Layout.Find(stream)
	if bytes.Contains(out.Bytes[o.Offset:o.StreamStart], []byte("/Length")) {
		t.Error("LengthMissing")
	}
	out = write(&Overrides{Length: map[int]LengthOverride{stream: {LengthIndirectValue, 5}}}, opts)
	o, _ = out.Layout.Find(stream)
	m := regexp.MustCompile(`/Length (\d+) 0 R`).FindSubmatch(out.Bytes[o.Offset:o.StreamStart])
	if m == nil || !bytes.Contains(out.Bytes[o.End:], []byte(string(m[1])+" 0 obj\n5\nendobj\n")) {
		t.Error("LengthIndirectValue")
	}

	// dropped keywords, duplicates
	out = write(&Overrides{DropEndObj: map[int]bool{cat: true}, DropEndStream: map[int]bool{stream: true}}, opts)
	if bytes.Count(out.Bytes, []byte("endobj"))+1 != bytes.Count(bt.Bytes, []byte("endobj")) ||
		bytes.Count(out.Bytes, []byte("endstream"))+1 != bytes.Count(bt.Bytes, []byte("endstream")) {
		t.Error("DropEndObj/DropEndStream")
	}
	out = write(&Overrides{Duplicates: []Duplicate{{Num: cat, Obj: Int(42), XRefToDup: true}}}, opts)
	if n := bytes.Count(out.Bytes, []byte(fmt.Sprintf("\n%d 0 obj\n", cat))); n != 2 {
		t.Errorf("duplicate: %d copies", n)
	}
	off := out.Layout.Revs[0].Entries[cat].F2
	if !bytes.HasPrefix(out.Bytes[off:], []byte(fmt.Sprintf("%d 0 obj\n42\n", cat))) {
		t.Error("duplicate: xref does not point at the copy")
	}

	// xref streams and object streams
	bt2, doc2, opts2 := baseDoc(XRefStream, true, 0)
	write2 := func(ov *Overrides) *Output {
		o := opts2
		o.Overrides = ov
		return MustWrite(doc2, o)
	}
	out = write2(&Overrides{XRefStm: map[int]XRefStmOverride{0: {W: []int64{1, 9, 0, 4}, Index: []int64{-3, 1 << 40}, Size: Force(-1)}}})
	mustContain(t, out.Bytes, "/W [1 9 0 4]")
	mustContain(t, out.Bytes, "/Index [-3 1099511627776]")
	mustContain(t, out.Bytes, "/Size -1")
	out = write2(&Overrides{XRefStm: map[int]XRefStmOverride{0: {W: []int64{2, 5, 3}, EncodeWithW: true}},
		XRefEntries: map[XRefKey]XRefEntryOverride{{-1, bt2.Truth.Objs.Catalog}: {Type: Force(2), F2: Force(0xABCDEF), F3: Force(0x1234)}}})
	f = readStrict(out.Bytes)
	if e := f.entries[bt2.Truth.Objs.Catalog]; e.typ != 2 || e.f2 != 0xABCDEF || e.f3 != 0x1234 {
		t.Errorf("xref stream entry override with forced /W: %+v (errs %v)", e, f.errs)
	}
	out = write2(&Overrides{ObjStm: map[int]ObjStmOverride{0: {N: Force(1 << 40), First: Force(-9), Pairs: []int64{1, 2, 3}, Extends: Force(77)}}})
	osn := out.Layout.Revs[0].ObjStms[0]
	o, _ = out.Layout.Find(osn)
	head := out.Bytes[o.Offset:o.StreamStart]
	for _, w := range []string{"/N 1099511627776", "/First -9", "/Extends 77 0 R"} {
		mustContain(t, head, w)
	}
	dec, err := Decode(out.Bytes[o.StreamStart:o.StreamStart+o.StreamLen], []FilterSpec{{Kind: Flate}})
	if err != nil || !bytes.HasPrefix(dec, []byte("1 2 3\n")) {
		t.Errorf("ObjStm pairs: %q %v", dec[:min(20, len(dec))], err)
	}

	// hybrid: /XRefStm override
	_, doc3, opts3 := baseDoc(XRefHybrid, true, 0)
	opts3.Overrides = &Overrides{TrailerSet: map[int]Dict{0: D("XRefStm", Int(3))}}
	mustContain(t, MustWrite(doc3, opts3).Bytes, "/XRefStm 3")
}

func TestNastyObjects(t *testing.T) {
	if got := string(NestedArray(3, Int(7))); got != "[[[7]]]" {
		t.Error(got)
	}
	if got := string(NestedDict(2, "K", nil)); got != "<</K <</K null>>>>" {
		t.Error(got)
	}
	if got := string(NestedMixed(3, Int(1))); got != "[<</K [1]>>]" {
		t.Error(got)
	}
	if n := len(NestedArray(100000, nil)); n != 200000 {
		t.Error(n)
	}
	s := PredictorBomb(1<<40, 3, 16)
	if !strings.Contains(string(Serialize(s.Dict)), "/Columns 1099511627776") {
		t.Error("PredictorBomb")
	}
	im := HugeImage(1<<20, 1<<20, 16, "DeviceRGB")
	if len(im.Data) > 64 || !strings.Contains(string(Serialize(im.Dict)), "/Width 1048576") {
		t.Error("HugeImage")
	}
}

func TestGraphAttacksApplied(t *testing.T) {
	rng := rand.New(rand.NewPCG(11, 12))
	bt := Build(HostileSpec(rng))
	o := bt.Truth.Objs
	applied := 0
	for _, a := range GraphAttacks() {
		doc, desc, ok := ApplyGraphAttack(bt, a, rng, 500)
		if !ok {
			t.Errorf("%v: not applicable to the hostile spec document (%s)", a, desc)
			continue
		}
		applied++
		if _, err := Write(doc, bt.Spec.Write); err != nil {
			t.Errorf("%v: cannot be written: %v", a, err)
		}
		// the original must be untouched
		if !bytes.Equal(MustWrite(bt.Doc, bt.Spec.Write).Bytes, bt.Bytes) {
			t.Fatalf("%v modified the original document", a)
		}
		refersToSelf := func(nums []int, key Name) bool {
			for _, n := range nums {
				d, _ := doc.GetDict(n)
				v, _ := d.Get(key)
				if v == Object(Ref{n, 0}) {
					return true
				}
				if arr, isArr := v.(Array); isArr {
					for _, e := range arr {
						if e == Object(Ref{n, 0}) {
							return true
						}
					}
				}
			}
			return false
		}
		switch a {
		case KidsSelf:
			if !refersToSelf(o.PageNodes, "Kids") {
				t.Errorf("%v: no node lists itself (%s)", a, desc)
			}
		case ParentSelf:
			if !refersToSelf(o.PageObjs, "Parent") {
				t.Error(a)
			}
		case OutlineNextSelf:
			if !refersToSelf(o.OutlineItems, "Next") {
				t.Error(a)
			}
		case OutlineFirstSelf:
			if !refersToSelf(o.OutlineItems, "First") {
				t.Error(a)
			}
		case OutlineParentSelf:
			if !refersToSelf(o.OutlineItems, "Parent") {
				t.Error(a)
			}
		case OutlineRootFirstRoot:
			if !refersToSelf([]int{o.OutlineRoot}, "First") {
				t.Error(a)
			}
		case NameTreeKidsSelf:
			if !refersToSelf(append(append([]int{}, o.EFTreeNodes...), o.DestTreeNodes...), "Kids") {
				t.Error(a)
			}
		case FieldKidsCycle:
			if !refersToSelf(o.FieldObjs, "Kids") {
				t.Error(a)
			}
		case FieldParentCycle:
			if !refersToSelf(o.FieldObjs, "Parent") {
				t.Error(a)
			}
		case OutlineNextCycle:
			// walking /Next from some first sibling must come back
			found := false
			for _, n := range o.OutlineItems {
				cur, steps := n, 0
				for steps = 0; steps < 100; steps++ {
					d, _ := doc.GetDict(cur)
					nx, has := d.Get("Next")
					if !has {
						break
					}
					cur = nx.(Ref).Num
					if cur == n {
						found = true
						break
					}
				}
			}
			if !found {
				t.Errorf("%v: no /Next cycle (%s)", a, desc)
			}
		case DeepArrayInCatalog:
			d, _ := doc.GetDict(o.Catalog)
			v, _ := d.Get("VerifDeep")
			if !bytes.HasPrefix(v.(Raw), bytes.Repeat([]byte("["), 500)) {
				t.Error(a)
			}
		}
	}
	if applied != int(numGraphAttacks) {
		t.Errorf("only %d of %d attacks applied", applied, numGraphAttacks)
	}
}

// ---------------------------------------------------------------------------
// pdfcpu must survive hostile documents

type entryPoint struct {
	name string
	run  func(b []byte, conf *model.Configuration) error
}

var entryPoints = []entryPoint{
	{"ValidateStrict", func(b []byte, c *model.Configuration) error {
		c.ValidationMode = model.ValidationStrict
		return api.Validate(bytes.NewReader(b), c)
	}},
	{"ValidateRelaxed", func(b []byte, c *model.Configuration) error {
		c.ValidationMode = model.ValidationRelaxed
		return api.Validate(bytes.NewReader(b), c)
	}},
	{"Optimize", func(b []byte, c *model.Configuration) error { return api.Optimize(bytes.NewReader(b), io.Discard, c) }},
	{"Bookmarks", func(b []byte, c *model.Configuration) error {
		_, err := api.Bookmarks(bytes.NewReader(b), c)
		return err
	}},
	{"Attachments", func(b []byte, c *model.Configuration) error {
		_, err := api.Attachments(bytes.NewReader(b), c)
		return err
	}},
	{"Annotations", func(b []byte, c *model.Configuration) error {
		_, err := api.Annotations(bytes.NewReader(b), nil, c)
		return err
	}},
	{"ExportFormJSON", func(b []byte, c *model.Configuration) error {
		return api.ExportFormJSON(bytes.NewReader(b), io.Discard, "hostile.pdf", c)
	}},
	{"PDFInfo", func(b []byte, c *model.Configuration) error {
		_, err := api.PDFInfo(bytes.NewReader(b), "hostile.pdf", nil, true, c)
		return err
	}},
	{"Rotate", func(b []byte, c *model.Configuration) error {
		return api.Rotate(bytes.NewReader(b), io.Discard, 90, nil, c)
	}},
}

type hostileFinding struct {
	entry, kind, frame, desc, file string
}

func innermostPdfcpuFrame(stack string) string {
	lines := strings.Split(stack, "\n")
	for _, l := range lines {
		if strings.HasPrefix(l, "github.com/pdfcpu/pdfcpu/") && !strings.Contains(l, "fault.") {
			if i := strings.LastIndex(l, "("); i > 0 {
				l = l[:i]
			}
			return strings.TrimPrefix(l, "github.com/pdfcpu/pdfcpu/")
		}
	}
	return "?"
}

// runHostile feeds one document to every entry point. Panics are recovered,
// calls that do not return within the time limit are reported as hangs.
func runHostile(t *testing.T, name string, b []byte, desc string, findings *[]hostileFinding, stats map[string]int) {
	const limit = 20 * time.Second
	for _, ep := range entryPoints {
		done := make(chan error, 1)
		start := time.Now()
		go func() {
			err, _ := guarded(func() error {
				conf := model.NewDefaultConfiguration()
				conf.Offline = true
				return ep.run(b, conf)
			})
			done <- err
		}()
		select {
		case err := <-done:
			switch {
			case err == nil:
				stats[ep.name+":ok"]++
			case strings.HasPrefix(err.Error(), "PANIC:"):
				stats[ep.name+":panic"]++
				*findings = append(*findings, hostileFinding{ep.name, "panic", innermostPdfcpuFrame(err.Error()) + " :: " + strings.SplitN(err.Error(), "\n", 2)[0], desc, dumpFailure(t, name, b)})
			default:
				stats[ep.name+":error"]++
			}
			if d := time.Since(start); d > 5*time.Second {
				*findings = append(*findings, hostileFinding{ep.name, "slow", d.String(), desc, dumpFailure(t, name, b)})
			}
		case <-time.After(limit):
			stats[ep.name+":hang"]++
			*findings = append(*findings, hostileFinding{ep.name, "hang", "> " + limit.String(), desc, dumpFailure(t, name, b)})
		}
	}
}

// TestPdfcpuSurvivesHostileDocuments: every graph attack once per xref kind
// plus 240 random hostile documents through nine pdfcpu entry points. A panic
// or hang in pdfcpu is a finding for property C08; it is reported in the log
// (and fails the test only if PDFGEN_FAIL_ON_PDFCPU_FINDINGS=1) because the
// generator, which this package tests, did its job.
func TestPdfcpuSurvivesHostileDocuments(t *testing.T) {
	var findings []hostileFinding
	stats := map[string]int{}
	rng := rand.New(rand.NewPCG(777, 1))
	docs := 0
	for _, x := range []XRefKind{XRefTable, XRefStream, XRefHybrid} {
		spec := HostileSpec(rng)
		spec.Write = Options{XRef: x, ObjStm: x != XRefTable, Version: "1.7"}
		bt := Build(spec)
		for _, a := range GraphAttacks() {
			depth := 3000
			if a == BombContent {
				depth = 8 << 20
			}
			doc, desc, ok := ApplyGraphAttack(bt, a, rng, depth)
			if !ok {
				continue
			}
			out, err := Write(doc, bt.Spec.Write)
			if err != nil {
				t.Errorf("%v: %v", a, err)
				continue
			}
			docs++
			runHostile(t, fmt.Sprintf("hostile-%v-%v", x, a), out.Bytes, fmt.Sprintf("xref=%v %s", x, desc), &findings, stats)
		}
	}
	n := 240
	if testing.Short() {
		n = 40
	}
	for i := 0; i < n; i++ {
		h := RandomHostile(rng, 3000)
		docs++
		runHostile(t, fmt.Sprintf("hostile-rand-%03d", i), h.Bytes, h.Desc, &findings, stats)
	}
	keys := make([]string, 0, len(stats))
	for k := range stats {
		keys = append(keys, fmt.Sprintf("%s=%d", k, stats[k]))
	}
	sort.Strings(keys)
	t.Logf("%d hostile documents x %d entry points: %s", docs, len(entryPoints), strings.Join(keys, " "))
	seen := map[string]bool{}
	for _, f := range findings {
		key := f.entry + "/" + f.kind + "/" + f.frame
		if seen[key] {
			continue
		}
		seen[key] = true
		t.Logf("PDFCPU FINDING (C08): entry=%s %s %s\n    input: %s\n    file: %s", f.entry, f.kind, f.frame, f.desc, f.file)
	}
	if len(findings) > 0 && os.Getenv("PDFGEN_FAIL_ON_PDFCPU_FINDINGS") == "1" {
		t.Errorf("%d pdfcpu findings (%d distinct)", len(findings), len(seen))
	}
}

// TestPdfcpuPanicReproCompressedContainer is the minimal form of a pdfcpu
// panic the random hostile run found: a type-2 cross-reference entry whose
// "object stream number" names an object that is itself compressed (its table
// entry has no offset) makes pkg/pdfcpu.decodeObjectStream dereference a nil
// *int64 (read.go, `*entry.Offset`). Logged, not failed: see above.
func TestPdfcpuPanicReproCompressedContainer(t *testing.T) {
	bt := Build(DocSpec{Seed: 1, Pages: 1, Write: Options{XRef: XRefStream, ObjStm: true}})
	opts := bt.Spec.Write
	opts.Overrides = &Overrides{XRefEntries: map[XRefKey]XRefEntryOverride{
		{-1, bt.Truth.Objs.Catalog}: {F2: Force(int64(bt.Truth.Objs.PagesRoot))},
	}}
	out := MustWrite(bt.Doc, opts)
	for _, mode := range []int{model.ValidationStrict, model.ValidationRelaxed} {
		err, panicked := guarded(func() error {
			conf := model.NewDefaultConfiguration()
			conf.ValidationMode = mode
			return api.Validate(bytes.NewReader(out.Bytes), conf)
		})
		if panicked {
			t.Logf("PDFCPU FINDING (C08) reproduced, validation mode %d: %s :: %s", mode, innermostPdfcpuFrame(err.Error()), strings.SplitN(err.Error(), "\n", 2)[0])
		} else {
			t.Logf("validation mode %d: no panic (%v) - pdfcpu seems fixed", mode, err)
		}
	}
}
