package pdfgen_test

import (
	"bytes"
	"fmt"
	"math/rand/v2"

	"verif/harness/internal/pdfgen"
)

// The README example, compiled.
func Example() {
	rng := rand.New(rand.NewPCG(1, 2))
	spec := pdfgen.RandomSpec(rng, 12)
	spec.Secrets, spec.Outlines = true, 8
	bt := pdfgen.Build(spec)
	ok := true
	for i, p := range bt.Truth.Pages {
		ok = ok && bytes.Contains(p.Content(), []byte("("+p.Marker+") Tj")) && p.MediaBox[2] == float64(500+i)
	}
	alt, _ := bt.Rewrite(pdfgen.Options{XRef: pdfgen.XRefStream, ObjStm: true, EOL: "\r\n"})

	doc := pdfgen.NewDoc()
	pages := doc.Alloc()
	page := doc.Add(pdfgen.D("Type", pdfgen.Name("Page"), "Parent", pages, "MediaBox", pdfgen.Rect(0, 0, 200, 200)))
	doc.Put(pages, pdfgen.D("Type", pdfgen.Name("Pages"), "Kids", pdfgen.Array{page}, "Count", 1))
	doc.SetRoot(doc.Add(pdfgen.D("Type", pdfgen.Name("Catalog"), "Pages", pages)))
	doc.AppendUpdate([]pdfgen.IndObj{{Num: page.Num, Obj: pdfgen.D("Type", pdfgen.Name("Page"), "Parent", pages, "MediaBox", pdfgen.Rect(0, 0, 300, 300))}})
	out := pdfgen.MustWrite(doc, pdfgen.Options{XRef: pdfgen.XRefHybrid, ObjStm: true,
		Overrides: &pdfgen.Overrides{StartXRef: map[int]int64{-1: 0}}})
	h := pdfgen.RandomHostile(rng, 3000)
	fmt.Println(ok, len(alt.Truth.Pages) == len(bt.Truth.Pages), bytes.HasSuffix(out.Bytes, []byte("startxref\n0\n%%EOF\n")), len(out.Layout.Revs), len(h.Bytes) > 0)
	// Output: true true true 2 true
}
