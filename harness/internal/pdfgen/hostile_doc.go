package pdfgen

import (
	"fmt"
	"math/rand/v2"
	"sort"
)

// GraphAttack is a hostile edit of a built document's object graph.
type GraphAttack int

const (
	KidsSelf             GraphAttack = iota // a /Pages node lists itself in /Kids
	KidsAncestor                            // a /Pages node lists the page tree root in /Kids
	KidsDuplicatePage                       // the same page object twice in /Kids
	KidsNotDict                             // /Kids contains a reference to a non-dictionary
	ParentSelf                              // a page's /Parent is the page itself
	ParentCycle                             // the root /Pages node gets a /Parent pointing to a descendant
	PagesCountLie                           // /Count of the root is absurd
	OutlineNextSelf                         // item /Next = item
	OutlineNextCycle                        // last sibling /Next = first sibling
	OutlinePrevCycle                        // first sibling /Prev = last sibling
	OutlineFirstSelf                        // item /First = item
	OutlineFirstParent                      // item /First = its parent (or the outline root)
	OutlineParentSelf                       // item /Parent = item
	OutlineRootFirstRoot                    // outline root /First = outline root
	OutlineCountLie                         // /Count absurd
	NameTreeKidsSelf                        // name tree node lists itself in /Kids
	NameTreeKidsRoot                        // a name tree leaf gets /Kids [root]
	NameTreeLimitsLie                       // /Limits do not match
	FieldKidsCycle                          // AcroForm field /Kids contains the field itself
	FieldParentCycle                        // field /Parent = field
	FormXObjectSelf                         // form XObject's resources refer to the form itself and its content paints it
	ResourcesSelf                           // /Resources entry refers to the page object
	DeepArrayInCatalog                      // catalog key holding an array nested depth levels
	DeepDictInCatalog                       // same with dictionaries
	DeepArrayInContent                      // a content stream with a deeply nested array operand
	FilterGarbage                           // /Filter with unknown names / wrong types
	DecodeParmsGarbage                      // /DecodeParms of wrong type / absurd values
	ContentsGarbage                         // page /Contents refers to non-streams
	RootNotCatalog                          // trailer /Root refers to a page
	InfoSelf                                // trailer /Info refers to the catalog
	BombContent                             // a page content stream is a decompression bomb
	BombImage                               // image XObject with huge declared size
	BombPredictor                           // stream with huge predictor /Columns
	AnnotsCycle                             // /Annots array refers to itself / the page
	DestCycle                               // named destination referring to itself through /D
	numGraphAttacks
)

var graphAttackNames = [...]string{
	"KidsSelf", "KidsAncestor", "KidsDuplicatePage", "KidsNotDict", "ParentSelf", "ParentCycle", "PagesCountLie",
	"OutlineNextSelf", "OutlineNextCycle", "OutlinePrevCycle", "OutlineFirstSelf", "OutlineFirstParent",
	"OutlineParentSelf", "OutlineRootFirstRoot", "OutlineCountLie",
	"NameTreeKidsSelf", "NameTreeKidsRoot", "NameTreeLimitsLie", "FieldKidsCycle", "FieldParentCycle",
	"FormXObjectSelf", "ResourcesSelf", "DeepArrayInCatalog", "DeepDictInCatalog", "DeepArrayInContent",
	"FilterGarbage", "DecodeParmsGarbage", "ContentsGarbage", "RootNotCatalog", "InfoSelf",
	"BombContent", "BombImage", "BombPredictor", "AnnotsCycle", "DestCycle",
}

func (a GraphAttack) String() string {
	if a < 0 || int(a) >= len(graphAttackNames) {
		return fmt.Sprintf("GraphAttack(%d)", int(a))
	}
	return graphAttackNames[a]
}

// GraphAttacks lists all graph attacks.
func GraphAttacks() []GraphAttack {
	out := make([]GraphAttack, numGraphAttacks)
	for i := range out {
		out[i] = GraphAttack(i)
	}
	return out
}

// HostileSpec is a document specification with every structure the graph
// attacks need (outlines, name trees, form, XObjects, annotations).
func HostileSpec(rng *rand.Rand) DocSpec {
	s := RandomSpec(rng, 4)
	s.Pages = 2 + rng.IntN(4)
	s.MaxDepth = 2 + rng.IntN(3)
	s.Outlines = 4 + rng.IntN(6)
	s.OutlineDepth = 3
	s.RandomFiles = 6 + rng.IntN(6)
	s.NameTreeLeafMax = 2
	s.Dests = 5
	s.Form, s.Annotations, s.XObjects, s.Info = true, true, true, true
	s.Updates = rng.IntN(2)
	return s
}

// ApplyGraphAttack returns a copy of the document with the attack applied and
// a description; depth parametrises nesting attacks and bomb sizes (bytes).
// ok is false if the document lacks the structure the attack needs.
func ApplyGraphAttack(bt *Built, a GraphAttack, rng *rand.Rand, depth int) (doc *Doc, desc string, ok bool) {
	doc = bt.Doc.Clone()
	o := bt.Truth.Objs
	pick := func(ns []int) int { return ns[rng.IntN(len(ns))] }
	ref := func(n int) Ref { return Ref{n, 0} }
	desc = a.String()
	note := func(format string, args ...any) { desc += " " + fmt.Sprintf(format, args...) }
	appendKid := func(node int, kid Object) bool {
		d, isDict := doc.GetDict(node)
		if !isDict {
			return false
		}
		k, _ := d.Get("Kids")
		ka, _ := k.(Array)
		ka = append(append(Array{}, ka...), kid)
		if rng.IntN(2) == 0 && len(ka) > 1 { // sometimes in front
			ka[0], ka[len(ka)-1] = ka[len(ka)-1], ka[0]
		}
		return doc.SetKey(node, "Kids", ka)
	}
	if depth <= 0 {
		depth = 1000
	}
	switch a {
	case KidsSelf:
		n := pick(o.PageNodes)
		note("node=%d", n)
		return doc, desc, appendKid(n, ref(n))
	case KidsAncestor:
		n := pick(o.PageNodes)
		note("node=%d root=%d", n, o.PagesRoot)
		return doc, desc, appendKid(n, ref(o.PagesRoot))
	case KidsDuplicatePage:
		p := pick(o.PageObjs)
		d, _ := doc.GetDict(p)
		par, _ := d.Get("Parent")
		note("page=%d", p)
		return doc, desc, appendKid(par.(Ref).Num, ref(p))
	case KidsNotDict:
		n := pick(o.PageNodes)
		junk := doc.Add(Array{Int(1), Int(2)})
		note("node=%d junk=%d", n, junk.Num)
		return doc, desc, appendKid(n, junk)
	case ParentSelf:
		p := pick(o.PageObjs)
		note("page=%d", p)
		return doc, desc, doc.SetKey(p, "Parent", ref(p))
	case ParentCycle:
		n := pick(append(append([]int{}, o.PageNodes...), o.PageObjs...))
		note("root.Parent=%d", n)
		return doc, desc, doc.SetKey(o.PagesRoot, "Parent", ref(n))
	case PagesCountLie:
		v := []int64{-1, 0, 1 << 31, 1 << 62, 1000000}[rng.IntN(5)]
		note("count=%d", v)
		return doc, desc, doc.SetKey(o.PagesRoot, "Count", Int(v))
	}

	if a >= OutlineNextSelf && a <= OutlineCountLie {
		if len(o.OutlineItems) == 0 {
			return nil, desc, false
		}
		it := pick(o.OutlineItems)
		d, _ := doc.GetDict(it)
		switch a {
		case OutlineNextSelf:
			note("item=%d", it)
			return doc, desc, doc.SetKey(it, "Next", ref(it))
		case OutlineNextCycle, OutlinePrevCycle:
			// find first and last sibling of it
			par, _ := d.Get("Parent")
			pd, _ := doc.GetDict(par.(Ref).Num)
			first, _ := pd.Get("First")
			last, _ := pd.Get("Last")
			note("first=%v last=%v", first, last)
			if a == OutlineNextCycle {
				return doc, desc, doc.SetKey(last.(Ref).Num, "Next", first)
			}
			return doc, desc, doc.SetKey(first.(Ref).Num, "Prev", last)
		case OutlineFirstSelf:
			note("item=%d", it)
			doc.SetKey(it, "Last", ref(it))
			return doc, desc, doc.SetKey(it, "First", ref(it))
		case OutlineFirstParent:
			par, _ := d.Get("Parent")
			note("item=%d parent=%v", it, par)
			doc.SetKey(it, "Last", par)
			return doc, desc, doc.SetKey(it, "First", par)
		case OutlineParentSelf:
			note("item=%d", it)
			return doc, desc, doc.SetKey(it, "Parent", ref(it))
		case OutlineRootFirstRoot:
			return doc, desc, doc.SetKey(o.OutlineRoot, "First", ref(o.OutlineRoot))
		case OutlineCountLie:
			v := []int64{-1 << 31, 1 << 31, 1 << 62, -1}[rng.IntN(4)]
			n := pick(append([]int{o.OutlineRoot}, o.OutlineItems...))
			note("obj=%d count=%d", n, v)
			return doc, desc, doc.SetKey(n, "Count", Int(v))
		}
	}

	switch a {
	case NameTreeKidsSelf, NameTreeKidsRoot, NameTreeLimitsLie:
		nodes, root := o.EFTreeNodes, o.EFTreeRoot
		if len(nodes) == 0 || rng.IntN(2) == 0 && len(o.DestTreeNodes) > 0 {
			nodes, root = o.DestTreeNodes, o.DestTreeRoot
		}
		if len(nodes) == 0 {
			return nil, desc, false
		}
		n := pick(nodes)
		switch a {
		case NameTreeKidsSelf:
			note("node=%d", n)
			return doc, desc, appendKid(n, ref(n))
		case NameTreeKidsRoot:
			note("node=%d root=%d", n, root)
			return doc, desc, appendKid(n, ref(root))
		default:
			note("node=%d", n)
			return doc, desc, doc.SetKey(n, "Limits", Array{String("zzz"), String("aaa")})
		}
	case FieldKidsCycle, FieldParentCycle:
		if len(o.FieldObjs) == 0 {
			return nil, desc, false
		}
		f := pick(o.FieldObjs)
		note("field=%d", f)
		if a == FieldKidsCycle {
			return doc, desc, appendKid(f, ref(f))
		}
		return doc, desc, doc.SetKey(f, "Parent", ref(f))
	case FormXObjectSelf:
		if len(o.Forms) == 0 {
			return nil, desc, false
		}
		f := pick(o.Forms)
		s, isStream := doc.Get(f).(*Stream)
		if !isStream {
			return nil, desc, false
		}
		ns := *s
		ns.Dict = s.Dict.With("Resources", D("XObject", D("Self", ref(f))))
		ns.Data = []byte("q /Self Do Q\n")
		ns.Filters = nil
		note("form=%d", f)
		return doc, desc, doc.Replace(f, &ns)
	case ResourcesSelf:
		p := pick(o.PageObjs)
		note("page=%d", p)
		return doc, desc, doc.SetKey(p, "Resources", ref(p))
	case DeepArrayInCatalog:
		note("depth=%d", depth)
		return doc, desc, doc.SetKey(o.Catalog, "VerifDeep", NestedArray(depth, Int(1)))
	case DeepDictInCatalog:
		note("depth=%d", depth)
		return doc, desc, doc.SetKey(o.Catalog, "VerifDeep", NestedDict(depth, "K", Int(1)))
	case DeepArrayInContent:
		pt := bt.Truth.Pages[rng.IntN(len(bt.Truth.Pages))]
		data := append([]byte("q\n"), NestedArray(depth, Int(0))...)
		data = append(data, []byte(" TJ\nQ\n")...)
		note("depth=%d stream=%d", depth, pt.ContentObj[0])
		return doc, desc, doc.Replace(pt.ContentObj[0], &Stream{Dict: Dict{}, Data: data})
	case FilterGarbage, DecodeParmsGarbage:
		pt := bt.Truth.Pages[rng.IntN(len(bt.Truth.Pages))]
		n := pt.ContentObj[0]
		s := doc.Get(n).(*Stream)
		ns := *s
		ns.NoFilterEntries = true
		var v Object
		if a == FilterGarbage {
			v = []Object{Name("NoSuchDecode"), Int(7), Array{Name("FlateDecode"), Int(1), Null{}}, Array{Array{Name("FlateDecode")}},
				ref(n), D("Name", Name("FlateDecode")), Array{}, Name("Crypt"), Name("JBIG2Decode"), Name("DCTDecode")}[rng.IntN(10)]
			ns.Dict = s.Dict.With("Filter", v)
		} else {
			v = []Object{Int(3), Array{Int(1)}, D("Predictor", Int(99)), D("Predictor", Int(12), "Columns", Int(-5)),
				D("Predictor", Int(12), "Columns", Int(1<<40)), D("Predictor", Int(2), "BitsPerComponent", Int(3)),
				D("Predictor", Int(15), "Colors", Int(1<<31)), ref(n), D("EarlyChange", Int(7)), D("Predictor", Name("Up"))}[rng.IntN(10)]
			ns.Dict = s.Dict.With("Filter", Name("FlateDecode")).With("DecodeParms", v)
			ns.Filters = []FilterSpec{{Kind: Flate}}
		}
		note("stream=%d value=%s", n, Serialize(v))
		return doc, desc, doc.Replace(n, &ns)
	case ContentsGarbage:
		p := pick(o.PageObjs)
		v := []Object{ref(p), ref(o.Catalog), Array{ref(p), ref(p)}, Int(5), Array{Array{}}, ref(999999)}[rng.IntN(6)]
		note("page=%d contents=%s", p, Serialize(v))
		return doc, desc, doc.SetKey(p, "Contents", v)
	case RootNotCatalog:
		r := ref(pick(o.PageObjs))
		note("root=%d", r.Num)
		doc.Revs[len(doc.Revs)-1].Root = r
		return doc, desc, true
	case InfoSelf:
		doc.Revs[len(doc.Revs)-1].Info = ref(o.Catalog)
		return doc, desc, true
	case BombContent:
		pt := bt.Truth.Pages[rng.IntN(len(bt.Truth.Pages))]
		kind := BombKind(rng.IntN(int(numBombKinds)))
		note("kind=%v size=%d stream=%d", kind, depth, pt.ContentObj[0])
		return doc, desc, doc.Replace(pt.ContentObj[0], Bomb(kind, depth))
	case BombImage:
		if len(o.Images) == 0 {
			return nil, desc, false
		}
		n := pick(o.Images)
		w, h := int64(1)<<uint(10+rng.IntN(22)), int64(1)<<uint(10+rng.IntN(22))
		note("image=%d %dx%d", n, w, h)
		return doc, desc, doc.Replace(n, HugeImage(w, h, []int{1, 8, 16}[rng.IntN(3)], "DeviceRGB"))
	case BombPredictor:
		pt := bt.Truth.Pages[rng.IntN(len(bt.Truth.Pages))]
		cols := int64(1) << uint(20+rng.IntN(42))
		note("columns=%d stream=%d", cols, pt.ContentObj[0])
		return doc, desc, doc.Replace(pt.ContentObj[0], PredictorBomb(cols, 1+rng.IntN(4), []int{1, 8, 16}[rng.IntN(3)]))
	case AnnotsCycle:
		p := pick(o.PageObjs)
		arr := doc.Alloc()
		doc.Put(arr, Array{arr, ref(p)})
		note("page=%d annots=%d", p, arr.Num)
		return doc, desc, doc.SetKey(p, "Annots", arr)
	case DestCycle:
		if o.DestTreeRoot == 0 {
			return nil, desc, false
		}
		self := doc.Alloc()
		doc.Put(self, D("D", self))
		// hang it into the first leaf that has /Names
		nodes := append([]int{}, o.DestTreeNodes...)
		sort.Ints(nodes)
		for _, n := range nodes {
			d, _ := doc.GetDict(n)
			if v, has := d.Get("Names"); has {
				na := append(Array{}, v.(Array)...)
				if len(na) >= 2 {
					na[1] = self
					note("leaf=%d selfdest=%d", n, self.Num)
					return doc, desc, doc.SetKey(n, "Names", na)
				}
			}
		}
		return nil, desc, false
	}
	return nil, desc, false
}

// RandomOverrides draws 1-3 structural overrides for doc. lay must be the
// layout of doc written with opts and no overrides (it provides real offsets
// to be off by one from).
func RandomOverrides(rng *rand.Rand, doc *Doc, opts Options, lay *Layout) *Overrides {
	ov := &Overrides{}
	lastRev := len(lay.Revs) - 1
	rev := func() int { return []int{-1, lastRev, rng.IntN(lastRev + 1)}[rng.IntN(3)] }
	extreme := func(real int64) int64 {
		return []int64{0, -1, 1, real + 1, real - 1, real / 2, 1 << 31, 1<<31 - 1, 1 << 40, 1<<63 - 1, -1 << 63, real * 2, 99999999999}[rng.IntN(13)]
	}
	var topObjs, streams []ObjLayout
	for _, o := range lay.Objects {
		if o.InObjStm == 0 {
			topObjs = append(topObjs, o)
			if o.StreamStart >= 0 && o.Aux != "xref" {
				streams = append(streams, o)
			}
		}
	}
	n := 1 + rng.IntN(3)
	for i := 0; i < n; i++ {
		switch rng.IntN(16) {
		case 0:
			r := rev()
			real := lay.Revs[max(r, 0)].XRefOffset
			ov.StartXRef = map[int]int64{r: extreme(real)}
		case 1:
			if ov.XRefEntries == nil {
				ov.XRefEntries = map[XRefKey]XRefEntryOverride{}
			}
			for j := 0; j < 1+rng.IntN(3); j++ {
				o := lay.Objects[rng.IntN(len(lay.Objects))]
				var e XRefEntryOverride
				switch rng.IntN(6) {
				case 0:
					e.F2 = Force(extreme(o.Offset))
				case 1:
					e.F3 = Force([]int64{1, 65535, 65536, -1, 1 << 31}[rng.IntN(5)])
				case 2:
					e.Type = Force([]int64{0, 1, 2, 3, 255}[rng.IntN(5)])
				case 3:
					e.Drop = true
				case 4: // compressed entry pointing at arbitrary object / absurd index
					e.Type, e.F2, e.F3 = Force(2), Force(int64(lay.Objects[rng.IntN(len(lay.Objects))].Num)), Force(extreme(0))
				case 5: // points at another object's offset
					e.F2 = Force(topObjs[rng.IntN(len(topObjs))].Offset)
				}
				ov.XRefEntries[XRefKey{-1, o.Num}] = e
			}
		case 2:
			ov.TrailerSize = map[int]int64{rev(): extreme(lay.Revs[lastRev].Size)}
		case 3:
			p := PrevOverride{Mode: PrevMode(1 + rng.IntN(3))}
			if p.Mode == PrevValue {
				p.V = extreme(lay.Revs[0].XRefOffset)
				if rng.IntN(3) == 0 { // points forward to the last section: cycle over two sections
					p.V = lay.Revs[lastRev].XRefOffset
				}
			}
			ov.TrailerPrev = map[int]PrevOverride{rev(): p}
		case 4:
			if len(streams) == 0 {
				continue
			}
			if ov.Length == nil {
				ov.Length = map[int]LengthOverride{}
			}
			s := streams[rng.IntN(len(streams))]
			l := LengthOverride{Mode: LengthMode(1 + rng.IntN(5))}
			switch l.Mode {
			case LengthValue, LengthIndirectValue:
				l.V = extreme(s.StreamLen)
			case LengthDanglingRef:
				l.V = int64([]int{0, 999999, doc.Root().Num, s.Num + 1}[rng.IntN(4)])
			}
			ov.Length[s.Num] = l
		case 5:
			o := ObjStmOverride{}
			switch rng.IntN(5) {
			case 0:
				o.N = Force(extreme(5))
			case 1:
				o.First = Force(extreme(20))
			case 2:
				for k := 0; k < rng.IntN(8); k++ {
					o.Pairs = append(o.Pairs, extreme(int64(k)))
				}
				if o.Pairs == nil {
					o.Pairs = []int64{}
				}
			case 3:
				o.N, o.First = Force(extreme(5)), Force(extreme(20))
			case 4:
				o.Extends = Force(int64(doc.MaxNum() + 1 + rng.IntN(3))) // likely an object stream (itself or a sibling)
			}
			ov.ObjStm = map[int]ObjStmOverride{[]int{-1, 0, 1}[rng.IntN(3)]: o}
		case 6:
			x := XRefStmOverride{EncodeWithW: rng.IntN(2) == 0}
			switch rng.IntN(4) {
			case 0:
				x.W = [][]int64{{0, 0, 0}, {1, 0, 0}, {9, 9, 9}, {1, 2}, {-1, 2, 1}, {1, 1 << 31, 1}, {1, 2, 1, 1}, {}, {0, 4, 2}, {8, 8, 8}}[rng.IntN(10)]
			case 1:
				x.Index = [][]int64{{0}, {-1, 5}, {0, 1 << 31}, {0, -1}, {1 << 40, 2}, {0, 1, 0, 1}, {5, 0}, {}, {0, 1 << 62}}[rng.IntN(9)]
			case 2:
				x.Size = Force(extreme(lay.Revs[lastRev].Size))
			case 3:
				x.W = []int64{1, 3, 2}
				x.Index = []int64{0, extreme(lay.Revs[lastRev].Size)}
			}
			ov.XRefStm = map[int]XRefStmOverride{rev(): x}
		case 7:
			o := topObjs[rng.IntN(len(topObjs))]
			if rng.IntN(2) == 0 {
				ov.DropEndObj = map[int]bool{o.Num: true}
			} else if len(streams) > 0 {
				ov.DropEndStream = map[int]bool{streams[rng.IntN(len(streams))].Num: true}
			}
		case 8:
			switch rng.IntN(3) {
			case 0:
				ov.DropEOF = map[int]bool{rev(): true}
			case 1:
				ov.DropStartXRef = map[int]bool{rev(): true}
			case 2:
				ov.DropEOF = map[int]bool{-1: true}
				ov.DropStartXRef = map[int]bool{-1: true}
			}
		case 9:
			total := lay.Revs[lastRev].End
			ov.TruncateAt = Force([]int64{0, 1, 5, 9, total / 2, total - 1, total - 6, total - 20, lay.Revs[lastRev].XRefOffset, lay.Revs[lastRev].XRefOffset + 4, int64(rng.IntN(int(total)))}[rng.IntN(11)])
		case 10:
			switch rng.IntN(4) {
			case 0:
				ov.Prefix = []byte("GARBAGE\n")
			case 1:
				ov.Prefix = make([]byte, 1500) // beyond the 1024-byte header window
			case 2:
				ov.Prefix = []byte("%PDF-1.4\n%%EOF\n") // a decoy header
			case 3:
				ov.Suffix = []byte("\nstartxref\n0\n%%EOF\ntrailing garbage")
			}
		case 11:
			ov.Header = [][]byte{[]byte("%PDF-9.9\n"), []byte("%PDF-\n"), {}, []byte("%PDF-1.7"), []byte("%!PS-Adobe\n"), []byte("%PDF-1.\n"), []byte("%PDF-1.7\r\r\n")}[rng.IntN(7)]
		case 12:
			o := topObjs[rng.IntN(len(topObjs))]
			d := Duplicate{Num: o.Num, Before: rng.IntN(2) == 0, XRefToDup: rng.IntN(2) == 0}
			if rng.IntN(2) == 0 {
				d.Obj = []Object{Null{}, Int(42), D("Type", Name("Catalog")), Array{}}[rng.IntN(4)]
			}
			ov.Duplicates = append(ov.Duplicates, d)
		case 13:
			v := []Object{Null{}, Int(3), Ref{999999, 0}, Ref{doc.Root().Num, 7}, Ref{0, 65535}, Array{doc.Root()}, D("Type", Name("Catalog"))}[rng.IntN(7)]
			k := []Name{"Root", "Info", "ID", "Size", "Prev", "XRefStm"}[rng.IntN(6)]
			ov.TrailerSet = map[int]Dict{rev(): {{k, v}}}
		case 14:
			enc := []Object{
				D("Filter", Name("Standard"), "V", Int(99), "R", Int(99)),
				D("Filter", Name("Standard"), "V", Int(1), "R", Int(2), "O", String("short"), "U", String(""), "P", Int(-1)),
				D("Filter", Name("Standard"), "V", Int(4), "R", Int(4), "Length", Int(-128), "CF", D("StdCF", D("CFM", Name("Bogus"))), "StmF", Name("Missing"), "StrF", Int(3), "O", String(make([]byte, 32)), "U", String(make([]byte, 32)), "P", Int(1<<40)),
				D("Filter", Name("Standard"), "V", Int(5), "R", Int(6), "O", String(make([]byte, 48)), "U", String(make([]byte, 48)), "OE", String("x"), "UE", Int(1), "Perms", Null{}, "P", Real(1.5)),
				doc.Root(), Ref{999999, 0}, Int(0), Array{}, D("Filter", Name("Acme.Handler")), D(),
			}[rng.IntN(10)]
			ov.TrailerSet = map[int]Dict{-1: {{"Encrypt", enc}}}
		case 15:
			ov.TrailerDel = map[int][]Name{rev(): {[]Name{"Root", "Size", "ID", "Info"}[rng.IntN(4)]}}
		}
	}
	return ov
}

// Hostile is one hostile document with what was done to it.
type Hostile struct {
	Bytes     []byte
	Desc      string // human-readable: attacks and overrides
	Attacks   []GraphAttack
	Overrides *Overrides
	Spec      DocSpec
}

// RandomHostile builds a valid random document and breaks it: a graph attack,
// structural overrides, or both. Deterministic in rng. maxDepth bounds nesting
// depth and bomb sizes (0: 2000).
func RandomHostile(rng *rand.Rand, maxDepth int) *Hostile {
	if maxDepth <= 0 {
		maxDepth = 2000
	}
	spec := HostileSpec(rng)
	bt := Build(spec)
	h := &Hostile{Spec: bt.Spec}
	doc := bt.Doc
	mode := rng.IntN(3) // 0 graph, 1 overrides, 2 both
	if mode != 1 {
		for try := 0; try < 10; try++ {
			a := GraphAttack(rng.IntN(int(numGraphAttacks)))
			d, desc, ok := ApplyGraphAttack(bt, a, rng, 1+rng.IntN(maxDepth))
			if ok {
				doc = d
				h.Attacks = append(h.Attacks, a)
				h.Desc = desc
				break
			}
		}
	}
	opts := bt.Spec.Write
	if mode != 0 {
		base, err := Write(doc, opts)
		if err == nil {
			h.Overrides = RandomOverrides(rng, doc, opts, base.Layout)
			opts.Overrides = h.Overrides
			if h.Desc != "" {
				h.Desc += "; "
			}
			h.Desc += "overrides " + h.Overrides.Describe()
		}
	}
	out, err := Write(doc, opts)
	if err != nil {
		// an attack made the document unwritable (should not happen): fall back
		out = &Output{Bytes: bt.Bytes}
		h.Desc += " (unwritable: " + err.Error() + ")"
	}
	h.Bytes = out.Bytes
	h.Desc = fmt.Sprintf("xref=%v objstm=%v eol=%q: %s", opts.XRef, opts.ObjStm, opts.EOL, h.Desc)
	return h
}
