package pdfgen

import (
	"fmt"
	"math/rand/v2"
	"sort"
)

// Object numbering extremes.
//
// Build/BuildDoc number objects densely from 1 with generation 0, so the object numbers of a
// generated file are always much smaller than its byte offsets. Renumber moves the objects of a
// finished Doc to arbitrary numbers and generations (every reference, Root/Info, the free specs and
// all revisions follow); SparseNumbering draws such a plan for one of the NumberingKinds below.
// The document content (the graph up to renumbering) does not change.
//
//	doc, truth := pdfgen.BuildDoc(spec)
//	plan := pdfgen.SparseNumbering(rng, doc, pdfgen.NumHigh24)
//	m, _ := doc.Renumber(plan)            // m: old number -> new Ref; truth.RemapNums(m) keeps Truth usable
//	opts := plan.FitOptions(spec.Write)   // forces HolesAsGaps when the holes cannot be listed
//	out := pdfgen.MustWrite(doc, opts)

// NumberingKind names one class of numbering extreme.
type NumberingKind int

const (
	// NumDense leaves the numbering as built (1..n, generation 0).
	NumDense NumberingKind = iota
	// NumSpread multiplies the distance between neighbours (stride 2..400): /Size is a multiple of the
	// object count, the holes are free entries or gaps.
	NumSpread
	// NumHigh16 moves a random tail of the objects above 65536 (two-byte field boundary).
	NumHigh16
	// NumHigh24 moves a random tail of the objects above 2^24 (three-byte field boundary).
	NumHigh24
	// NumGens gives a random subset of the objects generation numbers 1..65534 (numbers unchanged).
	NumGens
	// NumFreeHigh keeps the objects dense and adds free entries at high numbers below 2^18 (with
	// generation > 0): the free list links to numbers far above every object in use and /Size is much
	// larger than the object count.
	NumFreeHigh
	// NumFreeHigh24 is NumFreeHigh with a free entry above 2^24.
	NumFreeHigh24
	// NumMixed combines a high tail (below 2^18), generations and high free entries.
	NumMixed
	numKinds
)

var numberingNames = [...]string{"dense", "spread", "high16", "high24", "gens", "freehigh", "freehigh24", "mixed"}

// Huge reports the kinds that use numbers >= 2^24. Programs that loop over 0../Size (pdfcpu does, many
// times per operation) need seconds to minutes for such a document.
func (k NumberingKind) Huge() bool { return k == NumHigh24 || k == NumFreeHigh24 }

func (k NumberingKind) String() string {
	if k < 0 || int(k) >= len(numberingNames) {
		return "?"
	}
	return numberingNames[k]
}

// NumberingKinds lists all kinds but NumDense.
func NumberingKinds() []NumberingKind {
	var out []NumberingKind
	for k := NumSpread; k < numKinds; k++ {
		out = append(out, k)
	}
	return out
}

// ModerateNumberingKinds lists the kinds for which Huge is false.
func ModerateNumberingKinds() []NumberingKind {
	var out []NumberingKind
	for _, k := range NumberingKinds() {
		if !k.Huge() {
			out = append(out, k)
		}
	}
	return out
}

// Numbering is a renumbering plan.
type Numbering struct {
	Kind NumberingKind
	// Map: old object number -> new number and generation DELTA (added to the generation the
	// object, a reference to it, or its free spec carries). Numbers not listed keep their identity.
	Map map[int]Ref
	// ExtraFree: further free entries (never defined numbers) added to the last revision.
	ExtraFree []FreeSpec
	// MaxNum is the highest number in use or free after the plan is applied.
	MaxNum int
}

// maxListedHoles bounds the number of unused numbers a writer is asked to list as free entries.
const maxListedHoles = 3000

// FitOptions adapts writer options to the plan: above maxListedHoles unused numbers HolesAsGaps is forced
// (the free list of a file with object 2^24 would otherwise have 16 million members).
func (n *Numbering) FitOptions(o Options) Options {
	if n != nil && n.MaxNum-len(n.Map) > maxListedHoles {
		o.HolesAsGaps = true
	}
	return o
}

// SparseNumbering draws a plan of the given kind for doc (which is not modified).
func SparseNumbering(rng *rand.Rand, doc *Doc, kind NumberingKind) *Numbering {
	nums := doc.allNums()
	p := &Numbering{Kind: kind, Map: map[int]Ref{}}
	for _, n := range nums {
		p.Map[n] = Ref{Num: n}
	}
	// tail moves the objects from a random position on behind base, keeping their order
	tail := func(base int) {
		if len(nums) == 0 {
			return
		}
		from := rng.IntN(len(nums))
		if rng.IntN(3) == 0 {
			from = len(nums) - 1 - rng.IntN(min(3, len(nums))) // only the last few
		}
		next := max(base, nums[len(nums)-1]+1) + rng.IntN(4)*rng.IntN(300)
		for _, n := range nums[from:] {
			p.Map[n] = Ref{Num: next, Gen: p.Map[n].Gen}
			next += 1 + rng.IntN(3)*rng.IntN(40)
		}
	}
	gens := func(pct int) {
		for _, n := range nums {
			if rng.IntN(100) < pct {
				g := 1 + rng.IntN(5)
				switch rng.IntN(6) {
				case 0:
					g = 255 + rng.IntN(3)
				case 1:
					g = 65534 - rng.IntN(3)
				}
				r := p.Map[n]
				r.Gen = g
				p.Map[n] = r
			}
		}
	}
	freeHigh := func(huge bool) {
		top := 0
		for _, r := range p.Map {
			top = max(top, r.Num)
		}
		bases := []int{top + 1 + rng.IntN(50), 40000 + rng.IntN(20000), 65536 + rng.IntN(70000)}
		k := 1 + rng.IntN(len(bases))
		if huge {
			bases = append(bases, 1<<24+[]int{0, 1, 255, 70000}[rng.IntN(4)])
		}
		used := map[int]bool{}
		for i := 0; i < k; i++ {
			b := bases[rng.IntN(len(bases))]
			if huge && i == 0 {
				b = bases[len(bases)-1]
			}
			if b <= top {
				b += top
			}
			for j, m := 0, 1+rng.IntN(3); j < m; j++ {
				n := b + j*(1+rng.IntN(9))
				if used[n] {
					continue
				}
				used[n] = true
				g := 1 + rng.IntN(4)
				if rng.IntN(4) == 0 {
					g = 65535 // never to be reused
				}
				p.ExtraFree = append(p.ExtraFree, FreeSpec{Num: n, Gen: g})
			}
		}
	}
	switch kind {
	case NumSpread:
		stride := 2 + rng.IntN(30)
		if rng.IntN(4) == 0 {
			stride = 100 + rng.IntN(300)
		}
		next := 1 + rng.IntN(stride)
		for _, n := range nums {
			p.Map[n] = Ref{Num: next}
			next += 1 + rng.IntN(stride)
		}
	case NumHigh16:
		tail(65536 + []int{0, 0, 190, 1 << 16}[rng.IntN(4)])
	case NumHigh24:
		tail(1<<24 + []int{0, 0, 1 << 10}[rng.IntN(3)])
	case NumGens:
		gens(40)
	case NumFreeHigh:
		freeHigh(false)
	case NumFreeHigh24:
		freeHigh(true)
	case NumMixed:
		tail([]int{300, 65536, 65536, 70000}[rng.IntN(4)])
		gens(15)
		if rng.IntN(2) == 0 {
			freeHigh(false)
		}
	}
	for _, r := range p.Map {
		p.MaxNum = max(p.MaxNum, r.Num)
	}
	for _, f := range p.ExtraFree {
		p.MaxNum = max(p.MaxNum, f.Num)
	}
	return p
}

// allNums returns every object number any revision defines or frees, ascending.
func (d *Doc) allNums() []int {
	seen := map[int]bool{}
	for _, r := range d.Revs {
		for _, o := range r.Objects {
			seen[o.Num] = true
		}
		for _, f := range r.Free {
			seen[f.Num] = true
		}
	}
	out := make([]int, 0, len(seen))
	for n := range seen {
		out = append(out, n)
	}
	sort.Ints(out)
	return out
}

// Renumber applies plan to d in place: objects, every reference inside them (arrays, dictionaries,
// stream dictionaries), the revisions' Root/Info/Extra and free specs. It returns old number -> new Ref
// (the generation is the one the latest definition now carries). Two old numbers may not map to the
// same new number. References to numbers the document never defines are left alone.
func (d *Doc) Renumber(plan *Numbering) (map[int]Ref, error) {
	if plan == nil {
		return map[int]Ref{}, nil
	}
	target := map[int]int{}
	for old, r := range plan.Map {
		if r.Num <= 0 {
			return nil, fmt.Errorf("pdfgen: renumber %d -> %d", old, r.Num)
		}
		if prev, dup := target[r.Num]; dup {
			return nil, fmt.Errorf("pdfgen: renumber: %d and %d both map to %d", prev, old, r.Num)
		}
		target[r.Num] = old
	}
	for _, n := range d.allNums() {
		if _, ok := plan.Map[n]; !ok {
			if old, clash := target[n]; clash {
				return nil, fmt.Errorf("pdfgen: renumber: %d maps to %d which stays in use", old, n)
			}
		}
	}
	mapRef := func(r Ref) Ref {
		if m, ok := plan.Map[r.Num]; ok {
			return Ref{Num: m.Num, Gen: r.Gen + m.Gen}
		}
		return r
	}
	var walk func(o Object) Object
	walk = func(o Object) Object {
		switch x := o.(type) {
		case Ref:
			return mapRef(x)
		case Array:
			for i := range x {
				x[i] = walk(x[i])
			}
			return x
		case Dict:
			for i := range x {
				x[i].Val = walk(x[i].Val)
			}
			return x
		case *Stream:
			x.Dict = walk(x.Dict).(Dict)
			return x
		}
		return o
	}
	out := map[int]Ref{}
	for ri := range d.Revs {
		rev := &d.Revs[ri]
		for i := range rev.Objects {
			o := &rev.Objects[i]
			old := o.Num
			r := mapRef(Ref{o.Num, o.Gen})
			o.Num, o.Gen = r.Num, r.Gen
			o.Obj = walk(CloneObject(o.Obj))
			out[old] = r
		}
		for i := range rev.Free {
			r := mapRef(Ref{rev.Free[i].Num, rev.Free[i].Gen})
			rev.Free[i] = FreeSpec{Num: r.Num, Gen: min(r.Gen, 65535)}
		}
		if rev.Root.Num != 0 {
			rev.Root = mapRef(rev.Root)
		}
		if rev.Info.Num != 0 {
			rev.Info = mapRef(rev.Info)
		}
		if rev.Extra != nil {
			rev.Extra = walk(rev.Extra.Clone()).(Dict)
		}
	}
	last := d.cur()
	last.Free = append(last.Free, plan.ExtraFree...)
	d.next = 1
	for _, n := range d.allNums() {
		if n >= d.next {
			d.next = n + 1
		}
	}
	return out, nil
}

// RemapNums rewrites the object numbers the truth records (pages, structural objects, secrets,
// duplicates, ...) through m (the result of Doc.Renumber).
func (t *Truth) RemapNums(m map[int]Ref) {
	f := func(n int) int {
		if r, ok := m[n]; ok && n > 0 {
			return r.Num
		}
		return n
	}
	fs := func(s []int) {
		for i := range s {
			s[i] = f(s[i])
		}
	}
	for i := range t.Pages {
		p := &t.Pages[i]
		p.ObjNum = f(p.ObjNum)
		p.MediaBoxFrom, p.CropBoxFrom, p.RotateFrom, p.ResourcesFrom = f(p.MediaBoxFrom), f(p.CropBoxFrom), f(p.RotateFrom), f(p.ResourcesFrom)
	}
	for i := range t.Secrets {
		t.Secrets[i].ObjNum = f(t.Secrets[i].ObjNum)
	}
	o := &t.Objs
	o.Catalog, o.Info, o.PagesRoot, o.OutlineRoot, o.Names = f(o.Catalog), f(o.Info), f(o.PagesRoot), f(o.OutlineRoot), f(o.Names)
	o.EFTreeRoot, o.DestTreeRoot, o.AcroForm, o.Metadata = f(o.EFTreeRoot), f(o.DestTreeRoot), f(o.AcroForm), f(o.Metadata)
	for _, s := range [][]int{o.PageNodes, o.PageObjs, o.OutlineItems, o.EFTreeNodes, o.DestTreeNodes, o.FieldObjs, o.Fonts, o.Images, o.Forms, o.ResourceDicts, t.Unreferenced} {
		fs(s)
	}
	for _, g := range t.Duplicates {
		fs(g)
	}
	for i := range t.NearDuplicates {
		t.NearDuplicates[i] = [2]int{f(t.NearDuplicates[i][0]), f(t.NearDuplicates[i][1])}
	}
}

// BuildSparse builds the document of spec with the numbering extreme kind applied (plan drawn from
// rng). Truth object numbers of pages and structural objects are remapped; the per-feature truths that
// hold further object numbers (PageTruth.ContentObj, EmbeddedFiles, Fields, Signatures, Annots) are not.
func BuildSparse(spec DocSpec, rng *rand.Rand, kind NumberingKind) (*Built, *Numbering, error) {
	doc, truth := BuildDoc(spec)
	plan := SparseNumbering(rng, doc, kind)
	m, err := doc.Renumber(plan)
	if err != nil {
		return nil, nil, err
	}
	truth.RemapNums(m)
	spec.Write = plan.FitOptions(spec.Write)
	spec.Write.Version = FitVersion(spec.Write, truth.MinVersion)
	out, err := Write(doc, spec.Write)
	if err != nil {
		return nil, nil, err
	}
	return &Built{Bytes: out.Bytes, Truth: truth, Doc: doc, Layout: out.Layout, Spec: spec}, plan, nil
}
