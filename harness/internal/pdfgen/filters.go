package pdfgen

import (
	"bytes"
	"compress/zlib"
	"errors"
	"fmt"
	"io"
	"math/rand/v2"
)

// FilterKind selects a stream filter.
type FilterKind int

// Supported filters.
const (
	Flate FilterKind = iota + 1
	LZW
	RunLength
	ASCII85
	ASCIIHex
)

// PDFName returns the /Filter name.
func (k FilterKind) PDFName() Name {
	switch k {
	case Flate:
		return "FlateDecode"
	case LZW:
		return "LZWDecode"
	case RunLength:
		return "RunLengthDecode"
	case ASCII85:
		return "ASCII85Decode"
	case ASCIIHex:
		return "ASCIIHexDecode"
	}
	return "UnknownDecode"
}

func (k FilterKind) String() string { return string(k.PDFName()) }

// FilterSpec describes one stage of a filter pipeline and how to encode it.
type FilterSpec struct {
	Kind FilterKind

	// Flate and LZW: predictor parameters. Predictor 0 or 1 = none, 2 = TIFF,
	// 10..15 = PNG. Zero Colors/BPC/Columns mean the PDF defaults 1/8/1.
	Predictor int
	Colors    int
	BPC       int
	Columns   int

	// PNG predictors: the tag byte of each row. RowSeed != 0: drawn at random
	// per row (seeded by RowSeed and the data length). RowSeed == 0: fixed tag
	// Predictor-10 for 10..14, and for 15 the tags cycle None,Sub,Up,Avg,Paeth.
	RowSeed uint64

	// LZW: LateChange writes /EarlyChange 0 and encodes accordingly.
	LateChange bool

	// ExplicitParms writes default-valued parameters explicitly
	// (/Predictor 1, /Colors 1, /BitsPerComponent 8, /EarlyChange 1).
	ExplicitParms bool

	// Flate: 0 = default compression, 1..9 = zlib levels, -1 = stored blocks,
	// -2 = Huffman only.
	Level int

	// ASCII85 / ASCIIHex: insert an end-of-line after every LineLen output
	// characters (0 = one line). ASCIIHex: Lower writes lowercase digits.
	LineLen int
	Lower   bool

	// NoEOD omits the end-of-data marker (~>, >, 128, LZW code 257). Hostile.
	NoEOD bool
}

func (f FilterSpec) hasPredictor() bool { return f.Predictor > 1 }

func (f FilterSpec) colors() int {
	if f.Colors <= 0 {
		return 1
	}
	return f.Colors
}
func (f FilterSpec) bpc() int {
	if f.BPC <= 0 {
		return 8
	}
	return f.BPC
}
func (f FilterSpec) columns() int {
	if f.Columns <= 0 {
		return 1
	}
	return f.Columns
}

// RowBytes is the number of data bytes in one predictor row.
func (f FilterSpec) RowBytes() int { return (f.colors()*f.bpc()*f.columns() + 7) / 8 }

// Parms returns the /DecodeParms dictionary for this stage, or nil if none is
// needed.
func (f FilterSpec) Parms() Dict {
	var d Dict
	switch f.Kind {
	case Flate, LZW:
		if f.hasPredictor() || f.ExplicitParms {
			p := f.Predictor
			if p < 1 {
				p = 1
			}
			d.Set("Predictor", Int(p))
			if f.Colors > 0 || f.ExplicitParms {
				d.Set("Colors", Int(f.colors()))
			}
			if f.BPC > 0 || f.ExplicitParms {
				d.Set("BitsPerComponent", Int(f.bpc()))
			}
			if f.Columns > 0 || f.ExplicitParms {
				d.Set("Columns", Int(f.columns()))
			}
		}
		if f.Kind == LZW {
			if f.LateChange {
				d.Set("EarlyChange", Int(0))
			} else if f.ExplicitParms {
				d.Set("EarlyChange", Int(1))
			}
		}
	}
	return d
}

// FilterEntries returns the values for /Filter and /DecodeParms (nil when the
// respective key is to be omitted) for a pipeline. asArray forces array form
// for a single filter.
func FilterEntries(fs []FilterSpec, asArray bool) (filter, parms Object) {
	if len(fs) == 0 {
		return nil, nil
	}
	if len(fs) == 1 && !asArray {
		if p := fs[0].Parms(); p != nil {
			parms = p
		}
		return fs[0].Kind.PDFName(), parms
	}
	var fa, pa Array
	any := false
	for _, f := range fs {
		fa = append(fa, f.Kind.PDFName())
		if p := f.Parms(); p != nil {
			pa = append(pa, p)
			any = true
		} else {
			pa = append(pa, Null{})
		}
	}
	if any {
		parms = pa
	}
	return fa, parms
}

// Encode pushes data through the pipeline. fs is in /Filter order (decoding
// order), hence the LAST stage is applied first.
func Encode(data []byte, fs []FilterSpec) ([]byte, error) {
	var err error
	for i := len(fs) - 1; i >= 0; i-- {
		data, err = EncodeStage(data, fs[i])
		if err != nil {
			return nil, fmt.Errorf("stage %d (%s): %w", i, fs[i].Kind, err)
		}
	}
	return data, nil
}

// Decode is the inverse of Encode (independent decoders, used in tests and by
// oracles that need a second opinion).
func Decode(data []byte, fs []FilterSpec) ([]byte, error) {
	var err error
	for i, f := range fs {
		data, err = DecodeStage(data, f)
		if err != nil {
			return nil, fmt.Errorf("stage %d (%s): %w", i, f.Kind, err)
		}
	}
	return data, nil
}

// EncodeStage applies one filter.
func EncodeStage(data []byte, f FilterSpec) ([]byte, error) {
	switch f.Kind {
	case Flate:
		p, err := applyPredictor(data, f)
		if err != nil {
			return nil, err
		}
		return deflate(p, f.Level)
	case LZW:
		p, err := applyPredictor(data, f)
		if err != nil {
			return nil, err
		}
		return lzwEncode(p, !f.LateChange, !f.NoEOD), nil
	case RunLength:
		return runLengthEncode(data, !f.NoEOD), nil
	case ASCII85:
		return ascii85Encode(data, f.LineLen, !f.NoEOD), nil
	case ASCIIHex:
		return asciiHexEncode(data, f.LineLen, f.Lower, !f.NoEOD), nil
	}
	return nil, fmt.Errorf("unknown filter kind %d", f.Kind)
}

// DecodeStage inverts EncodeStage.
func DecodeStage(data []byte, f FilterSpec) ([]byte, error) {
	switch f.Kind {
	case Flate:
		r, err := zlib.NewReader(bytes.NewReader(data))
		if err != nil {
			return nil, err
		}
		p, err := io.ReadAll(r)
		if err != nil {
			return nil, err
		}
		return undoPredictor(p, f)
	case LZW:
		p, err := lzwDecode(data, !f.LateChange)
		if err != nil {
			return nil, err
		}
		return undoPredictor(p, f)
	case RunLength:
		return runLengthDecode(data)
	case ASCII85:
		return ascii85Decode(data)
	case ASCIIHex:
		return asciiHexDecode(data)
	}
	return nil, fmt.Errorf("unknown filter kind %d", f.Kind)
}

// ---------------------------------------------------------------------------
// Flate

func zlibLevel(level int) int {
	switch {
	case level == 0:
		return zlib.DefaultCompression
	case level == -1:
		return zlib.NoCompression
	case level == -2:
		return zlib.HuffmanOnly
	case level >= 1 && level <= 9:
		return level
	}
	return zlib.DefaultCompression
}

func deflate(data []byte, level int) ([]byte, error) {
	var b bytes.Buffer
	w, err := zlib.NewWriterLevel(&b, zlibLevel(level))
	if err != nil {
		return nil, err
	}
	if _, err := w.Write(data); err != nil {
		return nil, err
	}
	if err := w.Close(); err != nil {
		return nil, err
	}
	return b.Bytes(), nil
}

// ---------------------------------------------------------------------------
// Predictors (ISO 32000-1 7.4.4.4, PNG spec section 6, TIFF 6.0 section 14)

func validPredictorParams(f FilterSpec) error {
	switch f.bpc() {
	case 1, 2, 4, 8, 16:
	default:
		return fmt.Errorf("BitsPerComponent %d", f.bpc())
	}
	if f.colors() < 1 || f.columns() < 1 {
		return errors.New("Colors/Columns < 1")
	}
	return nil
}

func applyPredictor(data []byte, f FilterSpec) ([]byte, error) {
	if !f.hasPredictor() {
		return data, nil
	}
	if err := validPredictorParams(f); err != nil {
		return nil, err
	}
	rb := f.RowBytes()
	switch {
	case f.Predictor == 2:
		out := append([]byte(nil), data...)
		for off := 0; off < len(out); off += rb {
			end := min(off+rb, len(out))
			tiffDiffRow(out[off:end], f.colors(), f.bpc(), f.columns(), true)
		}
		return out, nil
	case f.Predictor >= 10 && f.Predictor <= 15:
		bpp := (f.colors()*f.bpc() + 7) / 8
		var rng *rand.Rand
		if f.RowSeed != 0 {
			rng = rand.New(rand.NewPCG(f.RowSeed, uint64(len(data))))
		}
		rows := (len(data) + rb - 1) / rb
		out := make([]byte, 0, len(data)+rows)
		prev := make([]byte, rb)
		for r := 0; r < rows; r++ {
			row := data[r*rb : min((r+1)*rb, len(data))]
			var tag int
			switch {
			case rng != nil:
				tag = rng.IntN(5)
			case f.Predictor == 15:
				tag = r % 5
			default:
				tag = f.Predictor - 10
			}
			out = append(out, byte(tag))
			out = append(out, pngFilterRow(tag, row, prev, bpp)...)
			// the next row's "prior" is this row's RAW data
			prev = make([]byte, rb)
			copy(prev, row)
		}
		return out, nil
	}
	return nil, fmt.Errorf("predictor %d", f.Predictor)
}

func undoPredictor(data []byte, f FilterSpec) ([]byte, error) {
	if !f.hasPredictor() {
		return data, nil
	}
	if err := validPredictorParams(f); err != nil {
		return nil, err
	}
	rb := f.RowBytes()
	switch {
	case f.Predictor == 2:
		out := append([]byte(nil), data...)
		for off := 0; off < len(out); off += rb {
			end := min(off+rb, len(out))
			tiffDiffRow(out[off:end], f.colors(), f.bpc(), f.columns(), false)
		}
		return out, nil
	case f.Predictor >= 10 && f.Predictor <= 15:
		bpp := (f.colors()*f.bpc() + 7) / 8
		out := make([]byte, 0, len(data))
		prev := make([]byte, rb)
		for off := 0; off < len(data); off += rb + 1 {
			tag := int(data[off])
			enc := data[off+1 : min(off+1+rb, len(data))]
			row, err := pngUnfilterRow(tag, enc, prev, bpp)
			if err != nil {
				return nil, err
			}
			out = append(out, row...)
			prev = make([]byte, rb)
			copy(prev, row)
		}
		return out, nil
	}
	return nil, fmt.Errorf("predictor %d", f.Predictor)
}

func paeth(a, b, c byte) byte {
	p := int(a) + int(b) - int(c)
	pa, pb, pc := abs(p-int(a)), abs(p-int(b)), abs(p-int(c))
	if pa <= pb && pa <= pc {
		return a
	}
	if pb <= pc {
		return b
	}
	return c
}

func abs(x int) int {
	if x < 0 {
		return -x
	}
	return x
}

// pngFilterRow filters one raw row against the raw prior row.
func pngFilterRow(tag int, row, prev []byte, bpp int) []byte {
	out := make([]byte, len(row))
	for i := range row {
		var a, b, c byte // left, up, upper-left
		if i >= bpp {
			a = row[i-bpp]
			c = prev[i-bpp]
		}
		b = prev[i]
		switch tag {
		case 0:
			out[i] = row[i]
		case 1:
			out[i] = row[i] - a
		case 2:
			out[i] = row[i] - b
		case 3:
			out[i] = row[i] - byte((int(a)+int(b))/2)
		case 4:
			out[i] = row[i] - paeth(a, b, c)
		}
	}
	return out
}

func pngUnfilterRow(tag int, enc, prev []byte, bpp int) ([]byte, error) {
	if tag < 0 || tag > 4 {
		return nil, fmt.Errorf("png row tag %d", tag)
	}
	row := make([]byte, len(enc))
	for i := range enc {
		var a, b, c byte
		if i >= bpp {
			a = row[i-bpp]
			c = prev[i-bpp]
		}
		b = prev[i]
		switch tag {
		case 0:
			row[i] = enc[i]
		case 1:
			row[i] = enc[i] + a
		case 2:
			row[i] = enc[i] + b
		case 3:
			row[i] = enc[i] + byte((int(a)+int(b))/2)
		case 4:
			row[i] = enc[i] + paeth(a, b, c)
		}
	}
	return row, nil
}

// tiffDiffRow applies (encode) or undoes horizontal differencing on one row,
// component-wise, for 1, 2, 4, 8 and 16 bits per component. Samples are packed
// MSB first; 16-bit samples are big-endian.
func tiffDiffRow(row []byte, colors, bpc, columns int, encode bool) {
	// components in this row; padding bits at the end of a row stay untouched
	nSamples := min(len(row)*8/bpc, colors*columns)
	get := func(i int) uint32 {
		switch bpc {
		case 8:
			return uint32(row[i])
		case 16:
			return uint32(row[2*i])<<8 | uint32(row[2*i+1])
		}
		bit := i * bpc
		sh := uint(8 - bpc - bit%8)
		return uint32(row[bit/8]>>sh) & (1<<uint(bpc) - 1)
	}
	set := func(i int, v uint32) {
		switch bpc {
		case 8:
			row[i] = byte(v)
			return
		case 16:
			row[2*i] = byte(v >> 8)
			row[2*i+1] = byte(v)
			return
		}
		bit := i * bpc
		sh := uint(8 - bpc - bit%8)
		mask := byte(1<<uint(bpc)-1) << sh
		row[bit/8] = row[bit/8]&^mask | byte(v<<sh)&mask
	}
	mask := uint32(1)<<uint(bpc) - 1
	if encode {
		for i := nSamples - 1; i >= colors; i-- {
			set(i, (get(i)-get(i-colors))&mask)
		}
	} else {
		for i := colors; i < nSamples; i++ {
			set(i, (get(i)+get(i-colors))&mask)
		}
	}
}

// ---------------------------------------------------------------------------
// LZW (PDF/TIFF variant: MSB-first codes of 9..12 bits, 256 = clear table,
// 257 = EOD, first free code 258).

type bitWriter struct {
	buf  []byte
	acc  uint32
	nacc uint
}

func (w *bitWriter) write(code, width uint) {
	w.acc = w.acc<<width | uint32(code)
	w.nacc += width
	for w.nacc >= 8 {
		w.buf = append(w.buf, byte(w.acc>>(w.nacc-8)))
		w.nacc -= 8
	}
	w.acc &= 1<<w.nacc - 1
}

func (w *bitWriter) flush() {
	if w.nacc > 0 {
		w.buf = append(w.buf, byte(w.acc<<(8-w.nacc)))
		w.nacc = 0
		w.acc = 0
	}
}

const (
	lzwClear     = 256
	lzwEOD       = 257
	lzwFirstFree = 258
	lzwMaxWidth  = 12
	// The table is reset once code 4093 has been assigned (like libtiff), so
	// that no decoder has to cope with a completely full table.
	lzwResetAt = 4094
)

func lzwEncode(data []byte, early bool, eod bool) []byte {
	ec := uint(0)
	if early {
		ec = 1
	}
	w := &bitWriter{}
	type key struct {
		prefix uint16
		c      byte
	}
	table := make(map[key]uint16)
	width := uint(9)
	next := uint(lzwFirstFree)
	w.write(lzwClear, width)

	// bump is called after a table entry has (conceptually) been added.
	bump := func() {
		if next == lzwResetAt {
			w.write(lzwClear, width)
			clear(table)
			width = 9
			next = lzwFirstFree
			return
		}
		if next+ec > 1<<width && width < lzwMaxWidth {
			width++
		}
	}

	if len(data) > 0 {
		cur := uint16(data[0])
		for _, c := range data[1:] {
			if code, ok := table[key{cur, c}]; ok {
				cur = code
				continue
			}
			w.write(uint(cur), width)
			table[key{cur, c}] = uint16(next)
			next++
			bump()
			cur = uint16(c)
		}
		w.write(uint(cur), width)
		// the decoder adds an entry after this code too: keep widths in step
		next++
		bump()
	}
	if eod {
		w.write(lzwEOD, width)
	}
	w.flush()
	return w.buf
}

func lzwDecode(data []byte, early bool) ([]byte, error) {
	ec := uint(0)
	if early {
		ec = 1
	}
	var (
		acc   uint32
		nacc  uint
		pos   int
		width = uint(9)
		next  = uint(lzwFirstFree)
		out   []byte
	)
	type ent struct {
		prefix int32
		c      byte
		first  byte
		length int32
	}
	table := make([]ent, 4097)
	for i := 0; i < 256; i++ {
		table[i] = ent{-1, byte(i), byte(i), 1}
	}
	prev := int32(-1)
	emit := func(code int32) {
		n := int(table[code].length)
		start := len(out)
		out = append(out, make([]byte, n)...)
		for i := n - 1; i >= 0; i-- {
			out[start+i] = table[code].c
			code = table[code].prefix
		}
	}
	for {
		for nacc < width {
			if pos >= len(data) {
				return out, nil // missing EOD is tolerated
			}
			acc = acc<<8 | uint32(data[pos])
			pos++
			nacc += 8
		}
		code := int32(acc >> (nacc - width) & (1<<width - 1))
		nacc -= width
		acc &= 1<<nacc - 1
		switch {
		case code == lzwEOD:
			return out, nil
		case code == lzwClear:
			width = 9
			next = lzwFirstFree
			prev = -1
			continue
		}
		if prev < 0 {
			if code > 255 {
				return nil, fmt.Errorf("lzw: bad first code %d", code)
			}
			emit(code)
			prev = code
			continue
		}
		if next > 4096 {
			return nil, errors.New("lzw: table overflow")
		}
		switch {
		case uint(code) < next:
			table[next] = ent{prev, table[code].first, table[prev].first, table[prev].length + 1}
		case uint(code) == next:
			table[next] = ent{prev, table[prev].first, table[prev].first, table[prev].length + 1}
		default:
			return nil, fmt.Errorf("lzw: code %d beyond table %d", code, next)
		}
		next++
		emit(code)
		prev = code
		if next+ec >= 1<<width && width < lzwMaxWidth {
			width++
		}
	}
}

// ---------------------------------------------------------------------------
// RunLength

func runLengthEncode(data []byte, eod bool) []byte {
	var out []byte
	i := 0
	for i < len(data) {
		// run?
		j := i + 1
		for j < len(data) && j-i < 128 && data[j] == data[i] {
			j++
		}
		if j-i >= 2 {
			out = append(out, byte(257-(j-i)), data[i])
			i = j
			continue
		}
		// literal: up to 128 bytes, stop before a run of >= 3
		j = i + 1
		for j < len(data) && j-i < 128 {
			if j+2 < len(data) && data[j] == data[j+1] && data[j] == data[j+2] {
				break
			}
			j++
		}
		out = append(out, byte(j-i-1))
		out = append(out, data[i:j]...)
		i = j
	}
	if eod {
		out = append(out, 128)
	}
	return out
}

func runLengthDecode(data []byte) ([]byte, error) {
	var out []byte
	i := 0
	for i < len(data) {
		n := int(data[i])
		i++
		switch {
		case n == 128:
			return out, nil
		case n < 128:
			if i+n+1 > len(data) {
				return nil, errors.New("runlength: short literal")
			}
			out = append(out, data[i:i+n+1]...)
			i += n + 1
		default:
			if i >= len(data) {
				return nil, errors.New("runlength: short run")
			}
			out = append(out, bytes.Repeat(data[i:i+1], 257-n)...)
			i++
		}
	}
	return out, nil
}

// ---------------------------------------------------------------------------
// ASCII85 / ASCIIHex

type lineWriter struct {
	buf     []byte
	lineLen int
	col     int
}

func (w *lineWriter) put(c byte) {
	if w.lineLen > 0 && w.col == w.lineLen {
		w.buf = append(w.buf, '\n')
		w.col = 0
	}
	w.buf = append(w.buf, c)
	w.col++
}

func ascii85Encode(data []byte, lineLen int, eod bool) []byte {
	w := &lineWriter{lineLen: lineLen}
	for i := 0; i < len(data); i += 4 {
		n := min(4, len(data)-i)
		var v uint32
		for j := 0; j < 4; j++ {
			v <<= 8
			if j < n {
				v |= uint32(data[i+j])
			}
		}
		if n == 4 && v == 0 {
			w.put('z')
			continue
		}
		var c [5]byte
		for j := 4; j >= 0; j-- {
			c[j] = byte(v%85) + '!'
			v /= 85
		}
		for j := 0; j < n+1; j++ {
			w.put(c[j])
		}
	}
	if eod {
		// keep "~>" together on one line
		if w.lineLen > 0 && w.col+2 > w.lineLen {
			w.buf = append(w.buf, '\n')
		}
		w.buf = append(w.buf, '~', '>')
	}
	return w.buf
}

func ascii85Decode(data []byte) ([]byte, error) {
	var out []byte
	var grp [5]byte
	n := 0
	flush := func(n int) error {
		if n == 0 {
			return nil
		}
		if n == 1 {
			return errors.New("ascii85: single trailing character")
		}
		for i := n; i < 5; i++ {
			grp[i] = 84
		}
		var v uint64
		for i := 0; i < 5; i++ {
			v = v*85 + uint64(grp[i])
		}
		if v > 0xffffffff {
			return errors.New("ascii85: group overflow")
		}
		b := [4]byte{byte(v >> 24), byte(v >> 16), byte(v >> 8), byte(v)}
		out = append(out, b[:n-1]...)
		return nil
	}
	for i := 0; i < len(data); i++ {
		c := data[i]
		switch {
		case c == '~':
			return out, flush(n)
		case c == 'z' && n == 0:
			out = append(out, 0, 0, 0, 0)
		case c >= '!' && c <= 'u':
			grp[n] = c - '!'
			n++
			if n == 5 {
				if err := flush(5); err != nil {
					return nil, err
				}
				n = 0
			}
		case c == ' ' || c == '\n' || c == '\r' || c == '\t' || c == '\f' || c == 0:
		default:
			return nil, fmt.Errorf("ascii85: bad character %q", c)
		}
	}
	return out, flush(n)
}

func asciiHexEncode(data []byte, lineLen int, lower, eod bool) []byte {
	digits := "0123456789ABCDEF"
	if lower {
		digits = "0123456789abcdef"
	}
	w := &lineWriter{lineLen: lineLen}
	for _, c := range data {
		w.put(digits[c>>4])
		w.put(digits[c&15])
	}
	if eod {
		w.put('>')
	}
	return w.buf
}

func asciiHexDecode(data []byte) ([]byte, error) {
	var out []byte
	hi, have := byte(0), false
	for _, c := range data {
		var v byte
		switch {
		case c >= '0' && c <= '9':
			v = c - '0'
		case c >= 'a' && c <= 'f':
			v = c - 'a' + 10
		case c >= 'A' && c <= 'F':
			v = c - 'A' + 10
		case c == '>':
			if have {
				out = append(out, hi<<4)
			}
			return out, nil
		case c == ' ' || c == '\n' || c == '\r' || c == '\t' || c == '\f' || c == 0:
			continue
		default:
			return nil, fmt.Errorf("asciihex: bad character %q", c)
		}
		if have {
			out = append(out, hi<<4|v)
			have = false
		} else {
			hi, have = v, true
		}
	}
	if have {
		out = append(out, hi<<4)
	}
	return out, nil
}
