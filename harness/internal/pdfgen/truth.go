package pdfgen

import "bytes"

// Truth is what a built document contains, recorded while building it —
// never obtained by reading the file back.
type Truth struct {
	Pages []PageTruth

	// Info holds the info dictionary's text entries decoded to UTF-8
	// (dates verbatim, e.g. "D:20240102030405+01'00'"). InfoKeys keeps order.
	Info     map[string]string
	InfoKeys []string

	Outlines []*OutlineTruth // top-level items in order

	EmbeddedFiles []EmbeddedFileTruth // sorted by Key (name tree order)
	Dests         []DestTruth         // sorted by Name

	Fields     []FieldTruth // terminal form fields (excluding signature fields)
	Signatures []SignatureTruth

	XMP         []byte // the metadata stream (decoded), nil if none
	PageLayout  string
	PageMode    string
	ViewerPrefs map[string]string // key → serialised value

	// Secrets lists every planted secret marker with its location kind.
	Secrets []Secret

	// Objs names the object numbers of structural objects (for hostile edits
	// and for oracles that want to look at specific objects).
	Objs StructTruth

	// Duplicates: groups of object numbers with identical content;
	// NearDuplicates: pairs that differ in exactly one detail.
	Duplicates     [][]int
	NearDuplicates [][2]int
	// Unreferenced: objects no path from the trailer reaches.
	Unreferenced []int

	// MinVersion is the lowest header version the features used call for.
	MinVersion string
}

// PageTruth describes one page in document order.
type PageTruth struct {
	Index  int    // 0-based
	ObjNum int    // page object
	Marker string // "VERIF-PAGE-<32 hex>", shown by "(marker) Tj"

	// Effective attributes after inheritance.
	MediaBox [4]float64
	CropBox  *[4]float64 // nil: none anywhere on the path
	Rotate   int

	// Where the effective value comes from: 0 = the page itself, otherwise the
	// object number of the page tree node it is inherited from (-1: default).
	MediaBoxFrom, CropBoxFrom, RotateFrom, ResourcesFrom int

	// Contents are the decoded content streams in order (one or several).
	Contents   [][]byte
	ContentObj []int
	// ResourcesObj is the object number of the resource dictionary if it is an
	// indirect object (0: direct dictionary in the page / node).
	ResourcesObj int

	// Resource names used by operators in the content.
	Fonts    []string
	XObjects []string

	Annots []AnnotTruth
}

// Content returns the page's content streams joined the way a consumer must
// see them (separated by one end-of-line).
func (p *PageTruth) Content() []byte { return bytes.Join(p.Contents, []byte("\n")) }

// AnnotTruth describes one annotation of a page.
type AnnotTruth struct {
	ObjNum   int
	Subtype  string // Text, Link, Widget
	Contents string // decoded /Contents ("" if none)
	Rect     [4]float64
	Field    string // Widget: full field name
}

// OutlineTruth is one outline item.
type OutlineTruth struct {
	ObjNum    int
	Title     string // decoded (for OutlineTitles: the raw bytes as a string)
	RawTitle  []byte // set when the title came from DocSpec.OutlineTitles
	Page      int    // 0-based target page, -1 none
	ViaAction bool   // /A GoTo instead of /Dest
	Color     *[3]float64
	Bold      bool
	Italic    bool
	Open      bool
	Kids      []*OutlineTruth
}

// Walk visits o and all descendants in document order.
func (o *OutlineTruth) Walk(f func(*OutlineTruth, int)) { o.walk(f, 0) }

func (o *OutlineTruth) walk(f func(*OutlineTruth, int), depth int) {
	f(o, depth)
	for _, k := range o.Kids {
		k.walk(f, depth+1)
	}
}

// EmbeddedFileTruth is one entry of the /EmbeddedFiles name tree.
type EmbeddedFileTruth struct {
	Key       []byte // name tree key (raw bytes)
	F, UF     []byte // raw string bytes of the file specification (UF nil: absent)
	Desc      string
	Data      []byte
	SpecObj   int
	StreamObj int
}

// DestTruth is one named destination.
type DestTruth struct {
	Name string
	Page int
}

// FieldTruth is one terminal AcroForm field.
type FieldTruth struct {
	ObjNum   int
	FullName string // dotted
	Type     string // Tx, Btn
	Value    string // text value, or "Yes"/"Off"
	Default  string
	Page     int
}

// SignatureTruth is one signature field.
type SignatureTruth struct {
	FieldObj int
	SigObj   int // the /V signature dictionary (0: unsigned field)
	FullName string
	Page     int
	DocMDP   bool // referenced from /Perms /DocMDP
	UR3      bool // referenced from /Perms /UR3
}

// Secret kinds.
const (
	SecretInfo         = "info-string"
	SecretContent      = "page-content"
	SecretAnnot        = "annot-contents"
	SecretFieldV       = "field-V"
	SecretFieldDV      = "field-DV"
	SecretNameKey      = "nametree-key"
	SecretFileData     = "embedded-file-data"
	SecretFileName     = "embedded-file-name"
	SecretNested       = "nested-array-dict"
	SecretObjStmMember = "objstm-member" // a string in a non-stream object (lives in an object stream when those are on)
	SecretOutline      = "outline-title"
	SecretXMP          = "xmp"
	SecretFormXObject  = "form-xobject-content"
)

// Secret is a planted unique marker.
type Secret struct {
	Marker string // "VSEC-<32 hex>"
	Kind   string
	ObjNum int // object that carries it
}

// StructTruth holds object numbers of structural objects.
type StructTruth struct {
	Catalog       int
	Info          int
	PagesRoot     int
	PageNodes     []int // all /Pages nodes incl. root, pre-order
	PageObjs      []int // page objects in page order
	OutlineRoot   int
	OutlineItems  []int // pre-order
	Names         int   // catalog /Names dictionary (0: direct/none)
	EFTreeRoot    int
	EFTreeNodes   []int // all nodes of the EmbeddedFiles name tree incl. root
	DestTreeRoot  int
	DestTreeNodes []int
	AcroForm      int
	FieldObjs     []int // every field object incl. non-terminal ones
	Metadata      int
	Fonts         []int
	Images        []int
	Forms         []int
	ResourceDicts []int
	Perms         bool
}
