package pdfgen

import (
	"bytes"
	"compress/zlib"
	"encoding/ascii85"
	"encoding/hex"
	"fmt"
	"io"
	"math/rand/v2"
	"strings"
	"testing"

	pfilter "github.com/pdfcpu/pdfcpu/pkg/filter"
	tifflzw "golang.org/x/image/tiff/lzw"
)

func testData(rng *rand.Rand, n int, kind int) []byte {
	b := make([]byte, n)
	switch kind % 5 {
	case 0: // random
		for i := range b {
			b[i] = byte(rng.UintN(256))
		}
	case 1: // zeros
	case 2: // text-like
		const alpha = "BT /F1 12 Tf 72 720 Td (Hello) Tj ET\n0 0 1 rg q Q "
		for i := range b {
			b[i] = alpha[rng.IntN(len(alpha))]
		}
	case 3: // runs
		for i := 0; i < n; {
			c := byte(rng.UintN(4))
			l := 1 + rng.IntN(300)
			for j := 0; j < l && i < n; j++ {
				b[i] = c
				i++
			}
		}
	case 4: // repeating pattern (drives LZW through KwKwK cases and table resets)
		p := []byte("abababababcabcabcd")
		for i := range b {
			b[i] = p[i%len(p)]
		}
	}
	return b
}

var sizes = []int{0, 1, 2, 3, 4, 5, 7, 8, 127, 128, 129, 255, 256, 257, 1000, 4095, 4096, 5000, 70000}

func TestStageRoundTrips(t *testing.T) {
	rng := rand.New(rand.NewPCG(1, 2))
	specs := []FilterSpec{
		{Kind: Flate}, {Kind: Flate, Level: 9}, {Kind: Flate, Level: -1}, {Kind: Flate, Level: -2},
		{Kind: LZW}, {Kind: LZW, LateChange: true},
		{Kind: RunLength},
		{Kind: ASCII85}, {Kind: ASCII85, LineLen: 64},
		{Kind: ASCIIHex}, {Kind: ASCIIHex, LineLen: 40, Lower: true},
	}
	for _, f := range specs {
		for _, n := range sizes {
			for kind := 0; kind < 5; kind++ {
				data := testData(rng, n, kind)
				enc, err := EncodeStage(data, f)
				if err != nil {
					t.Fatalf("%+v n=%d: %v", f, n, err)
				}
				dec, err := DecodeStage(enc, f)
				if err != nil {
					t.Fatalf("%+v n=%d kind=%d: decode: %v", f, n, kind, err)
				}
				if !bytes.Equal(dec, data) {
					t.Fatalf("%+v n=%d kind=%d: round trip mismatch", f, n, kind)
				}
			}
		}
	}
}

// Cross-check each encoder against a decoder that is not ours.
func TestEncodersAgainstForeignDecoders(t *testing.T) {
	rng := rand.New(rand.NewPCG(3, 4))
	for _, n := range sizes {
		for kind := 0; kind < 5; kind++ {
			data := testData(rng, n, kind)
			tag := fmt.Sprintf("n=%d kind=%d", n, kind)

			// Flate → compress/zlib
			enc, _ := EncodeStage(data, FilterSpec{Kind: Flate})
			zr, err := zlib.NewReader(bytes.NewReader(enc))
			if err != nil {
				t.Fatal(tag, err)
			}
			got, err := io.ReadAll(zr)
			if err != nil || !bytes.Equal(got, data) {
				t.Fatalf("%s flate/zlib mismatch %v", tag, err)
			}

			// ASCIIHex → encoding/hex
			enc, _ = EncodeStage(data, FilterSpec{Kind: ASCIIHex})
			if enc[len(enc)-1] != '>' {
				t.Fatal(tag, "asciihex: no EOD")
			}
			got, err = hex.DecodeString(string(enc[:len(enc)-1]))
			if err != nil || !bytes.Equal(got, data) {
				t.Fatalf("%s asciihex mismatch %v", tag, err)
			}

			// ASCII85 → encoding/ascii85 (same alphabet and z rule)
			enc, _ = EncodeStage(data, FilterSpec{Kind: ASCII85})
			if !bytes.HasSuffix(enc, []byte("~>")) {
				t.Fatal(tag, "ascii85: no EOD")
			}
			got = make([]byte, len(data)+8)
			nd, _, err := ascii85.Decode(got, enc[:len(enc)-2], true)
			if err != nil || !bytes.Equal(got[:nd], data) {
				t.Fatalf("%s ascii85 mismatch %v", tag, err)
			}

			// LZW → golang.org/x/image/tiff/lzw (TIFF variant = EarlyChange 1)
			enc, _ = EncodeStage(data, FilterSpec{Kind: LZW})
			got, err = io.ReadAll(tifflzw.NewReader(bytes.NewReader(enc), tifflzw.MSB, 8))
			if err != nil || !bytes.Equal(got, data) {
				t.Fatalf("%s lzw: x/image/tiff/lzw decoder mismatch: %v (got %d want %d bytes)", tag, err, len(got), len(data))
			}
			// pdfcpu's LZW encoder through our decoder, both EarlyChange values
			for _, late := range []bool{false, true} {
				f := FilterSpec{Kind: LZW, LateChange: late}
				parms := map[string]int{}
				if late {
					parms["EarlyChange"] = 0
				}
				pf, _ := pfilter.NewFilter(pfilter.LZW, parms)
				r, err := pf.Encode(bytes.NewReader(data))
				if err != nil {
					t.Fatal(err)
				}
				foreign, _ := io.ReadAll(r)
				got, err = DecodeStage(foreign, f)
				if err != nil || !bytes.Equal(got, data) {
					t.Fatalf("%s lzw late=%v: our decoder on pdfcpu's encoding: %v", tag, late, err)
				}
			}

			// every filter → pdfcpu's decoder
			for _, f := range []FilterSpec{{Kind: Flate}, {Kind: LZW}, {Kind: LZW, LateChange: true}, {Kind: RunLength}, {Kind: ASCII85}, {Kind: ASCIIHex}} {
				enc, _ = EncodeStage(data, f)
				got, err := pdfcpuDecode(enc, f)
				if err != nil || !bytes.Equal(got, data) {
					t.Fatalf("%s %v: pdfcpu decoder mismatch: %v", tag, f.Kind, err)
				}
			}
		}
	}
}

func pdfcpuDecode(enc []byte, f FilterSpec) ([]byte, error) {
	parms := map[string]int{}
	for _, e := range f.Parms() {
		parms[string(e.Key)] = int(e.Val.(Int))
	}
	pf, err := pfilter.NewFilter(string(f.Kind.PDFName()), parms)
	if err != nil {
		return nil, err
	}
	r, err := pf.Decode(bytes.NewReader(enc))
	if err != nil {
		return nil, err
	}
	return io.ReadAll(r)
}

func TestRunLengthFormat(t *testing.T) {
	enc := runLengthEncode([]byte{1, 1, 1, 1, 2, 3, 4, 5, 5}, true)
	want := []byte{253, 1, 4, 2, 3, 4, 5, 5, 128} // run of 4, then 5 literals (a run of 2 does not pay)
	if !bytes.Equal(enc, want) {
		t.Fatalf("got % d want % d", enc, want)
	}
}

func TestLZWKnownVector(t *testing.T) {
	// ISO 32000-1 7.4.4.2 example: 45 45 45 45 45 65 45 45 45 66 →
	// codes 256 45 258 258 65 259 66 257 → 80 0B 60 50 22 0C 0C 85 01
	enc := lzwEncode([]byte{45, 45, 45, 45, 45, 65, 45, 45, 45, 66}, true, true)
	want, _ := hex.DecodeString("800B6050220C0C8501")
	if !bytes.Equal(enc, want) {
		t.Fatalf("got %X want %X", enc, want)
	}
}

// PNG predictors: cross-check against an independent, straight-from-the-spec
// reconstruction, plus pdfcpu's decoder.
func TestPredictors(t *testing.T) {
	rng := rand.New(rand.NewPCG(5, 6))
	for _, kind := range []FilterKind{Flate, LZW} {
		for _, pred := range []int{2, 10, 11, 12, 13, 14, 15} {
			for _, bpc := range []int{1, 2, 4, 8, 16} {
				for colors := 1; colors <= 4; colors++ {
					for _, cols := range []int{1, 2, 3, 7, 16, 33} {
						for _, seed := range []uint64{0, 77} {
							if seed != 0 && pred < 10 {
								continue
							}
							f := FilterSpec{Kind: kind, Predictor: pred, BPC: bpc, Colors: colors, Columns: cols, RowSeed: seed}
							rows := 1 + rng.IntN(6)
							data := testData(rng, rows*f.RowBytes(), rng.IntN(4))
							enc, err := EncodeStage(data, f)
							if err != nil {
								t.Fatalf("%+v: %v", f, err)
							}
							dec, err := DecodeStage(enc, f)
							if err != nil || !bytes.Equal(dec, data) {
								t.Fatalf("%+v: own round trip failed: %v", f, err)
							}
							// independent reconstruction of the predictor layer
							inner, _ := DecodeStage(enc, FilterSpec{Kind: kind})
							ref := refUnpredict(inner, pred, colors, bpc, cols)
							if !bytes.Equal(ref, data) {
								t.Fatalf("%+v: reference un-predictor mismatch", f)
							}
							// pdfcpu decodes Flate + PNG, and TIFF at 8 bpc, correctly;
							// (TIFF at other depths and any LZW predictor are known pdfcpu gaps).
							if kind == Flate && (pred >= 10 || bpc == 8) {
								got, err := pdfcpuDecode(enc, f)
								if err != nil || !bytes.Equal(got, data) {
									t.Fatalf("%+v: pdfcpu decode mismatch: %v", f, err)
								}
							}
						}
					}
				}
			}
		}
	}
}

// refUnpredict is written independently of filters.go: sample-oriented for
// TIFF, byte-oriented per the PNG specification for PNG.
func refUnpredict(b []byte, pred, colors, bpc, cols int) []byte {
	rowBytes := (colors*bpc*cols + 7) / 8
	if pred == 2 {
		var out []byte
		for off := 0; off+rowBytes <= len(b); off += rowBytes {
			row := b[off : off+rowBytes]
			// unpack samples
			n := colors * cols
			s := make([]uint32, n)
			bitpos := 0
			for i := 0; i < n; i++ {
				var v uint32
				for k := 0; k < bpc; k++ {
					bit := (row[bitpos/8] >> (7 - uint(bitpos%8))) & 1
					v = v<<1 | uint32(bit)
					bitpos++
				}
				s[i] = v
			}
			for i := colors; i < n; i++ {
				s[i] = (s[i] + s[i-colors]) & (1<<uint(bpc) - 1)
			}
			o := make([]byte, rowBytes)
			bitpos = 0
			for i := 0; i < n; i++ {
				for k := bpc - 1; k >= 0; k-- {
					if s[i]>>uint(k)&1 == 1 {
						o[bitpos/8] |= 1 << (7 - uint(bitpos%8))
					}
					bitpos++
				}
			}
			// padding bits are carried over unchanged
			if rem := (colors * bpc * cols) % 8; rem != 0 {
				o[rowBytes-1] |= row[rowBytes-1] & (0xff >> uint(rem))
			}
			out = append(out, o...)
		}
		return out
	}
	bpp := (colors*bpc + 7) / 8
	prior := make([]byte, rowBytes)
	var out []byte
	for off := 0; off+1+rowBytes <= len(b); off += 1 + rowBytes {
		ft := b[off]
		cur := append([]byte(nil), b[off+1:off+1+rowBytes]...)
		for x := 0; x < rowBytes; x++ {
			var left, up, ul int
			if x >= bpp {
				left = int(cur[x-bpp])
				ul = int(prior[x-bpp])
			}
			up = int(prior[x])
			var p int
			switch ft {
			case 0:
			case 1:
				p = left
			case 2:
				p = up
			case 3:
				p = (left + up) / 2
			case 4:
				pp := left + up - ul
				pa, pb, pc := pp-left, pp-up, pp-ul
				if pa < 0 {
					pa = -pa
				}
				if pb < 0 {
					pb = -pb
				}
				if pc < 0 {
					pc = -pc
				}
				switch {
				case pa <= pb && pa <= pc:
					p = left
				case pb <= pc:
					p = up
				default:
					p = ul
				}
			}
			cur[x] = byte(int(cur[x]) + p)
		}
		out = append(out, cur...)
		prior = cur
	}
	return out
}

func allTestPipelines() [][]FilterSpec {
	base := []FilterSpec{
		{Kind: Flate}, {Kind: Flate, Predictor: 12, Columns: 5}, {Kind: Flate, Predictor: 15, Columns: 4, Colors: 3, RowSeed: 9},
		{Kind: Flate, Predictor: 2, Columns: 6, Colors: 2},
		{Kind: LZW}, {Kind: LZW, LateChange: true}, {Kind: LZW, Predictor: 11, Columns: 3},
		{Kind: RunLength}, {Kind: ASCII85}, {Kind: ASCIIHex, LineLen: 32},
	}
	var out [][]FilterSpec
	for _, a := range base {
		out = append(out, []FilterSpec{a})
		for _, b := range base {
			out = append(out, []FilterSpec{a, b})
			for _, c := range []FilterSpec{{Kind: Flate}, {Kind: RunLength}, {Kind: ASCII85}} {
				out = append(out, []FilterSpec{a, b, c})
			}
		}
	}
	return out
}

func TestPipelines(t *testing.T) {
	rng := rand.New(rand.NewPCG(7, 8))
	n := 0
	for _, fs := range allTestPipelines() {
		for _, size := range []int{0, 60, 600, 6000} {
			// length must be a multiple of the innermost predictor row
			last := fs[len(fs)-1]
			if last.hasPredictor() {
				size -= size % last.RowBytes()
			}
			data := testData(rng, size, rng.IntN(5))
			enc, err := Encode(data, fs)
			if err != nil {
				t.Fatal(err)
			}
			dec, err := Decode(enc, fs)
			if err != nil || !bytes.Equal(dec, data) {
				t.Fatalf("pipeline %v size %d: %v", fs, size, err)
			}
			n++
		}
		f, p := FilterEntries(fs, false)
		if len(fs) > 1 {
			if len(f.(Array)) != len(fs) {
				t.Fatal("filter array length")
			}
			if p != nil && len(p.(Array)) != len(fs) {
				t.Fatal("parms array length")
			}
		}
	}
	t.Logf("%d pipeline round trips", n)
}

func TestBombs(t *testing.T) {
	for _, k := range BombKinds() {
		for _, size := range []int{0, 1, 5, 1000, 1 << 20} {
			s := Bomb(k, size)
			dec, err := Decode(s.Data, s.Filters)
			if err != nil {
				t.Fatalf("%v size %d: %v", k, size, err)
			}
			if len(dec) != size || bytes.Trim(dec, "\x00") != nil && len(bytes.Trim(dec, "\x00")) != 0 {
				t.Fatalf("%v: decoded %d bytes, want %d zeros", k, len(dec), size)
			}
			if size == 1<<20 {
				t.Logf("bomb %-22v 1 MiB -> %d bytes encoded", k, len(s.Data))
			}
		}
	}
}

func TestNameAndStringEscaping(t *testing.T) {
	if got := string(EscapeName("A B#/(\x00é")); got != "/A#20B#23#2F#28#00#C3#A9" {
		t.Fatalf("name: %s", got)
	}
	if got := string(EscapeLiteral([]byte("a(b)c\\d\r\n\x00\xff"))); got != `(a\(b\)c\\d\r\n\000\377)` {
		t.Fatalf("string: %s", got)
	}
	if got := string(EscapeHex([]byte{0, 0xab})); got != "<00AB>" {
		t.Fatalf("hex: %s", got)
	}
	for f, want := range map[float64]string{1: "1.0", 1.5: "1.5", -0.25: "-0.25", 1e-9: "0.0", 123456.789: "123456.789", -0.0000001: "0.0"} {
		if got := FormatReal(f); got != want {
			t.Fatalf("real %v: %s want %s", f, got, want)
		}
	}
	if strings.ContainsAny(FormatReal(1e20), "eE") {
		t.Fatal("exponent notation")
	}
}
