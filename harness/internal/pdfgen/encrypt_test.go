package pdfgen

import (
	"bytes"
	"crypto/md5"
	"crypto/rc4"
	"encoding/binary"
	"fmt"
	"math/rand/v2"
	"testing"

	"github.com/pdfcpu/pdfcpu/pkg/api"
)

// rc4R2 is a test-only implementation of the standard security handler,
// revision 2 (RC4, 40 bit), ISO 32000-1 7.6.3 algorithms 1-4. It exists to
// prove that the writer calls the Encrypter hook on exactly the right things:
// if a string or stream were encrypted twice, not at all, or with the wrong
// object number, pdfcpu could not decrypt the file.
type rc4R2 struct {
	key  []byte
	o, u []byte
	p    int32

	strings, streams int
	sawObjStm        bool
	sawXRef          bool
}

var padding = []byte{0x28, 0xBF, 0x4E, 0x5E, 0x4E, 0x75, 0x8A, 0x41, 0x64, 0x00, 0x4E, 0x56, 0xFF, 0xFA, 0x01, 0x08,
	0x2E, 0x2E, 0x00, 0xB6, 0xD0, 0x68, 0x3E, 0x80, 0x2F, 0x0C, 0xA9, 0xFE, 0x64, 0x53, 0x69, 0x7A}

func pad32(pw string) []byte { return append([]byte(pw), padding...)[:32] }

func rc4Bytes(key, in []byte) []byte {
	c, _ := rc4.NewCipher(key)
	out := make([]byte, len(in))
	c.XORKeyStream(out, in)
	return out
}

func newRC4R2(userPW, ownerPW string, id0 []byte) *rc4R2 {
	e := &rc4R2{p: -4}
	if ownerPW == "" {
		ownerPW = userPW
	}
	h := md5.Sum(pad32(ownerPW))
	e.o = rc4Bytes(h[:5], pad32(userPW))
	var p [4]byte
	binary.LittleEndian.PutUint32(p[:], uint32(e.p))
	k := md5.Sum(bytes.Join([][]byte{pad32(userPW), e.o, p[:], id0}, nil))
	e.key = k[:5]
	e.u = rc4Bytes(e.key, padding)
	return e
}

func (e *rc4R2) objKey(num, gen int) []byte {
	h := md5.Sum(append(append([]byte{}, e.key...), byte(num), byte(num>>8), byte(num>>16), byte(gen), byte(gen>>8)))
	return h[:len(e.key)+5]
}

func (e *rc4R2) EncryptString(num, gen int, b []byte) []byte {
	e.strings++
	return rc4Bytes(e.objKey(num, gen), b)
}

func (e *rc4R2) EncryptStream(num, gen int, d Dict, b []byte) []byte {
	e.streams++
	if t, _ := d.Get("Type"); t == Object(Name("ObjStm")) {
		e.sawObjStm = true
	}
	if t, _ := d.Get("Type"); t == Object(Name("XRef")) {
		e.sawXRef = true
	}
	return rc4Bytes(e.objKey(num, gen), b)
}

func (e *rc4R2) EncryptDict() Dict {
	return D("Filter", Name("Standard"), "V", Int(1), "R", Int(2), "O", String(e.o), "U", String(e.u), "P", Int(int64(e.p)))
}

func TestEncryptionHook(t *testing.T) {
	rng := rand.New(rand.NewPCG(31, 32))
	for i := 0; i < 45; i++ {
		spec := RandomSpec(rng, 5)
		spec.Secrets = i%2 == 0
		spec.Signatures = i % 3
		if i%5 == 0 {
			spec.Updates = 2
		}
		doc, truth := BuildDoc(spec)
		opts := spec.Write
		enc := newRC4R2("", "owner", doc.ID[0])
		opts.Encrypter = enc
		opts.Version = FitVersion(opts, truth.MinVersion)
		out, err := Write(doc, opts)
		if err != nil {
			t.Fatal(err)
		}
		tag := fmt.Sprintf("enc-%02d", i)
		bt := &Built{Bytes: out.Bytes, Truth: truth, Doc: doc, Layout: out.Layout, Spec: spec}
		bt.Spec.Write = opts

		if enc.sawXRef {
			t.Errorf("%s: an xref stream went through the Encrypter", tag)
		}
		if opts.ObjStm != enc.sawObjStm && opts.ObjStm {
			t.Errorf("%s: object streams not passed through EncryptStream", tag)
		}
		// No plaintext marker may survive anywhere in the file. (Signature
		// /Contents is exempt but holds no marker; XMP is encrypted too.)
		plain := MustWrite(doc, spec.Write).Bytes
		for _, p := range truth.Pages {
			if bytes.Contains(out.Bytes, []byte(p.Marker)) {
				t.Errorf("%s: page marker %s readable in the encrypted file", tag, p.Marker)
			}
		}
		for _, s := range truth.Secrets {
			if bytes.Contains(out.Bytes, []byte(s.Marker)) {
				t.Errorf("%s: secret %s (%s) readable in the encrypted file", tag, s.Marker, s.Kind)
			}
		}
		if len(out.Bytes) < len(plain)/2 {
			t.Errorf("%s: suspicious size", tag)
		}
		// the encryption dictionary itself must be in clear and outside object streams
		lo, ok := out.Layout.Find(out.Layout.EncryptNum)
		if !ok || lo.InObjStm != 0 || !bytes.Contains(out.Bytes[lo.Offset:lo.End], EscapeLiteral(enc.o)) {
			t.Errorf("%s: encryption dictionary not a clear top-level object", tag)
		}
		// pdfcpu decrypts with the empty user password: structure, strings and streams all fit
		if !checkBuilt(t, tag, bt, true) {
			continue
		}
		// and the decrypted info strings equal the truth
		ctx, err := api.ReadContext(bytes.NewReader(out.Bytes), strictConf())
		if err != nil {
			t.Errorf("%s: %v", tag, err)
			continue
		}
		if truth.Objs.Info != 0 {
			d, err := ctx.DereferenceDict(*ctx.Info)
			if err != nil || d == nil {
				t.Errorf("%s: info dict: %v", tag, err)
				continue
			}
			for _, k := range []string{"CreationDate", "ModDate"} {
				if want, has := truth.Info[k]; has {
					if got := d.StringEntry(k); got == nil || *got != want {
						t.Errorf("%s: decrypted info %s = %v, truth %q", tag, k, got, want)
					}
				}
			}
		}
	}
}
