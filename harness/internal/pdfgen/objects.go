// Package pdfgen is an independent, byte-level PDF document generator.
//
// It owns its object model, stream filters and file-structure writer and
// imports nothing from pdfcpu. Everything it produces is a pure function of
// its inputs (including any *rand.Rand passed in): no clock, no global state.
//
// Layer 1 (objects.go, filters.go, writer.go, hostile.go): object model,
// serialiser, filter encoders, file writer with structural overrides.
// Layer 2 (spec.go, build.go, truth.go): valid realistic documents with a
// recorded ground truth.
package pdfgen

import (
	"bytes"
	"math"
	"strconv"
)

// Object is any PDF object of the generator's own model.
type Object interface{ pdfObject() }

// Null is the PDF null object.
type Null struct{}

// Bool is a PDF boolean.
type Bool bool

// Int is a PDF integer.
type Int int64

// Real is a PDF real number (written in fixed notation, never exponent form).
type Real float64

// Name is a PDF name WITHOUT the leading slash; arbitrary bytes are allowed and
// are escaped with #xx on output.
type Name string

// String is a literal string "(...)"; arbitrary bytes, escaped on output.
type String []byte

// HexString is a hexadecimal string "<...>".
type HexString []byte

// Array is a PDF array.
type Array []Object

// Entry is one key/value pair of a Dict.
type Entry struct {
	Key Name
	Val Object
}

// Dict is a PDF dictionary with ordered keys (serialised in slice order).
type Dict []Entry

// Ref is an indirect reference "Num Gen R".
type Ref struct{ Num, Gen int }

// Raw is written verbatim (hostile mode: malformed tokens, huge nestings...).
type Raw []byte

// Stream is a stream object. Data holds the DECODED bytes; on output the data
// is pushed through Filters (listed in /Filter order, i.e. decoding order) and
// /Length, /Filter, /DecodeParms are generated.
type Stream struct {
	Dict    Dict
	Data    []byte
	Filters []FilterSpec
	// PreEncoded: Data already is the encoded byte sequence for Filters
	// (used by bombs); only the dictionary entries are generated.
	PreEncoded bool
	// IndirectLength: write /Length as a reference to a separate integer
	// object that follows the stream.
	IndirectLength bool
	// NoFilterEntries: encode, but do not emit /Filter and /DecodeParms
	// (hostile).
	NoFilterEntries bool
}

func (Null) pdfObject()      {}
func (Bool) pdfObject()      {}
func (Int) pdfObject()       {}
func (Real) pdfObject()      {}
func (Name) pdfObject()      {}
func (String) pdfObject()    {}
func (HexString) pdfObject() {}
func (Array) pdfObject()     {}
func (Dict) pdfObject()      {}
func (Ref) pdfObject()       {}
func (Raw) pdfObject()       {}
func (*Stream) pdfObject()   {}

// D builds a Dict from alternating key, value arguments. Keys are string or
// Name; values are Objects or convenient Go values (see Obj).
func D(kv ...any) Dict {
	if len(kv)%2 != 0 {
		panic("pdfgen.D: odd number of arguments")
	}
	d := make(Dict, 0, len(kv)/2)
	for i := 0; i < len(kv); i += 2 {
		var k Name
		switch v := kv[i].(type) {
		case string:
			k = Name(v)
		case Name:
			k = v
		default:
			panic("pdfgen.D: key must be string or Name")
		}
		d = append(d, Entry{k, Obj(kv[i+1])})
	}
	return d
}

// A builds an Array; elements are converted with Obj.
func A(v ...any) Array {
	a := make(Array, len(v))
	for i, x := range v {
		a[i] = Obj(x)
	}
	return a
}

// Obj converts convenient Go values to Objects: int/int64 → Int, float64 →
// Real, bool → Bool, string → String (literal string!), []byte → String,
// nil → Null. Objects pass through.
func Obj(v any) Object {
	switch x := v.(type) {
	case nil:
		return Null{}
	case Object:
		return x
	case int:
		return Int(x)
	case int64:
		return Int(x)
	case float64:
		return Real(x)
	case bool:
		return Bool(x)
	case string:
		return String(x)
	case []byte:
		return String(x)
	}
	panic("pdfgen.Obj: unsupported value")
}

// Get returns the value for key.
func (d Dict) Get(key Name) (Object, bool) {
	for _, e := range d {
		if e.Key == key {
			return e.Val, true
		}
	}
	return nil, false
}

// Has reports whether key is present.
func (d Dict) Has(key Name) bool { _, ok := d.Get(key); return ok }

// Set replaces the value of key or appends a new entry.
func (d *Dict) Set(key Name, val Object) {
	for i := range *d {
		if (*d)[i].Key == key {
			(*d)[i].Val = val
			return
		}
	}
	*d = append(*d, Entry{key, val})
}

// Del removes key if present.
func (d *Dict) Del(key Name) {
	for i := range *d {
		if (*d)[i].Key == key {
			*d = append((*d)[:i:i], (*d)[i+1:]...)
			return
		}
	}
}

// Clone returns a deep copy of d.
func (d Dict) Clone() Dict { return CloneObject(d).(Dict) }

// With returns a copy of d (shallow) with key set to val.
func (d Dict) With(key Name, val Object) Dict {
	c := make(Dict, len(d), len(d)+1)
	copy(c, d)
	c.Set(key, val)
	return c
}

// CloneObject returns a deep copy of o.
func CloneObject(o Object) Object {
	switch x := o.(type) {
	case String:
		return String(append([]byte(nil), x...))
	case HexString:
		return HexString(append([]byte(nil), x...))
	case Raw:
		return Raw(append([]byte(nil), x...))
	case Array:
		c := make(Array, len(x))
		for i, e := range x {
			c[i] = CloneObject(e)
		}
		return c
	case Dict:
		c := make(Dict, len(x))
		for i, e := range x {
			c[i] = Entry{e.Key, CloneObject(e.Val)}
		}
		return c
	case *Stream:
		s := *x
		s.Dict = CloneObject(x.Dict).(Dict)
		s.Data = append([]byte(nil), x.Data...)
		s.Filters = append([]FilterSpec(nil), x.Filters...)
		return &s
	}
	return o
}

// Rect returns the array [llx lly urx ury].
func Rect(llx, lly, urx, ury float64) Array {
	return Array{num(llx), num(lly), num(urx), num(ury)}
}

func num(f float64) Object {
	if f == math.Trunc(f) && math.Abs(f) < 1e15 {
		return Int(int64(f))
	}
	return Real(f)
}

// ---------------------------------------------------------------------------
// Serialisation

// strXform, when non-nil, is applied to the bytes of every String/HexString
// before escaping (encryption hook).
type serCtx struct {
	strXform func(b []byte) []byte
	// eol != "": entries of the outermost dictionary go on separate lines.
	eol   string
	depth int
}

// Serialize returns the PDF syntax of o (streams are not accepted here; they
// are handled by the writer).
func Serialize(o Object) []byte {
	var b bytes.Buffer
	writeObject(&b, o, &serCtx{})
	return b.Bytes()
}

func isDelimOrWhite(c byte) bool {
	switch c {
	case 0, '\t', '\n', '\f', '\r', ' ', '(', ')', '<', '>', '[', ']', '{', '}', '/', '%':
		return true
	}
	return false
}

// EscapeName returns the name token including the leading slash.
func EscapeName(n Name) []byte {
	out := make([]byte, 0, len(n)+1)
	out = append(out, '/')
	const hex = "0123456789ABCDEF"
	for i := 0; i < len(n); i++ {
		c := n[i]
		if c < 0x21 || c > 0x7e || c == '#' || isDelimOrWhite(c) {
			out = append(out, '#', hex[c>>4], hex[c&15])
		} else {
			out = append(out, c)
		}
	}
	return out
}

// EscapeLiteral returns the literal-string token "( ... )" for b. Every
// byte that could be misread is escaped: backslash, both parentheses (so no
// balancing is relied upon), CR and LF (so EOL normalisation cannot alter the
// value); other control bytes and high bytes are written as 3-digit octal.
func EscapeLiteral(b []byte) []byte {
	out := make([]byte, 0, len(b)+2)
	out = append(out, '(')
	for _, c := range b {
		switch c {
		case '\\', '(', ')':
			out = append(out, '\\', c)
		case '\n':
			out = append(out, '\\', 'n')
		case '\r':
			out = append(out, '\\', 'r')
		case '\t':
			out = append(out, '\\', 't')
		case '\b':
			out = append(out, '\\', 'b')
		case '\f':
			out = append(out, '\\', 'f')
		default:
			if c < 0x20 || c >= 0x7f {
				out = append(out, '\\', '0'+(c>>6), '0'+((c>>3)&7), '0'+(c&7))
			} else {
				out = append(out, c)
			}
		}
	}
	return append(out, ')')
}

// EscapeHex returns the hex-string token "<...>".
func EscapeHex(b []byte) []byte {
	const hex = "0123456789ABCDEF"
	out := make([]byte, 0, 2*len(b)+2)
	out = append(out, '<')
	for _, c := range b {
		out = append(out, hex[c>>4], hex[c&15])
	}
	return append(out, '>')
}

// FormatReal writes f in fixed notation with up to 6 fractional digits.
func FormatReal(f float64) string {
	if math.IsNaN(f) || math.IsInf(f, 0) {
		return "0"
	}
	s := strconv.FormatFloat(f, 'f', 6, 64)
	// trim trailing zeros but keep one digit after the point so that the token
	// stays a real ("1.0"), which keeps Int/Real distinguishable on re-read.
	i := len(s)
	for i > 0 && s[i-1] == '0' {
		i--
	}
	if i > 0 && s[i-1] == '.' {
		i++
	}
	if i > len(s) {
		i = len(s)
	}
	s = s[:i]
	if s == "-0.0" {
		s = "0.0"
	}
	return s
}

func writeObject(b *bytes.Buffer, o Object, c *serCtx) {
	switch x := o.(type) {
	case nil:
		b.WriteString("null")
	case Null:
		b.WriteString("null")
	case Bool:
		if x {
			b.WriteString("true")
		} else {
			b.WriteString("false")
		}
	case Int:
		b.WriteString(strconv.FormatInt(int64(x), 10))
	case Real:
		b.WriteString(FormatReal(float64(x)))
	case Name:
		b.Write(EscapeName(x))
	case String:
		v := []byte(x)
		if c.strXform != nil {
			v = c.strXform(v)
		}
		b.Write(EscapeLiteral(v))
	case HexString:
		v := []byte(x)
		if c.strXform != nil {
			v = c.strXform(v)
		}
		b.Write(EscapeHex(v))
	case Raw:
		b.Write(x)
	case Ref:
		b.WriteString(strconv.Itoa(x.Num))
		b.WriteByte(' ')
		b.WriteString(strconv.Itoa(x.Gen))
		b.WriteString(" R")
	case Array:
		c.depth++
		defer func() { c.depth-- }()
		b.WriteByte('[')
		for i, e := range x {
			if i > 0 {
				b.WriteByte(' ')
			}
			writeObject(b, e, c)
		}
		b.WriteByte(']')
	case Dict:
		writeDict(b, x, c)
	case *Stream:
		panic("pdfgen: stream inside a direct object")
	default:
		panic("pdfgen: unknown object type")
	}
}

func writeDict(b *bytes.Buffer, d Dict, c *serCtx) {
	// The /Contents value of a signature dictionary (recognised by
	// /ByteRange) is never encrypted (ISO 32000-1 7.6.1).
	isSig := d.Has("ByteRange") && d.Has("Contents")
	multi := c.eol != "" && c.depth == 0
	c.depth++
	defer func() { c.depth-- }()
	b.WriteString("<<")
	for _, e := range d {
		if multi {
			b.WriteString(c.eol)
		}
		b.Write(EscapeName(e.Key))
		// a separator is only needed before tokens that do not start with a
		// delimiter; always writing one is simplest and always valid.
		b.WriteByte(' ')
		if isSig && e.Key == "Contents" && c.strXform != nil {
			plain := *c
			plain.strXform = nil
			writeObject(b, e.Val, &plain)
			continue
		}
		writeObject(b, e.Val, c)
	}
	if multi {
		b.WriteString(c.eol)
	}
	b.WriteString(">>")
}
