package pdfgen

import (
	"bytes"
	"fmt"
	"math/rand/v2"
	"sort"
)

// Built is a generated document with its ground truth.
type Built struct {
	Bytes  []byte
	Truth  *Truth
	Doc    *Doc    // the object graph the bytes were written from
	Layout *Layout // where the writer put things
	Spec   DocSpec
}

// Build generates the document described by spec. It panics on internal
// errors (generator bugs); a DocSpec cannot be "wrong".
func Build(spec DocSpec) *Built {
	doc, truth := BuildDoc(spec)
	spec.Write.Version = FitVersion(spec.Write, truth.MinVersion)
	out := MustWrite(doc, spec.Write)
	return &Built{Bytes: out.Bytes, Truth: truth, Doc: doc, Layout: out.Layout, Spec: spec}
}

// FitVersion returns the header version to use: opts.Version (default 1.7),
// raised to what the cross-reference format and the document features need.
func FitVersion(opts Options, minVersion string) string {
	v := opts.Version
	if v == "" {
		v = "1.7"
	}
	if opts.XRef != XRefTable && versionLess(v, "1.5") {
		v = "1.5"
	}
	if minVersion != "" && versionLess(v, minVersion) {
		v = minVersion
	}
	return v
}

// Rewrite writes b.Doc again with other writer options (same objects, same
// truth, different file structure).
func (b *Built) Rewrite(opts Options) (*Built, error) {
	opts.Version = FitVersion(opts, b.Truth.MinVersion)
	out, err := Write(b.Doc, opts)
	if err != nil {
		return nil, err
	}
	c := *b
	c.Bytes, c.Layout = out.Bytes, out.Layout
	c.Spec.Write = opts
	return &c, nil
}

// BuildDoc generates the object graph and its truth without serialising.
func BuildDoc(spec DocSpec) (*Doc, *Truth) {
	if spec.Pages < 1 {
		spec.Pages = 1
	}
	b := &builder{
		spec:  spec,
		rng:   rand.New(rand.NewPCG(spec.Seed, 0x5eed)),
		doc:   NewDoc(),
		truth: &Truth{Info: map[string]string{}, ViewerPrefs: map[string]string{}},
	}
	b.build()
	b.truth.MinVersion = b.minVersion
	return b.doc, b.truth
}

type builder struct {
	spec  DocSpec
	rng   *rand.Rand
	doc   *Doc
	truth *Truth

	catalog   Dict
	catRef    Ref
	pages     []*ptNode // page nodes in page order
	root      *ptNode
	baseFonts map[string]Ref // shared (non-duplicated) font objects
	fontDescs map[string]Ref
	baseImage Ref
	baseForm  Ref
	acroForm  Dict
	helv      Ref

	minVersion string
	freed      []int        // numbers freed by updates and not yet reused
	reused     map[int]bool // numbers that went through a free/reuse cycle
}

func (b *builder) coin() bool          { return b.rng.IntN(2) == 0 }
func (b *builder) chance(pct int) bool { return b.rng.IntN(100) < pct }
func (b *builder) secret(kind string, obj int) string {
	m := SecretPrefix + hexMarker(b.rng)
	b.truth.Secrets = append(b.truth.Secrets, Secret{Marker: m, Kind: kind, ObjNum: obj})
	return m
}

func (b *builder) build() {
	b.catRef = b.doc.Alloc()
	b.truth.Objs.Catalog = b.catRef.Num
	b.needVersion("1.3") // nothing older is generated
	b.catalog = D("Type", Name("Catalog"))
	b.doc.SetRoot(b.catRef)
	b.doc.ID[0] = b.randBytes(16)
	b.doc.ID[1] = b.randBytes(16)

	b.buildPageTree()
	b.buildPages()
	b.catalog.Set("Pages", b.root.ref)

	if b.spec.Outlines > 0 {
		b.buildOutlines()
	}
	b.buildNames()
	if b.spec.Annotations {
		b.buildAnnotations()
	}
	if b.spec.Form || b.spec.Signatures > 0 || b.spec.Secrets {
		b.buildForm()
	}
	b.finishPages()
	if b.spec.Info || b.spec.Secrets || b.spec.InfoKeywords != nil {
		b.buildInfo()
	}
	if b.spec.XMP || b.spec.Secrets {
		b.buildXMP()
	}
	if b.spec.ViewerPrefs {
		b.buildViewerPrefs()
	}
	if b.spec.OCProperties > 0 {
		b.buildOCProperties()
	}
	if b.spec.PageLabels > 0 {
		b.buildPageLabels()
	}
	if b.spec.Secrets {
		b.buildNestedSecrets()
	}
	if b.spec.Unreferenced {
		b.buildGarbage()
	}
	b.doc.Put(b.catRef, b.catalog)
	for i := 0; i < b.spec.Updates; i++ {
		b.buildUpdate(i)
	}
}

func (b *builder) randBytes(n int) []byte {
	out := make([]byte, n)
	for i := range out {
		out[i] = byte(b.rng.UintN(256))
	}
	return out
}

// ---------------------------------------------------------------------------
// streams and filter pipelines

type streamClass int

const (
	classContent streamClass = iota // may be padded with white space
	classBinary                     // exact bytes
)

func divisors(n int) []int {
	var out []int
	for i := 1; i*i <= n; i++ {
		if n%i == 0 {
			out = append(out, i)
			if i != n/i {
				out = append(out, n/i)
			}
		}
	}
	sort.Ints(out)
	return out
}

// predictorFor draws predictor parameters whose row size is exactly rowBytes.
func (b *builder) predictorFor(f *FilterSpec, rowBytes int, full bool) {
	bpcs := []int{8}
	if f.Predictor >= 10 || full {
		bpcs = []int{8, 8, 16, 4, 2, 1}
	}
	for try := 0; try < 8; try++ {
		bpc := bpcs[b.rng.IntN(len(bpcs))]
		colors := 1 + b.rng.IntN(4)
		// components*bpc bits must round up to rowBytes bytes
		maxBits := rowBytes * 8
		minBits := maxBits - 7
		comps := maxBits / bpc // largest component count that fits
		if comps*bpc < minBits || comps < colors || comps%colors != 0 {
			continue
		}
		f.BPC, f.Colors, f.Columns = bpc, colors, comps/colors
		return
	}
	f.BPC, f.Colors, f.Columns = 0, 0, rowBytes
	if b.coin() {
		f.BPC, f.Colors = 8, 1
	}
}

func (b *builder) randomStage(full bool) FilterSpec {
	switch b.rng.IntN(10) {
	case 0, 1:
		return FilterSpec{Kind: Flate, Level: []int{0, 1, 9, -1, -2}[b.rng.IntN(5)]}
	case 2, 3:
		f := FilterSpec{Kind: Flate, Predictor: 10 + b.rng.IntN(6)}
		if b.coin() {
			f.RowSeed = 1 + b.rng.Uint64N(1<<62)
		}
		return f
	case 4:
		return FilterSpec{Kind: Flate, Predictor: 2}
	case 5:
		f := FilterSpec{Kind: LZW, LateChange: b.coin(), ExplicitParms: b.chance(20)}
		if full && b.coin() {
			f.Predictor = []int{2, 10, 11, 12, 13, 14, 15}[b.rng.IntN(7)]
		}
		return f
	case 6:
		return FilterSpec{Kind: RunLength}
	case 7:
		return FilterSpec{Kind: ASCII85, LineLen: []int{0, 0, 72, 5}[b.rng.IntN(4)]}
	case 8:
		return FilterSpec{Kind: ASCIIHex, LineLen: []int{0, 0, 64, 3}[b.rng.IntN(4)], Lower: b.coin()}
	}
	return FilterSpec{Kind: Flate, ExplicitParms: b.chance(30)}
}

// pipeline draws a filter pipeline for data. For classContent the data may
// come back padded with line feeds (to a multiple of a predictor row).
func (b *builder) pipeline(data []byte, class streamClass) ([]byte, []FilterSpec) {
	switch b.spec.Filters {
	case FiltersNone:
		return data, nil
	case FiltersFlate:
		return data, []FilterSpec{{Kind: Flate}}
	}
	full := b.spec.Filters == FiltersFull
	n := []int{0, 1, 1, 1, 1, 1, 2, 2, 2, 3}[b.rng.IntN(10)]
	fs := make([]FilterSpec, n)
	cur := data
	for i := n - 1; i >= 0; i-- {
		f := b.randomStage(full)
		if f.hasPredictor() {
			switch {
			case i == n-1 && class == classContent:
				row := 1 + b.rng.IntN(48)
				if pad := (row - len(data)%row) % row; pad > 0 {
					data = append(append([]byte(nil), data...), bytes.Repeat([]byte{'\n'}, pad)...)
					cur = data
				}
				b.predictorFor(&f, row, full)
			case len(cur) > 0:
				ds := divisors(len(cur))
				// prefer moderate row sizes, but any divisor is legal
				row := ds[b.rng.IntN(len(ds))]
				b.predictorFor(&f, row, full)
			default:
				b.predictorFor(&f, 1+b.rng.IntN(8), full)
			}
		}
		enc, err := EncodeStage(cur, f)
		if err != nil {
			panic(fmt.Sprintf("pdfgen: pipeline: %v (%+v)", err, f))
		}
		cur = enc
		fs[i] = f
	}
	return data, fs
}

func (b *builder) stream(dict Dict, data []byte, class streamClass) *Stream {
	data, fs := b.pipeline(data, class)
	s := &Stream{Dict: dict, Data: data, Filters: fs}
	if b.spec.IndirectLengths && b.chance(40) {
		s.IndirectLength = true
	}
	return s
}

// ---------------------------------------------------------------------------
// page tree

type ptNode struct {
	ref       Ref
	parent    *ptNode
	kids      []*ptNode
	isPage    bool
	pageIndex int
	count     int

	mediaBox  *[4]float64
	cropBox   *[4]float64
	rotate    *int
	resources Object // Dict or Ref, nil: none
	dict      Dict   // page: extra entries gathered while building
	annots    Array
}

func (b *builder) buildPageTree() {
	maxFan := b.spec.MaxFanout
	if maxFan <= 0 || maxFan > 6 {
		maxFan = 6
	}
	maxDepth := b.spec.MaxDepth
	if maxDepth <= 0 || maxDepth > 4 {
		maxDepth = 1 + b.rng.IntN(4)
	}
	var gen func(parent *ptNode, n, depth int) *ptNode
	gen = func(parent *ptNode, n, depth int) *ptNode {
		node := &ptNode{ref: b.doc.Alloc(), parent: parent, count: n}
		b.truth.Objs.PageNodes = append(b.truth.Objs.PageNodes, node.ref.Num)
		if depth <= 1 || n == 1 {
			for i := 0; i < n; i++ {
				b.newPage(node)
			}
			return node
		}
		k := 1 + b.rng.IntN(min(maxFan, n))
		// split n into k positive parts
		parts := make([]int, k)
		for i := range parts {
			parts[i] = 1
		}
		for i := 0; i < n-k; i++ {
			parts[b.rng.IntN(k)]++
		}
		for _, p := range parts {
			if p == 1 && b.coin() {
				b.newPage(node)
				continue
			}
			node.kids = append(node.kids, gen(node, p, depth-1))
		}
		return node
	}
	b.root = gen(nil, b.spec.Pages, maxDepth)
	b.truth.Objs.PagesRoot = b.root.ref.Num
}

func (b *builder) newPage(parent *ptNode) {
	p := &ptNode{ref: b.doc.Alloc(), parent: parent, isPage: true, pageIndex: len(b.pages), count: 1}
	parent.kids = append(parent.kids, p)
	b.pages = append(b.pages, p)
	b.truth.Objs.PageObjs = append(b.truth.Objs.PageObjs, p.ref.Num)
}

func isAncestor(a, n *ptNode) bool {
	for p := n.parent; p != nil; p = p.parent {
		if p == a {
			return true
		}
	}
	return false
}

func ancestors(n *ptNode) []*ptNode {
	var out []*ptNode
	for p := n.parent; p != nil; p = p.parent {
		out = append(out, p)
	}
	return out
}

// assignAttributes decides which node carries which inheritable attribute.
func (b *builder) assignAttributes() {
	sp := b.spec
	// MediaBox: unique per page; a node's box is inherited by exactly one page.
	hoisted := map[*ptNode]*ptNode{}
	for i, p := range b.pages {
		box := [4]float64{0, 0, float64(500 + i), 800}
		if b.chance(15) {
			box[3] = 800.5 // exercise reals
		}
		p.mediaBox = &box
		if !sp.Inherit || !b.chance(35) {
			continue
		}
		anc := ancestors(p)
		a := anc[b.rng.IntN(len(anc))]
		ok := a.mediaBox == nil
		for _, m := range anc {
			if m == a {
				break
			}
			if m.mediaBox != nil {
				ok = false
			}
		}
		for q, src := range hoisted {
			if isAncestor(a, q) && isAncestor(src, a) {
				ok = false
			}
		}
		if ok {
			a.mediaBox, p.mediaBox = p.mediaBox, nil
			hoisted[p] = a
		}
	}
	var walk func(n *ptNode)
	walk = func(n *ptNode) {
		if !n.isPage {
			if sp.Inherit && sp.Rotate && b.chance(30) {
				r := 90 * b.rng.IntN(4)
				n.rotate = &r
			}
			if sp.Inherit && sp.CropBox && b.chance(30) {
				n.cropBox = b.randomCropBox()
			}
			for _, k := range n.kids {
				walk(k)
			}
			return
		}
		if sp.Rotate && b.chance(50) {
			r := 90 * b.rng.IntN(4)
			n.rotate = &r
		}
		if sp.CropBox && b.chance(40) {
			n.cropBox = b.randomCropBox()
		}
	}
	walk(b.root)
}

func (b *builder) randomCropBox() *[4]float64 {
	return &[4]float64{float64(5 + b.rng.IntN(40)), float64(5 + b.rng.IntN(40)),
		float64(300 + b.rng.IntN(190)), float64(500 + b.rng.IntN(290))}
}

// ---------------------------------------------------------------------------
// fonts, XObjects, resources

var baseFontNames = []string{"Helvetica", "Courier", "Times-Roman"}

func stdWidths(base string) Array {
	w := 556
	switch base {
	case "Courier":
		w = 600
	case "Times-Roman":
		w = 500
	}
	a := make(Array, 95)
	for i := range a {
		a[i] = Int(w)
	}
	a[0] = Int(w / 2) // space
	return a
}

func (b *builder) fontDescriptor(base string) Dict {
	flags := 32
	if base == "Courier" {
		flags = 33
	}
	return D("Type", Name("FontDescriptor"), "FontName", Name(base), "Flags", Int(flags),
		"FontBBox", A(-166, -225, 1000, 931), "ItalicAngle", Int(0), "Ascent", Int(718),
		"Descent", Int(-207), "CapHeight", Int(718), "StemV", Int(88))
}

func (b *builder) fontDict(base string, desc Ref) Dict {
	return D("Type", Name("Font"), "Subtype", Name("Type1"), "BaseFont", Name(base),
		"Encoding", Name("WinAnsiEncoding"), "FirstChar", Int(32), "LastChar", Int(126),
		"Widths", stdWidths(base), "FontDescriptor", desc)
}

// font returns a font object for base: the shared one, or (Duplicates) a fresh
// exact copy or near-copy.
func (b *builder) font(base string) Ref {
	if b.baseFonts == nil {
		b.baseFonts = map[string]Ref{}
		b.fontDescs = map[string]Ref{}
	}
	shared, have := b.baseFonts[base]
	if !have {
		desc := b.doc.Add(b.fontDescriptor(base))
		b.fontDescs[base] = desc
		shared = b.doc.Add(b.fontDict(base, desc))
		b.baseFonts[base] = shared
		b.truth.Objs.Fonts = append(b.truth.Objs.Fonts, shared.Num)
		return shared
	}
	if !b.spec.Duplicates || b.chance(40) {
		return shared
	}
	d := b.fontDict(base, b.fontDescs[base])
	switch b.rng.IntN(4) {
	case 0: // near duplicate: one width differs
		w, _ := d.Get("Widths")
		wa := CloneObject(w).(Array)
		wa[1+b.rng.IntN(len(wa)-1)] = Int(777)
		d.Set("Widths", wa)
		r := b.doc.Add(d)
		b.truth.NearDuplicates = append(b.truth.NearDuplicates, [2]int{shared.Num, r.Num})
		b.truth.Objs.Fonts = append(b.truth.Objs.Fonts, r.Num)
		return r
	case 1: // near duplicate: other encoding
		d.Set("Encoding", Name("MacRomanEncoding"))
		r := b.doc.Add(d)
		b.truth.NearDuplicates = append(b.truth.NearDuplicates, [2]int{shared.Num, r.Num})
		b.truth.Objs.Fonts = append(b.truth.Objs.Fonts, r.Num)
		return r
	}
	// exact duplicate (with its own identical descriptor half of the time)
	if b.coin() {
		dr := b.doc.Add(b.fontDescriptor(base))
		b.addDup(b.fontDescs[base].Num, dr.Num)
		d.Set("FontDescriptor", dr)
	}
	r := b.doc.Add(d)
	if v, _ := d.Get("FontDescriptor"); v == Object(b.fontDescs[base]) {
		b.addDup(shared.Num, r.Num)
	}
	b.truth.Objs.Fonts = append(b.truth.Objs.Fonts, r.Num)
	return r
}

func (b *builder) addDup(orig, copy int) {
	for i, g := range b.truth.Duplicates {
		if g[0] == orig {
			b.truth.Duplicates[i] = append(g, copy)
			return
		}
	}
	b.truth.Duplicates = append(b.truth.Duplicates, []int{orig, copy})
}

var imageRGB = []byte{255, 0, 0, 0, 255, 0, 0, 0, 255, 255, 255, 0}

func (b *builder) imageDict(cs string, w, h int) Dict {
	return D("Type", Name("XObject"), "Subtype", Name("Image"), "Width", Int(w), "Height", Int(h),
		"ColorSpace", Name(cs), "BitsPerComponent", Int(8))
}

// image returns an image XObject: the shared 2x2 RGB one or a (near) duplicate.
func (b *builder) image() Ref {
	if b.baseImage.Num == 0 {
		b.baseImage = b.doc.Add(b.stream(b.imageDict("DeviceRGB", 2, 2), imageRGB, classBinary))
		b.truth.Objs.Images = append(b.truth.Objs.Images, b.baseImage.Num)
		return b.baseImage
	}
	if !b.spec.Duplicates || b.chance(40) {
		return b.baseImage
	}
	base := b.doc.Get(b.baseImage.Num).(*Stream)
	var r Ref
	switch b.rng.IntN(3) {
	case 0: // same data, other colour space and geometry
		r = b.doc.Add(&Stream{Dict: b.imageDict("DeviceGray", 4, 3), Data: imageRGB, Filters: base.Filters})
		b.truth.NearDuplicates = append(b.truth.NearDuplicates, [2]int{b.baseImage.Num, r.Num})
	case 1: // one differing byte, same length and filter
		data := append([]byte(nil), imageRGB...)
		data[len(data)-1] ^= 1
		r = b.doc.Add(&Stream{Dict: b.imageDict("DeviceRGB", 2, 2), Data: data, Filters: base.Filters})
		b.truth.NearDuplicates = append(b.truth.NearDuplicates, [2]int{b.baseImage.Num, r.Num})
	default:
		r = b.doc.Add(CloneObject(base))
		b.addDup(b.baseImage.Num, r.Num)
	}
	b.truth.Objs.Images = append(b.truth.Objs.Images, r.Num)
	return r
}

func (b *builder) form() Ref {
	if b.baseForm.Num != 0 && (!b.spec.Duplicates || b.chance(50)) {
		return b.baseForm
	}
	content := []byte("0 0 1 rg\n0 0 50 50 re\nf\n")
	num := b.doc.Alloc()
	if b.spec.Secrets && b.baseForm.Num == 0 {
		m := b.secret(SecretFormXObject, num.Num)
		content = append(content, []byte("BT\n/F1 8 Tf\n2 2 Td\n("+m+") Tj\nET\n")...)
	}
	d := D("Type", Name("XObject"), "Subtype", Name("Form"), "BBox", A(0, 0, 100, 100),
		"Resources", D("ProcSet", Array{Name("PDF"), Name("Text")}, "Font", D("F1", b.font("Helvetica"))))
	if b.baseForm.Num != 0 {
		// duplicate of the base form: identical decoded content and dictionary
		base := b.doc.Get(b.baseForm.Num).(*Stream)
		b.doc.Put(num, CloneObject(base))
		b.addDup(b.baseForm.Num, num.Num)
	} else {
		b.doc.Put(num, b.stream(d, content, classContent))
		b.baseForm = num
	}
	b.truth.Objs.Forms = append(b.truth.Objs.Forms, num.Num)
	return num
}

// newResources builds a resource dictionary offering F1..F3 and (XObjects)
// Im1 and Fm1, so that any page content works with any resource dictionary.
func (b *builder) newResources() Dict {
	fonts := Dict{}
	for i, base := range baseFontNames {
		fonts.Set(Name(fmt.Sprintf("F%d", i+1)), b.font(base))
	}
	procset := Array{Name("PDF"), Name("Text")}
	r := D("Font", fonts)
	if b.spec.XObjects {
		r.Set("XObject", D("Im1", b.image(), "Fm1", b.form()))
		procset = append(procset, Name("ImageC"))
	}
	r.Set("ProcSet", procset)
	return r
}

func (b *builder) assignResources() {
	sp := b.spec
	var shared []Ref
	if sp.SharedResources {
		for i := 0; i < 1+b.rng.IntN(3); i++ {
			r := b.doc.Add(b.newResources())
			b.truth.Objs.ResourceDicts = append(b.truth.Objs.ResourceDicts, r.Num)
			shared = append(shared, r)
		}
	}
	pick := func() Object {
		if len(shared) > 0 && b.chance(60) {
			return shared[b.rng.IntN(len(shared))]
		}
		if b.chance(30) {
			r := b.doc.Add(b.newResources())
			b.truth.Objs.ResourceDicts = append(b.truth.Objs.ResourceDicts, r.Num)
			return r
		}
		return b.newResources()
	}
	var walk func(n *ptNode, have bool)
	walk = func(n *ptNode, have bool) {
		if n.isPage {
			if !have || b.chance(50) {
				n.resources = pick()
			}
			return
		}
		if sp.Inherit && b.chance(35) {
			n.resources = pick()
			have = true
		}
		for _, k := range n.kids {
			walk(k, have)
		}
	}
	walk(b.root, false)
}

// ---------------------------------------------------------------------------
// pages

func (b *builder) buildPages() {
	b.assignAttributes()
	b.assignResources()
	for i, p := range b.pages {
		pt := PageTruth{Index: i, ObjNum: p.ref.Num, Marker: PageMarkerPrefix + hexMarker(b.rng)}
		// effective attributes
		pt.MediaBoxFrom, pt.CropBoxFrom, pt.RotateFrom, pt.ResourcesFrom = -1, -1, -1, -1
		for n := p; n != nil; n = n.parent {
			from := n.ref.Num
			if n == p {
				from = 0
			}
			if n.mediaBox != nil && pt.MediaBoxFrom < 0 {
				pt.MediaBox, pt.MediaBoxFrom = *n.mediaBox, from
			}
			if n.cropBox != nil && pt.CropBoxFrom < 0 {
				c := *n.cropBox
				pt.CropBox, pt.CropBoxFrom = &c, from
			}
			if n.rotate != nil && pt.RotateFrom < 0 {
				pt.Rotate, pt.RotateFrom = *n.rotate, from
			}
			if n.resources != nil && pt.ResourcesFrom < 0 {
				pt.ResourcesFrom = from
				if r, ok := n.resources.(Ref); ok {
					pt.ResourcesObj = r.Num
				}
			}
		}
		if pt.MediaBoxFrom < 0 || pt.ResourcesFrom < 0 {
			panic("pdfgen: page without MediaBox or Resources")
		}
		b.pageContent(p, &pt)
		b.truth.Pages = append(b.truth.Pages, pt)
	}
}

func (b *builder) pageContent(p *ptNode, pt *PageTruth) {
	fontIdx := 1 + b.rng.IntN(3)
	fname := fmt.Sprintf("F%d", fontIdx)
	pt.Fonts = []string{fname}
	var p1, p2, p3 bytes.Buffer
	p1.WriteString("q\n")
	fmt.Fprintf(&p1, "BT\n/%s %d Tf\n72 %d Td\n(%s) Tj\nET\n", fname, 10+b.rng.IntN(8), 600+b.rng.IntN(150), pt.Marker)
	if b.spec.Secrets && (pt.Index == 0 || b.chance(20)) {
		m := b.secret(SecretContent, 0)
		fmt.Fprintf(&p1, "BT\n/%s 9 Tf\n72 60 Td\n(%s) Tj\nET\n", fname, m)
	}
	fmt.Fprintf(&p2, "%s g\n%d %d 40 30 re\nf\n", FormatReal(float64(b.rng.IntN(10))/10), 50+b.rng.IntN(300), 100+b.rng.IntN(300))
	if b.spec.XObjects {
		if b.chance(60) {
			fmt.Fprintf(&p2, "q\n40 0 0 40 %d %d cm\n/Im1 Do\nQ\n", 50+b.rng.IntN(300), 400+b.rng.IntN(100))
			pt.XObjects = append(pt.XObjects, "Im1")
		}
		if b.chance(60) {
			fmt.Fprintf(&p2, "q\n1 0 0 1 %d %d cm\n/Fm1 Do\nQ\n", 50+b.rng.IntN(300), 300+b.rng.IntN(100))
			pt.XObjects = append(pt.XObjects, "Fm1")
		}
	}
	p3.WriteString("Q\n")

	var parts [][]byte
	switch {
	case b.spec.MultiContent && b.chance(50):
		if b.coin() {
			parts = [][]byte{p1.Bytes(), p2.Bytes(), p3.Bytes()}
		} else {
			parts = [][]byte{p1.Bytes(), append(p2.Bytes(), p3.Bytes()...)}
		}
	default:
		parts = [][]byte{bytes.Join([][]byte{p1.Bytes(), p2.Bytes(), p3.Bytes()}, nil)}
	}
	var refs Array
	for _, part := range parts {
		s := b.stream(Dict{}, part, classContent)
		r := b.doc.Add(s)
		refs = append(refs, r)
		pt.Contents = append(pt.Contents, s.Data)
		pt.ContentObj = append(pt.ContentObj, r.Num)
	}
	// secrets planted in content: attribute them to the stream that holds them
	for i := range b.truth.Secrets {
		s := &b.truth.Secrets[i]
		if s.Kind == SecretContent && s.ObjNum == 0 {
			s.ObjNum = pt.ContentObj[0]
		}
	}
	if len(refs) == 1 && !(b.spec.MultiContent && b.chance(20)) {
		p.dict.Set("Contents", refs[0])
	} else {
		p.dict.Set("Contents", refs)
	}
}

// finishPages writes page tree nodes and page objects.
func (b *builder) finishPages() {
	var walk func(n *ptNode)
	walk = func(n *ptNode) {
		var d Dict
		if n.isPage {
			d = D("Type", Name("Page"), "Parent", n.parent.ref)
		} else {
			d = D("Type", Name("Pages"))
			if n.parent != nil {
				d.Set("Parent", n.parent.ref)
			}
			kids := make(Array, len(n.kids))
			for i, k := range n.kids {
				kids[i] = k.ref
			}
			d.Set("Kids", kids)
			d.Set("Count", Int(n.count))
		}
		if n.mediaBox != nil {
			d.Set("MediaBox", Rect(n.mediaBox[0], n.mediaBox[1], n.mediaBox[2], n.mediaBox[3]))
		}
		if n.cropBox != nil {
			d.Set("CropBox", Rect(n.cropBox[0], n.cropBox[1], n.cropBox[2], n.cropBox[3]))
		}
		if n.rotate != nil {
			d.Set("Rotate", Int(*n.rotate))
		}
		if n.resources != nil {
			d.Set("Resources", n.resources)
		}
		for _, e := range n.dict {
			d.Set(e.Key, e.Val)
		}
		if len(n.annots) > 0 {
			if b.chance(30) {
				d.Set("Annots", b.doc.Add(n.annots))
			} else {
				d.Set("Annots", n.annots)
			}
		}
		b.doc.Put(n.ref, d)
		for _, k := range n.kids {
			walk(k)
		}
	}
	walk(b.root)
}
