package pdfgen_test

import (
	"math/rand/v2"
	"testing"

	"verif/harness/internal/docfp"
	"verif/harness/internal/pdfgen"
	"verif/harness/internal/pdfstrict"
)

// A renumbered document is the same document: the independent reader accepts it without defect (a
// classic table with gaps aside) and its graph has the same strict canonical text as the dense one.
func TestSparseNumberingKeepsTheDocument(t *testing.T) {
	n := 40
	if testing.Short() {
		n = 10
	}
	kinds := pdfgen.NumberingKinds()
	seenMax, seenGen, seenFree := 0, 0, 0
	for i := 0; i < n; i++ {
		for _, k := range kinds {
			rng := rand.New(rand.NewPCG(uint64(i), uint64(k)))
			spec := pdfgen.RandomSpec(rng, 6)
			spec.Signatures = 0
			dense := pdfgen.Build(spec)
			sp, plan, err := pdfgen.BuildSparse(spec, rng, k)
			if err != nil {
				t.Fatalf("doc %d %s: %v", i, k, err)
			}
			open := func(b []byte, what string) (*pdfstrict.Doc, string) {
				d, err := pdfstrict.Open(b, pdfstrict.Options{})
				if err != nil {
					t.Fatalf("doc %d %s %s: %v", i, k, what, err)
				}
				for _, df := range d.Defects {
					if df.Kind != pdfstrict.KindXRefOriginalSubsect {
						t.Fatalf("doc %d %s %s (xref=%v objstm=%v gaps=%v updates=%d): %s", i, k, what, sp.Spec.Write.XRef, sp.Spec.Write.ObjStm, sp.Spec.Write.HolesAsGaps, spec.Updates, df.String())
					}
				}
				g := docfp.New(d, docfp.Rules{})
				return d, g.Strict(g.Top())
			}
			_, a := open(dense.Bytes, "dense")
			d, b := open(sp.Bytes, "sparse")
			if a != b {
				t.Fatalf("doc %d %s: graph changed by renumbering", i, k)
			}
			max := 0
			for _, nr := range d.Objects() {
				if nr > max {
					max = nr
				}
				if e, _ := d.Entry(nr); e.Gen > 0 && e.Type == pdfstrict.InUse {
					seenGen++
				}
			}
			if max > seenMax {
				seenMax = max
			}
			seenFree += len(plan.ExtraFree)
			if pg, err := d.Pages(); err != nil || len(pg) != len(sp.Truth.Pages) {
				t.Fatalf("doc %d %s: pages %d, truth %d (%v)", i, k, len(pg), len(sp.Truth.Pages), err)
			}
			for pi, p := range sp.Truth.Pages {
				if _, ok := d.Entry(p.ObjNum); !ok {
					t.Fatalf("doc %d %s: remapped truth page %d object %d has no entry", i, k, pi, p.ObjNum)
				}
			}
		}
	}
	if seenMax < 1<<24 || seenGen == 0 || seenFree == 0 {
		t.Fatalf("extremes not reached: max object %d, in-use generations>0 %d, extra free entries %d", seenMax, seenGen, seenFree)
	}
}
