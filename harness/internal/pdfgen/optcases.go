package pdfgen

// Documents for optimiser checks (C20, also used by C19): pages whose resources are exact
// duplicates, NEAR duplicates (equal in everything a careless comparison looks at, different in one
// detail that changes what the page shows), shared or inherited, listed but unused, unreferenced, or
// used only by the content of a form XObject. Built on layer 1; std only; a pure function of rng.

import (
	"fmt"
	"math/rand/v2"
	"sort"
)

// OptPage is the ground truth of one page of an OptBuilt document.
type OptPage struct {
	ObjNum   int
	Marker   string // unique text shown by the page
	Scenario string // scenario that produced the page
	Detail   string // parameters the scenario drew for this page (evidence only), may be empty
}

// OptBuilt is a document built by BuildOpt.
type OptBuilt struct {
	Bytes     []byte
	Doc       *Doc
	Pages     []OptPage
	Scenarios []string // scenarios included, sorted
	Write     Options
}

// OptScenarios lists every scenario BuildOpt can include.
var OptScenarios = []string{
	"font-exact-duplicate", "font-widths-differ", "font-encoding-differs", "font-fontfile-last-byte",
	"font-descriptor-flags", "font-tounicode-differs", "font-subset-tags", "font-null-entry-vs-value",
	"font-firstchar-differs",
	"image-exact-duplicate", "image-last-byte", "image-colorspace-differs", "image-decode-differs",
	"image-smask-differs", "image-width-height-swapped", "image-indirect-width", "image-null-entry-vs-value",
	"image-filter-parms-differ", "image-interpolate-differs",
	"form-exact-duplicate", "form-content-byte", "form-resources-differ", "form-matrix-differs",
	"form-legacy-no-resources", "form-nested-own-resources", "form-pieceinfo",
	"content-exact-duplicate", "content-same-raw-other-parms", "content-last-byte",
	"res-shared", "res-inherited", "res-unused", "res-unreferenced-objects", "res-name-escape",
	"res-inline-image-then-do", "res-properties-shading-gstate", "res-string-tricks", "res-colorspace-pattern",
	// optchains.go
	"form-chain-no-resources", "form-chain-diamond", "form-chain-each-level-uses",
	"form-chain-middle-own-resources", "form-chain-inherited-resources",
}

type optGroup struct {
	ref       Ref
	resources Object // inherited by the pages of the group (nil: none)
	mediaBox  *[4]float64
	rotate    *int
	pages     []optPageSpec
}

type optPageSpec struct {
	ref       Ref
	marker    string
	scenario  string
	content   [][]byte // one or several content streams (decoded)
	contents  Object   // if set: used verbatim as /Contents instead of content
	resources Object   // nil: inherited from the group
	extra     Dict
	detail    string
}

type optBuilder struct {
	rng    *rand.Rand
	doc    *Doc
	root   *optGroup
	groups []*optGroup
	nFont  int
	ocgs   []Ref
}

// BuildOpt builds a document from n scenarios drawn from OptScenarios (only: restrict the
// draw to these; empty = all). Writer options are drawn from rng.
func BuildOpt(rng *rand.Rand, n int, only ...string) *OptBuilt {
	b := &optBuilder{rng: rng, doc: NewDoc()}
	b.root = &optGroup{ref: b.doc.Alloc()}
	b.groups = []*optGroup{b.root}
	pool := only
	if len(pool) == 0 {
		pool = OptScenarios
	}
	if n < 1 {
		n = 1
	}
	chosen := map[string]bool{}
	var order []string
	for i := 0; i < n; i++ {
		s := pool[rng.IntN(len(pool))]
		if !chosen[s] {
			chosen[s] = true
			order = append(order, s)
		}
	}
	for _, s := range order {
		b.scenario(s)
	}
	return b.finish(order)
}

func (b *optBuilder) marker() string { return "VERIF-OPT-" + hexMarker(b.rng) }

func (b *optBuilder) randBytes(n int) []byte {
	out := make([]byte, n)
	for i := range out {
		out[i] = byte(b.rng.IntN(256))
	}
	return out
}

func (b *optBuilder) filters() []FilterSpec {
	switch b.rng.IntN(3) {
	case 0:
		return nil
	case 1:
		return []FilterSpec{{Kind: Flate}}
	}
	return []FilterSpec{{Kind: ASCIIHex}, {Kind: Flate}}
}

// textLine shows the marker with font resource name f.
func textLine(f, marker string, y int) string {
	return fmt.Sprintf("BT\n/%s 11 Tf\n72 %d Td\n(%s) Tj\nET\n", f, y, marker)
}

func doLine(name string, x, y int) string {
	return fmt.Sprintf("q\n40 0 0 40 %d %d cm\n/%s Do\nQ\n", x, y, name)
}

// addPage appends a page to group g (nil: the root group).
func (b *optBuilder) addPage(g *optGroup, scenario string, resources Object, content ...string) *optPageSpec {
	if g == nil {
		g = b.root
	}
	p := optPageSpec{ref: b.doc.Alloc(), marker: b.marker(), scenario: scenario, resources: resources}
	for _, c := range content {
		p.content = append(p.content, []byte(c))
	}
	g.pages = append(g.pages, p)
	return &g.pages[len(g.pages)-1]
}

// ---------------------------------------------------------------- fonts

type optFont struct {
	base       string
	widths     Array
	encoding   Object
	firstChar  int
	fontFile   []byte
	ffFilters  []FilterSpec
	flags      int
	toUnicode  []byte
	descriptor Ref // if set: shared descriptor instead of a fresh one
}

func (b *optBuilder) newFontSpec() optFont {
	b.nFont++
	w := make(Array, 95)
	for i := range w {
		w[i] = Int(400 + b.rng.IntN(300))
	}
	return optFont{base: fmt.Sprintf("VerifSans%d", b.nFont), widths: w, encoding: Name("WinAnsiEncoding"), firstChar: 32,
		fontFile: b.randBytes(300 + b.rng.IntN(400)), ffFilters: []FilterSpec{{Kind: Flate}}, flags: 32}
}

func (f optFont) clone() optFont {
	g := f
	g.widths = CloneObject(f.widths).(Array)
	g.fontFile = append([]byte(nil), f.fontFile...)
	if f.toUnicode != nil {
		g.toUnicode = append([]byte(nil), f.toUnicode...)
	}
	return g
}

// font writes a complete, separate object graph for f (font dictionary, descriptor, font file).
func (b *optBuilder) font(f optFont) Ref {
	desc := f.descriptor
	if desc.Num == 0 {
		ff := b.doc.Add(&Stream{Dict: D("Length1", Int(len(f.fontFile))), Data: f.fontFile, Filters: f.ffFilters})
		desc = b.doc.Add(D("Type", Name("FontDescriptor"), "FontName", Name(f.base), "Flags", Int(f.flags),
			"FontBBox", A(-100, -200, 1000, 900), "ItalicAngle", Int(0), "Ascent", Int(800), "Descent", Int(-200),
			"CapHeight", Int(700), "StemV", Int(80), "FontFile2", ff))
	}
	d := D("Type", Name("Font"), "Subtype", Name("TrueType"), "BaseFont", Name(f.base),
		"FirstChar", Int(f.firstChar), "LastChar", Int(f.firstChar+len(f.widths)-1), "Widths", f.widths, "FontDescriptor", desc)
	if f.encoding != nil {
		d.Set("Encoding", f.encoding)
	}
	if f.toUnicode != nil {
		d.Set("ToUnicode", b.doc.Add(&Stream{Dict: Dict{}, Data: f.toUnicode, Filters: []FilterSpec{{Kind: Flate}}}))
	}
	return b.doc.Add(d)
}

func fontRes(fonts ...Ref) Dict {
	fd := Dict{}
	for i, f := range fonts {
		fd.Set(Name(fmt.Sprintf("F%d", i+1)), f)
	}
	return D("Font", fd, "ProcSet", A(Name("PDF"), Name("Text")))
}

// fontPair makes two pages, the first showing its text with font a, the second with font c, each
// page with its own resource dictionary; order swaps them at random unless fixed.
func (b *optBuilder) fontPair(scenario string, a, c Ref, swap bool) {
	if swap {
		a, c = c, a
	}
	for _, f := range []Ref{a, c} {
		p := b.addPage(nil, scenario, fontRes(f))
		p.content = [][]byte{[]byte(textLine("F1", p.marker, 700))}
	}
}

const cmap = "/CIDInit /ProcSet findresource begin\n12 dict begin\nbegincmap\n1 begincodespacerange\n<00> <FF>\nendcodespacerange\n1 beginbfchar\n<41> <0041>\nendbfchar\nendcmap\nend\nend\n"

func (b *optBuilder) fontScenario(s string) {
	base := b.newFontSpec()
	other := base.clone()
	swap := b.rng.IntN(2) == 0
	switch s {
	case "font-exact-duplicate":
		if b.rng.IntN(2) == 0 {
			base.toUnicode = []byte(cmap)
			other = base.clone()
		}
	case "font-widths-differ":
		i := 1 + b.rng.IntN(len(other.widths)-1)
		other.widths[i] = Int(int64(other.widths[i].(Int)) + 1 + int64(b.rng.IntN(300)))
	case "font-encoding-differs":
		if b.rng.IntN(2) == 0 {
			other.encoding = Name("MacRomanEncoding")
		} else {
			other.encoding = D("Type", Name("Encoding"), "BaseEncoding", Name("WinAnsiEncoding"), "Differences", A(65, Name("B"), Name("A")))
		}
	case "font-fontfile-last-byte":
		other.fontFile[len(other.fontFile)-1] ^= 0x5a
		base.ffFilters, other.ffFilters = nil, nil // same /Length, same first bytes, no filter
	case "font-descriptor-flags":
		other.flags = 4
	case "font-tounicode-differs":
		base.toUnicode = []byte(cmap)
		other = base.clone()
		other.toUnicode = []byte(cmap[:len(cmap)-30] + "\n<41> <0042>\n" + cmap[len(cmap)-17:])
	case "font-firstchar-differs":
		other.firstChar = 33
	case "font-subset-tags":
		// same font program and descriptor, BaseFont differs in the subset tag only
		base.base = "ABCDEF+" + base.base
		fa := b.font(base)
		d, _ := b.doc.GetDict(fa.Num)
		desc, _ := d.Get("FontDescriptor")
		other = base.clone()
		other.base = "GHIJKL+" + base.base[7:]
		other.descriptor = desc.(Ref)
		b.fontPair(s, fa, b.font(other), swap)
		return
	case "font-null-entry-vs-value":
		// font A: /Encoding refers to an object that does not exist (= null = absent: the font's
		// built-in encoding); font B: /Encoding /MacRomanEncoding. Everything else is equal.
		missing := b.doc.Alloc() // never defined
		base.encoding = missing
		other.encoding = Name("MacRomanEncoding")
	}
	b.fontPair(s, b.font(base), b.font(other), swap)
}

// ---------------------------------------------------------------- images

type optImage struct {
	w, h       int
	cs         Object
	data       []byte
	filters    []FilterSpec
	decode     Array
	smask      Object
	widthRef   bool
	interp     *bool
	preEncoded bool
}

func (b *optBuilder) newImageSpec() optImage {
	w, h := 2+b.rng.IntN(4), 2+b.rng.IntN(4)
	if w == h {
		w++
	}
	return optImage{w: w, h: h, cs: Name("DeviceRGB"), data: b.randBytes(3 * w * h), filters: []FilterSpec{{Kind: Flate}}}
}

func (b *optBuilder) image(im optImage) Ref {
	d := D("Type", Name("XObject"), "Subtype", Name("Image"), "Height", Int(im.h), "ColorSpace", im.cs, "BitsPerComponent", Int(8))
	if im.widthRef {
		d.Set("Width", b.doc.Add(Int(im.w)))
	} else {
		d.Set("Width", Int(im.w))
	}
	if im.decode != nil {
		d.Set("Decode", im.decode)
	}
	if im.smask != nil {
		d.Set("SMask", im.smask)
	}
	if im.interp != nil {
		d.Set("Interpolate", Bool(*im.interp))
	}
	return b.doc.Add(&Stream{Dict: d, Data: im.data, Filters: im.filters, PreEncoded: im.preEncoded})
}

func (b *optBuilder) softMask(w, h int, data []byte) Ref {
	return b.doc.Add(&Stream{Dict: D("Type", Name("XObject"), "Subtype", Name("Image"), "Width", Int(w), "Height", Int(h),
		"ColorSpace", Name("DeviceGray"), "BitsPerComponent", Int(8)), Data: data, Filters: []FilterSpec{{Kind: Flate}}})
}

func imageRes(font Ref, images ...Ref) Dict {
	xd := Dict{}
	for i, im := range images {
		xd.Set(Name(fmt.Sprintf("Im%d", i+1)), im)
	}
	return D("Font", D("F1", font), "XObject", xd, "ProcSet", A(Name("PDF"), Name("Text"), Name("ImageC")))
}

func (b *optBuilder) imagePair(scenario string, a, c Ref, swap bool) {
	if swap {
		a, c = c, a
	}
	font := b.font(b.newFontSpec())
	if b.rng.IntN(3) == 0 {
		// both images on one page under two names
		p := b.addPage(nil, scenario, imageRes(font, a, c))
		p.content = [][]byte{[]byte(textLine("F1", p.marker, 700) + doLine("Im1", 100, 500) + doLine("Im2", 200, 500))}
		return
	}
	for _, im := range []Ref{a, c} {
		p := b.addPage(nil, scenario, imageRes(font, im))
		p.content = [][]byte{[]byte(textLine("F1", p.marker, 700) + doLine("Im1", 100, 500))}
	}
}

func (b *optBuilder) imageScenario(s string) {
	base := b.newImageSpec()
	other := base
	other.data = append([]byte(nil), base.data...)
	swap := b.rng.IntN(2) == 0
	switch s {
	case "image-exact-duplicate":
	case "image-last-byte":
		other.data[len(other.data)-1] ^= 0x11
		base.filters, other.filters = nil, nil // same /Length, same first bytes
	case "image-colorspace-differs":
		other.cs = A(Name("CalRGB"), D("WhitePoint", A(Real(0.9505), Real(1.0), Real(1.089)), "Gamma", A(Real(2.2), Real(2.2), Real(2.2))))
	case "image-decode-differs":
		base.decode = A(0, 1, 0, 1, 0, 1)
		other.decode = A(1, 0, 1, 0, 1, 0)
	case "image-smask-differs":
		m := b.randBytes(base.w * base.h)
		m2 := append([]byte(nil), m...)
		m2[len(m2)-1] ^= 0xff
		base.smask = b.softMask(base.w, base.h, m)
		other.smask = b.softMask(base.w, base.h, m2)
	case "image-width-height-swapped":
		other.w, other.h = base.h, base.w
	case "image-indirect-width":
		base.widthRef, other.widthRef = true, true
		other.w, other.h = base.h, base.w
	case "image-null-entry-vs-value":
		// image A: /SMask refers to an object that does not exist (= no soft mask);
		// image B: /SMask is a real soft mask. Everything else is equal.
		base.smask = b.doc.Alloc()
		other.smask = b.softMask(base.w, base.h, b.randBytes(base.w*base.h))
	case "image-filter-parms-differ":
		// identical raw bytes; B additionally declares a PNG predictor, so it decodes differently
		rows := base.h
		cols := 3 * base.w
		plain := b.randBytes(rows * cols)
		withTags := make([]byte, 0, rows*(cols+1))
		for r := 0; r < rows; r++ {
			withTags = append(withTags, 0)
			withTags = append(withTags, plain[r*cols:(r+1)*cols]...)
		}
		raw, err := Encode(withTags, []FilterSpec{{Kind: Flate}})
		if err != nil {
			panic(err)
		}
		// A decodes to rows*(cols+1) bytes (more than needed, legal), B to rows*cols bytes
		base.data, base.filters, base.preEncoded = raw, []FilterSpec{{Kind: Flate}}, true
		other.data, other.filters, other.preEncoded = raw, []FilterSpec{{Kind: Flate, Predictor: 12, Colors: 3, BPC: 8, Columns: base.w, ExplicitParms: true}}, true
	case "image-interpolate-differs":
		t, f := true, false
		base.interp, other.interp = &t, &f
	}
	b.imagePair(s, b.image(base), b.image(other), swap)
}

// ---------------------------------------------------------------- form XObjects

type optForm struct {
	content   string
	resources Object // nil: no /Resources entry
	matrix    Array
	bbox      Array
	pieceInfo bool
	filters   []FilterSpec
}

func (b *optBuilder) form(f optForm) Ref {
	d := D("Type", Name("XObject"), "Subtype", Name("Form"), "BBox", f.bbox)
	if f.matrix != nil {
		d.Set("Matrix", f.matrix)
	}
	if f.resources != nil {
		d.Set("Resources", f.resources)
	}
	if f.pieceInfo {
		d.Set("LastModified", String("D:20240102030405+00'00'"))
		d.Set("PieceInfo", D("VerifApp", D("LastModified", String("D:20240102030405+00'00'"), "Private", D("Note", String(b.marker())))))
	}
	return b.doc.Add(&Stream{Dict: d, Data: []byte(f.content), Filters: f.filters})
}

func formRes(font Ref, forms ...Ref) Dict {
	xd := Dict{}
	for i, f := range forms {
		xd.Set(Name(fmt.Sprintf("Fm%d", i+1)), f)
	}
	return D("Font", D("F1", font), "XObject", xd, "ProcSet", A(Name("PDF"), Name("Text")))
}

func (b *optBuilder) formPair(scenario string, a, c Ref) {
	if b.rng.IntN(2) == 0 {
		a, c = c, a
	}
	font := b.font(b.newFontSpec())
	for _, f := range []Ref{a, c} {
		p := b.addPage(nil, scenario, formRes(font, f))
		p.content = [][]byte{[]byte(textLine("F1", p.marker, 700) + "q\n1 0 0 1 100 400 cm\n/Fm1 Do\nQ\n")}
	}
}

func (b *optBuilder) formScenario(s string) {
	f1 := b.font(b.newFontSpec())
	inner := "0 0 1 rg\n0 0 50 50 re\nf\nBT\n/F1 8 Tf\n2 2 Td\n(form) Tj\nET\n"
	base := optForm{content: inner, resources: D("Font", D("F1", f1)), bbox: A(0, 0, 100, 100), filters: b.filters()}
	other := base
	switch s {
	case "form-exact-duplicate":
	case "form-content-byte":
		other.content = "0 0 1 rg\n0 0 50 51 re\nf\nBT\n/F1 8 Tf\n2 2 Td\n(form) Tj\nET\n"
		base.filters, other.filters = nil, nil
	case "form-resources-differ":
		other.resources = D("Font", D("F1", b.font(b.newFontSpec())))
	case "form-matrix-differs":
		base.matrix = A(1, 0, 0, 1, 0, 0)
		other.matrix = A(2, 0, 0, 2, 0, 0)
	case "form-pieceinfo":
		base.pieceInfo = true
		other = base
	case "form-legacy-no-resources":
		// ISO 32000-1 7.8.3: a form XObject without /Resources takes its resources from the page
		// that paints it. /F2 and /Im1 are used by the form's content only, not by the page content.
		f2 := b.font(b.newFontSpec())
		im := b.image(b.newImageSpec())
		fm := b.form(optForm{content: "BT\n/F2 9 Tf\n2 20 Td\n(legacy) Tj\nET\nq\n20 0 0 20 0 0 cm\n/Im1 Do\nQ\n", bbox: A(0, 0, 100, 100)})
		res := D("Font", D("F1", f1, "F2", f2), "XObject", D("Fm1", fm, "Im1", im), "ProcSet", A(Name("PDF"), Name("Text"), Name("ImageC")))
		p := b.addPage(nil, s, res)
		p.content = [][]byte{[]byte(textLine("F1", p.marker, 700) + "q\n1 0 0 1 100 400 cm\n/Fm1 Do\nQ\n")}
		return
	case "form-nested-own-resources":
		// resources used only by a form XObject's own content, listed in the form's own /Resources
		f2 := b.font(b.newFontSpec())
		img := b.newImageSpec()
		im := b.image(img)
		dup := b.image(img) // exact duplicate, reachable only through the inner form
		innerForm := b.form(optForm{content: "q\n10 0 0 10 0 0 cm\n/ImX Do\nQ\n", resources: D("XObject", D("ImX", dup)), bbox: A(0, 0, 50, 50)})
		fm := b.form(optForm{content: "BT\n/F2 9 Tf\n2 20 Td\n(outer) Tj\nET\n/FmIn Do\nq\n20 0 0 20 30 0 cm\n/ImY Do\nQ\n",
			resources: D("Font", D("F2", f2), "XObject", D("FmIn", innerForm, "ImY", im)), bbox: A(0, 0, 100, 100)})
		p := b.addPage(nil, s, formRes(f1, fm))
		p.content = [][]byte{[]byte(textLine("F1", p.marker, 700) + "q\n1 0 0 1 100 400 cm\n/Fm1 Do\nQ\n")}
		return
	}
	b.formPair(s, b.form(base), b.form(other))
}

// ---------------------------------------------------------------- content streams

func (b *optBuilder) contentScenario(s string) {
	font := b.font(b.newFontSpec())
	res := b.doc.Add(fontRes(font))
	switch s {
	case "content-exact-duplicate":
		// two pages whose (single) content streams are separate objects with identical bytes
		m := b.marker()
		body := textLine("F1", m, 700) + "0.5 g\n100 100 40 30 re\nf\n"
		fl := b.filters()
		for i := 0; i < 2; i++ {
			p := b.addPage(nil, s, res)
			p.marker = m
			p.contents = b.doc.Add(&Stream{Dict: Dict{}, Data: []byte(body), Filters: fl})
		}
	case "content-last-byte":
		m := b.marker()
		for _, tail := range []string{"f\n", "S\n"} {
			p := b.addPage(nil, s, res)
			p.marker = m
			p.contents = b.doc.Add(&Stream{Dict: Dict{}, Data: []byte(textLine("F1", m, 700) + "0.5 g\n100 100 40 30 re\n" + tail)})
		}
	case "content-same-raw-other-parms":
		// identical raw bytes; page B's stream additionally declares a PNG predictor. Lines are
		// padded so that every row is one line: A decodes to the lines each preceded by a NUL (white
		// space), B to the plain lines.
		m := b.marker()
		lines := []string{"BT", "/F1 11 Tf", "72 700 Td", "(" + m + ") Tj", "ET", "0.5 g", "100 100 40 30 re", "f"}
		cols := 0
		for _, l := range lines {
			if len(l)+1 > cols {
				cols = len(l) + 1
			}
		}
		var tagged []byte
		for _, l := range lines {
			row := []byte(l)
			for len(row) < cols-1 {
				row = append(row, ' ')
			}
			row = append(row, '\n')
			tagged = append(tagged, 0)
			tagged = append(tagged, row...)
		}
		raw, err := Encode(tagged, []FilterSpec{{Kind: Flate}})
		if err != nil {
			panic(err)
		}
		specs := [][]FilterSpec{{{Kind: Flate}}, {{Kind: Flate, Predictor: 12, Colors: 1, BPC: 8, Columns: cols, ExplicitParms: true}}}
		if b.rng.IntN(2) == 0 {
			specs[0], specs[1] = specs[1], specs[0]
		}
		for _, fs := range specs {
			p := b.addPage(nil, s, res)
			p.marker = m
			p.contents = b.doc.Add(&Stream{Dict: Dict{}, Data: raw, Filters: fs, PreEncoded: true})
		}
	}
}

// ---------------------------------------------------------------- resource dictionaries

func (b *optBuilder) resScenario(s string) {
	f1, f2 := b.font(b.newFontSpec()), b.font(b.newFontSpec())
	switch s {
	case "res-shared":
		img := b.image(b.newImageSpec())
		res := b.doc.Add(D("Font", D("F1", f1, "F2", f2), "XObject", D("Im1", img), "ProcSet", A(Name("PDF"), Name("Text"), Name("ImageC"))))
		for i := 0; i < 2+b.rng.IntN(3); i++ {
			p := b.addPage(nil, s, res)
			c := textLine([]string{"F1", "F2"}[b.rng.IntN(2)], p.marker, 700)
			if b.rng.IntN(2) == 0 {
				c += doLine("Im1", 100, 500)
			}
			p.content = [][]byte{[]byte(c)}
		}
	case "res-inherited":
		img := b.image(b.newImageSpec())
		g := &optGroup{ref: b.doc.Alloc()}
		var res Object = D("Font", D("F1", f1, "F2", f2), "XObject", D("Im1", img), "ProcSet", A(Name("PDF"), Name("Text"), Name("ImageC")))
		if b.rng.IntN(2) == 0 {
			res = b.doc.Add(res)
		}
		g.resources = res
		if b.rng.IntN(2) == 0 {
			g.mediaBox = &[4]float64{0, 0, 400, 700}
			r := 90
			g.rotate = &r
		}
		b.groups = append(b.groups, g)
		for i := 0; i < 2+b.rng.IntN(2); i++ {
			p := b.addPage(g, s, nil)
			p.content = [][]byte{[]byte(textLine([]string{"F1", "F2"}[b.rng.IntN(2)], p.marker, 600) + doLine("Im1", 100, 300))}
		}
		// one page of the group overrides the inherited dictionary with its own (other font under /F1)
		p := b.addPage(g, s, fontRes(f2))
		p.content = [][]byte{[]byte(textLine("F1", p.marker, 600))}
	case "res-unused":
		img, img2 := b.image(b.newImageSpec()), b.image(b.newImageSpec())
		fm := b.form(optForm{content: "0 0 10 10 re\nf\n", resources: Dict{}, bbox: A(0, 0, 10, 10)})
		res := D("Font", D("F1", f1, "F2", f2, "F3", b.font(b.newFontSpec())), "XObject", D("Im1", img, "Im2", img2, "Fm1", fm),
			"ExtGState", D("GS1", D("Type", Name("ExtGState"), "CA", Real(0.5))), "ProcSet", A(Name("PDF"), Name("Text"), Name("ImageC")))
		p := b.addPage(nil, s, res)
		p.content = [][]byte{[]byte(textLine("F2", p.marker, 700) + doLine("Im2", 100, 500))}
	case "res-unreferenced-objects":
		spec := b.newFontSpec()
		used := b.font(spec)
		b.font(spec.clone()) // unreferenced exact duplicate of a used font
		im := b.newImageSpec()
		b.image(im) // unreferenced image
		b.doc.Add(D("Type", Name("VerifGarbage"), "Next", b.doc.Add(String(b.randBytes(20)))))
		p := b.addPage(nil, s, fontRes(used))
		p.content = [][]byte{[]byte(textLine("F1", p.marker, 700))}
	case "res-name-escape":
		// the name object /F1 may be written /F#31 (ISO 32000-1 7.3.5): same name
		img := b.image(b.newImageSpec())
		res := D("Font", D("F1", f1, "F2", f2), "XObject", D("Im1", img), "ProcSet", A(Name("PDF"), Name("Text"), Name("ImageC")))
		p := b.addPage(nil, s, res)
		p.content = [][]byte{[]byte(textLine("F#31", p.marker, 700) + doLine("I#6d1", 100, 500))}
	case "res-inline-image-then-do":
		img := b.image(b.newImageSpec())
		res := imageRes(f1, img)
		p := b.addPage(nil, s, res)
		inline := "q\n20 0 0 20 300 300 cm\nBI\n/W 2 /H 2 /CS /G /BPC 8\nID\n\x10\x80\xc0\xf0\nEI\nQ\n"
		tail := "q\n10 0 0 10 50 50 cm\nBI /W 1 /H 1 /CS /G /BPC 8 ID \x7f\nEI Q\n"
		c := textLine("F1", p.marker, 700)
		switch b.rng.IntN(3) {
		case 0: // an operator other than Q follows EI
			c += "BI\n/W 2 /H 2 /CS /G /BPC 8\nID\n\x10\x80\xc0\xf0\nEI\n" + doLine("Im1", 100, 500)
		case 1: // ... and a second inline image ends the stream
			c += "BI\n/W 2 /H 2 /CS /G /BPC 8\nID\n\x10\x80\xc0\xf0\nEI\n" + doLine("Im1", 100, 500) + tail
		default:
			c += inline + doLine("Im1", 100, 500)
		}
		p.content = [][]byte{[]byte(c)}
	case "res-properties-shading-gstate":
		sh := D("ShadingType", Int(2), "ColorSpace", Name("DeviceRGB"), "Coords", A(0, 0, 100, 0),
			"Function", D("FunctionType", Int(2), "Domain", A(0, 1), "C0", A(1, 0, 0), "C1", A(0, 0, 1), "N", Int(1)))
		sh2 := CloneObject(sh).(Dict)
		sh2.Set("Coords", A(0, 0, 0, 100))
		maskForm := b.form(optForm{content: "0.5 g\n0 0 100 100 re\nf\n", resources: Dict{}, bbox: A(0, 0, 100, 100)})
		gs := D("Type", Name("ExtGState"), "CA", Real(0.5), "ca", Real(0.25))
		gs2 := D("Type", Name("ExtGState"), "SMask", D("Type", Name("Mask"), "S", Name("Luminosity"), "G", maskForm))
		oc := b.doc.Add(D("Type", Name("OCG"), "Name", String("Layer "+b.marker())))
		res := D("Font", D("F1", f1), "Shading", D("Sh1", b.doc.Add(sh), "Sh2", b.doc.Add(sh2)),
			"ExtGState", D("GS1", b.doc.Add(gs), "GS2", b.doc.Add(gs2), "GS3", D("Type", Name("ExtGState"), "LW", Int(3))),
			"Properties", D("MC1", oc, "MC2", D("Verif", Int(1))), "ProcSet", A(Name("PDF"), Name("Text")))
		p := b.addPage(nil, s, res)
		p.extra = D("Group", D("Type", Name("Group"), "S", Name("Transparency"), "CS", Name("DeviceRGB")))
		p.content = [][]byte{[]byte(textLine("F1", p.marker, 700) +
			"/OC /MC1 BDC\n/GS1 gs\nq\n0 0 200 200 re\nW n\n/Sh2 sh\nQ\nEMC\n/Span <</MCID 0>> BDC\n/GS2 gs\n10 10 50 50 re\nf\nEMC\n/Tag /MC2 DP\n")}
		b.setOCProperties(oc)
	case "res-string-tricks":
		// operator-like text inside strings and comments must not count as a use;
		// real uses after them must
		img := b.image(b.newImageSpec())
		res := D("Font", D("F1", f1, "F2", f2), "XObject", D("Im1", img, "Im2", b.image(b.newImageSpec())), "ProcSet", A(Name("PDF"), Name("Text"), Name("ImageC")))
		p := b.addPage(nil, s, res)
		c := "BT\n/F1 11 Tf\n72 700 Td\n(" + p.marker + ") Tj\n(a \\(nested\\) and (balanced (parens)) /Im2 Do) Tj\n[(x) -20 (BI y) 3 <2f496d3220446f>] TJ\nET\n" +
			"% /Im2 Do in a comment\n" + doLine("Im1", 100, 500) + "BT /F2 9 Tf 72 100 Td (\\)) Tj ET\n"
		p.content = [][]byte{[]byte(c)}
	case "res-colorspace-pattern":
		cs := A(Name("CalGray"), D("WhitePoint", A(Real(0.9505), Real(1.0), Real(1.089)), "Gamma", Real(2.2)))
		cs2 := A(Name("CalGray"), D("WhitePoint", A(Real(0.9505), Real(1.0), Real(1.089)), "Gamma", Real(1.8)))
		pat := b.doc.Add(&Stream{Dict: D("Type", Name("Pattern"), "PatternType", Int(1), "PaintType", Int(1), "TilingType", Int(1),
			"BBox", A(0, 0, 10, 10), "XStep", Int(10), "YStep", Int(10), "Resources", Dict{}), Data: []byte("0 0 5 5 re\nf\n")})
		res := D("Font", D("F1", f1), "ColorSpace", D("CS1", b.doc.Add(cs), "CS2", b.doc.Add(cs2), "PCS", A(Name("Pattern"))),
			"Pattern", D("P1", pat), "ProcSet", A(Name("PDF"), Name("Text")))
		p := b.addPage(nil, s, res)
		p.content = [][]byte{[]byte(textLine("F1", p.marker, 700) + "/CS2 cs\n0.5 sc\n10 10 50 50 re\nf\n/CS1 CS\n0.2 SC\n10 70 50 50 re\nS\n/Pattern cs\n/P1 scn\n100 10 50 50 re\nf\n")}
	}
}

func (b *optBuilder) setOCProperties(oc Ref) { b.ocgs = append(b.ocgs, oc) }

func (b *optBuilder) scenario(s string) {
	switch {
	case len(s) > 11 && s[:11] == "form-chain-":
		b.chainScenario(s)
	case len(s) > 5 && s[:5] == "font-":
		b.fontScenario(s)
	case len(s) > 6 && s[:6] == "image-":
		b.imageScenario(s)
	case len(s) > 5 && s[:5] == "form-":
		b.formScenario(s)
	case len(s) > 8 && s[:8] == "content-":
		b.contentScenario(s)
	default:
		b.resScenario(s)
	}
}

func (b *optBuilder) finish(scenarios []string) *OptBuilt {
	doc := b.doc
	out := &OptBuilt{Doc: doc}
	total := 0
	var rootKids Array
	pageNo := 0
	writePages := func(g *optGroup, parent Ref) Array {
		var kids Array
		for i := range g.pages {
			p := &g.pages[i]
			pageNo++
			d := D("Type", Name("Page"), "Parent", parent)
			if g.mediaBox == nil || b.rng.IntN(3) == 0 {
				d.Set("MediaBox", Rect(0, 0, float64(500+pageNo), 800))
			}
			if p.resources != nil {
				d.Set("Resources", p.resources)
			}
			switch {
			case p.contents != nil:
				d.Set("Contents", p.contents)
			case len(p.content) == 1 && b.rng.IntN(4) != 0:
				d.Set("Contents", doc.Add(&Stream{Dict: Dict{}, Data: p.content[0], Filters: b.filters()}))
			default:
				var arr Array
				for _, c := range p.content {
					// split once more so that arrays of content streams occur
					half := len(c) / 2
					for half < len(c) && c[half] != '\n' {
						half++
					}
					if half < len(c)-1 && b.rng.IntN(2) == 0 {
						arr = append(arr, doc.Add(&Stream{Dict: Dict{}, Data: c[:half+1], Filters: b.filters()}),
							doc.Add(&Stream{Dict: Dict{}, Data: c[half+1:], Filters: b.filters()}))
					} else {
						arr = append(arr, doc.Add(&Stream{Dict: Dict{}, Data: c, Filters: b.filters()}))
					}
				}
				d.Set("Contents", arr)
			}
			for _, e := range p.extra {
				d.Set(e.Key, e.Val)
			}
			doc.Put(p.ref, d)
			kids = append(kids, p.ref)
			out.Pages = append(out.Pages, OptPage{ObjNum: p.ref.Num, Marker: p.marker, Scenario: p.scenario, Detail: p.detail})
		}
		return kids
	}
	// the root group's pages come first, then the sub groups (one /Pages node each)
	rootKids = writePages(b.root, b.root.ref)
	total += len(b.root.pages)
	for _, g := range b.groups[1:] {
		kids := writePages(g, g.ref)
		d := D("Type", Name("Pages"), "Parent", b.root.ref, "Kids", kids, "Count", Int(len(kids)))
		if g.resources != nil {
			d.Set("Resources", g.resources)
		}
		if g.mediaBox != nil {
			d.Set("MediaBox", Rect(g.mediaBox[0], g.mediaBox[1], g.mediaBox[2], g.mediaBox[3]))
		}
		if g.rotate != nil {
			d.Set("Rotate", Int(*g.rotate))
		}
		doc.Put(g.ref, d)
		rootKids = append(rootKids, g.ref)
		total += len(kids)
	}
	doc.Put(b.root.ref, D("Type", Name("Pages"), "Kids", rootKids, "Count", Int(total)))
	cat := D("Type", Name("Catalog"), "Pages", b.root.ref)
	if ocgs := b.ocgs; len(ocgs) > 0 {
		arr := make(Array, len(ocgs))
		for i, r := range ocgs {
			arr[i] = r
		}
		cat.Set("OCProperties", D("OCGs", arr, "D", D("Order", CloneObject(arr), "ON", CloneObject(arr))))
	}
	doc.SetRoot(doc.Add(cat))
	doc.SetInfo(doc.Add(D("Title", String("optimiser cases"), "CreationDate", String("D:20240102030405+00'00'"))))
	doc.ID[0], doc.ID[1] = b.randBytes(16), b.randBytes(16)
	w := RandomOptions(b.rng)
	w.Version = FitVersion(w, "1.5")
	o := MustWrite(doc, w)
	out.Bytes, out.Write = o.Bytes, w
	out.Scenarios = append([]string(nil), scenarios...)
	sort.Strings(out.Scenarios)
	return out
}
