package pdfgen

import "sort"

// IndObj is an indirect object "Num Gen obj ... endobj".
type IndObj struct {
	Num, Gen int
	Obj      Object
	// NoCompress keeps the object out of object streams.
	NoCompress bool
}

// FreeSpec marks an object number as free in a revision. Gen is the
// generation number written into the free entry (the generation the number
// would have when reused).
type FreeSpec struct{ Num, Gen int }

// Revision is one body + cross-reference section of a file. Revision 0 is the
// original document, every further one an incremental update.
type Revision struct {
	Objects []IndObj
	Free    []FreeSpec
	// Root/Info/Extra apply from this revision on (zero Ref = inherit).
	Root, Info Ref
	// Extra entries for this revision's trailer (or xref stream dictionary).
	Extra Dict
}

// Doc is the layer-1 document: numbered objects grouped in revisions.
type Doc struct {
	Revs []Revision
	// ID is written as /ID [<ID[0]> <ID[1]>] when ID[0] != nil.
	ID [2][]byte

	next int // next unused object number
}

// NewDoc returns an empty document with one (base) revision.
func NewDoc() *Doc { return &Doc{Revs: make([]Revision, 1), next: 1} }

func (d *Doc) cur() *Revision { return &d.Revs[len(d.Revs)-1] }

// Alloc reserves a fresh object number (generation 0) without defining it.
func (d *Doc) Alloc() Ref {
	r := Ref{Num: d.next}
	d.next++
	return r
}

// Add stores o under a fresh number in the current (latest) revision.
func (d *Doc) Add(o Object) Ref {
	r := d.Alloc()
	d.Put(r, o)
	return r
}

// Put defines (or, within the current revision, redefines) object r.
func (d *Doc) Put(r Ref, o Object) {
	if r.Num >= d.next {
		d.next = r.Num + 1
	}
	rev := d.cur()
	for i := range rev.Objects {
		if rev.Objects[i].Num == r.Num {
			rev.Objects[i].Gen = r.Gen
			rev.Objects[i].Obj = o
			return
		}
	}
	rev.Objects = append(rev.Objects, IndObj{Num: r.Num, Gen: r.Gen, Obj: o})
}

// PutNoCompress is Put for objects that must stay outside object streams.
func (d *Doc) PutNoCompress(r Ref, o Object) {
	d.Put(r, o)
	rev := d.cur()
	for i := range rev.Objects {
		if rev.Objects[i].Num == r.Num {
			rev.Objects[i].NoCompress = true
		}
	}
}

// Get returns the latest definition of object num (nil if undefined or freed
// in the latest revision that mentions it).
func (d *Doc) Get(num int) Object {
	for r := len(d.Revs) - 1; r >= 0; r-- {
		for _, f := range d.Revs[r].Free {
			if f.Num == num {
				return nil
			}
		}
		for i := range d.Revs[r].Objects {
			if d.Revs[r].Objects[i].Num == num {
				return d.Revs[r].Objects[i].Obj
			}
		}
	}
	return nil
}

// GetDict returns object num as a Dict (the stream dictionary for streams).
func (d *Doc) GetDict(num int) (Dict, bool) {
	switch x := d.Get(num).(type) {
	case Dict:
		return x, true
	case *Stream:
		return x.Dict, true
	}
	return nil, false
}

// Replace overwrites the latest definition of object num in place (in the
// revision where it was defined). It reports whether the object was found.
func (d *Doc) Replace(num int, o Object) bool {
	for r := len(d.Revs) - 1; r >= 0; r-- {
		for i := range d.Revs[r].Objects {
			if d.Revs[r].Objects[i].Num == num {
				d.Revs[r].Objects[i].Obj = o
				return true
			}
		}
	}
	return false
}

// SetKey sets key in the dictionary (or stream dictionary) of object num, in
// place. Used by hostile constructions.
func (d *Doc) SetKey(num int, key Name, val Object) bool {
	switch x := d.Get(num).(type) {
	case Dict:
		x = x.With(key, val)
		return d.Replace(num, x)
	case *Stream:
		s := *x
		s.Dict = s.Dict.With(key, val)
		return d.Replace(num, &s)
	}
	return false
}

// MaxNum is the highest object number allocated so far.
func (d *Doc) MaxNum() int { return d.next - 1 }

// Root returns the catalog reference in force after the last revision.
func (d *Doc) Root() Ref {
	for r := len(d.Revs) - 1; r >= 0; r-- {
		if d.Revs[r].Root.Num != 0 {
			return d.Revs[r].Root
		}
	}
	return Ref{}
}

// SetRoot sets the catalog reference of the current revision.
func (d *Doc) SetRoot(r Ref) { d.cur().Root = r }

// SetInfo sets the info dictionary reference of the current revision.
func (d *Doc) SetInfo(r Ref) { d.cur().Info = r }

// AppendUpdate starts a new revision (incremental update) holding the given
// changed or new objects. Later Add/Put/Free calls go to this revision.
func (d *Doc) AppendUpdate(changed []IndObj) *Revision {
	d.Revs = append(d.Revs, Revision{})
	for _, o := range changed {
		d.Put(Ref{o.Num, o.Gen}, o.Obj)
		if o.NoCompress {
			d.cur().Objects[len(d.cur().Objects)-1].NoCompress = true
		}
	}
	return d.cur()
}

// Free marks object num as deleted in the current revision; the free entry
// carries generation gen+1 of the deleted object.
func (d *Doc) Free(num int) {
	gen := 0
	for r := len(d.Revs) - 1; r >= 0; r-- {
		found := false
		for _, o := range d.Revs[r].Objects {
			if o.Num == num {
				gen = o.Gen
				found = true
			}
		}
		if found {
			break
		}
	}
	rev := d.cur()
	// an object defined and freed in the same revision is simply dropped
	for i := range rev.Objects {
		if rev.Objects[i].Num == num {
			rev.Objects = append(rev.Objects[:i:i], rev.Objects[i+1:]...)
			break
		}
	}
	rev.Free = append(rev.Free, FreeSpec{Num: num, Gen: gen + 1})
}

// Clone returns a deep copy of the document.
func (d *Doc) Clone() *Doc {
	c := &Doc{next: d.next}
	c.ID[0] = append([]byte(nil), d.ID[0]...)
	c.ID[1] = append([]byte(nil), d.ID[1]...)
	if d.ID[0] == nil {
		c.ID[0] = nil
	}
	if d.ID[1] == nil {
		c.ID[1] = nil
	}
	for _, r := range d.Revs {
		nr := Revision{Root: r.Root, Info: r.Info}
		if r.Extra != nil {
			nr.Extra = r.Extra.Clone()
		}
		nr.Free = append([]FreeSpec(nil), r.Free...)
		for _, o := range r.Objects {
			o.Obj = CloneObject(o.Obj)
			nr.Objects = append(nr.Objects, o)
		}
		c.Revs = append(c.Revs, nr)
	}
	return c
}

// Nums returns all object numbers defined (and not freed) after the last
// revision, ascending.
func (d *Doc) Nums() []int {
	seen := map[int]bool{}
	var out []int
	for r := len(d.Revs) - 1; r >= 0; r-- {
		for _, f := range d.Revs[r].Free {
			seen[f.Num] = true
		}
		for _, o := range d.Revs[r].Objects {
			if !seen[o.Num] {
				seen[o.Num] = true
				out = append(out, o.Num)
			}
		}
	}
	sort.Ints(out)
	return out
}
