package pdfgen

import (
	"bytes"
	"fmt"
	"sort"
	"strings"
)

func (b *builder) pageRef(i int) Ref { return b.pages[i].ref }

func (b *builder) randomDest(page int) Array {
	switch b.rng.IntN(4) {
	case 0:
		return Array{b.pageRef(page), Name("XYZ"), Null{}, Null{}, Null{}}
	case 1:
		return Array{b.pageRef(page), Name("FitH"), Int(700)}
	case 2:
		return Array{b.pageRef(page), Name("XYZ"), Int(10), Int(750), Real(1.5)}
	}
	return Array{b.pageRef(page), Name("Fit")}
}

// text returns a text string object for s, sometimes forcing UTF-16 and
// sometimes using hex string syntax.
func (b *builder) text(s string) Object {
	if strings.HasPrefix(s, SecretPrefix) {
		// secret markers stay plain ASCII literal strings so that a byte
		// search of (decrypted or leaked) data finds them
		return String(s)
	}
	var v String
	if b.chance(25) {
		v = EncodeUTF16(s)
	} else {
		v = EncodeText(s)
	}
	if b.chance(15) {
		return HexString(v)
	}
	return v
}

// ---------------------------------------------------------------------------
// outlines

type olItem struct {
	ref    Ref
	parent *olItem
	kids   []*olItem
	depth  int
	t      *OutlineTruth
	title  Object
}

func (b *builder) buildOutlines() {
	maxDepth := b.spec.OutlineDepth
	if maxDepth <= 0 {
		maxDepth = 3
	}
	rootRef := b.doc.Alloc()
	b.truth.Objs.OutlineRoot = rootRef.Num
	var top []*olItem
	var all []*olItem
	for i := 0; i < b.spec.Outlines; i++ {
		it := &olItem{ref: b.doc.Alloc(), depth: 1}
		var cands []*olItem
		for _, c := range all {
			if c.depth < maxDepth && len(c.kids) < 6 {
				cands = append(cands, c)
			}
		}
		if len(cands) > 0 && b.chance(60) {
			p := cands[b.rng.IntN(len(cands))]
			it.parent, it.depth = p, p.depth+1
			p.kids = append(p.kids, it)
		} else {
			top = append(top, it)
		}
		all = append(all, it)

		t := &OutlineTruth{ObjNum: it.ref.Num, Page: b.rng.IntN(len(b.pages)), Open: b.coin()}
		switch {
		case len(b.spec.OutlineTitles) > 0:
			raw := b.spec.OutlineTitles[i%len(b.spec.OutlineTitles)]
			t.Title, t.RawTitle = string(raw), raw
			it.title = String(raw)
		case b.spec.Secrets && i == 0:
			t.Title = b.secret(SecretOutline, it.ref.Num)
			it.title = String(t.Title)
		default:
			t.Title = randomTitle(b.rng)
			it.title = b.text(t.Title)
		}
		if b.chance(30) {
			t.Color = &[3]float64{float64(b.rng.IntN(11)) / 10, float64(b.rng.IntN(11)) / 10, float64(b.rng.IntN(11)) / 10}
		}
		if b.chance(40) {
			t.Bold, t.Italic = b.coin(), b.coin()
		}
		t.ViaAction = b.chance(35)
		it.t = t
	}
	// visible descendants when open
	var visible func(it *olItem) int
	visible = func(it *olItem) int {
		n := 0
		for _, k := range it.kids {
			n++
			if k.t.Open {
				n += visible(k)
			}
		}
		return n
	}
	var write func(items []*olItem, parent Ref)
	write = func(items []*olItem, parent Ref) {
		for i, it := range items {
			d := D("Title", it.title, "Parent", parent)
			if i > 0 {
				d.Set("Prev", items[i-1].ref)
			}
			if i < len(items)-1 {
				d.Set("Next", items[i+1].ref)
			}
			if len(it.kids) > 0 {
				d.Set("First", it.kids[0].ref)
				d.Set("Last", it.kids[len(it.kids)-1].ref)
				c := visible(it)
				if !it.t.Open {
					c = -c
				}
				d.Set("Count", Int(c))
			}
			dest := b.randomDest(it.t.Page)
			if it.t.ViaAction {
				d.Set("A", D("Type", Name("Action"), "S", Name("GoTo"), "D", dest))
			} else {
				d.Set("Dest", dest)
			}
			if c := it.t.Color; c != nil {
				d.Set("C", Array{num(c[0]), num(c[1]), num(c[2])})
				b.needVersion("1.4")
			}
			if f := boolBit(it.t.Italic, 1) | boolBit(it.t.Bold, 2); f != 0 || b.chance(10) {
				d.Set("F", Int(f))
				b.needVersion("1.4")
			}
			b.doc.Put(it.ref, d)
			b.truth.Objs.OutlineItems = append(b.truth.Objs.OutlineItems, it.ref.Num)
			write(it.kids, it.ref)
		}
	}
	write(top, rootRef)
	rootCount := 0
	for _, it := range top {
		rootCount++
		if it.t.Open {
			rootCount += visible(it)
		}
	}
	root := D("Type", Name("Outlines"), "First", top[0].ref, "Last", top[len(top)-1].ref, "Count", Int(rootCount))
	b.doc.Put(rootRef, root)
	b.catalog.Set("Outlines", rootRef)
	var toTruth func(items []*olItem) []*OutlineTruth
	toTruth = func(items []*olItem) []*OutlineTruth {
		var out []*OutlineTruth
		for _, it := range items {
			it.t.Kids = toTruth(it.kids)
			out = append(out, it.t)
		}
		return out
	}
	b.truth.Outlines = toTruth(top)
}

func boolBit(v bool, bit int) int {
	if v {
		return bit
	}
	return 0
}

// ---------------------------------------------------------------------------
// name trees

// NameTreeEntry is one key/value pair of a name tree.
type NameTreeEntry struct {
	Key []byte
	Val Object
}

// BuildNameTree adds a name tree to doc: entries are sorted by key (bytewise),
// packed into leaves of at most leafMax entries, and leaves are grouped under
// intermediate /Kids nodes (at most max(2, leafMax) kids each) with /Limits.
// It returns the root reference and the object numbers of all nodes.
func BuildNameTree(doc *Doc, entries []NameTreeEntry, leafMax int, hexKeys func() bool) (Ref, []int) {
	if leafMax <= 0 {
		leafMax = 4
	}
	es := append([]NameTreeEntry(nil), entries...)
	sort.SliceStable(es, func(i, j int) bool { return bytes.Compare(es[i].Key, es[j].Key) < 0 })
	key := func(k []byte) Object {
		if hexKeys != nil && hexKeys() {
			return HexString(k)
		}
		return String(k)
	}
	type node struct {
		ref         Ref
		first, last []byte
	}
	var nodes []int
	names := func(es []NameTreeEntry) Array {
		var a Array
		for _, e := range es {
			a = append(a, key(e.Key), e.Val)
		}
		return a
	}
	if len(es) <= leafMax {
		r := doc.Add(D("Names", names(es)))
		return r, []int{r.Num}
	}
	var level []node
	for i := 0; i < len(es); i += leafMax {
		chunk := es[i:min(i+leafMax, len(es))]
		first, last := chunk[0].Key, chunk[len(chunk)-1].Key
		r := doc.Add(D("Limits", Array{key(first), key(last)}, "Names", names(chunk)))
		nodes = append(nodes, r.Num)
		level = append(level, node{r, first, last})
	}
	fan := max(2, leafMax)
	for len(level) > fan {
		var up []node
		for i := 0; i < len(level); i += fan {
			chunk := level[i:min(i+fan, len(level))]
			var kids Array
			for _, n := range chunk {
				kids = append(kids, n.ref)
			}
			first, last := chunk[0].first, chunk[len(chunk)-1].last
			r := doc.Add(D("Limits", Array{key(first), key(last)}, "Kids", kids))
			nodes = append(nodes, r.Num)
			up = append(up, node{r, first, last})
		}
		level = up
	}
	var kids Array
	for _, n := range level {
		kids = append(kids, n.ref)
	}
	root := doc.Add(D("Kids", kids))
	nodes = append([]int{root.Num}, nodes...)
	return root, nodes
}

func (b *builder) buildNames() {
	names := Dict{}
	files := append([]EmbeddedFileSpec(nil), b.spec.EmbeddedFiles...)
	for i := 0; i < b.spec.RandomFiles; i++ {
		name := fmt.Sprintf("file-%03d-%s.%s", i, strings.ToLower(hexMarker(b.rng)[:6]), []string{"txt", "bin", "dat"}[b.rng.IntN(3)])
		f := EmbeddedFileSpec{F: []byte(name), Data: b.randBytes(b.rng.IntN(1500))}
		if b.chance(50) {
			u := name
			if b.chance(40) {
				u = "données-" + name
			}
			f.UF = EncodeText(u)
			if b.chance(40) {
				f.UF = EncodeUTF16(u)
			}
		}
		if b.chance(50) {
			f.Desc = "attachment " + randomTitle(b.rng)
		}
		files = append(files, f)
	}
	if b.spec.Secrets {
		f := EmbeddedFileSpec{}
		// the secret markers get their object numbers below
		f.F = []byte(b.secret(SecretFileName, 0) + ".txt")
		f.Key = []byte(b.secret(SecretNameKey, 0))
		f.Data = []byte("attached secret " + b.secret(SecretFileData, 0) + "\n")
		files = append(files, f)
	}
	leafMax := b.spec.NameTreeLeafMax
	if len(files) > 0 {
		var entries []NameTreeEntry
		for _, f := range files {
			key := f.Key
			if key == nil {
				key = f.F
			}
			params := D("Size", Int(len(f.Data)))
			if b.chance(50) {
				params.Set("ModDate", String(randomDate(b.rng)))
			}
			sd := D("Type", Name("EmbeddedFile"), "Params", params)
			if b.chance(40) {
				sd.Set("Subtype", Name("application/octet-stream"))
			}
			sref := b.doc.Add(b.stream(sd, f.Data, classBinary))
			spec := D("Type", Name("Filespec"), "F", String(f.F))
			ef := D("F", sref)
			if f.UF != nil {
				spec.Set("UF", String(f.UF))
				ef.Set("UF", sref)
				b.needVersion("1.7")
			}
			spec.Set("EF", ef)
			if f.Desc != "" {
				spec.Set("Desc", b.text(f.Desc))
				b.needVersion("1.6")
			}
			fref := b.doc.Add(spec)
			entries = append(entries, NameTreeEntry{key, fref})
			b.truth.EmbeddedFiles = append(b.truth.EmbeddedFiles, EmbeddedFileTruth{
				Key: key, F: f.F, UF: f.UF, Desc: f.Desc, Data: f.Data, SpecObj: fref.Num, StreamObj: sref.Num})
			for i := range b.truth.Secrets {
				s := &b.truth.Secrets[i]
				if s.ObjNum != 0 {
					continue
				}
				switch s.Kind {
				case SecretFileName:
					s.ObjNum = fref.Num
				case SecretFileData:
					s.ObjNum = sref.Num
				}
			}
		}
		sort.SliceStable(b.truth.EmbeddedFiles, func(i, j int) bool {
			return bytes.Compare(b.truth.EmbeddedFiles[i].Key, b.truth.EmbeddedFiles[j].Key) < 0
		})
		root, nodes := BuildNameTree(b.doc, entries, leafMax, func() bool { return b.chance(20) })
		b.truth.Objs.EFTreeRoot, b.truth.Objs.EFTreeNodes = root.Num, nodes
		for i := range b.truth.Secrets {
			if s := &b.truth.Secrets[i]; s.Kind == SecretNameKey && s.ObjNum == 0 {
				s.ObjNum = root.Num // somewhere in this tree
			}
		}
		names.Set("EmbeddedFiles", root)
		b.needVersion("1.4")
	}
	if b.spec.Dests > 0 {
		var entries []NameTreeEntry
		for i := 0; i < b.spec.Dests; i++ {
			name := fmt.Sprintf("dest-%03d-%s", i, hexMarker(b.rng)[:8])
			page := b.rng.IntN(len(b.pages))
			var val Object = b.randomDest(page)
			if b.chance(30) {
				val = D("D", val)
			}
			if b.chance(30) {
				val = b.doc.Add(val)
			}
			entries = append(entries, NameTreeEntry{[]byte(name), val})
			b.truth.Dests = append(b.truth.Dests, DestTruth{name, page})
		}
		sort.Slice(b.truth.Dests, func(i, j int) bool { return b.truth.Dests[i].Name < b.truth.Dests[j].Name })
		root, nodes := BuildNameTree(b.doc, entries, leafMax, nil)
		b.truth.Objs.DestTreeRoot, b.truth.Objs.DestTreeNodes = root.Num, nodes
		names.Set("Dests", root)
	}
	if len(names) == 0 {
		return
	}
	if b.coin() {
		r := b.doc.Add(names)
		b.truth.Objs.Names = r.Num
		b.catalog.Set("Names", r)
	} else {
		b.catalog.Set("Names", names)
	}
}

// ---------------------------------------------------------------------------
// annotations

func (b *builder) addAnnot(page int, d Dict, t AnnotTruth) Ref {
	r := b.doc.Add(d)
	t.ObjNum = r.Num
	b.pages[page].annots = append(b.pages[page].annots, r)
	b.truth.Pages[page].Annots = append(b.truth.Pages[page].Annots, t)
	return r
}

func (b *builder) randomRect() [4]float64 {
	x, y := float64(20+b.rng.IntN(300)), float64(20+b.rng.IntN(600))
	return [4]float64{x, y, x + float64(20+b.rng.IntN(100)), y + float64(12+b.rng.IntN(40))}
}

func rectArr(r [4]float64) Array { return Rect(r[0], r[1], r[2], r[3]) }

func (b *builder) buildAnnotations() {
	secretDone := !b.spec.Secrets
	for i := range b.pages {
		if i > 0 && !b.chance(50) {
			continue
		}
		if b.chance(70) || !secretDone {
			contents := "note " + randomTitle(b.rng)
			rect := b.randomRect()
			ref := b.doc.Alloc()
			if !secretDone {
				contents = b.secret(SecretAnnot, ref.Num)
				secretDone = true
			}
			d := D("Type", Name("Annot"), "Subtype", Name("Text"), "Rect", rectArr(rect),
				"Contents", b.text(contents), "Name", Name([]string{"Note", "Comment", "Help"}[b.rng.IntN(3)]),
				"Open", Bool(b.coin()), "F", Int(4), "M", String(randomDate(b.rng)), "T", b.text("author "+randomTitle(b.rng)))
			if b.coin() {
				d.Set("C", A(1, 1, 0))
			}
			d.Set("P", b.pageRef(i))
			b.doc.Put(ref, d)
			b.pages[i].annots = append(b.pages[i].annots, ref)
			b.truth.Pages[i].Annots = append(b.truth.Pages[i].Annots, AnnotTruth{ObjNum: ref.Num, Subtype: "Text", Contents: contents, Rect: rect})
		}
		if b.chance(60) {
			contents := "link " + randomTitle(b.rng)
			rect := b.randomRect()
			d := D("Type", Name("Annot"), "Subtype", Name("Link"), "Rect", rectArr(rect),
				"Border", A(0, 0, 0), "Contents", b.text(contents), "H", Name("I"))
			if b.coin() {
				d.Set("Dest", b.randomDest(b.rng.IntN(len(b.pages))))
			} else {
				d.Set("A", D("Type", Name("Action"), "S", Name("URI"), "URI", String(fmt.Sprintf("https://example.invalid/%d", b.rng.IntN(1000)))))
			}
			b.addAnnot(i, d, AnnotTruth{Subtype: "Link", Contents: contents, Rect: rect})
		}
	}
}

// ---------------------------------------------------------------------------
// AcroForm, signature fields

func (b *builder) helvetica() Ref {
	if b.helv.Num == 0 {
		b.helv = b.font("Helvetica")
	}
	return b.helv
}

func (b *builder) appearance(w, h float64, content string) Ref {
	d := D("Type", Name("XObject"), "Subtype", Name("Form"), "BBox", Rect(0, 0, w, h),
		"Resources", D("Font", D("Helv", b.helvetica()), "ProcSet", Array{Name("PDF"), Name("Text")}))
	return b.doc.Add(b.stream(d, []byte(content), classContent))
}

func escapeForContent(s string) string { return string(EscapeLiteral([]byte(s))) }

func (b *builder) buildForm() {
	form := D("DA", String("/Helv 0 Tf 0 g"), "DR", D("Font", D("Helv", b.helvetica())))
	var top Array
	widget := func(page int, rect [4]float64, fullName string, d *Dict) {
		d.Set("Type", Name("Annot"))
		d.Set("Subtype", Name("Widget"))
		d.Set("Rect", rectArr(rect))
		d.Set("P", b.pageRef(page))
		d.Set("F", Int(4))
	}
	register := func(page int, ref Ref, rect [4]float64, fullName string) {
		b.pages[page].annots = append(b.pages[page].annots, ref)
		b.truth.Pages[page].Annots = append(b.truth.Pages[page].Annots, AnnotTruth{ObjNum: ref.Num, Subtype: "Widget", Rect: rect, Field: fullName})
		b.truth.Objs.FieldObjs = append(b.truth.Objs.FieldObjs, ref.Num)
	}
	textField := func(name, prefix string, parent Ref) Ref {
		page := b.rng.IntN(len(b.pages))
		rect := b.randomRect()
		ref := b.doc.Alloc()
		val, def := "value "+randomTitle(b.rng), "default"
		if b.spec.Secrets && !b.hasSecret(SecretFieldV) {
			val = b.secret(SecretFieldV, ref.Num)
			def = b.secret(SecretFieldDV, ref.Num)
		}
		w, h := rect[2]-rect[0], rect[3]-rect[1]
		// the appearance shows an ASCII rendering only (content streams are not text strings)
		ap := b.appearance(w, h, "/Tx BMC\nq\nBT\n/Helv 10 Tf\n2 4 Td\n"+escapeForContent(asciiOnly(val))+" Tj\nET\nQ\nEMC\n")
		d := D("FT", Name("Tx"), "T", b.text(name), "V", b.text(val), "DV", b.text(def),
			"DA", String("/Helv 10 Tf 0 g"), "AP", D("N", ap))
		if b.chance(30) {
			d.Set("Ff", Int(4096)) // multiline
		}
		if b.chance(30) {
			d.Set("TU", b.text("tooltip "+name))
		}
		if parent.Num != 0 {
			d.Set("Parent", parent)
		}
		widget(page, rect, prefix+name, &d)
		b.doc.Put(ref, d)
		register(page, ref, rect, prefix+name)
		b.truth.Fields = append(b.truth.Fields, FieldTruth{ObjNum: ref.Num, FullName: prefix + name, Type: "Tx", Value: val, Default: def, Page: page})
		return ref
	}
	checkBox := func(name, prefix string, parent Ref) Ref {
		page := b.rng.IntN(len(b.pages))
		x, y := float64(30+b.rng.IntN(300)), float64(30+b.rng.IntN(600))
		rect := [4]float64{x, y, x + 12, y + 12}
		on := b.coin()
		state := "Off"
		if on {
			state = "Yes"
		}
		yes := b.appearance(12, 12, "q\n0 0 1 rg\nBT\n/Helv 10 Tf\n2 2 Td\n(X) Tj\nET\nQ\n")
		off := b.appearance(12, 12, "q\nQ\n")
		d := D("FT", Name("Btn"), "T", b.text(name), "V", Name(state), "AS", Name(state),
			"AP", D("N", D("Yes", yes, "Off", off)), "MK", D("CA", String("4")))
		if parent.Num != 0 {
			d.Set("Parent", parent)
		}
		widget(page, rect, prefix+name, &d)
		ref := b.doc.Add(d)
		register(page, ref, rect, prefix+name)
		b.truth.Fields = append(b.truth.Fields, FieldTruth{ObjNum: ref.Num, FullName: prefix + name, Type: "Btn", Value: state, Default: "", Page: page})
		return ref
	}
	choiceField := func(name string) Ref {
		page := b.rng.IntN(len(b.pages))
		rect := b.randomRect()
		ref := b.doc.Alloc()
		opts := Array{}
		first := ""
		for i := 0; i < 3; i++ {
			exp, disp := fmt.Sprintf("opt%d", i), "Option "+randomTitle(b.rng)
			if b.spec.Secrets {
				exp, disp = b.secret(SecretNested, ref.Num), b.secret(SecretNested, ref.Num)
			}
			if i == 0 {
				first = exp
			}
			opts = append(opts, Array{String(exp), b.text(disp)})
		}
		d := D("FT", Name("Ch"), "Ff", Int(1<<17), "T", b.text(name), "Opt", opts, "V", String(first),
			"DA", String("/Helv 10 Tf 0 g"))
		widget(page, rect, name, &d)
		b.doc.Put(ref, d)
		register(page, ref, rect, name)
		b.truth.Fields = append(b.truth.Fields, FieldTruth{ObjNum: ref.Num, FullName: name, Type: "Ch", Value: first, Page: page})
		return ref
	}

	if b.spec.Form || b.spec.Secrets {
		n := 1 + b.rng.IntN(4)
		for i := 0; i < n; i++ {
			if b.coin() {
				top = append(top, textField(fmt.Sprintf("text%d", i), "", Ref{}))
			} else {
				top = append(top, checkBox(fmt.Sprintf("check%d", i), "", Ref{}))
			}
		}
		if b.spec.Secrets && !b.hasSecret(SecretFieldV) {
			top = append(top, textField("secrettext", "", Ref{}))
		}
		// a non-terminal field with kids
		if b.chance(60) {
			gref := b.doc.Alloc()
			var kids Array
			for i := 0; i < 1+b.rng.IntN(3); i++ {
				if b.coin() {
					kids = append(kids, textField(fmt.Sprintf("t%d", i), "group.", gref))
				} else {
					kids = append(kids, checkBox(fmt.Sprintf("c%d", i), "group.", gref))
				}
			}
			b.doc.Put(gref, D("T", String("group"), "Kids", kids))
			b.truth.Objs.FieldObjs = append(b.truth.Objs.FieldObjs, gref.Num)
			top = append(top, gref)
		}
		if b.spec.Secrets || b.chance(30) {
			top = append(top, choiceField("choice"))
		}
	}

	if n := b.spec.Signatures; n > 0 {
		b.needVersion("1.5")
		form.Set("SigFlags", Int(3))
		perms := Dict{}
		var nested Array
		nref := b.doc.Alloc()
		for i := 0; i < n; i++ {
			page := (i * 2) % len(b.pages) // spread over several pages
			name := fmt.Sprintf("Signature%d", i+1)
			rect := [4]float64{0, 0, 0, 0}
			if b.coin() {
				rect = b.randomRect()
			}
			sig := D("Type", Name("Sig"), "Filter", Name("Adobe.PPKLite"), "SubFilter", Name("adbe.pkcs7.detached"),
				"ByteRange", A(0, 1000, 3050, 500), "Contents", HexString(make([]byte, 1024)),
				"M", String(randomDate(b.rng)), "Name", b.text("Signer "+randomTitle(b.rng)), "Reason", b.text("verif"))
			st := SignatureTruth{Page: page}
			if i == 0 {
				sig.Set("Reference", Array{D("Type", Name("SigRef"), "TransformMethod", Name("DocMDP"),
					"TransformParams", D("Type", Name("TransformParams"), "P", Int(2), "V", Name("1.2")))})
				st.DocMDP = true
			}
			sref := b.doc.Add(sig)
			if i == 0 {
				perms.Set("DocMDP", sref)
			}
			d := D("FT", Name("Sig"), "T", String(name), "V", sref)
			prefix := ""
			inGroup := i%2 == 1
			if inGroup {
				d.Set("Parent", nref)
				prefix = "sigs."
			}
			widget(page, rect, prefix+name, &d)
			d.Set("F", Int(132))
			fref := b.doc.Add(d)
			register(page, fref, rect, prefix+name)
			st.FieldObj, st.SigObj, st.FullName = fref.Num, sref.Num, prefix+name
			b.truth.Signatures = append(b.truth.Signatures, st)
			if inGroup {
				nested = append(nested, fref)
			} else {
				top = append(top, fref)
			}
		}
		if len(nested) > 0 {
			b.doc.Put(nref, D("T", String("sigs"), "Kids", nested))
			b.truth.Objs.FieldObjs = append(b.truth.Objs.FieldObjs, nref.Num)
			top = append(top, nref)
		}
		// usage rights signature, not tied to a field
		ur := D("Type", Name("Sig"), "Filter", Name("Adobe.PPKLite"), "SubFilter", Name("adbe.pkcs7.detached"),
			"ByteRange", A(0, 900, 2950, 600), "Contents", HexString(make([]byte, 1024)),
			"Reference", Array{D("Type", Name("SigRef"), "TransformMethod", Name("UR3"),
				"TransformParams", D("Type", Name("TransformParams"), "V", Name("2.2"), "Document", Array{Name("FullSave")}))})
		uref := b.doc.Add(ur)
		perms.Set("UR3", uref)
		b.truth.Signatures = append(b.truth.Signatures, SignatureTruth{SigObj: uref.Num, UR3: true, Page: -1})
		b.catalog.Set("Perms", perms)
		b.truth.Objs.Perms = true
	}
	if len(top) == 0 {
		return
	}
	form.Set("Fields", top)
	b.acroForm = form
	if b.coin() {
		r := b.doc.Add(form)
		b.truth.Objs.AcroForm = r.Num
		b.catalog.Set("AcroForm", r)
	} else {
		b.catalog.Set("AcroForm", form)
	}
}

func (b *builder) hasSecret(kind string) bool {
	for _, s := range b.truth.Secrets {
		if s.Kind == kind {
			return true
		}
	}
	return false
}

func asciiOnly(s string) string {
	var sb strings.Builder
	for _, r := range s {
		if r >= 0x20 && r < 0x7f {
			sb.WriteRune(r)
		} else {
			sb.WriteByte('?')
		}
	}
	return sb.String()
}

// ---------------------------------------------------------------------------
// info, XMP, viewer preferences, nested secrets, garbage

func (b *builder) setInfo(d *Dict, key, val string) {
	d.Set(Name(key), b.text(val))
	if _, ok := b.truth.Info[key]; !ok {
		b.truth.InfoKeys = append(b.truth.InfoKeys, key)
	}
	b.truth.Info[key] = val
}

func (b *builder) buildInfo() {
	d := Dict{}
	ref := b.doc.Alloc()
	for _, k := range []string{"Title", "Author", "Subject", "Keywords", "Creator", "Producer"} {
		if b.chance(75) {
			b.setInfo(&d, k, randomTitle(b.rng))
		}
	}
	if b.spec.Secrets {
		b.setInfo(&d, "Title", b.secret(SecretInfo, ref.Num))
		b.setInfo(&d, "VerifSecret", b.secret(SecretInfo, ref.Num))
	}
	for _, k := range []string{"CreationDate", "ModDate"} {
		// ModDate is required when the catalog has /PieceInfo (ISO 32000-1 Table 317)
		if b.chance(75) || b.spec.Secrets && k == "ModDate" {
			v := randomDate(b.rng)
			d.Set(Name(k), String(v))
			b.truth.Info[k] = v
			b.truth.InfoKeys = append(b.truth.InfoKeys, k)
		}
	}
	for i := 0; i < b.rng.IntN(3); i++ {
		b.setInfo(&d, fmt.Sprintf("VerifCustom%d", i), randomTitle(b.rng))
	}
	if b.chance(30) {
		d.Set("Trapped", Name([]string{"True", "False", "Unknown"}[b.rng.IntN(3)]))
	}
	if b.spec.InfoKeywords != nil {
		b.setInfo(&d, "Keywords", strings.Join(b.spec.InfoKeywords, "; "))
	}
	b.doc.Put(ref, d)
	b.doc.SetInfo(ref)
	b.truth.Objs.Info = ref.Num
}

func xmlEscape(s string) string {
	r := strings.NewReplacer("&", "&amp;", "<", "&lt;", ">", "&gt;", "\"", "&quot;")
	return r.Replace(s)
}

func (b *builder) buildXMP() {
	ref := b.doc.Alloc()
	title := b.truth.Info["Title"]
	if title == "" {
		title = "untitled"
	}
	extra := ""
	if b.spec.Secrets {
		extra = "<pdfx:VerifSecret>" + b.secret(SecretXMP, ref.Num) + "</pdfx:VerifSecret>"
	}
	kwNS, kw := "", ""
	if len(b.spec.XMPKeywords) > 0 {
		kwNS = " xmlns:pdf=\"http://ns.adobe.com/pdf/1.3/\""
		kw = "   <dc:subject><rdf:Bag>"
		for _, k := range b.spec.XMPKeywords {
			kw += "<rdf:li>" + xmlEscape(k) + "</rdf:li>"
		}
		kw += "</rdf:Bag></dc:subject>\n   <pdf:Keywords>" + xmlEscape(strings.Join(b.spec.XMPKeywords, "; ")) + "</pdf:Keywords>\n" +
			"   <pdf:Producer>pdfgen</pdf:Producer>\n"
	}
	xmp := "<?xpacket begin=\"\xef\xbb\xbf\" id=\"W5M0MpCehiHzreSzNTczkc9d\"?>\n" +
		"<x:xmpmeta xmlns:x=\"adobe:ns:meta/\">\n" +
		" <rdf:RDF xmlns:rdf=\"http://www.w3.org/1999/02/22-rdf-syntax-ns#\">\n" +
		"  <rdf:Description rdf:about=\"\" xmlns:dc=\"http://purl.org/dc/elements/1.1/\" xmlns:pdfx=\"http://ns.adobe.com/pdfx/1.3/\"" + kwNS + ">\n" +
		"   <dc:title><rdf:Alt><rdf:li xml:lang=\"x-default\">" + xmlEscape(title) + "</rdf:li></rdf:Alt></dc:title>\n" +
		kw +
		"   " + extra + "\n" +
		"  </rdf:Description>\n" +
		" </rdf:RDF>\n" +
		"</x:xmpmeta>\n" +
		strings.Repeat(strings.Repeat(" ", 99)+"\n", 2) +
		"<?xpacket end=\"w\"?>"
	b.truth.XMP = []byte(xmp)
	s := &Stream{Dict: D("Type", Name("Metadata"), "Subtype", Name("XML")), Data: []byte(xmp)}
	if b.spec.XMPPipelineSet {
		s.Filters = b.spec.XMPPipeline
	} else if b.spec.Filters >= FiltersCompat && b.chance(30) {
		s.Filters = []FilterSpec{{Kind: Flate}}
	}
	b.doc.Put(ref, s)
	b.catalog.Set("Metadata", ref)
	b.truth.Objs.Metadata = ref.Num
	b.needVersion("1.4")
}

func (b *builder) buildViewerPrefs() {
	vp := Dict{}
	set := func(k string, v Object, ver string) {
		vp.Set(Name(k), v)
		b.truth.ViewerPrefs[k] = string(Serialize(v))
		b.needVersion(ver)
	}
	for _, k := range []string{"HideToolbar", "HideMenubar", "HideWindowUI", "FitWindow", "CenterWindow"} {
		if b.chance(40) {
			set(k, Bool(b.coin()), "1.2")
		}
	}
	if b.chance(40) {
		set("DisplayDocTitle", Bool(b.coin()), "1.4")
	}
	if b.chance(40) {
		set("NonFullScreenPageMode", Name([]string{"UseNone", "UseOutlines", "UseThumbs"}[b.rng.IntN(3)]), "1.2")
	}
	if b.chance(40) {
		set("Direction", Name([]string{"L2R", "R2L"}[b.rng.IntN(2)]), "1.3")
	}
	if b.chance(30) {
		set("PrintScaling", Name([]string{"None", "AppDefault"}[b.rng.IntN(2)]), "1.6")
	}
	if b.chance(30) {
		set("Duplex", Name([]string{"Simplex", "DuplexFlipShortEdge", "DuplexFlipLongEdge"}[b.rng.IntN(3)]), "1.7")
	}
	if b.chance(30) {
		set("NumCopies", Int(1+b.rng.IntN(5)), "1.7")
	}
	if len(vp) > 0 {
		if b.coin() {
			b.catalog.Set("ViewerPreferences", b.doc.Add(vp))
		} else {
			b.catalog.Set("ViewerPreferences", vp)
		}
	}
	if b.chance(70) {
		layouts := []string{"SinglePage", "OneColumn", "TwoColumnLeft", "TwoColumnRight"}
		v := layouts[b.rng.IntN(len(layouts))]
		b.catalog.Set("PageLayout", Name(v))
		b.truth.PageLayout = v
	}
	if b.chance(70) {
		modes := []string{"UseNone", "UseOutlines", "UseThumbs", "FullScreen"}
		v := modes[b.rng.IntN(len(modes))]
		b.catalog.Set("PageMode", Name(v))
		b.truth.PageMode = v
	}
}

// buildNestedSecrets plants markers inside nested arrays and dictionaries of
// application-private data (catalog /PieceInfo, ISO 32000-1 14.5).
func (b *builder) buildNestedSecrets() {
	ref := b.doc.Alloc()
	priv := D("Deep", Array{
		Array{String(b.secret(SecretNested, ref.Num)), Array{Array{HexString(b.secret(SecretNested, ref.Num))}}},
		D("K", String(b.secret(SecretNested, ref.Num)), "A", Array{Int(1), D("Z", String(b.secret(SecretNested, ref.Num)))}),
	})
	b.doc.Put(ref, D("LastModified", String(randomDate(b.rng)), "Private", priv))
	b.catalog.Set("PieceInfo", D("VERIF", ref))
	// a plain non-stream object with a string: ends up inside an object stream
	// whenever the writer uses object streams
	oref := b.doc.Alloc()
	b.doc.Put(oref, D("LastModified", String(randomDate(b.rng)), "Private", String(b.secret(SecretObjStmMember, oref.Num))))
	pi, _ := b.catalog.Get("PieceInfo")
	b.catalog.Set("PieceInfo", pi.(Dict).With("VERIF2", oref))
	b.needVersion("1.4")
}

func (b *builder) buildGarbage() {
	for i := 0; i < 1+b.rng.IntN(4); i++ {
		var r Ref
		switch b.rng.IntN(4) {
		case 0:
			r = b.doc.Add(D("Garbage", Int(b.rng.IntN(1000)), "Text", String("unreferenced "+randomTitle(b.rng))))
		case 1:
			r = b.doc.Add(b.stream(D("Garbage", Bool(true)), b.randBytes(b.rng.IntN(300)), classBinary))
		case 2:
			r = b.doc.Add(Array{Int(1), Real(2.5), Name("Three"), Null{}, Bool(false)})
		default:
			// an unreferenced copy of a font: tempting for de-duplication
			r = b.doc.Add(b.fontDict("Helvetica", b.fontDescs["Helvetica"]))
		}
		b.truth.Unreferenced = append(b.truth.Unreferenced, r.Num)
	}
}

// ---------------------------------------------------------------------------
// incremental updates

func (b *builder) buildUpdate(i int) {
	b.doc.AppendUpdate(nil)
	did := false
	// rewrite the info dictionary with a changed /Subject
	if b.truth.Objs.Info != 0 && b.chance(60) {
		d, _ := b.doc.GetDict(b.truth.Objs.Info)
		d = d.Clone()
		b.setInfo(&d, "Subject", fmt.Sprintf("update %d %s", i+1, randomTitle(b.rng)))
		b.doc.Put(Ref{b.truth.Objs.Info, 0}, d)
		did = true
	}
	// rewrite a page's first content stream with the same bytes, other filters
	if b.chance(60) {
		pt := &b.truth.Pages[b.rng.IntN(len(b.truth.Pages))]
		old := b.doc.Get(pt.ContentObj[0]).(*Stream)
		s := &Stream{Dict: old.Dict.Clone(), Data: old.Data}
		if b.spec.Filters != FiltersNone {
			s.Filters = []FilterSpec{{Kind: Flate, Level: 9}}
		}
		b.doc.Put(Ref{pt.ContentObj[0], 0}, s)
		did = true
	}
	// reuse an object number freed by an earlier update, with the next generation
	if len(b.freed) > 0 && b.chance(60) {
		n := b.freed[0]
		b.freed = b.freed[1:]
		b.doc.Put(Ref{n, 1}, D("Reused", Int(i+1), "Text", String("generation 1")))
		b.truth.Unreferenced = append(b.truth.Unreferenced, n)
		did = true
	}
	// free one unreferenced object (generation 0 ones only: keeps Free's gen+1 = 1)
	for k, n := range b.truth.Unreferenced {
		if !b.chance(60) || b.reused[n] {
			continue
		}
		b.truth.Unreferenced = append(b.truth.Unreferenced[:k:k], b.truth.Unreferenced[k+1:]...)
		b.doc.Free(n)
		b.freed = append(b.freed, n)
		if b.reused == nil {
			b.reused = map[int]bool{}
		}
		b.reused[n] = true
		did = true
		break
	}
	// add a new unreferenced object
	if !did || b.chance(40) {
		r := b.doc.Add(D("AddedByUpdate", Int(i+1)))
		b.truth.Unreferenced = append(b.truth.Unreferenced, r.Num)
	}
	// touch a page object (rewritten unchanged)
	if b.chance(40) {
		n := b.truth.Objs.PageObjs[b.rng.IntN(len(b.truth.Objs.PageObjs))]
		d, _ := b.doc.GetDict(n)
		b.doc.Put(Ref{n, 0}, d.Clone())
	}
}

// ---------------------------------------------------------------------------
// header version

func versionLess(a, c string) bool {
	var a1, a2, c1, c2 int
	fmt.Sscanf(a, "%d.%d", &a1, &a2)
	fmt.Sscanf(c, "%d.%d", &c1, &c2)
	return a1 < c1 || a1 == c1 && a2 < c2
}

func (b *builder) needVersion(v string) {
	if b.minVersion == "" || versionLess(b.minVersion, v) {
		b.minVersion = v
	}
}

// ---------------------------------------------------------------------------
// optional content properties, page labels (DocSpec.OCProperties / PageLabels)

func (b *builder) buildOCProperties() {
	ocg := func(name string) Ref {
		return b.doc.Add(D("Type", Name("OCG"), "Name", String(name), "Intent", Name("View")))
	}
	g1, g2 := ocg("Layer one"), ocg("Layer two")
	b.needVersion("1.5")
	if b.spec.OCProperties == 1 {
		b.catalog.Set("OCProperties", D("OCGs", Array{g1, g2}, "D", D("Order", Array{g1, g2}, "ON", Array{g1, g2})))
		return
	}
	g3 := ocg("Layer three")
	all := Array{g1, g2, g3}
	as := func(ev string) Dict { return D("Event", Name(ev), "Category", Array{Name(ev)}, "OCGs", Array{g1, g3}) }
	def := D("Name", String("Default"), "Creator", String("pdfgen"), "BaseState", Name("ON"),
		"Order", Array{g1, Array{String("Group"), g2, g3}}, "ON", Array{g1, g2}, "OFF", Array{g3},
		"AS", Array{as("View"), as("Print"), as("Export")}, "RBGroups", Array{Array{g2, g3}}, "Locked", Array{g1}, "ListMode", Name("AllPages"))
	alt := D("Name", String("Alternative"), "BaseState", Name("OFF"), "ON", Array{g3}, "Order", Array{g3})
	b.catalog.Set("OCProperties", b.doc.Add(D("OCGs", b.doc.Add(all), "D", def, "Configs", Array{b.doc.Add(alt)})))
}

func (b *builder) buildPageLabels() {
	n := len(b.pages)
	lab := func(style string, st int, prefix string) Dict {
		d := D("Type", Name("PageLabel"))
		if style != "" {
			d.Set("S", Name(style))
		}
		if st > 1 {
			d.Set("St", Int(st))
		}
		if prefix != "" {
			d.Set("P", String(prefix))
		}
		return d
	}
	b.needVersion("1.3")
	ranges := []struct {
		from int
		d    Dict
	}{{0, lab("r", 0, "")}}
	if n > 2 {
		ranges = append(ranges, struct {
			from int
			d    Dict
		}{2, lab("D", 1, "")})
	}
	if n > 5 {
		ranges = append(ranges, struct {
			from int
			d    Dict
		}{5, lab("A", 3, "App-")})
	}
	if b.spec.PageLabels == 1 {
		var nums Array
		for _, r := range ranges {
			nums = append(nums, Int(r.from), r.d)
		}
		b.catalog.Set("PageLabels", D("Nums", nums))
		return
	}
	// one leaf per range under an intermediate node
	var kids Array
	for _, r := range ranges {
		kids = append(kids, b.doc.Add(D("Limits", Array{Int(r.from), Int(r.from)}, "Nums", Array{Int(r.from), b.doc.Add(r.d)})))
	}
	last := ranges[len(ranges)-1].from
	mid := b.doc.Add(D("Limits", Array{Int(0), Int(last)}, "Kids", kids))
	b.catalog.Set("PageLabels", b.doc.Add(D("Kids", Array{mid})))
}
