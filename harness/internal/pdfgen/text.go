package pdfgen

import (
	"fmt"
	"math/rand/v2"
	"unicode/utf16"
)

// pdfDocSpecial maps the non-Latin-1 part of PDFDocEncoding that we use.
var pdfDocSpecial = map[rune]byte{
	0x2022: 0x80, // bullet
	0x2020: 0x81, // dagger
	0x2021: 0x82, // double dagger
	0x2026: 0x83, // ellipsis
	0x2014: 0x84, // em dash
	0x2013: 0x85, // en dash
	0x20AC: 0xA0, // euro
}

func pdfDocByte(r rune) (byte, bool) {
	switch {
	case r >= 0x20 && r <= 0x7e:
		return byte(r), true
	case r >= 0xa1 && r <= 0xff && r != 0xad:
		return byte(r), true
	}
	b, ok := pdfDocSpecial[r]
	return b, ok
}

// EncodeText encodes s as a PDF text string: PDFDocEncoding when every rune is
// representable, else UTF-16BE with byte order mark.
func EncodeText(s string) String {
	out := make([]byte, 0, len(s))
	for _, r := range s {
		b, ok := pdfDocByte(r)
		if !ok {
			return EncodeUTF16(s)
		}
		out = append(out, b)
	}
	return String(out)
}

// EncodeUTF16 encodes s as UTF-16BE with BOM (FE FF).
func EncodeUTF16(s string) String {
	u := utf16.Encode([]rune(s))
	out := make([]byte, 0, 2+2*len(u))
	out = append(out, 0xfe, 0xff)
	for _, c := range u {
		out = append(out, byte(c>>8), byte(c))
	}
	return String(out)
}

// PDFDate formats a date string D:YYYYMMDDHHmmSS+HH'mm'.
func PDFDate(year, month, day, hour, min, sec, tzMinutes int) string {
	sign := '+'
	if tzMinutes < 0 {
		sign = '-'
		tzMinutes = -tzMinutes
	}
	// Note: UT is written +00'00', not "Z": pdfcpu's strict mode rejects a
	// date that ends in a bare "Z" (which ISO 32000-1 7.9.4 allows).
	return fmt.Sprintf("D:%04d%02d%02d%02d%02d%02d%c%02d'%02d'", year, month, day, hour, min, sec, sign, tzMinutes/60, tzMinutes%60)
}

func randomDate(rng *rand.Rand) string {
	tz := []int{0, 60, -300, 330, 120, -480}[rng.IntN(6)]
	return PDFDate(1995+rng.IntN(35), 1+rng.IntN(12), 1+rng.IntN(28), rng.IntN(24), rng.IntN(60), rng.IntN(60), tz)
}

var titleAlphabets = [][]rune{
	[]rune("abcdefghijklmnopqrstuvwxyz ABCDEFGHIJKLMNOPQRSTUVWXYZ 0123456789"),
	[]rune("àáâãäåæçèéêëìíîïñòóôõöøùúûüýÿ ÀÉÖÜß"),                 // PDFDocEncoding (Latin-1 part)
	[]rune("αβγδεζηθικλμνξοπρστυφχψω ΑΒΓΔ"),                       // Greek → UTF-16
	[]rune("абвгдежзийклмнопрстуфхцчшщъыьэюя"),                    // Cyrillic
	[]rune("日本語中文字漢字かなカナ한국어"),                                     // CJK
	[]rune{0x1F600, 0x1F4A1, 0x1D11E, 0x1F30D, 'x', ' ', 0x10348}, // astral (surrogate pairs)
	[]rune("()\\<>[]{}/%#"), // PDF delimiters
}

// randomTitle draws a Unicode title. It never starts or ends with a space
// and never contains control characters.
func randomTitle(rng *rand.Rand) string {
	var rs []rune
	n := 1 + rng.IntN(20)
	ab := titleAlphabets[rng.IntN(len(titleAlphabets))]
	for i := 0; i < n; i++ {
		if rng.IntN(8) == 0 {
			ab = titleAlphabets[rng.IntN(len(titleAlphabets))]
		}
		rs = append(rs, ab[rng.IntN(len(ab))])
	}
	for len(rs) > 0 && rs[0] == ' ' {
		rs = rs[1:]
	}
	for len(rs) > 0 && rs[len(rs)-1] == ' ' {
		rs = rs[:len(rs)-1]
	}
	if len(rs) == 0 {
		rs = []rune{'T'}
	}
	return string(rs)
}

func hexMarker(rng *rand.Rand) string {
	return fmt.Sprintf("%016X%016X", rng.Uint64(), rng.Uint64())
}

// PageMarkerPrefix and SecretPrefix start every page marker / secret marker.
const (
	PageMarkerPrefix = "VERIF-PAGE-"
	SecretPrefix     = "VSEC-"
)
