package pdfgen

import (
	"bytes"
	"fmt"
	"math/rand/v2"
	"os"
	"path/filepath"
	"runtime/debug"
	"strings"
	"testing"

	"github.com/pdfcpu/pdfcpu/pkg/api"
	"github.com/pdfcpu/pdfcpu/pkg/pdfcpu/model"
	"github.com/pdfcpu/pdfcpu/pkg/pdfcpu/types"
)

func init() { api.DisableConfigDir() }

func strictConf() *model.Configuration {
	conf := model.NewDefaultConfiguration()
	conf.ValidationMode = model.ValidationStrict
	conf.Offline = true
	return conf
}

// guarded runs f and converts a panic into an error carrying the stack.
func guarded(f func() error) (err error, panicked bool) {
	defer func() {
		if r := recover(); r != nil {
			err = fmt.Errorf("PANIC: %v\n%s", r, debug.Stack())
			panicked = true
		}
	}()
	return f(), false
}

func validateStrict(b []byte) error {
	err, _ := guarded(func() error { return api.Validate(bytes.NewReader(b), strictConf()) })
	return err
}

func pageCount(b []byte) (int, error) { return api.PageCount(bytes.NewReader(b), strictConf()) }

func dumpFailure(t *testing.T, name string, b []byte) string {
	dir := filepath.Join(os.TempDir(), "pdfgen-failures")
	os.MkdirAll(dir, 0o755)
	p := filepath.Join(dir, name+".pdf")
	os.WriteFile(p, b, 0o644)
	return p
}

func describeSpec(s DocSpec) string {
	w := s.Write
	w.ObjStmSelect = nil
	return fmt.Sprintf("seed=%d pages=%d filters=%d opts=%+v", s.Seed, s.Pages, s.Filters, w)
}

func checkBuilt(t *testing.T, tag string, bt *Built, withContent bool) bool {
	t.Helper()
	if err := validateStrict(bt.Bytes); err != nil {
		p := dumpFailure(t, tag, bt.Bytes)
		t.Errorf("%s: strict validation failed: %v\n  spec: %s\n  file: %s", tag, err, describeSpec(bt.Spec), p)
		return false
	}
	n, err := api.PageCount(bytes.NewReader(bt.Bytes), strictConf())
	if err != nil || n != len(bt.Truth.Pages) {
		t.Errorf("%s: PageCount = %d, %v; truth %d", tag, n, err, len(bt.Truth.Pages))
		return false
	}
	if withContent {
		return checkContent(t, tag, bt)
	}
	return true
}

// checkContent reads the document with pdfcpu and compares, page by page,
// marker, effective boxes and rotation with the truth.
func checkContent(t *testing.T, tag string, bt *Built) bool {
	t.Helper()
	ctx, err := api.ReadContext(bytes.NewReader(bt.Bytes), strictConf())
	if err != nil {
		t.Errorf("%s: ReadContext: %v", tag, err)
		return false
	}
	if err := api.ValidateContext(ctx); err != nil {
		t.Errorf("%s: ValidateContext: %v", tag, err)
		return false
	}
	ok := true
	for i, pt := range bt.Truth.Pages {
		d, _, inh, err := ctx.PageDict(i+1, false)
		if err != nil {
			t.Errorf("%s: PageDict(%d): %v", tag, i+1, err)
			return false
		}
		r, err := ctx.PageContent(d, i+1)
		if err != nil {
			t.Errorf("%s: page %d content: %v\n spec: %s\n file: %s", tag, i+1, err, describeSpec(bt.Spec), dumpFailure(t, tag, bt.Bytes))
			return false
		}
		if !bytes.Contains(r, []byte("("+pt.Marker+") Tj")) {
			t.Errorf("%s: page %d: marker %s not in content as read by pdfcpu\n spec: %s\n file: %s", tag, i+1, pt.Marker, describeSpec(bt.Spec), dumpFailure(t, tag, bt.Bytes))
			ok = false
		}
		// pdfcpu concatenates the streams of a /Contents array without a
		// separator; compare modulo white space.
		if want := pt.Content(); !bytes.Equal(squeeze(r), squeeze(want)) {
			t.Errorf("%s: page %d: content differs from truth (%d vs %d bytes)", tag, i+1, len(r), len(want))
			ok = false
		}
		mb := inh.MediaBox
		if mb == nil || mb.LL.X != pt.MediaBox[0] || mb.LL.Y != pt.MediaBox[1] || mb.UR.X != pt.MediaBox[2] || mb.UR.Y != pt.MediaBox[3] {
			t.Errorf("%s: page %d: effective MediaBox %v, truth %v", tag, i+1, mb, pt.MediaBox)
			ok = false
		}
		if (pt.Rotate%360+360)%360 != (inh.Rotate%360+360)%360 {
			t.Errorf("%s: page %d: effective Rotate %d, truth %d", tag, i+1, inh.Rotate, pt.Rotate)
			ok = false
		}
		cb := inh.CropBox
		switch {
		case pt.CropBox == nil && cb != nil:
			t.Errorf("%s: page %d: CropBox %v, truth none", tag, i+1, cb)
			ok = false
		case pt.CropBox != nil && (cb == nil || cb.LL.X != pt.CropBox[0] || cb.LL.Y != pt.CropBox[1] || cb.UR.X != pt.CropBox[2] || cb.UR.Y != pt.CropBox[3]):
			t.Errorf("%s: page %d: CropBox %v, truth %v", tag, i+1, cb, *pt.CropBox)
			ok = false
		}
		// every font / XObject name the content uses must resolve
		res := inh.Resources
		for _, f := range pt.Fonts {
			if fd := res.DictEntry("Font"); fd == nil || fd[f] == nil {
				t.Errorf("%s: page %d: font %s not in effective resources", tag, i+1, f)
				ok = false
			}
		}
		for _, x := range pt.XObjects {
			if xd := res.DictEntry("XObject"); xd == nil || xd[x] == nil {
				t.Errorf("%s: page %d: XObject %s not in effective resources", tag, i+1, x)
				ok = false
			}
		}
	}
	// A second path through pdfcpu: PageBoundaries. It is known to leak a
	// page's own MediaBox/CropBox to following siblings (shared **Rectangle in
	// collectPageBoundariesForPageTree), so mismatches are counted, not failed.
	if pbs, err := ctx.PageBoundaries(nil); err == nil && len(pbs) == len(bt.Truth.Pages) {
		for i, pt := range bt.Truth.Pages {
			mb := pbs[i].MediaBox()
			if mb == nil || mb.Width() != pt.MediaBox[2]-pt.MediaBox[0] {
				pageBoundariesMismatches++
				if pageBoundariesExample == "" {
					pageBoundariesExample = fmt.Sprintf("%s page %d: PageBoundaries MediaBox %v, effective per truth and PageDict %v", tag, i+1, mb, pt.MediaBox)
				}
			}
		}
	}
	return ok
}

var (
	pageBoundariesMismatches int
	pageBoundariesExample    string
)

func squeeze(b []byte) []byte { return bytes.Join(bytes.Fields(b), []byte(" ")) }

func mustPageDict(t *testing.T, ctx *model.Context, nr int) types.Dict {
	t.Helper()
	d, _, _, err := ctx.PageDict(nr, false)
	if err != nil {
		t.Fatalf("PageDict(%d): %v", nr, err)
	}
	return d
}

func TestMinimalDocument(t *testing.T) {
	for _, x := range []XRefKind{XRefTable, XRefStream, XRefHybrid} {
		for _, eol := range []string{"\n", "\r", "\r\n"} {
			bt := Build(DocSpec{Seed: 1, Pages: 3, Write: Options{XRef: x, EOL: eol, ObjStm: x != XRefTable}})
			checkBuilt(t, fmt.Sprintf("minimal-%v-%q", x, eol), bt, true)
		}
	}
}

func TestRandomDocumentsValidate(t *testing.T) {
	n := 400
	if testing.Short() {
		n = 60
	}
	rng := rand.New(rand.NewPCG(20260921, 1))
	fails := 0
	seen := map[string]int{}
	for i := 0; i < n && fails < 10; i++ {
		spec := RandomSpec(rng, 1+i%12)
		bt := Build(spec)
		tag := fmt.Sprintf("rand-%03d", i)
		if !checkBuilt(t, tag, bt, i%4 == 0) {
			fails++
		}
		seen["xref="+spec.Write.XRef.String()]++
		seen[fmt.Sprintf("eol=%q", spec.Write.EOL)]++
		if spec.Write.ObjStm {
			seen["objstm"]++
		}
		if spec.Updates > 0 {
			seen["updates"]++
		}
		for _, o := range bt.Doc.Revs[0].Objects {
			if s, ok := o.Obj.(*Stream); ok {
				var names []string
				for _, f := range s.Filters {
					names = append(names, strings.TrimSuffix(string(f.Kind.PDFName()), "Decode"))
					if f.hasPredictor() {
						seen[fmt.Sprintf("predictor=%d", f.Predictor)]++
					}
				}
				seen["pipeline="+strings.Join(names, "+")]++
			}
		}
	}
	t.Logf("coverage: %v", seen)
	if pageBoundariesMismatches > 0 {
		t.Logf("pdfcpu finding (not a generator fault): XRefTable.PageBoundaries disagrees with the effective MediaBox on %d pages; e.g. %s",
			pageBoundariesMismatches, pageBoundariesExample)
	}
}
