package pdfgen

// Optimiser scenarios around form XObjects WITHOUT a resource dictionary of their own that paint
// further such forms (ISO 32000-1 7.8.3: the names they use resolve against the resources of the
// page that paints them): chains of depth 1..4, a diamond (two outer forms painting the same inner
// one), chains where every level uses a page resource of its own, chains whose middle form HAS its
// own /Resources (lookups of the forms below stop there), and chains under inherited / shared page
// resources. The innermost form uses page resources of every category (Font, XObject image,
// ExtGState, ColorSpace, Pattern, Shading, Properties) that no other content stream mentions.

import (
	"fmt"
	"sort"
	"strings"
)

// OptChainScenarios are the scenarios of this file (part of OptScenarios).
var OptChainScenarios = []string{
	"form-chain-no-resources", "form-chain-diamond", "form-chain-each-level-uses",
	"form-chain-middle-own-resources", "form-chain-inherited-resources",
}

// OptChainCategories are the resource categories a chain's innermost form may draw from the page.
var OptChainCategories = []string{"Font", "XObject", "ExtGState", "ColorSpace", "Pattern", "Shading", "Properties"}

// chainRes collects the page-level resources of a chain page.
type chainRes struct {
	b    *optBuilder
	cats map[string]Dict
	n    int
}

func (b *optBuilder) newChainRes() *chainRes { return &chainRes{b: b, cats: map[string]Dict{}} }

func (r *chainRes) put(cat, name string, v Object) {
	d := r.cats[cat]
	d.Set(Name(name), v)
	r.cats[cat] = d
}

// name returns a fresh resource name; some need #xx escapes never (pdfcpu's own handling of those is
// the matter of res-name-escape), but they vary in length and case.
func (r *chainRes) name(prefix string) string {
	r.n++
	return fmt.Sprintf("%s%s%d", prefix, []string{"", "x", "Q", "_a"}[r.b.rng.IntN(4)], r.n)
}

func (r *chainRes) dict() Dict {
	out := Dict{}
	var keys []string
	for k := range r.cats {
		keys = append(keys, k)
	}
	sort.Strings(keys)
	for _, k := range keys {
		out.Set(Name(k), r.cats[k])
	}
	out.Set("ProcSet", A(Name("PDF"), Name("Text"), Name("ImageC")))
	return out
}

// use adds one page resource of category cat and returns the content that uses it.
func (r *chainRes) use(cat string) string {
	b := r.b
	switch cat {
	case "Font":
		n := r.name("F")
		r.put("Font", n, b.font(b.newFontSpec()))
		return fmt.Sprintf("BT\n/%s 9 Tf\n2 20 Td\n(inner) Tj\nET\n", n)
	case "XObject":
		n := r.name("Im")
		r.put("XObject", n, b.image(b.newImageSpec()))
		return fmt.Sprintf("q\n20 0 0 20 0 0 cm\n/%s Do\nQ\n", n)
	case "ExtGState":
		n := r.name("GS")
		var gs Object = D("Type", Name("ExtGState"), "CA", Real(0.25+float64(b.rng.IntN(50))/100), "LW", Int(1+b.rng.IntN(5)))
		if b.rng.IntN(2) == 0 {
			gs = b.doc.Add(gs)
		}
		r.put("ExtGState", n, gs)
		return fmt.Sprintf("/%s gs\n", n)
	case "ColorSpace":
		n := r.name("CS")
		cs := A(Name("CalGray"), D("WhitePoint", A(Real(0.9505), Real(1.0), Real(1.089)), "Gamma", Real(1.5+float64(b.rng.IntN(10))/10)))
		r.put("ColorSpace", n, b.doc.Add(cs))
		return fmt.Sprintf("/%s cs\n0.5 sc\n0 0 5 5 re\nf\n", n)
	case "Pattern":
		n := r.name("P")
		pat := b.doc.Add(&Stream{Dict: D("Type", Name("Pattern"), "PatternType", Int(1), "PaintType", Int(1), "TilingType", Int(1),
			"BBox", A(0, 0, 10, 10), "XStep", Int(8+b.rng.IntN(5)), "YStep", Int(10), "Resources", Dict{}), Data: []byte("0 0 5 5 re\nf\n")})
		r.put("Pattern", n, pat)
		return fmt.Sprintf("/Pattern cs\n/%s scn\n10 0 5 5 re\nf\n", n)
	case "Shading":
		n := r.name("Sh")
		sh := D("ShadingType", Int(2), "ColorSpace", Name("DeviceRGB"), "Coords", A(0, 0, 50+b.rng.IntN(50), 0),
			"Function", D("FunctionType", Int(2), "Domain", A(0, 1), "C0", A(1, 0, 0), "C1", A(0, 0, 1), "N", Int(1)))
		r.put("Shading", n, b.doc.Add(sh))
		return fmt.Sprintf("q\n0 0 20 20 re\nW n\n/%s sh\nQ\n", n)
	case "Properties":
		n := r.name("MC")
		var pl Object = D("Verif", Int(b.rng.IntN(1000)))
		if b.rng.IntN(2) == 0 {
			pl = b.doc.Add(pl)
		}
		r.put("Properties", n, pl)
		if b.rng.IntN(2) == 0 {
			return fmt.Sprintf("/Tag /%s DP\n", n)
		}
		return fmt.Sprintf("/Span /%s BDC\n0 0 3 3 re\nf\nEMC\n", n)
	}
	return ""
}

// innermost draws the categories the innermost form uses: all seven, or a non-empty subset.
func (r *chainRes) innermost() (content string, cats []string) {
	b := r.b
	cats = append([]string(nil), OptChainCategories...)
	if b.rng.IntN(2) == 0 {
		b.rng.Shuffle(len(cats), func(i, j int) { cats[i], cats[j] = cats[j], cats[i] })
		cats = cats[:1+b.rng.IntN(3)]
	}
	for _, c := range cats {
		content += r.use(c)
	}
	sort.Strings(cats)
	return content, cats
}

// bareForm writes a form XObject without /Resources.
func (b *optBuilder) bareForm(content string) Ref {
	return b.form(optForm{content: content, bbox: A(0, 0, 100, 100), filters: b.filters()})
}

func paint(name string) string { return fmt.Sprintf("q\n1 0 0 1 %d 0 cm\n/%s Do\nQ\n", 3, name) }

// chain builds a chain of depth resource-less forms under res (the innermost one first) and returns
// the page-level name of the outermost form. perLevel: every level above the innermost uses a page
// resource of its own too.
func (r *chainRes) chain(depth int, innerContent string, perLevel bool) string {
	b := r.b
	content := innerContent
	name := ""
	for level := depth; level >= 1; level-- {
		ref := b.bareForm(content)
		name = r.name("Fm")
		r.put("XObject", name, ref)
		content = paint(name)
		if b.rng.IntN(3) == 0 {
			// a sibling WITH its own resources, painted by the same (resource-less) content
			sib := r.ownResForm()
			if b.rng.IntN(2) == 0 {
				content = paint(sib) + content
			} else {
				content += paint(sib)
			}
		}
		if perLevel && level > 1 {
			content += r.use(OptChainCategories[b.rng.IntN(len(OptChainCategories))])
		}
	}
	return name
}

// ownResForm adds a form XObject that HAS its own /Resources (a font of its own under a name the page
// uses too) to the page's XObject resources and returns its name.
func (r *chainRes) ownResForm() string {
	b := r.b
	f := b.form(optForm{content: "BT\n/F1 7 Tf\n1 1 Td\n(own) Tj\nET\n", resources: D("Font", D("F1", b.font(b.newFontSpec()))), bbox: A(0, 0, 40, 40), filters: b.filters()})
	n := r.name("FmOwn")
	r.put("XObject", n, f)
	return n
}

func chainDetail(depth int, cats []string) string {
	return fmt.Sprintf("depth=%d cats=%s", depth, strings.Join(cats, ","))
}

func (b *optBuilder) chainScenario(s string) {
	f1 := b.font(b.newFontSpec())
	r := b.newChainRes()
	r.put("Font", "F1", f1)
	// listed, used by nothing: may be pruned
	r.put("Font", "Funused", b.font(b.newFontSpec()))
	pageText := func(p *optPageSpec, top ...string) {
		c := textLine("F1", p.marker, 700)
		for _, n := range top {
			c += "q\n1 0 0 1 100 400 cm\n/" + n + " Do\nQ\n"
		}
		p.content = [][]byte{[]byte(c)}
	}
	// withSibling: the page itself paints a form with own resources next to the chain(s), before or after them
	withSibling := func(top ...string) []string {
		if b.rng.IntN(2) == 0 {
			return top
		}
		sib := r.ownResForm()
		if b.rng.IntN(2) == 0 {
			return append([]string{sib}, top...)
		}
		return append(top, sib)
	}
	switch s {
	case "form-chain-no-resources":
		depth := 1 + b.rng.IntN(4)
		inner, cats := r.innermost()
		tops := withSibling(r.chain(depth, inner, false))
		p := b.addPage(nil, s, nil)
		p.resources = r.dict()
		p.detail = chainDetail(depth, cats)
		pageText(p, tops...)
	case "form-chain-each-level-uses":
		depth := 2 + b.rng.IntN(3)
		inner, cats := r.innermost()
		tops := withSibling(r.chain(depth, inner, true))
		p := b.addPage(nil, s, nil)
		p.resources = r.dict()
		p.detail = chainDetail(depth, cats)
		pageText(p, tops...)
	case "form-chain-diamond":
		// two outer forms (each under 0..2 further resource-less forms) paint the same inner form
		inner, cats := r.innermost()
		in := b.bareForm(inner)
		inName := r.name("FmIn")
		r.put("XObject", inName, in)
		var tops []string
		maxDepth := 0
		for i := 0; i < 2; i++ {
			extra := b.rng.IntN(3)
			maxDepth = max(maxDepth, 2+extra)
			tops = append(tops, r.chain(1+extra, paint(inName)+r.use("ExtGState"), false))
		}
		tops = withSibling(tops...)
		p := b.addPage(nil, s, nil)
		p.resources = r.dict()
		p.detail = chainDetail(maxDepth, cats)
		pageText(p, tops...)
	case "form-chain-middle-own-resources":
		// page -> A.. (no resources) -> M (own resources) -> C.. (no resources): the names C uses resolve
		// against M's resources; the page lists other objects under the same names, used by nothing.
		own := b.newChainRes()
		inner, cats := own.innermost()
		below := 1 + b.rng.IntN(2)
		topBelow := own.chain(below, inner, b.rng.IntN(2) == 0)
		for _, cat := range []string{"Font", "ExtGState", "Properties"} {
			for _, e := range own.cats[cat] {
				// the same names at page level, other objects: nothing resolves to them
				switch cat {
				case "Font":
					r.put(cat, string(e.Key), b.font(b.newFontSpec()))
				case "ExtGState":
					r.put(cat, string(e.Key), D("Type", Name("ExtGState"), "LW", Int(7+b.rng.IntN(3))))
				default:
					r.put(cat, string(e.Key), D("Verif", Int(1000+b.rng.IntN(100))))
				}
			}
		}
		ownRes := own.dict()
		mid := b.form(optForm{content: paint(topBelow) + "0 0 4 4 re\nf\n", resources: ownRes, bbox: A(0, 0, 100, 100), filters: b.filters()})
		midName := r.name("FmMid")
		r.put("XObject", midName, mid)
		above := 1 + b.rng.IntN(2)
		// the forms above the middle one are resource-less and use a page resource themselves
		tops := withSibling(r.chain(above, paint(midName)+r.use("Font")+r.use("ExtGState"), false))
		p := b.addPage(nil, s, nil)
		p.resources = r.dict()
		p.detail = chainDetail(above+1+below, cats) + " middle=own"
		pageText(p, tops...)
	case "form-chain-inherited-resources":
		// the resources sit on a /Pages node (or in one shared object); one page paints the chain, its
		// siblings do not
		depth := 2 + b.rng.IntN(3)
		inner, cats := r.innermost()
		tops := withSibling(r.chain(depth, inner, b.rng.IntN(2) == 0))
		var res Object = r.dict()
		if b.rng.IntN(2) == 0 {
			res = b.doc.Add(res)
		}
		var g *optGroup
		inherit := b.rng.IntN(3) != 0
		if inherit {
			g = &optGroup{ref: b.doc.Alloc(), resources: res}
			b.groups = append(b.groups, g)
		}
		n := 2 + b.rng.IntN(2)
		painter := b.rng.IntN(n)
		for i := 0; i < n; i++ {
			var p *optPageSpec
			if inherit {
				p = b.addPage(g, s, nil)
			} else {
				p = b.addPage(nil, s, res)
			}
			if i == painter {
				p.detail = chainDetail(depth, cats) + " inherited"
				pageText(p, tops...)
			} else {
				pageText(p)
			}
		}
	}
}
