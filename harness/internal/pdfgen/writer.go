package pdfgen

import (
	"bytes"
	"fmt"
	"sort"
	"strconv"
)

// XRefKind selects the cross-reference format.
type XRefKind int

const (
	// XRefTable writes classic "xref" tables and "trailer" dictionaries.
	XRefTable XRefKind = iota
	// XRefStream writes cross-reference streams (PDF 1.5).
	XRefStream
	// XRefHybrid writes classic tables plus /XRefStm streams that carry the
	// entries of objects stored in object streams (hybrid-reference file).
	XRefHybrid
)

func (k XRefKind) String() string {
	if k < 0 || int(k) > 2 {
		return "?"
	}
	return [...]string{"table", "stream", "hybrid"}[k]
}

// Encrypter is the encryption hook. Another package implements the ISO 32000
// standard security handler; the writer only decides WHAT is passed through
// it: every string and every stream's (encoded) data of every indirect object,
// except the encryption dictionary itself, cross-reference streams, signature
// /Contents, and strings inside object streams (the object stream's data is
// encrypted as a whole instead).
type Encrypter interface {
	EncryptString(objNr, gen int, b []byte) []byte
	EncryptStream(objNr, gen int, dict Dict, b []byte) []byte
	EncryptDict() Dict
}

// Options control the file structure.
type Options struct {
	Version       string // header version, default "1.7"
	EOL           string // "\n" (default), "\r" or "\r\n"
	BinaryComment bool   // binary comment line after the header
	XRef          XRefKind

	// Cross-reference streams.
	XRefStreamFlate     bool // Flate-compress xref streams
	XRefStreamPredictor bool // ... with PNG Up predictor (implies Flate)
	ExplicitIndex       bool // always write /Index

	// Object streams (need XRefStream or XRefHybrid).
	ObjStm        bool
	ObjStmMax     int              // max objects per object stream (default 100)
	ObjStmFilters []FilterSpec     // default: Flate
	ObjStmPlain   bool             // no filter at all on object streams
	ObjStmSelect  func(n int) bool // nil: every eligible object

	// HolesAsGaps: unused object numbers below /Size are left out of the
	// cross-reference section (several subsections) instead of being linked
	// into the free list.
	HolesAsGaps bool

	// HybridHiddenFree: in hybrid files list the objects that live in object
	// streams as FREE entries of the classic table instead of leaving them
	// out of the table.
	HybridHiddenFree bool

	// FilterArrayAlways writes /Filter as an array even for one filter.
	FilterArrayAlways bool
	// MultilineDicts writes each entry of a top-level dictionary on its own
	// line (exercises EOL handling inside objects).
	MultilineDicts bool

	Encrypter Encrypter
	// EncryptDirect puts the encryption dictionary directly into the trailer
	// instead of an indirect object.
	EncryptDirect bool

	Overrides *Overrides
}

func (o Options) eol() string {
	if o.EOL == "" {
		return "\n"
	}
	return o.EOL
}

// ObjLayout says where an object ended up.
type ObjLayout struct {
	Num, Gen, Rev int
	Offset        int64  // file offset of "Num Gen obj" (top-level objects)
	StreamStart   int64  // offset of first stream data byte (-1: no stream)
	StreamLen     int64  // actual number of stream data bytes
	End           int64  // offset just behind "endobj" + EOL
	InObjStm      int    // object number of the containing object stream, 0 if top-level
	Index         int    // index within the object stream
	Aux           string // "", "objstm", "xref", "length", "encrypt", "duplicate"
}

// XRefEntry is one cross-reference entry.
type XRefEntry struct {
	Type int   // 0 free, 1 in use, 2 compressed
	F2   int64 // next free object / offset / object stream number
	F3   int64 // generation / generation / index
}

// RevLayout describes one revision's cross-reference section.
type RevLayout struct {
	XRefOffset      int64             // true offset of the xref section ("xref" keyword or xref stream object)
	XRefStmOffset   int64             // hybrid: offset of the /XRefStm stream, else -1
	XRefStreamNum   int               // object number of the xref stream (0: none)
	TrailerOffset   int64             // offset of the "trailer" keyword (-1: none)
	StartXRefOffset int64             // offset of the "startxref" keyword
	EOFOffset       int64             // offset of "%%EOF" (-1 if dropped)
	End             int64             // offset behind this revision
	Size            int64             // true /Size
	ObjStms         []int             // object numbers of the object streams written
	Entries         map[int]XRefEntry // true entries of this section (before overrides)
}

// Layout is the writer's record of the produced file.
type Layout struct {
	HeaderOffset int64
	Objects      []ObjLayout
	Revs         []RevLayout
	EncryptNum   int // object number of the encryption dictionary (0: none/direct)
}

// Find returns the layout of the latest definition of object num.
func (l *Layout) Find(num int) (ObjLayout, bool) {
	for i := len(l.Objects) - 1; i >= 0; i-- {
		if l.Objects[i].Num == num && l.Objects[i].Aux != "duplicate" {
			return l.Objects[i], true
		}
	}
	return ObjLayout{}, false
}

// Output is a written file plus its layout.
type Output struct {
	Bytes  []byte
	Layout *Layout
}

// Write serialises doc.
func Write(doc *Doc, opts Options) (*Output, error) {
	w := &writer{doc: doc, o: opts, eol: opts.eol(), ov: opts.Overrides, lay: &Layout{}}
	if w.ov == nil {
		w.ov = &Overrides{}
	}
	switch w.eol {
	case "\n", "\r", "\r\n":
	default:
		return nil, fmt.Errorf("pdfgen: bad EOL %q", w.eol)
	}
	if err := w.run(); err != nil {
		return nil, err
	}
	return &Output{Bytes: w.buf.Bytes(), Layout: w.lay}, nil
}

// MustWrite is Write that panics on error (generator bugs, not input errors).
func MustWrite(doc *Doc, opts Options) *Output {
	out, err := Write(doc, opts)
	if err != nil {
		panic(err)
	}
	return out
}

type writer struct {
	doc *Doc
	o   Options
	ov  *Overrides
	eol string
	buf bytes.Buffer
	lay *Layout

	auxNext    int
	encRef     Ref
	encDict    Dict
	objStmOrd  int          // ordinal of the next object stream
	known      map[int]int  // num → generation of every number defined so far
	hiddenAll  map[int]bool // hybrid: objects listed as free although compressed
	freeSet    map[int]int  // currently free numbers → generation in free entry
	size       int64
	root, info Ref
	prevXRef   int64

	rev     int
	entries map[int]XRefEntry // entries of the revision being written
}

func (w *writer) pos() int64 { return int64(w.buf.Len()) }

func (w *writer) aux() int {
	n := w.auxNext
	w.auxNext++
	return n
}

func (w *writer) run() error {
	ov := w.ov
	w.buf.Write(ov.Prefix)
	w.lay.HeaderOffset = w.pos()
	if ov.Header != nil {
		w.buf.Write(ov.Header)
	} else {
		v := w.o.Version
		if v == "" {
			v = "1.7"
		}
		w.buf.WriteString("%PDF-" + v + w.eol)
	}
	if w.o.BinaryComment {
		w.buf.WriteString("%\xe2\xe3\xcf\xd3" + w.eol)
	}
	w.auxNext = w.doc.MaxNum() + 1
	w.known = map[int]int{}
	w.freeSet = map[int]int{}
	w.hiddenAll = map[int]bool{}
	w.prevXRef = -1

	if w.o.ObjStm && w.o.XRef == XRefTable {
		return fmt.Errorf("pdfgen: object streams need XRefStream or XRefHybrid")
	}
	for r := range w.doc.Revs {
		if err := w.writeRevision(r); err != nil {
			return err
		}
	}
	w.buf.Write(ov.Suffix)
	if ov.TruncateAt.Set {
		n := ov.TruncateAt.V
		if n < 0 {
			n += int64(w.buf.Len())
		}
		n = max(n, 0)
		if n < int64(w.buf.Len()) {
			w.buf.Truncate(int(n))
		}
	}
	return nil
}

// ---------------------------------------------------------------------------
// objects

func (w *writer) serCtx(num, gen int, encrypt bool) *serCtx {
	c := &serCtx{}
	if w.o.MultilineDicts {
		c.eol = w.eol
	}
	if encrypt && w.o.Encrypter != nil {
		enc := w.o.Encrypter
		c.strXform = func(b []byte) []byte { return enc.EncryptString(num, gen, b) }
	}
	return c
}

// streamParts builds dictionary (without /Length) and encoded data.
func (w *writer) streamParts(num, gen int, s *Stream, encrypt bool) (Dict, []byte, error) {
	data := s.Data
	if !s.PreEncoded {
		var err error
		data, err = Encode(s.Data, s.Filters)
		if err != nil {
			return nil, nil, fmt.Errorf("object %d: %w", num, err)
		}
	}
	d := make(Dict, len(s.Dict), len(s.Dict)+3)
	copy(d, s.Dict)
	if !s.NoFilterEntries {
		f, p := FilterEntries(s.Filters, w.o.FilterArrayAlways)
		if f != nil {
			d.Set("Filter", f)
		}
		if p != nil {
			d.Set("DecodeParms", p)
		}
	}
	if encrypt && w.o.Encrypter != nil {
		data = w.o.Encrypter.EncryptStream(num, gen, d, data)
	}
	return d, data, nil
}

// writeTop writes one top-level indirect object, records its layout and its
// cross-reference entry. encrypt=false for the encryption dictionary, xref
// streams and /Length integers.
func (w *writer) writeTop(num, gen int, o Object, encrypt bool, aux string) (ObjLayout, error) {
	lo := ObjLayout{Num: num, Gen: gen, Rev: w.rev, Offset: w.pos(), StreamStart: -1, Aux: aux}
	eol := w.eol
	fmt.Fprintf(&w.buf, "%d %d obj%s", num, gen, eol)
	ctx := w.serCtx(num, gen, encrypt)
	var lengthObj *IndObj
	if s, ok := o.(*Stream); ok {
		d, data, err := w.streamParts(num, gen, s, encrypt)
		if err != nil {
			return lo, err
		}
		lov := w.ov.Length[num]
		switch lov.Mode {
		case LengthMissing:
			d.Del("Length")
		case LengthValue:
			d.Set("Length", Int(lov.V))
		case LengthSelfRef:
			d.Set("Length", Ref{num, gen})
		case LengthDanglingRef:
			d.Set("Length", Ref{int(lov.V), 0})
		case LengthIndirectValue:
			n := w.aux()
			lengthObj = &IndObj{Num: n, Obj: Int(lov.V)}
			d.Set("Length", Ref{n, 0})
		default:
			if s.IndirectLength {
				n := w.aux()
				lengthObj = &IndObj{Num: n, Obj: Int(len(data))}
				d.Set("Length", Ref{n, 0})
			} else {
				d.Set("Length", Int(len(data)))
			}
		}
		writeObject(&w.buf, d, ctx)
		w.buf.WriteString(eol + "stream")
		// ISO 32000-1 7.3.8.1: CRLF or LF after "stream", never CR alone.
		if eol == "\r" {
			w.buf.WriteString("\r\n")
		} else {
			w.buf.WriteString(eol)
		}
		lo.StreamStart = w.pos()
		lo.StreamLen = int64(len(data))
		w.buf.Write(data)
		w.buf.WriteString(eol)
		if !w.ov.DropEndStream[num] {
			w.buf.WriteString("endstream" + eol)
		}
	} else {
		writeObject(&w.buf, o, ctx)
		w.buf.WriteString(eol)
	}
	if !w.ov.DropEndObj[num] {
		w.buf.WriteString("endobj" + eol)
	}
	lo.End = w.pos()
	w.lay.Objects = append(w.lay.Objects, lo)
	if aux != "duplicate" {
		w.entries[num] = XRefEntry{1, lo.Offset, int64(gen)}
		w.known[num] = gen
	}
	if lengthObj != nil {
		if _, err := w.writeTop(lengthObj.Num, 0, lengthObj.Obj, false, "length"); err != nil {
			return lo, err
		}
	}
	return lo, nil
}

// writeObjStm packs members into one object stream.
func (w *writer) writeObjStm(members []IndObj) error {
	ord := w.objStmOrd
	w.objStmOrd++
	osNum := w.aux()
	var pairs, body bytes.Buffer
	ctx := &serCtx{} // strings inside object streams are not encrypted individually
	for i, m := range members {
		if i > 0 {
			pairs.WriteByte(' ')
		}
		fmt.Fprintf(&pairs, "%d %d", m.Num, body.Len())
		writeObject(&body, m.Obj, ctx)
		body.WriteString(w.eol)
	}
	pairs.WriteString(w.eol)

	n, first := int64(len(members)), int64(pairs.Len())
	ov, ok := w.ov.ObjStm[ord]
	if !ok {
		ov, ok = w.ov.ObjStm[-1]
	}
	if ok {
		if ov.Pairs != nil {
			pairs.Reset()
			for i, v := range ov.Pairs {
				if i > 0 {
					pairs.WriteByte(' ')
				}
				pairs.WriteString(strconv.FormatInt(v, 10))
			}
			pairs.WriteString(w.eol)
			first = int64(pairs.Len())
		}
		if ov.N.Set {
			n = ov.N.V
		}
		if ov.First.Set {
			first = ov.First.V
		}
	}
	s := &Stream{Dict: D("Type", Name("ObjStm"), "N", Int(n), "First", Int(first))}
	if ok && ov.Extends.Set {
		s.Dict.Set("Extends", Ref{int(ov.Extends.V), 0})
	}
	s.Data = append(pairs.Bytes(), body.Bytes()...)
	switch {
	case w.o.ObjStmPlain:
	case w.o.ObjStmFilters != nil:
		s.Filters = w.o.ObjStmFilters
	default:
		s.Filters = []FilterSpec{{Kind: Flate}}
	}
	if _, err := w.writeTop(osNum, 0, s, true, "objstm"); err != nil {
		return err
	}
	for i, m := range members {
		w.entries[m.Num] = XRefEntry{2, int64(osNum), int64(i)}
		w.known[m.Num] = 0
		w.lay.Objects = append(w.lay.Objects, ObjLayout{Num: m.Num, Rev: w.rev, Offset: -1, StreamStart: -1, InObjStm: osNum, Index: i})
	}
	rl := &w.lay.Revs[w.rev]
	rl.ObjStms = append(rl.ObjStms, osNum)
	return nil
}

func (w *writer) writeRevision(r int) error {
	rev := &w.doc.Revs[r]
	w.rev = r
	w.entries = map[int]XRefEntry{}
	w.lay.Revs = append(w.lay.Revs, RevLayout{XRefStmOffset: -1, TrailerOffset: -1, EOFOffset: -1})
	if rev.Root.Num != 0 {
		w.root = rev.Root
	}
	if rev.Info.Num != 0 {
		w.info = rev.Info
	}

	if r == 0 && w.o.Encrypter != nil {
		w.encDict = w.o.Encrypter.EncryptDict()
		if !w.o.EncryptDirect {
			n := w.aux()
			w.encRef = Ref{n, 0}
			w.lay.EncryptNum = n
			if _, err := w.writeTop(n, 0, w.encDict, false, "encrypt"); err != nil {
				return err
			}
		}
	}

	// partition into top-level and compressed objects
	var comp []IndObj
	for _, o := range rev.Objects {
		_, isStream := o.Obj.(*Stream)
		if w.o.ObjStm && !isStream && o.Gen == 0 && !o.NoCompress &&
			(w.o.ObjStmSelect == nil || w.o.ObjStmSelect(o.Num)) {
			comp = append(comp, o)
			continue
		}
		for _, dup := range w.ov.Duplicates {
			if dup.Num == o.Num && dup.Before {
				if err := w.writeDup(dup, o); err != nil {
					return err
				}
			}
		}
		if _, err := w.writeTop(o.Num, o.Gen, o.Obj, true, ""); err != nil {
			return err
		}
		for _, dup := range w.ov.Duplicates {
			if dup.Num == o.Num && !dup.Before {
				if err := w.writeDup(dup, o); err != nil {
					return err
				}
			}
		}
	}
	maxPer := w.o.ObjStmMax
	if maxPer <= 0 {
		maxPer = 100
	}
	for len(comp) > 0 {
		n := min(maxPer, len(comp))
		if err := w.writeObjStm(comp[:n]); err != nil {
			return err
		}
		comp = comp[n:]
	}
	return w.writeXRef(rev)
}

func (w *writer) writeDup(dup Duplicate, orig IndObj) error {
	o := dup.Obj
	if o == nil {
		o = orig.Obj
	}
	lo, err := w.writeTop(orig.Num, orig.Gen, o, true, "duplicate")
	if err != nil {
		return err
	}
	if dup.XRefToDup {
		w.entries[orig.Num] = XRefEntry{1, lo.Offset, int64(orig.Gen)}
	}
	return nil
}

// ---------------------------------------------------------------------------
// cross-reference sections

// freeChain brings freeSet up to date for this revision and, if the free list
// changed (always in revision 0), returns the free-list entries (nil else).
// extra are additional numbers to be listed as free (hybrid hidden objects).
func (w *writer) freeChain(rev *Revision, extra []int) map[int]XRefEntry {
	changed := w.rev == 0 || len(extra) > 0
	for n, e := range w.entries {
		if _, was := w.freeSet[n]; was {
			delete(w.freeSet, n)
			changed = true
		}
		if e.Type == 1 && w.hiddenAll[n] {
			delete(w.hiddenAll, n)
			changed = true
		}
	}
	for _, f := range rev.Free {
		w.freeSet[f.Num] = f.Gen
		delete(w.known, f.Num)
		changed = true
	}
	maxNum := 0
	for n := range w.known {
		maxNum = max(maxNum, n)
	}
	for n := range w.freeSet {
		maxNum = max(maxNum, n)
	}
	w.size = max(w.size, int64(maxNum)+1)
	if !w.o.HolesAsGaps {
		for n := 1; n < int(w.size); n++ {
			if _, ok := w.known[n]; ok {
				continue
			}
			if _, ok := w.freeSet[n]; ok {
				continue
			}
			w.freeSet[n] = 0
			changed = true
		}
	}
	if !changed {
		return nil
	}
	for _, n := range extra {
		w.hiddenAll[n] = true
	}
	gens := map[int]int{}
	for n, g := range w.freeSet {
		gens[n] = g
	}
	for n := range w.hiddenAll {
		if _, ok := gens[n]; !ok {
			gens[n] = 0
		}
	}
	nums := make([]int, 0, len(gens))
	for n := range gens {
		nums = append(nums, n)
	}
	sort.Ints(nums)
	chain := map[int]XRefEntry{}
	prev := 0
	prevGen := int64(65535)
	for _, n := range nums {
		chain[prev] = XRefEntry{0, int64(n), prevGen}
		prev, prevGen = n, int64(gens[n])
	}
	chain[prev] = XRefEntry{0, 0, prevGen}
	return chain
}

func (w *writer) applyEntryOverride(num int, e XRefEntry) (XRefEntry, bool) {
	ov, ok := w.ov.XRefEntries[XRefKey{w.rev, num}]
	if !ok {
		ov, ok = w.ov.XRefEntries[XRefKey{-1, num}]
	}
	if !ok {
		return e, true
	}
	if ov.Drop {
		return e, false
	}
	if ov.Type.Set {
		e.Type = int(ov.Type.V)
	}
	if ov.F2.Set {
		e.F2 = ov.F2.V
	}
	if ov.F3.Set {
		e.F3 = ov.F3.V
	}
	return e, true
}

type numEntry struct {
	num int
	e   XRefEntry
}

// finalEntries applies overrides and sorts.
func (w *writer) finalEntries(m map[int]XRefEntry) []numEntry {
	out := make([]numEntry, 0, len(m))
	for n, e := range m {
		if fe, keep := w.applyEntryOverride(n, e); keep {
			out = append(out, numEntry{n, fe})
		}
	}
	sort.Slice(out, func(i, j int) bool { return out[i].num < out[j].num })
	return out
}

func subsections(es []numEntry) [][]numEntry {
	var out [][]numEntry
	for i := 0; i < len(es); {
		j := i + 1
		for j < len(es) && es[j].num == es[j-1].num+1 {
			j++
		}
		out = append(out, es[i:j])
		i = j
	}
	return out
}

func revKey[T any](m map[int]T, rev int) (T, bool) {
	if v, ok := m[rev]; ok {
		return v, true
	}
	v, ok := m[-1]
	return v, ok
}

// trailerDict builds the trailer entries common to tables and xref streams.
func (w *writer) trailerDict(rev *Revision, selfOffset int64) Dict {
	var d Dict
	size := w.size
	if v, ok := revKey(w.ov.TrailerSize, w.rev); ok {
		size = v
	}
	d.Set("Size", Int(size))
	if w.root.Num != 0 {
		d.Set("Root", w.root)
	}
	if w.info.Num != 0 {
		d.Set("Info", w.info)
	}
	if w.doc.ID[0] != nil {
		d.Set("ID", Array{HexString(w.doc.ID[0]), HexString(w.doc.ID[1])})
	}
	if w.o.Encrypter != nil {
		if w.o.EncryptDirect {
			d.Set("Encrypt", w.encDict)
		} else {
			d.Set("Encrypt", w.encRef)
		}
	}
	if w.prevXRef >= 0 {
		d.Set("Prev", Int(w.prevXRef))
	}
	if pv, ok := revKey(w.ov.TrailerPrev, w.rev); ok {
		switch pv.Mode {
		case PrevValue:
			d.Set("Prev", Int(pv.V))
		case PrevSelf:
			d.Set("Prev", Int(selfOffset))
		case PrevDrop:
			d.Del("Prev")
		}
	}
	for _, e := range rev.Extra {
		d.Set(e.Key, e.Val)
	}
	if set, ok := revKey(w.ov.TrailerSet, w.rev); ok {
		for _, e := range set {
			d.Set(e.Key, e.Val)
		}
	}
	if del, ok := revKey(w.ov.TrailerDel, w.rev); ok {
		for _, k := range del {
			d.Del(k)
		}
	}
	return d
}

func bytesFor(v int64) int {
	n := 1
	for u := uint64(v); u > 0xff; u >>= 8 {
		n++
	}
	return n
}

func putBE(b []byte, v int64, width int) []byte {
	for i := width - 1; i >= 0; i-- {
		if i >= 8 {
			b = append(b, 0)
			continue
		}
		b = append(b, byte(uint64(v)>>(8*uint(i))))
	}
	return b
}

// xrefStreamObject builds an xref stream for the given entries. trailer holds
// the additional dictionary entries.
func (w *writer) xrefStreamObject(es []numEntry, trailer Dict) *Stream {
	wd := [3]int{1, 1, 1}
	for _, ne := range es {
		wd[1] = max(wd[1], bytesFor(ne.e.F2))
		wd[2] = max(wd[2], bytesFor(ne.e.F3))
	}
	xo, _ := revKey(w.ov.XRefStm, w.rev)
	wArr := Array{Int(wd[0]), Int(wd[1]), Int(wd[2])}
	if xo.W != nil {
		wArr = nil
		for _, v := range xo.W {
			wArr = append(wArr, Int(v))
		}
		if xo.EncodeWithW && len(xo.W) == 3 {
			for i, v := range xo.W {
				if v >= 0 && v <= 16 {
					wd[i] = int(v)
				}
			}
		}
	}
	var data []byte
	var index Array
	for _, sub := range subsections(es) {
		index = append(index, Int(sub[0].num), Int(len(sub)))
		for _, ne := range sub {
			data = putBE(data, int64(ne.e.Type), wd[0])
			data = putBE(data, ne.e.F2, wd[1])
			data = putBE(data, ne.e.F3, wd[2])
		}
	}
	d := D("Type", Name("XRef"))
	for _, e := range trailer {
		d.Set(e.Key, e.Val)
	}
	if xo.Size.Set {
		d.Set("Size", Int(xo.Size.V))
	}
	d.Set("W", wArr)
	sizeV, _ := d.Get("Size")
	full := len(index) == 2 && index[0] == Int(0) && index[1] == sizeV
	if xo.Index != nil {
		index = nil
		for _, v := range xo.Index {
			index = append(index, Int(v))
		}
		d.Set("Index", index)
	} else if !full || w.o.ExplicitIndex {
		d.Set("Index", index)
	}
	s := &Stream{Dict: d, Data: data}
	if w.o.XRefStreamPredictor {
		s.Filters = []FilterSpec{{Kind: Flate, Predictor: 12, Columns: wd[0] + wd[1] + wd[2]}}
	} else if w.o.XRefStreamFlate {
		s.Filters = []FilterSpec{{Kind: Flate}}
	}
	return s
}

func (w *writer) writeXRef(rev *Revision) error {
	rl := &w.lay.Revs[w.rev]
	eol := w.eol

	var hiddenNums []int
	for n, e := range w.entries {
		if e.Type == 2 {
			hiddenNums = append(hiddenNums, n)
		}
	}
	sort.Ints(hiddenNums)
	hybridStm := w.o.XRef == XRefHybrid && len(hiddenNums) > 0
	xnum := 0
	if w.o.XRef == XRefStream || hybridStm {
		xnum = w.aux()
		w.known[xnum] = 0
		rl.XRefStreamNum = xnum
	}
	var extra []int
	if hybridStm && w.o.HybridHiddenFree {
		extra = hiddenNums
	}
	chain := w.freeChain(rev, extra)

	var xrefOffset int64
	switch w.o.XRef {
	case XRefStream:
		xrefOffset = w.pos()
		w.entries[xnum] = XRefEntry{1, xrefOffset, 0}
		for n, e := range chain {
			w.entries[n] = e
		}
		rl.Entries = cloneEntries(w.entries)
		s := w.xrefStreamObject(w.finalEntries(w.entries), w.trailerDict(rev, xrefOffset))
		if _, err := w.writeTop(xnum, 0, s, false, "xref"); err != nil {
			return err
		}

	default:
		table := map[int]XRefEntry{}
		hidden := map[int]XRefEntry{}
		for n, e := range w.entries {
			if e.Type == 2 {
				hidden[n] = e
			} else {
				table[n] = e
			}
		}
		xrefStmOffset := int64(-1)
		if hybridStm {
			xrefStmOffset = w.pos()
			rl.XRefStmOffset = xrefStmOffset
			s := w.xrefStreamObject(w.finalEntries(hidden), D("Size", Int(w.size)))
			if _, err := w.writeTop(xnum, 0, s, false, "xref"); err != nil {
				return err
			}
			table[xnum] = w.entries[xnum]
		}
		for n, e := range chain {
			table[n] = e
		}
		rl.Entries = cloneEntries(w.entries)
		for n, e := range chain {
			if _, isHidden := hidden[n]; !isHidden {
				rl.Entries[n] = e
			}
		}
		xrefOffset = w.pos()
		w.buf.WriteString("xref" + eol)
		eol2 := map[string]string{"\n": " \n", "\r": " \r", "\r\n": "\r\n"}[eol]
		for _, sub := range subsections(w.finalEntries(table)) {
			fmt.Fprintf(&w.buf, "%d %d%s", sub[0].num, len(sub), eol)
			for _, ne := range sub {
				c := byte('n')
				switch ne.e.Type {
				case 0:
					c = 'f'
				case 1:
				default:
					c = byte('a' + (ne.e.Type%26+26)%26)
				}
				fmt.Fprintf(&w.buf, "%010d %05d %c%s", ne.e.F2, ne.e.F3, c, eol2)
			}
		}
		rl.TrailerOffset = w.pos()
		td := w.trailerDict(rev, xrefOffset)
		if xrefStmOffset >= 0 {
			td.Set("XRefStm", Int(xrefStmOffset))
			if set, ok := revKey(w.ov.TrailerSet, w.rev); ok {
				if v, ok := set.Get("XRefStm"); ok {
					td.Set("XRefStm", v)
				}
			}
		}
		w.buf.WriteString("trailer" + eol)
		writeObject(&w.buf, td, w.serCtx(0, 0, false))
		w.buf.WriteString(eol)
	}

	rl.XRefOffset = xrefOffset
	rl.Size = w.size
	rl.StartXRefOffset = w.pos()
	sx := xrefOffset
	if v, ok := revKey(w.ov.StartXRef, w.rev); ok {
		sx = v
	}
	if drop, _ := revKey(w.ov.DropStartXRef, w.rev); !drop {
		fmt.Fprintf(&w.buf, "startxref%s%d%s", eol, sx, eol)
	}
	if drop, _ := revKey(w.ov.DropEOF, w.rev); !drop {
		rl.EOFOffset = w.pos()
		w.buf.WriteString("%%EOF" + eol)
	}
	rl.End = w.pos()
	w.prevXRef = xrefOffset
	return nil
}

func cloneEntries(m map[int]XRefEntry) map[int]XRefEntry {
	c := make(map[int]XRefEntry, len(m))
	for k, v := range m {
		c[k] = v
	}
	return c
}
