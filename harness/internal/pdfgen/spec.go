package pdfgen

import "math/rand/v2"

// FilterPolicy says which filter pipelines the builder draws for streams.
type FilterPolicy int

const (
	// FiltersNone: no stream is filtered.
	FiltersNone FilterPolicy = iota
	// FiltersFlate: plain Flate everywhere (what most writers do).
	FiltersFlate
	// FiltersCompat: random 0-3 stage pipelines over all five filters incl.
	// PNG predictors and TIFF predictor 2 at 8 bits — restricted to what
	// pdfcpu decodes correctly (no LZW+Predictor, no TIFF at other depths).
	FiltersCompat
	// FiltersFull: everything ISO 32000 allows, incl. LZW with predictors and
	// TIFF predictor 2 at 1/2/4/16 bits per component.
	FiltersFull
)

// EmbeddedFileSpec is one attachment. All strings are raw bytes.
type EmbeddedFileSpec struct {
	Key  []byte // name tree key; nil: F is used
	F    []byte // /F of the file specification
	UF   []byte // /UF (nil: omitted)
	Desc string
	Data []byte
}

// DocSpec describes the document to build. The zero value plus Pages > 0 is a
// minimal document. Every random choice is drawn from a PRNG seeded by Seed.
type DocSpec struct {
	Seed  uint64
	Pages int

	// Write holds the file-structure options (layer 1).
	Write Options
	// Filters selects stream filter pipelines; IndirectLengths writes some
	// /Length values as indirect references.
	Filters         FilterPolicy
	IndirectLengths bool

	// Page tree shape: MaxFanout 1..6 (0: 6) and MaxDepth 1..4 (0: random).
	MaxFanout, MaxDepth int
	// Inherit: MediaBox/CropBox/Rotate/Resources partly inherited from
	// intermediate nodes. Rotate/CropBox: use non-zero rotations / crop boxes.
	Inherit bool
	Rotate  bool
	CropBox bool
	// MultiContent: some pages carry an array of 2-3 content streams.
	MultiContent bool
	// SharedResources: some pages share one indirect resource dictionary.
	SharedResources bool
	// XObjects: form XObjects and tiny images painted with Do.
	XObjects bool
	// Duplicates: identical and nearly identical fonts/images/form objects as
	// separate objects. Unreferenced: unreachable garbage objects.
	Duplicates   bool
	Unreferenced bool

	// Outlines: number of outline items (0: none); OutlineDepth max depth
	// (0: 3). OutlineTitles, if set, supplies raw title strings instead of
	// random ones (C05 hostile names), cycled through.
	Outlines      int
	OutlineDepth  int
	OutlineTitles [][]byte

	// EmbeddedFiles: explicit attachments; RandomFiles: that many random ones
	// in addition. NameTreeLeafMax: entries per name tree leaf (0: 4).
	EmbeddedFiles   []EmbeddedFileSpec
	RandomFiles     int
	NameTreeLeafMax int
	// Dests: number of named destinations in the /Dests name tree.
	Dests int

	Form        bool // AcroForm with text and checkbox fields
	Annotations bool // Text and Link annotations
	Info        bool // info dictionary
	XMP         bool // XMP metadata stream
	ViewerPrefs bool // /ViewerPreferences, /PageLayout, /PageMode
	// Signatures: number of signature fields (with /V signature dictionaries,
	// /Perms, /SigFlags). Not cryptographically valid.
	Signatures int

	// Secrets plants unique markers in every location kind (Truth.Secrets).
	Secrets bool

	// Updates: number of incremental updates appended to the base document.
	Updates int

	// The options below are never drawn by RandomSpec (setting none of them leaves the draws of the
	// builder untouched); they put structures operations rewrite into a chosen representation.

	// XMPPipelineSet: store the XMP metadata stream under exactly XMPPipeline (nil: unfiltered)
	// instead of the builder's own choice.
	XMPPipelineSet bool
	XMPPipeline    []FilterSpec
	// XMPKeywords: the packet carries <pdf:Keywords> (joined by "; ") and a <dc:subject> bag of these.
	XMPKeywords []string
	// InfoKeywords: /Keywords of the info dictionary (joined by "; "); forces an info dictionary.
	InfoKeywords []string
	// OCProperties: 0 none; 1: catalog /OCProperties (direct dictionary, two groups, minimal default
	// configuration); 2: the dictionary and its /OCGs array are indirect objects, the configuration has
	// /Name /Order (nested) /ON /OFF /AS /RBGroups /Locked and there is a second configuration in /Configs.
	OCProperties int
	// PageLabels: 0 none; 1: /PageLabels with a flat /Nums array; 2: a number tree with /Kids and /Limits.
	PageLabels int
}

// RandomSpec draws a specification. size bounds the page count (1..size) and
// scales the amount of optional structure. Writer options are drawn too.
func RandomSpec(rng *rand.Rand, size int) DocSpec {
	if size < 1 {
		size = 1
	}
	coin := func() bool { return rng.IntN(2) == 0 }
	s := DocSpec{
		Seed:            rng.Uint64(),
		Pages:           1 + rng.IntN(size),
		Filters:         FilterPolicy(rng.IntN(3)), // None, Flate, Compat
		IndirectLengths: rng.IntN(4) == 0,
		MaxFanout:       1 + rng.IntN(6),
		MaxDepth:        1 + rng.IntN(4),
		Inherit:         coin(),
		Rotate:          coin(),
		CropBox:         coin(),
		MultiContent:    coin(),
		SharedResources: coin(),
		XObjects:        coin(),
		Duplicates:      rng.IntN(3) == 0,
		Unreferenced:    rng.IntN(3) == 0,
		Form:            rng.IntN(3) == 0,
		Annotations:     coin(),
		Info:            rng.IntN(4) != 0,
		XMP:             rng.IntN(3) == 0,
		ViewerPrefs:     rng.IntN(3) == 0,
		Secrets:         rng.IntN(4) == 0,
	}
	if rng.IntN(3) != 0 {
		s.Filters = FiltersCompat
	}
	if coin() {
		s.Outlines = 1 + rng.IntN(3*size)
		s.OutlineDepth = 1 + rng.IntN(5)
	}
	if rng.IntN(3) == 0 {
		s.RandomFiles = 1 + rng.IntN(2*size)
		s.NameTreeLeafMax = 1 + rng.IntN(5)
	}
	if rng.IntN(3) == 0 {
		s.Dests = 1 + rng.IntN(2*size)
	}
	if rng.IntN(5) == 0 {
		s.Signatures = 1 + rng.IntN(3)
	}
	if rng.IntN(3) == 0 {
		s.Updates = 1 + rng.IntN(3)
	}
	s.Write = RandomOptions(rng)
	return s
}

// RandomOptions draws valid writer options.
func RandomOptions(rng *rand.Rand) Options {
	coin := func() bool { return rng.IntN(2) == 0 }
	o := Options{
		EOL:               []string{"\n", "\r", "\r\n"}[rng.IntN(3)],
		BinaryComment:     coin(),
		XRef:              XRefKind(rng.IntN(3)),
		FilterArrayAlways: rng.IntN(4) == 0,
		MultilineDicts:    rng.IntN(3) == 0,
	}
	switch o.XRef {
	case XRefTable:
		o.Version = []string{"1.3", "1.4", "1.5", "1.6", "1.7"}[rng.IntN(5)]
		o.HolesAsGaps = rng.IntN(4) == 0
	case XRefStream:
		o.Version = []string{"1.5", "1.6", "1.7"}[rng.IntN(3)]
		o.XRefStreamFlate = coin()
		o.XRefStreamPredictor = coin()
		o.ExplicitIndex = coin()
		o.ObjStm = coin()
		o.HolesAsGaps = rng.IntN(4) == 0
	case XRefHybrid:
		o.Version = []string{"1.5", "1.6", "1.7"}[rng.IntN(3)]
		o.ObjStm = true
		o.XRefStreamFlate = coin()
		o.XRefStreamPredictor = rng.IntN(3) == 0
	}
	if o.ObjStm {
		o.ObjStmMax = []int{1, 2, 5, 20, 100}[rng.IntN(5)]
		switch rng.IntN(4) {
		case 0:
			o.ObjStmPlain = true
		case 1:
			o.ObjStmFilters = []FilterSpec{{Kind: ASCII85}, {Kind: Flate}}
		}
		if rng.IntN(3) == 0 {
			// only every other eligible object goes into object streams
			o.ObjStmSelect = func(n int) bool { return n%2 == 0 }
		}
	}
	return o
}
