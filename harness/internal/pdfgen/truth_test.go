package pdfgen

import (
	"bytes"
	"fmt"
	"io"
	"math/rand/v2"
	"testing"

	"github.com/pdfcpu/pdfcpu/pkg/api"
	"github.com/pdfcpu/pdfcpu/pkg/pdfcpu"
)

func featureSpec(rng *rand.Rand, i int) DocSpec {
	s := RandomSpec(rng, 6)
	s.Outlines, s.OutlineDepth = 3+rng.IntN(8), 1+rng.IntN(4)
	s.RandomFiles, s.NameTreeLeafMax = 1+rng.IntN(9), 1+rng.IntN(4)
	s.Dests = 1 + rng.IntN(6)
	s.Form, s.Annotations, s.Info, s.XMP, s.ViewerPrefs = true, true, true, true, true
	s.Signatures = i % 3
	s.Secrets = i%2 == 0
	s.Duplicates, s.Unreferenced = i%3 == 0, i%4 == 0
	return s
}

// TestTruthAgainstPdfcpu cross-checks parts of the recorded truth with what
// pdfcpu reads from the bytes: attachments (count, data), bookmarks (shape,
// target pages, style), annotations per page. Text decoding differences in
// pdfcpu are tolerated for titles (counted and logged), structure is not.
func TestTruthAgainstPdfcpu(t *testing.T) {
	rng := rand.New(rand.NewPCG(2024, 9))
	titleMismatch, titles := 0, 0
	var titleExample string
	for i := 0; i < 60; i++ {
		bt := Build(featureSpec(rng, i))
		tag := fmt.Sprintf("truth-%02d", i)
		if !checkBuilt(t, tag, bt, i%3 == 0) {
			continue
		}
		ctx, err := api.ReadContext(bytes.NewReader(bt.Bytes), strictConf())
		if err != nil {
			t.Fatal(err)
		}
		if err := api.ValidateContext(ctx); err != nil {
			t.Fatal(err)
		}

		// attachments
		aa, err := ctx.ExtractAttachments(nil)
		if err != nil {
			t.Errorf("%s: ExtractAttachments: %v", tag, err)
		} else {
			if len(aa) != len(bt.Truth.EmbeddedFiles) {
				t.Errorf("%s: %d attachments, truth %d", tag, len(aa), len(bt.Truth.EmbeddedFiles))
			}
			byData := map[string]int{}
			for _, a := range aa {
				b, err := io.ReadAll(a)
				if err != nil {
					t.Errorf("%s: attachment %q: %v", tag, a.FileName, err)
				}
				byData[string(b)]++
			}
			for _, ef := range bt.Truth.EmbeddedFiles {
				if byData[string(ef.Data)] == 0 {
					t.Errorf("%s: attachment %q: data (%d bytes) not among extracted attachments", tag, ef.F, len(ef.Data))
				}
				byData[string(ef.Data)]--
			}
		}

		// bookmarks
		bms, err := pdfcpu.Bookmarks(ctx)
		if err != nil {
			t.Errorf("%s: Bookmarks: %v", tag, err)
		} else {
			var cmp func(path string, got []pdfcpu.Bookmark, want []*OutlineTruth)
			cmp = func(path string, got []pdfcpu.Bookmark, want []*OutlineTruth) {
				if len(got) != len(want) {
					t.Errorf("%s: bookmarks at %q: %d items, truth %d", tag, path, len(got), len(want))
					return
				}
				for k := range got {
					g, w := got[k], want[k]
					titles++
					if g.Title != w.Title {
						titleMismatch++
						titleExample += fmt.Sprintf("\n      %s: pdfcpu %q, truth %q, raw %s", tag, g.Title, w.Title, Serialize(mustGet(bt.Doc, w.ObjNum, "Title")))
					}
					if g.PageFrom != w.Page+1 {
						t.Errorf("%s: bookmark %q: page %d, truth %d", tag, w.Title, g.PageFrom, w.Page+1)
					}
					if g.Bold != w.Bold || g.Italic != w.Italic {
						t.Errorf("%s: bookmark %q: bold/italic %v/%v, truth %v/%v", tag, w.Title, g.Bold, g.Italic, w.Bold, w.Italic)
					}
					if (g.Color != nil) != (w.Color != nil) {
						// pdfcpu drops black; only complain about real colours
						if w.Color != nil && (w.Color[0] != 0 || w.Color[1] != 0 || w.Color[2] != 0) {
							t.Errorf("%s: bookmark %q: colour %v, truth %v", tag, w.Title, g.Color, w.Color)
						}
					}
					cmp(path+"/"+w.Title, g.Kids, w.Kids)
				}
			}
			cmp("", bms, bt.Truth.Outlines)
		}

		// annotations per page (count by subtype)
		for pi, pt := range bt.Truth.Pages {
			d, _, _, err := ctx.PageDict(pi+1, false)
			if err != nil {
				t.Fatal(err)
			}
			n := 0
			if o, found := d.Find("Annots"); found {
				arr, err := ctx.DereferenceArray(o)
				if err != nil {
					t.Errorf("%s: page %d annots: %v", tag, pi+1, err)
				}
				n = len(arr)
			}
			if n != len(pt.Annots) {
				t.Errorf("%s: page %d: %d annotations, truth %d", tag, pi+1, n, len(pt.Annots))
			}
		}

		// secrets are all present in the decoded object graph we wrote from
		graph := decodedDump(bt.Doc)
		for _, s := range bt.Truth.Secrets {
			if !bytes.Contains(graph, []byte(s.Marker)) && !bytes.Contains(graph, EscapeHex([]byte(s.Marker))[1:len(s.Marker)*2+1]) {
				t.Errorf("%s: secret %s (%s) not found in the object graph", tag, s.Marker, s.Kind)
			}
			if s.ObjNum == 0 {
				t.Errorf("%s: secret %s (%s) has no object number", tag, s.Marker, s.Kind)
			}
		}
		if bt.Spec.Secrets {
			kinds := map[string]bool{}
			for _, s := range bt.Truth.Secrets {
				kinds[s.Kind] = true
			}
			for _, k := range []string{SecretInfo, SecretContent, SecretFieldV, SecretFieldDV, SecretNameKey, SecretFileData, SecretFileName,
				SecretNested, SecretObjStmMember, SecretOutline, SecretXMP} {
				if !kinds[k] {
					t.Errorf("%s: no secret of kind %s planted", tag, k)
				}
			}
		}
	}
	if titleMismatch > 0 {
		t.Logf("pdfcpu decodes %d of %d bookmark titles differently from the truth, e.g. %s", titleMismatch, titles, titleExample)
	}
}

func mustGet(d *Doc, num int, key Name) Object {
	dict, _ := d.GetDict(num)
	v, _ := dict.Get(key)
	return v
}

// decodedDump serialises every object with stream data decoded (= as built).
func decodedDump(d *Doc) []byte {
	var b bytes.Buffer
	for _, r := range d.Revs {
		for _, o := range r.Objects {
			if s, ok := o.Obj.(*Stream); ok {
				b.Write(Serialize(s.Dict))
				b.Write(s.Data)
			} else {
				b.Write(Serialize(o.Obj))
			}
			b.WriteByte('\n')
		}
	}
	return b.Bytes()
}

func TestDeterminismAndRewrite(t *testing.T) {
	rng := rand.New(rand.NewPCG(8, 8))
	for i := 0; i < 25; i++ {
		spec := featureSpec(rng, i)
		a, b := Build(spec), Build(spec)
		if !bytes.Equal(a.Bytes, b.Bytes) {
			t.Fatalf("doc %d: Build is not deterministic", i)
		}
		// same objects, every other file structure
		for _, o := range []Options{
			{XRef: XRefTable, EOL: "\r"},
			{XRef: XRefStream, ObjStm: true, ObjStmMax: 3, XRefStreamPredictor: true, EOL: "\r\n"},
			{XRef: XRefHybrid, ObjStm: true, MultilineDicts: true},
		} {
			c, err := a.Rewrite(o)
			if err != nil {
				t.Fatal(err)
			}
			if !checkBuilt(t, fmt.Sprintf("rewrite-%02d-%v", i, o.XRef), c, true) {
				return
			}
			if errs := structuralErrors(c.Bytes); len(errs) > 0 {
				t.Errorf("rewrite %d %v: %s", i, o.XRef, errs[0])
			}
		}
	}
}

// Hostile attachment names and outline titles (C05): arbitrary raw bytes go
// into /F, /UF, name tree keys and /Title unchanged, and the document stays
// strictly valid.
func TestHostileNames(t *testing.T) {
	names := [][]byte{
		[]byte("../../etc/passwd"), []byte("..\\..\\boot.ini"), []byte("a\x00b"), []byte("CON"), []byte("nul.txt"),
		[]byte("COM1.x"), []byte(" "), []byte("x."), []byte(".x"), []byte("\x01\x1f\x7f"), []byte("\xff\xfe\xfd"),
		bytes.Repeat([]byte("a"), 300), []byte("C:"), []byte("~"), []byte("-"), []byte("a/b"), []byte("a_b"), []byte("(unbalanced"),
		[]byte("é"), []byte("."), []byte(".."),
		// not included: the empty name. pdfcpu's name tree validation uses "" as
		// "first key not seen yet" and then rejects the leaf's /Limits.
	}
	spec := DocSpec{Seed: 5, Pages: 2, NameTreeLeafMax: 3, Outlines: len(names), OutlineTitles: names, Write: Options{XRef: XRefStream, ObjStm: true}}
	for i, n := range names {
		spec.EmbeddedFiles = append(spec.EmbeddedFiles, EmbeddedFileSpec{F: n, UF: n, Data: []byte(fmt.Sprintf("data %d", i)), Desc: "d"})
	}
	bt := Build(spec)
	if !checkBuilt(t, "hostile-names", bt, true) {
		return
	}
	// raw bytes present, escaped by our rules, in the object graph
	for _, ef := range bt.Truth.EmbeddedFiles {
		d, _ := bt.Doc.GetDict(ef.SpecObj)
		f, _ := d.Get("F")
		if !bytes.Equal(f.(String), ef.F) {
			t.Errorf("F changed: %q vs %q", f, ef.F)
		}
	}
	// sorted bytewise, with /Limits consistent (checked by pdfcpu above) and keys unique where names are
	for i := 1; i < len(bt.Truth.EmbeddedFiles); i++ {
		if bytes.Compare(bt.Truth.EmbeddedFiles[i-1].Key, bt.Truth.EmbeddedFiles[i].Key) > 0 {
			t.Error("truth not sorted by key")
		}
	}
	if len(bt.Truth.Objs.EFTreeNodes) < 4 {
		t.Errorf("expected a multi-level name tree, got nodes %v", bt.Truth.Objs.EFTreeNodes)
	}
	ctx, err := api.ReadContext(bytes.NewReader(bt.Bytes), strictConf())
	if err != nil {
		t.Fatal(err)
	}
	if err := api.ValidateContext(ctx); err != nil {
		t.Fatal(err)
	}
	aa, err := ctx.ListAttachments()
	if err != nil || len(aa) != len(names) {
		t.Errorf("ListAttachments: %d, %v; want %d", len(aa), err, len(names))
	}
	// every raw title is carried by exactly one outline item (items are created
	// in title order but hang at random places of the tree)
	got := map[string]int{}
	for _, top := range bt.Truth.Outlines {
		top.Walk(func(o *OutlineTruth, _ int) {
			got[string(o.RawTitle)]++
			d, _ := bt.Doc.GetDict(o.ObjNum)
			if v, _ := d.Get("Title"); !bytes.Equal(v.(String), o.RawTitle) {
				t.Errorf("outline %d: /Title %q, truth %q", o.ObjNum, v, o.RawTitle)
			}
		})
	}
	for _, n := range names {
		if got[string(n)] != 1 {
			t.Errorf("raw title %q used %d times", n, got[string(n)])
		}
	}
}

// TestPdfcpuRejectedConstructs documents (in the log) the spec-conforming
// constructs pdfcpu's strict validation rejects or misreads; the builder
// avoids all of them by default.
func TestPdfcpuRejectedConstructs(t *testing.T) {
	rng := rand.New(rand.NewPCG(5, 1))
	count := func(name string, n int, mk func() []byte) {
		bad, first := 0, ""
		for i := 0; i < n; i++ {
			if err := validateStrict(mk()); err != nil {
				bad++
				if first == "" {
					first = err.Error()
					if len(first) > 160 {
						first = first[:160]
					}
				}
			}
		}
		t.Logf("%-34s rejected %2d of %2d  e.g. %s", name, bad, n, first)
	}
	count("hybrid, hidden objects listed free", 20, func() []byte {
		s := RandomSpec(rng, 4)
		s.Write.XRef, s.Write.ObjStm, s.Write.HybridHiddenFree = XRefHybrid, true, true
		return Build(s).Bytes
	})
	count("direct /Encrypt dict in trailer", 10, func() []byte {
		s := RandomSpec(rng, 4)
		doc, truth := BuildDoc(s)
		o := s.Write
		o.Encrypter, o.EncryptDirect = newRC4R2("", "o", doc.ID[0]), true
		o.Version = FitVersion(o, truth.MinVersion)
		return MustWrite(doc, o).Bytes
	})
	count("FiltersFull (LZW+pred, TIFF non-8)", 30, func() []byte {
		s := RandomSpec(rng, 4)
		s.Filters = FiltersFull
		return Build(s).Bytes
	})
	count("info date ending in bare Z", 5, func() []byte {
		doc, _ := BuildDoc(DocSpec{Seed: rng.Uint64(), Pages: 1})
		doc.SetInfo(doc.Add(D("CreationDate", String("D:20240102030405Z"))))
		return MustWrite(doc, Options{}).Bytes
	})
	count("std-14 font w/o Widths at 1.7", 5, func() []byte {
		doc, truth := BuildDoc(DocSpec{Seed: rng.Uint64(), Pages: 1})
		for _, n := range truth.Objs.Fonts {
			doc.Replace(n, D("Type", Name("Font"), "Subtype", Name("Type1"), "BaseFont", Name("Helvetica")))
		}
		return MustWrite(doc, Options{Version: "1.7"}).Bytes
	})
	count("same, header 1.4 (accepted)", 5, func() []byte {
		doc, truth := BuildDoc(DocSpec{Seed: rng.Uint64(), Pages: 1})
		for _, n := range truth.Objs.Fonts {
			doc.Replace(n, D("Type", Name("Font"), "Subtype", Name("Type1"), "BaseFont", Name("Helvetica")))
		}
		return MustWrite(doc, Options{Version: "1.4"}).Bytes
	})
}
