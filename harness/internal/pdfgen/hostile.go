package pdfgen

import (
	"bytes"
	"compress/zlib"
	"fmt"
)

// OptInt is an optional forced integer.
type OptInt struct {
	Set bool
	V   int64
}

// Force returns a set OptInt.
func Force(v int64) OptInt { return OptInt{true, v} }

func (o OptInt) String() string {
	if !o.Set {
		return "-"
	}
	return fmt.Sprint(o.V)
}

func (e XRefEntryOverride) String() string {
	if e.Drop {
		return "drop"
	}
	return fmt.Sprintf("type=%v f2=%v f3=%v", e.Type, e.F2, e.F3)
}

func (l LengthOverride) String() string { return fmt.Sprintf("%v(%d)", l.Mode, l.V) }

func (o ObjStmOverride) String() string {
	return fmt.Sprintf("N=%v First=%v Pairs=%v Extends=%v", o.N, o.First, o.Pairs, o.Extends)
}

func (x XRefStmOverride) String() string {
	return fmt.Sprintf("W=%v Index=%v Size=%v dataFollowsW=%v", x.W, x.Index, x.Size, x.EncodeWithW)
}

func (p PrevOverride) String() string {
	return [...]string{"default", "value", "self", "drop"}[p.Mode] + fmt.Sprintf("(%d)", p.V)
}

// XRefKey addresses a cross-reference entry: revision (-1 = every revision in
// which the object has an entry) and object number.
type XRefKey struct{ Rev, Num int }

// XRefEntryOverride forces fields of one cross-reference entry. For classic
// tables Type 0 prints 'f', 1 prints 'n', anything else another letter.
type XRefEntryOverride struct {
	Type OptInt // 0 free, 1 in use, 2 compressed, or anything else
	F2   OptInt // offset / next free / object stream number
	F3   OptInt // generation / index
	Drop bool   // leave the entry out
}

// LengthMode says how a stream's /Length is written.
type LengthMode int

const (
	LengthDefault       LengthMode = iota
	LengthValue                    // /Length V (direct, wrong or right)
	LengthIndirectValue            // /Length n 0 R with "n 0 obj V endobj" behind the stream
	LengthSelfRef                  // /Length refers to the stream object itself
	LengthDanglingRef              // /Length V 0 R where V is whatever the caller chose
	LengthMissing                  // no /Length
)

// LengthOverride forces the /Length of one stream (keyed by object number).
type LengthOverride struct {
	Mode LengthMode
	V    int64
}

// ObjStmOverride forces the header of an object stream.
type ObjStmOverride struct {
	N, First OptInt
	// Pairs, when non-nil, replaces the whole "objnum offset ..." table.
	Pairs   []int64
	Extends OptInt // adds /Extends V 0 R (V may be the stream itself: cycle)
}

// PrevMode says how /Prev is written.
type PrevMode int

const (
	PrevDefault PrevMode = iota
	PrevValue            // /Prev V
	PrevSelf             // /Prev = offset of this very section (cycle)
	PrevDrop             // no /Prev
)

// PrevOverride forces a trailer's /Prev.
type PrevOverride struct {
	Mode PrevMode
	V    int64
}

// XRefStmOverride forces fields of a cross-reference stream dictionary.
type XRefStmOverride struct {
	W     []int64 // written as /W (any length)
	Index []int64 // written as /Index
	Size  OptInt
	// EncodeWithW: also lay out the entry data with the forced widths (when
	// len(W)==3 and 0 <= W[i] <= 16); otherwise only the dictionary lies.
	EncodeWithW bool
}

// Duplicate writes a second "Num Gen obj" for an existing top-level object.
type Duplicate struct {
	Num int
	// Obj is the content of the extra copy (nil: identical copy).
	Obj Object
	// Before: the copy precedes the original, else it follows.
	Before bool
	// XRefToDup: the cross-reference entry points at the copy.
	XRefToDup bool
}

// Overrides forces structural numbers and omissions. Maps keyed by revision
// accept -1 for "every revision". The zero value changes nothing.
type Overrides struct {
	Prefix []byte // garbage before the header
	Suffix []byte // garbage after the last %%EOF
	Header []byte // replaces the "%PDF-x.y<EOL>" line entirely

	StartXRef     map[int]int64 // value printed after "startxref"
	DropStartXRef map[int]bool  // omit "startxref <n>"
	DropEOF       map[int]bool  // omit "%%EOF"

	XRefEntries map[XRefKey]XRefEntryOverride

	TrailerSize map[int]int64
	TrailerPrev map[int]PrevOverride
	TrailerSet  map[int]Dict   // entries added/replaced in the trailer / xref stream dict
	TrailerDel  map[int][]Name // entries removed

	XRefStm map[int]XRefStmOverride

	Length map[int]LengthOverride // by stream object number
	ObjStm map[int]ObjStmOverride // by ordinal of the object stream in the file, -1 = all

	DropEndObj    map[int]bool // by object number
	DropEndStream map[int]bool

	Duplicates []Duplicate

	// TruncateAt cuts the file at byte N (negative: N bytes before the end).
	TruncateAt OptInt
}

// ---------------------------------------------------------------------------
// nasty objects

// NestedArray returns an array nested depth levels deep around leaf:
// [[[...leaf...]]]. It is returned as Raw so that 10^5 levels stay cheap.
func NestedArray(depth int, leaf Object) Raw {
	var b bytes.Buffer
	b.Write(bytes.Repeat([]byte{'['}, depth))
	if leaf != nil {
		b.Write(Serialize(leaf))
	}
	b.Write(bytes.Repeat([]byte{']'}, depth))
	return b.Bytes()
}

// NestedDict returns <</K <</K ... leaf >> >> nested depth levels deep.
func NestedDict(depth int, key Name, leaf Object) Raw {
	var b bytes.Buffer
	k := append(append([]byte("<<"), EscapeName(key)...), ' ')
	b.Write(bytes.Repeat(k, depth))
	if leaf == nil {
		leaf = Null{}
	}
	b.Write(Serialize(leaf))
	b.Write(bytes.Repeat([]byte(">>"), depth))
	return b.Bytes()
}

// NestedMixed alternates arrays and dictionaries.
func NestedMixed(depth int, leaf Object) Raw {
	var open, close bytes.Buffer
	for i := 0; i < depth; i++ {
		if i%2 == 0 {
			open.WriteString("[")
		} else {
			open.WriteString("<</K ")
		}
	}
	for i := depth - 1; i >= 0; i-- {
		if i%2 == 0 {
			close.WriteString("]")
		} else {
			close.WriteString(">>")
		}
	}
	if leaf == nil {
		leaf = Null{}
	}
	return append(append(open.Bytes(), Serialize(leaf)...), close.Bytes()...)
}

// BombKind selects the shape of a decompression bomb.
type BombKind int

const (
	BombFlate BombKind = iota
	BombLZW
	BombRunLength
	BombASCIIHex
	BombASCII85
	BombFlateFlate        // [Flate Flate]: quadratic ratio
	BombASCIIHexFlate     // [ASCIIHex Flate]
	BombASCII85LZW        // [ASCII85 LZW]
	BombFlateLZWRunLength // [Flate LZW RunLength], three stages
	BombASCII85FlateFlate // [ASCII85 Flate Flate], three stages
	numBombKinds
)

// BombKinds lists all bomb kinds.
func BombKinds() []BombKind {
	out := make([]BombKind, numBombKinds)
	for i := range out {
		out[i] = BombKind(i)
	}
	return out
}

func (k BombKind) String() string {
	return [...]string{"Flate", "LZW", "RunLength", "ASCIIHex", "ASCII85", "Flate+Flate",
		"ASCIIHex+Flate", "ASCII85+LZW", "Flate+LZW+RunLength", "ASCII85+Flate+Flate"}[k]
}

// Pipeline returns the filter pipeline (in /Filter order) of a bomb kind.
func (k BombKind) Pipeline() []FilterSpec {
	f := func(ks ...FilterKind) []FilterSpec {
		out := make([]FilterSpec, len(ks))
		for i, k := range ks {
			out[i] = FilterSpec{Kind: k}
		}
		return out
	}
	switch k {
	case BombFlate:
		return f(Flate)
	case BombLZW:
		return f(LZW)
	case BombRunLength:
		return f(RunLength)
	case BombASCIIHex:
		return f(ASCIIHex)
	case BombASCII85:
		return f(ASCII85)
	case BombFlateFlate:
		return f(Flate, Flate)
	case BombASCIIHexFlate:
		return f(ASCIIHex, Flate)
	case BombASCII85LZW:
		return f(ASCII85, LZW)
	case BombFlateLZWRunLength:
		return f(Flate, LZW, RunLength)
	case BombASCII85FlateFlate:
		return f(ASCII85, Flate, Flate)
	}
	return nil
}

// Bomb returns a stream whose fully decoded size is decodedSize bytes (all
// zero bytes) while its encoded size is as small as the pipeline allows. The
// innermost stage is produced by streaming, so no decodedSize-sized buffer is
// allocated for Flate, RunLength and ASCII85; LZW and ASCIIHex need O(size).
func Bomb(kind BombKind, decodedSize int) *Stream {
	fs := kind.Pipeline()
	last := fs[len(fs)-1]
	var data []byte
	switch last.Kind {
	case Flate:
		data = flateZeros(decodedSize)
	case RunLength:
		data = runLengthZeros(decodedSize)
	case ASCII85:
		data = ascii85Zeros(decodedSize)
	case LZW:
		data = lzwEncode(make([]byte, decodedSize), true, true)
	case ASCIIHex:
		data = asciiHexEncode(make([]byte, decodedSize), 0, false, true)
	}
	for i := len(fs) - 2; i >= 0; i-- {
		var err error
		data, err = EncodeStage(data, fs[i])
		if err != nil {
			panic(err)
		}
	}
	return &Stream{Dict: Dict{}, Data: data, Filters: fs, PreEncoded: true}
}

func flateZeros(n int) []byte {
	var b bytes.Buffer
	w, _ := zlib.NewWriterLevel(&b, zlib.BestCompression)
	chunk := make([]byte, 1<<16)
	for n > 0 {
		k := min(n, len(chunk))
		w.Write(chunk[:k])
		n -= k
	}
	w.Close()
	return b.Bytes()
}

func runLengthZeros(n int) []byte {
	out := make([]byte, 0, n/64+4)
	for n > 0 {
		k := min(n, 128)
		if k == 1 {
			out = append(out, 0, 0)
		} else {
			out = append(out, byte(257-k), 0)
		}
		n -= k
	}
	return append(out, 128)
}

func ascii85Zeros(n int) []byte {
	out := bytes.Repeat([]byte{'z'}, n/4)
	if r := n % 4; r > 0 {
		out = append(out, bytes.Repeat([]byte{'!'}, r+1)...)
	}
	return append(out, '~', '>')
}

// PredictorBomb returns a small Flate stream whose /DecodeParms claim a PNG
// predictor row of the given (huge) number of columns.
func PredictorBomb(columns int64, colors, bpc int) *Stream {
	data, _ := deflate(append([]byte{2}, make([]byte, 64)...), 0)
	parms := D("Predictor", Int(12), "Columns", Int(columns))
	if colors > 0 {
		parms.Set("Colors", Int(colors))
	}
	if bpc > 0 {
		parms.Set("BitsPerComponent", Int(bpc))
	}
	return &Stream{
		Dict:       D("Filter", Name("FlateDecode"), "DecodeParms", parms),
		Data:       data,
		PreEncoded: true,
	}
}

// HugeImage returns an image XObject that declares width x height x bpc but
// carries only a few bytes of (Flate-compressed) data.
func HugeImage(width, height int64, bpc int, colorSpace Name) *Stream {
	data, _ := deflate(make([]byte, 16), 0)
	return &Stream{
		Dict: D("Type", Name("XObject"), "Subtype", Name("Image"), "Width", Int(width), "Height", Int(height),
			"BitsPerComponent", Int(bpc), "ColorSpace", colorSpace, "Filter", Name("FlateDecode")),
		Data:       data,
		PreEncoded: true,
	}
}

func (k LengthMode) String() string {
	return [...]string{"default", "value", "indirect", "selfref", "danglingref", "missing"}[k]
}

// Describe renders the overrides compactly (for replay files and reports).
func (o *Overrides) Describe() string {
	if o == nil {
		return "{}"
	}
	var b bytes.Buffer
	add := func(format string, a ...any) {
		if b.Len() > 0 {
			b.WriteByte(' ')
		}
		fmt.Fprintf(&b, format, a...)
	}
	if o.Prefix != nil {
		add("prefix=%dB", len(o.Prefix))
	}
	if o.Suffix != nil {
		add("suffix=%dB", len(o.Suffix))
	}
	if o.Header != nil {
		add("header=%q", o.Header)
	}
	if len(o.StartXRef) > 0 {
		add("startxref=%v", o.StartXRef)
	}
	if len(o.DropStartXRef) > 0 {
		add("dropstartxref=%v", o.DropStartXRef)
	}
	if len(o.DropEOF) > 0 {
		add("dropEOF=%v", o.DropEOF)
	}
	if len(o.XRefEntries) > 0 {
		add("xrefentries=%v", o.XRefEntries)
	}
	if len(o.TrailerSize) > 0 {
		add("size=%v", o.TrailerSize)
	}
	if len(o.TrailerPrev) > 0 {
		add("prev=%v", o.TrailerPrev)
	}
	if len(o.TrailerSet) > 0 {
		m := map[int]string{}
		for k, v := range o.TrailerSet {
			m[k] = string(Serialize(v))
		}
		add("trailerset=%v", m)
	}
	if len(o.TrailerDel) > 0 {
		add("trailerdel=%v", o.TrailerDel)
	}
	if len(o.XRefStm) > 0 {
		add("xrefstm=%v", o.XRefStm)
	}
	if len(o.Length) > 0 {
		add("length=%v", o.Length)
	}
	if len(o.ObjStm) > 0 {
		add("objstm=%v", o.ObjStm)
	}
	if len(o.DropEndObj) > 0 {
		add("dropendobj=%v", o.DropEndObj)
	}
	if len(o.DropEndStream) > 0 {
		add("dropendstream=%v", o.DropEndStream)
	}
	for _, d := range o.Duplicates {
		add("dup=%d(before=%v,xref=%v,alt=%v)", d.Num, d.Before, d.XRefToDup, d.Obj != nil)
	}
	if o.TruncateAt.Set {
		add("truncate=%d", o.TruncateAt.V)
	}
	if b.Len() == 0 {
		return "{}"
	}
	return b.String()
}
