package pdfgen

import (
	"bytes"
	"fmt"
	"math/rand/v2"
	"regexp"
	"strconv"
	"strings"
	"testing"
)

// A deliberately small, strict, test-only reader of the file structure. It
// exists because pdfcpu silently repairs wrong offsets, so "pdfcpu accepts
// it" says nothing about the cross-reference data being exact. It only
// understands what this writer emits (dictionary values are fished out with
// regular expressions), but it follows the PDF rules for everything it
// checks: startxref, xref table syntax (20-byte entries), xref streams
// (/W, /Index, filters via our decoders), /Prev chain, /XRefStm, free list,
// object offsets, stream /Length, object stream /N /First and pair table.

type xent struct {
	typ    int
	f2, f3 int64
}

var (
	reInt      = func(key string) *regexp.Regexp { return regexp.MustCompile(`/` + key + `\s+(-?\d+)`) }
	reStartx   = regexp.MustCompile(`startxref[\r\n]+(\d+)[\r\n]+%%EOF[\r\n]*$`)
	reObjHead  = regexp.MustCompile(`^(\d+) (\d+) obj[\r\n]`)
	reArr      = func(key string) *regexp.Regexp { return regexp.MustCompile(`/` + key + `\s*\[([^\]]*)\]`) }
	reLenRef   = regexp.MustCompile(`/Length\s+(\d+) 0 R`)
	reStreamKw = regexp.MustCompile(`[\r\n]stream(\r\n|\n)`)
)

func intsOf(s string) []int64 {
	var out []int64
	for _, f := range strings.Fields(s) {
		v, err := strconv.ParseInt(f, 10, 64)
		if err != nil {
			continue
		}
		out = append(out, v)
	}
	return out
}

type strictFile struct {
	b       []byte
	entries map[int]xent // newest wins
	size    int64
	errs    []string
}

func (f *strictFile) errf(format string, a ...any) {
	f.errs = append(f.errs, fmt.Sprintf(format, a...))
}

// objectAt returns dictionary text and stream data of the object at off.
func (f *strictFile) objectAt(off int64, wantNum int) (dict string, data []byte, ok bool) {
	if off < 0 || off >= int64(len(f.b)) {
		f.errf("object %d: offset %d outside file", wantNum, off)
		return "", nil, false
	}
	m := reObjHead.FindSubmatch(f.b[off:min(off+40, int64(len(f.b)))])
	if m == nil {
		f.errf("object %d: no object header at offset %d: %q", wantNum, off, f.b[off:min(off+20, int64(len(f.b)))])
		return "", nil, false
	}
	if n, _ := strconv.Atoi(string(m[1])); wantNum >= 0 && n != wantNum {
		f.errf("object %d: offset %d holds object %d", wantNum, off, n)
		return "", nil, false
	}
	rest := f.b[off+int64(len(m[0])):]
	end := bytes.Index(rest, []byte("endobj"))
	sIdx := reStreamKw.FindIndex(rest)
	if sIdx == nil || (end >= 0 && end < sIdx[0]) {
		if end < 0 {
			f.errf("object %d: no endobj", wantNum)
			return "", nil, false
		}
		return string(rest[:end]), nil, true
	}
	dict = string(rest[:sIdx[0]])
	var length int64
	if m := reLenRef.FindStringSubmatch(dict); m != nil {
		n, _ := strconv.Atoi(m[1])
		e, have := f.entries[n]
		if !have || e.typ != 1 {
			f.errf("object %d: indirect /Length %d 0 R has no in-use entry", wantNum, n)
			return dict, nil, false
		}
		ld, _, ok := f.objectAt(e.f2, n)
		if !ok {
			return dict, nil, false
		}
		length, _ = strconv.ParseInt(strings.TrimSpace(ld), 10, 64)
	} else if m := reInt("Length").FindStringSubmatch(dict); m != nil {
		length, _ = strconv.ParseInt(m[1], 10, 64)
	} else {
		f.errf("object %d: stream without /Length", wantNum)
		return dict, nil, false
	}
	start := int64(sIdx[1])
	if start+length > int64(len(rest)) {
		f.errf("object %d: /Length %d runs past the end of the file", wantNum, length)
		return dict, nil, false
	}
	data = rest[start : start+length]
	tail := rest[start+length:]
	if !regexp.MustCompile(`^(\r\n|\r|\n)endstream(\r\n|\r|\n)endobj`).Match(tail) {
		f.errf("object %d: /Length %d does not end right before EOL+endstream: %q", wantNum, length, tail[:min(20, len(tail))])
		return dict, data, false
	}
	return dict, data, true
}

func filtersOf(dict string) []FilterSpec {
	var fs []FilterSpec
	m := regexp.MustCompile(`/Filter\s*(\[[^\]]*\]|/\w+)`).FindStringSubmatch(dict)
	if m == nil {
		return nil
	}
	for _, n := range regexp.MustCompile(`/(\w+)`).FindAllStringSubmatch(m[1], -1) {
		for _, k := range []FilterKind{Flate, LZW, RunLength, ASCII85, ASCIIHex} {
			if string(k.PDFName()) == n[1] {
				fs = append(fs, FilterSpec{Kind: k})
			}
		}
	}
	// predictor parameters: only the single-filter case is needed here (xref streams)
	if pm := regexp.MustCompile(`/DecodeParms\s*(?:\[\s*)?<<([^>]*)>>`).FindStringSubmatch(dict); pm != nil && len(fs) == 1 {
		get := func(k string) int {
			if m := reInt(k).FindStringSubmatch(pm[1]); m != nil {
				v, _ := strconv.Atoi(m[1])
				return v
			}
			return 0
		}
		fs[0].Predictor, fs[0].Columns, fs[0].Colors, fs[0].BPC = get("Predictor"), get("Columns"), get("Colors"), get("BitsPerComponent")
	}
	return fs
}

func (f *strictFile) put(num int, e xent) {
	if _, have := f.entries[num]; !have {
		f.entries[num] = e
	}
}

func (f *strictFile) readXRefStream(off int64) (dict string) {
	dict, data, ok := f.objectAt(off, -1)
	if !ok {
		return ""
	}
	if !strings.Contains(dict, "/Type /XRef") {
		f.errf("offset %d: not an xref stream", off)
		return ""
	}
	dec, err := Decode(data, filtersOf(dict))
	if err != nil {
		f.errf("xref stream at %d: %v", off, err)
		return ""
	}
	w := intsOf(reArr("W").FindStringSubmatch(dict)[1])
	size, _ := strconv.ParseInt(reInt("Size").FindStringSubmatch(dict)[1], 10, 64)
	index := []int64{0, size}
	if m := reArr("Index").FindStringSubmatch(dict); m != nil {
		index = intsOf(m[1])
	}
	rowLen := int(w[0] + w[1] + w[2])
	rows := 0
	for i := 0; i+1 < len(index); i += 2 {
		rows += int(index[i+1])
	}
	if rows*rowLen != len(dec) {
		f.errf("xref stream at %d: %d rows of %d bytes != %d data bytes", off, rows, rowLen, len(dec))
		return dict
	}
	p := 0
	field := func(n int64) int64 {
		var v int64
		for i := int64(0); i < n; i++ {
			v = v<<8 | int64(dec[p])
			p++
		}
		return v
	}
	for i := 0; i+1 < len(index); i += 2 {
		for k := int64(0); k < index[i+1]; k++ {
			t := int64(1)
			if w[0] > 0 {
				t = field(w[0])
			}
			f2, f3 := field(w[1]), field(w[2])
			if index[i]+k >= size {
				f.errf("xref stream at %d: entry for object %d >= /Size %d", off, index[i]+k, size)
			}
			f.put(int(index[i]+k), xent{int(t), f2, f3})
		}
	}
	f.size = max(f.size, size)
	return dict
}

func (f *strictFile) readXRefTable(off int64) (trailer string) {
	b := f.b[off:]
	eolLen := func(b []byte) int {
		switch {
		case bytes.HasPrefix(b, []byte("\r\n")):
			return 2
		case len(b) > 0 && (b[0] == '\n' || b[0] == '\r'):
			return 1
		}
		return 0
	}
	p := 4 + eolLen(b[4:])
	if eolLen(b[4:]) == 0 {
		f.errf("xref at %d: no EOL after keyword", off)
		return ""
	}
	for !bytes.HasPrefix(b[p:], []byte("trailer")) {
		m := regexp.MustCompile(`^(\d+) (\d+)(\r\n|\r|\n)`).FindSubmatch(b[p:min(p+40, len(b))])
		if m == nil {
			f.errf("xref at %d: bad subsection header %q", off, b[p:min(p+20, len(b))])
			return ""
		}
		start, _ := strconv.Atoi(string(m[1]))
		count, _ := strconv.Atoi(string(m[2]))
		p += len(m[0])
		for k := 0; k < count; k++ {
			e := b[p : p+20]
			if !regexp.MustCompile(`^\d{10} \d{5} [nf]( \r| \n|\r\n)$`).Match(e) {
				f.errf("xref at %d: malformed 20-byte entry %q", off, e)
				return ""
			}
			f2, _ := strconv.ParseInt(string(e[:10]), 10, 64)
			f3, _ := strconv.ParseInt(string(e[11:16]), 10, 64)
			t := 1
			if e[17] == 'f' {
				t = 0
			}
			f.put(start+k, xent{t, f2, f3})
			p += 20
		}
	}
	end := bytes.Index(b[p:], []byte("startxref"))
	return string(b[p : p+end])
}

func readStrict(b []byte) *strictFile {
	f := &strictFile{b: b, entries: map[int]xent{}}
	if !bytes.HasPrefix(b, []byte("%PDF-1.")) {
		f.errf("no header")
	}
	m := reStartx.FindSubmatch(b)
	if m == nil {
		f.errf("no startxref/%%%%EOF at the end")
		return f
	}
	off, _ := strconv.ParseInt(string(m[1]), 10, 64)
	seen := map[int64]bool{}
	for off >= 0 {
		if seen[off] {
			f.errf("/Prev cycle at %d", off)
			break
		}
		seen[off] = true
		var dict string
		if bytes.HasPrefix(b[off:], []byte("xref")) {
			dict = f.readXRefTable(off)
			if m := reInt("Size").FindStringSubmatch(dict); m != nil {
				s, _ := strconv.ParseInt(m[1], 10, 64)
				f.size = max(f.size, s)
			}
			if m := reInt("XRefStm").FindStringSubmatch(dict); m != nil {
				x, _ := strconv.ParseInt(m[1], 10, 64)
				f.readXRefStream(x)
			}
		} else {
			dict = f.readXRefStream(off)
		}
		if dict == "" {
			break
		}
		off = -1
		if m := reInt("Prev").FindStringSubmatch(dict); m != nil {
			off, _ = strconv.ParseInt(m[1], 10, 64)
		}
	}
	return f
}

// check verifies every entry against the bytes.
func (f *strictFile) check() {
	// free list: 0 -> ... -> 0 through every free entry exactly once
	free := map[int]bool{}
	for n, e := range f.entries {
		if e.typ == 0 {
			free[n] = true
		}
		if int64(n) >= f.size {
			f.errf("object %d >= /Size %d", n, f.size)
		}
	}
	if e, ok := f.entries[0]; !ok || e.typ != 0 || e.f3 != 65535 {
		f.errf("object 0 is not the free list head with generation 65535: %+v", e)
	} else {
		cur, steps := 0, 0
		for {
			delete(free, cur)
			nxt := int(f.entries[cur].f2)
			if nxt == 0 {
				break
			}
			if e, ok := f.entries[nxt]; !ok || e.typ != 0 {
				f.errf("free list: %d links to %d which is not free", cur, nxt)
				break
			}
			cur = nxt
			if steps++; steps > len(f.entries) {
				f.errf("free list: cycle")
				break
			}
		}
		if len(free) > 0 {
			f.errf("free entries not on the free list: %v", free)
		}
	}
	objstms := map[int][]string{} // objstm num -> member serialisations
	for n, e := range f.entries {
		switch e.typ {
		case 1:
			f.objectAt(e.f2, n)
		case 2:
			osn := int(e.f2)
			oe, ok := f.entries[osn]
			if !ok || oe.typ != 1 {
				f.errf("object %d: container %d has no in-use entry", n, osn)
				continue
			}
			if _, done := objstms[osn]; !done {
				dict, data, ok := f.objectAt(oe.f2, osn)
				if !ok {
					continue
				}
				if !strings.Contains(dict, "/Type /ObjStm") {
					f.errf("object %d: container %d is not an object stream", n, osn)
					continue
				}
				dec, err := Decode(data, filtersOf(dict))
				if err != nil {
					f.errf("object stream %d: %v", osn, err)
					continue
				}
				N, _ := strconv.Atoi(reInt("N").FindStringSubmatch(dict)[1])
				first, _ := strconv.Atoi(reInt("First").FindStringSubmatch(dict)[1])
				pairs := intsOf(string(dec[:first]))
				if len(pairs) != 2*N {
					f.errf("object stream %d: /N %d but %d numbers before /First", osn, N, len(pairs))
					continue
				}
				members := make([]string, N)
				for i := 0; i < N; i++ {
					end := len(dec)
					if i+1 < N {
						end = first + int(pairs[2*i+3])
					}
					members[i] = fmt.Sprintf("%d:%s", pairs[2*i], bytes.TrimSpace(dec[first+int(pairs[2*i+1]):end]))
				}
				objstms[osn] = members
			}
			ms := objstms[osn]
			if int(e.f3) >= len(ms) || !strings.HasPrefix(ms[e.f3], fmt.Sprintf("%d:", n)) {
				f.errf("object %d: index %d of object stream %d does not hold it", n, e.f3, osn)
			}
		}
	}
}

func structuralErrors(b []byte) []string {
	f := readStrict(b)
	if len(f.errs) == 0 {
		f.check()
	}
	return f.errs
}

// TestFileStructureExact checks offsets, lengths, free lists, object streams
// and /Prev chains of many random documents with the strict mini reader, and
// compares the entries it finds with what the writer says it wrote.
func TestFileStructureExact(t *testing.T) {
	rng := rand.New(rand.NewPCG(99, 7))
	kinds := map[string]int{}
	for i := 0; i < 300; i++ {
		spec := RandomSpec(rng, 1+i%8)
		if i%3 == 0 {
			spec.Updates = 1 + i%4
			spec.Unreferenced = true
		}
		if i%5 == 0 {
			spec.Write.HybridHiddenFree = true
		}
		bt := Build(spec)
		if errs := structuralErrors(bt.Bytes); len(errs) > 0 {
			t.Errorf("doc %d (%s): %d structural errors, first: %s\n file: %s", i, describeSpec(bt.Spec), len(errs), errs[0], dumpFailure(t, fmt.Sprintf("struct-%03d", i), bt.Bytes))
			if t.Failed() && i > 20 {
				return
			}
			continue
		}
		// the reader's merged view must equal the writer's own record
		f := readStrict(bt.Bytes)
		want := map[int]XRefEntry{}
		for _, rl := range bt.Layout.Revs {
			for n, e := range rl.Entries {
				want[n] = e
			}
		}
		for n, e := range want {
			if e.Type == 1 && e.F3 == 1 {
				kinds["has-generation-1-object"]++
			}
			if e.Type == 0 && n != 0 && e.F3 == 1 {
				kinds["has-freed-object"]++
			}
			g, ok := f.entries[n]
			hiddenFree := bt.Spec.Write.XRef == XRefHybrid && bt.Spec.Write.HybridHiddenFree && e.Type == 2
			if hiddenFree {
				// the table lists it free, the /XRefStm stream as compressed; the table is read first
				if !ok || g.typ != 0 {
					t.Errorf("doc %d: hidden object %d should be free in the table, got %+v", i, n, g)
				}
				continue
			}
			if !ok || g.typ != e.Type || g.f2 != e.F2 || g.f3 != e.F3 {
				t.Errorf("doc %d: object %d: file says %+v, writer recorded %+v", i, n, g, e)
			}
		}
		kinds[fmt.Sprintf("%v/objstm=%v/revs=%d", spec.Write.XRef, spec.Write.ObjStm, len(bt.Layout.Revs))]++
	}
	t.Logf("configurations: %v", kinds)
}

func TestEOLStyles(t *testing.T) {
	for _, eol := range []string{"\n", "\r", "\r\n"} {
		bt := Build(DocSpec{Seed: 3, Pages: 2, Info: true, Write: Options{EOL: eol, BinaryComment: true}})
		b := bt.Bytes
		other := map[string][]string{"\n": {"\r"}, "\r": {}, "\r\n": {}}[eol]
		// outside stream data no foreign EOL may appear: blank out streams first
		for _, o := range bt.Layout.Objects {
			if o.StreamStart >= 0 {
				for k := o.StreamStart; k < o.StreamStart+o.StreamLen; k++ {
					b[k] = 'x'
				}
			}
		}
		for _, x := range other {
			if bytes.Contains(b, []byte(x)) {
				t.Errorf("EOL %q: found %q outside streams", eol, x)
			}
		}
		switch eol {
		case "\r":
			// CR files: LF only as second byte of the CRLF after "stream"
			if n := bytes.Count(b, []byte("\n")); n != bytes.Count(b, []byte("stream\r\n")) {
				t.Errorf("EOL CR: %d LFs but %d 'stream CRLF'", n, bytes.Count(b, []byte("stream\r\n")))
			}
		case "\r\n":
			if bytes.Count(b, []byte("\n")) != bytes.Count(b, []byte("\r\n")) || bytes.Count(b, []byte("\r")) != bytes.Count(b, []byte("\r\n")) {
				t.Errorf("EOL CRLF: lone CR or LF present")
			}
		}
		if !bytes.HasPrefix(b, []byte("%PDF-1.7"+eol+"%\xe2\xe3\xcf\xd3"+eol)) {
			t.Errorf("EOL %q: header/binary comment wrong: %q", eol, b[:20])
		}
	}
}
