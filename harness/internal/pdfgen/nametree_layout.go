package pdfgen

// Name trees with an EXPLICIT layout: BuildNameTree sorts its entries and writes every key as a literal or hex
// string of the same bytes; a crafted document need not do either. BuildNameTreeLayout writes exactly the leaves it
// is given - same key twice in one /Names array, the same key in two leaves, keys out of order - and every key as
// the object the caller supplies (literal, hex, Raw spelling with escapes, UTF-16 text string ...).

// NameTreeKV is one entry of an explicit leaf: Key is the object written into /Names, Bytes the key's byte string
// as a reader decodes it (used for /Limits), Val the value.
type NameTreeKV struct {
	Key   Object
	Bytes []byte
	Val   Object
}

// KV makes an entry whose key is written as a literal string.
func KV(key []byte, val Object) NameTreeKV {
	return NameTreeKV{Key: String(key), Bytes: append([]byte(nil), key...), Val: val}
}

// BuildNameTreeLayout adds a name tree made of exactly the given leaves, in the given order, nothing sorted, merged
// or deduplicated. A single leaf with flat set becomes the root itself (/Names in the root); otherwise the root has
// /Kids. With fan >= 2 and more than fan leaves an intermediate level of nodes with at most fan kids is inserted.
// /Limits are the decoded bytes of the first and last entry of each leaf / subtree AS LAID OUT (not min / max).
// It returns the root reference and the object numbers of all nodes (root first).
func BuildNameTreeLayout(doc *Doc, leaves [][]NameTreeKV, fan int, flat bool) (Ref, []int) {
	names := func(es []NameTreeKV) Array {
		a := Array{}
		for _, e := range es {
			a = append(a, e.Key, e.Val)
		}
		return a
	}
	if flat && len(leaves) == 1 {
		r := doc.Add(D("Names", names(leaves[0])))
		return r, []int{r.Num}
	}
	type node struct {
		ref         Ref
		first, last []byte
	}
	var nodes []int
	var level []node
	for _, es := range leaves {
		d := D()
		var first, last []byte
		if len(es) > 0 {
			first, last = es[0].Bytes, es[len(es)-1].Bytes
			d.Set("Limits", Array{String(first), String(last)})
		}
		d.Set("Names", names(es))
		r := doc.Add(d)
		nodes = append(nodes, r.Num)
		level = append(level, node{r, first, last})
	}
	for fan >= 2 && len(level) > fan {
		var up []node
		for i := 0; i < len(level); i += fan {
			chunk := level[i:min(i+fan, len(level))]
			var kids Array
			for _, n := range chunk {
				kids = append(kids, n.ref)
			}
			first, last := chunk[0].first, chunk[len(chunk)-1].last
			r := doc.Add(D("Limits", Array{String(first), String(last)}, "Kids", kids))
			nodes = append(nodes, r.Num)
			up = append(up, node{r, first, last})
		}
		level = up
	}
	var kids Array
	for _, n := range level {
		kids = append(kids, n.ref)
	}
	root := doc.Add(D("Kids", kids))
	return root, append([]int{root.Num}, nodes...)
}
