// Package pdflex holds small lexers for PDF scalar syntax written from ISO 32000-1
// (7.3.4.2 literal strings, 7.3.4.3 hexadecimal strings, 7.3.5 names) independently of
// pdfcpu. They are the reference side of the C11/C12 oracles and never call into pdfcpu.
package pdflex

import (
	"errors"
	"fmt"
)

// LitResult is what LiteralString saw.
type LitResult struct {
	Bytes           []byte // decoded string value
	Consumed        int    // bytes of the input used, including both enclosing parentheses
	UnescapedParens int    // '(' / ')' seen inside the body without a preceding backslash
	RawEOLs         int    // unescaped end-of-line markers inside the body (each reads as LF)
	UnknownEscapes  int    // backslash followed by a character outside Table 3 (backslash ignored)
}

func isOct(c byte) bool { return c >= '0' && c <= '7' }

// LiteralString lexes one literal string "( ... )" at the start of s (ISO 32000-1 7.3.4.2):
// balanced unescaped parentheses belong to the string; \n \r \t \b \f \( \) \\ and \ddd
// (one to three octal digits, high-order overflow ignored) are escape sequences; a backslash
// followed by an end-of-line marker (CR, LF or CR LF) continues the line and yields nothing;
// a backslash followed by anything else is dropped; an unescaped end-of-line marker (CR, LF,
// CR LF) inside the string reads as a single LF.
func LiteralString(s string) (LitResult, error) {
	var r LitResult
	if len(s) == 0 || s[0] != '(' {
		return r, errors.New("literal string does not start with '('")
	}
	depth := 1
	i := 1
	for i < len(s) {
		c := s[i]
		switch c {
		case '\\':
			i++
			if i >= len(s) {
				return r, errors.New("literal string ends inside an escape sequence")
			}
			e := s[i]
			switch e {
			case 'n':
				r.Bytes = append(r.Bytes, 0x0A)
				i++
			case 'r':
				r.Bytes = append(r.Bytes, 0x0D)
				i++
			case 't':
				r.Bytes = append(r.Bytes, 0x09)
				i++
			case 'b':
				r.Bytes = append(r.Bytes, 0x08)
				i++
			case 'f':
				r.Bytes = append(r.Bytes, 0x0C)
				i++
			case '(', ')', '\\':
				r.Bytes = append(r.Bytes, e)
				i++
			case 0x0D:
				i++
				if i < len(s) && s[i] == 0x0A {
					i++
				}
			case 0x0A:
				i++
			default:
				if isOct(e) {
					v := 0
					n := 0
					for n < 3 && i < len(s) && isOct(s[i]) {
						v = v*8 + int(s[i]-'0')
						i++
						n++
					}
					r.Bytes = append(r.Bytes, byte(v&0xff))
				} else {
					r.UnknownEscapes++
					r.Bytes = append(r.Bytes, e)
					i++
				}
			}
		case '(':
			depth++
			r.UnescapedParens++
			r.Bytes = append(r.Bytes, c)
			i++
		case ')':
			depth--
			if depth == 0 {
				r.Consumed = i + 1
				return r, nil
			}
			r.UnescapedParens++
			r.Bytes = append(r.Bytes, c)
			i++
		case 0x0D:
			r.RawEOLs++
			r.Bytes = append(r.Bytes, 0x0A)
			i++
			if i < len(s) && s[i] == 0x0A {
				i++
			}
		case 0x0A:
			r.RawEOLs++
			r.Bytes = append(r.Bytes, 0x0A)
			i++
		default:
			r.Bytes = append(r.Bytes, c)
			i++
		}
	}
	return r, errors.New("literal string not terminated (unbalanced parentheses)")
}

func hexVal(c byte) int {
	switch {
	case c >= '0' && c <= '9':
		return int(c - '0')
	case c >= 'a' && c <= 'f':
		return int(c-'a') + 10
	case c >= 'A' && c <= 'F':
		return int(c-'A') + 10
	}
	return -1
}

// HexBody decodes the body of a hexadecimal string (the text between '<' and '>', 7.3.4.3):
// white space is ignored, digits are case-insensitive, a missing final digit is 0.
func HexBody(body string) ([]byte, error) {
	var out []byte
	hi := -1
	for i := 0; i < len(body); i++ {
		c := body[i]
		switch c {
		case 0x00, 0x09, 0x0A, 0x0C, 0x0D, 0x20:
			continue
		}
		v := hexVal(c)
		if v < 0 {
			return nil, fmt.Errorf("hex string: illegal character %q", c)
		}
		if hi < 0 {
			hi = v
		} else {
			out = append(out, byte(hi<<4|v))
			hi = -1
		}
	}
	if hi >= 0 {
		out = append(out, byte(hi<<4))
	}
	return out, nil
}

// IsWhite reports the six white-space characters of Table 1.
func IsWhite(c byte) bool {
	switch c {
	case 0x00, 0x09, 0x0A, 0x0C, 0x0D, 0x20:
		return true
	}
	return false
}

// IsDelimiter reports the delimiter characters of Table 2.
func IsDelimiter(c byte) bool {
	switch c {
	case '(', ')', '<', '>', '[', ']', '{', '}', '/', '%':
		return true
	}
	return false
}

// IsRegular reports a regular character (neither white space nor delimiter).
func IsRegular(c byte) bool { return !IsWhite(c) && !IsDelimiter(c) }

// NameBody checks and decodes the written form of a name without its leading '/' (7.3.5):
// every byte must be a regular character in '!'..'~' (what a writer shall emit; anything
// else must be written as #xx) and '#' must introduce exactly two hexadecimal digits which
// must not encode NUL.
func NameBody(enc string) ([]byte, error) {
	var out []byte
	for i := 0; i < len(enc); i++ {
		c := enc[i]
		if c < '!' || c > '~' {
			return nil, fmt.Errorf("name: byte 0x%02x at %d is outside '!'..'~'", c, i)
		}
		if IsDelimiter(c) {
			return nil, fmt.Errorf("name: unencoded delimiter %q at %d", c, i)
		}
		if c != '#' {
			out = append(out, c)
			continue
		}
		if i+2 > len(enc)-1 {
			return nil, fmt.Errorf("name: '#' at %d is not followed by two characters", i)
		}
		h, l := hexVal(enc[i+1]), hexVal(enc[i+2])
		if h < 0 || l < 0 {
			return nil, fmt.Errorf("name: '#' at %d is not followed by two hex digits", i)
		}
		b := byte(h<<4 | l)
		if b == 0 {
			return nil, fmt.Errorf("name: #00 at %d", i)
		}
		out = append(out, b)
		i += 2
	}
	return out, nil
}
