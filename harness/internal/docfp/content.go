package docfp

import (
	"sort"
	"strings"
)

// Use is one resource name used by an operator of a content stream.
type Use struct {
	Cat  string // resource category: Font, XObject, ExtGState, ColorSpace, Pattern, Shading, Properties
	Name string // decoded name (#xx resolved)
}

// token kinds of the content lexer
const (
	tkOp = iota
	tkName
	tkNumber
	tkString
	tkArrayOpen
	tkArrayClose
	tkDictOpen
	tkDictClose
	tkEOF
)

type ctok struct {
	kind int
	text string // operator keyword or decoded name
}

func isWS(c byte) bool {
	return c == 0 || c == 9 || c == 10 || c == 12 || c == 13 || c == 32
}

func isDelim(c byte) bool {
	switch c {
	case '(', ')', '<', '>', '[', ']', '{', '}', '/', '%':
		return true
	}
	return false
}

func hexv(c byte) int {
	switch {
	case c >= '0' && c <= '9':
		return int(c - '0')
	case c >= 'a' && c <= 'f':
		return int(c-'a') + 10
	case c >= 'A' && c <= 'F':
		return int(c-'A') + 10
	}
	return -1
}

type clexer struct {
	b   []byte
	pos int
}

func (l *clexer) next() ctok {
	b := l.b
	for l.pos < len(b) {
		c := b[l.pos]
		if isWS(c) {
			l.pos++
			continue
		}
		if c == '%' {
			for l.pos < len(b) && b[l.pos] != '\n' && b[l.pos] != '\r' {
				l.pos++
			}
			continue
		}
		break
	}
	if l.pos >= len(b) {
		return ctok{kind: tkEOF}
	}
	c := b[l.pos]
	switch c {
	case '/':
		l.pos++
		var sb strings.Builder
		for l.pos < len(b) && !isWS(b[l.pos]) && !isDelim(b[l.pos]) {
			ch := b[l.pos]
			if ch == '#' && l.pos+2 < len(b)+0 && l.pos+2 <= len(b)-1 && hexv(b[l.pos+1]) >= 0 && hexv(b[l.pos+2]) >= 0 {
				sb.WriteByte(byte(hexv(b[l.pos+1])<<4 | hexv(b[l.pos+2])))
				l.pos += 3
				continue
			}
			sb.WriteByte(ch)
			l.pos++
		}
		return ctok{kind: tkName, text: sb.String()}
	case '(':
		depth := 0
		for l.pos < len(b) {
			ch := b[l.pos]
			l.pos++
			if ch == '\\' {
				l.pos++
				continue
			}
			if ch == '(' {
				depth++
			} else if ch == ')' {
				depth--
				if depth == 0 {
					break
				}
			}
		}
		return ctok{kind: tkString}
	case '<':
		if l.pos+1 < len(b) && b[l.pos+1] == '<' {
			l.pos += 2
			return ctok{kind: tkDictOpen}
		}
		for l.pos < len(b) && b[l.pos] != '>' {
			l.pos++
		}
		l.pos++
		return ctok{kind: tkString}
	case '>':
		if l.pos+1 < len(b) && b[l.pos+1] == '>' {
			l.pos += 2
			return ctok{kind: tkDictClose}
		}
		l.pos++
		return ctok{kind: tkOp, text: ">"}
	case '[':
		l.pos++
		return ctok{kind: tkArrayOpen}
	case ']':
		l.pos++
		return ctok{kind: tkArrayClose}
	case '{', '}', ')':
		l.pos++
		return ctok{kind: tkOp, text: string(c)}
	}
	start := l.pos
	for l.pos < len(b) && !isWS(b[l.pos]) && !isDelim(b[l.pos]) {
		l.pos++
	}
	w := string(b[start:l.pos])
	if len(w) > 0 && (w[0] == '+' || w[0] == '-' || w[0] == '.' || (w[0] >= '0' && w[0] <= '9')) {
		return ctok{kind: tkNumber, text: w}
	}
	return ctok{kind: tkOp, text: w}
}

// skipInlineImage positions the lexer after the EI that ends the inline image whose ID operator
// was just read: EI preceded by white space and followed by white space or end of data.
func (l *clexer) skipInlineImage() {
	b := l.b
	if l.pos < len(b) && isWS(b[l.pos]) {
		l.pos++
	}
	for i := l.pos; i+1 < len(b); i++ {
		if b[i] == 'E' && b[i+1] == 'I' && (i == 0 || isWS(b[i-1])) && (i+2 >= len(b) || isWS(b[i+2])) {
			l.pos = i + 2
			return
		}
	}
	l.pos = len(b)
}

var deviceSpaces = map[string]bool{"DeviceGray": true, "DeviceRGB": true, "DeviceCMYK": true, "Pattern": true,
	"G": true, "RGB": true, "CMYK": true, "I": true, "Indexed": true}

// Uses returns the resource names the operators of a content stream use (Do, Tf, gs, cs/CS,
// scn/SCN with a pattern name, sh, BDC/DP with a named property list, /CS of inline images),
// sorted and without duplicates.
func Uses(content []byte) []Use {
	l := &clexer{b: content}
	set := map[Use]bool{}
	var operands []ctok
	depth := 0
	for {
		t := l.next()
		if t.kind == tkEOF {
			break
		}
		switch t.kind {
		case tkArrayOpen, tkDictOpen:
			depth++
			operands = append(operands, t)
			continue
		case tkArrayClose, tkDictClose:
			if depth > 0 {
				depth--
			}
			operands = append(operands, t)
			continue
		}
		if t.kind != tkOp {
			operands = append(operands, t)
			continue
		}
		if depth > 0 {
			continue // keyword-like garbage inside an array or dictionary operand
		}
		lastName := func() (string, bool) {
			if n := len(operands); n > 0 && operands[n-1].kind == tkName {
				return operands[n-1].text, true
			}
			return "", false
		}
		switch t.text {
		case "Do":
			if n, ok := lastName(); ok {
				set[Use{"XObject", n}] = true
			}
		case "Tf":
			if n := len(operands); n >= 2 && operands[n-2].kind == tkName {
				set[Use{"Font", operands[n-2].text}] = true
			}
		case "gs":
			if n, ok := lastName(); ok {
				set[Use{"ExtGState", n}] = true
			}
		case "cs", "CS":
			if n, ok := lastName(); ok && !deviceSpaces[n] {
				set[Use{"ColorSpace", n}] = true
			}
		case "scn", "SCN":
			if n, ok := lastName(); ok {
				set[Use{"Pattern", n}] = true
			}
		case "sh":
			if n, ok := lastName(); ok {
				set[Use{"Shading", n}] = true
			}
		case "BDC", "DP":
			// tag, then a property list: an inline dictionary or a name
			if n, ok := lastName(); ok && len(operands) >= 2 && operands[len(operands)-2].kind == tkName {
				set[Use{"Properties", n}] = true
			}
		case "BI":
			// key/value pairs up to ID
			var prev ctok
			for {
				k := l.next()
				if k.kind == tkEOF {
					break
				}
				if k.kind == tkOp && k.text == "ID" {
					l.skipInlineImage()
					break
				}
				if k.kind == tkName && prev.kind == tkName && (prev.text == "CS" || prev.text == "ColorSpace") && !deviceSpaces[k.text] {
					set[Use{"ColorSpace", k.text}] = true
				}
				prev = k
			}
		}
		operands = operands[:0]
	}
	out := make([]Use, 0, len(set))
	for u := range set {
		out = append(out, u)
	}
	sort.Slice(out, func(i, j int) bool {
		if out[i].Cat != out[j].Cat {
			return out[i].Cat < out[j].Cat
		}
		return out[i].Name < out[j].Name
	})
	return out
}
