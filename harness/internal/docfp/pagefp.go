package docfp

import (
	"crypto/sha256"
	"encoding/hex"
	"fmt"
	"sort"
	"strings"

	"verif/harness/internal/pdfstrict"
)

// PageFP is what one page shows, as far as it can be told without rendering.
type PageFP struct {
	Index       int
	Obj         int
	ContentHash string
	ContentLen  int
	ContentErr  string
	Boxes       map[string]string // MediaBox, CropBox (effective, after inheritance), BleedBox, TrimBox, ArtBox (if present)
	Rotate      int
	UserUnit    string
	// Resources is the whole effective resource dictionary (a node, or "null").
	Resources Val
	// Uses are the resource names used by operators of the page content; Res maps each of them to
	// the value it resolves to in the effective resources (scalar "!missing" if it does not).
	// Names used by the content of a form XObject WITHOUT its own /Resources are resolved against
	// the page's resources as well (ISO 32000-1 7.8.3) and appear with Cat "<cat>@form"; so are the
	// names used by resource-less forms such a form paints, to any depth (every form once per page:
	// a form that paints itself, directly or not, is not followed again). A form WITH its own
	// /Resources ends the descent: what it and the forms below it use is part of its own node.
	Uses []Use
	Res  map[Use]Val
}

// BoxNames lists the page boundary keys in a fixed order.
var BoxNames = []string{"MediaBox", "CropBox", "BleedBox", "TrimBox", "ArtBox"}

func rectText(d *pdfstrict.Doc, o pdfstrict.Object) (string, bool) {
	a, ok := d.Resolve(o).(pdfstrict.Array)
	if !ok || len(a) != 4 {
		return "", false
	}
	parts := make([]string, 4)
	for i, x := range a {
		f, isNum := pdfstrict.Number(d.Resolve(x))
		if !isNum {
			return "", false
		}
		parts[i] = FormatReal(f)
	}
	return "[" + strings.Join(parts, " ") + "]", true
}

func boxText(b [4]float64) string {
	return fmt.Sprintf("[%s %s %s %s]", FormatReal(b[0]), FormatReal(b[1]), FormatReal(b[2]), FormatReal(b[3]))
}

// maxFormDepth bounds the descent through nested resource-less forms (a safety net next to the
// once-per-page guard).
const maxFormDepth = 256

var dropPieceInfo = map[string]bool{"PieceInfo": true}

// Pages computes the fingerprint of every page. It adds nodes to g, so it must be called before
// Refine. formDrop names keys ignored in the dictionary of a used form XObject (may be nil).
func (g *Graph) Pages(formDrop map[string]bool) ([]PageFP, error) {
	pages, err := g.Doc.Pages()
	if err != nil {
		return nil, err
	}
	out := make([]PageFP, len(pages))
	for i, pg := range pages {
		fp := PageFP{Index: i, Obj: pg.Ref.Num, Boxes: map[string]string{}, Rotate: pg.Rotate, Res: map[Use]Val{}}
		sum := sha256.Sum256(pg.Content)
		fp.ContentHash, fp.ContentLen = hex.EncodeToString(sum[:]), len(pg.Content)
		if pg.ContentErr != nil {
			fp.ContentErr = pg.ContentErr.Error()
		}
		if pg.HasMediaBox {
			fp.Boxes["MediaBox"] = boxText(pg.MediaBox)
		}
		if pg.HasMediaBox || pg.HasCropBox {
			fp.Boxes["CropBox"] = boxText(pg.CropBox)
		}
		for _, k := range []string{"BleedBox", "TrimBox", "ArtBox"} {
			if t, ok := rectText(g.Doc, pg.Dict[k]); ok {
				fp.Boxes[k] = t
			}
		}
		if f, ok := pdfstrict.Number(g.Doc.Resolve(pg.Dict["UserUnit"])); ok {
			fp.UserUnit = FormatReal(f)
		}
		fp.Resources = Val{S: "null", N: -1}
		resHolder := 0
		if pg.Resources != nil {
			raw, holder := g.inheritedRaw(pg, "Resources")
			resHolder = holder
			if raw == nil {
				raw = pg.Resources
			}
			fp.Resources = g.AddHeld(raw, holder)
		}
		seenForm := map[int]bool{}
		var useAll func(content []byte, suffix string, depth int)
		useAll = func(content []byte, suffix string, depth int) {
			for _, u := range Uses(content) {
				key := Use{Cat: u.Cat + suffix, Name: u.Name}
				if _, done := fp.Res[key]; done {
					continue
				}
				obj, found := g.lookupResource(pg.Resources, u)
				if !found {
					fp.Res[key] = Val{S: "!missing", N: -1}
					fp.Uses = append(fp.Uses, key)
					continue
				}
				if st, isStream := g.Doc.Resolve(obj).(*pdfstrict.Stream); isStream && u.Cat == "XObject" {
					if sub, _ := g.Doc.Resolve(st.Dict["Subtype"]).(pdfstrict.Name); sub == "Form" {
						fp.Res[key] = g.AddWithout(obj, formDrop)
						fp.Uses = append(fp.Uses, key)
						if _, own := g.Doc.ResolveDict(st.Dict["Resources"]); !own && depth < maxFormDepth && !seenForm[st.ObjNr] {
							seenForm[st.ObjNr] = true
							if data, derr := g.Doc.DecodeStream(st); derr == nil {
								useAll(data, "@form", depth+1)
							}
						}
						continue
					}
				}
				fp.Res[key] = g.AddHeld(obj, resHolder)
				fp.Uses = append(fp.Uses, key)
			}
		}
		useAll(pg.Content, "", 0)
		sort.Slice(fp.Uses, func(a, b int) bool {
			if fp.Uses[a].Cat != fp.Uses[b].Cat {
				return fp.Uses[a].Cat < fp.Uses[b].Cat
			}
			return fp.Uses[a].Name < fp.Uses[b].Name
		})
		out[i] = fp
	}
	return out, nil
}

// inheritedRaw returns the unresolved value of an inheritable page attribute and the number of
// the page tree object that holds it.
func (g *Graph) inheritedRaw(pg pdfstrict.Page, key string) (pdfstrict.Object, int) {
	d, holder := pg.Dict, pg.Ref.Num
	for hops := 0; d != nil && hops < 64; hops++ {
		if v, ok := d[key]; ok && !pdfstrict.IsNull(g.Doc.Resolve(v)) {
			return v, holder
		}
		pr, isRef := d["Parent"].(pdfstrict.Ref)
		if !isRef {
			break
		}
		holder = pr.Num
		d, _ = g.Doc.ResolveDict(pr)
	}
	return nil, 0
}

func (g *Graph) lookupResource(res pdfstrict.Dict, u Use) (pdfstrict.Object, bool) {
	if res == nil {
		return nil, false
	}
	cat, ok := g.Doc.ResolveDict(res[u.Cat])
	if !ok {
		return nil, false
	}
	v, ok := cat[u.Name]
	if !ok || pdfstrict.IsNull(g.Doc.Resolve(v)) {
		return nil, false
	}
	return v, true
}

// UsedResources builds a synthetic resource dictionary that holds only the entries the page
// content uses: {category: {name: object}}.
func (g *Graph) UsedResources(res pdfstrict.Dict, content []byte) pdfstrict.Dict {
	out := pdfstrict.Dict{}
	for _, u := range Uses(content) {
		if obj, ok := g.lookupResource(res, u); ok {
			cat, _ := out[u.Cat].(pdfstrict.Dict)
			if cat == nil {
				cat = pdfstrict.Dict{}
				out[u.Cat] = cat
			}
			cat[u.Name] = obj
		}
	}
	return out
}

// PageContent returns the decoded content of a page dictionary (streams joined by "\n").
func PageContent(d *pdfstrict.Doc, page pdfstrict.Dict) []byte {
	var parts []pdfstrict.Object
	switch v := d.Resolve(page["Contents"]).(type) {
	case *pdfstrict.Stream:
		parts = []pdfstrict.Object{v}
	case pdfstrict.Array:
		parts = v
	}
	var out []byte
	for i, p := range parts {
		st, ok := d.Resolve(p).(*pdfstrict.Stream)
		if !ok {
			continue
		}
		b, err := d.DecodeStream(st)
		if err != nil {
			continue
		}
		if i > 0 {
			out = append(out, '\n')
		}
		out = append(out, b...)
	}
	return out
}
