// Package docfp reduces documents read with the independent reader pdfstrict to reader-neutral
// graphs and fingerprints, and compares them (C19: writing preserves content, C20: optimisation
// preserves what pages show). Nothing here imports pdfcpu.
//
// A Graph holds one node per container (dictionary, array, stream), whether it was written as a
// direct or as an indirect object; scalars are inlined, references to scalar objects are replaced
// by the scalar. Streams are represented by their DECODED data. Two comparisons are offered:
//
//   - Strict: a canonical text (traversal from the top with sorted keys, first-visit numbering of
//     indirect objects, reals with at most 12 fractional digits). Equal texts <=> the reachable
//     graphs are isomorphic up to renumbering.
//   - Refine + Same: partition refinement (bisimulation) over the union of several graphs. Two
//     values with the same colour unfold to the same infinite tree, i.e. the graphs are equal up to
//     renumbering, merging of identical objects and direct/indirect representation.
package docfp

import (
	"crypto/sha256"
	"encoding/binary"
	"encoding/hex"
	"fmt"
	"math"
	"sort"
	"strconv"
	"strings"

	"verif/harness/internal/pdfstrict"
)

// Val is a value in a graph: a scalar (N < 0, S is its canonical text) or a node (N >= 0).
type Val struct {
	S string
	N int
}

// IsNode reports whether v designates a container node.
func (v Val) IsNode() bool { return v.N >= 0 }

// Node is one container.
type Node struct {
	Kind byte     // 'd' dictionary, 'a' array, 's' stream
	Keys []string // 'd','s': sorted keys (after normalisation), parallel to Kids
	Kids []Val    // 'd','s': values; 'a': elements
	Data string   // 's': digest of the decoded data
	Obj  int      // object number when the container is an indirect object, else 0
	Type string   // /Type (or /Subtype, /S) of a dictionary, for diagnostics
	// Dangling lists dictionary keys (or "[i]" for array elements) whose value is an indirect
	// reference to a free, undefined or null object. Such entries read as null (= absent).
	Dangling []string
	// Holder: for a direct container added on its own (AddHeld), the number of the indirect
	// object it lives in.
	Holder int
}

// Rules are the normalisations applied while a graph is built. Each one is justified by the
// property text of C19/C20 (see the workers).
type Rules struct {
	// InfoDrop: keys dropped from the document information dictionary (trailer /Info).
	InfoDrop map[string]bool
	// RootDrop: keys dropped from the catalog (trailer /Root).
	RootDrop map[string]bool
	// KeepStreamEncoding keeps /Length /Filter /DecodeParms /DL of streams (default: dropped,
	// the decoded data is compared instead).
	KeepStreamEncoding bool
	// DropEverywhere: keys dropped from every dictionary (use sparingly).
	DropEverywhere map[string]bool
	// FlattenNameTrees replaces every name/number tree (dictionary with /Names or /Nums or with
	// /Kids and without /Type) by the sorted list of its pairs.
	FlattenNameTrees bool
	// PushDownPageAttrs removes the inheritable attributes (Resources, MediaBox, CropBox, Rotate)
	// from page tree nodes and stores the effective value in every page.
	PushDownPageAttrs bool
	// UsedResourcesOnly (with PushDownPageAttrs): a page's effective resource dictionary is
	// replaced by the entries its content uses ({category: {name: object}}).
	UsedResourcesOnly bool
	// DropEmptyCatalogTrees: a catalog /Names that is an empty dictionary, a catalog /Outlines
	// without /First (no item) and a catalog /AcroForm with an empty /Fields array count as absent.
	DropEmptyCatalogTrees bool
	// StripSubsetTags removes the subset tag ("ABCDEF+") from /BaseFont of font dictionaries.
	StripSubsetTags bool
}

// Graph is a set of nodes built from one document.
type Graph struct {
	Doc   *pdfstrict.Doc
	Rules Rules
	Nodes []*Node
	byObj map[int]int
	info  int
	root  int
	depth int

	pending []pendingNode
}

var streamEncodingKeys = map[string]bool{"Length": true, "Filter": true, "DecodeParms": true, "DL": true}

// decodable filters of pdfstrict (everything else stops the pipeline: "opaque").
var decodable = map[string]bool{"FlateDecode": true, "Fl": true, "LZWDecode": true, "LZW": true,
	"ASCII85Decode": true, "A85": true, "ASCIIHexDecode": true, "AHx": true, "RunLengthDecode": true, "RL": true}

// FormatReal renders a number with at most 12 fractional digits; integral values as integers.
func FormatReal(f float64) string {
	if f == math.Trunc(f) && math.Abs(f) < 1e15 {
		return strconv.FormatInt(int64(f), 10)
	}
	s := strconv.FormatFloat(f, 'f', 12, 64)
	s = strings.TrimRight(s, "0")
	s = strings.TrimSuffix(s, ".")
	if s == "-0" || s == "" {
		s = "0"
	}
	return s
}

func scalarText(o pdfstrict.Object) (string, bool) {
	switch v := o.(type) {
	case nil, pdfstrict.Null:
		return "null", true
	case pdfstrict.Bool:
		if v {
			return "true", true
		}
		return "false", true
	case pdfstrict.Int:
		return strconv.FormatInt(int64(v), 10), true
	case pdfstrict.Real:
		return FormatReal(float64(v)), true
	case pdfstrict.Name:
		return "/" + strconv.Quote(string(v)), true
	case pdfstrict.String:
		return "<" + hex.EncodeToString(v) + ">", true
	}
	return "", false
}

// New starts a graph over d.
func New(d *pdfstrict.Doc, rules Rules) *Graph {
	g := &Graph{Doc: d, Rules: rules, byObj: map[int]int{}, info: -1, root: -1}
	tr := d.Trailer()
	if r, ok := tr["Info"].(pdfstrict.Ref); ok {
		g.info = r.Num
	}
	if r, ok := tr["Root"].(pdfstrict.Ref); ok {
		g.root = r.Num
	}
	return g
}

// Top adds a virtual top dictionary holding the given keys of the newest trailer (default: Root
// and Info) and returns it.
func (g *Graph) Top(keys ...string) Val {
	tr := g.Doc.Trailer()
	top := pdfstrict.Dict{}
	if len(keys) == 0 {
		keys = []string{"Root", "Info"}
	}
	for _, k := range keys {
		if v, ok := tr[k]; ok {
			top[k] = v
		}
	}
	return g.Add(top)
}

// Add adds o (and everything reachable from it) and returns its value. Indirect objects are
// added once per graph; a direct container gets a fresh node on every call.
func (g *Graph) Add(o pdfstrict.Object) Val {
	v := g.add(o, nil)
	g.drain()
	return v
}

// AddHeld is Add for a value found inside indirect object holder (a direct container is then
// attributed to that object in diagnostics).
func (g *Graph) AddHeld(o pdfstrict.Object, holder int) Val {
	v := g.Add(o)
	if v.IsNode() && g.Nodes[v.N].Obj == 0 {
		g.Nodes[v.N].Holder = holder
	}
	return v
}

// AddWithout adds a container like Add but without the given keys of its top-level dictionary.
// The node is always fresh (not shared with the indirect object it may come from).
func (g *Graph) AddWithout(o pdfstrict.Object, drop map[string]bool) Val {
	o = g.Doc.Resolve(o)
	if drop == nil {
		drop = map[string]bool{}
	}
	v := g.add(o, drop)
	g.drain()
	return v
}

const maxDepth = 400

type pendingNode struct {
	idx int
	obj pdfstrict.Object
	nr  int
}

// drain fills the nodes of indirect objects met so far (iteratively: long /Next chains must not
// deepen the recursion).
func (g *Graph) drain() {
	for len(g.pending) > 0 {
		p := g.pending[len(g.pending)-1]
		g.pending = g.pending[:len(g.pending)-1]
		g.fill(g.Nodes[p.idx], p.obj, p.nr, nil)
	}
}

func (g *Graph) fill(n *Node, o pdfstrict.Object, objNr int, drop map[string]bool) {
	switch v := o.(type) {
	case pdfstrict.Array:
		n.Kind = 'a'
		n.Kids = make([]Val, len(v))
		for i, x := range v {
			n.Kids[i] = g.add(x, nil)
			if _, isRef := x.(pdfstrict.Ref); isRef && !n.Kids[i].IsNode() && n.Kids[i].S == "null" {
				n.Dangling = append(n.Dangling, fmt.Sprintf("[%d]", i))
			}
		}
	case pdfstrict.Dict:
		n.Kind = 'd'
		g.fillDict(n, v, objNr, drop, false, false)
	case *pdfstrict.Stream:
		n.Kind = 's'
		g.fillStream(n, v, objNr, drop)
	default:
		n.Kind = 'a'
		n.Kids = []Val{{S: fmt.Sprintf("!unknown(%T)", o), N: -1}}
	}
}

func kindOf(o pdfstrict.Object) byte {
	switch o.(type) {
	case pdfstrict.Dict:
		return 'd'
	case *pdfstrict.Stream:
		return 's'
	}
	return 'a'
}

func (g *Graph) add(o pdfstrict.Object, drop map[string]bool) Val {
	if s, ok := scalarText(o); ok {
		return Val{S: s, N: -1}
	}
	if r, ok := o.(pdfstrict.Ref); ok {
		if n, seen := g.byObj[r.Num]; seen {
			return Val{N: n}
		}
		t, err := g.Doc.Get(r)
		if err != nil {
			return Val{S: "!unreadable", N: -1}
		}
		for hops := 0; hops < 32; hops++ {
			r2, again := t.(pdfstrict.Ref)
			if !again {
				break
			}
			if t, err = g.Doc.Get(r2); err != nil {
				return Val{S: "!unreadable", N: -1}
			}
		}
		if s, ok := scalarText(t); ok {
			return Val{S: s, N: -1}
		}
		if _, still := t.(pdfstrict.Ref); still {
			return Val{S: "null", N: -1}
		}
		n := &Node{Obj: r.Num, Kind: kindOf(t)}
		idx := len(g.Nodes)
		g.Nodes = append(g.Nodes, n)
		g.byObj[r.Num] = idx
		g.pending = append(g.pending, pendingNode{idx, t, r.Num})
		return Val{N: idx}
	}
	if g.depth > maxDepth {
		return Val{S: "!depth", N: -1}
	}
	g.depth++
	defer func() { g.depth-- }()
	n := &Node{}
	idx := len(g.Nodes)
	g.Nodes = append(g.Nodes, n)
	g.fill(n, o, 0, drop)
	return Val{N: idx}
}

func typeOf(g *Graph, d pdfstrict.Dict) string {
	for _, k := range []string{"Type", "Subtype", "S"} {
		if t, ok := g.Doc.Resolve(d[k]).(pdfstrict.Name); ok {
			if k == "Subtype" && (t == "Form" || t == "Image" || t == "PS") {
				return "XObject" // /Type is optional for XObjects
			}
			return string(t)
		}
	}
	return ""
}

func (g *Graph) dropKey(k string, objNr int, drop map[string]bool, isStream, keepEnc bool) bool {
	if drop[k] || g.Rules.DropEverywhere[k] {
		return true
	}
	if isStream && !keepEnc && !g.Rules.KeepStreamEncoding && streamEncodingKeys[k] {
		return true
	}
	if objNr > 0 && objNr == g.info && g.Rules.InfoDrop[k] {
		return true
	}
	if objNr > 0 && objNr == g.root && g.Rules.RootDrop[k] {
		return true
	}
	return false
}

// emptyCatalogTree reports whether catalog entry k (value v) is a name dictionary without entries
// or an outline dictionary without items.
func (g *Graph) emptyCatalogTree(k string, v pdfstrict.Object) bool {
	d, ok := g.Doc.Resolve(v).(pdfstrict.Dict)
	if !ok {
		return false
	}
	switch k {
	case "Names":
		for _, x := range d {
			if !pdfstrict.IsNull(g.Doc.Resolve(x)) {
				return false
			}
		}
		return true
	case "Outlines":
		return pdfstrict.IsNull(g.Doc.Resolve(d["First"]))
	case "AcroForm":
		f, isArr := g.Doc.Resolve(d["Fields"]).(pdfstrict.Array)
		return isArr && len(f) == 0
	}
	return false
}

func (g *Graph) fillDict(n *Node, d pdfstrict.Dict, objNr int, drop map[string]bool, isStream, keepEnc bool) {
	n.Type = typeOf(g, d)
	if g.Rules.FlattenNameTrees && !isStream && isTreeNode(d) {
		g.fillTree(n, d)
		return
	}
	var pushed map[string]pdfstrict.Object
	if g.Rules.PushDownPageAttrs && !isStream {
		switch n.Type {
		case "Pages":
			drop = union(drop, inheritable)
		case "Page":
			pushed = g.effectivePageAttrs(d)
			drop = union(drop, inheritable)
			if g.Rules.UsedResourcesOnly {
				res, _ := g.Doc.ResolveDict(pushed["Resources"])
				pushed["Resources"] = g.UsedResources(res, PageContent(g.Doc, d))
			}
		}
	}
	keys := d.Keys()
	for k := range pushed {
		if _, has := d[k]; !has {
			keys = append(keys, k)
		}
	}
	sort.Strings(keys)
	for _, k := range keys {
		v := d[k]
		if pv, ok := pushed[k]; ok {
			v = pv
		} else if g.dropKey(k, objNr, drop, isStream, keepEnc) {
			continue
		} else if g.Rules.DropEmptyCatalogTrees && objNr > 0 && objNr == g.root && g.emptyCatalogTree(k, v) {
			continue
		}
		val := g.add(v, nil)
		if g.Rules.StripSubsetTags && k == "BaseFont" && !val.IsNode() {
			if t, _ := g.Doc.Resolve(d["Type"]).(pdfstrict.Name); t == "Font" {
				if nm, ok := g.Doc.Resolve(v).(pdfstrict.Name); ok && len(nm) > 7 && nm[6] == '+' && strings.ToUpper(string(nm[:6])) == string(nm[:6]) {
					val, _ = func() (Val, bool) { s, _ := scalarText(pdfstrict.Name(nm[7:])); return Val{S: s, N: -1}, true }()
				}
			}
		}
		if !val.IsNode() && val.S == "null" {
			if _, isRef := v.(pdfstrict.Ref); isRef {
				n.Dangling = append(n.Dangling, k)
			}
			continue // ISO 32000-1 7.3.7: an entry whose value is null is equivalent to an absent entry
		}
		n.Keys = append(n.Keys, k)
		n.Kids = append(n.Kids, val)
	}
}

var inheritable = map[string]bool{"Resources": true, "MediaBox": true, "CropBox": true, "Rotate": true}

func union(a, b map[string]bool) map[string]bool {
	out := map[string]bool{}
	for k := range a {
		out[k] = true
	}
	for k := range b {
		out[k] = true
	}
	return out
}

// effectivePageAttrs walks /Parent upwards and returns the effective inheritable attributes.
func (g *Graph) effectivePageAttrs(page pdfstrict.Dict) map[string]pdfstrict.Object {
	out := map[string]pdfstrict.Object{}
	d := page
	for hops := 0; d != nil && hops < 64; hops++ {
		for k := range inheritable {
			if _, have := out[k]; have {
				continue
			}
			if v, ok := d[k]; ok && !pdfstrict.IsNull(g.Doc.Resolve(v)) {
				out[k] = v
			}
		}
		p, ok := g.Doc.ResolveDict(d["Parent"])
		if !ok {
			break
		}
		d = p
	}
	return out
}

func isTreeNode(d pdfstrict.Dict) bool {
	if _, ok := d["Type"]; ok {
		return false
	}
	if _, ok := d["Names"].(pdfstrict.Array); ok {
		return true
	}
	if _, ok := d["Nums"].(pdfstrict.Array); ok {
		return true
	}
	if _, ok := d["Limits"]; ok {
		if _, ok := d["Kids"]; ok {
			return true
		}
	}
	return false
}

// fillTree flattens a name or number tree into Keys ("~<key text>") and values in key order.
func (g *Graph) fillTree(n *Node, root pdfstrict.Dict) {
	n.Type = "~tree"
	type pair struct {
		k string
		v pdfstrict.Object
	}
	var pairs []pair
	seen := map[int]bool{}
	var walk func(d pdfstrict.Dict, depth int)
	walk = func(d pdfstrict.Dict, depth int) {
		if depth > 64 {
			return
		}
		for _, key := range []string{"Names", "Nums"} {
			if a, ok := g.Doc.Resolve(d[key]).(pdfstrict.Array); ok {
				for i := 0; i+1 < len(a); i += 2 {
					ks, _ := scalarText(g.Doc.Resolve(a[i]))
					if iv, isInt := g.Doc.Resolve(a[i]).(pdfstrict.Int); isInt {
						ks = fmt.Sprintf("#%020d", int64(iv)+1<<40)
					}
					pairs = append(pairs, pair{ks, a[i+1]})
				}
			}
		}
		if kids, ok := g.Doc.Resolve(d["Kids"]).(pdfstrict.Array); ok {
			for _, kid := range kids {
				if r, isRef := kid.(pdfstrict.Ref); isRef {
					if seen[r.Num] {
						continue
					}
					seen[r.Num] = true
				}
				if kd, ok := g.Doc.Resolve(kid).(pdfstrict.Dict); ok {
					walk(kd, depth+1)
				}
			}
		}
	}
	walk(root, 0)
	sort.SliceStable(pairs, func(i, j int) bool { return pairs[i].k < pairs[j].k })
	for _, p := range pairs {
		n.Keys = append(n.Keys, "~"+p.k)
		n.Kids = append(n.Kids, g.add(p.v, nil))
	}
	// keys other than the tree structure (rare, but keep them visible)
	for _, k := range root.Keys() {
		switch k {
		case "Names", "Nums", "Kids", "Limits":
		default:
			n.Keys = append(n.Keys, k)
			n.Kids = append(n.Kids, g.add(root[k], nil))
		}
	}
}

func (g *Graph) fillStream(n *Node, s *pdfstrict.Stream, objNr int, drop map[string]bool) {
	// digest of the decoded data; for opaque pipelines the remaining filters stay part of the node
	var names []string
	switch f := g.Doc.Resolve(s.Dict["Filter"]).(type) {
	case pdfstrict.Name:
		names = []string{string(f)}
	case pdfstrict.Array:
		for _, e := range f {
			if nm, ok := g.Doc.Resolve(e).(pdfstrict.Name); ok {
				names = append(names, string(nm))
			} else {
				names = append(names, "?")
			}
		}
	}
	stop := -1
	for i, nm := range names {
		if !decodable[nm] {
			stop = i
			break
		}
	}
	data, opaque, err := g.Doc.DecodeStreamOpaque(s)
	switch {
	case err != nil:
		sum := sha256.Sum256(s.Plain)
		n.Data = "undecodable:" + hex.EncodeToString(sum[:])
		g.fillDict(n, s.Dict, objNr, drop, true, true) // the encoding keys stay: the raw bytes are compared
		return
	default:
		sum := sha256.Sum256(data)
		n.Data = "sha256:" + hex.EncodeToString(sum[:]) + ":" + strconv.Itoa(len(data))
	}
	g.fillDict(n, s.Dict, objNr, drop, true, false)
	if opaque && stop >= 0 {
		n.Keys = append(n.Keys, "~opaque")
		n.Kids = append(n.Kids, Val{S: strings.Join(names[stop:], ","), N: -1})
		// parameters of the undecoded tail
		switch dp := g.Doc.Resolve(firstOf(s.Dict, "DecodeParms", "DP")).(type) {
		case pdfstrict.Dict:
			if len(names) == 1 {
				n.Keys = append(n.Keys, "~opaque-parms")
				n.Kids = append(n.Kids, g.add(dp, nil))
			}
		case pdfstrict.Array:
			if len(dp) == len(names) {
				n.Keys = append(n.Keys, "~opaque-parms")
				n.Kids = append(n.Kids, g.add(pdfstrict.Array(dp[stop:]), nil))
			}
		}
	}
}

func firstOf(d pdfstrict.Dict, keys ...string) pdfstrict.Object {
	for _, k := range keys {
		if v, ok := d[k]; ok {
			return v
		}
	}
	return nil
}

// ---------------------------------------------------------------- strict canonical text

// Strict returns the canonical text of everything reachable from v: line 0 is v itself, then one
// line per INDIRECT container in first-visit order (breadth first, keys sorted); references are
// shown as R<visit number>, direct containers inline.
func (g *Graph) Strict(v Val) string {
	ids := map[int]int{}
	var queue []int
	var sb strings.Builder
	var write func(v Val, top bool, depth int)
	write = func(v Val, top bool, depth int) {
		if !v.IsNode() {
			sb.WriteString(v.S)
			return
		}
		n := g.Nodes[v.N]
		if n.Obj > 0 && !top {
			id, ok := ids[v.N]
			if !ok {
				queue = append(queue, v.N)
				id = len(queue)
				ids[v.N] = id
			}
			fmt.Fprintf(&sb, "R%d", id)
			return
		}
		if depth > maxDepth {
			sb.WriteString("!depth")
			return
		}
		switch n.Kind {
		case 'a':
			sb.WriteByte('[')
			for i, k := range n.Kids {
				if i > 0 {
					sb.WriteByte(' ')
				}
				write(k, false, depth+1)
			}
			sb.WriteByte(']')
		default:
			if n.Kind == 's' {
				sb.WriteString("stream")
			}
			sb.WriteString("<<")
			for i, k := range n.Keys {
				sb.WriteString(k)
				sb.WriteByte(' ')
				write(n.Kids[i], false, depth+1)
				sb.WriteByte(' ')
			}
			sb.WriteString(">>")
			if n.Kind == 's' {
				sb.WriteString(n.Data)
			}
		}
	}
	sb.WriteString("top: ")
	if v.IsNode() && g.Nodes[v.N].Obj > 0 {
		ids[v.N] = 0
	}
	write(v, true, 0)
	sb.WriteByte('\n')
	for i := 0; i < len(queue); i++ {
		fmt.Fprintf(&sb, "%d: ", i+1)
		write(Val{N: queue[i]}, true, 0)
		sb.WriteByte('\n')
	}
	return sb.String()
}

// Reachable returns the number of indirect containers reachable from v.
func (g *Graph) Reachable(v Val) int {
	seen := map[int]bool{}
	cnt := 0
	var walk func(v Val)
	walk = func(v Val) {
		if !v.IsNode() || seen[v.N] {
			return
		}
		seen[v.N] = true
		if g.Nodes[v.N].Obj > 0 {
			cnt++
		}
		for _, k := range g.Nodes[v.N].Kids {
			walk(k)
		}
	}
	walk(v)
	return cnt
}

// ---------------------------------------------------------------- refinement

// Colors are the result of Refine: one colour per node of each graph.
type Colors struct {
	graphs []*Graph
	col    [][]uint64x2
	Rounds int
}

type uint64x2 [2]uint64

// Refine runs partition refinement over the union of the graphs until the partition is stable.
// Colours are content based and therefore comparable across the graphs.
func Refine(graphs ...*Graph) *Colors {
	c := &Colors{graphs: graphs, col: make([][]uint64x2, len(graphs))}
	for gi, g := range graphs {
		c.col[gi] = make([]uint64x2, len(g.Nodes))
	}
	hashNode := func(gi int, n *Node, self uint64x2, round int) uint64x2 {
		h := sha256.New()
		var buf [16]byte
		h.Write([]byte{n.Kind})
		if round > 0 {
			binary.LittleEndian.PutUint64(buf[:8], self[0])
			binary.LittleEndian.PutUint64(buf[8:], self[1])
			h.Write(buf[:])
		}
		h.Write([]byte(n.Data))
		for i, k := range n.Kids {
			if n.Kind != 'a' {
				h.Write([]byte{0, 'k'})
				h.Write([]byte(n.Keys[i]))
			}
			if k.IsNode() {
				h.Write([]byte{0, 'n'})
				if round > 0 {
					cc := c.col[gi][k.N]
					binary.LittleEndian.PutUint64(buf[:8], cc[0])
					binary.LittleEndian.PutUint64(buf[8:], cc[1])
					h.Write(buf[:])
				} else {
					h.Write([]byte{c.graphs[gi].Nodes[k.N].Kind})
				}
			} else {
				h.Write([]byte{0, 's'})
				h.Write([]byte(k.S))
			}
		}
		var sum [32]byte
		h.Sum(sum[:0])
		return uint64x2{binary.LittleEndian.Uint64(sum[:8]), binary.LittleEndian.Uint64(sum[8:16])}
	}
	prevClasses := -1
	for round := 0; round < 100000; round++ {
		next := make([][]uint64x2, len(graphs))
		classes := map[uint64x2]struct{}{}
		for gi, g := range graphs {
			next[gi] = make([]uint64x2, len(g.Nodes))
			for ni, n := range g.Nodes {
				cc := hashNode(gi, n, c.col[gi][ni], round)
				next[gi][ni] = cc
				classes[cc] = struct{}{}
			}
		}
		c.col = next
		c.Rounds = round + 1
		if len(classes) == prevClasses {
			break // colours include the previous colour, so an unchanged class count means a stable partition
		}
		prevClasses = len(classes)
	}
	return c
}

// Color returns a comparable description of v: the scalar text, or the node's colour.
func (c *Colors) Color(gi int, v Val) string {
	if !v.IsNode() {
		return "=" + v.S
	}
	cc := c.col[gi][v.N]
	return fmt.Sprintf("&%016x%016x", cc[0], cc[1])
}

// Same reports whether a (in graph ga) and b (in graph gb) unfold to the same tree.
func (c *Colors) Same(ga int, a Val, gb int, b Val) bool {
	if a.IsNode() != b.IsNode() {
		return false
	}
	if !a.IsNode() {
		return a.S == b.S
	}
	return c.col[ga][a.N] == c.col[gb][b.N]
}

// ---------------------------------------------------------------- differences

// Diff is one located difference between two values.
type Diff struct {
	Path  string // concrete path, e.g. Root/Pages/Kids[0]/Resources/Font/F1/Widths[3]
	Where string // path class (stable across inputs), e.g. Font.Widths[]
	Kind  string // missing | dangling | added | scalar | type | array-length | stream-data
	A, B  string // short descriptions
	// EnclA / EnclB: object number of the innermost indirect object that holds the differing
	// entry in graph a / b (0 if none); EnclType its /Type.
	EnclA, EnclB int
	EnclType     string
}

func (d Diff) String() string {
	return fmt.Sprintf("%s [%s %s] A=%s B=%s", d.Path, d.Where, d.Kind, d.A, d.B)
}

var resourceCats = map[string]bool{"Font": true, "XObject": true, "ExtGState": true, "ColorSpace": true,
	"Pattern": true, "Shading": true, "Properties": true, "CharProcs": true, "N": true, "D": true, "R": true,
	"Dests": true, "Colorants": true, "AP": true}

var navKeys = map[string]bool{"First": true, "Last": true, "Next": true, "Prev": true, "Parent": true, "Kids": true, "P": true}

type step struct {
	key   string // dictionary key or "[]"
	typ   string // /Type of the dictionary the key lives in
	index int
}

func whereOf(steps []step) string {
	// class = type of the innermost typed dictionary on the path + the keys below it (at most 3),
	// with resource names, array indices and flattened tree keys made anonymous.
	var parts []string
	start := 0
	for i := len(steps) - 1; i >= 0; i-- {
		if steps[i].typ != "" && steps[i].typ != "~tree" {
			start = i
			break
		}
	}
	ctx := ""
	if len(steps) > 0 {
		ctx = steps[start].typ
	}
	for i := start; i < len(steps); i++ {
		k := steps[i].key
		if navKeys[k] && i < len(steps)-1 && steps[i].typ == "" {
			continue // links of untyped chains and trees (outline items, name tree nodes) do not name a place
		}
		switch {
		case k == "[]":
			if len(parts) > 0 && strings.HasSuffix(parts[len(parts)-1], "[]") {
				continue
			}
			if len(parts) > 0 {
				parts[len(parts)-1] += "[]"
				continue
			}
			k = "[]"
		case strings.HasPrefix(k, "~") && k != "~opaque" && k != "~opaque-parms" && k != "~data":
			k = "~entry"
		case i > 0 && steps[i-1].key != "[]" && resourceCats[steps[i-1].key] && steps[i].typ == "":
			k = "*"
		}
		parts = append(parts, k)
	}
	if len(parts) > 4 {
		parts = parts[len(parts)-4:]
	}
	if ctx == "" {
		ctx = "-"
	}
	return ctx + ":" + strings.Join(parts, ".")
}

func pathOf(steps []step) string {
	var sb strings.Builder
	for i, s := range steps {
		if s.key == "[]" {
			fmt.Fprintf(&sb, "[%d]", s.index)
			continue
		}
		if i > 0 {
			sb.WriteByte('/')
		}
		sb.WriteString(s.key)
	}
	return sb.String()
}

func clip(s string, n int) string {
	if len(s) > n {
		return s[:n] + "…"
	}
	return s
}

// Describe renders v shallowly.
func (g *Graph) Describe(v Val) string {
	if !v.IsNode() {
		return clip(v.S, 80)
	}
	n := g.Nodes[v.N]
	switch n.Kind {
	case 'a':
		return fmt.Sprintf("array(%d)#%d", len(n.Kids), n.Obj)
	case 's':
		return fmt.Sprintf("stream{%s}%s#%d", strings.Join(n.Keys, ","), clip(n.Data, 24), n.Obj)
	}
	return fmt.Sprintf("dict{%s}#%d", clip(strings.Join(n.Keys, ","), 120), n.Obj)
}

// Differences walks a (graph ga) and b (graph gb) in parallel and returns up to max located
// differences. Colours must come from a Refine call that included both graphs.
func (c *Colors) Differences(ga int, a Val, gb int, b Val, max int) []Diff {
	A, B := c.graphs[ga], c.graphs[gb]
	var out []Diff
	seen := map[[2]int]bool{}
	type encl struct {
		a, b int
		typ  string
	}
	var walk func(a, b Val, steps []step, e encl)
	contains := func(l []string, k string) bool {
		for _, x := range l {
			if x == k {
				return true
			}
		}
		return false
	}
	add := func(steps []step, kind string, a, b Val, haveA, haveB bool, e encl) {
		if len(out) >= max {
			return
		}
		d := Diff{Path: pathOf(steps), Where: whereOf(steps), Kind: kind, A: "-", B: "-", EnclA: e.a, EnclB: e.b, EnclType: e.typ}
		if haveA {
			d.A = A.Describe(a)
		}
		if haveB {
			d.B = B.Describe(b)
		}
		out = append(out, d)
	}
	ext := func(steps []step, st step) []step { return append(steps[:len(steps):len(steps)], st) }
	walk = func(a, b Val, steps []step, e encl) {
		if len(out) >= max || c.Same(ga, a, gb, b) {
			return
		}
		if !a.IsNode() || !b.IsNode() {
			kind := "scalar"
			if a.IsNode() != b.IsNode() {
				kind = "type"
			}
			add(steps, kind, a, b, true, true, e)
			return
		}
		if seen[[2]int{a.N, b.N}] {
			return
		}
		seen[[2]int{a.N, b.N}] = true
		na, nb := A.Nodes[a.N], B.Nodes[b.N]
		if na.Obj > 0 {
			e = encl{na.Obj, nb.Obj, na.Type}
		} else if na.Holder > 0 && e.a == 0 {
			e = encl{na.Holder, nb.Holder, ""}
		}
		if na.Kind != nb.Kind {
			add(steps, "type", a, b, true, true, e)
			return
		}
		if na.Kind == 'a' {
			if len(na.Kids) != len(nb.Kids) {
				add(steps, "array-length", a, b, true, true, e)
				return
			}
			for i := range na.Kids {
				st := ext(steps, step{key: "[]", index: i})
				if na.Kids[i].IsNode() && !nb.Kids[i].IsNode() && contains(nb.Dangling, fmt.Sprintf("[%d]", i)) {
					add(st, "dangling", na.Kids[i], nb.Kids[i], true, true, e)
					continue
				}
				walk(na.Kids[i], nb.Kids[i], st, e)
			}
			return
		}
		if na.Kind == 's' && na.Data != nb.Data {
			add(ext(steps, step{key: "~data", typ: na.Type}), "stream-data", a, b, true, true, e)
		}
		ia, ib := 0, 0
		for ia < len(na.Keys) || ib < len(nb.Keys) {
			switch {
			case ib >= len(nb.Keys) || (ia < len(na.Keys) && na.Keys[ia] < nb.Keys[ib]):
				kind := "missing"
				if contains(nb.Dangling, na.Keys[ia]) {
					kind = "dangling"
				}
				add(ext(steps, step{key: na.Keys[ia], typ: na.Type}), kind, na.Kids[ia], Val{}, true, false, e)
				ia++
			case ia >= len(na.Keys) || nb.Keys[ib] < na.Keys[ia]:
				add(ext(steps, step{key: nb.Keys[ib], typ: nb.Type}), "added", Val{}, nb.Kids[ib], false, true, e)
				ib++
			default:
				walk(na.Kids[ia], nb.Kids[ib], ext(steps, step{key: na.Keys[ia], typ: na.Type}), e)
				ia++
				ib++
			}
		}
	}
	walk(a, b, nil, encl{})
	return out
}
