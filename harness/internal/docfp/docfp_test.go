package docfp

import (
	"reflect"
	"testing"

	g "verif/harness/internal/pdfgen"
	"verif/harness/internal/pdfstrict"
)

func TestUses(t *testing.T) {
	content := "BT /F#31 12 Tf (a (nested /Fake Do) \\) string) Tj [(x) 3 <2f58>] TJ ET\n" +
		"% /Comment Do\n/GS1 gs /CS0 cs /P1 scn /DeviceRGB CS /Sh1 sh\n" +
		"/OC /MC0 BDC /Span <</MCID 1 /X /NotAResource>> BDC EMC EMC /T /MC1 DP\n" +
		"BI /W 1 /H 1 /CS /CSI /BPC 8 ID \x00EI\x01 EI\n/Im1 Do\nBI /W 1 /H 1 /CS /G /BPC 8 ID x\nEI Q\n/Fm1 Do"
	got := Uses([]byte(content))
	want := []Use{{"ColorSpace", "CS0"}, {"ColorSpace", "CSI"}, {"ExtGState", "GS1"}, {"Font", "F1"}, {"Pattern", "P1"},
		{"Properties", "MC0"}, {"Properties", "MC1"}, {"Shading", "Sh1"}, {"XObject", "Fm1"}, {"XObject", "Im1"}}
	if !reflect.DeepEqual(got, want) {
		t.Fatalf("Uses:\n got %v\nwant %v", got, want)
	}
}

// build writes a two page document; variant changes numbering (extra leading objects), merges the
// two identical fonts into one object, writes a direct array as an indirect object, or changes one
// width.
func build(variant string) []byte {
	doc := g.NewDoc()
	if variant == "renumbered" {
		doc.Add(g.String("padding"))
		doc.Add(g.String("padding"))
	}
	pages := doc.Alloc()
	widths := func(last int) g.Object {
		a := g.A(500, 600, last)
		if variant == "indirect" {
			return doc.Add(a)
		}
		return a
	}
	font := func(last int) g.Ref {
		return doc.Add(g.D("Type", g.Name("Font"), "Subtype", g.Name("Type1"), "BaseFont", g.Name("Helvetica"), "FirstChar", 32, "LastChar", 34, "Widths", widths(last)))
	}
	f1 := font(700)
	f2 := f1
	switch variant {
	case "merged":
	case "changed":
		f2 = font(701)
	default:
		f2 = font(700)
	}
	var kids g.Array
	for _, f := range []g.Ref{f1, f2} {
		c := doc.Add(&g.Stream{Dict: g.Dict{}, Data: []byte("BT /F1 12 Tf (x) Tj ET\n")})
		kids = append(kids, doc.Add(g.D("Type", g.Name("Page"), "Parent", pages, "MediaBox", g.Rect(0, 0, 100, 100), "Contents", c, "Resources", g.D("Font", g.D("F1", f)))))
	}
	doc.Put(pages, g.D("Type", g.Name("Pages"), "Kids", kids, "Count", 2))
	doc.SetRoot(doc.Add(g.D("Type", g.Name("Catalog"), "Pages", pages)))
	return g.MustWrite(doc, g.Options{}).Bytes
}

func TestStrictAndRefine(t *testing.T) {
	open := func(v string) (*Graph, Val) {
		d, err := pdfstrict.Open(build(v), pdfstrict.Options{})
		if err != nil {
			t.Fatal(v, err)
		}
		gr := New(d, Rules{})
		return gr, gr.Top()
	}
	base, tb := open("base")
	for _, tc := range []struct {
		variant      string
		strict, same bool
	}{{"renumbered", true, true}, {"merged", false, true}, {"indirect", false, true}, {"changed", false, false}} {
		o, to := open(tc.variant)
		if got := base.Strict(tb) == o.Strict(to); got != tc.strict {
			t.Errorf("%s: strict equality = %v, want %v", tc.variant, got, tc.strict)
		}
		col := Refine(base, o)
		if got := col.Same(0, tb, 1, to); got != tc.same {
			t.Errorf("%s: refinement equality = %v, want %v", tc.variant, got, tc.same)
		}
		ds := col.Differences(0, tb, 1, to, 5)
		if tc.same != (len(ds) == 0) {
			t.Errorf("%s: differences %v", tc.variant, ds)
		}
		if tc.variant == "changed" && (len(ds) == 0 || ds[0].Where != "Font:Widths[]" || ds[0].Kind != "scalar") {
			t.Errorf("changed: located %v", ds)
		}
	}
}
