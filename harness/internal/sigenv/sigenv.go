// Package sigenv is the pdfcpu-facing half of the signature harness (C27, C28): a hermetic
// validation environment in which a harness-signed document CAN be reported Valid.
//
// pdfcpu reports Status Valid only with revocation status "good", and (as of this tree) it
// never concludes that from archived evidence (/DSS, revocationInfoArchival: "applicability
// unavailable") — only from a CRL / OCSP response fetched at validation time. The environment
// therefore serves the harness CA's CRL from a loopback HTTP listener inside the worker process,
// names that URL in the signing certificate (cRLDistributionPoints) and allow-lists the literal
// host 127.0.0.1 (conf.AllowedRevocationHosts) with conf.Offline = false. DNS is disabled for
// the process (every lookup of a non-literal host fails at once), so no validation can leave
// the machine even when a tampered certificate carries a changed URL.
package sigenv

import (
	"bytes"
	"context"
	"errors"
	"fmt"
	"net"
	"net/http"
	"os"
	"path/filepath"
	"runtime/debug"
	"strings"
	"sync"

	"github.com/pdfcpu/pdfcpu/pkg/api"
	"github.com/pdfcpu/pdfcpu/pkg/pdfcpu"
	"github.com/pdfcpu/pdfcpu/pkg/pdfcpu/model"
)

// Env is the process-wide validation environment.
type Env struct {
	Dir  string // trusted certificate directory
	Base string // "http://127.0.0.1:<port>"

	mu    sync.RWMutex
	files map[string][]byte
	hits  map[string]int64
	srv   *http.Server
}

// Start prepares the environment below scratch.
func Start(scratch string) (*Env, error) {
	api.DisableConfigDir()
	e := &Env{Dir: filepath.Join(scratch, "certs"), files: map[string][]byte{}, hits: map[string]int64{}}
	if err := os.MkdirAll(e.Dir, 0o755); err != nil {
		return nil, err
	}
	model.TrustedCertDir = e.Dir
	net.DefaultResolver = &net.Resolver{PreferGo: true, Dial: func(ctx context.Context, network, address string) (net.Conn, error) {
		return nil, errors.New("sigenv: DNS disabled in the harness")
	}}
	ln, err := net.Listen("tcp4", "127.0.0.1:0")
	if err != nil {
		return nil, fmt.Errorf("sigenv: loopback listener: %w", err)
	}
	e.Base = "http://" + ln.Addr().String()
	e.srv = &http.Server{Handler: http.HandlerFunc(func(w http.ResponseWriter, r *http.Request) {
		e.mu.Lock()
		b, ok := e.files[r.URL.Path]
		e.hits[r.URL.Path]++
		e.mu.Unlock()
		if !ok {
			http.NotFound(w, r)
			return
		}
		w.Header().Set("Content-Type", "application/pkix-crl")
		_, _ = w.Write(b)
	})}
	go func() { _ = e.srv.Serve(ln) }()
	return e, nil
}

// Close stops the listener.
func (e *Env) Close() { _ = e.srv.Close() }

// Serve publishes body under path (e.g. "/a.crl") and returns its URL.
func (e *Env) Serve(path string, body []byte) string {
	e.mu.Lock()
	e.files[path] = body
	e.mu.Unlock()
	return e.Base + path
}

// Hits returns how often path was requested.
func (e *Env) Hits(path string) int64 { e.mu.RLock(); defer e.mu.RUnlock(); return e.hits[path] }

// Trust installs a PEM certificate file into the trusted directory.
func (e *Env) Trust(name string, pemBytes []byte) error {
	if err := os.WriteFile(filepath.Join(e.Dir, name+".pem"), pemBytes, 0o644); err != nil {
		return err
	}
	pdfcpu.InvalidateCertificatePool()
	return nil
}

// Conf returns a fresh configuration. online=false is pdfcpu's offline mode (no fetch at all).
func (e *Env) Conf(online bool) *model.Configuration {
	c := model.NewDefaultConfiguration()
	c.Offline = !online
	if online {
		c.AllowedRevocationHosts = []string{"127.0.0.1"}
		c.TimeoutCRL, c.TimeoutOCSP = 2, 2
	}
	return c
}

// Outcome of one validation call.
type Outcome struct {
	Results []*model.SignatureValidationResult
	Err     error
	Panic   string // innermost pdfcpu frame if the call panicked
}

// Validate runs api.ValidateSignaturesRaw(all=true) on b.
func (e *Env) Validate(b []byte, online bool) (o Outcome) {
	defer func() {
		if r := recover(); r != nil {
			o.Panic = fmt.Sprintf("%v @ %s", r, innermost(string(debug.Stack())))
			o.Err = fmt.Errorf("panic: %v", r)
		}
	}()
	o.Results, o.Err = api.ValidateSignaturesRaw(bytes.NewReader(b), true, e.Conf(online))
	return o
}

// Find returns the result for the signature field object objNr (nil if absent).
func (o Outcome) Find(objNr int) *model.SignatureValidationResult {
	for _, r := range o.Results {
		if r != nil && r.ObjNr == objNr {
			return r
		}
	}
	return nil
}

// Positive reports whether r claims anything the properties C27/C28 restrict:
// Status Valid, DocModified False, or Reason DocNotModified.
func Positive(r *model.SignatureValidationResult) bool {
	return r != nil && (r.Status == model.SignatureStatusValid || r.DocModified == model.False || r.Reason == model.SignatureReasonDocNotModified)
}

// Describe renders the deciding fields.
func Describe(r *model.SignatureValidationResult) string {
	if r == nil {
		return "<no result>"
	}
	dm := map[int]string{model.Unknown: "Unknown", model.False: "False", model.True: "True"}[r.DocModified]
	st := map[model.SignatureStatus]string{model.SignatureStatusUnknown: "Unknown", model.SignatureStatusValid: "Valid", model.SignatureStatusInvalid: "Invalid"}[r.Status]
	return fmt.Sprintf("obj=%d status=%s reason=%q docModified=%s", r.ObjNr, st, r.Reason.String(), dm)
}

func innermost(stack string) string {
	for _, ln := range strings.Split(stack, "\n") {
		if strings.HasPrefix(ln, "github.com/pdfcpu/pdfcpu/") && !strings.Contains(ln, "fault.") {
			if i := strings.LastIndex(ln, "("); i > 0 {
				ln = ln[:i]
			}
			return strings.TrimPrefix(ln, "github.com/pdfcpu/pdfcpu/")
		}
	}
	return "unknown"
}
