package opcat

import (
	"go/ast"
	"go/parser"
	"go/token"
	"path/filepath"
	"sort"
	"strings"
)

// ReadOnlyAPI classifies the exported pkg/api functions named *File / *Files that never write a file
// (getters, listers, validators). They are out of scope for the catalogue. A function that is neither listed here nor
// covered by a catalogue entry is reported by Uncovered, so a new API function is never silently ignored.
var ReadOnlyAPI = map[string]bool{
	"GetPermissionsFile":        true,
	"HasWatermarksFile":         true,
	"ListBookmarksFile":         true,
	"ListBoxesFile":             true,
	"ListPageLayoutFile":        true,
	"ListPageModeFile":          true,
	"ListViewerPreferencesFile": true,
	"PageCountFile":             true,
	"PageDimsFile":              true,
	"PageLayoutFile":            true,
	"PageModeFile":              true,
	"ReadContextFile":           true,
	"ValidateFile":              true,
	"ValidateFiles":             true,
	"ValidateSignaturesFile":    true,
	"ViewerPreferencesFile":     true,
}

// SkippedWriters are writers that are deliberately not in the catalogue, with the reason.
var SkippedWriters = map[string]string{
	"CreateUserFontDemoFiles": "needs installed user fonts; covered by the font worker",
}

// APIFileFuncs lists the exported top-level functions of <repo>/pkg/api (non-test files) whose name ends in File or Files.
func APIFileFuncs(repo string) ([]string, error) {
	files, err := filepath.Glob(filepath.Join(repo, "pkg", "api", "*.go"))
	if err != nil {
		return nil, err
	}
	seen := map[string]bool{}
	fset := token.NewFileSet()
	for _, fn := range files {
		if strings.HasSuffix(fn, "_test.go") {
			continue
		}
		f, err := parser.ParseFile(fset, fn, nil, parser.SkipObjectResolution)
		if err != nil {
			return nil, err
		}
		for _, d := range f.Decls {
			fd, ok := d.(*ast.FuncDecl)
			if !ok || fd.Recv != nil || !fd.Name.IsExported() {
				continue
			}
			n := fd.Name.Name
			if strings.HasSuffix(n, "File") || strings.HasSuffix(n, "Files") {
				seen[n] = true
			}
		}
	}
	var out []string
	for n := range seen {
		out = append(out, n)
	}
	sort.Strings(out)
	return out, nil
}

// Covered returns the set of API function names that at least one catalogue entry exercises (Op.Name before any "/").
func Covered() map[string]bool {
	m := map[string]bool{}
	for _, o := range ops {
		n, _, _ := strings.Cut(o.Name, "/")
		m[n] = true
	}
	return m
}

// Uncovered returns the exported *File / *Files functions of <repo>/pkg/api that write files but that no catalogue
// entry covers (read-only functions per ReadOnlyAPI are excluded; SkippedWriters are included - look the reason up there).
func Uncovered(repo string) (uncovered []string, err error) {
	all, err := APIFileFuncs(repo)
	if err != nil {
		return nil, err
	}
	cov := Covered()
	for _, n := range all {
		if !cov[n] && !ReadOnlyAPI[n] {
			uncovered = append(uncovered, n)
		}
	}
	return uncovered, nil
}
