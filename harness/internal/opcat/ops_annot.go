package opcat

import (
	"github.com/pdfcpu/pdfcpu/pkg/api"
	"github.com/pdfcpu/pdfcpu/pkg/pdfcpu"
	"github.com/pdfcpu/pdfcpu/pkg/pdfcpu/color"
	"github.com/pdfcpu/pdfcpu/pkg/pdfcpu/model"
	"github.com/pdfcpu/pdfcpu/pkg/pdfcpu/types"
)

func textAnnotation(id string) model.AnnotationRenderer {
	return model.NewTextAnnotation(
		*types.NewRectangle(0, 0, 100, 100), // rect
		0,                                   // apObjNr
		"Text Annotation",                   // contents
		id,                                  // id
		"",                                  // modDate
		0,                                   // f
		&color.Gray,                         // col
		"Title1",                            // title
		nil,                                 // popupIndRef
		nil,                                 // ca
		"",                                  // rc
		"",                                  // subject
		0,                                   // borderRadX
		0,                                   // borderRadY
		2,                                   // borderWidth
		false,                               // displayOpen
		"Comment")                           // name
}

func linkAnnotation(id string) model.AnnotationRenderer {
	return model.NewLinkAnnotation(
		*types.NewRectangle(200, 0, 300, 100), // rect
		0,                                     // apObjNr
		"",                                    // contents
		id,                                    // id
		"",                                    // modDate
		0,                                     // f
		&color.Red,                            // borderCol
		nil,                                   // dest
		"https://pdfcpu.io",                   // uri
		nil,                                   // quad
		true,                                  // border
		1,                                     // borderWidth
		model.BSSolid,                         // borderStyle
	)
}

func squareAnnotation(id string) model.AnnotationRenderer {
	return model.NewSquareAnnotation(
		*types.NewRectangle(300, 0, 350, 50), // rect
		0,                                    // apObjNr
		"Square Annotation",                  // contents
		id,                                   // id
		"",                                   // modDate
		0,                                    // f
		&color.Gray,                          // col
		"Title1",                             // title
		nil,                                  // popupIndRef
		nil,                                  // ca
		"",                                   // rc
		"",                                   // subject
		&color.Blue,                          // fillCol
		0, 0, 0, 0,                           // margins
		1,             // borderWidth
		model.BSSolid, // borderStyle
		false,         // cloudyBorder
		0,             // cloudyBorderIntensity
	)
}

func init() {
	reg := func(name, input string, extra []string, run func(c *Call) error) {
		register(Op{Name: name, Input: input, Extra: extra, InPlace: true, OutName: "out.pdf", Run: run})
	}

	// incr only matters in place (outFile == ""): the annotation is then appended as an incremental update.
	reg("AddAnnotationsFile/text", FxMulti, nil, func(c *Call) error {
		return api.AddAnnotationsFile(c.In, c.Out, []string{"1-2"}, textAnnotation("ID1"), c.NewConf(), false)
	})
	reg("AddAnnotationsFile/link", FxMulti, nil, func(c *Call) error {
		return api.AddAnnotationsFile(c.In, c.Out, []string{"3"}, linkAnnotation("ID2"), c.NewConf(), false)
	})
	reg("AddAnnotationsFile/incr", FxMulti, nil, func(c *Call) error {
		return api.AddAnnotationsFile(c.In, c.Out, []string{"1"}, squareAnnotation("ID3"), c.NewConf(), true)
	})
	reg("AddAnnotationsMapFile", FxMulti, nil, func(c *Call) error {
		m := map[int][]model.AnnotationRenderer{
			1: {textAnnotation("M1"), linkAnnotation("M2")},
			4: {squareAnnotation("M3")},
		}
		return api.AddAnnotationsMapFile(c.In, c.Out, m, c.NewConf(), false)
	})
	reg("AddAnnotationsMapFile/incr", FxMulti, nil, func(c *Call) error {
		m := map[int][]model.AnnotationRenderer{2: {textAnnotation("M1")}, 8: {linkAnnotation("M2")}}
		return api.AddAnnotationsMapFile(c.In, c.Out, m, c.NewConf(), true)
	})
	reg("RemoveAnnotationsFile/all", FxAnnot, nil, func(c *Call) error {
		return api.RemoveAnnotationsFile(c.In, c.Out, nil, nil, nil, c.NewConf(), false)
	})
	reg("RemoveAnnotationsFile/types", FxAnnot, nil, func(c *Call) error {
		return api.RemoveAnnotationsFile(c.In, c.Out, []string{"1"}, []string{"FreeText", "Stamp"}, nil, c.NewConf(), false)
	})
	reg("RemoveAnnotationsFile/incr", FxAnnot, nil, func(c *Call) error {
		return api.RemoveAnnotationsFile(c.In, c.Out, nil, []string{"Text"}, nil, c.NewConf(), true)
	})

	// ---- bookmarks ----
	reg("AddBookmarksFile", FxOne, nil, func(c *Call) error {
		bms := []pdfcpu.Bookmark{{Title: "Start", PageFrom: 1, Kids: []pdfcpu.Bookmark{{Title: "Sub", PageFrom: 1, Bold: true}}}}
		return api.AddBookmarksFile(c.In, c.Out, bms, false, c.NewConf())
	})
	reg("AddBookmarksFile/replace", FxMulti, nil, func(c *Call) error {
		bms := []pdfcpu.Bookmark{
			{Title: "New 1", PageFrom: 1, Color: &color.Red},
			{Title: "New 2", PageFrom: 3, Italic: true, Kids: []pdfcpu.Bookmark{{Title: "New 2.1", PageFrom: 4}, {Title: "New 2.2", PageFrom: 7}}},
		}
		return api.AddBookmarksFile(c.In, c.Out, bms, true, c.NewConf())
	})
	reg("RemoveBookmarksFile", FxMulti, nil, func(c *Call) error {
		return api.RemoveBookmarksFile(c.In, c.Out, c.NewConf())
	})
	reg("ImportBookmarksFile", FxMulti, []string{FxBMJSON}, func(c *Call) error {
		return api.ImportBookmarksFile(c.In, c.Fx(FxBMJSON), c.Out, true, c.NewConf())
	})
	register(Op{Name: "ExportBookmarksFile", Input: FxMulti, OutName: "out.json", Run: func(c *Call) error {
		return api.ExportBookmarksFile(c.In, c.Out, c.NewConf())
	}})
}
