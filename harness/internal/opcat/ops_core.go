package opcat

import (
	"github.com/pdfcpu/pdfcpu/pkg/api"
	"github.com/pdfcpu/pdfcpu/pkg/pdfcpu/types"
)

// Core operations (bootstrap set). More operations live in the other ops_*.go files.
func init() {
	register(Op{Name: "OptimizeFile", Input: FxMulti, InPlace: true, OutName: "out.pdf", Run: func(c *Call) error {
		return api.OptimizeFile(c.In, c.Out, c.NewConf())
	}})
	register(Op{Name: "RotateFile", Input: FxMulti, InPlace: true, OutName: "out.pdf", Run: func(c *Call) error {
		rot, pages := 90, []string{"1-3"}
		if c.Rng != nil {
			rot, pages = rngPick(c.Rng, 90, 180, 270, -90), rngPages(c.Rng, PagesMulti, false)
		}
		return api.RotateFile(c.In, c.Out, rot, pages, c.NewConf())
	}})
	register(Op{Name: "TrimFile", Input: FxMulti, InPlace: true, OutName: "out.pdf", Run: func(c *Call) error {
		pages := []string{"2-5"}
		if c.Rng != nil {
			pages = rngPages(c.Rng, PagesMulti, false)
		}
		return api.TrimFile(c.In, c.Out, pages, c.NewConf())
	}})
	register(Op{Name: "AddWatermarksFile/text", Input: FxMulti, InPlace: true, OutName: "out.pdf", Run: func(c *Call) error {
		text, desc, onTop, pages := "Draft", "scale:.6, rot:45", true, []string{"1-2"}
		if c.Rng != nil {
			text, desc, onTop, pages = rngWord(c.Rng), rngTextWMDesc(c.Rng), c.Rng.IntN(2) == 0, rngPages(c.Rng, PagesMulti, false)
		}
		wm, err := api.TextWatermark(text, desc, onTop, false, types.POINTS)
		if err != nil {
			return err
		}
		return api.AddWatermarksFile(c.In, c.Out, pages, wm, c.NewConf())
	}})
	register(Op{Name: "AddAttachmentsFile", Input: FxOne, Extra: []string{FxAtt, FxAtt2}, InPlace: true, OutName: "out.pdf", Run: func(c *Call) error {
		return api.AddAttachmentsFile(c.In, c.Out, []string{c.Fx(FxAtt), c.Fx(FxAtt2)}, false, c.NewConf())
	}})
	register(Op{Name: "MergeCreateFile", Extra: []string{FxOne, FxMulti}, OutName: "out.pdf", Run: func(c *Call) error {
		return api.MergeCreateFile([]string{c.Fx(FxOne), c.Fx(FxMulti)}, c.Out, false, c.NewConf())
	}})
	register(Op{Name: "MergeCreateZipFile", Extra: []string{FxOne, FxMulti}, OutName: "out.pdf", Run: func(c *Call) error {
		return api.MergeCreateZipFile(c.Fx(FxOne), c.Fx(FxMulti), c.Out, c.NewConf())
	}})
	register(Op{Name: "MergeAppendFile", Extra: []string{FxOne, FxMulti}, OutName: "out.pdf", AppendsToOut: true, Run: func(c *Call) error {
		return api.MergeAppendFile([]string{c.Fx(FxOne), c.Fx(FxMulti)}, c.Out, false, c.NewConf())
	}})
	register(Op{Name: "SplitFile", Kind: DirOut, Input: FxMulti, Run: func(c *Call) error {
		span := 3
		if c.Rng != nil {
			span = 1 + c.Rng.IntN(PagesMulti)
		}
		return api.SplitFile(c.In, c.Out, span, c.NewConf())
	}})
	register(Op{Name: "ExtractAttachmentsFile", Kind: DirOut, Input: FxMulti, Run: func(c *Call) error {
		return api.ExtractAttachmentsFile(c.In, c.Out, nil, c.NewConf())
	}})
	register(Op{Name: "EncryptFile", Input: FxMulti, InPlace: true, OutName: "out.pdf", Run: func(c *Call) error {
		conf := c.NewConf()
		conf.UserPW, conf.OwnerPW = "u1", "o1"
		return api.EncryptFile(c.In, c.Out, conf)
	}})
}
