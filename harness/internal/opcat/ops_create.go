package opcat

import (
	"os"

	"github.com/pdfcpu/pdfcpu/pkg/api"
	"github.com/pdfcpu/pdfcpu/pkg/pdfcpu"
	"github.com/pdfcpu/pdfcpu/pkg/pdfcpu/types"
)

// Creation / import style operations and the low level file writers of pkg/pdfcpu/io.go.
func init() {
	register(Op{Name: "CreateFile/new", Extra: []string{FxCreateJSON}, OutName: "out.pdf", Run: func(c *Call) error {
		return api.CreateFile("", c.Fx(FxCreateJSON), c.Out, c.NewConf())
	}})
	register(Op{Name: "CreateFile/update", Input: FxOne, Extra: []string{FxCreateJSON}, InPlace: true, OutName: "out.pdf", Run: func(c *Call) error {
		return api.CreateFile(c.In, c.Fx(FxCreateJSON), c.Out, c.NewConf())
	}})
	register(Op{Name: "CreatePDFFile", OutName: "out.pdf", Run: func(c *Call) error {
		xRefTable, err := pdfcpu.CreateResourceDictInheritanceDemoXRef()
		if err != nil {
			return err
		}
		return api.CreatePDFFile(xRefTable, c.Out, c.NewConf())
	}})
	register(Op{Name: "WriteContextFile", Input: FxMulti, OutName: "out.pdf", Run: func(c *Call) error {
		f, err := os.Open(c.In)
		if err != nil {
			return err
		}
		ctx, err := api.ReadValidateAndOptimize(f, c.NewConf())
		f.Close()
		if err != nil {
			return err
		}
		return api.WriteContextFile(ctx, c.Out)
	}})

	register(Op{Name: "ImportImagesFile/new", Extra: []string{FxImg, FxImg2}, OutName: "out.pdf", Run: func(c *Call) error {
		return api.ImportImagesFile([]string{c.Fx(FxImg), c.Fx(FxImg2)}, c.Out, nil, c.NewConf())
	}})
	register(Op{Name: "ImportImagesFile/config", Extra: []string{FxImg2}, OutName: "out.pdf", Run: func(c *Call) error {
		imp, err := api.Import("form:A5, pos:c, sc:.8 rel, bgcol:#beded9", types.POINTS)
		if err != nil {
			return err
		}
		return api.ImportImagesFile([]string{c.Fx(FxImg2)}, c.Out, imp, c.NewConf())
	}})
	register(Op{Name: "ImportImagesFile/append", Extra: []string{FxImg, FxImg2}, OutName: "out.pdf", AppendsToOut: true, Run: func(c *Call) error {
		return api.ImportImagesFile([]string{c.Fx(FxImg), c.Fx(FxImg2)}, c.Out, nil, c.NewConf())
	}})
	// images.pdf: page 1 holds Im1 (obj 7, 259x182); a replacement must have the same dimensions (FxReplImg).
	upd := func(name string, objNr, pageNr int, id string) {
		register(Op{Name: name, Input: FxImages, Extra: []string{FxReplImg}, InPlace: true, OutName: "out.pdf", Run: func(c *Call) error {
			return api.UpdateImagesFile(c.In, c.Fx(FxReplImg), c.Out, objNr, pageNr, id, c.NewConf())
		}})
	}
	upd("UpdateImagesFile/objnr", 7, 0, "")
	upd("UpdateImagesFile/pageid", 0, 1, "Im1")
	upd("UpdateImagesFile/filename", 0, 0, "") // (page, id) parsed from the image file name

	// PatchFile overwrites bytes of an existing file in place; modelled as "output pre-exists and is modified".
	// The patch rewrites the header magic with itself so the PDF stays valid.
	register(Op{Name: "PatchFile", OutName: "out.pdf", AppendsToOut: true, Run: func(c *Call) error {
		return api.PatchFile(c.Out, []byte("%PDF-"), 0)
	}})

	// ---- pkg/pdfcpu/io.go ----
	register(Op{Name: "pdfcpu.WriteReader", Extra: []string{FxOne}, OutName: "out.pdf", Run: func(c *Call) error {
		f, err := os.Open(c.Fx(FxOne))
		if err != nil {
			return err
		}
		defer f.Close()
		return pdfcpu.WriteReader(c.Out, f)
	}})
	for _, overwrite := range []bool{true, false} {
		name := map[bool]string{true: "overwrite", false: "new"}[overwrite]
		register(Op{Name: "pdfcpu.Write/" + name, Extra: []string{FxOne}, OutName: "out.pdf", Run: func(c *Call) error {
			f, err := os.Open(c.Fx(FxOne))
			if err != nil {
				return err
			}
			defer f.Close()
			_, err = pdfcpu.Write(f, c.Out, overwrite)
			return err
		}})
		register(Op{Name: "pdfcpu.CopyFile/" + name, Input: FxMulti, OutName: "out.pdf", Run: func(c *Call) error {
			_, err := pdfcpu.CopyFile(c.In, c.Out, overwrite)
			return err
		}})
	}
}
