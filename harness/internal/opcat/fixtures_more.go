package opcat

import (
	"bytes"
	"fmt"
	"image"
	imgcolor "image/color"
	"image/png"
	"math/rand/v2"
	"os"
	"path/filepath"

	"github.com/pdfcpu/pdfcpu/pkg/api"
	"github.com/pdfcpu/pdfcpu/pkg/pdfcpu/model"
	"github.com/pdfcpu/pdfcpu/pkg/pdfcpu/types"
)

// Additional fixtures (built by prepareMore, called from the end of Prepare).
const (
	FxFonts      = "fonts.pdf"      // embedded TrueType fonts (ExtractFontsFile writes >= 1 file)
	FxViewer     = "viewer.pdf"     // one.pdf + page layout + page mode + viewer preferences
	FxCreateJSON = "create.json"    // self-contained page description for CreateFile (core fonts only, no images)
	FxMultiJSON  = "multifill.json" // 3 form instances for formblank.pdf
	FxMultiCSV   = "multifill.csv"  // 3 form records for formblank.pdf
	FxFormBlank  = "formblank.pdf"  // the unfilled, unlocked version of form.pdf (form.pdf is already filled from form.json, with locked fields)
	FxCoreForm   = "coreform.pdf"   // AcroForm created by pdfcpu from coreFormJSON: core fonts only, text/date/checkbox/radio fields (no combo/list box, see below)
	FxReplImg    = "repl_1_Im1.png" // 259x182 replacement for image Im1 (obj 7) on page 1 of images.pdf; the name encodes (page, id) for UpdateImagesFile
	FxBoxes      = "boxes.pdf"      // multi.pdf with crop + trim + art boxes on every page
)

// Page counts of the PDF fixtures (used by the Rng parameter generators).
const (
	PagesOne    = 1
	PagesMulti  = 8
	PagesImages = 2
)

var extraFixtures = []string{FxFonts, FxViewer, FxCreateJSON, FxMultiJSON, FxMultiCSV, FxBoxes, FxFormBlank, FxCoreForm, FxReplImg}

const createJSON = `{
	"paper": "A5L",
	"crop": "10",
	"origin": "LowerLeft",
	"contentBox": true,
	"debug": false,
	"guides": false,
	"colors": { "Beige": "#F5F5DC", "DarkSalmon": "#E9967A" },
	"bgcol": "#BEDED9",
	"fonts": { "myCourier": { "name": "Courier", "size": 12, "col": "#00AA00" } },
	"margin": { "width": 20 },
	"header": {
		"font": { "name": "Courier-Bold", "size": 18, "col": "#00AA00" },
		"center": "Verif Table",
		"height": 30, "dx": 5, "dy": 10, "border": false
	},
	"footer": {
		"font": { "name": "$myCourier", "col": "Black" },
		"center": "Page %p of %P",
		"height": 20, "dx": 5, "dy": 5, "border": false
	},
	"pages": {
		"1": {
			"content": {
				"text": [
					{ "value": "Hello verif", "anchor": "topleft", "dx": 10, "dy": -10,
					  "font": { "name": "Helvetica", "size": 14, "col": "Black" } }
				],
				"table": [
					{
						"header": {
							"values": ["Qty", "Description", "Price"],
							"colAnchors": ["Center", "Center", "Center"],
							"bgCol": "$DarkSalmon",
							"font": { "name": "Courier-Bold", "size": 12 }
						},
						"values": [ ["1", "Mouse", "$115.00"], ["3", "Unicorn", "$250,000.00"] ],
						"rows": 3, "cols": 3, "width": 300,
						"colWidths": [20, 50, 30],
						"colAnchors": ["Center", "Left", "Right"],
						"lheight": 24, "grid": true, "anchor": "center",
						"bgCol": "$Beige", "oddCol": "LightGray", "evenCol": "Gray",
						"font": { "name": "Courier", "size": 10, "col": "Black" },
						"border": { "width": 0 },
						"padding": { "width": 5 }
					}
				]
			}
		},
		"2": {
			"content": {
				"text": [
					{ "value": "Second page", "anchor": "center",
					  "font": { "name": "Times-Roman", "size": 20, "col": "#0000AA" } }
				]
			}
		}
	}
}
`

// coreFormJSON describes FxCoreForm. It deliberately has no combobox/listbox: with the config dir disabled (hermetic mode)
// LockFormFields/ResetFormFields on such fields fall back to the user font Roboto-Regular, which is then unavailable
// ("font Roboto-Regular not available: unknown font"), even if the form uses core fonts only.
const coreFormJSON = `{
	"paper": "A5P",
	"crop": "10",
	"origin": "LowerLeft",
	"contentBox": false,
	"debug": false,
	"guides": false,
	"fonts": {
		"input": { "name": "Helvetica", "size": 11, "col": "#222222" },
		"label": { "name": "Helvetica", "size": 11, "col": "Gray" }
	},
	"margin": { "width": 10 },
	"header": {
		"font": { "name": "Helvetica-Bold", "size": 16, "col": "#C00000" },
		"center": "Core font form", "height": 30, "dx": 5, "dy": 5, "border": false
	},
	"pages": {
		"1": {
			"content": {
				"textfield": [
					{ "id": "firstName1", "tip": "first name", "value": "", "pos": [130, 480], "width": 150, "align": "left",
					  "label": { "value": "First Name:", "width": 90, "gap": 10, "align": "left", "pos": "left" } },
					{ "id": "lastName1", "value": "", "pos": [130, 455], "width": 150, "align": "left",
					  "label": { "value": "Last Name:", "width": 90, "gap": 10, "align": "left", "pos": "left" } },
					{ "id": "note1", "value": "n/a", "pos": [130, 430], "width": 200, "align": "left",
					  "label": { "value": "Note:", "width": 90, "gap": 10, "align": "left", "pos": "left" } }
				],
				"datefield": [
					{ "id": "dob1", "pos": [130, 400], "width": 80, "format": "dd.mm.yyyy",
					  "label": { "value": "Date of Birth:", "width": 90, "gap": 10, "align": "left", "pos": "left" } }
				],
				"checkbox": [
					{ "id": "cb11", "value": false, "pos": [130, 375], "width": 12,
					  "label": { "value": "Option 1:", "width": 90, "gap": 10, "align": "left", "pos": "left" } },
					{ "id": "cb12", "value": true, "pos": [130, 355], "width": 12,
					  "label": { "value": "Option 2:", "width": 90, "gap": 10, "align": "left", "pos": "left" } }
				],
				"radiobuttongroup": [
					{ "id": "gender1", "value": "female", "orientation": "hor", "pos": [130, 325], "width": 12,
					  "buttons": { "values": ["female", "male", "non-binary"], "label": { "value": "dummy", "width": 60, "gap": 5, "pos": "right" } },
					  "label": { "value": "Gender:", "width": 90, "gap": 10, "align": "left", "pos": "left" } }
				]
			}
		}
	}
}
`

const multiFillJSON = `{
	"header": { "source": "form.pdf", "version": "pdfcpu", "creation": "", "producer": "pdfcpu" },
	"forms": [
		{
			"filename": "Jane",
			"textfield": [ {"name": "firstName1", "value": "Jane"}, {"name": "lastName1", "value": "Doe"}, {"name": "note1", "value": "Person #1"} ],
			"datefield": [ {"name": "dob1", "value": "06.01.2000"} ],
			"radiobuttongroup": [ {"name": "gender1", "value": "female"} ],
			"listbox": [ {"name": "city11", "values": ["San Francisco"]} ],
			"combobox": [ {"name": "city12", "value": "London"} ],
			"checkbox": [ {"name": "cb11", "value": false}, {"name": "cb12", "value": true} ]
		},
		{
			"filename": "Joe.pdf",
			"textfield": [ {"name": "firstName1", "value": "Joe"}, {"name": "lastName1", "value": "Doe"}, {"name": "note1", "value": "Person #2"} ],
			"datefield": [ {"name": "dob1", "value": "30.07.2001"} ],
			"radiobuttongroup": [ {"name": "gender1", "value": "male"} ],
			"combobox": [ {"name": "city12", "value": "San Francisco"} ]
		},
		{
			"textfield": [ {"name": "firstName1", "value": "Jackie"}, {"name": "lastName1", "value": "Doe"}, {"name": "note1", "value": "Person #3"} ],
			"datefield": [ {"name": "dob1", "value": "29.11.1965"} ],
			"radiobuttongroup": [ {"name": "gender1", "value": "non-binary"} ]
		}
	]
}
`

const multiFillCSV = `"firstName1","lastName1","dob1","gender1","note1","city11","city12","@filename"
"Jane","Doe","06.01.2000","female","Person #1","San Francisco","London","Jane"
"Joe","Doe","30.07.2001","male","Person #2","São Paulo","San Francisco","Joe.pdf"
"Jackie","Doe","29.11.1965","non-binary","Person #3","Vienna","Sidney",""
`

func prepareMore(repo, dir string) error {
	td := filepath.Join(repo, "pkg", "testdata")
	p := func(n string) string { return filepath.Join(dir, n) }
	if err := cp(filepath.Join(td, "Walden.pdf"), p(FxFonts)); err != nil {
		return fmt.Errorf("fixture %s: %w", FxFonts, err)
	}
	for n, s := range map[string]string{FxCreateJSON: createJSON, FxMultiJSON: multiFillJSON, FxMultiCSV: multiFillCSV} {
		if err := os.WriteFile(p(n), []byte(s), 0o644); err != nil {
			return err
		}
	}
	if err := api.SetPageLayoutFile(p(FxOne), p(FxViewer), model.PageLayoutTwoColumnLeft, DefaultConf()); err != nil {
		return fmt.Errorf("fixture viewer (layout): %w", err)
	}
	if err := api.SetPageModeFile(p(FxViewer), "", model.PageModeUseOutlines, DefaultConf()); err != nil {
		return fmt.Errorf("fixture viewer (mode): %w", err)
	}
	if err := api.SetViewerPreferencesFileFromJSONFile(p(FxViewer), "", p(FxVPJSON), DefaultConf()); err != nil {
		return fmt.Errorf("fixture viewer (prefs): %w", err)
	}
	if err := cp(filepath.Join(repo, "pkg", "samples", "form", "demoSinglePage", "english.pdf"), p(FxFormBlank)); err != nil {
		return fmt.Errorf("fixture %s: %w", FxFormBlank, err)
	}
	if err := writeReplacementImage(p(FxReplImg), 259, 182); err != nil {
		return fmt.Errorf("fixture %s: %w", FxReplImg, err)
	}
	tmp := p(".coreform.json")
	if err := os.WriteFile(tmp, []byte(coreFormJSON), 0o644); err != nil {
		return err
	}
	err := api.CreateFile("", tmp, p(FxCoreForm), DefaultConf())
	_ = os.Remove(tmp)
	if err != nil {
		return fmt.Errorf("fixture coreform: %w", err)
	}
	pb, err := api.PageBoundaries("crop:10 20, trim:crop, art:30", types.POINTS)
	if err != nil {
		return err
	}
	if err := api.AddBoxesFile(p(FxMulti), p(FxBoxes), nil, pb, DefaultConf()); err != nil {
		return fmt.Errorf("fixture boxes: %w", err)
	}
	return nil
}

// writeReplacementImage writes a deterministic w x h RGB gradient PNG.
func writeReplacementImage(path string, w, h int) error {
	img := image.NewRGBA(image.Rect(0, 0, w, h))
	for y := 0; y < h; y++ {
		for x := 0; x < w; x++ {
			img.Set(x, y, imgcolor.RGBA{R: uint8(x * 255 / w), G: uint8(y * 255 / h), B: uint8((x + y) % 256), A: 255})
		}
	}
	var buf bytes.Buffer
	if err := png.Encode(&buf, img); err != nil {
		return err
	}
	return os.WriteFile(path, buf.Bytes(), 0o644)
}

// ---- Rng parameter helpers (all results are valid for a document of n pages) ----

// rngRange returns a page range "a-b" with 1 <= a <= b <= n. If proper, the range never covers all n pages (n >= 2).
func rngRange(r *rand.Rand, n int, proper bool) string {
	a := 1 + r.IntN(n)
	b := a + r.IntN(n-a+1)
	if proper && a == 1 && b == n {
		b = n - 1
	}
	if a == b {
		return fmt.Sprintf("%d", a)
	}
	return fmt.Sprintf("%d-%d", a, b)
}

// rngPages returns a page selection: a range, "odd"/"even" filtered range, a list of single pages, or an open range.
func rngPages(r *rand.Rand, n int, proper bool) []string {
	if n == 1 {
		return []string{"1"}
	}
	switch r.IntN(4) {
	case 0:
		return []string{rngRange(r, n, proper)}
	case 1: // two single pages
		a := 1 + r.IntN(n)
		b := 1 + r.IntN(n)
		if a == b {
			return []string{fmt.Sprintf("%d", a)}
		}
		return []string{fmt.Sprintf("%d", a), fmt.Sprintf("%d", b)}
	case 2: // open-ended range starting after page 1 (never all pages)
		return []string{fmt.Sprintf("%d-", 2+r.IntN(n-1))}
	default: // prefix range (never all pages)
		return []string{fmt.Sprintf("-%d", 1+r.IntN(n-1))}
	}
}

func rngPick[T any](r *rand.Rand, xs ...T) T { return xs[r.IntN(len(xs))] }

var rngWords = []string{"alpha", "beta", "gamma", "delta", "Draft", "Confidential", "verif", "Ünïcode", "two words", "x"}

func rngWord(r *rand.Rand) string { return rngWords[r.IntN(len(rngWords))] }
