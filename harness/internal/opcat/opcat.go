// Package opcat is the catalogue of pdfcpu's file-based API operations with valid
// parameters for a fixed set of fixtures. It is shared by the file-safety
// properties (C01–C03: every operation × fault / path relation) and by the
// output-quality properties (C18, C21: every operation's output is inspected).
//
// An operation is added by calling register(Op{...}) from an init() in any file of this package.
package opcat

import (
	"fmt"
	"math/rand/v2"
	"os"
	"path/filepath"
	"sort"

	"github.com/pdfcpu/pdfcpu/pkg/api"
	"github.com/pdfcpu/pdfcpu/pkg/pdfcpu"
	"github.com/pdfcpu/pdfcpu/pkg/pdfcpu/model"
	"github.com/pdfcpu/pdfcpu/pkg/pdfcpu/types"
)

// Kind says how an operation produces output.
type Kind int

const (
	// SingleOut: one output file; Call.Out is a file path, or "" for in-place where Op.InPlace.
	SingleOut Kind = iota
	// DirOut: any number of files written into the directory Call.Out (split, extract*, cut family, multi-fill).
	DirOut
)

// Call is one invocation.
type Call struct {
	Dir  string     // sandbox directory holding a copy of every fixture (extra inputs are found here by fixture name)
	In   string     // path of the primary input (normally filepath.Join(Dir, Op.Input)); for ops without a PDF input the first extra input
	Out  string     // output file / output directory; "" = in place
	Rng  *rand.Rand // nil = the fixed default parameters; otherwise parameters MAY be drawn from it (always valid ones)
	Conf func() *model.Configuration
}

// NewConf returns a fresh configuration for this call (never share one between calls: the API mutates it).
func (c *Call) NewConf() *model.Configuration {
	if c.Conf != nil {
		return c.Conf()
	}
	return DefaultConf()
}

// Fx is the path of fixture name inside the sandbox.
func (c *Call) Fx(name string) string { return filepath.Join(c.Dir, name) }

// DefaultConf is the hermetic default configuration.
func DefaultConf() *model.Configuration {
	conf := model.NewDefaultConfiguration()
	conf.Offline = true
	return conf
}

// Op is one file-based API operation.
type Op struct {
	Name    string   // API function, e.g. "RotateFile"; variants as "AddWatermarksFile/text"
	Kind    Kind
	Input   string   // fixture used as primary input ("" if the op has no PDF input: create, import, merge create)
	Extra   []string // other fixtures the call reads (merge inputs, JSON, images, attachments)
	InPlace bool     // Out == "" is allowed and means "overwrite the input"
	OutName string   // default output file name for SingleOut (e.g. "out.pdf", "out.json")
	// MultiInput: for merge-like ops the inputs are Extra; MergeAppend-style ops modify Out itself.
	AppendsToOut bool // the output file is also an input that must already exist (MergeAppendFile)
	Run func(c *Call) error
}

var ops []Op

func register(o Op) { ops = append(ops, o) }

// All returns the catalogue sorted by name.
func All() []Op {
	out := append([]Op(nil), ops...)
	sort.Slice(out, func(i, j int) bool { return out[i].Name < out[j].Name })
	return out
}

// ByName finds an op.
func ByName(n string) (Op, bool) {
	for _, o := range ops {
		if o.Name == n {
			return o, true
		}
	}
	return Op{}, false
}

// Fixture names.
const (
	FxOne      = "one.pdf"      // 1 page
	FxMulti    = "multi.pdf"    // 8 pages, bookmarks, 2 attachments, keywords, properties
	FxForm     = "form.pdf"     // AcroForm
	FxFormJSON = "form.json"    // fill data for form.pdf
	FxWM       = "wm.pdf"       // multi.pdf with a text watermark on every page
	FxEnc      = "enc.pdf"      // multi.pdf AES-256 encrypted, user pw "upw", owner pw "opw"
	FxSigned   = "signed.pdf"   // a signed sample
	FxAnnot    = "annot.pdf"    // has annotations
	FxImg      = "img.png"
	FxImg2     = "img2.jpg"
	FxAtt      = "att.txt"
	FxAtt2     = "att2.bin"
	FxBMJSON   = "bookmarks.json"
	FxVPJSON   = "vp.json"
	FxStampPDF = "stamp.pdf" // 1-page PDF used as PDF watermark source
	FxImages   = "images.pdf" // contains image XObjects
)

// UserPW / OwnerPW of FxEnc.
const (
	UserPW  = "upw"
	OwnerPW = "opw"
)

func cp(src, dst string) error {
	b, err := os.ReadFile(src)
	if err != nil {
		return err
	}
	return os.WriteFile(dst, b, 0o644)
}

// Prepare builds every fixture into dir (which must exist). repo is the pdfcpu tree (vk.RepoDir()).
// It uses pdfcpu itself (unmonitored) to derive fixtures; a failure here is a broken check, not a finding.
func Prepare(repo, dir string) error {
	td := filepath.Join(repo, "pkg", "testdata")
	sm := filepath.Join(repo, "pkg", "samples")
	copies := [][2]string{
		{filepath.Join(td, "test.pdf"), FxOne},
		{filepath.Join(td, "zineTest.pdf"), "base.pdf"},
		{filepath.Join(sm, "form", "fill", "english.pdf"), FxForm},
		{filepath.Join(sm, "form", "fill", "english.json"), FxFormJSON},
		{filepath.Join(td, "resources", "logoVerySmall.png"), FxImg},
		{filepath.Join(td, "resources", "snow.jpg"), FxImg2},
		{filepath.Join(td, "annotTest.pdf"), FxAnnot},
		{filepath.Join(td, "json", "viewerPreferences.json"), FxVPJSON},
		{filepath.Join(td, "testRot.pdf"), FxStampPDF},
		{filepath.Join(td, "testImage.pdf"), FxImages},
	}
	for _, c := range copies {
		if err := cp(c[0], filepath.Join(dir, c[1])); err != nil {
			return fmt.Errorf("fixture %s: %w", c[1], err)
		}
	}
	sig, _ := filepath.Glob(filepath.Join(sm, "signatures", "adbe.pkcs7.detached", "*.pdf"))
	if len(sig) == 0 {
		return fmt.Errorf("no signed sample found")
	}
	sort.Strings(sig)
	if err := cp(sig[0], filepath.Join(dir, FxSigned)); err != nil {
		return err
	}
	if err := os.WriteFile(filepath.Join(dir, FxAtt), []byte("attachment one\n"), 0o644); err != nil {
		return err
	}
	if err := os.WriteFile(filepath.Join(dir, FxAtt2), []byte{0, 1, 2, 3, 250, 251, 252, 253, 254, 255}, 0o644); err != nil {
		return err
	}
	p := func(n string) string { return filepath.Join(dir, n) }
	// multi.pdf = base + bookmarks + attachments + keywords + properties
	bms := []pdfcpu.Bookmark{
		{Title: "One", PageFrom: 1, Kids: []pdfcpu.Bookmark{{Title: "One.a", PageFrom: 2}}},
		{Title: "Two", PageFrom: 4},
		{Title: "Three", PageFrom: 6},
	}
	if err := api.AddBookmarksFile(p("base.pdf"), p(FxMulti), bms, true, DefaultConf()); err != nil {
		return fmt.Errorf("fixture multi (bookmarks): %w", err)
	}
	if err := api.AddAttachmentsFile(p(FxMulti), "", []string{p(FxAtt), p(FxAtt2)}, false, DefaultConf()); err != nil {
		return fmt.Errorf("fixture multi (attachments): %w", err)
	}
	if err := api.AddKeywordsFile(p(FxMulti), "", []string{"alpha", "beta"}, DefaultConf()); err != nil {
		return fmt.Errorf("fixture multi (keywords): %w", err)
	}
	if err := api.AddPropertiesFile(p(FxMulti), "", map[string]string{"Project": "verif", "Owner": "harness"}, DefaultConf()); err != nil {
		return fmt.Errorf("fixture multi (properties): %w", err)
	}
	_ = os.Remove(p("base.pdf"))
	if err := api.ExportBookmarksFile(p(FxMulti), p(FxBMJSON), DefaultConf()); err != nil {
		return fmt.Errorf("fixture bookmarks.json: %w", err)
	}
	wm, err := api.TextWatermark("VERIF", "scale:.5, rot:30, op:.4", true, false, types.POINTS)
	if err != nil {
		return err
	}
	if err := api.AddWatermarksFile(p(FxMulti), p(FxWM), nil, wm, DefaultConf()); err != nil {
		return fmt.Errorf("fixture wm: %w", err)
	}
	ec := model.NewAESConfiguration(UserPW, OwnerPW, 256)
	ec.Offline = true
	if err := api.EncryptFile(p(FxMulti), p(FxEnc), ec); err != nil {
		return fmt.Errorf("fixture enc: %w", err)
	}
	return prepareMore(repo, dir)
}

// FixtureNames lists the files Prepare creates.
func FixtureNames() []string {
	return append([]string{FxOne, FxMulti, FxForm, FxFormJSON, FxWM, FxEnc, FxSigned, FxAnnot, FxImg, FxImg2, FxAtt, FxAtt2, FxBMJSON, FxVPJSON, FxStampPDF, FxImages}, extraFixtures...)
}
