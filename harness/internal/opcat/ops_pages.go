package opcat

import (
	"fmt"
	"math/rand/v2"
	"sort"

	"github.com/pdfcpu/pdfcpu/pkg/api"
	"github.com/pdfcpu/pdfcpu/pkg/pdfcpu"
	"github.com/pdfcpu/pdfcpu/pkg/pdfcpu/types"
)

var rngPaper = []string{"A4", "A4L", "A5", "A5L", "A3", "Letter", "LetterL", "Legal", "Tabloid"}
var rngColors = []string{"#f7e6c7", "#beded9", "lightgray", "#E9967A", "white"}

// rngNUpDesc returns a valid n-up / grid / booklet description (output page + cosmetics).
func rngNUpDesc(r *rand.Rand, booklet bool) string {
	key := "form"
	if booklet {
		key = "p"
	}
	d := fmt.Sprintf("%s:%s, margin:%d, border:%s", key, rngPick(r, rngPaper...), r.IntN(30), rngPick(r, "on", "off"))
	if r.IntN(2) == 0 {
		d += ", bgcol:" + rngPick(r, rngColors...)
	}
	if booklet && r.IntN(2) == 0 {
		d += ", g:" + rngPick(r, "on", "off")
	}
	return d
}

func rngBoxDesc(r *rand.Rand) string {
	switch r.IntN(6) {
	case 0:
		return fmt.Sprintf("[%d %d %d %d]", r.IntN(50), r.IntN(50), 100+r.IntN(200), 100+r.IntN(200))
	case 1:
		return fmt.Sprintf("%d", 5+r.IntN(80))
	case 2:
		return fmt.Sprintf("%d%% %d%%", 5+r.IntN(30), 5+r.IntN(30))
	case 3:
		return fmt.Sprintf("dim:%d%% %d%%", 20+r.IntN(70), 20+r.IntN(70))
	case 4:
		return fmt.Sprintf("pos:%s, dim:%d%% %d%%", rngPick(r, "bl", "tl", "tr", "br", "c"), 20+r.IntN(70), 20+r.IntN(70))
	default:
		return fmt.Sprintf("pos:tl, off:%d -%d, dim:%d %d", r.IntN(20), r.IntN(20), 50+r.IntN(200), 50+r.IntN(200))
	}
}

// rngCutPoints returns 1-3 distinct ascending cut positions; neighbouring cuts (and the page edges) are >= 8% apart,
// so that every tile of an A4-ish page is wider than twice the largest margin rngCutCosmetics(r, 10) produces.
func rngCutPoints(r *rand.Rand) string {
	cands := []string{".25", ".33", ".5", ".66", ".75"}
	n := 1 + r.IntN(3)
	pick := map[int]bool{}
	for len(pick) < n {
		pick[r.IntN(len(cands))] = true
	}
	s := ""
	for i, c := range cands {
		if pick[i] {
			if s != "" {
				s += " "
			}
			s += c
		}
	}
	return s
}

func rngCutCosmetics(r *rand.Rand, maxMargin int) string {
	s := ""
	if r.IntN(2) == 0 {
		s += fmt.Sprintf(", margin:%d", r.IntN(maxMargin+1))
	}
	if r.IntN(2) == 0 {
		s += ", border:" + rngPick(r, "on", "off")
	}
	if r.IntN(2) == 0 {
		s += ", bgcol:" + rngPick(r, rngColors...)
	}
	return s
}

func init() {
	pdf := func(name, input string, extra []string, run func(c *Call) error) {
		register(Op{Name: name, Input: input, Extra: extra, InPlace: true, OutName: "out.pdf", Run: run})
	}
	dir := func(name, input string, run func(c *Call) error) {
		register(Op{Name: name, Kind: DirOut, Input: input, Run: run})
	}

	pdf("CollectFile", FxMulti, nil, func(c *Call) error {
		pages := []string{"3", "1", "5-6", "1"}
		if c.Rng != nil {
			pages = nil
			for i, n := 0, 1+c.Rng.IntN(5); i < n; i++ {
				pages = append(pages, rngRange(c.Rng, PagesMulti, false))
			}
		}
		return api.CollectFile(c.In, c.Out, pages, c.NewConf())
	})
	pdf("RemovePagesFile", FxMulti, nil, func(c *Call) error {
		pages := []string{"2", "6-7"}
		if c.Rng != nil {
			pages = rngPages(c.Rng, PagesMulti, true)
		}
		return api.RemovePagesFile(c.In, c.Out, pages, c.NewConf())
	})
	pdf("InsertPagesFile", FxMulti, nil, func(c *Call) error {
		pages, before, desc := []string{"2", "5"}, true, ""
		if c.Rng != nil {
			pages, before = rngPages(c.Rng, PagesMulti, false), c.Rng.IntN(2) == 0
			desc = rngPick(c.Rng, "", "f:A5L", "f:Letter", "dim:200 300", "dim:100 100")
		}
		pc, err := pdfcpu.ParsePageConfiguration(desc, types.POINTS)
		if err != nil {
			return err
		}
		return api.InsertPagesFile(c.In, c.Out, pages, before, pc, c.NewConf())
	})
	pdf("ResizeFile", FxMulti, nil, func(c *Call) error {
		desc, pages := "form:A5, border:on", []string{"1-4"}
		if c.Rng != nil {
			r := c.Rng
			pages = rngPages(r, PagesMulti, false)
			switch r.IntN(4) {
			case 0:
				desc = fmt.Sprintf("sc:%.2f", 0.25+2.75*r.Float64())
			case 1:
				desc = "form:" + rngPick(r, rngPaper...)
			case 2:
				desc = fmt.Sprintf("dim:%d %d", 100+r.IntN(800), 100+r.IntN(800))
			default:
				desc = rngPick(r, fmt.Sprintf("dim:%d 0", 100+r.IntN(800)), fmt.Sprintf("dim:0 %d", 100+r.IntN(800)))
			}
			if r.IntN(2) == 0 {
				desc += ", bgcol:" + rngPick(r, rngColors...)
			}
			if r.IntN(2) == 0 {
				desc += ", border:" + rngPick(r, "on", "off")
			}
		}
		res, err := pdfcpu.ParseResizeConfig(desc, types.POINTS)
		if err != nil {
			return err
		}
		return api.ResizeFile(c.In, c.Out, pages, res, c.NewConf())
	})
	pdf("ZoomFile", FxMulti, nil, func(c *Call) error {
		desc, pages := "factor:.5, border:true", []string{"2-"}
		if c.Rng != nil {
			r := c.Rng
			pages = rngPages(r, PagesMulti, false)
			switch r.IntN(3) {
			case 0:
				desc = fmt.Sprintf("factor:%.2f", 0.2+3.8*r.Float64())
			case 1:
				desc = fmt.Sprintf("hmargin:%d", 1+r.IntN(100))
			default:
				desc = fmt.Sprintf("vmargin:%d", 1+r.IntN(100))
			}
			if r.IntN(2) == 0 {
				desc += ", border:" + rngPick(r, "true", "false")
			}
			if r.IntN(2) == 0 {
				desc += ", bgcol:" + rngPick(r, rngColors...)
			}
		}
		z, err := pdfcpu.ParseZoomConfig(desc, types.POINTS)
		if err != nil {
			return err
		}
		return api.ZoomFile(c.In, c.Out, pages, z, c.NewConf())
	})
	pdf("CropFile", FxMulti, nil, func(c *Call) error {
		desc, pages := "pos:bl, dim:50% 50%", []string{"1-3"}
		if c.Rng != nil {
			desc, pages = rngBoxDesc(c.Rng), rngPages(c.Rng, PagesMulti, false)
		}
		b, err := api.Box(desc, types.POINTS)
		if err != nil {
			return err
		}
		return api.CropFile(c.In, c.Out, pages, b, c.NewConf())
	})
	pdf("AddBoxesFile", FxMulti, nil, func(c *Call) error {
		desc, pages := "crop:10 20, trim:crop, art:bleed, bleed:media", []string(nil)
		if c.Rng != nil {
			r := c.Rng
			pages = rngPages(r, PagesMulti, false)
			desc = rngPick(r,
				fmt.Sprintf("crop:%d", 5+r.IntN(60)),
				fmt.Sprintf("trim:%d", 5+r.IntN(60)),
				fmt.Sprintf("art:%d%%", 5+r.IntN(30)),
				fmt.Sprintf("bleed:[%d %d %d %d]", r.IntN(40), r.IntN(40), 100+r.IntN(150), 100+r.IntN(150)),
				fmt.Sprintf("crop:%d %d, trim:crop, art:bleed, bleed:media", 5+r.IntN(30), 5+r.IntN(30)),
				fmt.Sprintf("crop:%d, trim:%d, art:trim", 5+r.IntN(20), 30+r.IntN(30)),
			)
		}
		pb, err := api.PageBoundaries(desc, types.POINTS)
		if err != nil {
			return err
		}
		return api.AddBoxesFile(c.In, c.Out, pages, pb, c.NewConf())
	})
	// FxBoxes carries crop, trim and art boxes on every page.
	pdf("RemoveBoxesFile", FxBoxes, nil, func(c *Call) error {
		pb, err := api.PageBoundariesFromBoxList("crop, trim")
		if err != nil {
			return err
		}
		return api.RemoveBoxesFile(c.In, c.Out, nil, pb, c.NewConf())
	})

	// ---- n-up family (outFile is mandatory: no in-place mode) ----
	nup := func(name, input string, extra []string, run func(c *Call) error) {
		register(Op{Name: name, Input: input, Extra: extra, OutName: "out.pdf", Run: run})
	}
	nup("NUpFile", FxMulti, nil, func(c *Call) error {
		n, desc, pages := 4, "form:A4, margin:10, border:on", []string(nil)
		if c.Rng != nil {
			n, desc = rngPick(c.Rng, 2, 3, 4, 6, 8, 9, 12, 16), rngNUpDesc(c.Rng, false)
			if c.Rng.IntN(2) == 0 {
				pages = rngPages(c.Rng, PagesMulti, false)
			}
		}
		conf := c.NewConf()
		cfg, err := api.PDFNUpConfig(n, desc, conf)
		if err != nil {
			return err
		}
		return api.NUpFile([]string{c.In}, c.Out, pages, cfg, conf)
	})
	nup("NUpFile/images", "", []string{FxImg, FxImg2}, func(c *Call) error {
		conf := c.NewConf()
		cfg, err := api.ImageNUpConfig(4, "form:A4, margin:10, bgcol:#f7e6c7", conf)
		if err != nil {
			return err
		}
		return api.NUpFile([]string{c.Fx(FxImg), c.Fx(FxImg2)}, c.Out, nil, cfg, conf)
	})
	nup("GridFile", FxMulti, nil, func(c *Call) error {
		rows, cols, desc, pages := 2, 3, "form:A4L, border:on, margin:5", []string(nil)
		if c.Rng != nil {
			rows, cols, desc = 1+c.Rng.IntN(4), 1+c.Rng.IntN(4), rngNUpDesc(c.Rng, false)
			if c.Rng.IntN(2) == 0 {
				pages = rngPages(c.Rng, PagesMulti, false)
			}
		}
		conf := c.NewConf()
		cfg, err := api.PDFGridConfig(rows, cols, desc, conf)
		if err != nil {
			return err
		}
		return api.GridFile([]string{c.In}, c.Out, pages, cfg, conf)
	})
	nup("GridFile/images", "", []string{FxImg, FxImg2}, func(c *Call) error {
		conf := c.NewConf()
		cfg, err := api.ImageGridConfig(1, 2, "d:500 500, margin:20, bo:off", conf)
		if err != nil {
			return err
		}
		return api.GridFile([]string{c.Fx(FxImg), c.Fx(FxImg2)}, c.Out, nil, cfg, conf)
	})
	nup("BookletFile", FxMulti, nil, func(c *Call) error {
		n, desc, pages := 4, "p:A4, border:off, g:on, ma:10", []string(nil)
		if c.Rng != nil {
			n, desc = rngPick(c.Rng, 2, 4), rngNUpDesc(c.Rng, true)
			if c.Rng.IntN(2) == 0 {
				pages = []string{rngRange(c.Rng, PagesMulti, false)}
			}
		}
		conf := c.NewConf()
		cfg, err := api.PDFBookletConfig(n, desc, conf)
		if err != nil {
			return err
		}
		return api.BookletFile([]string{c.In}, c.Out, pages, cfg, conf)
	})
	nup("BookletFile/images", "", []string{FxImg, FxImg2}, func(c *Call) error {
		conf := c.NewConf()
		cfg, err := api.ImageBookletConfig(2, "p:A5, border:false, g:on, ma:25", conf)
		if err != nil {
			return err
		}
		return api.BookletFile([]string{c.Fx(FxImg), c.Fx(FxImg2), c.Fx(FxImg)}, c.Out, nil, cfg, conf)
	})

	// ---- directory outputs ----
	dir("SplitFile/bookmarks", FxMulti, func(c *Call) error {
		return api.SplitFile(c.In, c.Out, 0, c.NewConf())
	})
	dir("SplitByPageNrFile", FxMulti, func(c *Call) error {
		nrs := []int{3, 6}
		if c.Rng != nil {
			m := map[int]bool{}
			for i, n := 0, 1+c.Rng.IntN(4); i < n; i++ {
				m[2+c.Rng.IntN(PagesMulti-1)] = true // 2..8
			}
			nrs = nil
			for k := range m {
				nrs = append(nrs, k)
			}
			sort.Ints(nrs)
		}
		return api.SplitByPageNrFile(c.In, c.Out, nrs, c.NewConf())
	})
	dir("ExtractPagesFile", FxMulti, func(c *Call) error {
		pages := []string{"2-4"}
		if c.Rng != nil {
			pages = rngPages(c.Rng, PagesMulti, false)
		}
		return api.ExtractPagesFile(c.In, c.Out, pages, c.NewConf())
	})
	dir("CutFile", FxMulti, func(c *Call) error {
		desc, pages := "hor:.5, vert:.5, margin:10, border:on", []string{"1-2"}
		if c.Rng != nil {
			r := c.Rng
			switch r.IntN(3) {
			case 0:
				desc = "hor:" + rngCutPoints(r)
			case 1:
				desc = "vert:" + rngCutPoints(r)
			default:
				desc = "hor:" + rngCutPoints(r) + ", vert:" + rngCutPoints(r)
			}
			desc += rngCutCosmetics(r, 10)
			pages = []string{rngRange(r, PagesMulti, false)}
		}
		cut, err := pdfcpu.ParseCutConfig(desc, types.POINTS)
		if err != nil {
			return err
		}
		return api.CutFile(c.In, c.Out, "cut", pages, cut, c.NewConf())
	})
	dir("NDownFile", FxMulti, func(c *Call) error {
		n, desc, pages := 4, "margin:10, border:on", []string{"1-2"}
		if c.Rng != nil {
			r := c.Rng
			n = rngPick(r, 2, 3, 4, 6, 8, 9, 12, 16)
			desc = ""
			if s := rngCutCosmetics(r, 25); s != "" {
				desc = s[2:]
			}
			pages = []string{rngRange(r, PagesMulti, false)}
		}
		cut, err := pdfcpu.ParseCutConfigForN(n, desc, types.POINTS)
		if err != nil {
			return err
		}
		return api.NDownFile(c.In, c.Out, "ndown", pages, n, cut, c.NewConf())
	})
	dir("PosterFile", FxMulti, func(c *Call) error {
		desc, pages := "f:A6, margin:5, border:on", []string{"1"}
		if c.Rng != nil {
			r := c.Rng
			if r.IntN(2) == 0 {
				desc = "f:" + rngPick(r, "A6", "A7", "A6L", "A5")
			} else {
				desc = fmt.Sprintf("dim:%d %d", 100+r.IntN(300), 100+r.IntN(300))
			}
			if r.IntN(2) == 0 {
				desc += fmt.Sprintf(", scale:%.1f", 1+2*r.Float64())
			}
			desc += rngCutCosmetics(r, 25)
			pages = []string{rngRange(r, PagesMulti, false)}
		}
		cut, err := pdfcpu.ParseCutConfigForPoster(desc, types.POINTS)
		if err != nil {
			return err
		}
		return api.PosterFile(c.In, c.Out, "poster", pages, cut, c.NewConf())
	})
}
