package opcat

import (
	"fmt"
	"math/rand/v2"
	"os"

	"github.com/pdfcpu/pdfcpu/pkg/api"
	"github.com/pdfcpu/pdfcpu/pkg/pdfcpu/model"
	"github.com/pdfcpu/pdfcpu/pkg/pdfcpu/types"
)

// rngTextWMDesc returns a valid text watermark description.
func rngTextWMDesc(r *rand.Rand) string {
	desc := fmt.Sprintf("scale:%.2f rel, op:%.1f, font:%s, points:%d",
		0.2+0.7*r.Float64(), 0.2+0.8*r.Float64(),
		rngPick(r, "Helvetica", "Courier", "Times-Roman", "Helvetica-Bold"), 8+r.IntN(40))
	if r.IntN(2) == 0 {
		desc += fmt.Sprintf(", rot:%d", r.IntN(360)-180)
	} else {
		desc += fmt.Sprintf(", diag:%d", 1+r.IntN(2))
	}
	if r.IntN(2) == 0 {
		desc += ", pos:" + rngPick(r, "tl", "tc", "tr", "l", "c", "r", "bl", "bc", "br") + fmt.Sprintf(", off:%d %d", r.IntN(41)-20, r.IntN(41)-20)
	}
	if r.IntN(2) == 0 {
		desc += ", fillc:" + rngPick(r, "#FF0000", "#00AA00", ".2 .3 .9", "#808080")
	}
	if r.IntN(3) == 0 {
		desc += ", mode:" + rngPick(r, "0", "1", "2")
	}
	return desc
}

func init() {
	reg := func(name, input string, extra []string, run func(c *Call) error) {
		register(Op{Name: name, Input: input, Extra: extra, InPlace: true, OutName: "out.pdf", Run: run})
	}

	reg("AddWatermarksFile/image", FxMulti, []string{FxImg}, func(c *Call) error {
		wm, err := api.ImageWatermark(c.Fx(FxImg), "scale:.3 rel, pos:br, rot:0", false, false, types.POINTS)
		if err != nil {
			return err
		}
		return api.AddWatermarksFile(c.In, c.Out, []string{"odd"}, wm, c.NewConf())
	})
	reg("AddWatermarksFile/pdf", FxMulti, []string{FxStampPDF}, func(c *Call) error {
		wm, err := api.PDFWatermark(c.Fx(FxStampPDF)+":1", "scale:.4 rel, pos:tl, rot:0", true, false, types.POINTS)
		if err != nil {
			return err
		}
		return api.AddWatermarksFile(c.In, c.Out, nil, wm, c.NewConf())
	})
	// All watermarks of one map call must agree on OnTop.
	reg("AddWatermarksMapFile", FxMulti, []string{FxImg}, func(c *Call) error {
		w1, err := api.TextWatermark("Page one", "scale:.5, rot:20", true, false, types.POINTS)
		if err != nil {
			return err
		}
		w2, err := api.ImageWatermark(c.Fx(FxImg), "scale:.2 rel, pos:c, rot:0", true, false, types.POINTS)
		if err != nil {
			return err
		}
		return api.AddWatermarksMapFile(c.In, c.Out, map[int]*model.Watermark{1: w1, 5: w2}, c.NewConf())
	})
	reg("AddWatermarksSliceMapFile", FxMulti, nil, func(c *Call) error {
		w1, err := api.TextWatermark("Top", "scale:.3, pos:tc, rot:0", true, false, types.POINTS)
		if err != nil {
			return err
		}
		w2, err := api.TextWatermark("Bottom", "scale:.3, pos:bc, rot:0", true, false, types.POINTS)
		if err != nil {
			return err
		}
		w3, err := api.TextWatermark("Solo", "scale:.4, diag:2", true, false, types.POINTS)
		if err != nil {
			return err
		}
		return api.AddWatermarksSliceMapFile(c.In, c.Out, map[int][]*model.Watermark{2: {w1, w2}, 8: {w3}}, c.NewConf())
	})
	reg("AddTextWatermarksFile", FxMulti, nil, func(c *Call) error {
		return api.AddTextWatermarksFile(c.In, c.Out, []string{"2-4"}, true, "Stamp", "scale:.5, rot:-30, fillc:#AA0000", c.NewConf())
	})
	reg("AddImageWatermarksFile", FxMulti, []string{FxImg2}, func(c *Call) error {
		return api.AddImageWatermarksFile(c.In, c.Out, []string{"1"}, false, c.Fx(FxImg2), "scale:.5 rel, op:.5, rot:0", c.NewConf())
	})
	reg("AddImageWatermarksForReaderFile", FxMulti, []string{FxImg}, func(c *Call) error {
		f, err := os.Open(c.Fx(FxImg))
		if err != nil {
			return err
		}
		defer f.Close()
		return api.AddImageWatermarksForReaderFile(c.In, c.Out, []string{"even"}, true, f, "scale:.2 rel, pos:tr, rot:0", c.NewConf())
	})
	reg("AddPDFWatermarksFile", FxMulti, []string{FxStampPDF}, func(c *Call) error {
		return api.AddPDFWatermarksFile(c.In, c.Out, []string{"1-3"}, true, c.Fx(FxStampPDF), "scale:.3 rel, pos:bl, rot:0", c.NewConf())
	})
	reg("AddPDFWatermarksForReadSeekerFile", FxMulti, []string{FxStampPDF}, func(c *Call) error {
		f, err := os.Open(c.Fx(FxStampPDF))
		if err != nil {
			return err
		}
		defer f.Close()
		return api.AddPDFWatermarksForReadSeekerFile(c.In, c.Out, nil, false, f, 1, "scale:.5 rel, rot:0, op:.6", c.NewConf())
	})
	// FxWM carries a text stamp (onTop) on every page.
	reg("UpdateTextWatermarksFile", FxWM, nil, func(c *Call) error {
		return api.UpdateTextWatermarksFile(c.In, c.Out, nil, true, "UPDATED", "scale:.4, rot:-20, op:.6", c.NewConf())
	})
	reg("UpdateImageWatermarksFile", FxWM, []string{FxImg}, func(c *Call) error {
		return api.UpdateImageWatermarksFile(c.In, c.Out, []string{"1-4"}, true, c.Fx(FxImg), "scale:.3 rel, rot:0", c.NewConf())
	})
	reg("UpdatePDFWatermarksFile", FxWM, []string{FxStampPDF}, func(c *Call) error {
		return api.UpdatePDFWatermarksFile(c.In, c.Out, nil, true, c.Fx(FxStampPDF), "scale:.3 rel, rot:0", c.NewConf())
	})
	reg("RemoveWatermarksFile", FxWM, nil, func(c *Call) error {
		return api.RemoveWatermarksFile(c.In, c.Out, nil, c.NewConf())
	})
	reg("RemoveWatermarksFile/pages", FxWM, nil, func(c *Call) error {
		return api.RemoveWatermarksFile(c.In, c.Out, []string{"2-3"}, c.NewConf())
	})
}
