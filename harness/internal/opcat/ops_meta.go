package opcat

import (
	"fmt"

	"github.com/pdfcpu/pdfcpu/pkg/api"
	"github.com/pdfcpu/pdfcpu/pkg/pdfcpu/model"
)

// Document level metadata: keywords, properties, page layout/mode, viewer preferences, attachments (remove), signatures,
// and the security family (FxEnc: AES-256, user pw UserPW, owner pw OwnerPW).
func init() {
	reg := func(name, input string, extra []string, run func(c *Call) error) {
		register(Op{Name: name, Input: input, Extra: extra, InPlace: true, OutName: "out.pdf", Run: run})
	}

	reg("AddKeywordsFile", FxMulti, nil, func(c *Call) error {
		kw := []string{"gamma", "two words"}
		if c.Rng != nil {
			kw = nil
			for i, n := 0, 1+c.Rng.IntN(4); i < n; i++ {
				kw = append(kw, fmt.Sprintf("%s%d", rngWord(c.Rng), c.Rng.IntN(100)))
			}
		}
		return api.AddKeywordsFile(c.In, c.Out, kw, c.NewConf())
	})
	reg("RemoveKeywordsFile", FxMulti, nil, func(c *Call) error {
		return api.RemoveKeywordsFile(c.In, c.Out, []string{"alpha"}, c.NewConf())
	})
	reg("RemoveKeywordsFile/all", FxMulti, nil, func(c *Call) error {
		return api.RemoveKeywordsFile(c.In, c.Out, nil, c.NewConf())
	})
	reg("AddPropertiesFile", FxMulti, nil, func(c *Call) error {
		props := map[string]string{"Reviewer": "nobody", "Stage": "draft 2"}
		if c.Rng != nil {
			props = map[string]string{}
			for i, n := 0, 1+c.Rng.IntN(4); i < n; i++ {
				props[fmt.Sprintf("Key%d", c.Rng.IntN(50))] = fmt.Sprintf("%s %d", rngWord(c.Rng), c.Rng.IntN(1000))
			}
		}
		return api.AddPropertiesFile(c.In, c.Out, props, c.NewConf())
	})
	reg("RemovePropertiesFile", FxMulti, nil, func(c *Call) error {
		return api.RemovePropertiesFile(c.In, c.Out, []string{"Project"}, c.NewConf())
	})
	reg("RemovePropertiesFile/all", FxMulti, nil, func(c *Call) error {
		return api.RemovePropertiesFile(c.In, c.Out, nil, c.NewConf())
	})
	reg("RemoveAttachmentsFile", FxMulti, nil, func(c *Call) error {
		return api.RemoveAttachmentsFile(c.In, c.Out, []string{FxAtt}, c.NewConf())
	})
	reg("RemoveAttachmentsFile/all", FxMulti, nil, func(c *Call) error {
		return api.RemoveAttachmentsFile(c.In, c.Out, nil, c.NewConf())
	})
	reg("AddAttachmentsFile/portfolio", FxOne, []string{FxAtt, FxAtt2}, func(c *Call) error {
		return api.AddAttachmentsFile(c.In, c.Out, []string{c.Fx(FxAtt) + ", first attachment", c.Fx(FxAtt2)}, true, c.NewConf())
	})

	reg("SetPageLayoutFile", FxMulti, nil, func(c *Call) error {
		return api.SetPageLayoutFile(c.In, c.Out, model.PageLayoutTwoColumnLeft, c.NewConf())
	})
	reg("ResetPageLayoutFile", FxViewer, nil, func(c *Call) error {
		return api.ResetPageLayoutFile(c.In, c.Out, c.NewConf())
	})
	reg("SetPageModeFile", FxMulti, nil, func(c *Call) error {
		return api.SetPageModeFile(c.In, c.Out, model.PageModeUseOutlines, c.NewConf())
	})
	reg("ResetPageModeFile", FxViewer, nil, func(c *Call) error {
		return api.ResetPageModeFile(c.In, c.Out, c.NewConf())
	})
	reg("SetViewerPreferencesFile", FxMulti, nil, func(c *Call) error {
		vp := model.ViewerPreferences{}
		vp.SetCenterWindow(true)
		vp.SetHideMenuBar(true)
		vp.SetNumCopies(5)
		return api.SetViewerPreferencesFile(c.In, c.Out, vp, c.NewConf())
	})
	reg("SetViewerPreferencesFileFromJSONFile", FxMulti, []string{FxVPJSON}, func(c *Call) error {
		return api.SetViewerPreferencesFileFromJSONFile(c.In, c.Out, c.Fx(FxVPJSON), c.NewConf())
	})
	reg("ResetViewerPreferencesFile", FxViewer, nil, func(c *Call) error {
		return api.ResetViewerPreferencesFile(c.In, c.Out, c.NewConf())
	})

	reg("RemoveSignaturesFile", FxSigned, nil, func(c *Call) error {
		return api.RemoveSignaturesFile(c.In, c.Out, c.NewConf())
	})

	// ---- security ----
	enc := func(c *Call, upw, opw string) *model.Configuration {
		conf := c.NewConf()
		conf.UserPW, conf.OwnerPW = upw, opw
		conf.EncryptUsingAES, conf.EncryptKeyLength = true, 256
		return conf
	}
	reg("EncryptFile/rc4", FxMulti, nil, func(c *Call) error {
		conf := c.NewConf()
		conf.UserPW, conf.OwnerPW = "u2", "o2"
		conf.EncryptUsingAES, conf.EncryptKeyLength = false, 128
		return api.EncryptFile(c.In, c.Out, conf)
	})
	reg("DecryptFile", FxEnc, nil, func(c *Call) error {
		return api.DecryptFile(c.In, c.Out, enc(c, UserPW, OwnerPW))
	})
	reg("ChangeUserPasswordFile", FxEnc, nil, func(c *Call) error {
		return api.ChangeUserPasswordFile(c.In, c.Out, UserPW, "upwNew", enc(c, UserPW, OwnerPW))
	})
	reg("ChangeOwnerPasswordFile", FxEnc, nil, func(c *Call) error {
		return api.ChangeOwnerPasswordFile(c.In, c.Out, OwnerPW, "opwNew", enc(c, UserPW, OwnerPW))
	})
	reg("SetPermissionsFile", FxEnc, nil, func(c *Call) error {
		conf := enc(c, UserPW, OwnerPW)
		conf.Permissions = model.PermissionsAll
		return api.SetPermissionsFile(c.In, c.Out, conf)
	})
}
