package opcat

import (
	"github.com/pdfcpu/pdfcpu/pkg/api"
)

// Extraction into a directory. Fixtures are chosen so that at least one file is written.
func init() {
	dir := func(name, input string, run func(c *Call) error) {
		register(Op{Name: name, Kind: DirOut, Input: input, Run: run})
	}
	dir("ExtractImagesFile", FxImages, func(c *Call) error {
		return api.ExtractImagesFile(c.In, c.Out, nil, c.NewConf())
	})
	dir("ExtractImagesFile/pages", FxImages, func(c *Call) error {
		return api.ExtractImagesFile(c.In, c.Out, []string{"2"}, c.NewConf())
	})
	dir("ExtractFontsFile", FxFonts, func(c *Call) error {
		return api.ExtractFontsFile(c.In, c.Out, nil, c.NewConf())
	})
	dir("ExtractContentFile", FxMulti, func(c *Call) error {
		return api.ExtractContentFile(c.In, c.Out, []string{"1-3"}, c.NewConf())
	})
	dir("ExtractMetadataFile", FxSigned, func(c *Call) error {
		return api.ExtractMetadataFile(c.In, c.Out, c.NewConf())
	})
	dir("ExtractAttachmentsFile/named", FxMulti, func(c *Call) error {
		return api.ExtractAttachmentsFile(c.In, c.Out, []string{FxAtt2}, c.NewConf())
	})
}
