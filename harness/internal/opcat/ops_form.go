package opcat

import (
	"github.com/pdfcpu/pdfcpu/pkg/api"
)

// Form operations (single page AcroForm, fields firstName1, lastName1, dob1, gender1, city11, city12, cb11.., note1):
// FxFormBlank is the pristine form, FxForm the same form already filled from FxFormJSON with several fields locked.
// Lock and Reset run on FxCoreForm (same field names, no combo/list box) because they need the user font Roboto-Regular
// for the sample form, which is not available in hermetic mode (config dir disabled).
func init() {
	reg := func(name, input string, extra []string, run func(c *Call) error) {
		register(Op{Name: name, Input: input, Extra: extra, InPlace: true, OutName: "out.pdf", Run: run})
	}

	reg("RemoveFormFieldsFile", FxForm, nil, func(c *Call) error {
		return api.RemoveFormFieldsFile(c.In, c.Out, []string{"dob1", "firstName1"}, c.NewConf())
	})
	reg("LockFormFieldsFile", FxCoreForm, nil, func(c *Call) error {
		return api.LockFormFieldsFile(c.In, c.Out, nil, c.NewConf())
	})
	reg("LockFormFieldsFile/some", FxCoreForm, nil, func(c *Call) error {
		return api.LockFormFieldsFile(c.In, c.Out, []string{"note1", "dob1", "cb11"}, c.NewConf())
	})
	reg("UnlockFormFieldsFile", FxForm, nil, func(c *Call) error {
		return api.UnlockFormFieldsFile(c.In, c.Out, nil, c.NewConf())
	})
	reg("ResetFormFieldsFile", FxCoreForm, nil, func(c *Call) error {
		return api.ResetFormFieldsFile(c.In, c.Out, nil, c.NewConf())
	})
	register(Op{Name: "ExportFormFile", Input: FxForm, OutName: "out.json", Run: func(c *Call) error {
		return api.ExportFormFile(c.In, c.Out, c.NewConf())
	}})
	reg("FillFormFile", FxFormBlank, []string{FxFormJSON}, func(c *Call) error {
		return api.FillFormFile(c.In, c.Fx(FxFormJSON), c.Out, c.NewConf())
	})
	// MultiFillFormFile always writes into outDir: one PDF per record, or (merge) the single file outDir/<outFilePDF>.
	multi := func(name, data string, merge bool) {
		register(Op{Name: name, Kind: DirOut, Input: FxFormBlank, Extra: []string{data}, Run: func(c *Call) error {
			return api.MultiFillFormFile(c.In, c.Fx(data), c.Out, "filled.pdf", merge, c.NewConf())
		}})
	}
	multi("MultiFillFormFile/json", FxMultiJSON, false)
	multi("MultiFillFormFile/json-merge", FxMultiJSON, true)
	multi("MultiFillFormFile/csv", FxMultiCSV, false)
	multi("MultiFillFormFile/csv-merge", FxMultiCSV, true)
}
