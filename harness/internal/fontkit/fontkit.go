// Package fontkit derives test fonts from a real TrueType font without any font library:
// same-length renaming inside the name table (PostScript / full / family names) and assembly of a
// TrueType collection (.ttc) from several fonts.
package fontkit

import (
	"encoding/binary"
	"fmt"
	"unicode/utf16"
)

type tableRec struct {
	tag      string
	off, len uint32
	recPos   int
}

func tables(ttf []byte) ([]tableRec, error) {
	if len(ttf) < 12 {
		return nil, fmt.Errorf("short font")
	}
	n := int(binary.BigEndian.Uint16(ttf[4:6]))
	if len(ttf) < 12+16*n {
		return nil, fmt.Errorf("short table directory")
	}
	var out []tableRec
	for i := 0; i < n; i++ {
		p := 12 + 16*i
		out = append(out, tableRec{tag: string(ttf[p : p+4]), off: binary.BigEndian.Uint32(ttf[p+8:]), len: binary.BigEndian.Uint32(ttf[p+12:]), recPos: p})
	}
	return out, nil
}

// Rename returns a copy of ttf in which every occurrence of oldName inside the name table (as
// ASCII/Mac-Roman bytes and as UTF-16BE) is replaced by newName. len(newName) must equal
// len(oldName) and both must be single-byte strings, so that no offset changes.
// Table checksums are not updated (pdfcpu does not verify them).
func Rename(ttf []byte, oldName, newName string) ([]byte, int, error) {
	if len(oldName) != len(newName) {
		return nil, 0, fmt.Errorf("names differ in length")
	}
	ts, err := tables(ttf)
	if err != nil {
		return nil, 0, err
	}
	out := append([]byte(nil), ttf...)
	count := 0
	for _, t := range ts {
		if t.tag != "name" {
			continue
		}
		if int(t.off+t.len) > len(out) {
			return nil, 0, fmt.Errorf("name table out of range")
		}
		seg := out[t.off : t.off+t.len]
		a, b := []byte(oldName), []byte(newName)
		for i := 0; i+len(a) <= len(seg); i++ {
			if string(seg[i:i+len(a)]) == oldName {
				copy(seg[i:], b)
				count++
			}
		}
		ua, ub := u16(oldName), u16(newName)
		for i := 0; i+len(ua) <= len(seg); i++ {
			if string(seg[i:i+len(ua)]) == string(ua) {
				copy(seg[i:], ub)
				count++
			}
		}
	}
	if count == 0 {
		return nil, 0, fmt.Errorf("name %q not found in the name table", oldName)
	}
	return out, count, nil
}

func u16(s string) []byte {
	var b []byte
	for _, c := range utf16.Encode([]rune(s)) {
		b = append(b, byte(c>>8), byte(c))
	}
	return b
}

// TTC assembles a TrueType collection (version 1.0) holding the given fonts unshared.
func TTC(fonts ...[]byte) ([]byte, error) {
	hdr := 12 + 4*len(fonts)
	out := make([]byte, hdr)
	copy(out, "ttcf")
	binary.BigEndian.PutUint32(out[4:], 0x00010000)
	binary.BigEndian.PutUint32(out[8:], uint32(len(fonts)))
	for i, f := range fonts {
		ts, err := tables(f)
		if err != nil {
			return nil, err
		}
		for len(out)%4 != 0 {
			out = append(out, 0)
		}
		base := uint32(len(out))
		binary.BigEndian.PutUint32(out[12+4*i:], base)
		cp := append([]byte(nil), f...)
		for _, t := range ts {
			binary.BigEndian.PutUint32(cp[t.recPos+8:], t.off+base)
		}
		out = append(out, cp...)
	}
	return out, nil
}

// Tweak returns a copy of ttf whose hmtx table differs in one advance width, so that the installed
// representation (.gob) of the tweaked font differs in bytes from the original's while staying valid.
func Tweak(ttf []byte) ([]byte, error) {
	ts, err := tables(ttf)
	if err != nil {
		return nil, err
	}
	out := append([]byte(nil), ttf...)
	for _, t := range ts {
		if t.tag == "hmtx" && t.len >= 64 {
			p := t.off + 40 // advance width of glyph 10
			w := binary.BigEndian.Uint16(out[p:])
			binary.BigEndian.PutUint16(out[p:], w+7)
			return out, nil
		}
	}
	return nil, fmt.Errorf("no hmtx table")
}
