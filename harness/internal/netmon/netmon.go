//go:build verifshadow

// Package netmon is the client side of the package-net interposer that tools/mkshadow installs
// in the shadow GOROOT (net.VerifSetNetHooks). It only compiles on that GOROOT.
//
// The hooks are process-wide; netmon scopes them to one Session at a time: Begin installs a
// Script (scripted DNS + routing of dialled addresses to loopback test servers), every name
// lookup and every concrete socket dial made by ANY code in the process while the session is
// open is appended to the session's log, End closes it. Events that arrive while no session is
// open (e.g. a straggling goroutine of an earlier case) are refused and counted in Strays().
//
// No real network is ever touched: names not in the script get NXDOMAIN, addresses without a
// route get ECONNREFUSED from the hook before any socket is created.
package netmon

import (
	"context"
	"net"
	"net/netip"
	"strings"
	"sync"
	"sync/atomic"
	"syscall"
)

// Event kinds.
const (
	Lookup  = "lookup"  // Resolver.lookupIPAddr(host)
	DialTop = "dialtop" // Dialer.DialContext(network, address) before resolution
	Dial    = "dial"    // one concrete socket address about to be connected
)

// Event is one observed call.
type Event struct {
	Seq      int      `json:"seq"`
	Kind     string   `json:"kind"`
	Network  string   `json:"network,omitempty"`
	Addr     string   `json:"addr,omitempty"`     // dial/dialtop: the address that was ASKED for
	Host     string   `json:"host,omitempty"`     // lookup: the host as asked
	Nth      int      `json:"nth,omitempty"`      // lookup: 0-based count of earlier scripted lookups of the same name
	Answers  []string `json:"answers,omitempty"`  // lookup: what the script answered
	Literal  bool     `json:"literal,omitempty"`  // lookup of an IP literal (left to package net)
	Redirect string   `json:"redirect,omitempty"` // dial: loopback address the socket really went to
	Err      string   `json:"err,omitempty"`
}

// Answer is one scripted reply to a lookup.
type Answer struct {
	IPs []string // textual addresses, zone allowed ("fe80::1%eth0")
	// NX: reply "no such host" (a *net.DNSError with IsNotFound). An Answer with no IPs and
	// NX false returns an empty list and a nil error (a resolver misbehaving).
	NX bool
}

// Script is what a session answers and where it lets sockets go.
type Script struct {
	// Hosts: normalised host name (lower case, no trailing dot) -> answers; the n-th lookup of
	// the name gets Hosts[name][min(n, len-1)] (so a single entry is a stable answer and two
	// entries model DNS rebinding). Names not listed get NXDOMAIN.
	Hosts map[string][]Answer
	// Routes: asked IP (netip canonical text, no zone, unmapped) -> "127.0.0.1:port" of a test
	// server. Addresses not listed are refused with ECONNREFUSED.
	Routes map[string]string
	// RoutePort, if set, takes precedence: asked "ip:port" -> server.
	RoutePort map[string]string
}

// Norm is the DNS-level normal form of a name used as key of Script.Hosts.
func Norm(host string) string {
	return strings.TrimSuffix(strings.ToLower(host), ".")
}

// Session is one open monitoring scope.
type Session struct {
	script *Script
	mu     sync.Mutex
	evs    []Event
	nth    map[string]int
	closed bool
}

var (
	cur      atomic.Pointer[Session]
	strays   atomic.Int64
	install  sync.Once
	beginMux sync.Mutex
)

// Strays returns the number of lookups/dials seen while no session was open.
func Strays() int64 { return strays.Load() }

// Begin opens a session. Only one session can be open at a time (Begin blocks until the
// previous one has ended).
func Begin(sc *Script) *Session {
	install.Do(func() {
		net.VerifSetNetHooks(&net.VerifNetHooks{Lookup: hookLookup, Dial: hookDial, DialTop: hookDialTop})
	})
	beginMux.Lock()
	s := &Session{script: sc, nth: map[string]int{}}
	cur.Store(s)
	return s
}

// End closes the session and returns its log.
func (s *Session) End() []Event {
	cur.CompareAndSwap(s, nil)
	s.mu.Lock()
	s.closed = true
	evs := s.evs
	s.mu.Unlock()
	beginMux.Unlock()
	return evs
}

// Events returns a copy of the log so far.
func (s *Session) Events() []Event {
	s.mu.Lock()
	defer s.mu.Unlock()
	return append([]Event(nil), s.evs...)
}

func (s *Session) add(e Event) bool {
	s.mu.Lock()
	defer s.mu.Unlock()
	if s.closed {
		return false
	}
	e.Seq = len(s.evs)
	s.evs = append(s.evs, e)
	return true
}

func nxdomain(host string) error {
	return &net.DNSError{Err: "no such host", Name: host, IsNotFound: true}
}

func hookLookup(ctx context.Context, network, host string) ([]net.IPAddr, bool, error) {
	s := cur.Load()
	if s == nil {
		strays.Add(1)
		return nil, true, nxdomain(host)
	}
	// IP literals (with or without zone) and the empty host are package net's own business:
	// it answers them without a resolver. They are logged, not scripted.
	if _, err := netip.ParseAddr(host); err == nil || host == "" {
		if !s.add(Event{Kind: Lookup, Network: network, Host: host, Literal: true}) {
			strays.Add(1)
			return nil, true, nxdomain(host)
		}
		return nil, false, nil
	}
	key := Norm(host)
	s.mu.Lock()
	n := s.nth[key]
	s.nth[key] = n + 1
	s.mu.Unlock()
	answers, ok := s.script.Hosts[key]
	ev := Event{Kind: Lookup, Network: network, Host: host, Nth: n}
	if !ok || len(answers) == 0 {
		ev.Err = "NXDOMAIN"
		if !s.add(ev) {
			strays.Add(1)
		}
		return nil, true, nxdomain(host)
	}
	if n >= len(answers) {
		n = len(answers) - 1
	}
	a := answers[n]
	if a.NX {
		ev.Err = "NXDOMAIN"
		if !s.add(ev) {
			strays.Add(1)
		}
		return nil, true, nxdomain(host)
	}
	out := make([]net.IPAddr, 0, len(a.IPs))
	for _, t := range a.IPs {
		ap, err := netip.ParseAddr(t)
		if err != nil {
			continue
		}
		// keep IPv4-mapped answers in their 16-byte form (that is how a AAAA record carrying a
		// mapped address arrives), plain IPv4 as 4 bytes
		var ip net.IP
		if ap.Is4() {
			b := ap.As4()
			ip = net.IP(b[:])
		} else {
			b := ap.As16()
			ip = net.IP(b[:])
		}
		out = append(out, net.IPAddr{IP: ip, Zone: ap.Zone()})
		ev.Answers = append(ev.Answers, t)
	}
	if !s.add(ev) {
		strays.Add(1)
		return nil, true, nxdomain(host)
	}
	return out, true, nil
}

func hookDialTop(ctx context.Context, network, address string) {
	s := cur.Load()
	if s == nil {
		return // the dial itself is counted as a stray in hookDial
	}
	s.add(Event{Kind: DialTop, Network: network, Addr: address})
}

// CanonIP is the key form of Script.Routes for a textual address: zone dropped, IPv4-mapped
// unmapped, netip canonical text. "" if s is not an address.
func CanonIP(s string) string {
	a, err := netip.ParseAddr(s)
	if err != nil {
		return ""
	}
	return a.WithZone("").Unmap().String()
}

func hookDial(ctx context.Context, network, addr string) (string, error) {
	s := cur.Load()
	if s == nil {
		strays.Add(1)
		return "", syscall.ECONNREFUSED
	}
	ev := Event{Kind: Dial, Network: network, Addr: addr}
	var to string
	if r, ok := s.script.RoutePort[addr]; ok {
		to = r
	} else if host, _, err := net.SplitHostPort(addr); err == nil {
		to = s.script.Routes[CanonIP(host)]
	}
	if to == "" {
		ev.Err = "refused (no route)"
		if !s.add(ev) {
			strays.Add(1)
		}
		return "", syscall.ECONNREFUSED
	}
	ev.Redirect = to
	if !s.add(ev) {
		strays.Add(1)
		return "", syscall.ECONNREFUSED
	}
	return to, nil
}
