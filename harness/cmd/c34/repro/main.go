// Stand-alone reproducer for the C34 triage (run: cd /verif/harness && $GO125 run -tags verif ./cmd/c34/repro).
// Public route only: pdfcpu.PDFBookletConfig + api.BookletFile, no verif hook.
// multifolio is documented "for n=2 and PDF input only" but accepted for n=4,6,8:
//
//	n=4, multifolio:on, foliosize:1, 1 selected page  -> runtime panic (slice bounds out of range [4:1])
//	n=4, perfectbound, multifolio:on, foliosize:1, pages 1-4 -> success, but pages 2 and 4 are not in the output
package main

import (
	"fmt"
	"os"
	"path/filepath"

	"github.com/pdfcpu/pdfcpu/pkg/api"
	"github.com/pdfcpu/pdfcpu/pkg/pdfcpu"
	"github.com/pdfcpu/pdfcpu/pkg/pdfcpu/model"
)

func run(n int, desc string, sel []string) {
	repo := os.Getenv("VERIF_REPO")
	if repo == "" {
		repo = "/repo"
	}
	in := filepath.Join(repo, "pkg/testdata/bookletTest.pdf")
	dir, _ := os.MkdirTemp("/verif/.cache/run", "c34-repro-")
	defer os.RemoveAll(dir)
	out := filepath.Join(dir, "out.pdf")
	conf := model.NewDefaultConfiguration()
	conf.Offline = true
	nup, err := pdfcpu.PDFBookletConfig(n, desc, conf)
	fmt.Printf("PDFBookletConfig(%d, %q): err=%v\n", n, desc, err)
	if err != nil {
		return
	}
	func() {
		defer func() {
			if r := recover(); r != nil {
				fmt.Printf("  BookletFile(pages %v) PANICS: %v\n", sel, r)
			}
		}()
		err = api.BookletFile([]string{in}, out, sel, nup, conf)
		fmt.Printf("  BookletFile(pages %v): err=%v\n", sel, err)
		if err == nil {
			pc, _ := api.PageCountFile(out)
			f, _ := os.Open(out)
			defer f.Close()
			ctx, _ := api.ReadValidateAndOptimize(f, conf)
			forms := 0
			if ctx != nil {
				for p := 1; p <= pc; p++ {
					d, _, _, _ := ctx.PageDict(p, false)
					if res, _ := ctx.DereferenceDict(d["Resources"]); res != nil {
						if xo, _ := ctx.DereferenceDict(res["XObject"]); xo != nil {
							forms += len(xo)
						}
					}
				}
			}
			fmt.Printf("  output: %d pages, %d placed page forms\n", pc, forms)
		}
	}()
}

func main() {
	api.DisableConfigDir()
	run(4, "formsize:A4, btype:booklet, binding:long, multifolio:on, foliosize:1", []string{"1"})
	run(4, "formsize:A4, btype:perfectbound, binding:long, multifolio:on, foliosize:1", []string{"1-4"})
	run(4, "formsize:A4, btype:perfectbound, binding:long, multifolio:off", []string{"1-4"})
	run(2, "formsize:A4, btype:booklet, binding:long, multifolio:on, foliosize:1", []string{"1-5"})
}
