// C34 — booklet and n-up imposition place every selected page exactly once.
//
// Ordering layer (exhaustive over the stated grid): pdfcpu.VerifBookletOrdering(pages, nup) for selected-page
// counts 1..200 (quick 1..64) x N in {2,4,6,8} x btype {booklet, bookletadvanced, perfectbound} x binding
// {long, short} x sheet orientation {portrait, landscape} x multifolio off / on with foliosize 1..12; the
// *model.NUp comes from pdfcpu's own parser pdfcpu.PDFBookletConfig(n, description, conf) and a configuration it
// rejects is skipped and counted. Oracle: the slot list holds every selected page number exactly once, every
// other slot is blank (Number 0) and the slot count is a whole number of sheets (2*N slots: N per sheet side).
// Page sets: {1..k}, the first k odd numbers, and a seeded random k-subset of 1..3k (page numbers != slot index).
//
// A violated ordering is reported once per key with its SMALLEST case (configuration order, then page count, then
// page set), and that case is then driven through the public route (PDFBookletConfig + api.BookletFile on the
// marked document, no hook) so that the report says whether the defect is reachable by a caller.
//
// End-to-end layer: api.NUpFile / api.GridFile / api.BookletFile on (a) a corpus multi-page PDF: output page count
// (api.PageCountFile) = ceil(selected / cells) resp. slots / N; (b) a harness-written document whose page i carries
// the marker C34MARK<i> in its content: the output is read with the harness's own reader (internal/pdfstrict), each
// output page's content is scanned for Do operators, each resolved through /Resources /XObject to the form whose
// content carries the marker: every selected marker is placed exactly once, no other marker appears, and for n-up
// and grid output page j holds the markers of selected pages j*cells+1 .. (j+1)*cells in that order.
package main

import (
	"bytes"
	"encoding/json"
	"fmt"
	"os"
	"path/filepath"
	"regexp"
	"sort"
	"strconv"
	"strings"
	"sync"

	"github.com/pdfcpu/pdfcpu/pkg/api"
	"github.com/pdfcpu/pdfcpu/pkg/pdfcpu"
	"github.com/pdfcpu/pdfcpu/pkg/pdfcpu/model"
	"github.com/pdfcpu/pdfcpu/pkg/pdfcpu/types"
	"verif/harness/internal/pdfstrict"
	"verif/harness/internal/vk"
)

type config struct {
	N         int    `json:"n"`
	BType     string `json:"btype"`
	Binding   string `json:"binding"`
	Orient    string `json:"orientation"` // portrait | landscape (formsize A4 / A4L)
	MultiF    bool   `json:"multifolio"`
	FolioSize int    `json:"foliosize,omitempty"`
}

func (c config) desc() string {
	fs := "A4"
	if c.Orient == "landscape" {
		fs = "A4L"
	}
	d := fmt.Sprintf("formsize:%s, btype:%s, binding:%s", fs, c.BType, c.Binding)
	if c.MultiF {
		d += fmt.Sprintf(", multifolio:on, foliosize:%d", c.FolioSize)
	} else {
		d += ", multifolio:off"
	}
	return d
}

func (c config) keyPart() string {
	mf := "off"
	if c.MultiF {
		mf = "on"
	}
	return fmt.Sprintf("n=%d/btype=%s/multifolio=%s", c.N, c.BType, mf)
}

// violationKey: a multi-folio signature has 4*foliosize pages (a folio = folded half sheet), a sheet 2*N pages.
// A configuration whose signature is not a whole number of sheets being accepted is ONE defect whatever the
// booklet type, N and folio size, so those configurations share a key per failure class.
func (c config) violationKey(class string) string {
	if c.MultiF && (4*c.FolioSize)%(2*c.N) != 0 {
		return fmt.Sprintf("ordering/%s/multifolio-signature-not-whole-sheets", class)
	}
	return fmt.Sprintf("ordering/%s/%s", class, c.keyPart())
}

func newConf() *model.Configuration {
	conf := model.NewDefaultConfiguration()
	conf.Offline = true
	return conf
}

// parse builds the NUp through pdfcpu's public configuration parser.
func (c config) parse() (nup *model.NUp, err error) {
	defer func() {
		if r := recover(); r != nil {
			err = fmt.Errorf("parser panic: %v", r)
		}
	}()
	nup, err = pdfcpu.PDFBookletConfig(c.N, c.desc(), newConf())
	if err != nil {
		return nil, err
	}
	if nup.PageDim == nil { // as pdfcpu.BookletFromPDF does before computing the ordering
		nup.PageDim = types.PaperSize[nup.PageSize]
	}
	return nup, nil
}

func allConfigs() []config {
	var out []config
	for _, n := range []int{2, 4, 6, 8} {
		for _, bt := range []string{"booklet", "bookletadvanced", "perfectbound"} {
			for _, b := range []string{"long", "short"} {
				for _, o := range []string{"portrait", "landscape"} {
					out = append(out, config{N: n, BType: bt, Binding: b, Orient: o})
					for fs := 1; fs <= 12; fs++ {
						out = append(out, config{N: n, BType: bt, Binding: b, Orient: o, MultiF: true, FolioSize: fs})
					}
				}
			}
		}
	}
	return out
}

type orderCase struct {
	Config config `json:"config"`
	Desc   string `json:"description"`
	Pages  []int  `json:"selected_pages"`
	Set    string `json:"page_set"`
}

// checkOrdering returns (class, what) of the first violated clause, "" if the slot list is fine.
func checkOrdering(nup *model.NUp, pages []int) (class, what string, slots []model.BookletPage) {
	set := types.IntSet{}
	for _, p := range pages {
		set[p] = true
	}
	func() {
		defer func() {
			if r := recover(); r != nil {
				class, what = "panic", fmt.Sprintf("VerifBookletOrdering panics: %v", r)
			}
		}()
		slots = pdfcpu.VerifBookletOrdering(set, nup)
	}()
	if class != "" {
		return
	}
	sheet := 2 * nup.N()
	seen := map[int]int{}
	blanks := 0
	for _, s := range slots {
		if s.Number == 0 {
			blanks++
			continue
		}
		seen[s.Number]++
	}
	nums := func() []int {
		o := make([]int, len(slots))
		for i, s := range slots {
			o[i] = s.Number
		}
		return o
	}
	for n, c := range seen {
		if !set[n] {
			return "foreign-page", fmt.Sprintf("slot list contains page %d which is not selected; slots %v", n, nums()), slots
		}
		if c > 1 {
			return "page-duplicated", fmt.Sprintf("selected page %d is placed %d times; slots %v", n, c, nums()), slots
		}
	}
	for _, p := range pages {
		if seen[p] == 0 {
			return "page-missing", fmt.Sprintf("selected page %d is not placed; %d slots %v", p, len(slots), nums()), slots
		}
	}
	if len(slots)%sheet != 0 {
		return "not-whole-sheets", fmt.Sprintf("%d slots is not a multiple of %d (2 sides x %d per side)", len(slots), sheet, nup.N()), slots
	}
	if blanks != len(slots)-len(pages) {
		return "blank-count", fmt.Sprintf("%d blanks in %d slots for %d pages", blanks, len(slots), len(pages)), slots
	}
	return "", "", slots
}

func main() {
	vk.Run("C34", "exploration", func(t *vk.T) {
		api.DisableConfigDir()
		if t.Replay != nil {
			replay(t)
			return
		}
		maxK := t.Pick(64, 200)
		t.Rule(fmt.Sprintf("ordering layer: every selected-page count 1..%d x N {2,4,6,8} x btype {booklet,bookletadvanced,perfectbound} x binding {long,short} x formsize {A4,A4L} x multifolio off | on with foliosize 1..12 "+
			"(configurations PDFBookletConfig rejects are skipped and counted) x page sets {1..k | first k odd numbers | seeded random k-subset of 1..3k}: every selected page exactly once, other slots blank, "+
			"slot count multiple of 2N. non-trivial = k is not a multiple of 2N (blank padding needed) or the page set is sparse. end-to-end: NUpFile N in {2,3,4,8,9,12,16}, GridFile 1..5 x 1..5, BookletFile sample on pkg/testdata/bookletTest.pdf; "+
			"output page count = ceil(selected/cells) resp. slots/N", maxK))
		t.Assume("'N' is the number of pages per sheet SIDE for every booklet type (usage: 'booklet ... 4 in.pdf: 4 per sheet side (8 per sheet, back and front)'); a sheet is 2 sides, so whole sheets = multiple of 2N slots; no type documents a different sheet size")
		t.Assume("the slot count is only required to be a whole number of sheets, not the minimal one (multi-folio signatures may legitimately be padded); extra sheets are observed, not judged")
		t.Assume("the usage text says multifolio is 'for n=2 and PDF input only', but PDFBookletConfig accepts multifolio:on for every n and pdfcpu's own unit test 'signatures 4up' uses it with n=4; the property quantifies over accepted configurations, so all accepted ones are checked. A signature of 4*foliosize pages that is not a whole number of sheets (2N pages) is keyed separately (.../multifolio-signature-not-whole-sheets)")
		t.Assume("blank slots are BookletPage{Number: 0} (getPageNumber: 'Zero represents blank page at end of booklet')")
		t.Assume("PageDim is resolved from PageSize before calling the ordering, as pdfcpu.BookletFromPDF does")

		configs := allConfigs()
		type parsed struct {
			c   config
			nup *model.NUp
		}
		var accepted []parsed
		rejected := map[string]int64{}
		for _, c := range configs {
			nup, err := c.parse()
			if err != nil {
				rejected[fmt.Sprintf("rejected/n=%d/btype=%s/binding=%s/%s: %s", c.N, c.BType, c.Binding, c.Orient, firstLine(err.Error()))]++
				continue
			}
			accepted = append(accepted, parsed{c, nup})
		}
		t.Count("configurations_total", int64(len(configs)))
		t.Count("configurations_accepted", int64(len(accepted)))
		for k, v := range rejected {
			t.Count(k, v)
		}
		if len(accepted) == 0 {
			t.Broken("PDFBookletConfig accepted no configuration")
		}
		randomSet := func(k int) []int {
			rng := t.RNG(fmt.Sprintf("pageset#%d", k))
			perm := rng.Perm(3 * k)[:k]
			for i := range perm {
				perm[i]++
			}
			sort.Ints(perm)
			return perm
		}
		var mu sync.Mutex
		counters := map[string]int64{}
		var evals, nontriv int64
		// first (smallest) failing case per violation key: reported after the enumeration so that the
		// reported case does not depend on goroutine scheduling
		type firstCase struct {
			rank [3]int // configuration index, page count, page-set index
			what string
			oc   orderCase
		}
		first := map[string]firstCase{}
		less := func(a, b [3]int) bool {
			for i := range a {
				if a[i] != b[i] {
					return a[i] < b[i]
				}
			}
			return false
		}
		vk.Parallel(len(accepted), func(i int) {
			p := accepted[i]
			local := map[string]int64{}
			localFirst := map[string]firstCase{}
			var ev, nt int64
			for k := 1; k <= maxK; k++ {
				sets := map[string][]int{"random": randomSet(k)}
				dense, odd := make([]int, k), make([]int, k)
				for j := 0; j < k; j++ {
					dense[j], odd[j] = j+1, 2*j+1
				}
				sets["dense"], sets["odd"] = dense, odd
				for si, name := range []string{"dense", "odd", "random"} {
					pages := sets[name]
					// fresh NUp per call: the ordering must not depend on leftovers of earlier calls
					nup, err := p.c.parse()
					if err != nil {
						t.Broken("configuration accepted once, rejected later: %v", err)
					}
					class, what, slots := checkOrdering(nup, pages)
					ev++
					if k%(2*p.c.N) != 0 || name != "dense" {
						nt++
					}
					local["orderings/"+p.c.keyPart()]++
					if class == "" {
						if min := (k + 2*p.c.N - 1) / (2 * p.c.N) * 2 * p.c.N; len(slots) > min {
							local["orderings_with_more_than_minimal_sheets"]++
						}
						local["blank_slots_total"] += int64(len(slots) - k)
						continue
					}
					key := p.c.violationKey(class)
					local["violations/"+key]++
					if _, seen := localFirst[key]; !seen { // k and si ascend within one configuration
						localFirst[key] = firstCase{[3]int{i, k, si},
							fmt.Sprintf("booklet %d '%s' with %d selected pages (%s set %v): %s", p.c.N, p.c.desc(), k, name, clip(pages), what),
							orderCase{Config: p.c, Desc: p.c.desc(), Pages: pages, Set: name}}
					}
				}
			}
			mu.Lock()
			evals += ev
			nontriv += nt
			for k, v := range local {
				counters[k] += v
			}
			for k, v := range localFirst {
				if cur, ok := first[k]; !ok || less(v.rank, cur.rank) {
					first[k] = v
				}
			}
			mu.Unlock()
		})
		t.EvalBulk(evals, nontriv)
		for k, v := range counters {
			t.Count(k, v)
		}
		marked := writeMarkedDoc(t)
		keys := make([]string, 0, len(first))
		for k := range first {
			keys = append(keys, k)
		}
		sort.Strings(keys)
		for _, k := range keys {
			fc := first[k]
			pub := publicRoute(t, fc.oc, marked)
			t.Count("ordering_violations_public_route/"+pub.class, 1)
			t.Violate(k, fc.what+" || public route (PDFBookletConfig + api.BookletFile, pages "+fmt.Sprint(clip(fc.oc.Pages))+" of the marked document): "+pub.what, fc.oc)
		}
		t.Sample(orderCase{Config: accepted[0].c, Desc: accepted[0].c.desc(), Pages: randomSet(7), Set: "random"})
		if len(accepted) > 40 {
			t.Sample(orderCase{Config: accepted[40].c, Desc: accepted[40].c.desc(), Pages: []int{1, 3, 5, 7, 9}, Set: "odd"})
		}
		t.Exhaustive(true)

		endToEnd(t, func(i int) (config, *model.NUp) { return accepted[i].c, accepted[i].nup }, len(accepted), marked)
	})
}

func clip(p []int) string {
	if len(p) <= 12 {
		return fmt.Sprint(p)
	}
	return fmt.Sprintf("%v..%d (%d pages)", p[:8], p[len(p)-1], len(p))
}

func firstLine(s string) string {
	if i := strings.IndexByte(s, '\n'); i >= 0 {
		s = s[:i]
	}
	if len(s) > 90 {
		s = s[:90]
	}
	return s
}

func replay(t *vk.T) {
	marked := writeMarkedDoc(t)
	var oc orderCase
	if err := json.Unmarshal(t.Replay.Case, &oc); err == nil && oc.Config.N != 0 {
		nup, err := oc.Config.parse()
		if err != nil {
			fmt.Printf("REPLAY: PDFBookletConfig now rejects the configuration: %v\n", err)
			return
		}
		if class, what, _ := checkOrdering(nup, oc.Pages); class != "" {
			pub := publicRoute(t, oc, marked)
			t.Violate(oc.Config.violationKey(class), what+" || public route: "+pub.what, oc)
		}
		return
	}
	var ec e2eCase
	if err := json.Unmarshal(t.Replay.Case, &ec); err != nil || ec.Op == "" {
		t.Broken("replay case not understood")
	}
	in := filepath.Join(vk.RepoDir(), "pkg", "testdata", "bookletTest.pdf")
	if ec.Input == "marked" {
		in = marked.path
	}
	runE2E(t, ec, in, 0)
}

// ---- the marked document and its reader ----------------------------------------------------------

const markedPageCount = 37

type markedDoc struct {
	path  string
	pages int
}

// writeMarkedDoc writes a plain PDF 1.7 file of markedPageCount A4 pages; page i shows and carries C34MARK<i>.
func writeMarkedDoc(t *vk.T) markedDoc {
	var b bytes.Buffer
	var offs []int
	obj := func(body string) {
		offs = append(offs, b.Len())
		fmt.Fprintf(&b, "%d 0 obj\n%s\nendobj\n", len(offs), body)
	}
	b.WriteString("%PDF-1.7\n%\xe2\xe3\xcf\xd3\n")
	n := markedPageCount
	kids := make([]string, n)
	for i := range kids {
		kids[i] = fmt.Sprintf("%d 0 R", 4+2*i)
	}
	obj("<< /Type /Catalog /Pages 2 0 R >>")
	obj(fmt.Sprintf("<< /Type /Pages /Count %d /Kids [%s] >>", n, strings.Join(kids, " ")))
	obj("<< /Type /Font /Subtype /Type1 /BaseFont /Helvetica /Encoding /WinAnsiEncoding >>")
	for i := 1; i <= n; i++ {
		obj(fmt.Sprintf("<< /Type /Page /Parent 2 0 R /MediaBox [0 0 595 842] /Resources << /Font << /F1 3 0 R >> >> /Contents %d 0 R >>", 5+2*(i-1)))
		content := fmt.Sprintf("BT /F1 48 Tf 100 400 Td (C34MARK<%d>) Tj ET\n", i)
		obj(fmt.Sprintf("<< /Length %d >>\nstream\n%sendstream", len(content), content))
	}
	xref := b.Len()
	fmt.Fprintf(&b, "xref\n0 %d\n0000000000 65535 f \n", len(offs)+1)
	for _, o := range offs {
		fmt.Fprintf(&b, "%010d 00000 n \n", o)
	}
	fmt.Fprintf(&b, "trailer\n<< /Size %d /Root 1 0 R >>\nstartxref\n%d\n%%%%EOF\n", len(offs)+1, xref)
	path := filepath.Join(t.Scratch(), "c34-marked.pdf")
	if err := os.WriteFile(path, b.Bytes(), 0o644); err != nil {
		t.Broken("marked document: %v", err)
	}
	if err := api.ValidateFile(path, newConf()); err != nil {
		t.Broken("marked document does not validate: %v", err)
	}
	if pc, err := api.PageCountFile(path); err != nil || pc != n {
		t.Broken("marked document: page count %d, %v", pc, err)
	}
	return markedDoc{path, n}
}

var (
	doRe   = regexp.MustCompile(`/([^\s/\[\]<>(){}%]+)\s+Do\b`)
	markRe = regexp.MustCompile(`C34MARK<(\d+)>`)
)

// readMarkers returns, per output page, the markers of the forms its content paints, in painting order.
func readMarkers(file string) ([][]int, error) {
	data, err := os.ReadFile(file)
	if err != nil {
		return nil, err
	}
	doc, err := pdfstrict.Open(data, pdfstrict.Options{})
	if err != nil {
		return nil, err
	}
	pages, err := doc.Pages()
	if err != nil {
		return nil, err
	}
	out := make([][]int, len(pages))
	for pi, pg := range pages {
		if pg.ContentErr != nil {
			return nil, fmt.Errorf("output page %d: %v", pi+1, pg.ContentErr)
		}
		for _, m := range markRe.FindAllSubmatch(pg.Content, -1) { // a marker painted without a form
			v, _ := strconv.Atoi(string(m[1]))
			out[pi] = append(out[pi], v)
		}
		var xo pdfstrict.Dict
		if pg.Resources != nil {
			xo, _ = doc.ResolveDict(pg.Resources["XObject"])
		}
		for _, m := range doRe.FindAllSubmatch(pg.Content, -1) {
			name := string(m[1])
			st, ok := doc.Resolve(xo[name]).(*pdfstrict.Stream)
			if !ok {
				return nil, fmt.Errorf("output page %d: /%s Do does not resolve to a stream through /Resources /XObject", pi+1, name)
			}
			fb, err := doc.DecodeStream(st)
			if err != nil {
				return nil, fmt.Errorf("output page %d: form /%s: %v", pi+1, name, err)
			}
			for _, mm := range markRe.FindAllSubmatch(fb, -1) {
				v, _ := strconv.Atoi(string(mm[1]))
				out[pi] = append(out[pi], v)
			}
		}
	}
	return out, nil
}

// placement compares the markers of an output with the selected pages. inOrder: output page j must hold
// pages[j*cells:(j+1)*cells] in that order (n-up, grid); otherwise only "each exactly once, nothing else".
func placement(perPage [][]int, pages []int, cells int, inOrder bool) (class, what string) {
	sel := map[int]bool{}
	for _, p := range pages {
		sel[p] = true
	}
	seen := map[int]int{}
	for _, pp := range perPage {
		for _, m := range pp {
			seen[m]++
		}
	}
	var missing, dup, foreign []int
	for _, p := range pages {
		switch {
		case seen[p] == 0:
			missing = append(missing, p)
		case seen[p] > 1:
			dup = append(dup, p)
		}
	}
	for m := range seen {
		if !sel[m] {
			foreign = append(foreign, m)
		}
	}
	sort.Ints(foreign)
	switch {
	case len(missing) > 0:
		return "marker-missing", fmt.Sprintf("selected pages %v are not placed in the output (markers per output page: %v)", clip(missing), perPage)
	case len(dup) > 0:
		return "marker-duplicated", fmt.Sprintf("selected pages %v are placed more than once (markers per output page: %v)", clip(dup), perPage)
	case len(foreign) > 0:
		return "foreign-marker", fmt.Sprintf("pages %v are placed but not selected (markers per output page: %v)", clip(foreign), perPage)
	}
	if inOrder {
		for j, pp := range perPage {
			lo, hi := j*cells, (j+1)*cells
			if hi > len(pages) {
				hi = len(pages)
			}
			if lo > hi {
				lo = hi
			}
			if fmt.Sprint(pp) != fmt.Sprint(pages[lo:hi]) {
				return "wrong-output-page-or-order", fmt.Sprintf("output page %d holds %v, want %v", j+1, pp, pages[lo:hi])
			}
		}
	}
	return "", ""
}

func selectionOf(pages []int) []string {
	s := make([]string, len(pages))
	for i, p := range pages {
		s[i] = strconv.Itoa(p)
	}
	return s
}

type pubResult struct{ class, what string }

// publicRoute drives one ordering case through PDFBookletConfig + api.BookletFile on the marked document.
func publicRoute(t *vk.T, oc orderCase, marked markedDoc) (res pubResult) {
	for _, p := range oc.Pages {
		if p > marked.pages {
			return pubResult{"not-driven", fmt.Sprintf("not driven (page %d exceeds the %d pages of the marked document)", p, marked.pages)}
		}
	}
	nup, err := oc.Config.parse()
	if err != nil {
		return pubResult{"rejected", "PDFBookletConfig rejects the configuration: " + err.Error()}
	}
	out := filepath.Join(t.Scratch(), "c34-public-route.pdf")
	defer os.Remove(out)
	defer func() {
		if r := recover(); r != nil {
			res = pubResult{"panic", fmt.Sprintf("api.BookletFile PANICS: %v", r)}
		}
	}()
	if err := api.BookletFile([]string{marked.path}, out, selectionOf(oc.Pages), nup, newConf()); err != nil {
		return pubResult{"error", "api.BookletFile fails: " + firstLine(err.Error())}
	}
	perPage, err := readMarkers(out)
	if err != nil {
		return pubResult{"output-unreadable", "api.BookletFile succeeds, output unreadable: " + err.Error()}
	}
	if class, what := placement(perPage, oc.Pages, 0, false); class != "" {
		return pubResult{class, "api.BookletFile SUCCEEDS but " + what}
	}
	return pubResult{"clean", "api.BookletFile succeeds and places every selected page once"}
}

// ---- end-to-end layer ----------------------------------------------------------------------------

type e2eCase struct {
	Op        string   `json:"op"`    // nup | grid | booklet
	Input     string   `json:"input"` // corpus | marked
	N         int      `json:"n,omitempty"`
	Rows      int      `json:"rows,omitempty"`
	Cols      int      `json:"cols,omitempty"`
	Desc      string   `json:"description,omitempty"`
	Selection []string `json:"selection"`
	Pages     []int    `json:"selected_page_numbers"`
	Selected  int      `json:"selected_pages"`
	Want      int      `json:"want_output_pages"`
	Config    *config  `json:"config,omitempty"`
}

func runE2E(t *vk.T, ec e2eCase, inFile string, idx int) {
	out := filepath.Join(t.Scratch(), fmt.Sprintf("c34-%d.pdf", idx))
	defer os.Remove(out)
	var err error
	cells := 0
	func() {
		defer func() {
			if r := recover(); r != nil {
				err = fmt.Errorf("panic: %v", r)
				t.Count("pdfcpu_panics", 1)
			}
		}()
		conf := newConf()
		switch ec.Op {
		case "nup":
			var nup *model.NUp
			cells = ec.N
			if nup, err = api.PDFNUpConfig(ec.N, ec.Desc, conf); err == nil {
				err = api.NUpFile([]string{inFile}, out, ec.Selection, nup, conf)
			}
		case "grid":
			var nup *model.NUp
			cells = ec.Rows * ec.Cols
			if nup, err = api.PDFGridConfig(ec.Rows, ec.Cols, ec.Desc, conf); err == nil {
				err = api.GridFile([]string{inFile}, out, ec.Selection, nup, conf)
			}
		case "booklet":
			var nup *model.NUp
			cells = ec.Config.N
			if nup, err = ec.Config.parse(); err == nil {
				err = api.BookletFile([]string{inFile}, out, ec.Selection, nup, conf)
			}
		}
	}()
	key := fmt.Sprintf("e2e/%s", ec.Op)
	switch ec.Op {
	case "nup":
		key += fmt.Sprintf("/n=%d", ec.N)
	case "grid":
		key += fmt.Sprintf("/grid=%dx%d", ec.Rows, ec.Cols)
	case "booklet":
		key += "/" + ec.Config.keyPart()
	}
	t.Eval(fmt.Sprintf("%s/%s/sel=%v", key, ec.Input, ec.Selection))
	t.Count("e2e_runs/"+ec.Op+"/"+ec.Input, 1)
	if err != nil {
		t.Violate(key+"/error", fmt.Sprintf("%s on %d selected pages fails: %v", ec.Op, ec.Selected, err), ec)
		return
	}
	got, err := api.PageCountFile(out)
	if err != nil {
		t.Violate(key+"/output-unreadable", fmt.Sprintf("PageCountFile(output): %v", err), ec)
		return
	}
	if got != ec.Want {
		t.Violate(key+"/page-count", fmt.Sprintf("%s %+v of %d selected pages (%v) gives %d output pages, want %d", ec.Op, ec, ec.Selected, ec.Selection, got, ec.Want), ec)
		return
	}
	if ec.Input != "marked" {
		return
	}
	perPage, err := readMarkers(out)
	if err != nil {
		t.Violate(key+"/placement/output-unreadable", fmt.Sprintf("the harness reader cannot follow the output: %v", err), ec)
		return
	}
	placed := 0
	for _, pp := range perPage {
		placed += len(pp)
	}
	t.Count("e2e_markers_placed/"+ec.Op, int64(placed))
	if len(perPage) != got {
		t.Violate(key+"/placement/page-count", fmt.Sprintf("the harness reader sees %d output pages, pdfcpu reports %d", len(perPage), got), ec)
		return
	}
	if class, what := placement(perPage, ec.Pages, cells, ec.Op != "booklet"); class != "" {
		t.Violate(key+"/placement/"+class, fmt.Sprintf("%s of pages %v (%s): %s", ec.Op, ec.Selection, ec.Desc, what), ec)
		return
	}
	t.Count("e2e_placement_checks_passed/"+ec.Op, 1)
}

func endToEnd(t *vk.T, cfg func(int) (config, *model.NUp), nCfg int, marked markedDoc) {
	corpus := filepath.Join(vk.RepoDir(), "pkg", "testdata", "bookletTest.pdf")
	cp, err := api.PageCountFile(corpus)
	if err != nil || cp < 20 {
		t.Inconclusive(fmt.Sprintf("corpus-file-unusable:%v", err))
		cp = 0
	}
	t.Count("e2e_corpus_pages", int64(cp))
	t.Count("e2e_marked_pages", int64(marked.pages))
	ceil := func(a, b int) int { return (a + b - 1) / b }
	type input struct {
		name, path string
		pages      int
	}
	inputs := []input{{"marked", marked.path, marked.pages}}
	if cp > 0 {
		inputs = append(inputs, input{"corpus", corpus, cp})
	}
	var cases []e2eCase
	files := map[string]string{}
	for _, in := range inputs {
		files[in.name] = in.path
		P := in.pages
		// selections whose page numbers are known without pdfcpu's selection code
		type sel struct {
			s     []string
			pages []int
		}
		rangeOf := func(a, b, step int, skip int) []int {
			var o []int
			for p := a; p <= b; p += step {
				if p != skip {
					o = append(o, p)
				}
			}
			return o
		}
		sels := []sel{{nil, rangeOf(1, P, 1, 0)}, {[]string{"1-13"}, rangeOf(1, 13, 1, 0)}, {[]string{"2-8"}, rangeOf(2, 8, 1, 0)},
			{[]string{"odd"}, rangeOf(1, P, 2, 0)}, {[]string{"5"}, []int{5}}, {[]string{"1-17", "!3"}, rangeOf(1, 17, 1, 3)}}
		for _, n := range []int{2, 3, 4, 8, 9, 12, 16} {
			for _, s := range sels {
				cases = append(cases, e2eCase{Op: "nup", Input: in.name, N: n, Selection: s.s, Pages: s.pages, Selected: len(s.pages), Want: ceil(len(s.pages), n)})
			}
		}
		for r := 1; r <= 5; r++ {
			for c := 1; c <= 5; c++ {
				for si, s := range sels {
					if t.Quick() && si%3 != (r+c)%3 {
						continue // quick: 2 of the 6 selections per grid, rotating
					}
					cases = append(cases, e2eCase{Op: "grid", Input: in.name, Rows: r, Cols: c, Selection: s.s, Pages: s.pages, Selected: len(s.pages), Want: ceil(len(s.pages), r*c)})
				}
			}
		}
		// booklet sample: slots/N output pages, slots taken from the ordering layer's own (checked) result
		rng := t.RNG("e2e-booklet-" + in.name)
		for i := 0; i < t.Pick(24, 200); i++ {
			c, nup := cfg(rng.IntN(nCfg))
			s := sels[rng.IntN(len(sels))]
			class, _, slots := checkOrdering(nup, s.pages)
			if class != "" {
				t.Count("e2e_booklet_cases_skipped_ordering_already_reported", 1)
				continue // reported by the ordering layer (and driven through the public route there)
			}
			cc := c
			cases = append(cases, e2eCase{Op: "booklet", Input: in.name, Config: &cc, Desc: c.desc(), Selection: s.s, Pages: s.pages, Selected: len(s.pages), Want: len(slots) / c.N})
		}
	}
	vk.Parallel(len(cases), func(i int) { runE2E(t, cases[i], files[cases[i].Input], i) })
	t.Count("e2e_cases", int64(len(cases)))
}
