// C34 — booklet and n-up imposition place every selected page exactly once.
//
// Ordering layer (exhaustive over the stated grid): pdfcpu.VerifBookletOrdering(pages, nup) for selected-page
// counts 1..200 (quick 1..64) x N in {2,4,6,8} x btype {booklet, bookletadvanced, perfectbound} x binding
// {long, short} x sheet orientation {portrait, landscape} x multifolio off / on with foliosize 1..12; the
// *model.NUp comes from pdfcpu's own parser pdfcpu.PDFBookletConfig(n, description, conf) and a configuration it
// rejects is skipped and counted. Oracle: the slot list holds every selected page number exactly once, every
// other slot is blank (Number 0) and the slot count is a whole number of sheets (2*N slots: N per sheet side).
// Page sets: {1..k}, the first k odd numbers, and a seeded random k-subset of 1..3k (page numbers != slot index).
//
// End-to-end layer: api.NUpFile / api.GridFile / api.BookletFile on a corpus multi-page PDF; output page count
// (api.PageCountFile) = ceil(selected / cells) resp. slots / N.
package main

import (
	"encoding/json"
	"fmt"
	"os"
	"path/filepath"
	"sort"
	"strings"
	"sync"

	"github.com/pdfcpu/pdfcpu/pkg/api"
	"github.com/pdfcpu/pdfcpu/pkg/pdfcpu"
	"github.com/pdfcpu/pdfcpu/pkg/pdfcpu/model"
	"github.com/pdfcpu/pdfcpu/pkg/pdfcpu/types"
	"verif/harness/internal/vk"
)

type config struct {
	N         int    `json:"n"`
	BType     string `json:"btype"`
	Binding   string `json:"binding"`
	Orient    string `json:"orientation"` // portrait | landscape (formsize A4 / A4L)
	MultiF    bool   `json:"multifolio"`
	FolioSize int    `json:"foliosize,omitempty"`
}

func (c config) desc() string {
	fs := "A4"
	if c.Orient == "landscape" {
		fs = "A4L"
	}
	d := fmt.Sprintf("formsize:%s, btype:%s, binding:%s", fs, c.BType, c.Binding)
	if c.MultiF {
		d += fmt.Sprintf(", multifolio:on, foliosize:%d", c.FolioSize)
	} else {
		d += ", multifolio:off"
	}
	return d
}

func (c config) keyPart() string {
	mf := "off"
	if c.MultiF {
		mf = "on"
	}
	return fmt.Sprintf("n=%d/btype=%s/multifolio=%s", c.N, c.BType, mf)
}

// violationKey: multifolio is documented "for n=2 only"; the parser accepting it for n=4,6,8 is ONE defect
// whatever the booklet type, so those configurations share a key per failure class.
func (c config) violationKey(class string) string {
	if c.MultiF && c.N != 2 {
		return fmt.Sprintf("ordering/%s/multifolio=on-with-n>2", class)
	}
	return fmt.Sprintf("ordering/%s/%s", class, c.keyPart())
}

func newConf() *model.Configuration {
	conf := model.NewDefaultConfiguration()
	conf.Offline = true
	return conf
}

// parse builds the NUp through pdfcpu's public configuration parser.
func (c config) parse() (nup *model.NUp, err error) {
	defer func() {
		if r := recover(); r != nil {
			err = fmt.Errorf("parser panic: %v", r)
		}
	}()
	nup, err = pdfcpu.PDFBookletConfig(c.N, c.desc(), newConf())
	if err != nil {
		return nil, err
	}
	if nup.PageDim == nil { // as pdfcpu.BookletFromPDF does before computing the ordering
		nup.PageDim = types.PaperSize[nup.PageSize]
	}
	return nup, nil
}

func allConfigs() []config {
	var out []config
	for _, n := range []int{2, 4, 6, 8} {
		for _, bt := range []string{"booklet", "bookletadvanced", "perfectbound"} {
			for _, b := range []string{"long", "short"} {
				for _, o := range []string{"portrait", "landscape"} {
					out = append(out, config{N: n, BType: bt, Binding: b, Orient: o})
					for fs := 1; fs <= 12; fs++ {
						out = append(out, config{N: n, BType: bt, Binding: b, Orient: o, MultiF: true, FolioSize: fs})
					}
				}
			}
		}
	}
	return out
}

type orderCase struct {
	Config config `json:"config"`
	Desc   string `json:"description"`
	Pages  []int  `json:"selected_pages"`
	Set    string `json:"page_set"`
}

// checkOrdering returns (class, what) of the first violated clause, "" if the slot list is fine.
func checkOrdering(nup *model.NUp, pages []int) (class, what string, slots []model.BookletPage) {
	set := types.IntSet{}
	for _, p := range pages {
		set[p] = true
	}
	func() {
		defer func() {
			if r := recover(); r != nil {
				class, what = "panic", fmt.Sprintf("VerifBookletOrdering panics: %v", r)
			}
		}()
		slots = pdfcpu.VerifBookletOrdering(set, nup)
	}()
	if class != "" {
		return
	}
	sheet := 2 * nup.N()
	seen := map[int]int{}
	blanks := 0
	for _, s := range slots {
		if s.Number == 0 {
			blanks++
			continue
		}
		seen[s.Number]++
	}
	nums := func() []int {
		o := make([]int, len(slots))
		for i, s := range slots {
			o[i] = s.Number
		}
		return o
	}
	for n, c := range seen {
		if !set[n] {
			return "foreign-page", fmt.Sprintf("slot list contains page %d which is not selected; slots %v", n, nums()), slots
		}
		if c > 1 {
			return "page-duplicated", fmt.Sprintf("selected page %d is placed %d times; slots %v", n, c, nums()), slots
		}
	}
	for _, p := range pages {
		if seen[p] == 0 {
			return "page-missing", fmt.Sprintf("selected page %d is not placed; %d slots %v", p, len(slots), nums()), slots
		}
	}
	if len(slots)%sheet != 0 {
		return "not-whole-sheets", fmt.Sprintf("%d slots is not a multiple of %d (2 sides x %d per side)", len(slots), sheet, nup.N()), slots
	}
	if blanks != len(slots)-len(pages) {
		return "blank-count", fmt.Sprintf("%d blanks in %d slots for %d pages", blanks, len(slots), len(pages)), slots
	}
	return "", "", slots
}

func main() {
	vk.Run("C34", "exploration", func(t *vk.T) {
		api.DisableConfigDir()
		if t.Replay != nil {
			replay(t)
			return
		}
		maxK := t.Pick(64, 200)
		t.Rule(fmt.Sprintf("ordering layer: every selected-page count 1..%d x N {2,4,6,8} x btype {booklet,bookletadvanced,perfectbound} x binding {long,short} x formsize {A4,A4L} x multifolio off | on with foliosize 1..12 "+
			"(configurations PDFBookletConfig rejects are skipped and counted) x page sets {1..k | first k odd numbers | seeded random k-subset of 1..3k}: every selected page exactly once, other slots blank, "+
			"slot count multiple of 2N. non-trivial = k is not a multiple of 2N (blank padding needed) or the page set is sparse. end-to-end: NUpFile N in {2,3,4,8,9,12,16}, GridFile 1..5 x 1..5, BookletFile sample on pkg/testdata/bookletTest.pdf; "+
			"output page count = ceil(selected/cells) resp. slots/N", maxK))
		t.Assume("'N' is the number of pages per sheet SIDE for every booklet type (usage: 'booklet ... 4 in.pdf: 4 per sheet side (8 per sheet, back and front)'); a sheet is 2 sides, so whole sheets = multiple of 2N slots; no type documents a different sheet size")
		t.Assume("the slot count is only required to be a whole number of sheets, not the minimal one (multi-folio signatures may legitimately be padded); extra sheets are observed, not judged")
		t.Assume("the usage text says multifolio is 'for n=2 and PDF input only' but PDFBookletConfig accepts multifolio:on for n=4,6,8; the property quantifies over accepted configurations, so these are checked too and keyed separately (…/multifolio=on)")
		t.Assume("blank slots are BookletPage{Number: 0} (getPageNumber: 'Zero represents blank page at end of booklet')")
		t.Assume("PageDim is resolved from PageSize before calling the ordering, as pdfcpu.BookletFromPDF does")

		configs := allConfigs()
		type parsed struct {
			c   config
			nup *model.NUp
		}
		var accepted []parsed
		rejected := map[string]int64{}
		for _, c := range configs {
			nup, err := c.parse()
			if err != nil {
				rejected[fmt.Sprintf("rejected/n=%d/btype=%s/binding=%s/%s: %s", c.N, c.BType, c.Binding, c.Orient, firstLine(err.Error()))]++
				continue
			}
			accepted = append(accepted, parsed{c, nup})
		}
		t.Count("configurations_total", int64(len(configs)))
		t.Count("configurations_accepted", int64(len(accepted)))
		for k, v := range rejected {
			t.Count(k, v)
		}
		if len(accepted) == 0 {
			t.Broken("PDFBookletConfig accepted no configuration")
		}
		randomSet := func(k int) []int {
			rng := t.RNG(fmt.Sprintf("pageset#%d", k))
			perm := rng.Perm(3 * k)[:k]
			for i := range perm {
				perm[i]++
			}
			sort.Ints(perm)
			return perm
		}
		var mu sync.Mutex
		counters := map[string]int64{}
		var evals, nontriv int64
		reported := sync.Map{}
		vk.Parallel(len(accepted), func(i int) {
			p := accepted[i]
			local := map[string]int64{}
			var ev, nt int64
			for k := 1; k <= maxK; k++ {
				sets := map[string][]int{"random": randomSet(k)}
				dense, odd := make([]int, k), make([]int, k)
				for j := 0; j < k; j++ {
					dense[j], odd[j] = j+1, 2*j+1
				}
				sets["dense"], sets["odd"] = dense, odd
				for _, name := range []string{"dense", "odd", "random"} {
					pages := sets[name]
					// fresh NUp per call: the ordering must not depend on leftovers of earlier calls
					nup, err := p.c.parse()
					if err != nil {
						t.Broken("configuration accepted once, rejected later: %v", err)
					}
					class, what, slots := checkOrdering(nup, pages)
					ev++
					if k%(2*p.c.N) != 0 || name != "dense" {
						nt++
					}
					local["orderings/"+p.c.keyPart()]++
					if class == "" {
						if min := (k + 2*p.c.N - 1) / (2 * p.c.N) * 2 * p.c.N; len(slots) > min {
							local["orderings_with_more_than_minimal_sheets"]++
						}
						local["blank_slots_total"] += int64(len(slots) - k)
						continue
					}
					key := p.c.violationKey(class)
					local["violations/"+key]++
					if _, seen := reported.LoadOrStore(key, true); !seen {
						t.Violate(key, fmt.Sprintf("booklet %d '%s' with %d selected pages (%s set %v): %s", p.c.N, p.c.desc(), k, name, clip(pages), what),
							orderCase{Config: p.c, Desc: p.c.desc(), Pages: pages, Set: name})
					}
				}
			}
			mu.Lock()
			evals += ev
			nontriv += nt
			for k, v := range local {
				counters[k] += v
			}
			mu.Unlock()
		})
		t.EvalBulk(evals, nontriv)
		for k, v := range counters {
			t.Count(k, v)
		}
		t.Sample(orderCase{Config: accepted[0].c, Desc: accepted[0].c.desc(), Pages: randomSet(7), Set: "random"})
		if len(accepted) > 40 {
			t.Sample(orderCase{Config: accepted[40].c, Desc: accepted[40].c.desc(), Pages: []int{1, 3, 5, 7, 9}, Set: "odd"})
		}
		t.Exhaustive(true)

		endToEnd(t, func(i int) (config, *model.NUp) { return accepted[i].c, accepted[i].nup }, len(accepted))
	})
}

func clip(p []int) string {
	if len(p) <= 12 {
		return fmt.Sprint(p)
	}
	return fmt.Sprintf("%v..%d (%d pages)", p[:8], p[len(p)-1], len(p))
}

func firstLine(s string) string {
	if i := strings.IndexByte(s, '\n'); i >= 0 {
		s = s[:i]
	}
	if len(s) > 90 {
		s = s[:90]
	}
	return s
}

func replay(t *vk.T) {
	var oc orderCase
	if err := json.Unmarshal(t.Replay.Case, &oc); err == nil && oc.Config.N != 0 {
		nup, err := oc.Config.parse()
		if err != nil {
			t.Broken("replay: configuration rejected: %v", err)
		}
		if class, what, _ := checkOrdering(nup, oc.Pages); class != "" {
			t.Violate(oc.Config.violationKey(class), what, oc)
		}
		return
	}
	var ec e2eCase
	if err := json.Unmarshal(t.Replay.Case, &ec); err != nil || ec.Op == "" {
		t.Broken("replay case not understood")
	}
	runE2E(t, ec, filepath.Join(vk.RepoDir(), "pkg", "testdata", "bookletTest.pdf"), 0)
}

type e2eCase struct {
	Op        string   `json:"op"` // nup | grid | booklet
	N         int      `json:"n,omitempty"`
	Rows      int      `json:"rows,omitempty"`
	Cols      int      `json:"cols,omitempty"`
	Desc      string   `json:"description,omitempty"`
	Selection []string `json:"selection"`
	Selected  int      `json:"selected_pages"`
	Want      int      `json:"want_output_pages"`
	Config    *config  `json:"config,omitempty"`
}

// placementCheck is the hook for the marker-based placement check (every selected marker placed exactly once,
// n-up/grid markers in order): each output page's content is scanned for Do operators, resolved through
// /Resources /XObject to the form whose content carries the marker.
//
// TODO(pdfgen): implement once the generator library provides marked multi-page documents; until then only the
// output page count is checked end to end and this hook counts what it skipped.
func placementCheck(t *vk.T, outFile string, ec e2eCase) {
	_ = outFile
	t.Count("placement_checks_skipped_TODO_pdfgen", 1)
}

func runE2E(t *vk.T, ec e2eCase, inFile string, idx int) {
	out := filepath.Join(t.Scratch(), fmt.Sprintf("c34-%d.pdf", idx))
	defer os.Remove(out)
	var err error
	func() {
		defer func() {
			if r := recover(); r != nil {
				err = fmt.Errorf("panic: %v", r)
				t.Count("pdfcpu_panics", 1)
			}
		}()
		conf := newConf()
		switch ec.Op {
		case "nup":
			var nup *model.NUp
			if nup, err = api.PDFNUpConfig(ec.N, ec.Desc, conf); err == nil {
				err = api.NUpFile([]string{inFile}, out, ec.Selection, nup, conf)
			}
		case "grid":
			var nup *model.NUp
			if nup, err = api.PDFGridConfig(ec.Rows, ec.Cols, ec.Desc, conf); err == nil {
				err = api.GridFile([]string{inFile}, out, ec.Selection, nup, conf)
			}
		case "booklet":
			var nup *model.NUp
			if nup, err = ec.Config.parse(); err == nil {
				err = api.BookletFile([]string{inFile}, out, ec.Selection, nup, conf)
			}
		}
	}()
	key := fmt.Sprintf("e2e/%s", ec.Op)
	switch ec.Op {
	case "nup":
		key += fmt.Sprintf("/n=%d", ec.N)
	case "grid":
		key += fmt.Sprintf("/grid=%dx%d", ec.Rows, ec.Cols)
	case "booklet":
		key += "/" + ec.Config.keyPart()
	}
	t.Eval(fmt.Sprintf("%s/sel=%v", key, ec.Selection))
	t.Count("e2e_runs/"+ec.Op, 1)
	if err != nil {
		t.Violate(key+"/error", fmt.Sprintf("%s on %d selected pages fails: %v", ec.Op, ec.Selected, err), ec)
		return
	}
	got, err := api.PageCountFile(out)
	if err != nil {
		t.Violate(key+"/output-unreadable", fmt.Sprintf("PageCountFile(output): %v", err), ec)
		return
	}
	if got != ec.Want {
		t.Violate(key+"/page-count", fmt.Sprintf("%s %+v of %d selected pages (%v) gives %d output pages, want %d", ec.Op, ec, ec.Selected, ec.Selection, got, ec.Want), ec)
		return
	}
	placementCheck(t, out, ec)
}

func endToEnd(t *vk.T, cfg func(int) (config, *model.NUp), nCfg int) {
	inFile := filepath.Join(vk.RepoDir(), "pkg", "testdata", "bookletTest.pdf")
	P, err := api.PageCountFile(inFile)
	if err != nil || P < 20 {
		t.Inconclusive(fmt.Sprintf("corpus-file-unusable:%v", err))
		return
	}
	t.Count("e2e_corpus_pages", int64(P))
	// selections with a page count known without pdfcpu's selection code
	type sel struct {
		s []string
		n int
	}
	sels := []sel{{nil, P}, {[]string{"1-13"}, 13}, {[]string{"2-8"}, 7}, {[]string{"odd"}, (P + 1) / 2}, {[]string{"5"}, 1}, {[]string{"1-17", "!3"}, 16}}
	var cases []e2eCase
	ceil := func(a, b int) int { return (a + b - 1) / b }
	for _, n := range []int{2, 3, 4, 8, 9, 12, 16} {
		for _, s := range sels {
			cases = append(cases, e2eCase{Op: "nup", N: n, Selection: s.s, Selected: s.n, Want: ceil(s.n, n)})
		}
	}
	for r := 1; r <= 5; r++ {
		for c := 1; c <= 5; c++ {
			for si, s := range sels {
				if t.Quick() && si%3 != (r+c)%3 {
					continue // quick: 2 of the 6 selections per grid, rotating
				}
				cases = append(cases, e2eCase{Op: "grid", Rows: r, Cols: c, Selection: s.s, Selected: s.n, Want: ceil(s.n, r*c)})
			}
		}
	}
	// booklet sample: slots/N output pages, slots taken from the ordering layer's own (checked) result
	rng := t.RNG("e2e-booklet")
	for i := 0; i < t.Pick(24, 200); i++ {
		c, nup := cfg(rng.IntN(nCfg))
		s := sels[rng.IntN(len(sels))]
		pages := make([]int, s.n)
		for j := range pages {
			pages[j] = j + 1 // only the COUNT matters for the slot count
		}
		class, _, slots := checkOrdering(nup, pages)
		if class != "" {
			continue // already reported by the ordering layer
		}
		cc := c
		cases = append(cases, e2eCase{Op: "booklet", Config: &cc, Desc: c.desc(), Selection: s.s, Selected: s.n, Want: len(slots) / c.N})
	}
	vk.Parallel(len(cases), func(i int) { runE2E(t, cases[i], inFile, i) })
	t.Count("e2e_cases", int64(len(cases)))
}
