//go:build verifshadow

// C02 — replacing an existing file is atomic at every crash point.
// One fault-free run per (operation, overwrite scenario): before EVERY filesystem call under the
// sandbox the monitor reads each destination path and lists the sandbox tree. A process killed
// between call k-1 and k leaves exactly that state (page cache survives a process crash), so one
// execution yields all M crash states. Thorough tier: sampled real SIGKILLs validate that equivalence.
package main

import (
	"crypto/sha256"
	"encoding/json"
	"fmt"
	"os"
	"os/exec"
	"path/filepath"
	"strings"

	"github.com/pdfcpu/pdfcpu/pkg/api"
	"verif/harness/internal/cliprop"
	"verif/harness/internal/fileprop"
	"verif/harness/internal/fsx"
	"verif/harness/internal/opcat"
	"verif/harness/internal/osmon"
	"verif/harness/internal/vk"
)

type item struct {
	op  opcat.Op
	sc  fileprop.Scenario
	cli *cliprop.Item // set for the pkg/cli command forms (op, sc are then derived from it)
}

// cliItems: the pkg/cli command forms that replace an existing destination, driven in-process:
// "cmd - out" (stdin -> existing file: the CLI stream staging createStreamOutput + finalize) for every
// stream-capable form, "cmd - outDir" onto existing outputs, and the plain file forms of a
// representative subset. Destination kinds: regular file 0600/0644/0664, symlink to a regular file,
// second name of a hard-linked file, the very file stdin is redirected from.
// quick: 2 destination kinds per form (rotating with the seed, so every kind is reached by many forms);
// thorough: all.
func cliItems(t *vk.T) []item {
	var all []cliprop.Item
	for _, it := range cliprop.All() {
		if it.Dest.Replaces() {
			all = append(all, it)
		}
	}
	if t.Quick() {
		all = cliprop.Sample(all, t.RNG("cli-dest-rotation").IntN(840), func(string, int) int { return 2 })
	}
	var its []item
	for i := range all {
		it := all[i]
		its = append(its, item{op: opcat.Op{Name: it.OpName()}, sc: it.Scenario(), cli: &it})
	}
	return its
}

func items(t *vk.T) []item {
	var its []item
	for _, op := range opcat.All() {
		for _, sc := range fileprop.Scenarios(op) {
			switch sc {
			case fileprop.InPlace, fileprop.Existing0644, fileprop.Existing0600, fileprop.DirExisting:
				its = append(its, item{op: op, sc: sc})
			}
		}
	}
	return append(its, cliItems(t)...)
}

func build(fx, root string, it item) (*fileprop.Case, error) {
	if it.cli != nil {
		return cliprop.Build(fx, root, *it.cli)
	}
	return fileprop.Build(fx, root, it.op, it.sc)
}

// oldSum is the content a destination path holds before the call, read THROUGH the path (a symlinked
// destination holds the bytes of its target).
func oldEntry(c *fileprop.Case, d string) fsx.Entry {
	e := c.Pristine[d]
	if e.Mode&os.ModeSymlink != 0 {
		return c.Pristine[filepath.ToSlash(filepath.Join(filepath.Dir(d), e.Link))]
	}
	return e
}

func oldSum(c *fileprop.Case, d string) [32]byte { return oldEntry(c, d).Sum }

func main() {
	vk.Run("C02", "fault_enumeration", func(t *vk.T) {
		api.DisableConfigDir()
		if os.Getenv("VERIF_C02_KILL") != "" {
			killChild(t)
			return
		}
		if !t.IsShard() {
			parent(t)
			return
		}
		shard(t)
	})
}

func parent(t *vk.T) {
	t.Rule("case = (operation, overwrite scenario, crash point k): the destination bytes and the sandbox listing observed immediately before filesystem call k of a fault-free run (= the state a process kill at that point leaves); non-trivial = crash points at which a staging file exists or the destination already holds the new bytes; distinct by (op, scenario, k). Operations: the pkg/api + pkg/pdfcpu catalogue, and the pkg/cli command forms built as cmd/pdfcpu builds them (cli.XCommand, cli.Dispatch) and run in-process with os.Stdin redirected from a sandbox file and $TMPDIR inside the sandbox; a destination is read THROUGH its path (a symlinked destination must yield the complete old or complete new bytes; the link itself may be replaced or kept); the link target / the other name of a hard-linked destination must hold its complete old or the complete new bytes as well")
	t.Assume("process-crash model: page cache survives, so the state before call k equals the post-mortem state of a kill at k (validated by real SIGKILLs in the thorough tier)")
	t.Assume("granularity is the package-os call; a kill inside one write(2) is not modelled (the destination is never written directly when the property holds, and is seen torn at later boundaries when it is)")
	fx := filepath.Join(t.Scratch(), "fx")
	if err := os.MkdirAll(fx, 0o755); err != nil {
		t.Broken("%v", err)
	}
	if err := opcat.Prepare(vk.RepoDir(), fx); err != nil {
		t.Broken("fixtures: %v", err)
	}
	t.Assume("the spooled copy of stdin in $TMPDIR (pdfcpu-stdin-*.pdf) is a crash leftover in the system's temporary directory, not next to the destination: counted (tmpdir_entries_at_crash_points), not judged")
	t.Extra("op_scenarios", len(items(t)))
	t.Extra("cli_forms", len(cliprop.Forms()))
	t.Extra("cli_op_scenarios", len(cliItems(t)))
	t.Extra("cli_not_driven", cliprop.NotDriven)
	t.RunShards(16, "VERIF_FX="+fx)
	if t.Counter("crash_points_observed") == 0 {
		t.Broken("no crash point observed")
	}
}

type boundary struct {
	k     int64
	call  string
	sums  map[string][32]byte
	sizes map[string]int64
	extra []string
	tmp   int // entries under $TMPDIR
}

func shard(t *vk.T) {
	fx := os.Getenv("VERIF_FX")
	si, sn := t.Shard()
	root := filepath.Join(t.Scratch(), "sb")
	only := os.Getenv("VERIF_ONLY_OP")
	for idx, it := range items(t) {
		if idx%sn != si {
			continue
		}
		if only != "" && !strings.Contains(it.op.Name+"/"+string(it.sc), only) {
			continue
		}
		runItem(t, fx, root, it)
	}
}

func listAll(root string) []string {
	var out []string
	filepath.Walk(root, func(p string, info os.FileInfo, err error) error {
		if err == nil && p != root {
			r, _ := filepath.Rel(root, p)
			out = append(out, filepath.ToSlash(r))
		}
		return nil
	})
	return out
}

func runItem(t *vk.T, fx, root string, it item) {
	name := it.op.Name + "/" + string(it.sc)
	c, err := build(fx, root, it)
	if err != nil {
		t.Inconclusive("case-build-failed/" + name + ": " + err.Error())
		return
	}
	if it.cli != nil {
		t.Count("cli_ops_observed", 1)
		t.Count("cli_dest_kind/"+string(it.cli.Dest), 1)
	}
	watched := append(append([]string{}, c.Dest...), c.Aux...)
	var bs []*boundary
	m := &osmon.Mon{Scope: root}
	observe := func(k int64, call string) {
		b := &boundary{k: k, call: call, sums: map[string][32]byte{}, sizes: map[string]int64{}}
		for _, d := range watched {
			data, err := os.ReadFile(filepath.Join(root, filepath.FromSlash(d)))
			if err != nil {
				b.sizes[d] = -1
				continue
			}
			b.sums[d] = sha256.Sum256(data)
			b.sizes[d] = int64(len(data))
		}
		for _, p := range listAll(root) {
			if _, ok := c.Pristine[p]; !ok {
				if c.TmpDir != "" && strings.HasPrefix(p, c.TmpDir+"/") {
					b.tmp++
					continue
				}
				b.extra = append(b.extra, p)
			}
		}
		bs = append(bs, b)
	}
	m.Before = func(seq int64, e *osmon.Event) {
		if e.Depth > 0 {
			return
		}
		m.Unhooked(func() {
			r, _ := filepath.Rel(root, e.Path)
			observe(seq, e.Op+" "+r)
		})
	}
	var rerr error
	var pv any
	m.Run(func() { rerr, pv = c.Run() })
	if rerr != nil || pv != nil {
		t.Inconclusive(fmt.Sprintf("fault-free-run-failed/%s: %v %v", name, rerr, pv))
		return
	}
	observe(m.Calls()+1, "end")
	final := bs[len(bs)-1]
	base := "op=" + it.op.Name + "/sc=" + string(it.sc)
	reported := map[string]bool{}
	for _, b := range bs {
		nontrivial := len(b.extra) > 0
		t.Count("tmpdir_entries_at_crash_points", int64(b.tmp))
		for _, d := range watched {
			old := oldEntry(c, d)
			switch {
			case b.sizes[d] >= 0 && b.sums[d] == old.Sum:
				t.Count("state_old", 1)
			case b.sizes[d] >= 0 && b.sums[d] == final.sums[d]:
				t.Count("state_new", 1)
				nontrivial = true
			default:
				class := "torn"
				if b.sizes[d] < 0 {
					class = "missing"
				} else if b.sizes[d] == 0 {
					class = "empty"
				} else if b.sizes[d] < final.sizes[d] {
					class = "partial"
				}
				key := base + "/class=destination-" + class
				if !reported[key] {
					reported[key] = true
					t.Violate(key, fmt.Sprintf("%s: before fs call %d (%s) destination %s holds %d bytes that are neither the old (%d) nor the final (%d) content",
						name, b.k, b.call, d, b.sizes[d], old.Size, final.sizes[d]),
						map[string]any{"op": it.op.Name, "scenario": it.sc, "crash_point": b.k, "next_call": b.call, "dest": d, "size": b.sizes[d]})
				}
			}
		}
		for _, x := range b.extra {
			baseName := filepath.Base(x)
			next := false
			for _, d := range watched {
				if filepath.Dir(d) == filepath.Dir(x) {
					next = true
				}
			}
			if b.call == "end" {
				continue // leftovers after success are C03's subject
			}
			if !strings.HasPrefix(baseName, ".") || !next {
				class := "visible-leftover"
				if !next {
					class = "staging-outside-destination-dir"
				}
				key := base + "/class=" + class
				if !reported[key] {
					reported[key] = true
					t.Violate(key, fmt.Sprintf("%s: before fs call %d (%s) the sandbox holds extra entry %q (crash leftovers must be hidden files next to the destination)", name, b.k, b.call, x),
						map[string]any{"op": it.op.Name, "scenario": it.sc, "crash_point": b.k, "next_call": b.call, "entry": x})
				}
			}
		}
		key := ""
		if nontrivial {
			key = fmt.Sprintf("%s/%d", name, b.k)
		}
		t.Eval(key)
		t.Count("crash_points_observed", 1)
	}
	t.Count("ops_observed", 1)
	if len(bs) > 3 {
		mid := bs[len(bs)/2]
		t.Sample(map[string]any{"op": it.op.Name, "scenario": it.sc, "crash_points": len(bs), "sample_point": mid.k, "next_call": mid.call, "extra_entries": mid.extra, "dest_sizes": mid.sizes})
	}
	if !t.Quick() {
		realKills(t, fx, it, len(bs)-1)
	}
}

// realKills validates the snapshot/kill equivalence: a child runs the same operation with SIGKILL
// injected at call k; the post-mortem destination must be the old bytes or a complete valid output.
func realKills(t *vk.T, fx string, it item, M int) {
	name := it.op.Name + "/" + string(it.sc)
	rng := t.RNG("kills/" + name)
	n := 6
	if it.cli != nil {
		n = 3
	}
	for i := 0; i < n && M > 0; i++ {
		k := 1 + rng.IntN(M)
		if i == 0 {
			k = M // just before the last call (usually close/lstat after the rename)
		}
		root := filepath.Join(t.Scratch(), "kill")
		os.RemoveAll(root)
		spec, _ := json.Marshal(map[string]any{"op": it.op.Name, "sc": it.sc, "k": k, "root": root, "fx": fx})
		cmd := exec.Command(os.Args[0])
		cmd.Env = append(os.Environ(), "VERIF_C02_KILL="+string(spec), "VERIF_SHARD=")
		out, err := cmd.CombinedOutput()
		if err == nil || !strings.Contains(err.Error(), "killed") {
			t.Inconclusive(fmt.Sprintf("kill-child-not-killed/%s k=%d: %v %s", name, k, err, tail(out)))
			continue
		}
		metaB, err := os.ReadFile(root + ".meta")
		if err != nil {
			t.Inconclusive("kill-child-no-meta/" + name)
			continue
		}
		var meta struct {
			Dest []string
			Old  map[string]string
		}
		json.Unmarshal(metaB, &meta)
		for _, d := range meta.Dest {
			full := filepath.Join(root, filepath.FromSlash(d))
			data, err := os.ReadFile(full)
			state := ""
			switch {
			case err != nil:
				state = "missing"
			case fmt.Sprintf("%x", sha256.Sum256(data)) == meta.Old[d]:
				state = "old"
			case !strings.HasSuffix(d, ".pdf") && len(data) > 0:
				state = "new" // non-PDF outputs: cannot be validated independently here; size>0 and != old
			case api.ValidateFile(full, opcat.DefaultConf()) == nil:
				state = "new"
			default:
				// encrypted outputs need a password to validate
				state = "torn"
				for _, pw := range [][2]string{{"u1", "o1"}, {opcat.UserPW, opcat.OwnerPW}, {"u2", opcat.OwnerPW}, {opcat.UserPW, "o2"}} {
					conf := opcat.DefaultConf()
					conf.UserPW, conf.OwnerPW = pw[0], pw[1]
					if api.ValidateFile(full, conf) == nil {
						state = "new"
						break
					}
				}
			}
			t.Count("real_kill_state_"+state, 1)
			t.Count("traces_validated_by_real_kill", 1)
			if state == "missing" || state == "torn" {
				t.Violate("op="+it.op.Name+"/sc="+string(it.sc)+"/class=real-kill-destination-"+state,
					fmt.Sprintf("%s: after SIGKILL at fs call %d destination %s is %s", name, k, d, state),
					map[string]any{"op": it.op.Name, "scenario": it.sc, "kill_at": k, "dest": d})
			}
		}
		t.Eval(fmt.Sprintf("%s/kill/%d", name, k))
		os.RemoveAll(root)
		os.Remove(root + ".meta")
	}
}

func tail(b []byte) string {
	if len(b) > 300 {
		b = b[len(b)-300:]
	}
	return string(b)
}

func killChild(t *vk.T) {
	var spec struct {
		Op   string
		Sc   fileprop.Scenario
		K    int64
		Root string
		Fx   string
	}
	if err := json.Unmarshal([]byte(os.Getenv("VERIF_C02_KILL")), &spec); err != nil {
		fmt.Println("bad spec", err)
		os.Exit(3)
	}
	op, ok := opcat.ByName(spec.Op)
	if !ok && !strings.HasPrefix(spec.Op, "cli:") {
		os.Exit(3)
	}
	op.Name = spec.Op
	it := item{op: op, sc: spec.Sc}
	if strings.HasPrefix(spec.Op, "cli:") {
		ci, ok := cliprop.Find(spec.Op, spec.Sc)
		if !ok {
			os.Exit(3)
		}
		it.cli = &ci
	}
	c, err := build(spec.Fx, spec.Root, it)
	if err != nil {
		fmt.Println("build:", err)
		os.Exit(3)
	}
	watched := append(append([]string{}, c.Dest...), c.Aux...)
	meta := map[string]any{"Dest": watched}
	old := map[string]string{}
	for _, d := range watched {
		old[d] = fmt.Sprintf("%x", oldSum(c, d))
	}
	meta["Old"] = old
	b, _ := json.Marshal(meta)
	os.WriteFile(spec.Root+".meta", b, 0o644)
	m := &osmon.Mon{Scope: spec.Root, Faults: []*osmon.Fault{{At: spec.K, Kind: osmon.Kill}}}
	m.Run(func() { c.Run() })
	fmt.Println("not killed: only", m.Calls(), "calls")
	os.Exit(4)
}
