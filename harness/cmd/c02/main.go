//go:build verifshadow

// C02 — replacing an existing file is atomic at every crash point.
// One fault-free run per (operation, overwrite scenario): before EVERY filesystem call under the
// sandbox the monitor reads each destination path and lists the sandbox tree. A process killed
// between call k-1 and k leaves exactly that state (page cache survives a process crash), so one
// execution yields all M crash states. Thorough tier: sampled real SIGKILLs validate that equivalence.
package main

import (
	"crypto/sha256"
	"encoding/json"
	"fmt"
	"os"
	"os/exec"
	"path/filepath"
	"strings"

	"github.com/pdfcpu/pdfcpu/pkg/api"
	"verif/harness/internal/fileprop"
	"verif/harness/internal/fsx"
	"verif/harness/internal/opcat"
	"verif/harness/internal/osmon"
	"verif/harness/internal/vk"
)

type item struct {
	op opcat.Op
	sc fileprop.Scenario
}

func items() []item {
	var its []item
	for _, op := range opcat.All() {
		for _, sc := range fileprop.Scenarios(op) {
			switch sc {
			case fileprop.InPlace, fileprop.Existing0644, fileprop.Existing0600, fileprop.DirExisting:
				its = append(its, item{op, sc})
			}
		}
	}
	return its
}

func main() {
	vk.Run("C02", "fault_enumeration", func(t *vk.T) {
		api.DisableConfigDir()
		if os.Getenv("VERIF_C02_KILL") != "" {
			killChild(t)
			return
		}
		if !t.IsShard() {
			parent(t)
			return
		}
		shard(t)
	})
}

func parent(t *vk.T) {
	t.Rule("case = (operation, overwrite scenario, crash point k): the destination bytes and the sandbox listing observed immediately before filesystem call k of a fault-free run (= the state a process kill at that point leaves); non-trivial = crash points at which a staging file exists or the destination already holds the new bytes; distinct by (op, scenario, k)")
	t.Assume("process-crash model: page cache survives, so the state before call k equals the post-mortem state of a kill at k (validated by real SIGKILLs in the thorough tier)")
	t.Assume("granularity is the package-os call; a kill inside one write(2) is not modelled (the destination is never written directly when the property holds, and is seen torn at later boundaries when it is)")
	fx := filepath.Join(t.Scratch(), "fx")
	if err := os.MkdirAll(fx, 0o755); err != nil {
		t.Broken("%v", err)
	}
	if err := opcat.Prepare(vk.RepoDir(), fx); err != nil {
		t.Broken("fixtures: %v", err)
	}
	t.Extra("op_scenarios", len(items()))
	t.RunShards(16, "VERIF_FX="+fx)
	if t.Counter("crash_points_observed") == 0 {
		t.Broken("no crash point observed")
	}
}

type boundary struct {
	k     int64
	call  string
	sums  map[string][32]byte
	sizes map[string]int64
	extra []string
}

func shard(t *vk.T) {
	fx := os.Getenv("VERIF_FX")
	si, sn := t.Shard()
	root := filepath.Join(t.Scratch(), "sb")
	for idx, it := range items() {
		if idx%sn != si {
			continue
		}
		runItem(t, fx, root, it)
	}
}

func listAll(root string) []string {
	var out []string
	filepath.Walk(root, func(p string, info os.FileInfo, err error) error {
		if err == nil && p != root {
			r, _ := filepath.Rel(root, p)
			out = append(out, filepath.ToSlash(r))
		}
		return nil
	})
	return out
}

func runItem(t *vk.T, fx, root string, it item) {
	name := it.op.Name + "/" + string(it.sc)
	c, err := fileprop.Build(fx, root, it.op, it.sc)
	if err != nil {
		t.Inconclusive("case-build-failed/" + name + ": " + err.Error())
		return
	}
	var bs []*boundary
	m := &osmon.Mon{Scope: root}
	observe := func(k int64, call string) {
		b := &boundary{k: k, call: call, sums: map[string][32]byte{}, sizes: map[string]int64{}}
		for _, d := range c.Dest {
			data, err := os.ReadFile(filepath.Join(root, filepath.FromSlash(d)))
			if err != nil {
				b.sizes[d] = -1
				continue
			}
			b.sums[d] = sha256.Sum256(data)
			b.sizes[d] = int64(len(data))
		}
		for _, p := range listAll(root) {
			if _, ok := c.Pristine[p]; !ok {
				b.extra = append(b.extra, p)
			}
		}
		bs = append(bs, b)
	}
	m.Before = func(seq int64, e *osmon.Event) {
		if e.Depth > 0 {
			return
		}
		m.Unhooked(func() {
			r, _ := filepath.Rel(root, e.Path)
			observe(seq, e.Op+" "+r)
		})
	}
	var rerr error
	var pv any
	m.Run(func() { rerr, pv = c.Run() })
	if rerr != nil || pv != nil {
		t.Inconclusive(fmt.Sprintf("fault-free-run-failed/%s: %v %v", name, rerr, pv))
		return
	}
	observe(m.Calls()+1, "end")
	final := bs[len(bs)-1]
	base := "op=" + it.op.Name + "/sc=" + string(it.sc)
	reported := map[string]bool{}
	for _, b := range bs {
		nontrivial := len(b.extra) > 0
		for _, d := range c.Dest {
			old := c.Pristine[d]
			switch {
			case b.sizes[d] >= 0 && b.sums[d] == old.Sum:
				t.Count("state_old", 1)
			case b.sizes[d] >= 0 && b.sums[d] == final.sums[d]:
				t.Count("state_new", 1)
				nontrivial = true
			default:
				class := "torn"
				if b.sizes[d] < 0 {
					class = "missing"
				} else if b.sizes[d] == 0 {
					class = "empty"
				} else if b.sizes[d] < final.sizes[d] {
					class = "partial"
				}
				key := base + "/class=destination-" + class
				if !reported[key] {
					reported[key] = true
					t.Violate(key, fmt.Sprintf("%s: before fs call %d (%s) destination %s holds %d bytes that are neither the old (%d) nor the final (%d) content",
						name, b.k, b.call, d, b.sizes[d], old.Size, final.sizes[d]),
						map[string]any{"op": it.op.Name, "scenario": it.sc, "crash_point": b.k, "next_call": b.call, "dest": d, "size": b.sizes[d]})
				}
			}
		}
		for _, x := range b.extra {
			baseName := filepath.Base(x)
			next := false
			for _, d := range c.Dest {
				if filepath.Dir(d) == filepath.Dir(x) {
					next = true
				}
			}
			if b.call == "end" {
				continue // leftovers after success are C03's subject
			}
			if !strings.HasPrefix(baseName, ".") || !next {
				class := "visible-leftover"
				if !next {
					class = "staging-outside-destination-dir"
				}
				key := base + "/class=" + class
				if !reported[key] {
					reported[key] = true
					t.Violate(key, fmt.Sprintf("%s: before fs call %d (%s) the sandbox holds extra entry %q (crash leftovers must be hidden files next to the destination)", name, b.k, b.call, x),
						map[string]any{"op": it.op.Name, "scenario": it.sc, "crash_point": b.k, "next_call": b.call, "entry": x})
				}
			}
		}
		key := ""
		if nontrivial {
			key = fmt.Sprintf("%s/%d", name, b.k)
		}
		t.Eval(key)
		t.Count("crash_points_observed", 1)
	}
	t.Count("ops_observed", 1)
	if len(bs) > 3 {
		mid := bs[len(bs)/2]
		t.Sample(map[string]any{"op": it.op.Name, "scenario": it.sc, "crash_points": len(bs), "sample_point": mid.k, "next_call": mid.call, "extra_entries": mid.extra, "dest_sizes": mid.sizes})
	}
	if !t.Quick() {
		realKills(t, fx, it, len(bs)-1)
	}
}

// realKills validates the snapshot/kill equivalence: a child runs the same operation with SIGKILL
// injected at call k; the post-mortem destination must be the old bytes or a complete valid output.
func realKills(t *vk.T, fx string, it item, M int) {
	name := it.op.Name + "/" + string(it.sc)
	rng := t.RNG("kills/" + name)
	n := 6
	for i := 0; i < n && M > 0; i++ {
		k := 1 + rng.IntN(M)
		if i == 0 {
			k = M // just before the last call (usually close/lstat after the rename)
		}
		root := filepath.Join(t.Scratch(), "kill")
		os.RemoveAll(root)
		spec, _ := json.Marshal(map[string]any{"op": it.op.Name, "sc": it.sc, "k": k, "root": root, "fx": fx})
		cmd := exec.Command(os.Args[0])
		cmd.Env = append(os.Environ(), "VERIF_C02_KILL="+string(spec), "VERIF_SHARD=")
		out, err := cmd.CombinedOutput()
		if err == nil || !strings.Contains(err.Error(), "killed") {
			t.Inconclusive(fmt.Sprintf("kill-child-not-killed/%s k=%d: %v %s", name, k, err, tail(out)))
			continue
		}
		metaB, err := os.ReadFile(root + ".meta")
		if err != nil {
			t.Inconclusive("kill-child-no-meta/" + name)
			continue
		}
		var meta struct {
			Dest []string
			Old  map[string]string
		}
		json.Unmarshal(metaB, &meta)
		for _, d := range meta.Dest {
			full := filepath.Join(root, filepath.FromSlash(d))
			data, err := os.ReadFile(full)
			state := ""
			switch {
			case err != nil:
				state = "missing"
			case fmt.Sprintf("%x", sha256.Sum256(data)) == meta.Old[d]:
				state = "old"
			case !strings.HasSuffix(d, ".pdf") && len(data) > 0:
				state = "new" // non-PDF outputs: cannot be validated independently here; size>0 and != old
			case api.ValidateFile(full, opcat.DefaultConf()) == nil:
				state = "new"
			default:
				// encrypted outputs need a password to validate
				conf := opcat.DefaultConf()
				conf.UserPW, conf.OwnerPW = "u1", "o1"
				if api.ValidateFile(full, conf) == nil {
					state = "new"
				} else {
					state = "torn"
				}
			}
			t.Count("real_kill_state_"+state, 1)
			t.Count("traces_validated_by_real_kill", 1)
			if state == "missing" || state == "torn" {
				t.Violate("op="+it.op.Name+"/sc="+string(it.sc)+"/class=real-kill-destination-"+state,
					fmt.Sprintf("%s: after SIGKILL at fs call %d destination %s is %s", name, k, d, state),
					map[string]any{"op": it.op.Name, "scenario": it.sc, "kill_at": k, "dest": d})
			}
		}
		t.Eval(fmt.Sprintf("%s/kill/%d", name, k))
		os.RemoveAll(root)
		os.Remove(root + ".meta")
	}
}

func tail(b []byte) string {
	if len(b) > 300 {
		b = b[len(b)-300:]
	}
	return string(b)
}

func killChild(t *vk.T) {
	var spec struct {
		Op   string
		Sc   fileprop.Scenario
		K    int64
		Root string
		Fx   string
	}
	if err := json.Unmarshal([]byte(os.Getenv("VERIF_C02_KILL")), &spec); err != nil {
		fmt.Println("bad spec", err)
		os.Exit(3)
	}
	op, ok := opcat.ByName(spec.Op)
	if !ok {
		os.Exit(3)
	}
	c, err := fileprop.Build(spec.Fx, spec.Root, op, spec.Sc)
	if err != nil {
		fmt.Println("build:", err)
		os.Exit(3)
	}
	meta := map[string]any{"Dest": c.Dest}
	old := map[string]string{}
	for _, d := range c.Dest {
		old[d] = fmt.Sprintf("%x", c.Pristine[d].Sum)
	}
	meta["Old"] = old
	b, _ := json.Marshal(meta)
	os.WriteFile(spec.Root+".meta", b, 0o644)
	m := &osmon.Mon{Scope: spec.Root, Faults: []*osmon.Fault{{At: spec.K, Kind: osmon.Kill}}}
	m.Run(func() { c.Run() })
	fmt.Println("not killed: only", m.Calls(), "calls")
	os.Exit(4)
}

var _ = fsx.IsStaging
