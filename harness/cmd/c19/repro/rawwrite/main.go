// rawwrite: api.ReadContext -> api.WriteContext on a file (no validation), then list which objects
// reachable from the trailer of the input are null/dangling in the output (read with pdfstrict).
// usage: rawwrite in.pdf out.pdf [validate]
package main

import (
	"bytes"
	"fmt"
	"os"

	"github.com/pdfcpu/pdfcpu/pkg/api"
	"github.com/pdfcpu/pdfcpu/pkg/pdfcpu/model"
	"verif/harness/internal/pdfstrict"
)

func main() {
	api.DisableConfigDir()
	in, err := os.ReadFile(os.Args[1])
	if err != nil {
		panic(err)
	}
	c := model.NewDefaultConfiguration()
	c.Offline = true
	c.Optimize, c.OptimizeBeforeWriting = false, false
	c.WriteObjectStream, c.WriteXRefStream = false, false
	var ctx *model.Context
	if len(os.Args) > 3 {
		ctx, err = api.ReadAndValidate(bytes.NewReader(in), c)
	} else {
		ctx, err = api.ReadContext(bytes.NewReader(in), c)
	}
	if err != nil {
		panic(err)
	}
	var buf bytes.Buffer
	if err := api.WriteContext(ctx, &buf); err != nil {
		panic(err)
	}
	os.WriteFile(os.Args[2], buf.Bytes(), 0o644)
	a, _ := pdfstrict.Open(in, pdfstrict.Options{})
	b, err := pdfstrict.Open(buf.Bytes(), pdfstrict.Options{})
	fmt.Println("output open err:", err, "defects:", b.DefectKinds())
	// object numbers are kept by the writer: compare by number
	for _, n := range a.Objects() {
		oa, _ := a.Get(pdfstrict.Ref{Num: n})
		e, _ := a.Entry(n)
		ob, _ := b.Get(pdfstrict.Ref{Num: n, Gen: e.Gen})
		if !pdfstrict.IsNull(oa) && pdfstrict.IsNull(ob) {
			ob0, _ := b.Get(pdfstrict.Ref{Num: n, Gen: 0})
			fmt.Printf("obj %d gen %d (%T, xref type %d) is missing from the output (gen 0 lookup: %T)\n", n, e.Gen, oa, e.Type, ob0)
		}
	}
}
