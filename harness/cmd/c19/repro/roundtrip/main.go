// roundtrip: a small document with (a) an Info /CreationDate, (b) private entries in the catalog, a
// page and a page tree node that refer to indirect objects, (c) a catalog /PieceInfo, through
// api.ReadAndValidate -> api.WriteContext (or api.Optimize with argument "optimize"); prints what
// pdfstrict finds different in the output.
package main

import (
	"bytes"
	"fmt"
	"os"

	"github.com/pdfcpu/pdfcpu/pkg/api"
	"github.com/pdfcpu/pdfcpu/pkg/pdfcpu/model"
	"verif/harness/internal/docfp"
	g "verif/harness/internal/pdfgen"
	"verif/harness/internal/pdfstrict"
)

func main() {
	api.DisableConfigDir()
	doc := g.NewDoc()
	pages := doc.Alloc()
	font := doc.Add(g.D("Type", g.Name("Font"), "Subtype", g.Name("Type1"), "BaseFont", g.Name("Helvetica")))
	content := doc.Add(&g.Stream{Dict: g.Dict{}, Data: []byte("BT /F1 12 Tf 72 700 Td (hello) Tj ET\n")})
	private := func(s string) g.Ref { return doc.Add(g.D("Type", g.Name("VerifExt"), "Note", g.String(s))) }
	page := doc.Add(g.D("Type", g.Name("Page"), "Parent", pages, "MediaBox", g.Rect(0, 0, 300, 400), "Contents", content,
		"Resources", g.D("Font", g.D("F1", font)), "VerifPageExt", private("held by a page")))
	doc.Put(pages, g.D("Type", g.Name("Pages"), "Kids", g.Array{page}, "Count", 1, "VerifNodeExt", private("held by a page tree node")))
	doc.SetRoot(doc.Add(g.D("Type", g.Name("Catalog"), "Pages", pages, "VerifExt", private("held by the catalog"),
		"PieceInfo", g.D("VerifApp", g.D("LastModified", g.String("D:20240102030405+00'00'"), "Private", private("page-piece data"))))))
	doc.SetInfo(doc.Add(g.D("Title", g.String("t"), "CreationDate", g.String("D:19990102030405+00'00'"), "ModDate", g.String("D:20240102030405+00'00'"))))
	in := g.MustWrite(doc, g.Options{}).Bytes

	c := model.NewDefaultConfiguration()
	c.Offline = true
	var out bytes.Buffer
	if len(os.Args) > 1 && os.Args[1] == "optimize" {
		if err := api.Optimize(bytes.NewReader(in), &out, c); err != nil {
			panic(err)
		}
	} else {
		c.Optimize, c.OptimizeBeforeWriting = false, false
		ctx, err := api.ReadAndValidate(bytes.NewReader(in), c)
		if err != nil {
			panic(err)
		}
		if err := api.WriteContext(ctx, &out); err != nil {
			panic(err)
		}
	}
	a, _ := pdfstrict.Open(in, pdfstrict.Options{})
	b, err := pdfstrict.Open(out.Bytes(), pdfstrict.Options{})
	if err != nil {
		panic(err)
	}
	ia, _ := a.ResolveDict(a.Trailer()["Info"])
	ib, _ := b.ResolveDict(b.Trailer()["Info"])
	fmt.Printf("Info /CreationDate: %q -> %q\n", ia["CreationDate"], ib["CreationDate"])
	r := docfp.Rules{InfoDrop: map[string]bool{"Producer": true, "ModDate": true, "CreationDate": true}}
	ga, gb := docfp.New(a, r), docfp.New(b, r)
	ta, tb := ga.Top(), gb.Top()
	col := docfp.Refine(ga, gb)
	for _, d := range col.Differences(0, ta, 1, tb, 10) {
		fmt.Println(d)
	}
}
