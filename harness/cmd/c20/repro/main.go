// repro: one optimiser scenario of pdfgen.BuildOpt through api.Optimize; prints, per page, what every
// resource name used by the page content resolves to before and after (read with pdfstrict).
//
//	go run -tags verif ./cmd/c20/repro font-null-entry-vs-value [seed] [dedup-content]
//
// Scenarios that show a defect on the unpatched tree: font-null-entry-vs-value, image-null-entry-vs-value
// (null compares equal to any value), res-name-escape (/F#31), form-legacy-no-resources,
// res-inline-image-then-do, content-same-raw-other-parms (with dedup-content).
package main

import (
	"bytes"
	"fmt"
	"math/rand/v2"
	"os"
	"strconv"

	"github.com/pdfcpu/pdfcpu/pkg/api"
	"github.com/pdfcpu/pdfcpu/pkg/pdfcpu/model"
	"verif/harness/internal/docfp"
	"verif/harness/internal/pdfgen"
	"verif/harness/internal/pdfstrict"
)

func main() {
	api.DisableConfigDir()
	if len(os.Args) < 2 {
		fmt.Println("scenarios:", pdfgen.OptScenarios)
		return
	}
	seed := uint64(1)
	if len(os.Args) > 2 {
		n, _ := strconv.Atoi(os.Args[2])
		seed = uint64(n)
	}
	bt := pdfgen.BuildOpt(rand.New(rand.NewPCG(seed, 20)), 1, os.Args[1])
	c := model.NewDefaultConfiguration()
	c.Offline = true
	if len(os.Args) > 3 && os.Args[3] == "dedup-content" {
		c.OptimizeDuplicateContentStreams = true
	}
	var out bytes.Buffer
	if err := api.Optimize(bytes.NewReader(bt.Bytes), &out, c); err != nil {
		fmt.Println("api.Optimize:", err)
		return
	}
	x, _ := pdfstrict.Open(bt.Bytes, pdfstrict.Options{})
	y, err := pdfstrict.Open(out.Bytes(), pdfstrict.Options{})
	if err != nil {
		fmt.Println("output unreadable:", err)
		return
	}
	gx, gy := docfp.New(x, docfp.Rules{}), docfp.New(y, docfp.Rules{})
	px, _ := gx.Pages(nil)
	py, _ := gy.Pages(nil)
	col := docfp.Refine(gx, gy)
	fmt.Printf("pages %d -> %d, objects %d -> %d\n", len(px), len(py), len(x.Objects()), len(y.Objects()))
	for i := range px {
		if i >= len(py) {
			break
		}
		a, b := px[i], py[i]
		fmt.Printf("page %d: content %d bytes %s -> %d bytes %s\n", i+1, a.ContentLen, a.ContentHash[:8], b.ContentLen, b.ContentHash[:8])
		for _, u := range a.Uses {
			same := col.Same(0, a.Res[u], 1, b.Res[u])
			fmt.Printf("   /%s (%s): %s -> %s   same=%v\n", u.Name, u.Cat, gx.Describe(a.Res[u]), gy.Describe(b.Res[u]), same)
			if !same {
				for _, d := range col.Differences(0, a.Res[u], 1, b.Res[u], 3) {
					fmt.Println("      ", d)
				}
			}
		}
	}
}
