// C20 — optimisation never changes what a document shows.
//
// x -> y = api.OptimizeFile(x) -> z = api.OptimizeFile(y). pdfstrict (independent reader) reads x,
// y and z. Per page a fingerprint is taken (internal/docfp): decoded content bytes; effective
// MediaBox/CropBox (after inheritance), BleedBox/TrimBox/ArtBox; Rotate; UserUnit; and for every
// resource name USED by an operator of the content (Do, Tf, gs, cs/CS, scn/SCN, sh, BDC/DP, inline
// image /CS) the content identity of what the name resolves to (colour of a partition refinement
// over both documents: blind to object numbers, to merged identical objects and to direct/indirect).
// Names used by the content of a form XObject that has no /Resources of its own are resolved
// against the page's resources too, and so on through the resource-less forms it paints (any depth). Oracle: same page count and order, equal fingerprints x vs y;
// y vs z: same number of objects and the same strict canonical form (idempotence).
package main

import (
	"encoding/json"
	"fmt"
	"os"
	"path/filepath"
	"sort"
	"strings"
	"sync"

	"github.com/pdfcpu/pdfcpu/pkg/api"
	"github.com/pdfcpu/pdfcpu/pkg/pdfcpu/model"
	"verif/harness/internal/docfp"
	"verif/harness/internal/pdfgen"
	"verif/harness/internal/pdfstrict"
	"verif/harness/internal/vk"
)

type variant struct {
	Name       string `json:"name"`
	XRefStream bool   `json:"xref_stream"`
	ObjStream  bool   `json:"object_stream"`
}

func (v variant) conf() *model.Configuration {
	c := model.NewDefaultConfiguration()
	c.Offline = true
	c.WriteXRefStream, c.WriteObjectStream = v.XRefStream, v.ObjStream
	switch v.Name {
	case "dedup-content":
		c.OptimizeDuplicateContentStreams = true
	case "keep-resdicts":
		c.OptimizeResourceDicts = false
	}
	return c
}

func safely(f func() error) (err error) {
	defer func() {
		if r := recover(); r != nil {
			err = fmt.Errorf("panic: %v", r)
		}
	}()
	return f()
}

type job struct {
	Kind string `json:"kind"` // opt | gen | corpus
	Idx  int    `json:"idx"`
	Name string `json:"name,omitempty"`
	JI   int    `json:"ji"`
}

type replayCase struct {
	Job     job     `json:"job"`
	Variant variant `json:"variant"`
	Detail  string  `json:"detail,omitempty"`
}

type worker struct {
	t       *vk.T
	scratch string
	mu      sync.Mutex
	sampled int
}

func corpusFiles(limit int64) []string {
	root := filepath.Join(vk.RepoDir(), "pkg", "testdata")
	var out []string
	for _, g := range []string{"*.pdf", "*.PDF", "pdf20/*.pdf"} {
		m, _ := filepath.Glob(filepath.Join(root, g))
		for _, f := range m {
			if st, err := os.Stat(f); err == nil && st.Size() <= limit {
				out = append(out, f)
			}
		}
	}
	sort.Strings(out)
	return out
}

func main() {
	vk.Run("C20", "exploration", func(t *vk.T) {
		api.DisableConfigDir()
		t.Rule("case = (document, optimiser variant in {default, dedup-content (OptimizeDuplicateContentStreams), keep-resdicts (OptimizeResourceDicts=false)}, writer {xref stream} x {object stream}); documents: pdfgen.BuildOpt (3-8 of 43 scenarios: exact and near duplicate fonts/images/forms/content streams, shared/inherited/unused/unreferenced resources, resources used only by form content, chains (depth 1-4, diamond, every level using its own page resource, middle form with own /Resources, inherited or shared page resources) of form XObjects without /Resources whose innermost form draws each resource category from the page, name escapes, inline images, property lists), pdfgen.RandomSpec with duplicates and unreferenced objects, corpus files pdfstrict reads without defect; non-trivial = distinct (document, variant, writer) whose optimised output was read back and compared")
		t.Assume("what a page shows = decoded content bytes, effective boxes, Rotate, UserUnit and the content identity of every resource its content operators name; rendering is not performed")
		t.Assume("content identity: decoded stream data, dictionaries without /Length /Filter /DecodeParms /DL, null entries = absent, numbers to 12 fractional digits; the subset tag of /BaseFont in font dictionaries (ABCDEF+) and /PieceInfo of form XObjects are not part of what is shown")
		t.Assume("idempotence is judged on outputs of the same variant and writer configuration: number of in-use objects and strict canonical form from Root+Info (Info Producer/ModDate/CreationDate ignored)")
		w := &worker{t: t, scratch: t.Scratch()}
		if t.Replay != nil {
			var rc replayCase
			if err := json.Unmarshal(t.Replay.Case, &rc); err != nil {
				t.Broken("replay case: %v", err)
			}
			w.runJob(rc.Job)
			return
		}
		var jobs []job
		for i := 0; i < t.Pick(300, 3000); i++ {
			jobs = append(jobs, job{Kind: "opt", Idx: i, JI: len(jobs)})
		}
		for i := 0; i < t.Pick(100, 1000); i++ {
			jobs = append(jobs, job{Kind: "gen", Idx: i, JI: len(jobs)})
		}
		root := filepath.Join(vk.RepoDir(), "pkg", "testdata") + "/"
		for i, f := range corpusFiles(int64(t.Pick(400_000, 3_000_000))) {
			jobs = append(jobs, job{Kind: "corpus", Idx: i, Name: strings.TrimPrefix(f, root), JI: len(jobs)})
		}
		vk.Parallel(len(jobs), func(i int) { w.runJob(jobs[i]) })
	})
}

func (w *worker) input(j job) (in []byte, name string, scen []string, pageScen []string) {
	switch j.Kind {
	case "opt":
		rng := w.t.RNGi("c20opt", j.Idx)
		bt := pdfgen.BuildOpt(rng, 3+rng.IntN(6))
		for _, p := range bt.Pages {
			pageScen = append(pageScen, p.Scenario)
			// parameters drawn by the nested-form scenarios: "depth=3 cats=Font,Shading [..]"
			for _, f := range strings.Fields(p.Detail) {
				switch {
				case strings.HasPrefix(f, "depth="):
					w.t.Count("form_chain/"+f, 1)
				case strings.HasPrefix(f, "cats="):
					for _, c := range strings.Split(strings.TrimPrefix(f, "cats="), ",") {
						w.t.Count("form_chain/innermost_uses="+c, 1)
					}
				default:
					w.t.Count("form_chain/"+f, 1)
				}
			}
		}
		return bt.Bytes, fmt.Sprintf("opt#%d[%s]", j.Idx, strings.Join(bt.Scenarios, ",")), bt.Scenarios, pageScen
	case "gen":
		rng := w.t.RNGi("c20gen", j.Idx)
		spec := pdfgen.RandomSpec(rng, 8)
		spec.Duplicates, spec.XObjects, spec.SharedResources = true, true, true
		spec.Unreferenced = rng.IntN(2) == 0
		spec.Signatures = 0
		bt := pdfgen.Build(spec)
		return bt.Bytes, fmt.Sprintf("gen#%d", j.Idx), nil, nil
	}
	b, err := os.ReadFile(filepath.Join(vk.RepoDir(), "pkg", "testdata", j.Name))
	if err != nil {
		return nil, j.Name, nil, nil
	}
	return b, j.Name, nil, nil
}

var benign = map[string]bool{pdfstrict.KindXRefOriginalSubsect: true, pdfstrict.KindEOFTrailing: true,
	pdfstrict.KindFreeNotOnChain: true, pdfstrict.KindFreeHeadGen: true}

func (w *worker) optimize(in []byte, v variant, id string) ([]byte, error) {
	inF := filepath.Join(w.scratch, "in-"+id+".pdf")
	outF := filepath.Join(w.scratch, "out-"+id+".pdf")
	defer os.Remove(inF)
	defer os.Remove(outF)
	if err := os.WriteFile(inF, in, 0o644); err != nil {
		return nil, err
	}
	if err := safely(func() error { return api.OptimizeFile(inF, outF, v.conf()) }); err != nil {
		return nil, err
	}
	return os.ReadFile(outF)
}

// fpRules: what is NOT part of what a page shows.
func fpRules() docfp.Rules {
	return docfp.Rules{StripSubsetTags: true}
}

func idemRules() docfp.Rules {
	return docfp.Rules{InfoDrop: map[string]bool{"Producer": true, "ModDate": true, "CreationDate": true}, RootDrop: map[string]bool{"Version": true}}
}

var formDrop = map[string]bool{"PieceInfo": true}

func (w *worker) runJob(j job) {
	t := w.t
	in, name, scen, pageScen := w.input(j)
	if in == nil {
		return
	}
	x, err := pdfstrict.Open(in, pdfstrict.Options{})
	if err != nil {
		t.Count("inputs_skipped/pdfstrict_cannot_read/"+j.Kind, 1)
		return
	}
	if x.Encrypted {
		t.Count("inputs_skipped/encrypted", 1)
		return
	}
	xp, perr := x.Pages()
	for _, d := range x.Defects {
		if !benign[d.Kind] {
			t.Count("inputs_skipped/pdfstrict_defect/"+j.Kind+"/"+d.Kind, 1)
			return
		}
	}
	if perr != nil || len(xp) == 0 {
		t.Count("inputs_skipped/no_pages", 1)
		return
	}
	rng := t.RNGi("c20variant", j.JI)
	v := variant{Name: "default", XRefStream: rng.IntN(2) == 0, ObjStream: rng.IntN(2) == 0}
	switch rng.IntN(10) {
	case 0, 1, 2:
		v.Name = "dedup-content"
	case 3, 4:
		v.Name = "keep-resdicts"
	}
	if t.Replay != nil {
		var rc replayCase
		if json.Unmarshal(t.Replay.Case, &rc) == nil {
			v = rc.Variant
		}
	}
	rc := replayCase{Job: j, Variant: v}
	prefix := "path=optimize/" + v.Name + "/"
	viol := func(key, what string) {
		c := rc
		c.Detail = what
		if os.Getenv("C20_ALL") != "" {
			fmt.Fprintf(os.Stderr, "ALL %s%s | %s | %s\n", prefix, key, name, what)
		}
		t.Violate(prefix+key, fmt.Sprintf("%s [%s xrefstm=%v objstm=%v]: %s", name, v.Name, v.XRefStream, v.ObjStream, what), c)
	}
	id := fmt.Sprintf("%d", j.JI)
	yb, err := w.optimize(in, v, id)
	if err != nil {
		// a refusal or crash is not a C20 matter (C08/C21): counted with its class, not judged
		kind := "error"
		if strings.HasPrefix(err.Error(), "panic:") {
			kind = "panic"
		}
		t.Count("optimize_"+kind+"/"+j.Kind, 1)
		for _, s := range scen {
			if len(scen) == 1 {
				t.Count("optimize_"+kind+"_scenario/"+s, 1)
			}
		}
		if os.Getenv("C20_VERBOSE") != "" {
			fmt.Fprintf(os.Stderr, "  %s [%s]: %v\n", name, v.Name, err)
		}
		t.Eval("")
		return
	}
	if d := os.Getenv("C20_DUMP"); d != "" && t.Replay != nil {
		_ = os.WriteFile(filepath.Join(d, fmt.Sprintf("c20-%s-%d-in.pdf", j.Kind, j.Idx)), in, 0o644)
		_ = os.WriteFile(filepath.Join(d, fmt.Sprintf("c20-%s-%d-out.pdf", j.Kind, j.Idx)), yb, 0o644)
	}
	t.Eval(fmt.Sprintf("%s|%d|%s|%s|%v|%v", j.Kind, j.Idx, j.Name, v.Name, v.XRefStream, v.ObjStream))
	t.Count("compared/"+j.Kind, 1)
	t.Count("variant/"+v.Name, 1)
	for _, s := range scen {
		t.Count("scenario/"+s, 1)
	}
	y, err := pdfstrict.Open(yb, pdfstrict.Options{})
	if err != nil {
		viol("class=output-unreadable", "pdfstrict cannot read the optimised file: "+err.Error())
		return
	}
	// ---- what the pages show, before and after
	gx, gy := docfp.New(x, fpRules()), docfp.New(y, fpRules())
	px, errX := gx.Pages(formDrop)
	py, errY := gy.Pages(formDrop)
	if errX != nil || errY != nil {
		viol("class=page-tree-unreadable", fmt.Sprintf("pages of input: %v, of output: %v", errX, errY))
		return
	}
	// every object of the input, so that "substituted by another object of the input" can be told
	topX := gx.Top()
	col := docfp.Refine(gx, gy)
	inputColours := map[string]bool{}
	for i := range gx.Nodes {
		inputColours[col.Color(0, docfp.Val{N: i})] = true
	}
	_ = topX
	if len(px) != len(py) {
		viol("class=page-count", fmt.Sprintf("%d pages before, %d after", len(px), len(py)))
		return
	}
	t.Count("pages_compared", int64(len(px)))
	for i := range px {
		a, b := px[i], py[i]
		ps, sk := "", ""
		if i < len(pageScen) {
			// generated pages: the construction the page belongs to is part of WHAT fails
			ps, sk = " (scenario "+pageScen[i]+")", "/scenario="+pageScen[i]
		}
		if a.ContentHash != b.ContentHash || a.ContentErr != b.ContentErr {
			viol("class=page-content-changed"+sk, fmt.Sprintf("page %d%s: decoded content %d bytes (%s) -> %d bytes (%s) %s", i+1, ps, a.ContentLen, a.ContentHash[:12], b.ContentLen, b.ContentHash[:12], b.ContentErr))
			continue
		}
		for _, bn := range docfp.BoxNames {
			if a.Boxes[bn] != b.Boxes[bn] {
				viol("class=page-box-changed/box="+bn, fmt.Sprintf("page %d%s: %s %q -> %q", i+1, ps, bn, a.Boxes[bn], b.Boxes[bn]))
			}
		}
		if a.Rotate != b.Rotate {
			viol("class=page-rotate-changed", fmt.Sprintf("page %d%s: Rotate %d -> %d", i+1, ps, a.Rotate, b.Rotate))
		}
		if a.UserUnit != b.UserUnit {
			viol("class=page-userunit-changed", fmt.Sprintf("page %d%s: UserUnit %q -> %q", i+1, ps, a.UserUnit, b.UserUnit))
		}
		t.Count("resource_uses_compared", int64(len(a.Uses)))
		for _, u := range a.Uses {
			va, vb := a.Res[u], b.Res[u]
			if col.Same(0, va, 1, vb) {
				continue
			}
			if !va.IsNode() && va.S == "!missing" {
				// a name the input does not define either: whatever the optimiser makes of it shows nothing new...
				// unless it now resolves: that is a change as well
			}
			how, diff, det := "altered", "", ""
			switch {
			case !vb.IsNode() && vb.S == "!missing":
				how = "dropped"
			case inputColours[col.Color(1, vb)]:
				how = "substituted"
			}
			if ds := col.Differences(0, va, 1, vb, 1); len(ds) > 0 && how != "dropped" {
				diff, det = "/diff="+ds[0].Where+"/"+ds[0].Kind, ds[0].String()
			}
			viol("class=page-resource-changed/cat="+u.Cat+"/how="+how+diff+sk,
				fmt.Sprintf("page %d%s: /%s (%s) resolved to %s, now to %s %s", i+1, ps, u.Name, u.Cat, gx.Describe(va), gy.Describe(vb), det))
		}
	}
	// ---- observed effect of the optimiser (evidence, not judged)
	nx, ny := len(x.Objects()), len(y.Objects())
	if ny < nx {
		t.Count("outputs_with_fewer_objects", 1)
		t.Count("objects_removed_total", int64(nx-ny))
	}
	// ---- idempotence
	zb, err := w.optimize(yb, v, id+"b")
	if err != nil {
		viol("class=not-idempotent/what=second-run-fails", "optimising the optimised file fails: "+err.Error())
		return
	}
	z, err := pdfstrict.Open(zb, pdfstrict.Options{})
	if err != nil {
		viol("class=output-unreadable/run=2", "pdfstrict cannot read the twice optimised file: "+err.Error())
		return
	}
	t.Count("idempotence_checked", 1)
	if nz := len(z.Objects()); nz != ny {
		viol("class=not-idempotent/what=object-count", fmt.Sprintf("%d objects after one optimisation, %d after two (input %d)", ny, nz, nx))
	}
	g1, g2 := docfp.New(y, idemRules()), docfp.New(z, idemRules())
	t1, t2 := g1.Top(), g2.Top()
	if s1, s2 := g1.Strict(t1), g2.Strict(t2); s1 != s2 {
		c2 := docfp.Refine(g1, g2)
		ds := c2.Differences(0, t1, 1, t2, 3)
		where, det := "representation-only", "the strict canonical forms differ although the graphs are equal up to merging/direct-indirect"
		if len(ds) > 0 {
			where, det = ds[0].Where+"/"+ds[0].Kind, ds[0].String()
		}
		viol("class=not-idempotent/what=canonical-form/where="+where, det)
	}
	w.mu.Lock()
	if j.JI%41 == 0 && j.JI/41 < 8 { // a fixed set of cases, independent of scheduling
		w.sampled++
		t.Sample(map[string]any{"document": name, "variant": v, "pages": len(px), "objects_input": nx, "objects_optimised": ny, "refine_rounds": col.Rounds})
	}
	w.mu.Unlock()
}
